import Holpy.C08.Reach
/-
C08 helper lemmas, part 7: `unify` and `infer` keep the reachability invariant.
-/
namespace Holpy.C08

theorem unionStep_rinv {st st' : St} {T1 T2 : Ty}
    (h : (if T1.isInternal then union st T1 T2 else if T2.isInternal then union st T2 T1 else .error .clash) = .ok st')
    (ri : RInv st) : RInv st' := by
  by_cases c1 : T1.isInternal = true
  · simp only [c1, if_true] at h; exact union_rinv h ri
  · simp only [c1] at h
    by_cases c2 : T2.isInternal = true
    · simp only [c2, if_true] at h; exact union_rinv h ri
    · simp [c2] at h

theorem unifyArgs_rinv {u : St → Ty → Ty → Except Err St}
    (hu : ∀ st a b st', u st a b = .ok st' → RInv st → RInv st') :
    ∀ (as bs : List Ty) (st st' : St), unifyArgs u st as bs = .ok st' → RInv st → RInv st' := by
  intro as
  induction as with
  | nil => intro bs st st' h ri; simp [unifyArgs] at h; subst h; exact ri
  | cons a as ih =>
    intro bs st st' h ri
    cases bs with
    | nil => simp [unifyArgs] at h; subst h; exact ri
    | cons b bs =>
      simp only [unifyArgs, bind, Except.bind] at h
      cases h1 : u st a b with
      | error e => simp [h1] at h
      | ok st1 =>
        simp only [h1] at h
        exact ih bs st1 st' h (hu st a b st1 h1 ri)

theorem unify_rinv : ∀ (fuel : Nat) (st : St) (A B : Ty) (st' : St),
    unify fuel st A B = .ok st' → RInv st → RInv st' := by
  intro fuel
  induction fuel with
  | zero => intro st A B st' h; simp [unify] at h
  | succ f ih =>
    intro st A B st' h ri
    simp only [unify, bind, Except.bind] at h
    cases hA : lookupRep st A with
    | error e => simp [hA] at h
    | ok T1 =>
      cases hB : lookupRep st B with
      | error e => simp [hA, hB] at h
      | ok T2 =>
        simp only [hA, hB] at h
        cases T1 with
        | tvar n1 =>
          cases T2 with
          | tvar n2 =>
            simp only at h
            split at h
            · cases h; exact ri
            · cases h
          | stvar n2 => exact unionStep_rinv h ri
          | con n2 as2 => exact unionStep_rinv h ri
        | stvar n1 =>
          cases T2 with
          | tvar n2 => exact unionStep_rinv h ri
          | stvar n2 =>
            simp only at h
            split at h
            · cases h; exact ri
            · exact unionStep_rinv h ri
          | con n2 as2 => exact unionStep_rinv h ri
        | con n1 as1 =>
          cases T2 with
          | tvar n2 => exact unionStep_rinv h ri
          | stvar n2 => exact unionStep_rinv h ri
          | con n2 as2 =>
            simp only at h
            split at h
            · split at h
              · cases h
              · exact unifyArgs_rinv (fun st a b st' => ih st a b st') as1 as2 st st' h ri
            · cases h

theorem allocFor_rinv : ∀ (vs : List String) (st : St), RInv st → RInv (allocFor vs st).2 := by
  intro vs
  induction vs with
  | nil => intro st ri; simpa [allocFor] using ri
  | cons v vs ih => intro st ri; simp only [allocFor]; exact ih _ (newType_rinv ri)

theorem rinv_ctx {st : St} (ri : RInv st) (ic isc : List (String × Ty)) :
    RInv { st with ictx := ic, isctx := isc } :=
  ⟨ri.rlen, ri.edge, ri.irrefl, ri.trans⟩

/-- the whole traversal keeps the reachability invariant -/
theorem infer_rinv (ctx : Ctx) (fuel : Nat) :
    ∀ (t : Skel) (bd : List Ty) (st : St) (t' : Skel) (T : Ty) (st' : St),
      infer ctx fuel t bd st = .ok (t', T, st') → RInv st → RInv st' := by
  intro t
  induction t with
  | svar n T0 =>
    intro bd st t' T st' h ri
    cases T0 with
    | some A =>
      simp only [infer] at h
      split at h
      · cases h
      · simp only [Except.ok.injEq, Prod.mk.injEq] at h; obtain ⟨-, -, rfl⟩ := h; exact ri
    | none =>
      simp only [infer] at h
      cases hd : ctx.svars.lookup n with
      | some D =>
        simp only [hd] at h
        split at h
        · cases h
        · simp only [Except.ok.injEq, Prod.mk.injEq] at h; obtain ⟨-, -, rfl⟩ := h; exact ri
      | none =>
        simp only [hd] at h
        cases hi : st.isctx.lookup n with
        | some D => simp only [hi, Except.ok.injEq, Prod.mk.injEq] at h; obtain ⟨-, -, rfl⟩ := h; exact ri
        | none =>
          simp only [hi, Except.ok.injEq, Prod.mk.injEq] at h
          obtain ⟨-, -, rfl⟩ := h
          exact rinv_ctx (newType_rinv ri) _ _
  | var n T0 =>
    intro bd st t' T st' h ri
    cases T0 with
    | some A =>
      simp only [infer] at h
      split at h
      · cases h
      · simp only [Except.ok.injEq, Prod.mk.injEq] at h; obtain ⟨-, -, rfl⟩ := h; exact ri
    | none =>
      simp only [infer] at h
      cases hd : ctx.vars.lookup n with
      | some D =>
        simp only [hd] at h
        split at h
        · cases h
        · simp only [Except.ok.injEq, Prod.mk.injEq] at h; obtain ⟨-, -, rfl⟩ := h; exact ri
      | none =>
        simp only [hd] at h
        cases hi : st.ictx.lookup n with
        | some D => simp only [hi, Except.ok.injEq, Prod.mk.injEq] at h; obtain ⟨-, -, rfl⟩ := h; exact ri
        | none =>
          simp only [hi, Except.ok.injEq, Prod.mk.injEq] at h
          obtain ⟨-, -, rfl⟩ := h
          exact rinv_ctx (newType_rinv ri) _ _
  | const n T0 =>
    intro bd st t' T st' h ri
    cases T0 with
    | some A =>
      simp only [infer] at h
      split at h
      · cases h
      · simp only [Except.ok.injEq, Prod.mk.injEq] at h; obtain ⟨-, -, rfl⟩ := h; exact ri
    | none =>
      simp only [infer] at h
      cases hs : ctx.sig.lookup n with
      | none =>
        simp only [hs] at h
        cases hdf : ctx.defs.lookup n with
        | none => simp [hdf] at h
        | some D =>
          simp only [hdf] at h
          split at h
          · cases h
          · simp only [Except.ok.injEq, Prod.mk.injEq] at h
            obtain ⟨-, -, rfl⟩ := h
            exact allocFor_rinv _ _ ri
      | some S =>
        simp only [hs] at h
        cases hst : S.hasStvar with
        | true => simp [hst] at h
        | false =>
          simp only [hst, Bool.false_eq_true, if_false, Except.ok.injEq, Prod.mk.injEq] at h
          obtain ⟨-, -, rfl⟩ := h
          exact allocFor_rinv _ _ ri
  | comb f a ihf iha =>
    intro bd st t' T st' h ri
    simp only [infer, bind, Except.bind] at h
    cases hf : infer ctx fuel f bd st with
    | error e => simp [hf] at h
    | ok r1 =>
      obtain ⟨f', funT, st1⟩ := r1
      simp only [hf] at h
      cases ha : infer ctx fuel a bd st1 with
      | error e => simp [ha] at h
      | ok r2 =>
        obtain ⟨a', argT, st2⟩ := r2
        simp only [ha] at h
        have r2 := iha bd st1 a' argT st2 ha (ihf bd st f' funT st1 hf ri)
        split at h
        · rename_i d rest
          cases hu : unify fuel st2 d argT with
          | error e => simp [hu] at h
          | ok st3 =>
            simp only [hu] at h
            cases rest with
            | nil => simp at h
            | cons r rest' =>
              simp only [Except.ok.injEq, Prod.mk.injEq] at h
              obtain ⟨-, -, rfl⟩ := h
              exact unify_rinv fuel st2 d argT st3 hu r2
        · simp at h
        · rename_i k
          cases hu : unify fuel (newType st2).2 (Ty.stvar (TName.internal k)) (tfun argT (newType st2).1) with
          | error e => simp [hu] at h
          | ok st4 =>
            simp only [hu, Except.ok.injEq, Prod.mk.injEq] at h
            obtain ⟨-, -, rfl⟩ := h
            exact unify_rinv fuel _ _ _ st4 hu (newType_rinv r2)
        · simp at h
  | abs x T0 b ih =>
    intro bd st t' T st' h ri
    cases T0 with
    | some A =>
      simp only [infer] at h
      split at h
      · cases h
      · cases hb : infer ctx fuel b (A :: bd) st with
        | error e => simp [hb] at h
        | ok r =>
          obtain ⟨b', bodyT, st2⟩ := r
          simp only [hb, Except.ok.injEq, Prod.mk.injEq] at h
          obtain ⟨-, -, rfl⟩ := h
          exact ih _ _ _ _ _ hb ri
    | none =>
      simp only [infer] at h
      cases hb : infer ctx fuel b ((newType st).1 :: bd) (newType st).2 with
      | error e => simp [hb] at h
      | ok r =>
        obtain ⟨b', bodyT, st2⟩ := r
        simp only [hb, Except.ok.injEq, Prod.mk.injEq] at h
        obtain ⟨-, -, rfl⟩ := h
        exact ih _ _ _ _ _ hb (newType_rinv ri)
  | bound i =>
    intro bd st t' T st' h ri
    simp only [infer] at h
    cases hb : bd[i]? with
    | none => simp [hb] at h
    | some B =>
      simp only [hb, Except.ok.injEq, Prod.mk.injEq] at h
      obtain ⟨-, -, rfl⟩ := h
      exact ri

end Holpy.C08
