import Holpy.C08.Principal
import Holpy.C08.Props2
/-
C08 — property theorems, part 3: completeness and principality of the whole of `type_infer`
(model: Model.lean).  Vocabulary: Spec2.lean (`Compl` = "u is a completion of the skeleton", `checkedGetType2`
= `checked_get_type` with `fun` applied to exactly two types, `Erases`, `Ctx.Clean`, `Skel.AnnNoReserved`).
Standing hypotheses, all explicit: the context is clean (declared types and `defs` use no reserved name `?'_t…`,
signature types are over `TVar`s only), the annotations of the skeleton use no reserved name, the completion
type-checks with `fun` always applied to exactly two types (the arity hypothesis), and `t0` is the skeleton after
the `ctxt.defs` step (`applyDefs`; `t0 = t` when `ctxt.defs` is empty).
-/
namespace Holpy.C08

/-- `infer_complete`: if the skeleton has ANY well-typed completion `u` (same shape, annotations and declared
variable types kept, constants at instances of their declared types, one type per variable name), `type_infer`
does not fail with a unification error: for all large enough fuel it either reports "unspecified type" or
returns a term — never "unable to unify", "infinite loop", "not of function type", a missing constant or a crash. -/
theorem infer_complete (ctx : Ctx) (hc : ctx.Clean) (vt svt : String → Ty) (t t0 u : Skel) (U : Ty) (forbid : Bool)
    (h0 : applyDefs ctx t = .ok t0) (hcompl : Compl ctx vt svt t0 u) (hann : t0.AnnNoReserved)
    (hU : checkedGetType2 u [] = some U) :
    ∃ N, ∀ fuel, N ≤ fuel →
      typeInfer ctx fuel forbid t = .error .unspecified ∨ ∃ r, typeInfer ctx fuel forbid t = .ok r := by
  obtain ⟨N, hN⟩ := type_infer_total ctx forbid t
  refine ⟨N, fun fuel hf => ?_⟩
  rcases typeInfer_complete hc h0 hcompl hann hU fuel forbid with h | h | ⟨r, ρ, h, -⟩
  · exact absurd h (hN fuel hf)
  · exact Or.inl h
  · exact Or.inr ⟨r, h⟩

/-- non-vacuity: `f a = 0` (all types missing, `a :: nat` declared) has the completion with `f :: nat => bool`;
`type_infer` indeed answers "unspecified type" (the type of `f a` is not determined) -/
example : Ex3.ctx.Clean ∧ Compl Ex3.ctx (fun _ => tfun Ex3.nat Ex3.bool) (fun _ => Ex3.bool) Ex3.skel Ex3.compl1 ∧
    checkedGetType2 Ex3.compl1 [] = some Ex3.bool ∧
    (typeInfer Ex3.ctx 20 true Ex3.skel matches .error .unspecified) :=
  ⟨Ex3.ctx_clean, Ex3.compl1_ok, by decide +kernel, by decide +kernel⟩

/-- `infer_principal`: when `type_infer` returns a term `r`, every completion `u` of the skeleton is a
substitution instance of `r` (same shape; the types that were missing are instances of the inferred ones):
`r` is the most general completion. -/
theorem infer_principal (ctx : Ctx) (hc : ctx.Clean) (vt svt : String → Ty) (t t0 u r : Skel) (U : Ty) (fuel : Nat)
    (forbid : Bool) (h0 : applyDefs ctx t = .ok t0) (hcompl : Compl ctx vt svt t0 u) (hann : t0.AnnNoReserved)
    (hU : checkedGetType2 u [] = some U) (hr : typeInfer ctx fuel forbid t = .ok r) :
    ∃ ρ, r.substI ρ = u := by
  rcases typeInfer_complete hc h0 hcompl hann hU fuel forbid with h | h | ⟨r', ρ, h, hi⟩
  · rw [hr] at h; cases h
  · rw [hr] at h; cases h
  · rw [hr] at h; cases h; exact ⟨ρ, hi⟩

/-- `infer_result_is_completion`: the term `type_infer` returns is itself a completion of the skeleton (it also
type-checks: `infer_sound`) — so by `infer_principal` it is the most general completion. -/
theorem infer_result_is_completion (ctx : Ctx) (t t0 r : Skel) (fuel : Nat) (forbid : Bool)
    (h0 : applyDefs ctx t = .ok t0) (hr : typeInfer ctx fuel forbid t = .ok r) : ∃ vt svt, Compl ctx vt svt t0 r :=
  typeInfer_result_compl h0 hr

example : (typeInfer Ex3.ctx 20 true Ex3.skel2).toOption = some Ex3.orig2 := by decide +kernel

/-- `infer_principal_forbid`: with `forbid_internal` (the parser's call) a returned term has no variable left to
instantiate, so it is the ONLY completion: every well-typed completion of the skeleton equals the result. (The
leftover-variable case is the reported "unspecified type".) -/
theorem infer_principal_forbid (ctx : Ctx) (hc : ctx.Clean) (vt svt : String → Ty) (t t0 u r : Skel) (U : Ty)
    (fuel : Nat) (h0 : applyDefs ctx t = .ok t0) (hcompl : Compl ctx vt svt t0 u) (hann : t0.AnnNoReserved)
    (hU : checkedGetType2 u [] = some U) (hr : typeInfer ctx fuel true t = .ok r) : u = r := by
  obtain ⟨ρ, hρ⟩ := infer_principal ctx hc vt svt t t0 u r U fuel true h0 hcompl hann hU hr
  rw [← hρ]
  exact Skel.substI_fullyTyped ρ (typeInfer_sound hr).2.2

/-- non-vacuity: without `forbid_internal`, `f a = 0` is inferred with internal variables left, and the
completion with `f :: nat => bool` is an instance of that result -/
example : ∃ r, typeInfer Ex3.ctx 20 false Ex3.skel = .ok r := exists_ok_of_isSome (by decide +kernel)

/-- `erasure_recovery_all_levels`: if `t` is an erasure of a well-typed term `u` — ANY subset of the variable,
constant and binder types dropped, the dropped variable types declared, the dropped constant types instances of
the signature — then (for all large enough fuel) `type_infer` either reports "unspecified type" or returns
exactly `u`: the second sentence of the property, for every erasure level. (`ctxt.defs` empty.) -/
theorem erasure_recovery_all_levels (ctx : Ctx) (hc : ctx.Clean) (hd : ctx.defs = []) (t u : Skel) (U : Ty)
    (he : Erases ctx t u) (hu : u.NoReserved) (hU : checkedGetType2 u [] = some U) :
    ∃ N, ∀ fuel, N ≤ fuel →
      typeInfer ctx fuel true t = .error .unspecified ∨ typeInfer ctx fuel true t = .ok u := by
  have h0 := applyDefs_nodefs hd t
  have hcompl := he.compl (fun _ => default) (fun _ => default)
  have hann := he.annNoReserved hu
  obtain ⟨N, hN⟩ := infer_complete ctx hc _ _ t t u U true h0 hcompl hann hU
  refine ⟨N, fun fuel hf => ?_⟩
  rcases hN fuel hf with h | ⟨r, h⟩
  · exact Or.inl h
  · right
    rw [h, infer_principal_forbid ctx hc _ _ t t u r U fuel h0 hcompl hann hU h]

/-- non-vacuity: `a = 0` is an erasure of `(a::nat) = (0::nat)` and is recovered; `nil = nil` is an erasure of
`(nil::nat list) = nil` and is reported under-determined -/
example : Erases Ex3.ctx Ex3.skel2 Ex3.orig2 ∧ checkedGetType2 Ex3.orig2 [] = some Ex3.bool ∧
    (typeInfer Ex3.ctx 20 true Ex3.skel2).toOption = some Ex3.orig2 ∧
    Erases Ex3.ctx Ex3.skel3 Ex3.orig3 ∧ checkedGetType2 Ex3.orig3 [] = some Ex3.bool ∧
    (typeInfer Ex3.ctx 20 true Ex3.skel3 matches .error .unspecified) :=
  ⟨Ex3.erases2, by decide +kernel, by decide +kernel, Ex3.erases3, by decide +kernel, by decide +kernel⟩

end Holpy.C08
