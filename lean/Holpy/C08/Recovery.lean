import Holpy.C08.Proofs
import Holpy.C08.Spec
/-
C08 helper lemmas, part 9: if constant and binder types are kept and the variables are declared,
`type_infer` returns the original term (no internal variable is ever created).
-/
namespace Holpy.C08

/-- drop the types of the free and schematic variables -/
def Skel.eraseVars : Skel → Skel
  | .svar n _ => .svar n none
  | .var n _ => .var n none
  | .const n T => .const n T
  | .comb f a => .comb f.eraseVars a.eraseVars
  | .abs x T b => .abs x T b.eraseVars
  | .bound i => .bound i

/-- the context declares every variable of `t` at the type it has in `t` -/
def Skel.Declared (ctx : Ctx) : Skel → Prop
  | .svar n T => ∃ U, T = some U ∧ ctx.svars.lookup n = some U
  | .var n T => ∃ U, T = some U ∧ ctx.vars.lookup n = some U
  | .const _ _ => True
  | .comb f a => f.Declared ctx ∧ a.Declared ctx
  | .abs _ _ b => b.Declared ctx
  | .bound _ => True

/-- no type in the term uses a name reserved for internal type variables (any `?'_t…`) -/
def Skel.NoReserved : Skel → Prop
  | .svar _ T => ∀ U, T = some U → U.hasReserved = false
  | .var _ T => ∀ U, T = some U → U.hasReserved = false
  | .const _ T => ∀ U, T = some U → U.hasReserved = false
  | .comb f a => f.NoReserved ∧ a.NoReserved
  | .abs _ T b => (∀ U, T = some U → U.hasReserved = false) ∧ b.NoReserved
  | .bound _ => True

theorem Ty.substI_nil : ∀ T : Ty, T.substI [] = T := by
  intro T
  induction T using Ty.induction with
  | htv n => simp
  | hsv n => cases n <;> simp
  | hcon n as ih =>
    simp only [Ty.substI_con, Ty.con.injEq, true_and]
    conv => rhs; rw [← List.map_id as]
    exact List.map_congr_left (fun a ha => by simpa using ih a ha)

theorem Skel.substI_nil : ∀ t : Skel, t.substI [] = t := by
  intro t
  induction t with
  | svar n T => cases T <;> simp [Skel.substI, Ty.substI_nil]
  | var n T => cases T <;> simp [Skel.substI, Ty.substI_nil]
  | const n T => cases T <;> simp [Skel.substI, Ty.substI_nil]
  | comb f a ih1 ih2 => simp [Skel.substI, ih1, ih2]
  | abs x T b ih => cases T <;> simp [Skel.substI, Ty.substI_nil, ih]
  | bound i => rfl

theorem unifyArgs_self {u : St → Ty → Ty → Except Err St} {st : St} :
    ∀ as : List Ty, (∀ a ∈ as, u st a a = .ok st) → unifyArgs u st as as = .ok st := by
  intro as
  induction as with
  | nil => intro _; rfl
  | cons a as ih =>
    intro h
    simp only [unifyArgs, bind, Except.bind, h a (by simp)]
    exact ih (fun b hb => h b (by simp [hb]))

/-- unifying a type without internal variables with itself succeeds and changes nothing -/
theorem unify_self : ∀ A : Ty, A.NoInt → ∃ N, ∀ fuel, N ≤ fuel → ∀ st, unify fuel st A A = .ok st := by
  intro A
  induction A using Ty.induction with
  | htv n =>
    intro _
    refine ⟨1, fun fuel hf st => ?_⟩
    obtain ⟨f, rfl⟩ : ∃ f, fuel = f + 1 := ⟨fuel - 1, by omega⟩
    simp [unify, lookupRep, bind, Except.bind]
  | hsv n =>
    intro hn
    cases n with
    | internal k => simp [Ty.NoInt] at hn
    | user s =>
      refine ⟨1, fun fuel hf st => ?_⟩
      obtain ⟨f, rfl⟩ : ∃ f, fuel = f + 1 := ⟨fuel - 1, by omega⟩
      simp [unify, lookupRep, bind, Except.bind]
  | hcon n as ih =>
    intro hn
    have hargs : ∀ a ∈ as, a.NoInt := by
      simp only [Ty.NoInt, Ty.internals_con, List.flatMap_eq_nil_iff] at hn
      exact hn
    have hN : ∃ N, ∀ a ∈ as, ∀ fuel, N ≤ fuel → ∀ st, unify fuel st a a = .ok st := by
      clear hn
      induction as with
      | nil => exact ⟨0, fun a ha => by cases ha⟩
      | cons b bs ihb =>
        obtain ⟨N1, h1⟩ := ih b (by simp) (hargs b (by simp))
        obtain ⟨N2, h2⟩ := ihb (fun a ha => ih a (by simp [ha])) (fun a ha => hargs a (by simp [ha]))
        refine ⟨max N1 N2, fun a ha fuel hf st => ?_⟩
        rcases List.mem_cons.1 ha with rfl | ha
        · exact h1 fuel (Nat.le_trans (Nat.le_max_left _ _) hf) st
        · exact h2 a ha fuel (Nat.le_trans (Nat.le_max_right _ _) hf) st
    obtain ⟨N, hN⟩ := hN
    refine ⟨N + 1, fun fuel hf st => ?_⟩
    obtain ⟨f, rfl⟩ : ∃ f, fuel = f + 1 := ⟨fuel - 1, by omega⟩
    simp only [unify, lookupRep, bind, Except.bind, if_true, ne_eq, not_true_eq_false, if_false]
    exact unifyArgs_self as (fun a ha => hN a ha f (by omega) st)

theorem noInt_con_arg {n : String} {as : List Ty} (h : (Ty.con n as).NoInt) {a : Ty} (ha : a ∈ as) : a.NoInt := by
  simp only [Ty.NoInt, Ty.internals_con, List.flatMap_eq_nil_iff] at h
  exact h a ha

theorem infer_recover (ctx : Ctx) : ∀ (t : Skel) (bd : List Ty) (T : Ty),
    t.FullyTyped → t.NoReserved → t.Declared ctx → checkedGetType t bd = some T → (∀ B ∈ bd, B.NoInt) →
    T.NoInt ∧ ∃ N, ∀ fuel, N ≤ fuel → ∀ st, infer ctx fuel t.eraseVars bd st = .ok (t, T, st) := by
  intro t
  induction t with
  | svar n T0 =>
    intro bd T hf hr hd hc hb
    obtain ⟨U, rfl, hU⟩ := hf
    obtain ⟨U', hU', hl⟩ := hd
    cases hU'
    simp only [checkedGetType, Option.some.injEq] at hc
    subst hc
    exact ⟨hU, 0, fun fuel _ st => by simp [Skel.eraseVars, infer, hl, hr U rfl]⟩
  | var n T0 =>
    intro bd T hf hr hd hc hb
    obtain ⟨U, rfl, hU⟩ := hf
    obtain ⟨U', hU', hl⟩ := hd
    cases hU'
    simp only [checkedGetType, Option.some.injEq] at hc
    subst hc
    exact ⟨hU, 0, fun fuel _ st => by simp [Skel.eraseVars, infer, hl, hr U rfl]⟩
  | const n T0 =>
    intro bd T hf hr hd hc hb
    obtain ⟨U, rfl, hU⟩ := hf
    simp only [checkedGetType, Option.some.injEq] at hc
    subst hc
    exact ⟨hU, 0, fun fuel _ st => by simp [Skel.eraseVars, infer, hr U rfl]⟩
  | comb f a ihf iha =>
    intro bd T hf hr hd hc hb
    simp only [checkedGetType] at hc
    cases hcf : checkedGetType f bd with
    | none => simp [hcf] at hc
    | some fT =>
      cases hca : checkedGetType a bd with
      | none => simp [hcf, hca] at hc
      | some aT =>
        simp only [hcf, hca] at hc
        obtain ⟨hfn, N1, h1⟩ := ihf bd fT hf.1 hr.1 hd.1 hcf hb
        obtain ⟨han, N2, h2⟩ := iha bd aT hf.2 hr.2 hd.2 hca hb
        split at hc
        · rename_i d r rest x heq1 heq2
          simp only [Option.some.injEq] at heq1 heq2
          subst heq1 heq2
          split at hc
          · rename_i hda
            simp only [Option.some.injEq] at hc
            subst hc hda
            have hdn : d.NoInt := noInt_con_arg hfn (by simp)
            obtain ⟨N3, h3⟩ := unify_self d hdn
            refine ⟨noInt_con_arg hfn (by simp), max N1 (max N2 N3), fun fuel hfu st => ?_⟩
            have e1 := h1 fuel (Nat.le_trans (Nat.le_max_left _ _) hfu) st
            have e2 := h2 fuel (Nat.le_trans (Nat.le_trans (Nat.le_max_left _ _) (Nat.le_max_right _ _)) hfu) st
            have e3 := h3 fuel (Nat.le_trans (Nat.le_trans (Nat.le_max_right _ _) (Nat.le_max_right _ _)) hfu) st
            simp [Skel.eraseVars, infer, bind, Except.bind, e1, e2, e3]
          · cases hc
        · cases hc
  | abs x T0 b ih =>
    intro bd T hf hr hd hc hb
    obtain ⟨⟨U, rfl, hU⟩, hfb⟩ := hf
    simp only [checkedGetType] at hc
    cases hcb : checkedGetType b (U :: bd) with
    | none => simp [hcb] at hc
    | some bT =>
      simp only [hcb, Option.map_some, Option.some.injEq] at hc
      subst hc
      obtain ⟨hbn, N, hN⟩ := ih (U :: bd) bT hfb hr.2 hd hcb
        (by intro B hB; rcases List.mem_cons.1 hB with rfl | hB
            · exact hU
            · exact hb B hB)
      refine ⟨?_, N, fun fuel hfu st => ?_⟩
      · have h1 : U.internals = [] := hU
        have h2 : bT.internals = [] := hbn
        simp [Ty.NoInt, Ty.internals, Ty.internalsL, h1, h2]
      · simp [Skel.eraseVars, infer, hN fuel hfu st, hr.1 U rfl]
  | bound i =>
    intro bd T hf hr hd hc hb
    simp only [checkedGetType] at hc
    exact ⟨hb T (List.mem_of_getElem? hc), 0, fun fuel _ st => by simp [Skel.eraseVars, infer, hc]⟩

theorem headConst_eraseVars_annot : ∀ {l : Skel}, l.FullyTyped → ∀ n, l.eraseVars.headConst ≠ some (n, none) := by
  intro l
  induction l with
  | comb f a ihf _ => intro hf n; simpa [Skel.eraseVars, Skel.headConst] using ihf hf.1 n
  | const c T =>
    intro hf n h
    obtain ⟨U, rfl, -⟩ := hf
    simp [Skel.eraseVars, Skel.headConst] at h
  | svar c T => intro _ n h; simp [Skel.eraseVars, Skel.headConst] at h
  | var c T => intro _ n h; simp [Skel.eraseVars, Skel.headConst] at h
  | abs x T b _ => intro _ n h; simp [Skel.eraseVars, Skel.headConst] at h
  | bound i => intro _ n h; simp [Skel.eraseVars, Skel.headConst] at h

/-- a term whose constants are all annotated is not touched by the `defs` pre-step -/
theorem applyDefs_eraseVars (ctx : Ctx) {t : Skel} (hf : t.FullyTyped) : applyDefs ctx t.eraseVars = .ok t.eraseVars := by
  simp only [applyDefs]
  split
  · rfl
  · split
    · rename_i T l r heq
      split
      · rename_i n hh
        exfalso
        -- t = (equals l0) r0 with l = l0.eraseVars
        cases t with
        | comb f a =>
          cases f with
          | comb g l0 =>
            simp only [Skel.eraseVars, Skel.comb.injEq] at heq
            obtain ⟨⟨-, rfl⟩, -⟩ := heq
            exact headConst_eraseVars_annot hf.1.2 n hh
          | _ => simp [Skel.eraseVars] at heq
        | _ => simp [Skel.eraseVars] at heq
      · rfl
    · rfl

theorem typeInfer_recover (ctx : Ctx) (t : Skel) (T : Ty) (hf : t.FullyTyped) (hr : t.NoReserved) (hd : t.Declared ctx)
    (hc : checkedGetType t [] = some T) :
    ∃ N, ∀ fuel, N ≤ fuel → typeInfer ctx fuel true t.eraseVars = .ok t := by
  obtain ⟨-, N, hN⟩ := infer_recover ctx t [] T hf hr hd hc (by intro B hB; cases hB)
  refine ⟨N + 1, fun fuel hfu => ?_⟩
  obtain ⟨f, rfl⟩ : ∃ f, fuel = f + 1 := ⟨fuel - 1, by omega⟩
  have e := hN (f + 1) (by omega) St.empty
  simp only [typeInfer, applyDefs_eraseVars ctx hf, e]
  simp [finish, St.empty, unspecOf, finalLoop, pass, Skel.substI_nil]

end Holpy.C08
