import Holpy.C08.Infer
/-
C08 helper lemmas, part 4: specification of the traversal `infer`.
-/
namespace Holpy.C08

structure InferPost (ctx : Ctx) (t : Skel) (bd : List Ty) (st : St) (t' : Skel) (T : Ty) (st' : St) : Prop where
  inv : Inv st'
  cb : CB st'
  ext : Ext st st'
  tb : T.Bounded st'.uf.length
  sb : t'.BoundedS st'.uf.length
  pre : Pre ctx st'.ictx st'.isctx t t'
  typ : ∀ τ, Solves τ st'.uf → checkedGetType (t'.substI τ) (bd.map (Ty.substI τ)) = some (T.substI τ)

theorem lookup_cons_self {n : String} {T : Ty} {l : List (String × Ty)} : ((n, T) :: l).lookup n = some T := by
  simp

theorem lookup_cons_mono {n : String} {T : Ty} {l : List (String × Ty)} (hn : l.lookup n = none)
    (n' : String) (T' : Ty) (h : l.lookup n' = some T') : ((n, T) :: l).lookup n' = some T' := by
  simp only [List.lookup_cons]
  cases hc : n' == n with
  | true =>
    have : n' = n := by simpa using hc
    subst this; rw [hn] at h; cases h
  | false => exact h

theorem lookup_cons_bounded {n : String} {T : Ty} {l : List (String × Ty)} {k : Nat}
    (hT : T.Bounded k) (hl : ∀ n' T', l.lookup n' = some T' → T'.Bounded k)
    (n' : String) (T' : Ty) (h : ((n, T) :: l).lookup n' = some T') : T'.Bounded k := by
  simp only [List.lookup_cons] at h
  cases hc : n' == n with
  | true => simp [hc] at h; subst h; exact hT
  | false => simp [hc] at h; exact hl n' T' h

theorem con_arg_bounded {c : String} {as : List Ty} {k : Nat} (h : (Ty.con c as).Bounded k) {a : Ty} (ha : a ∈ as) :
    a.Bounded k := by
  intro j hj
  apply h
  simp only [Ty.internals_con, List.mem_flatMap]
  exact ⟨a, ha, hj⟩

theorem tfun_bounded {a b : Ty} {k : Nat} (ha : a.Bounded k) (hb : b.Bounded k) : (tfun a b).Bounded k := by
  intro j hj
  simp only [Ty.internals_con, List.flatMap_cons, List.flatMap_nil, List.append_nil, List.mem_append] at hj
  rcases hj with hj | hj
  · exact ha j hj
  · exact hb j hj

set_option maxHeartbeats 400000 in
theorem infer_spec (ctx : Ctx) (fuel : Nat) :
    ∀ (t : Skel) (bd : List Ty) (st : St) (t' : Skel) (T : Ty) (st' : St),
      infer ctx fuel t bd st = .ok (t', T, st') → Inv st → CB st → (∀ B ∈ bd, B.Bounded st.uf.length) →
      InferPost ctx t bd st t' T st' := by
  intro t
  induction t with
  | svar n T0 =>
    intro bd st t' T st' h inv cb hbd
    cases T0 with
    | some A =>
      simp only [infer] at h
      cases hr : A.hasReserved with
      | true => simp [hr] at h
      | false =>
        simp only [hr, Bool.false_eq_true, if_false, Except.ok.injEq, Prod.mk.injEq] at h
        obtain ⟨rfl, rfl, rfl⟩ := h
        have hA := noInt_of_not_reserved A hr
        exact ⟨inv, cb, Ext.refl _, hA.bounded _, ⟨A, rfl, hA.bounded _⟩,
          .svarAnn n A hA, fun τ _ => by simp [Skel.substI, checkedGetType]⟩
    | none =>
      simp only [infer] at h
      cases hd : ctx.svars.lookup n with
      | some D =>
        simp only [hd] at h
        cases hr : D.hasReserved with
        | true => simp [hr] at h
        | false =>
          simp only [hr, Bool.false_eq_true, if_false, Except.ok.injEq, Prod.mk.injEq] at h
          obtain ⟨rfl, rfl, rfl⟩ := h
          have hDn := noInt_of_not_reserved D hr
          have hD := hDn.bounded st.uf.length
          exact ⟨inv, cb, Ext.refl _, hD, ⟨D, rfl, hD⟩, .svarDecl n D hd hDn, fun τ _ => by simp [Skel.substI, checkedGetType]⟩
      | none =>
        simp only [hd] at h
        cases hi : st.isctx.lookup n with
        | some D =>
          simp only [hi, Except.ok.injEq, Prod.mk.injEq] at h
          obtain ⟨rfl, rfl, rfl⟩ := h
          have hD := cb.isctx n D hi
          exact ⟨inv, cb, Ext.refl _, hD, ⟨D, rfl, hD⟩, .svarInc n D hd hi, fun τ _ => by simp [Skel.substI, checkedGetType]⟩
        | none =>
          simp only [hi, Except.ok.injEq, Prod.mk.injEq] at h
          obtain ⟨rfl, rfl, rfl⟩ := h
          have i1 := newType_inv inv
          have c1 := newType_cb cb
          have e1 := newType_ext st
          have hT : (newType st).1.Bounded ((newType st).2.uf.length) := by
            rw [newType_fst]; apply int_bounded; simp [newType]
          refine ⟨⟨i1.flat, i1.ufb, i1.rlen⟩, ⟨c1.ictx, ?_⟩, ⟨e1.len, e1.sol, e1.ictx, ?_⟩, hT, ⟨_, rfl, hT⟩, ?_, ?_⟩
          · exact lookup_cons_bounded hT c1.isctx
          · intro n' T' hh
            exact lookup_cons_mono (by rw [newType_isctx]; exact hi) n' T' (e1.isctx n' T' hh)
          · exact .svarInc n _ hd lookup_cons_self
          · intro τ _; simp [Skel.substI, checkedGetType]
  | var n T0 =>
    intro bd st t' T st' h inv cb hbd
    cases T0 with
    | some A =>
      simp only [infer] at h
      cases hr : A.hasReserved with
      | true => simp [hr] at h
      | false =>
        simp only [hr, Bool.false_eq_true, if_false, Except.ok.injEq, Prod.mk.injEq] at h
        obtain ⟨rfl, rfl, rfl⟩ := h
        have hA := noInt_of_not_reserved A hr
        exact ⟨inv, cb, Ext.refl _, hA.bounded _, ⟨A, rfl, hA.bounded _⟩,
          .varAnn n A hA, fun τ _ => by simp [Skel.substI, checkedGetType]⟩
    | none =>
      simp only [infer] at h
      cases hd : ctx.vars.lookup n with
      | some D =>
        simp only [hd] at h
        cases hr : D.hasReserved with
        | true => simp [hr] at h
        | false =>
          simp only [hr, Bool.false_eq_true, if_false, Except.ok.injEq, Prod.mk.injEq] at h
          obtain ⟨rfl, rfl, rfl⟩ := h
          have hDn := noInt_of_not_reserved D hr
          have hD := hDn.bounded st.uf.length
          exact ⟨inv, cb, Ext.refl _, hD, ⟨D, rfl, hD⟩, .varDecl n D hd hDn, fun τ _ => by simp [Skel.substI, checkedGetType]⟩
      | none =>
        simp only [hd] at h
        cases hi : st.ictx.lookup n with
        | some D =>
          simp only [hi, Except.ok.injEq, Prod.mk.injEq] at h
          obtain ⟨rfl, rfl, rfl⟩ := h
          have hD := cb.ictx n D hi
          exact ⟨inv, cb, Ext.refl _, hD, ⟨D, rfl, hD⟩, .varInc n D hd hi, fun τ _ => by simp [Skel.substI, checkedGetType]⟩
        | none =>
          simp only [hi, Except.ok.injEq, Prod.mk.injEq] at h
          obtain ⟨rfl, rfl, rfl⟩ := h
          have i1 := newType_inv inv
          have c1 := newType_cb cb
          have e1 := newType_ext st
          have hT : (newType st).1.Bounded ((newType st).2.uf.length) := by
            rw [newType_fst]; apply int_bounded; simp [newType]
          refine ⟨⟨i1.flat, i1.ufb, i1.rlen⟩, ⟨?_, c1.isctx⟩, ⟨e1.len, e1.sol, ?_, e1.isctx⟩, hT, ⟨_, rfl, hT⟩, ?_, ?_⟩
          · exact lookup_cons_bounded hT c1.ictx
          · intro n' T' hh
            exact lookup_cons_mono (by rw [newType_ictx]; exact hi) n' T' (e1.ictx n' T' hh)
          · exact .varInc n _ hd lookup_cons_self
          · intro τ _; simp [Skel.substI, checkedGetType]
  | const n T0 =>
    intro bd st t' T st' h inv cb hbd
    cases T0 with
    | some A =>
      simp only [infer] at h
      cases hr : A.hasReserved with
      | true => simp [hr] at h
      | false =>
        simp only [hr, Bool.false_eq_true, if_false, Except.ok.injEq, Prod.mk.injEq] at h
        obtain ⟨rfl, rfl, rfl⟩ := h
        have hA := noInt_of_not_reserved A hr
        exact ⟨inv, cb, Ext.refl _, hA.bounded _, ⟨A, rfl, hA.bounded _⟩,
          .constAnn n A hA, fun τ _ => by simp [Skel.substI, checkedGetType]⟩
    | none =>
      simp only [infer] at h
      cases hs : ctx.sig.lookup n with
      | none =>
        simp only [hs] at h
        cases hdf : ctx.defs.lookup n with
        | none => simp [hdf] at h
        | some D =>
          simp only [hdf] at h
          cases hr : D.hasReserved with
          | true => simp [hr] at h
          | false =>
            simp only [hr, Bool.false_eq_true, if_false, Except.ok.injEq, Prod.mk.injEq] at h
            obtain ⟨rfl, rfl, rfl⟩ := h
            have hDn := noInt_of_not_reserved D hr
            obtain ⟨i2, c2, e2, -, -, b2⟩ := allocFor_spec (dedupStr D.ustvars) st inv cb
            have hT := instS_bounded b2 D hDn
            exact ⟨i2, c2, e2, hT, ⟨_, rfl, hT⟩, .constDef n D _ hs hdf hDn, fun τ _ => by simp [Skel.substI, checkedGetType]⟩
      | some S =>
        simp only [hs] at h
        cases hst : S.hasStvar with
        | true => simp [hst] at h
        | false =>
          simp only [hst, Bool.false_eq_true, if_false, Except.ok.injEq, Prod.mk.injEq] at h
          obtain ⟨rfl, rfl, rfl⟩ := h
          obtain ⟨i2, c2, e2, -, -, b2⟩ := allocFor_spec (dedupStr S.tvars) st inv cb
          have hT := inst_bounded b2 S hst
          exact ⟨i2, c2, e2, hT, ⟨_, rfl, hT⟩, .constSig n S _ hs hst, fun τ _ => by simp [Skel.substI, checkedGetType]⟩
  | comb f a ihf iha =>
    intro bd st t' T st' h inv cb hbd
    simp only [infer, bind, Except.bind] at h
    cases hf : infer ctx fuel f bd st with
    | error e => simp [hf] at h
    | ok r1 =>
      obtain ⟨f', funT, st1⟩ := r1
      simp only [hf] at h
      cases ha : infer ctx fuel a bd st1 with
      | error e => simp [ha] at h
      | ok r2 =>
        obtain ⟨a', argT, st2⟩ := r2
        simp only [ha] at h
        have pf := ihf bd st f' funT st1 hf inv cb hbd
        have hbd1 : ∀ B ∈ bd, B.Bounded st1.uf.length := fun B hB => (hbd B hB).mono pf.ext.len
        have pa := iha bd st1 a' argT st2 ha pf.inv pf.cb hbd1
        have hfun2 : funT.Bounded st2.uf.length := pf.tb.mono pa.ext.len
        split at h
        · -- funT = fun (d :: rest)
          rename_i d rest
          cases hu : unify fuel st2 d argT with
          | error e => simp [hu] at h
          | ok st3 =>
            simp only [hu] at h
            cases rest with
            | nil => simp at h
            | cons r rest' =>
              simp only [Except.ok.injEq, Prod.mk.injEq] at h
              obtain ⟨rfl, rfl, rfl⟩ := h
              have up := unify_post fuel st2 d argT st3 hu pa.inv
              have e23 := Ext.of_unifyPost up
              have hl : st3.uf.length = st2.uf.length := up.2.1
              refine ⟨up.1, CB.of_unifyPost up pa.cb, (pf.ext.trans pa.ext).trans e23, ?_, ⟨?_, ?_⟩, ?_, ?_⟩
              · rw [hl]; exact con_arg_bounded hfun2 (by simp)
              · exact pf.sb.mono (by rw [hl]; exact pa.ext.len)
              · rw [hl]; exact pa.sb
              · exact .comb (pf.pre.mono (pa.ext.trans e23).ictx (pa.ext.trans e23).isctx) (pa.pre.mono e23.ictx e23.isctx)
              · intro τ hτ
                obtain ⟨hτ2, hda⟩ := up.2.2.2.2 τ hτ
                have hτ1 := pa.ext.sol τ hτ2
                have t1 := pf.typ τ hτ1
                have t2 := pa.typ τ hτ2
                simp only [Ty.substI_con, List.map_cons] at t1
                simp only [Skel.substI, checkedGetType, t1, t2, hda, if_true]
        · simp at h
        · -- funT internal
          rename_i k
          cases hu : unify fuel (newType st2).2 (Ty.stvar (TName.internal k)) (tfun argT (newType st2).1) with
          | error e => simp [hu] at h
          | ok st4 =>
            simp only [hu, Except.ok.injEq, Prod.mk.injEq] at h
            obtain ⟨rfl, rfl, rfl⟩ := h
            have i3 := newType_inv pa.inv
            have c3 := newType_cb pa.cb
            have e3 := newType_ext st2
            have up := unify_post fuel _ _ _ st4 hu i3
            have e34 := Ext.of_unifyPost up
            have hl : st4.uf.length = (newType st2).2.uf.length := up.2.1
            have hl3 : (newType st2).2.uf.length = st2.uf.length + 1 := by simp [newType]
            refine ⟨up.1, CB.of_unifyPost up c3, ((pf.ext.trans pa.ext).trans e3).trans e34, ?_, ⟨?_, ?_⟩, ?_, ?_⟩
            · rw [hl, newType_fst]; apply int_bounded; rw [hl3]; exact Nat.lt_succ_self _
            · exact pf.sb.mono (by rw [hl, hl3]; exact Nat.le_succ_of_le pa.ext.len)
            · exact pa.sb.mono (by rw [hl, hl3]; exact Nat.le_succ _)
            · exact .comb (pf.pre.mono ((pa.ext.trans e3).trans e34).ictx ((pa.ext.trans e3).trans e34).isctx)
                (pa.pre.mono (e3.trans e34).ictx (e3.trans e34).isctx)
            · intro τ hτ
              obtain ⟨hτ3, heq⟩ := up.2.2.2.2 τ hτ
              have hτ2 := e3.sol τ hτ3
              have hτ1 := pa.ext.sol τ hτ2
              have t1 := pf.typ τ hτ1
              have t2 := pa.typ τ hτ2
              rw [heq] at t1
              simp only [Ty.substI_con, List.map_cons, List.map_nil] at t1
              simp only [Skel.substI, checkedGetType, t1, t2, if_true]
        · simp at h
  | abs x T0 b ih =>
    intro bd st t' T st' h inv cb hbd
    cases T0 with
    | some A =>
      simp only [infer] at h
      cases hr : A.hasReserved with
      | true => simp [hr] at h
      | false =>
        simp only [hr, Bool.false_eq_true, if_false] at h
        cases hb : infer ctx fuel b (A :: bd) st with
        | error e => simp [hb] at h
        | ok r =>
          obtain ⟨b', bodyT, st2⟩ := r
          simp only [hb, Except.ok.injEq, Prod.mk.injEq] at h
          obtain ⟨rfl, rfl, rfl⟩ := h
          have hAn := noInt_of_not_reserved A hr
          have hA := fun k => hAn.bounded k
          have pb := ih (A :: bd) st b' bodyT st2 hb inv cb
            (by intro B hB; cases hB with | head => exact hA _ | tail _ hB => exact hbd B hB)
          refine ⟨pb.inv, pb.cb, pb.ext, tfun_bounded ((hA _).mono pb.ext.len) pb.tb,
            ⟨⟨A, rfl, hA _⟩, pb.sb⟩, .absAnn x A hAn pb.pre, ?_⟩
          intro τ hτ
          have := pb.typ τ hτ
          simp only [List.map_cons] at this
          simp [Skel.substI, checkedGetType, this]
    | none =>
      simp only [infer] at h
      cases hb : infer ctx fuel b ((newType st).1 :: bd) (newType st).2 with
      | error e => simp [hb] at h
      | ok r =>
        obtain ⟨b', bodyT, st2⟩ := r
        simp only [hb, Except.ok.injEq, Prod.mk.injEq] at h
        obtain ⟨rfl, rfl, rfl⟩ := h
        have i1 := newType_inv inv
        have c1 := newType_cb cb
        have e1 := newType_ext st
        have hl1 : (newType st).2.uf.length = st.uf.length + 1 := by simp [newType]
        have hT : (newType st).1.Bounded ((newType st).2.uf.length) := by
          rw [newType_fst]; apply int_bounded; rw [hl1]; exact Nat.lt_succ_self _
        have pb := ih ((newType st).1 :: bd) (newType st).2 b' bodyT st2 hb i1 c1
          (by intro B hB; cases hB with
            | head => exact hT
            | tail _ hB => exact (hbd B hB).mono (by rw [hl1]; exact Nat.le_succ _))
        refine ⟨pb.inv, pb.cb, e1.trans pb.ext, tfun_bounded (hT.mono pb.ext.len) pb.tb,
          ⟨⟨_, rfl, hT.mono pb.ext.len⟩, pb.sb⟩, .absNew x _ pb.pre, ?_⟩
        intro τ hτ
        have := pb.typ τ hτ
        simp only [List.map_cons] at this
        simp [Skel.substI, checkedGetType, this]
  | bound i =>
    intro bd st t' T st' h inv cb hbd
    simp only [infer] at h
    cases hb : bd[i]? with
    | none => simp [hb] at h
    | some B =>
      simp only [hb, Except.ok.injEq, Prod.mk.injEq] at h
      obtain ⟨rfl, rfl, rfl⟩ := h
      refine ⟨inv, cb, Ext.refl _, hbd _ (List.mem_of_getElem? hb), trivial, .bound i, ?_⟩
      intro τ _
      simp [Skel.substI, checkedGetType, hb]

end Holpy.C08
