import Holpy.C08.Main
import Holpy.C08.ReachInfer
import Holpy.C08.Term
import Holpy.C08.Recovery
/-
C08 — property theorems about the model of `syntax/infertype.py: type_infer` (Model.lean, which
includes the fixes C08-1 … C08-4).  Vocabulary: Spec.lean (`Respects`, `FullyTyped`),
Proofs.lean (`Solves`, `Inv`), Reach.lean (`RInv`).
-/
namespace Holpy.C08

/-- `infer_sound` (no hypothesis on the skeleton or the context: with fix C08-3 a given type that uses a
reserved name `?'_t…` is rejected with `type_infer`'s own error): if `type_infer(t)` returns `t'` then
`t'` passes `checked_get_type`, has the shape of `t`, keeps every annotation of `t`, gives every
occurrence of a variable whose type was missing its declared type if declared and otherwise one type
per name, instantiates every unannotated constant at an instance of its signature type (or of the type
`ctxt.defs` gives for the constant being defined), has every type filled in and contains no internal
type variable.
Scope of "one type per variable": the occurrences without annotation.  An annotated occurrence
`(x::T)` keeps `T`; kernel variables are identified by name *and* type, so `(x::nat) = 0 ∧ x` is
inferred with `x::nat` and `x::bool` (see `Respects` in Spec.lean and the example below). -/
theorem infer_sound (ctx : Ctx) (fuel : Nat) (t t' : Skel) (h : typeInfer ctx fuel true t = .ok t') :
    (∃ T, checkedGetType t' [] = some T) ∧ t'.erase = t.erase ∧
    (∃ vt svt, Respects ctx vt svt t t') ∧ t'.FullyTyped := by
  obtain ⟨h1, ⟨vt, svt, h2⟩, h3⟩ := typeInfer_sound h
  exact ⟨h1, h2.erase_eq, ⟨vt, svt, h2⟩, h3⟩

namespace Ex
def bool : Ty := .con "bool" []
def nat : Ty := .con "nat" []
def ctx : Ctx :=
  ⟨[("a", nat)], [],
   [("equals", tfun (.tvar "a") (tfun (.tvar "a") bool)), ("zero", .tvar "a"),
    ("all", tfun (tfun (.tvar "a") bool) bool), ("conj", tfun bool (tfun bool bool))], []⟩
/-- `(∀x. f x = 0) ∧ f a = (0::nat)` with `a :: nat` declared, `f` not declared -/
def skel : Skel :=
  .comb (.comb (.const "conj" none)
    (.comb (.const "all" none) (.abs "x" none
      (.comb (.comb (.const "equals" none) (.comb (.var "f" none) (.bound 0))) (.const "zero" none)))))
    (.comb (.comb (.const "equals" none) (.comb (.var "f" none) (.var "a" none))) (.const "zero" (some nat)))
def eqT (T : Ty) : Ty := tfun T (tfun T bool)
def result : Skel :=
  .comb (.comb (.const "conj" (some (tfun bool (tfun bool bool))))
    (.comb (.const "all" (some (tfun (tfun nat bool) bool))) (.abs "x" (some nat)
      (.comb (.comb (.const "equals" (some (eqT nat))) (.comb (.var "f" (some (tfun nat nat))) (.bound 0)))
        (.const "zero" (some nat))))))
    (.comb (.comb (.const "equals" (some (eqT nat))) (.comb (.var "f" (some (tfun nat nat))) (.var "a" (some nat))))
      (.const "zero" (some nat)))
end Ex

/-- non-vacuity: a skeleton with a polymorphic constant used twice, a binder, an undeclared
higher-order variable and a declared variable is inferred (13 internal variables, 9 unions) -/
example : typeInfer Ex.ctx 20 true Ex.skel = .ok Ex.result := ok_of_toOption (by decide +kernel)

example : (∃ T, checkedGetType Ex.result [] = some T) ∧ Ex.result.erase = Ex.skel.erase ∧
    (∃ vt svt, Respects Ex.ctx vt svt Ex.skel Ex.result) ∧ Ex.result.FullyTyped :=
  infer_sound Ex.ctx 20 Ex.skel Ex.result (ok_of_toOption (by decide +kernel))

/-- the scope of "one type per variable": `(x::nat) = 0 ∧ x` is accepted with `x` at `nat` and at `bool` -/
example : (typeInfer Ex.ctx 20 true
    (.comb (.comb (.const "conj" none) (.comb (.comb (.const "equals" none) (.var "x" (some Ex.nat))) (.const "zero" none)))
      (.var "x" none))).toOption =
    some (.comb (.comb (.const "conj" (some (tfun Ex.bool (tfun Ex.bool Ex.bool))))
      (.comb (.comb (.const "equals" (some (Ex.eqT Ex.nat))) (.var "x" (some Ex.nat))) (.const "zero" (some Ex.nat))))
      (.var "x" (some Ex.bool))) := by decide +kernel

/-- reserved names are rejected with an own error, whatever follows `_t` (fix C08-3) -/
example : (typeInfer Ex.ctx 20 true (.comb (.comb (.const "equals" none) (.var "x" (some (.stvar (.user "_tx"))))) (.var "y" none))
    matches .error .reserved) ∧
    (typeInfer Ex.ctx 20 true (.comb (.comb (.const "equals" none) (.var "x" (some (.stvar (.internal 7))))) (.var "y" none))
    matches .error .reserved) ∧
    (typeInfer ⟨[("x", .stvar (.internal 0))], [], Ex.ctx.sig, []⟩ 20 true
      (.comb (.comb (.const "equals" none) (.var "x" none)) (.var "y" none)) matches .error .reserved) := by
  decide +kernel

/-- parsing a definition (`ctxt.defs = {f: nat => nat}`): `f x = f (f x)` — the head gets the declared type,
the recursive occurrences (not in the signature) an instance of it -/
example : (typeInfer ⟨[], [], Ex.ctx.sig, [("f", tfun Ex.nat Ex.nat)]⟩ 20 true
    (.comb (.comb (.const "equals" none) (.comb (.const "f" none) (.var "x" none)))
      (.comb (.const "f" none) (.comb (.const "f" none) (.var "x" none))))).toOption =
    some (.comb (.comb (.const "equals" (some (Ex.eqT Ex.nat))) (.comb (.const "f" (some (tfun Ex.nat Ex.nat))) (.var "x" (some Ex.nat))))
      (.comb (.const "f" (some (tfun Ex.nat Ex.nat))) (.comb (.const "f" (some (tfun Ex.nat Ex.nat))) (.var "x" (some Ex.nat))))) := by
  decide +kernel

/-- `unify_sound`: a successful `unify(A, B)` keeps the state invariant (`uf` flat, only existing
variables mentioned), and every solution of the new triangular system `uf` solves the old one and
makes `A` and `B` equal — "uf solves every equation unified so far". -/
theorem unify_sound (fuel : Nat) (st st' : St) (A B : Ty) (h : unify fuel st A B = .ok st') (inv : Inv st) :
    Inv st' ∧ ∀ τ, Solves τ st'.uf → Solves τ st.uf ∧ A.substI τ = B.substI τ := by
  obtain ⟨i, -, -, -, s⟩ := unify_post fuel st A B st' h inv
  exact ⟨i, s⟩

namespace Ex
/-- two fresh variables -/
def st2 : St := (newType (newType St.empty).2).2
end Ex

/-- non-vacuity: `unify(?'_t0, ?'_t1 => bool)` succeeds from a state satisfying the invariant -/
example : Inv Ex.st2 ∧ ∃ st', unify 5 Ex.st2 (Ty.int 0) (tfun (Ty.int 1) Ex.bool) = .ok st' :=
  ⟨newType_inv (newType_inv inv_empty), exists_ok_of_isSome (by decide +kernel)⟩

/-- `apply_uf_solves`: when the final loop returns `tyinst` for `unspecified = []`, `tyinst` solves
`uf` and contains no internal variable (so applying it removes every `_tN`). -/
theorem apply_uf_solves (fuel : Nat) (uf τ : List Ty) (h : finalLoop [] fuel uf = .ok τ) (hb : UfBounded uf) :
    Solves τ uf ∧ τ.length = uf.length ∧ ∀ j, j < τ.length → (τ.getD j (Ty.int j)).NoInt := by
  obtain ⟨linv, hexit⟩ := finalLoop_inv (uf := uf) [] fuel uf τ h (LoopInv.init uf)
  have hno : ∀ j, j < τ.length → (τ.getD j (Ty.int j)).NoInt := fun j hj => noInt_of_exit (hexit j hj)
  exact ⟨loop_solves hb linv hno, linv.1, hno⟩

/-- non-vacuity: `uf = [?'_t1 => bool, nat]` is resolved to `[nat => bool, nat]` -/
example : finalLoop [] 5 [tfun (Ty.int 1) Ex.bool, Ex.nat] = .ok [tfun Ex.nat Ex.bool, Ex.nat] :=
  ok_of_toOption (by decide +kernel)

/-- `union_preserves_reach`: `union` (with fix C08-1) keeps "`reach[k]` contains the variables of
`uf[k]`, is transitively closed and does not contain `k`" — `reach` over-approximates reachability in
`uf` and `uf` is acyclic.  (With the original `union`, which extends `reach` only for the merged class,
the transitivity clause is not preserved: the obligation fails for `x y ∧ y z ∧ z x`.) -/
theorem union_preserves_reach (st st' : St) (T1 T2 : Ty) (h : union st T1 T2 = .ok st') (ri : RInv st) :
    RInv st' := union_rinv h ri

/-- non-vacuity: a union from a state satisfying the invariant succeeds -/
example : RInv Ex.st2 ∧ ∃ st', union Ex.st2 (Ty.int 0) (tfun (Ty.int 1) Ex.bool) = .ok st' :=
  ⟨newType_rinv (newType_rinv rinv_empty), exists_ok_of_isSome (by decide +kernel)⟩

/-- `infer_preserves_reach`: the state reached by the traversal `infer` from the empty state
satisfies the reachability invariant. -/
theorem infer_preserves_reach (ctx : Ctx) (fuel : Nat) (t t' : Skel) (T : Ty) (st : St)
    (h : infer ctx fuel t [] St.empty = .ok (t', T, st)) : RInv st :=
  infer_rinv ctx fuel t [] St.empty t' T st h rinv_empty

example : ∃ r, infer Ex.ctx 20 Ex.skel [] St.empty = .ok r := exists_ok_of_isSome (by decide +kernel)

/-- `final_loop_terminates`: under the invariant "`reach` over-approximates reachability in `uf`"
the final substitution loop terminates (some amount of fuel is enough, and then any larger amount). -/
theorem final_loop_terminates (st : St) (ri : RInv st) (hb : UfBounded st.uf) :
    ∃ N, ∀ fuel, N ≤ fuel → ∃ τ, finalLoop (unspecOf st.uf) fuel st.uf = .ok τ :=
  finalLoop_terminates ri hb

/-- `type_infer_loop_terminates`: after a successful traversal the rest of `type_infer` never runs
out of fuel, i.e. the Python `while has_repl` loop terminates on every state `infer` can produce. -/
theorem type_infer_loop_terminates (ctx : Ctx) (fuel : Nat) (t t' : Skel) (T : Ty) (st : St) (forbid : Bool)
    (h : infer ctx fuel t [] St.empty = .ok (t', T, st)) :
    ∃ N, ∀ fuel', N ≤ fuel' → finish fuel' forbid t' st ≠ .error .fuel := by
  have post := infer_spec ctx fuel t [] St.empty t' T st h inv_empty cb_empty (by intro B hB; cases hB)
  obtain ⟨N, hN⟩ := finalLoop_terminates (infer_rinv ctx fuel t [] St.empty t' T st h rinv_empty) post.inv.ufb
  refine ⟨N, fun fuel' hf => ?_⟩
  obtain ⟨τ, hτ⟩ := hN fuel' hf
  simp only [finish]
  split
  · intro hc; cases hc
  · rw [hτ]; intro hc; cases hc

/-- `erasure_recovery`: if `t` is well typed, fully annotated without reserved type variable names, and the
context declares its variables, then from the erasure that drops the variable types (constant and binder
types kept) `type_infer` returns exactly `t` (for every fuel above some bound: no internal variable is ever
created, every `unify` is between equal types).  This is the clause "always recovers the original if constant
and binder types were kept".  For the deeper erasure levels see `unify_complete` / `unify_most_general`
(Props2.lean); principality of the whole traversal is not proved. -/
theorem erasure_recovery (ctx : Ctx) (t : Skel) (T : Ty) (hf : t.FullyTyped) (hr : t.NoReserved)
    (hd : t.Declared ctx) (hc : checkedGetType t [] = some T) :
    ∃ N, ∀ fuel, N ≤ fuel → typeInfer ctx fuel true t.eraseVars = .ok t :=
  typeInfer_recover ctx t T hf hr hd hc

/-- non-vacuity: the hypotheses hold for the example term with `f` and `a` declared -/
example : Ex.result.FullyTyped ∧ Ex.result.NoReserved ∧
    Ex.result.Declared ⟨[("a", Ex.nat), ("f", tfun Ex.nat Ex.nat)], [], [], []⟩ ∧
    checkedGetType Ex.result [] = some Ex.bool := by
  refine ⟨?_, ?_, ?_, by decide +kernel⟩
  · simp [Ex.result, Skel.FullyTyped, Ty.noInternal, Ex.nat, Ex.bool, Ex.eqT, Ty.internals, Ty.internalsL]
  · simp [Ex.result, Skel.NoReserved, Ex.nat, Ex.bool, Ex.eqT, Ty.hasReserved, Ty.hasReservedL]
  · simp [Ex.result, Skel.Declared, List.lookup, Ex.nat]

namespace Ex
/-- `a :: 'a` declared as a variable, `?s :: ?'a` declared as a schematic variable -/
def ctxTS : Ctx := ⟨[("a", .tvar "a")], [("s", .stvar (.user "a"))], Ex.ctx.sig, []⟩
def isErr (e : Err) (r : Except Err Skel) : Bool := match r with | .error e' => e == e' | _ => false
end Ex

/-- the model keeps the type variable `'a`, the schematic type variable `?'a`, a type variable that is
merely *called* `_t0`, and the internal variable `?'_t0` apart: `?s = a` is a clash, `x = (y::'_t0)` is
inferred at the rigid `'_t0`, `(y::'_t0) = (0::nat)` is a clash; `x` and `?x` are different variables. -/
example : Ex.isErr .clash (typeInfer Ex.ctxTS 20 true
    (.comb (.comb (.const "equals" none) (.svar "s" none)) (.var "a" none))) = true := by decide +kernel
example : Ex.isErr .clash (typeInfer Ex.ctx 20 true
    (.comb (.comb (.const "equals" none) (.var "x" (some (.tvar "a")))) (.var "y" (some (.stvar (.user "a")))))) = true := by
  decide +kernel
example : (typeInfer Ex.ctx 20 true
    (.comb (.comb (.const "equals" none) (.var "x" none)) (.var "y" (some (.tvar "_t0"))))).toOption =
    some (.comb (.comb (.const "equals" (some (Ex.eqT (.tvar "_t0")))) (.var "x" (some (.tvar "_t0")))) (.var "y" (some (.tvar "_t0")))) := by
  decide +kernel
example : Ex.isErr .clash (typeInfer Ex.ctx 20 true
    (.comb (.comb (.const "equals" none) (.var "y" (some (.tvar "_t0")))) (.const "zero" (some Ex.nat)))) = true := by
  decide +kernel
example : (typeInfer Ex.ctx 20 true
    (.comb (.comb (.const "conj" none) (.comb (.comb (.const "equals" none) (.svar "x" none)) (.const "zero" (some Ex.nat))))
      (.var "x" none))).toOption =
    some (.comb (.comb (.const "conj" (some (tfun Ex.bool (tfun Ex.bool Ex.bool))))
      (.comb (.comb (.const "equals" (some (Ex.eqT Ex.nat))) (.svar "x" (some Ex.nat))) (.const "zero" (some Ex.nat))))
      (.var "x" (some Ex.bool))) := by decide +kernel

/-- the fixed model rejects the three-variable cycle `x y ∧ y z ∧ z x` that escaped the original occurs check -/
example : typeInfer Ex.ctx 20 true
    (.comb (.comb (.const "conj" none) (.comb (.var "x" none) (.var "y" none)))
      (.comb (.comb (.const "conj" none) (.comb (.var "y" none) (.var "z" none)))
        (.comb (.var "z" none) (.var "x" none)))) = .error .occurs := by
  have : ∀ r : Except Err Skel, (match r with | .error .occurs => true | _ => false) = true → r = .error .occurs := by
    intro r h
    cases r with
    | ok a => simp at h
    | error e => cases e <;> simp at h ⊢
  exact this _ (by decide +kernel)

end Holpy.C08
