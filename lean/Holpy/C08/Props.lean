namespace Holpy.C08
end Holpy.C08
