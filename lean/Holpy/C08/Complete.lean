import Holpy.C08.Fuel3
/-
C08 helper lemmas, part 13: completeness of `unify`.
If a substitution σ of the internal variables solves the current system `uf` and makes `A` and `B` equal,
then `unify(A, B)` does not fail (given enough fuel) and σ solves the new system as well: together with
`unify_sound`, the solutions of the new system are exactly the solutions of the old one that unify `A`
and `B` — the solved form is most general.
Needs two more facts about the reach sets: they never over-approximate in a way a solution could
contradict (`RSem`: under any solution, a reached variable's image is no larger than the reaching one's),
and representatives reach nothing (`RRep`).
-/
namespace Holpy.C08

-- ---------------------------------------------------------------- sizes of substituted types

theorem size_pos (T : Ty) : 0 < T.size := by
  cases T <;> simp [Ty.size] <;> omega

theorem sizeL_map_le {σ : List Ty} {j : Nat} : ∀ {as : List Ty} {a : Ty}, a ∈ as →
    (a.substI σ).size ≤ Ty.sizeL (as.map (Ty.substI σ)) := by
  intro as a h
  exact size_le_sizeL (List.mem_map.2 ⟨a, h, rfl⟩)

/-- the image of a variable occurring in `T` is no larger than the image of `T` -/
theorem size_var_le (σ : List Ty) : ∀ (T : Ty) (j : Nat), j ∈ T.internals →
    (σ.getD j (Ty.int j)).size ≤ (T.substI σ).size := by
  intro T
  induction T using Ty.induction with
  | htv n => intro j h; simp [Ty.internals] at h
  | hsv n =>
    cases n with
    | user s => intro j h; simp [Ty.internals] at h
    | internal k => intro j h; simp at h; subst h; simp
  | hcon n as ih =>
    intro j h
    simp only [Ty.internals_con, List.mem_flatMap] at h
    obtain ⟨a, ha, hj⟩ := h
    have h1 := ih a ha j hj
    have h2 : (a.substI σ).size ≤ Ty.sizeL (as.map (Ty.substI σ)) := size_le_sizeL (List.mem_map.2 ⟨a, ha, rfl⟩)
    simp only [Ty.substI_con, Ty.size]
    omega

/-- … and strictly smaller when `T` is a constructor type -/
theorem size_var_lt_con (σ : List Ty) (n : String) (as : List Ty) (j : Nat) (h : j ∈ (Ty.con n as).internals) :
    (σ.getD j (Ty.int j)).size < ((Ty.con n as).substI σ).size := by
  simp only [Ty.internals_con, List.mem_flatMap] at h
  obtain ⟨a, ha, hj⟩ := h
  have h1 := size_var_le σ a j hj
  have h2 : (a.substI σ).size ≤ Ty.sizeL (as.map (Ty.substI σ)) := size_le_sizeL (List.mem_map.2 ⟨a, ha, rfl⟩)
  simp only [Ty.substI_con, Ty.size]
  omega

-- ---------------------------------------------------------------- two more invariants of the reach sets

/-- under every solution, what `k` reaches has an image no larger than the image of `k` -/
def RSem (st : St) : Prop :=
  ∀ σ, Solves σ st.uf → ∀ k j : Nat, j ∈ rset st k →
    (σ.getD j (Ty.int j)).size ≤ (σ.getD k (Ty.int k)).size

/-- a representative reaches nothing -/
def RRep (st : St) : Prop := ∀ k : Nat, st.uf[k]? = some (Ty.int k) → rset st k = []

structure CInv (st : St) : Prop where
  inv : Inv st
  ri : RInv st
  rsem : RSem st
  rrep : RRep st

theorem union_cinv {st st' : St} {T1 T2 : Ty} (hi : T1.isInternal = true) (h : union st T1 T2 = .ok st')
    (hrep : ∀ r, T1 = Ty.int r → st.uf[r]? = some T1) (h2 : RepOrNon st.uf T2) (c : CInv st) : CInv st' := by
  obtain ⟨r, hr⟩ := (Ty.isInternal_iff T1).1 hi
  have hrr := hrep r hr
  obtain ⟨-, -, hsound⟩ := union_sound h hr hrr c.inv.flat h2
  obtain ⟨huf, -, -, -⟩ := union_uf h
  obtain ⟨-, hoc⟩ := union_reach h
  have hm := mem_rset_union h c.ri.rlen
  refine ⟨union_inv h c.inv hr hrr h2, union_rinv h c.ri, ?_, ?_⟩
  · intro σ hσ k j hj
    obtain ⟨hσ0, heq⟩ := hsound σ hσ
    rw [hm] at hj
    rcases hj with hj | ⟨ht, hj⟩
    · exact c.rsem σ hσ0 k j hj
    · -- the class of T1 is reached from k, and j is reached from T2
      have hk : (T1.substI σ).size ≤ (σ.getD k (Ty.int k)).size := by
        rcases ht with ht | ⟨m, hm1, hm2⟩
        · have := hσ0 k T1 ht
          rw [this]; exact Nat.le_refl _
        · have h1 := c.rsem σ hσ0 k m hm1
          have := hσ0 m T1 hm2
          rw [this] at h1; exact h1
      rw [mem_newReach] at hj
      obtain ⟨j0, hj0, hj⟩ := hj
      have h0 := size_var_le σ T2 j0 hj0
      rw [heq] at hk
      rcases hj with rfl | hj
      · omega
      · have := c.rsem σ hσ0 j0 j hj
        omega
  · intro k hk
    rw [huf] at hk
    simp only [List.getElem?_map, Option.map_eq_some_iff] at hk
    obtain ⟨U, hU, hUk⟩ := hk
    have hnot : ¬ touched st T1 k ∨ False := by
      by_cases hc : U = T1
      · -- k is in the class and becomes the representative T2 = int k: then k ∈ new_reach, occurs check
        simp only [hc, if_true] at hUk
        right
        have : k ∈ newReach st T2 := by rw [mem_newReach, hUk]; exact ⟨k, by simp, Or.inl rfl⟩
        exact hoc k this (by rw [hU, hc])
      · simp only [hc, if_false] at hUk
        subst hUk
        left
        intro ht
        rcases ht with ht | ⟨m, hm1, -⟩
        · rw [hU] at ht; exact hc (by cases ht; rfl)
        · rw [c.rrep k hU] at hm1; cases hm1
    rcases hnot with hnot | hf
    · have hold : rset st k = [] := by
        by_cases hc : U = T1
        · simp only [hc, if_true] at hUk
          exfalso
          have : k ∈ newReach st T2 := by rw [mem_newReach, hUk]; exact ⟨k, by simp, Or.inl rfl⟩
          exact hoc k this (by rw [hU, hc])
        · simp only [hc, if_false] at hUk; subst hUk; exact c.rrep k hU
      apply List.eq_nil_iff_forall_not_mem.2
      intro i hi
      rw [hm] at hi
      rcases hi with hi | ⟨ht, -⟩
      · rw [hold] at hi; cases hi
      · exact hnot ht
    · exact hf.elim

end Holpy.C08
