import Holpy.C08.Complete
/-
C08 helper lemmas, part 14: completeness of `union` and `unify`.
-/
namespace Holpy.C08

theorem con_arg_bounded' {c : String} {as : List Ty} {k : Nat} (h : (Ty.con c as).Bounded k) {a : Ty} (ha : a ∈ as) :
    a.Bounded k := by
  intro j hj
  apply h
  simp only [Ty.internals_con, List.mem_flatMap]
  exact ⟨a, ha, hj⟩

theorem union_ok {st : St} {T1 T2 : Ty} {r : Nat} {σ : List Ty} (c : CInv st) (h1 : T1 = Ty.int r)
    (hr : st.uf[r]? = some T1) (h2 : RepOrNon st.uf T2) (hb : T2.Bounded st.uf.length) (hne : T1 ≠ T2)
    (hσ : Solves σ st.uf) (heq : T1.substI σ = T2.substI σ) :
    ∃ st', union st T1 T2 = .ok st' ∧ Solves σ st'.uf := by
  have hcond : (T2.internals.all (· < st.n) && st.reach.length == st.n) = true := by
    simp only [Bool.and_eq_true, List.all_eq_true, decide_eq_true_eq, beq_iff_eq]
    exact ⟨fun j hj => hb j hj, c.inv.rlen⟩
  have hno : (newReach st T2).any (fun k => st.uf[k]? == some T1) = false := by
    rw [List.any_eq_false]
    intro i hi hc
    have hc : st.uf[i]? = some T1 := by simpa using hc
    have hσi : σ.getD i (Ty.int i) = σ.getD r (Ty.int r) := by
      have := hσ i T1 hc
      rw [this, h1]; simp
    rw [mem_newReach] at hi
    obtain ⟨j0, hj0, hi⟩ := hi
    cases hT2 : T2.isInternal with
    | true =>
      obtain ⟨r2, rfl⟩ := (Ty.isInternal_iff T2).1 hT2
      have hrep2 := h2 r2 rfl
      simp at hj0
      subst hj0
      rcases hi with rfl | hi
      · rw [hrep2] at hc; exact hne (by cases hc; rfl)
      · rw [c.rrep j0 hrep2] at hi; cases hi
    | false =>
      cases T2 with
      | tvar n => simp [Ty.internals] at hj0
      | stvar n =>
        cases n with
        | user s => simp [Ty.internals] at hj0
        | internal k => simp [Ty.isInternal] at hT2
      | con m bs =>
        have hlt := size_var_lt_con σ m bs j0 hj0
        rw [← heq, h1] at hlt
        simp only [Ty.substI_int] at hlt
        have hle : (σ.getD i (Ty.int i)).size ≤ (σ.getD j0 (Ty.int j0)).size := by
          rcases hi with rfl | hi
          · exact Nat.le_refl _
          · exact c.rsem σ hσ j0 i hi
        rw [hσi] at hle
        omega
  refine ⟨_, by simp only [union, hcond, if_true, hno]; rfl, ?_⟩
  intro k U hU
  simp only [List.getElem?_map, Option.map_eq_some_iff] at hU
  obtain ⟨V, hV, hVU⟩ := hU
  have hold := hσ k V hV
  by_cases hc : V = T1
  · simp only [hc, if_true] at hVU
    subst hVU
    rw [hold, hc, heq]
  · simp only [hc, if_false] at hVU
    subst hVU
    exact hold

/-- what `unify_complete_aux` delivers -/
def CPost (σ : List Ty) (st : St) (r : Except Err St) : Prop :=
  r = .error .fuel ∨ ∃ st', r = .ok st' ∧ CInv st' ∧ Solves σ st'.uf ∧ st'.uf.length = st.uf.length

theorem unionStep_complete {st : St} {T1 T2 : Ty} {σ : List Ty} (c : CInv st)
    (r1 : RepOrNon st.uf T1) (r2 : RepOrNon st.uf T2) (b1 : T1.Bounded st.uf.length) (b2 : T2.Bounded st.uf.length)
    (hne : T1 ≠ T2) (hσ : Solves σ st.uf) (heq : T1.substI σ = T2.substI σ)
    (hint : T1.isInternal = true ∨ T2.isInternal = true) :
    CPost σ st (if T1.isInternal then union st T1 T2 else if T2.isInternal then union st T2 T1 else .error .clash) := by
  by_cases c1 : T1.isInternal = true
  · simp only [c1, if_true]
    obtain ⟨r, hr⟩ := (Ty.isInternal_iff T1).1 c1
    have hrep : st.uf[r]? = some T1 := by rw [hr]; exact r1 r hr
    obtain ⟨st', hu, hs⟩ := union_ok c hr hrep r2 b2 hne hσ heq
    refine Or.inr ⟨st', hu, union_cinv c1 hu (fun r' hr' => by rw [hr']; exact r1 r' hr') r2 c, hs, ?_⟩
    exact (union_sound hu hr hrep c.inv.flat r2).2.1
  · simp only [c1]
    have c2 : T2.isInternal = true := by
      rcases hint with h | h
      · exact absurd h c1
      · exact h
    simp only [c2, if_true]
    obtain ⟨r, hr⟩ := (Ty.isInternal_iff T2).1 c2
    have hrep : st.uf[r]? = some T2 := by rw [hr]; exact r2 r hr
    obtain ⟨st', hu, hs⟩ := union_ok c hr hrep r1 b1 (Ne.symm hne) hσ heq.symm
    refine Or.inr ⟨st', hu, union_cinv c2 hu (fun r' hr' => by rw [hr']; exact r2 r' hr') r1 c, hs, ?_⟩
    exact (union_sound hu hr hrep c.inv.flat r1).2.1

theorem lookupRep_ok {st : St} {A : Ty} (hb : A.Bounded st.uf.length) : ∃ T, lookupRep st A = .ok T := by
  cases hA : A.isInternal with
  | false =>
    cases A with
    | tvar n => exact ⟨_, rfl⟩
    | stvar n =>
      cases n with
      | user s => exact ⟨_, rfl⟩
      | internal k => simp [Ty.isInternal] at hA
    | con n as => exact ⟨_, rfl⟩
  | true =>
    obtain ⟨k, rfl⟩ := (Ty.isInternal_iff A).1 hA
    have hk : k < st.uf.length := hb k (by simp)
    exact ⟨st.uf[k], by simp [lookupRep, List.getElem?_eq_getElem hk]⟩

theorem unifyArgs_complete {σ : List Ty} {u : St → Ty → Ty → Except Err St}
    (hu : ∀ st a b, CInv st → Solves σ st.uf → a.substI σ = b.substI σ → a.Bounded st.uf.length →
      b.Bounded st.uf.length → CPost σ st (u st a b)) :
    ∀ (as bs : List Ty) (st : St), CInv st → Solves σ st.uf → as.map (Ty.substI σ) = bs.map (Ty.substI σ) →
      (∀ a ∈ as, a.Bounded st.uf.length) → (∀ b ∈ bs, b.Bounded st.uf.length) →
      CPost σ st (unifyArgs u st as bs) := by
  intro as
  induction as with
  | nil =>
    intro bs st c hσ _ _ _
    simp only [unifyArgs]
    exact Or.inr ⟨st, rfl, c, hσ, rfl⟩
  | cons a as ih =>
    intro bs st c hσ heq ha hb
    cases bs with
    | nil => simp at heq
    | cons b bs =>
      simp only [List.map_cons, List.cons.injEq] at heq
      simp only [unifyArgs, bind, Except.bind]
      rcases hu st a b c hσ heq.1 (ha a (by simp)) (hb b (by simp)) with h | ⟨st1, h, c1, hσ1, l1⟩
      · rw [h]; exact Or.inl rfl
      · rw [h]
        simp only
        rcases ih bs st1 c1 hσ1 heq.2 (fun x hx => by rw [l1]; exact ha x (List.mem_cons_of_mem _ hx))
          (fun x hx => by rw [l1]; exact hb x (List.mem_cons_of_mem _ hx)) with h2 | ⟨st2, h2, c2, hσ2, l2⟩
        · exact Or.inl h2
        · exact Or.inr ⟨st2, h2, c2, hσ2, by rw [l2, l1]⟩

theorem unify_complete_aux (σ : List Ty) : ∀ (fuel : Nat) (st : St) (A B : Ty), CInv st → Solves σ st.uf →
    A.substI σ = B.substI σ → A.Bounded st.uf.length → B.Bounded st.uf.length → CPost σ st (unify fuel st A B) := by
  intro fuel
  induction fuel with
  | zero => intro st A B _ _ _ _ _; exact Or.inl rfl
  | succ f ih =>
    intro st A B c hσ heq bA bB
    obtain ⟨T1, hlA⟩ := lookupRep_ok bA
    obtain ⟨T2, hlB⟩ := lookupRep_ok bB
    simp only [unify, bind, Except.bind, hlA, hlB]
    obtain ⟨r1, sA, b1⟩ := lookupRep_spec hlA c.inv.flat
    obtain ⟨r2, sB, b2⟩ := lookupRep_spec hlB c.inv.flat
    have b1 := b1 bA c.inv.ufb
    have b2 := b2 bB c.inv.ufb
    have heq' : T1.substI σ = T2.substI σ := by rw [← sA σ hσ, ← sB σ hσ, heq]
    cases T1 with
    | tvar n1 =>
      cases T2 with
      | tvar n2 =>
        simp only [Ty.substI_tvar, Ty.tvar.injEq] at heq'
        simp only [heq', if_true]
        exact Or.inr ⟨st, rfl, c, hσ, rfl⟩
      | stvar n2 =>
        cases n2 with
        | user s => simp at heq'
        | internal k => exact unionStep_complete c r1 r2 b1 b2 (by intro e; cases e) hσ heq' (Or.inr rfl)
      | con n2 as2 => simp at heq'
    | stvar n1 =>
      cases n1 with
      | user s1 =>
        cases T2 with
        | tvar n2 => simp at heq'
        | stvar n2 =>
          cases n2 with
          | user s2 =>
            simp only [Ty.substI_user, Ty.stvar.injEq, TName.user.injEq] at heq'
            subst heq'
            simp only [if_true]
            exact Or.inr ⟨st, rfl, c, hσ, rfl⟩
          | internal k =>
            simp only [show (TName.user s1 = TName.internal k) = False from by simp, if_false]
            exact unionStep_complete c r1 r2 b1 b2 (by intro e; cases e) hσ heq' (Or.inr rfl)
        | con n2 as2 => simp at heq'
      | internal k1 =>
        cases T2 with
        | tvar n2 => exact unionStep_complete c r1 r2 b1 b2 (by intro e; cases e) hσ heq' (Or.inl rfl)
        | stvar n2 =>
          simp only
          split
          · exact Or.inr ⟨st, rfl, c, hσ, rfl⟩
          · rename_i hne
            exact unionStep_complete c r1 r2 b1 b2 (by intro e; cases e; exact hne rfl) hσ heq' (Or.inl rfl)
        | con n2 as2 => exact unionStep_complete c r1 r2 b1 b2 (by intro e; cases e) hσ heq' (Or.inl rfl)
    | con n1 as1 =>
      cases T2 with
      | tvar n2 => simp at heq'
      | stvar n2 =>
        cases n2 with
        | user s => simp at heq'
        | internal k => exact unionStep_complete c r1 r2 b1 b2 (by intro e; cases e) hσ heq' (Or.inr rfl)
      | con n2 as2 =>
        simp only [Ty.substI_con, Ty.con.injEq] at heq'
        obtain ⟨hn, hargs⟩ := heq'
        have hlen : as1.length = as2.length := by simpa using congrArg List.length hargs
        simp only [hn, if_true, hlen, ne_eq, not_true_eq_false, if_false]
        exact unifyArgs_complete (fun st a b c hσ he ba bb => ih st a b c hσ he ba bb) as1 as2 st c hσ hargs
          (fun a ha => con_arg_bounded' b1 ha) (fun b hb => con_arg_bounded' b2 hb)

end Holpy.C08
