import Holpy.C08.InferPres
import Holpy.C08.ReachInfer
import Holpy.C08.Term
/-
C08 helper lemmas, part 16: more fuel never changes an answer other than "out of fuel"; hence for every
skeleton some amount of fuel is enough for the whole of `type_infer`: the Python function terminates.
-/
namespace Holpy.C08

theorem unifyArgs_mono {u u' : St → Ty → Ty → Except Err St}
    (hu : ∀ st a b r, u st a b = r → r ≠ .error .fuel → u' st a b = r) :
    ∀ (as bs : List Ty) (st : St) (r : Except Err St), unifyArgs u st as bs = r → r ≠ .error .fuel →
      unifyArgs u' st as bs = r := by
  intro as
  induction as with
  | nil => intro bs st r h _; simpa [unifyArgs] using h
  | cons a as ih =>
    intro bs st r h hr
    cases bs with
    | nil => simpa [unifyArgs] using h
    | cons b bs =>
      simp only [unifyArgs, bind, Except.bind] at h ⊢
      cases h1 : u st a b with
      | error e =>
        simp only [h1] at h
        have := hu st a b _ h1 (by rw [h]; exact hr)
        rw [this]; exact h
      | ok st1 =>
        simp only [h1] at h
        rw [hu st a b _ h1 (by intro hh; cases hh)]
        exact ih bs st1 r h hr

theorem unify_mono : ∀ (f : Nat) (st : St) (A B : Ty) (r : Except Err St),
    unify f st A B = r → r ≠ .error .fuel → unify (f + 1) st A B = r := by
  intro f
  induction f with
  | zero => intro st A B r h hr; simp [unify] at h; exact absurd h.symm hr
  | succ f ih =>
    intro st A B r h hr
    rw [unify] at h
    rw [unify]
    simp only [bind, Except.bind] at h ⊢
    cases hA : lookupRep st A with
    | error e => simpa [hA] using h
    | ok T1 =>
      cases hB : lookupRep st B with
      | error e => simpa [hA, hB] using h
      | ok T2 =>
        simp only [hA, hB] at h ⊢
        cases T1 with
        | tvar n1 => cases T2 <;> exact h
        | stvar n1 => cases T2 <;> exact h
        | con n1 as1 =>
          cases T2 with
          | tvar n2 => exact h
          | stvar n2 => exact h
          | con n2 as2 =>
            simp only at h ⊢
            by_cases hn : n1 = n2
            · simp only [hn, if_true] at h ⊢
              by_cases hl : as1.length = as2.length
              · simp only [hl, ne_eq, not_true_eq_false, if_false] at h ⊢
                exact unifyArgs_mono (fun st a b r => ih st a b r) as1 as2 st r h hr
              · simp only [ne_eq, hl, not_false_eq_true, if_true] at h ⊢
                exact h
            · simp only [hn, if_false] at h ⊢
              exact h

theorem unify_mono_le {f f' : Nat} (hle : f ≤ f') {st : St} {A B : Ty} {r : Except Err St}
    (h : unify f st A B = r) (hr : r ≠ .error .fuel) : unify f' st A B = r := by
  induction hle with
  | refl => exact h
  | step _ ih => exact unify_mono _ st A B r ih hr

theorem infer_mono (ctx : Ctx) (f : Nat) : ∀ (t : Skel) (bd : List Ty) (st : St) (r : Except Err (Skel × Ty × St)),
    infer ctx f t bd st = r → r ≠ .error .fuel → infer ctx (f + 1) t bd st = r := by
  intro t
  induction t with
  | svar n T0 => intro bd st r h _; cases T0 <;> simpa [infer] using h
  | var n T0 => intro bd st r h _; cases T0 <;> simpa [infer] using h
  | const n T0 => intro bd st r h _; cases T0 <;> simpa [infer] using h
  | bound i => intro bd st r h _; simpa [infer] using h
  | abs x T0 b ih =>
    intro bd st r h hr
    cases T0 with
    | some A =>
      simp only [infer] at h ⊢
      split
      · rename_i hres; simp only [hres, if_true] at h; exact h
      · rename_i hres
        simp only [hres] at h
        cases hb : infer ctx f b (A :: bd) st with
        | error e =>
          simp only [hb] at h
          rw [ih _ _ _ hb (by rw [← h] at hr; exact hr)]; exact h
        | ok res =>
          simp only [hb] at h
          rw [ih _ _ _ hb (by intro hh; cases hh)]; exact h
    | none =>
      simp only [infer] at h ⊢
      cases hb : infer ctx f b ((newType st).1 :: bd) (newType st).2 with
      | error e =>
        simp only [hb] at h
        rw [ih _ _ _ hb (by rw [← h] at hr; exact hr)]; exact h
      | ok res =>
        simp only [hb] at h
        rw [ih _ _ _ hb (by intro hh; cases hh)]; exact h
  | comb g a ihg iha =>
    intro bd st r h hr
    simp only [infer, bind, Except.bind] at h ⊢
    cases hg : infer ctx f g bd st with
    | error e =>
      simp only [hg] at h
      rw [ihg _ _ _ hg (by rw [← h] at hr; exact hr)]; exact h
    | ok r1 =>
      obtain ⟨g', funT, st1⟩ := r1
      simp only [hg] at h
      rw [ihg _ _ _ hg (by intro hh; cases hh)]
      simp only
      cases ha : infer ctx f a bd st1 with
      | error e =>
        simp only [ha] at h
        rw [iha _ _ _ ha (by rw [← h] at hr; exact hr)]; exact h
      | ok r2 =>
        obtain ⟨a', argT, st2⟩ := r2
        simp only [ha] at h
        rw [iha _ _ _ ha (by intro hh; cases hh)]
        simp only
        have herr : ∀ {e : Err}, (Except.error e : Except Err (Skel × Ty × St)) = r →
            (Except.error e : Except Err St) ≠ .error .fuel := by
          intro e he hh
          cases hh
          exact hr he.symm
        split at h
        · rename_i d rest
          cases hu : unify f st2 d argT with
          | error e =>
            simp only [hu] at h
            rw [unify_mono f st2 d argT _ hu (herr h)]; exact h
          | ok st3 =>
            simp only [hu] at h
            rw [unify_mono f st2 d argT _ hu (by intro hh; cases hh)]; exact h
        · exact h
        · rename_i k
          cases hu : unify f (newType st2).2 (Ty.stvar (TName.internal k)) (tfun argT (newType st2).1) with
          | error e =>
            simp only [hu] at h
            rw [unify_mono f _ _ _ _ hu (herr h)]; exact h
          | ok st4 =>
            simp only [hu] at h
            rw [unify_mono f _ _ _ _ hu (by intro hh; cases hh)]; exact h
        · exact h

theorem infer_mono_le (ctx : Ctx) {f f' : Nat} (hle : f ≤ f') {t : Skel} {bd : List Ty} {st : St}
    {r : Except Err (Skel × Ty × St)} (h : infer ctx f t bd st = r) (hr : r ≠ .error .fuel) :
    infer ctx f' t bd st = r := by
  induction hle with
  | refl => exact h
  | step _ ih => exact infer_mono ctx _ t bd st r ih hr

/-- for every skeleton and every good state some amount of fuel is enough for the traversal -/
theorem infer_total (ctx : Ctx) : ∀ (t : Skel) (bd : List Ty) (st : St), Good st →
    ∃ N, infer ctx N t bd st ≠ .error .fuel := by
  intro t
  induction t with
  | svar n T0 =>
    intro bd st _
    refine ⟨0, ?_⟩
    cases T0 <;> simp only [infer] <;> (repeat' split) <;> (intro h; cases h)
  | var n T0 =>
    intro bd st _
    refine ⟨0, ?_⟩
    cases T0 <;> simp only [infer] <;> (repeat' split) <;> (intro h; cases h)
  | const n T0 =>
    intro bd st _
    refine ⟨0, ?_⟩
    cases T0 <;> simp only [infer] <;> (repeat' split) <;> (intro h; cases h)
  | bound i =>
    intro bd st _
    refine ⟨0, ?_⟩
    simp only [infer]; split <;> (intro h; cases h)
  | abs x T0 b ih =>
    intro bd st g
    cases T0 with
    | some A =>
      obtain ⟨N, hN⟩ := ih (A :: bd) st g
      refine ⟨N, ?_⟩
      simp only [infer]
      split
      · intro h; cases h
      · cases hb : infer ctx N b (A :: bd) st with
        | error e => simp only; intro h; cases h; exact hN hb
        | ok res => simp only; intro h; cases h
    | none =>
      obtain ⟨N, hN⟩ := ih ((newType st).1 :: bd) (newType st).2 (newType_good g)
      refine ⟨N, ?_⟩
      simp only [infer]
      cases hb : infer ctx N b ((newType st).1 :: bd) (newType st).2 with
      | error e => simp only; intro h; cases h; exact hN hb
      | ok res => simp only; intro h; cases h
  | comb f a ihf iha =>
    intro bd st g
    obtain ⟨N1, hN1⟩ := ihf bd st g
    cases hf : infer ctx N1 f bd st with
    | error e =>
      refine ⟨N1, ?_⟩
      simp only [infer, bind, Except.bind, hf]
      intro h; cases h; exact hN1 hf
    | ok r1 =>
      obtain ⟨f', funT, st1⟩ := r1
      have g1 := infer_good ctx N1 f bd st f' funT st1 hf g
      obtain ⟨N2, hN2⟩ := iha bd st1 g1
      cases ha : infer ctx N2 a bd st1 with
      | error e =>
        refine ⟨max N1 N2, ?_⟩
        have hf' := infer_mono_le ctx (Nat.le_max_left N1 N2) hf (by intro h; cases h)
        have ha' := infer_mono_le ctx (Nat.le_max_right N1 N2) ha (by rw [← ha]; exact hN2)
        simp only [infer, bind, Except.bind, hf', ha']
        intro h; cases h; exact hN2 ha
      | ok r2 =>
        obtain ⟨a', argT, st2⟩ := r2
        have g2 := infer_good ctx N2 a bd st1 a' argT st2 ha g1
        have g3 := newType_good g2
        -- fuel for whichever call of `unify` the application makes
        let N3 := match funT with
          | .con _ (d :: _) => unifyFuel st2 d argT
          | _ => unifyFuel (newType st2).2 funT (tfun argT (newType st2).1)
        refine ⟨max (max N1 N2) N3, ?_⟩
        have hf' := infer_mono_le ctx (Nat.le_trans (Nat.le_max_left N1 N2) (Nat.le_max_left _ N3)) hf (by intro h; cases h)
        have ha' := infer_mono_le ctx (Nat.le_trans (Nat.le_max_right N1 N2) (Nat.le_max_left _ N3)) ha (by intro h; cases h)
        simp only [infer, bind, Except.bind, hf', ha']
        split
        · rename_i d rest
          have hu := unify_fuel_ok (A := d) (B := argT) g2.1.inv g2.1.ri g2.2 (fuel := max (max N1 N2) N3)
            (Nat.le_max_right _ _)
          cases hr : unify (max (max N1 N2) N3) st2 d argT with
          | error e => simp only; intro h; cases h; exact hu hr
          | ok st3 => simp only; split <;> (intro h; cases h)
        · intro h; cases h
        · rename_i k
          have hu := unify_fuel_ok (A := Ty.stvar (TName.internal k)) (B := tfun argT (newType st2).1)
            g3.1.inv g3.1.ri g3.2 (fuel := max (max N1 N2) N3) (Nat.le_max_right _ _)
          cases hr : unify (max (max N1 N2) N3) (newType st2).2 (Ty.stvar (TName.internal k)) (tfun argT (newType st2).1) with
          | error e => simp only; intro h; cases h; exact hu hr
          | ok st4 => simp only; intro h; cases h
        · intro h; cases h

-- ---------------------------------------------------------------- material for the non-vacuity examples in Props2.lean
namespace Ex2
def bool : Ty := .con "bool" []
def st2 : St := (newType (newType St.empty).2).2
theorem rb_st2 : RB st2 := by
  intro k j hj
  have : rset st2 k = [] := by
    unfold rset st2 newType St.empty
    rcases k with _ | _ | k <;> simp
  rw [this] at hj; cases hj
end Ex2

namespace Ex2
theorem cinv_st2 : CInv st2 := by
  refine ⟨newType_inv (newType_inv inv_empty), newType_rinv (newType_rinv rinv_empty), ?_, ?_⟩
  · intro σ _ k j hj
    have : rset st2 k = [] := by
      unfold rset st2 newType St.empty
      rcases k with _ | _ | k <;> simp
    rw [this] at hj; cases hj
  · intro k _
    unfold rset st2 newType St.empty
    rcases k with _ | _ | k <;> simp
/-- σ = [nat => bool, nat] solves the (trivial) system of `st2` and unifies `?'_t0` with `?'_t1 => bool` -/
def sigma : List Ty := [tfun (.con "nat" []) bool, .con "nat" []]
end Ex2

end Holpy.C08
