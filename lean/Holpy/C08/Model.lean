/-
C08 — executable model of `syntax/infertype.py: type_infer` (with the fixes C08-1 … C08-4).

Mirrors the Python statement by statement:
* `uf`   : Python dict `num ↦ Type`, here `List Ty` indexed by the number of the internal variable;
           it is *flat*: `uf[k]` is either a representative internal variable or a non-variable type,
           and representative lookup happens only at the top of `unify` (never inside arguments);
* `reach`: `num ↦ set of num`, here `List (List Nat)` (lists used as sets);
* `union`: `new_reach` = internal variables of `T2` with their reach sets; occurs check
           `k ∈ new_reach` for the members `k` of the class of `T1`; `uf[k] := T2` for the class;
           (fix C08-1) `reach[k] ∪= new_reach` for the class *and* for every variable whose reach set
           meets the class;
* `unify`: the `if/elif` chain of the Python in the same order, with (fix C08-2) a length check on
           argument tuples; recursion through representative lookup is not structural: fuel;
* `infer`: same traversal order, so the fresh variables `_tN` get the same numbers as in Python;
* the final substitution loop, with fuel.

Internal type variables `STVar('_t' + str(k))` are `Ty.stvar (.internal k)`; every other schematic
type variable is `Ty.stvar (.user s)`.  Python's `is_internal_type` is `name.startswith('_t')`: the
wire decoder maps `_t<digits>` to `.internal` and keeps any other `_t…` name as `.user`; both are
*reserved* (`Ty.hasReserved`), and (fix C08-3) a type given with the skeleton or by the context that
uses a reserved name is rejected with `Err.reserved` where it enters inference (`given`).
`context.ctxt.defs` (the constant being defined, used when a definition is parsed) is modelled:
`applyDefs` (fix C08-4: only an unannotated head is given the declared type) and the fallback in
the constant case.  Not modelled: error message texts.
Import-free: linked into the `c08_model` driver.
-/
namespace Holpy.C08

inductive TName where
  | user (s : String)
  | internal (k : Nat)
  deriving DecidableEq, Repr, Inhabited

inductive Ty where
  | tvar (n : String)
  | stvar (n : TName)
  | con (n : String) (args : List Ty)
  deriving Repr, Inhabited

mutual
def Ty.decEq : (a b : Ty) → Decidable (a = b)
  | .tvar n, .tvar m => if h : n = m then isTrue (by rw [h]) else isFalse (by intro e; cases e; exact h rfl)
  | .stvar n, .stvar m => if h : n = m then isTrue (by rw [h]) else isFalse (by intro e; cases e; exact h rfl)
  | .con n as, .con m bs =>
    if h : n = m then
      match Ty.decEqList as bs with
      | isTrue h2 => isTrue (by rw [h, h2])
      | isFalse h2 => isFalse (by intro e; cases e; exact h2 rfl)
    else isFalse (by intro e; cases e; exact h rfl)
  | .tvar _, .stvar _ => isFalse (by intro e; cases e)
  | .tvar _, .con _ _ => isFalse (by intro e; cases e)
  | .stvar _, .tvar _ => isFalse (by intro e; cases e)
  | .stvar _, .con _ _ => isFalse (by intro e; cases e)
  | .con _ _, .tvar _ => isFalse (by intro e; cases e)
  | .con _ _, .stvar _ => isFalse (by intro e; cases e)
def Ty.decEqList : (as bs : List Ty) → Decidable (as = bs)
  | [], [] => isTrue rfl
  | [], _ :: _ => isFalse (by intro e; cases e)
  | _ :: _, [] => isFalse (by intro e; cases e)
  | a :: as, b :: bs =>
    match Ty.decEq a b with
    | isTrue h1 =>
      match Ty.decEqList as bs with
      | isTrue h2 => isTrue (by rw [h1, h2])
      | isFalse h2 => isFalse (by intro e; cases e; exact h2 rfl)
    | isFalse h1 => isFalse (by intro e; cases e; exact h1 rfl)
end

instance : DecidableEq Ty := Ty.decEq

/-- `STVar('_t' + str(k))` -/
abbrev Ty.int (k : Nat) : Ty := .stvar (.internal k)

/-- `is_internal_type(T)` -/
def Ty.isInternal : Ty → Bool
  | .stvar (.internal _) => true
  | _ => false

mutual
/-- numbers of the internal variables occurring in a type (`get_stvars` filtered by `is_internal_type`) -/
def Ty.internals : Ty → List Nat
  | .tvar _ => []
  | .stvar (.internal k) => [k]
  | .stvar (.user _) => []
  | .con _ as => Ty.internalsL as
def Ty.internalsL : List Ty → List Nat
  | [] => []
  | a :: as => a.internals ++ Ty.internalsL as
end

mutual
/-- `T.subst(tyinst)` for a `tyinst` whose keys are `_t0 … _t(len-1)` -/
def Ty.substI (τ : List Ty) : Ty → Ty
  | .tvar n => .tvar n
  | .stvar (.internal k) => τ.getD k (.stvar (.internal k))
  | .stvar (.user s) => .stvar (.user s)
  | .con n as => .con n (Ty.substIL τ as)
def Ty.substIL (τ : List Ty) : List Ty → List Ty
  | [] => []
  | a :: as => a.substI τ :: Ty.substIL τ as
end

mutual
/-- type variables of a signature type in order of first occurrence (`convert_stvar().get_stvars()`) -/
def Ty.tvars : Ty → List String
  | .tvar n => [n]
  | .stvar _ => []
  | .con _ as => Ty.tvarsL as
def Ty.tvarsL : List Ty → List String
  | [] => []
  | a :: as => a.tvars ++ Ty.tvarsL as
end

mutual
/-- does a (signature) type contain a schematic type variable (`convert_stvar` raises on these) -/
def Ty.hasStvar : Ty → Bool
  | .tvar _ => false
  | .stvar _ => true
  | .con _ as => Ty.hasStvarL as
def Ty.hasStvarL : List Ty → Bool
  | [] => false
  | a :: as => a.hasStvar || Ty.hasStvarL as
end

mutual
/-- `T.convert_stvar().subst(tyinst)`: replace the type variables of a signature type -/
def Ty.inst (m : List (String × Ty)) : Ty → Ty
  | .tvar n => (m.lookup n).getD (.stvar (.user n))
  | .stvar s => .stvar s
  | .con n as => .con n (Ty.instL m as)
def Ty.instL (m : List (String × Ty)) : List Ty → List Ty
  | [] => []
  | a :: as => a.inst m :: Ty.instL m as
end

mutual
/-- does the type use a name reserved for internal variables (`is_internal_type` on some `get_stvars()`) -/
def Ty.hasReserved : Ty → Bool
  | .tvar _ => false
  | .stvar (.internal _) => true
  | .stvar (.user s) => s.startsWith "_t"
  | .con _ as => Ty.hasReservedL as
def Ty.hasReservedL : List Ty → Bool
  | [] => false
  | a :: as => a.hasReserved || Ty.hasReservedL as
end

mutual
/-- names of the (user) schematic type variables in order of first occurrence (`get_stvars()`) -/
def Ty.ustvars : Ty → List String
  | .tvar _ => []
  | .stvar (.user s) => [s]
  | .stvar (.internal _) => []
  | .con _ as => Ty.ustvarsL as
def Ty.ustvarsL : List Ty → List String
  | [] => []
  | a :: as => a.ustvars ++ Ty.ustvarsL as
end

mutual
/-- `T.subst(tyinst)` for a `tyinst` on user schematic type variables -/
def Ty.instS (m : List (String × Ty)) : Ty → Ty
  | .tvar n => .tvar n
  | .stvar (.user s) => (m.lookup s).getD (.stvar (.user s))
  | .stvar (.internal k) => .stvar (.internal k)
  | .con n as => .con n (Ty.instSL m as)
def Ty.instSL (m : List (String × Ty)) : List Ty → List Ty
  | [] => []
  | a :: as => a.instS m :: Ty.instSL m as
end

def dedupStr (l : List String) : List String :=
  l.foldl (fun acc s => if acc.contains s then acc else acc ++ [s]) []

abbrev tfun (a b : Ty) : Ty := .con "fun" [a, b]

/-- Term skeletons: `kernel/term.py` terms whose `T` / `var_T` may be `None`. -/
inductive Skel where
  | svar (n : String) (T : Option Ty)
  | var (n : String) (T : Option Ty)
  | const (n : String) (T : Option Ty)
  | comb (f a : Skel)
  | abs (x : String) (T : Option Ty) (b : Skel)
  | bound (i : Nat)
  deriving Repr, Inhabited, DecidableEq

/-- `t.subst_type_inplace(tyinst)` -/
def Skel.substI (τ : List Ty) : Skel → Skel
  | .svar n T => .svar n (T.map (Ty.substI τ))
  | .var n T => .var n (T.map (Ty.substI τ))
  | .const n T => .const n (T.map (Ty.substI τ))
  | .comb f a => .comb (f.substI τ) (a.substI τ)
  | .abs x T b => .abs x (T.map (Ty.substI τ)) (b.substI τ)
  | .bound i => .bound i

/-- `Term.checked_get_type` (None when it raises, or when a type is still missing) -/
def checkedGetType : Skel → List Ty → Option Ty
  | .svar _ T, _ => T
  | .var _ T, _ => T
  | .const _ T, _ => T
  | .comb f a, bd =>
    match checkedGetType f bd, checkedGetType a bd with
    | some (.con "fun" (d :: r :: _)), some aT => if d = aT then some r else none
    | _, _ => none
  | .abs _ T b, bd =>
    match T with
    | some T => (checkedGetType b (T :: bd)).map (fun bT => tfun T bT)
    | none => none
  | .bound i, bd => bd[i]?

inductive Err where
  | occurs        -- TypeInferenceException "Infinite loop"
  | clash         -- TypeInferenceException "Unable to unify"
  | notfun        -- TypeInferenceException "... is not of function type"
  | unspecified   -- TypeInferenceException "Unspecified type"
  | reserved      -- TypeInferenceException "Type variable ... is reserved" (fix C08-3)
  | noconst       -- TheoryException "Const ... not found"
  | crash         -- KeyError / IndexError / TypeException: not one of type_infer's own errors
  | fuel
  deriving Repr, DecidableEq, Inhabited

/-- `context.ctxt.vars`, `context.ctxt.svars`, `context.ctxt.defs`, `theory.thy` term signature (with `TVar`s). -/
structure Ctx where
  vars : List (String × Ty)
  svars : List (String × Ty)
  sig : List (String × Ty)
  defs : List (String × Ty) := []
  deriving Inhabited

structure St where
  uf : List Ty
  reach : List (List Nat)
  ictx : List (String × Ty)
  isctx : List (String × Ty)
  deriving Inhabited

def St.empty : St := ⟨[], [], [], []⟩

/-- `num_internal` -/
abbrev St.n (st : St) : Nat := st.uf.length

/-- `new_type()` -/
def newType (st : St) : Ty × St :=
  (Ty.int st.n, { st with uf := st.uf ++ [Ty.int st.n], reach := st.reach ++ [[]] })

/-- representative lookup at the top of `unify`: `if is_internal_type(T): T = uf[int(T.name[2:])]` -/
def lookupRep (st : St) : Ty → Except Err Ty
  | .stvar (.internal k) =>
    match st.uf[k]? with
    | some U => .ok U
    | none => .error .crash
  | T => .ok T

/-- `new_reach` of `union` (fix C08-1: computed the same way whether or not `T2` is a variable) -/
def newReach (st : St) (T2 : Ty) : List Nat :=
  T2.internals.flatMap (fun j => j :: st.reach.getD j [])

/-- `union(T1, T2)` with `T1 = ?'_t<k1>` (fix C08-1 applied) -/
def union (st : St) (T1 T2 : Ty) : Except Err St :=
  if T2.internals.all (· < st.n) && st.reach.length == st.n then
    let nr := newReach st T2
    let inClass : Nat → Bool := fun k => st.uf[k]? == some T1
    if nr.any inClass then .error .occurs
    else
      .ok { st with
        uf := st.uf.map (fun U => if U = T1 then T2 else U),
        reach := List.zipWith (fun U r => if U = T1 || r.any inClass then r ++ nr else r) st.uf st.reach }
  else .error .crash

/-- the `for i in range(len(T1.args)): unify(T1.args[i], T2.args[i])` loop -/
def unifyArgs (u : St → Ty → Ty → Except Err St) : St → List Ty → List Ty → Except Err St
  | st, a :: as, b :: bs => do
    let st' ← u st a b
    unifyArgs u st' as bs
  | st, _, _ => .ok st

/-- `unify(T1, T2)` -/
def unify : Nat → St → Ty → Ty → Except Err St
  | 0, _, _, _ => .error .fuel
  | f + 1, st, A, B => do
    let T1 ← lookupRep st A
    let T2 ← lookupRep st B
    match T1, T2 with
    | .con n1 as1, .con n2 as2 =>
      if n1 = n2 then
        if as1.length ≠ as2.length then .error .clash          -- fix C08-2
        else unifyArgs (unify f) st as1 as2
      else .error .clash
    | .tvar n1, .tvar n2 => if n1 = n2 then .ok st else .error .clash
    | .stvar n1, .stvar n2 =>
      if n1 = n2 then .ok st
      else if T1.isInternal then union st T1 T2
      else if T2.isInternal then union st T2 T1
      else .error .clash
    | _, _ =>
      if T1.isInternal then union st T1 T2
      else if T2.isInternal then union st T2 T1
      else .error .clash

/-- fresh variables for the type variables of a constant's signature type, in order -/
def allocFor : List String → St → List (String × Ty) × St
  | [], st => ([], st)
  | v :: vs, st =>
    let (T, st1) := newType st
    let (m, st2) := allocFor vs st1
    ((v, T) :: m, st2)

/-- `infer(t, bd_vars)`; returns the skeleton with the types filled in (Python mutates `t`),
the inferred type and the new state. -/
def infer (ctx : Ctx) (fuel : Nat) : Skel → List Ty → St → Except Err (Skel × Ty × St)
  | .svar n (some T), _, st => if T.hasReserved then .error .reserved else .ok (.svar n (some T), T, st)
  | .svar n none, _, st =>
    match ctx.svars.lookup n with
    | some T => if T.hasReserved then .error .reserved else .ok (.svar n (some T), T, st)
    | none =>
      match st.isctx.lookup n with
      | some T => .ok (.svar n (some T), T, st)
      | none =>
        let (T, st1) := newType st
        .ok (.svar n (some T), T, { st1 with isctx := (n, T) :: st1.isctx })
  | .var n (some T), _, st => if T.hasReserved then .error .reserved else .ok (.var n (some T), T, st)
  | .var n none, _, st =>
    match ctx.vars.lookup n with
    | some T => if T.hasReserved then .error .reserved else .ok (.var n (some T), T, st)
    | none =>
      match st.ictx.lookup n with
      | some T => .ok (.var n (some T), T, st)
      | none =>
        let (T, st1) := newType st
        .ok (.var n (some T), T, { st1 with ictx := (n, T) :: st1.ictx })
  | .const n (some T), _, st => if T.hasReserved then .error .reserved else .ok (.const n (some T), T, st)
  | .const n none, _, st =>
    match ctx.sig.lookup n with
    | none =>
      match ctx.defs.lookup n with
      | none => .error .noconst
      | some D =>
        if D.hasReserved then .error .reserved
        else
          let (m, st1) := allocFor (dedupStr D.ustvars) st
          let T := D.instS m
          .ok (.const n (some T), T, st1)
    | some S =>
      if S.hasStvar then .error .crash
      else
        let (m, st1) := allocFor (dedupStr S.tvars) st
        let T := S.inst m
        .ok (.const n (some T), T, st1)
  | .comb f a, bd, st => do
    let (f', funT, st1) ← infer ctx fuel f bd st
    let (a', argT, st2) ← infer ctx fuel a bd st1
    match funT with
    | .con "fun" (d :: rest) =>
      let st3 ← unify fuel st2 d argT
      match rest with
      | r :: _ => .ok (.comb f' a', r, st3)
      | [] => .error .crash
    | .con "fun" [] => .error .crash
    | .stvar (.internal _) =>
      let (resT, st3) := newType st2
      let st4 ← unify fuel st3 funT (tfun argT resT)
      .ok (.comb f' a', resT, st4)
    | _ => .error .notfun
  | .abs x (some vT) b, bd, st =>
    if vT.hasReserved then .error .reserved
    else
      match infer ctx fuel b (vT :: bd) st with
      | .ok (b', bodyT, st2) => .ok (.abs x (some vT) b', tfun vT bodyT, st2)
      | .error e => .error e
  | .abs x none b, bd, st =>
    match infer ctx fuel b ((newType st).1 :: bd) (newType st).2 with
    | .ok (b', bodyT, st2) => .ok (.abs x (some (newType st).1) b', tfun (newType st).1 bodyT, st2)
    | .error e => .error e
  | .bound i, bd, st =>
    match bd[i]? with
    | some T => .ok (.bound i, T, st)
    | none => .error .crash

/-- one `for i in range(num_internal)` sweep of the final loop; `i` counts up, `m` is what is left -/
def pass (unspec : List Nat) : Nat → Nat → List Ty → Bool → List Ty × Bool
  | 0, _, τ, ch => (τ, ch)
  | m + 1, i, τ, ch =>
    let T := τ.getD i (Ty.int i)
    if T.internals.any (fun v => !unspec.contains v) then
      pass unspec m (i + 1) (τ.set i (T.substI τ)) true
    else pass unspec m (i + 1) τ ch

/-- `while has_repl:` -/
def finalLoop (unspec : List Nat) : Nat → List Ty → Except Err (List Ty)
  | 0, _ => .error .fuel
  | f + 1, τ =>
    let (τ', ch) := pass unspec τ.length 0 τ false
    if ch then finalLoop unspec f τ' else .ok τ'

/-- `unspecified` -/
def unspecOf (uf : List Ty) : List Nat :=
  (List.range uf.length).filter (fun k => uf[k]? == some (Ty.int k))

/-- everything after `infer(t, [])` -/
def finish (fuel : Nat) (forbid : Bool) (t' : Skel) (st : St) : Except Err Skel :=
  let unspec := unspecOf st.uf
  if forbid && !unspec.isEmpty then .error .unspecified
  else
    match finalLoop unspec fuel st.uf with
    | .ok τ => .ok (t'.substI τ)
    | .error e => .error e

/-- the head constant of `f t1 … tn` with its annotation (`strip_comb`) -/
def Skel.headConst : Skel → Option (String × Option Ty)
  | .comb f _ => f.headConst
  | .const n T => some (n, T)
  | _ => none

/-- give the head constant the type `D` -/
def Skel.setHead (D : Ty) : Skel → Skel
  | .comb f a => .comb (f.setHead D) a
  | .const n _ => .const n (some D)
  | t => t

/-- `if context.ctxt.defs and t.is_equals(): …`: when a definition `f x1 … xn = rhs` is parsed, the head `f`
of the left side gets the type the context declares for it (fix C08-4: only if it has none yet) -/
def applyDefs (ctx : Ctx) (t : Skel) : Except Err Skel :=
  if ctx.defs.isEmpty then .ok t
  else
    match t with
    | .comb (.comb (.const "equals" T) l) r =>
      match l.headConst with
      | some (n, none) =>
        match ctx.defs.lookup n with
        | some D => if D.hasReserved then .error .reserved else .ok (.comb (.comb (.const "equals" T) (l.setHead D)) r)
        | none => .ok t
      | _ => .ok t
    | _ => .ok t

/-- `type_infer(t, forbid_internal=forbid)` under the context `ctx` -/
def typeInfer (ctx : Ctx) (fuel : Nat) (forbid : Bool) (t : Skel) : Except Err Skel :=
  match applyDefs ctx t with
  | .error e => .error e
  | .ok t0 =>
    match infer ctx fuel t0 [] St.empty with
    | .ok (t', _, st) => finish fuel forbid t' st
    | .error e => .error e

end Holpy.C08
