import Holpy.C08.Witness
/-
C08 helper lemmas, part 18: completeness of the traversal `infer`.
If the skeleton has a well-typed completion `u` (witnessed by a substitution σ for the variables created so far),
`infer` does not fail (except by running out of fuel), and the witness extends to the new state so that the
filled skeleton and the inferred type, under the extended witness, are `u` and its type.
-/
namespace Holpy.C08

/-- what completeness of `infer` delivers: out of fuel, or a result of which `u : U` is the instance under an
extension `σ ++ ρ` of the witness -/
def IPost (vt svt : String → Ty) (σ : List Ty) (u : Skel) (U : Ty) (r : Except Err (Skel × Ty × St)) : Prop :=
  r = .error .fuel ∨ ∃ t' T st' ρ, r = .ok (t', T, st') ∧ WOK vt svt (σ ++ ρ) st' ∧
    t'.substI (σ ++ ρ) = u ∧ T.substI (σ ++ ρ) = U

theorem ipost_same {vt svt : String → Ty} {σ : List Ty} {u t' : Skel} {U T : Ty} {st : St} (w : WOK vt svt σ st)
    (h1 : t'.substI σ = u) (h2 : T.substI σ = U) : IPost vt svt σ u U (.ok (t', T, st)) :=
  Or.inr ⟨t', T, st, [], rfl, by simpa using w, by simpa using h1, by simpa using h2⟩

theorem substI_not_reserved (σ : List Ty) {A : Ty} (h : A.hasReserved = false) : A.substI σ = A :=
  Ty.substI_of_noInt σ A (noInt_of_not_reserved A h)

/-- recording the type of a new variable name keeps the witness invariant -/
theorem WOK.addVar {vt svt : String → Ty} {σ : List Ty} {st : St} (w : WOK vt svt σ st) (n : String) (T : Ty)
    (hT : T.substI σ = vt n) : WOK vt svt σ { st with ictx := (n, T) :: st.ictx } := by
  refine ⟨w.len, w.sol, ?_, w.isc⟩
  intro n' T' h
  simp only [List.lookup_cons] at h
  cases hc : n' == n with
  | true =>
    simp only [hc] at h
    cases h
    have : n' = n := by simpa using hc
    rw [this]; exact hT
  | false => simp only [hc] at h; exact w.ic n' T' h

theorem WOK.addSVar {vt svt : String → Ty} {σ : List Ty} {st : St} (w : WOK vt svt σ st) (n : String) (T : Ty)
    (hT : T.substI σ = svt n) : WOK vt svt σ { st with isctx := (n, T) :: st.isctx } := by
  refine ⟨w.len, w.sol, w.ic, ?_⟩
  intro n' T' h
  simp only [List.lookup_cons] at h
  cases hc : n' == n with
  | true =>
    simp only [hc] at h
    cases h
    have : n' = n := by simpa using hc
    rw [this]; exact hT
  | false => simp only [hc] at h; exact w.isc n' T' h

theorem fresh_substI {vt svt : String → Ty} {σ : List Ty} {st : St} (w : WOK vt svt σ st) (x : Ty) :
    (newType st).1.substI (σ ++ [x]) = x := by
  rw [newType_fst]
  simp only [Ty.substI_int, St.n]
  rw [← w.len]
  exact getD_snoc_self

/-- after a successful `unify` on which σ was kept, σ is still a witness -/
theorem WOK.unify {vt svt : String → Ty} {σ : List Ty} {st st' : St} {A B : Ty} {fuel : Nat} (w : WOK vt svt σ st)
    (inv : Inv st) (h : unify fuel st A B = .ok st') (hs : Solves σ st'.uf) : WOK vt svt σ st' := by
  obtain ⟨-, l, i, is, -⟩ := unify_post fuel st A B st' h inv
  exact ⟨by rw [l]; exact w.len, hs, by rw [i]; exact w.ic, by rw [is]; exact w.isc⟩

end Holpy.C08
