import Holpy.C08.Complete2
import Holpy.C08.Main
/-
C08 helper lemmas, part 15: a generic traversal lemma for `infer`; the states reached by `infer` satisfy all
invariants used by the fuel and completeness theorems.
-/
namespace Holpy.C08

theorem allocFor_pres (P : St → Prop) (hN : ∀ st, P st → P (newType st).2) :
    ∀ (vs : List String) (st : St), P st → P (allocFor vs st).2 := by
  intro vs
  induction vs with
  | nil => intro st h; simpa [allocFor] using h
  | cons v vs ih => intro st h; simp only [allocFor]; exact ih _ (hN _ h)

/-- any state predicate kept by `new_type`, by changes of the variable tables and by `unify` is kept by `infer` -/
theorem infer_pres (P : St → Prop) (hN : ∀ st, P st → P (newType st).2)
    (hC : ∀ (st : St) (ic isc : List (String × Ty)), P st → P { st with ictx := ic, isctx := isc })
    (hU : ∀ f st A B st', unify f st A B = .ok st' → P st → P st') (ctx : Ctx) (fuel : Nat) :
    ∀ (t : Skel) (bd : List Ty) (st : St) (t' : Skel) (T : Ty) (st' : St),
      infer ctx fuel t bd st = .ok (t', T, st') → P st → P st' := by
  intro t
  induction t with
  | svar n T0 =>
    intro bd st t' T st' h ri
    cases T0 with
    | some A =>
      simp only [infer] at h
      split at h
      · cases h
      · simp only [Except.ok.injEq, Prod.mk.injEq] at h; obtain ⟨-, -, rfl⟩ := h; exact ri
    | none =>
      simp only [infer] at h
      cases hd : ctx.svars.lookup n with
      | some D =>
        simp only [hd] at h
        split at h
        · cases h
        · simp only [Except.ok.injEq, Prod.mk.injEq] at h; obtain ⟨-, -, rfl⟩ := h; exact ri
      | none =>
        simp only [hd] at h
        cases hi : st.isctx.lookup n with
        | some D => simp only [hi, Except.ok.injEq, Prod.mk.injEq] at h; obtain ⟨-, -, rfl⟩ := h; exact ri
        | none =>
          simp only [hi, Except.ok.injEq, Prod.mk.injEq] at h
          obtain ⟨-, -, rfl⟩ := h
          exact hC _ _ _ (hN _ ri)
  | var n T0 =>
    intro bd st t' T st' h ri
    cases T0 with
    | some A =>
      simp only [infer] at h
      split at h
      · cases h
      · simp only [Except.ok.injEq, Prod.mk.injEq] at h; obtain ⟨-, -, rfl⟩ := h; exact ri
    | none =>
      simp only [infer] at h
      cases hd : ctx.vars.lookup n with
      | some D =>
        simp only [hd] at h
        split at h
        · cases h
        · simp only [Except.ok.injEq, Prod.mk.injEq] at h; obtain ⟨-, -, rfl⟩ := h; exact ri
      | none =>
        simp only [hd] at h
        cases hi : st.ictx.lookup n with
        | some D => simp only [hi, Except.ok.injEq, Prod.mk.injEq] at h; obtain ⟨-, -, rfl⟩ := h; exact ri
        | none =>
          simp only [hi, Except.ok.injEq, Prod.mk.injEq] at h
          obtain ⟨-, -, rfl⟩ := h
          exact hC _ _ _ (hN _ ri)
  | const n T0 =>
    intro bd st t' T st' h ri
    cases T0 with
    | some A =>
      simp only [infer] at h
      split at h
      · cases h
      · simp only [Except.ok.injEq, Prod.mk.injEq] at h; obtain ⟨-, -, rfl⟩ := h; exact ri
    | none =>
      simp only [infer] at h
      cases hs : ctx.sig.lookup n with
      | none =>
        simp only [hs] at h
        cases hdf : ctx.defs.lookup n with
        | none => simp [hdf] at h
        | some D =>
          simp only [hdf] at h
          split at h
          · cases h
          · simp only [Except.ok.injEq, Prod.mk.injEq] at h
            obtain ⟨-, -, rfl⟩ := h
            exact allocFor_pres P hN _ _ ri
      | some S =>
        simp only [hs] at h
        cases hst : S.hasStvar with
        | true => simp [hst] at h
        | false =>
          simp only [hst, Bool.false_eq_true, if_false, Except.ok.injEq, Prod.mk.injEq] at h
          obtain ⟨-, -, rfl⟩ := h
          exact allocFor_pres P hN _ _ ri
  | comb f a ihf iha =>
    intro bd st t' T st' h ri
    simp only [infer, bind, Except.bind] at h
    cases hf : infer ctx fuel f bd st with
    | error e => simp [hf] at h
    | ok r1 =>
      obtain ⟨f', funT, st1⟩ := r1
      simp only [hf] at h
      cases ha : infer ctx fuel a bd st1 with
      | error e => simp [ha] at h
      | ok r2 =>
        obtain ⟨a', argT, st2⟩ := r2
        simp only [ha] at h
        have r2 := iha bd st1 a' argT st2 ha (ihf bd st f' funT st1 hf ri)
        split at h
        · rename_i d rest
          cases hu : unify fuel st2 d argT with
          | error e => simp [hu] at h
          | ok st3 =>
            simp only [hu] at h
            cases rest with
            | nil => simp at h
            | cons r rest' =>
              simp only [Except.ok.injEq, Prod.mk.injEq] at h
              obtain ⟨-, -, rfl⟩ := h
              exact hU _ _ _ _ _ hu r2
        · simp at h
        · rename_i k
          cases hu : unify fuel (newType st2).2 (Ty.stvar (TName.internal k)) (tfun argT (newType st2).1) with
          | error e => simp [hu] at h
          | ok st4 =>
            simp only [hu, Except.ok.injEq, Prod.mk.injEq] at h
            obtain ⟨-, -, rfl⟩ := h
            exact hU _ _ _ _ _ hu (hN _ r2)
        · simp at h
  | abs x T0 b ih =>
    intro bd st t' T st' h ri
    cases T0 with
    | some A =>
      simp only [infer] at h
      split at h
      · cases h
      · cases hb : infer ctx fuel b (A :: bd) st with
        | error e => simp [hb] at h
        | ok r =>
          obtain ⟨b', bodyT, st2⟩ := r
          simp only [hb, Except.ok.injEq, Prod.mk.injEq] at h
          obtain ⟨-, -, rfl⟩ := h
          exact ih _ _ _ _ _ hb ri
    | none =>
      simp only [infer] at h
      cases hb : infer ctx fuel b ((newType st).1 :: bd) (newType st).2 with
      | error e => simp [hb] at h
      | ok r =>
        obtain ⟨b', bodyT, st2⟩ := r
        simp only [hb, Except.ok.injEq, Prod.mk.injEq] at h
        obtain ⟨-, -, rfl⟩ := h
        exact ih _ _ _ _ _ hb (hN _ ri)
  | bound i =>
    intro bd st t' T st' h ri
    simp only [infer] at h
    cases hb : bd[i]? with
    | none => simp [hb] at h
    | some B =>
      simp only [hb, Except.ok.injEq, Prod.mk.injEq] at h
      obtain ⟨-, -, rfl⟩ := h
      exact ri


-- ---------------------------------------------------------------- `unify` keeps `CInv`

theorem unionStep_cinv {st st' : St} {T1 T2 : Ty}
    (h : (if T1.isInternal then union st T1 T2 else if T2.isInternal then union st T2 T1 else .error .clash) = .ok st')
    (c : CInv st) (r1 : RepOrNon st.uf T1) (r2 : RepOrNon st.uf T2) : CInv st' := by
  by_cases c1 : T1.isInternal = true
  · simp only [c1, if_true] at h
    exact union_cinv c1 h (fun r hr => by rw [hr]; exact r1 r hr) r2 c
  · simp only [c1] at h
    by_cases c2 : T2.isInternal = true
    · simp only [c2, if_true] at h
      exact union_cinv c2 h (fun r hr => by rw [hr]; exact r2 r hr) r1 c
    · simp [c2] at h

theorem unifyArgs_cinv {u : St → Ty → Ty → Except Err St}
    (hu : ∀ st a b st', u st a b = .ok st' → CInv st → CInv st') :
    ∀ (as bs : List Ty) (st st' : St), unifyArgs u st as bs = .ok st' → CInv st → CInv st' := by
  intro as
  induction as with
  | nil => intro bs st st' h c; simp [unifyArgs] at h; subst h; exact c
  | cons a as ih =>
    intro bs st st' h c
    cases bs with
    | nil => simp [unifyArgs] at h; subst h; exact c
    | cons b bs =>
      simp only [unifyArgs, bind, Except.bind] at h
      cases h1 : u st a b with
      | error e => simp [h1] at h
      | ok st1 =>
        simp only [h1] at h
        exact ih bs st1 st' h (hu st a b st1 h1 c)

theorem unify_cinv : ∀ (fuel : Nat) (st : St) (A B : Ty) (st' : St),
    unify fuel st A B = .ok st' → CInv st → CInv st' := by
  intro fuel
  induction fuel with
  | zero => intro st A B st' h; simp [unify] at h
  | succ f ih =>
    intro st A B st' h c
    simp only [unify, bind, Except.bind] at h
    cases hA : lookupRep st A with
    | error e => simp [hA] at h
    | ok T1 =>
      cases hB : lookupRep st B with
      | error e => simp [hA, hB] at h
      | ok T2 =>
        simp only [hA, hB] at h
        obtain ⟨r1, -, -⟩ := lookupRep_spec hA c.inv.flat
        obtain ⟨r2, -, -⟩ := lookupRep_spec hB c.inv.flat
        cases T1 with
        | tvar n1 =>
          cases T2 with
          | tvar n2 =>
            simp only at h
            split at h
            · cases h; exact c
            · cases h
          | stvar n2 => exact unionStep_cinv h c r1 r2
          | con n2 as2 => exact unionStep_cinv h c r1 r2
        | stvar n1 =>
          cases T2 with
          | tvar n2 => exact unionStep_cinv h c r1 r2
          | stvar n2 =>
            simp only at h
            split at h
            · cases h; exact c
            · exact unionStep_cinv h c r1 r2
          | con n2 as2 => exact unionStep_cinv h c r1 r2
        | con n1 as1 =>
          cases T2 with
          | tvar n2 => exact unionStep_cinv h c r1 r2
          | stvar n2 => exact unionStep_cinv h c r1 r2
          | con n2 as2 =>
            simp only at h
            split at h
            · split at h
              · cases h
              · exact unifyArgs_cinv (fun st a b st' => ih st a b st') as1 as2 st st' h c
            · cases h

-- ---------------------------------------------------------------- the states `infer` reaches are good

/-- everything the fuel and completeness theorems ask of a state -/
def Good (st : St) : Prop := CInv st ∧ RB st

theorem good_empty : Good St.empty := by
  refine ⟨⟨inv_empty, rinv_empty, ?_, ?_⟩, ?_⟩
  · intro σ _ k j hj; simp [rset, St.empty] at hj
  · intro k _; simp [rset, St.empty]
  · intro k j hj; simp [rset, St.empty] at hj

theorem newType_good {st : St} (g : Good st) : Good (newType st).2 := by
  obtain ⟨c, rb⟩ := g
  have hrs := rset_newType st c.ri.rlen
  refine ⟨⟨newType_inv c.inv, newType_rinv c.ri, ?_, ?_⟩, ?_⟩
  · intro σ hσ k j hj
    rw [hrs] at hj
    exact c.rsem σ ((newType_ext st).sol σ hσ) k j hj
  · intro k hk
    rw [hrs]
    simp only [newType] at hk
    rw [getElem?_snoc] at hk
    rcases hk with hk | ⟨hk, -⟩
    · exact c.rrep k hk
    · subst hk
      simp [rset, c.ri.rlen]
  · intro k j hj
    rw [hrs] at hj
    have := rb k j hj
    simp only [newType, List.length_append, List.length_cons, List.length_nil]
    omega

theorem unify_good (f : Nat) (st : St) (A B : Ty) (st' : St) (h : unify f st A B = .ok st') (g : Good st) : Good st' :=
  ⟨unify_cinv f st A B st' h g.1, (unify_rb f st A B st' h g.1.ri g.2).2⟩

/-- every state reached by `infer` from the empty state satisfies the invariants -/
theorem infer_good (ctx : Ctx) (fuel : Nat) (t : Skel) (bd : List Ty) (st : St) (t' : Skel) (T : Ty) (st' : St)
    (h : infer ctx fuel t bd st = .ok (t', T, st')) (g : Good st) : Good st' :=
  infer_pres Good (fun _ g => newType_good g)
    (fun _ _ _ g => ⟨⟨⟨g.1.inv.flat, g.1.inv.ufb, g.1.inv.rlen⟩, ⟨g.1.ri.rlen, g.1.ri.edge, g.1.ri.irrefl, g.1.ri.trans⟩,
      g.1.rsem, g.1.rrep⟩, g.2⟩)
    (fun f st A B st' h g => unify_good f st A B st' h g) ctx fuel t bd st t' T st' h g

end Holpy.C08
