import Holpy.Common.Sexp
import Holpy.C08.Model
/-
Line protocol for the C08 model (one s-expression in, one out):
  (infer FORBID FUEL VARS SVARS DEFS SIG SKEL) -> (ok TERM) | (error KIND)
  (check TERM)                            -> (type TY) | none          checked_get_type
TY   = (tv name) | (sv name) | (c name TY ...)        `(sv _t<digits>)` is an internal variable
SKEL = (var n TY|none) | (svar n TY|none) | (const n TY|none) | (comb f a) | (abs x TY|none b) | (bound i)
VARS/SVARS/SIG = ((name TY) ...)
-/
open Holpy Holpy.C08

namespace Holpy.C08.Driver

def tnameOf (s : String) : TName :=
  if s.startsWith "_t" then
    match (s.drop 2).toNat? with
    | some k => .internal k
    | none => .user s
  else .user s

partial def tyOf : Sexp → Option Ty
  | .list [.atom "tv", .atom n] => some (.tvar n)
  | .list [.atom "sv", .atom n] => some (.stvar (tnameOf n))
  | .list (.atom "c" :: .atom n :: args) => do some (.con n (← args.mapM tyOf))
  | _ => none

def optTyOf : Sexp → Option (Option Ty)
  | .atom "none" => some none
  | s => (tyOf s).map some

partial def skelOf : Sexp → Option Skel
  | .list [.atom "var", .atom n, T] => do some (.var n (← optTyOf T))
  | .list [.atom "svar", .atom n, T] => do some (.svar n (← optTyOf T))
  | .list [.atom "const", .atom n, T] => do some (.const n (← optTyOf T))
  | .list [.atom "comb", f, a] => do some (.comb (← skelOf f) (← skelOf a))
  | .list [.atom "abs", .atom x, T, b] => do some (.abs x (← optTyOf T) (← skelOf b))
  | .list [.atom "bound", i] => do some (.bound (← i.toNat?))
  | _ => none

def bindingsOf (s : Sexp) : Option (List (String × Ty)) := do
  (← s.toList?).mapM fun
    | .list [.atom n, T] => do some (n, (← tyOf T))
    | _ => none

partial def tyTo : Ty → Sexp
  | .tvar n => .list [.atom "tv", .atom n]
  | .stvar (.user n) => .list [.atom "sv", .atom n]
  | .stvar (.internal k) => .list [.atom "sv", .atom ("_t" ++ toString k)]
  | .con n args => .list (.atom "c" :: .atom n :: args.map tyTo)

def optTyTo : Option Ty → Sexp
  | none => .atom "none"
  | some T => tyTo T

def skelTo : Skel → Sexp
  | .var n T => .list [.atom "var", .atom n, optTyTo T]
  | .svar n T => .list [.atom "svar", .atom n, optTyTo T]
  | .const n T => .list [.atom "const", .atom n, optTyTo T]
  | .comb f a => .list [.atom "comb", skelTo f, skelTo a]
  | .abs x T b => .list [.atom "abs", .atom x, optTyTo T, skelTo b]
  | .bound i => .list [.atom "bound", Sexp.ofNat i]

def errTo : Err → String
  | .occurs => "occurs"
  | .clash => "clash"
  | .notfun => "notfun"
  | .unspecified => "unspecified"
  | .reserved => "reserved"
  | .noconst => "noconst"
  | .crash => "crash"
  | .fuel => "fuel"

def handle (line : String) : String :=
  match Sexp.parse line with
  | some (.list [.atom "infer", forbid, fuel, vars, svars, defs, sig, skel]) =>
    match forbid.toBool?, fuel.toNat?, bindingsOf vars, bindingsOf svars, bindingsOf defs, bindingsOf sig, skelOf skel with
    | some fb, some f, some v, some sv, some df, some sg, some t =>
      match typeInfer ⟨v, sv, sg, df⟩ f fb t with
      | .ok t' => toString (Sexp.list [.atom "ok", skelTo t'])
      | .error e => toString (Sexp.list [.atom "error", .atom (errTo e)])
    | _, _, _, _, _, _, _ => "bad-op"
  | some (.list [.atom "check", skel]) =>
    match skelOf skel with
    | some t =>
      match checkedGetType t [] with
      | some T => toString (Sexp.list [.atom "type", tyTo T])
      | none => "none"
    | none => "bad-op"
  | _ => "bad-op"

end Holpy.C08.Driver

def main : IO Unit := Holpy.lineLoop Holpy.C08.Driver.handle
