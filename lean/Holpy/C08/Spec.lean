import Holpy.C08.Model
/-
C08 — specification vocabulary for the property theorems (import-free, no proofs).
-/
namespace Holpy.C08

/-- the shape of a skeleton: all types forgotten -/
def Skel.erase : Skel → Skel
  | .svar n _ => .svar n none
  | .var n _ => .var n none
  | .const n _ => .const n none
  | .comb f a => .comb f.erase a.erase
  | .abs x _ b => .abs x none b.erase
  | .bound i => .bound i

/-- no internal variable `?'_tN` in a type -/
def Ty.noInternal (T : Ty) : Prop := T.internals = []

/-- every type is present and free of internal type variables (results) -/
def Skel.FullyTyped : Skel → Prop
  | .svar _ T => ∃ U, T = some U ∧ U.noInternal
  | .var _ T => ∃ U, T = some U ∧ U.noInternal
  | .const _ T => ∃ U, T = some U ∧ U.noInternal
  | .comb f a => f.FullyTyped ∧ a.FullyTyped
  | .abs _ T b => (∃ U, T = some U ∧ U.noInternal) ∧ b.FullyTyped
  | .bound _ => True

/-- `Respects ctx vt svt t t'`: `t'` has the shape of the skeleton `t`; every annotation of `t` is kept;
an unannotated variable `x` gets its declared type if declared and otherwise `vt x` (one type per
name; `svt` for schematic variables); an unannotated constant gets an instance of its signature type
(or of the type `context.ctxt.defs` gives for the constant being defined).
NB: "one type per name" is about the occurrences whose type was missing.  An annotated occurrence
`(x::T)` keeps `T` and is, by the kernel's identity of variables (name + type), a different variable
from an `x` of another type: `(x::nat) = 0 ∧ x` is inferred with `x::nat` and `x::bool`. -/
inductive Respects (ctx : Ctx) (vt svt : String → Ty) : Skel → Skel → Prop where
  | varAnn (n : String) (A : Ty) : Respects ctx vt svt (.var n (some A)) (.var n (some A))
  | varDecl (n : String) (T : Ty) : ctx.vars.lookup n = some T → Respects ctx vt svt (.var n none) (.var n (some T))
  | varFree (n : String) : ctx.vars.lookup n = none → Respects ctx vt svt (.var n none) (.var n (some (vt n)))
  | svarAnn (n : String) (A : Ty) : Respects ctx vt svt (.svar n (some A)) (.svar n (some A))
  | svarDecl (n : String) (T : Ty) : ctx.svars.lookup n = some T → Respects ctx vt svt (.svar n none) (.svar n (some T))
  | svarFree (n : String) : ctx.svars.lookup n = none → Respects ctx vt svt (.svar n none) (.svar n (some (svt n)))
  | constAnn (n : String) (A : Ty) : Respects ctx vt svt (.const n (some A)) (.const n (some A))
  | constSig (n : String) (S : Ty) (m : List (String × Ty)) : ctx.sig.lookup n = some S →
      Respects ctx vt svt (.const n none) (.const n (some (S.inst m)))
  | constDef (n : String) (D : Ty) (m : List (String × Ty)) : ctx.defs.lookup n = some D →
      Respects ctx vt svt (.const n none) (.const n (some (D.instS m)))
  | comb {f f' a a' : Skel} : Respects ctx vt svt f f' → Respects ctx vt svt a a' →
      Respects ctx vt svt (.comb f a) (.comb f' a')
  | absAnn (x : String) (A : Ty) {b b' : Skel} : Respects ctx vt svt b b' →
      Respects ctx vt svt (.abs x (some A) b) (.abs x (some A) b')
  | absNew (x : String) (T : Ty) {b b' : Skel} : Respects ctx vt svt b b' →
      Respects ctx vt svt (.abs x none b) (.abs x (some T) b')
  | bound (i : Nat) : Respects ctx vt svt (.bound i) (.bound i)

end Holpy.C08
