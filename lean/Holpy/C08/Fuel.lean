import Holpy.C08.ReachInfer
import Holpy.C08.Term
/-
C08 helper lemmas, part 10: `unify` does not run out of fuel.
The nesting depth of the recursive calls of `unify` is the length of a descending chain
`X₁ → X₂ → …` of constructor types where `Xᵢ₊₁` is the representative of an argument of `Xᵢ`.
Such steps stay valid when the state is refined by sibling calls (an entry `uf[k]` that is a
constructor type is never overwritten), and in any one state satisfying the reachability invariant
every step strictly lowers the measure `(largest rank of an internal variable, size)`; hence chains
are no longer than `(n+1)·(S+1)+S+1` for `n` internal variables and types of size ≤ `S`.
-/
namespace Holpy.C08

-- ---------------------------------------------------------------- a generic traversal of `unify`

/-- any reflexive, transitive relation between states that holds across `union` holds across `unify` -/
theorem unify_rel (R : St → St → Prop) (hrefl : ∀ s, R s s) (htrans : ∀ a b c, R a b → R b c → R a c)
    (hU : ∀ st T1 T2 st', T1.isInternal = true → union st T1 T2 = .ok st' → R st st') :
    ∀ (fuel : Nat) (st : St) (A B : Ty) (st' : St), unify fuel st A B = .ok st' → R st st' := by
  have hstep : ∀ {st st' : St} {T1 T2 : Ty},
      (if T1.isInternal then union st T1 T2 else if T2.isInternal then union st T2 T1 else .error .clash) = .ok st' →
      R st st' := by
    intro st st' T1 T2 h
    by_cases c1 : T1.isInternal = true
    · simp only [c1, if_true] at h; exact hU _ _ _ _ c1 h
    · simp only [c1] at h
      by_cases c2 : T2.isInternal = true
      · simp only [c2, if_true] at h; exact hU _ _ _ _ c2 h
      · simp [c2] at h
  have hargs : ∀ (u : St → Ty → Ty → Except Err St), (∀ st a b st', u st a b = .ok st' → R st st') →
      ∀ (as bs : List Ty) (st st' : St), unifyArgs u st as bs = .ok st' → R st st' := by
    intro u hu as
    induction as with
    | nil => intro bs st st' h; simp [unifyArgs] at h; subst h; exact hrefl _
    | cons a as ih =>
      intro bs st st' h
      cases bs with
      | nil => simp [unifyArgs] at h; subst h; exact hrefl _
      | cons b bs =>
        simp only [unifyArgs, bind, Except.bind] at h
        cases h1 : u st a b with
        | error e => simp [h1] at h
        | ok st1 =>
          simp only [h1] at h
          exact htrans _ _ _ (hu st a b st1 h1) (ih bs st1 st' h)
  intro fuel
  induction fuel with
  | zero => intro st A B st' h; simp [unify] at h
  | succ f ih =>
    intro st A B st' h
    simp only [unify, bind, Except.bind] at h
    cases hA : lookupRep st A with
    | error e => simp [hA] at h
    | ok T1 =>
      cases hB : lookupRep st B with
      | error e => simp [hA, hB] at h
      | ok T2 =>
        simp only [hA, hB] at h
        cases T1 with
        | tvar n1 =>
          cases T2 with
          | tvar n2 =>
            simp only at h
            split at h
            · cases h; exact hrefl _
            · cases h
          | stvar n2 => exact hstep h
          | con n2 as2 => exact hstep h
        | stvar n1 =>
          cases T2 with
          | tvar n2 => exact hstep h
          | stvar n2 =>
            simp only at h
            split at h
            · cases h; exact hrefl _
            · exact hstep h
          | con n2 as2 => exact hstep h
        | con n1 as1 =>
          cases T2 with
          | tvar n2 => exact hstep h
          | stvar n2 => exact hstep h
          | con n2 as2 =>
            simp only at h
            split at h
            · split at h
              · cases h
              · exact hargs (unify f) (fun st a b st' => ih st a b st') as1 as2 st st' h
            · cases h

-- ---------------------------------------------------------------- sizes

mutual
def Ty.size : Ty → Nat
  | .tvar _ => 1
  | .stvar _ => 1
  | .con _ as => 1 + Ty.sizeL as
def Ty.sizeL : List Ty → Nat
  | [] => 0
  | a :: as => a.size + Ty.sizeL as
end

theorem size_le_sizeL {a : Ty} : ∀ {as : List Ty}, a ∈ as → a.size ≤ Ty.sizeL as := by
  intro as
  induction as with
  | nil => intro h; cases h
  | cons b bs ih =>
    intro h
    simp only [Ty.sizeL]
    rcases List.mem_cons.1 h with rfl | h
    · omega
    · have := ih h; omega

theorem size_arg_lt {n : String} {as : List Ty} {a : Ty} (h : a ∈ as) : a.size < (Ty.con n as).size := by
  have := size_le_sizeL h
  simp only [Ty.size]; omega

/-- every entry of `uf` has size ≤ S -/
def SZ (S : Nat) (st : St) : Prop := ∀ (k : Nat) (U : Ty), st.uf[k]? = some U → U.size ≤ S

-- ---------------------------------------------------------------- reach sets only mention existing variables

/-- the members of the reach sets are numbers of existing internal variables -/
def RB (st : St) : Prop := ∀ k j : Nat, j ∈ rset st k → j < st.uf.length

theorem union_rb {st st' : St} {T1 T2 : Ty} (h : union st T1 T2 = .ok st') (hl : st.reach.length = st.uf.length)
    (rb : RB st) : RB st' := by
  obtain ⟨huf, -, -, hb⟩ := union_uf h
  have hm := mem_rset_union h hl
  intro k j hj
  rw [hm] at hj
  have hlen : st'.uf.length = st.uf.length := by simp [huf]
  rw [hlen]
  rcases hj with hj | ⟨-, hj⟩
  · exact rb k j hj
  · rw [mem_newReach] at hj
    obtain ⟨j0, hj0, hj⟩ := hj
    rcases hj with rfl | hj
    · exact hb j hj0
    · exact rb j0 j hj

theorem unify_rb (fuel : Nat) (st : St) (A B : Ty) (st' : St) (h : unify fuel st A B = .ok st')
    (ri : RInv st) (rb : RB st) : RInv st' ∧ RB st' := by
  have := unify_rel (fun s s' => RInv s ∧ RB s → RInv s' ∧ RB s') (fun _ h => h) (fun _ _ _ h1 h2 h => h2 (h1 h))
    (fun st T1 T2 st' _ hu hh => ⟨union_rinv hu hh.1, union_rb hu hh.1.rlen hh.2⟩) fuel st A B st' h
  exact this ⟨ri, rb⟩

theorem rk_le {st : St} (rb : RB st) (k : Nat) : rk st k ≤ st.uf.length := by
  unfold rk
  have hs : dd (rset st k) ⊆ List.range st.uf.length := by
    intro x hx
    rw [mem_dd] at hx
    simpa using rb k x hx
  simpa using (nodup_dd (rset st k)).length_le_of_subset hs

-- ---------------------------------------------------------------- entries that are constructor types persist

/-- refinement never overwrites an entry of `uf` that is a constructor type -/
def Persist (st st' : St) : Prop :=
  ∀ (k : Nat) (n : String) (as : List Ty), st.uf[k]? = some (.con n as) → st'.uf[k]? = some (.con n as)

theorem union_persist {st st' : St} {T1 T2 : Ty} (hi : T1.isInternal = true) (h : union st T1 T2 = .ok st') :
    Persist st st' := by
  obtain ⟨huf, -, -, -⟩ := union_uf h
  obtain ⟨r, rfl⟩ := (Ty.isInternal_iff T1).1 hi
  intro k n as hk
  rw [huf]
  simp [hk]

theorem unify_persist (fuel : Nat) (st : St) (A B : Ty) (st' : St) (h : unify fuel st A B = .ok st') :
    Persist st st' :=
  unify_rel Persist (fun _ _ _ _ h => h) (fun _ _ _ h1 h2 k n as h => h2 k n as (h1 k n as h))
    (fun _ _ _ _ hi hu => union_persist hi hu) fuel st A B st' h

end Holpy.C08
