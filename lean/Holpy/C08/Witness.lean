import Holpy.C08.InferPres
import Holpy.C08.Spec2
/-
C08 helper lemmas, part 17: witness substitutions for completeness of the traversal.
A completion `u` of a skeleton comes with a substitution σ of the internal variables created so far
(`σ.length = num_internal`) that solves `uf` and sends the recorded variable types to the types `u` uses.
Each fresh variable extends σ by one entry; substitution in a type that only mentions the old variables is
unaffected by the extension.
-/
namespace Holpy.C08

-- ---------------------------------------------------------------- stability of substitution under appending

theorem getD_append_left {σ ρ : List Ty} {j : Nat} {d : Ty} (h : j < σ.length) : (σ ++ ρ).getD j d = σ.getD j d := by
  simp [List.getD, List.getElem?_append_left h]

theorem Ty.substI_append {σ : List Ty} (ρ : List Ty) {T : Ty} (hb : T.Bounded σ.length) :
    T.substI (σ ++ ρ) = T.substI σ :=
  Ty.substI_congr _ _ T (fun j hj => getD_append_left (hb j hj))

theorem Skel.substI_append {σ : List Ty} (ρ : List Ty) : ∀ {t : Skel}, t.BoundedS σ.length →
    t.substI (σ ++ ρ) = t.substI σ := by
  intro t
  induction t with
  | svar n T => intro ⟨U, h1, h2⟩; subst h1; simp [Skel.substI, Ty.substI_append ρ h2]
  | var n T => intro ⟨U, h1, h2⟩; subst h1; simp [Skel.substI, Ty.substI_append ρ h2]
  | const n T => intro ⟨U, h1, h2⟩; subst h1; simp [Skel.substI, Ty.substI_append ρ h2]
  | comb f a ih1 ih2 => intro ⟨h1, h2⟩; simp [Skel.substI, ih1 h1, ih2 h2]
  | abs x T b ih => intro ⟨⟨U, h1, h2⟩, h3⟩; subst h1; simp [Skel.substI, Ty.substI_append ρ h2, ih h3]
  | bound i => intro _; rfl

theorem map_substI_append {σ : List Ty} (ρ : List Ty) {bd : List Ty} (hb : ∀ B ∈ bd, B.Bounded σ.length) :
    bd.map (Ty.substI (σ ++ ρ)) = bd.map (Ty.substI σ) :=
  List.map_congr_left (fun B hB => Ty.substI_append ρ (hb B hB))

-- ---------------------------------------------------------------- the witness invariant

structure WOK (vt svt : String → Ty) (σ : List Ty) (st : St) : Prop where
  len : σ.length = st.uf.length
  sol : Solves σ st.uf
  ic : ∀ n T, st.ictx.lookup n = some T → T.substI σ = vt n
  isc : ∀ n T, st.isctx.lookup n = some T → T.substI σ = svt n

theorem getD_snoc_self {σ : List Ty} {x d : Ty} : (σ ++ [x]).getD σ.length d = x := by
  simp [List.getD]

/-- a fresh variable: extend the witness by the type the completion uses there -/
theorem WOK.snoc {vt svt : String → Ty} {σ : List Ty} {st : St} (w : WOK vt svt σ st) (inv : Inv st) (cb : CB st)
    (x : Ty) : WOK vt svt (σ ++ [x]) (newType st).2 := by
  refine ⟨by simp [newType, w.len], ?_, ?_, ?_⟩
  · intro k U hU
    simp only [newType] at hU
    rw [getElem?_snoc] at hU
    rcases hU with hU | ⟨hk, hU⟩
    · have hk : k < σ.length := by
        rw [w.len]
        rcases Nat.lt_or_ge k st.uf.length with h | h
        · exact h
        · simp [List.getElem?_eq_none h] at hU
      rw [getD_append_left hk, w.sol k U hU, Ty.substI_append [x] (by rw [w.len]; exact inv.ufb k U hU)]
    · subst hU
      subst hk
      simp [St.n]
  · intro n T h
    rw [newType_ictx] at h
    rw [Ty.substI_append [x] (by rw [w.len]; exact cb.ictx n T h)]
    exact w.ic n T h
  · intro n T h
    rw [newType_isctx] at h
    rw [Ty.substI_append [x] (by rw [w.len]; exact cb.isctx n T h)]
    exact w.isc n T h

-- ---------------------------------------------------------------- `dedupStr`

theorem dedup_aux : ∀ (l acc : List String), acc.Nodup →
    (l.foldl (fun acc s => if acc.contains s then acc else acc ++ [s]) acc).Nodup ∧
    ∀ x, x ∈ l.foldl (fun acc s => if acc.contains s then acc else acc ++ [s]) acc ↔ x ∈ acc ∨ x ∈ l := by
  intro l
  induction l with
  | nil => intro acc h; simp [h]
  | cons s l ih =>
    intro acc h
    simp only [List.foldl_cons]
    by_cases hc : acc.contains s = true
    · simp only [hc, if_true]
      obtain ⟨h1, h2⟩ := ih acc h
      refine ⟨h1, fun x => ?_⟩
      rw [h2 x]
      have hs : s ∈ acc := by simpa using hc
      constructor
      · intro hx; rcases hx with hx | hx
        · exact Or.inl hx
        · exact Or.inr (List.mem_cons_of_mem _ hx)
      · intro hx; rcases hx with hx | hx
        · exact Or.inl hx
        · rcases List.mem_cons.1 hx with rfl | hx
          · exact Or.inl hs
          · exact Or.inr hx
    · have hc' : acc.contains s = false := by simpa using hc
      simp only [hc', Bool.false_eq_true, if_false]
      have hs : s ∉ acc := by simpa using hc
      have hn : (acc ++ [s]).Nodup := by
        rw [List.nodup_append]
        refine ⟨h, by simp, ?_⟩
        intro a ha b hb
        simp at hb
        subst hb
        intro e; subst e; exact hs ha
      obtain ⟨h1, h2⟩ := ih (acc ++ [s]) hn
      refine ⟨h1, fun x => ?_⟩
      rw [h2 x]
      simp only [List.mem_append, List.mem_cons, List.not_mem_nil, or_false]
      constructor
      · intro hx; rcases hx with (hx | hx) | hx
        · exact Or.inl hx
        · exact Or.inr (Or.inl hx)
        · exact Or.inr (Or.inr hx)
      · intro hx; rcases hx with hx | hx | hx
        · exact Or.inl (Or.inl hx)
        · exact Or.inl (Or.inr hx)
        · exact Or.inr hx

theorem dedupStr_nodup (l : List String) : (dedupStr l).Nodup := (dedup_aux l [] List.nodup_nil).1

theorem mem_dedupStr {l : List String} {x : String} : x ∈ dedupStr l ↔ x ∈ l := by
  have := (dedup_aux l [] List.nodup_nil).2 x
  simpa [dedupStr] using this

-- ---------------------------------------------------------------- fresh variables for a signature type

theorem allocFor_wok (vt svt : String → Ty) (g : String → Ty) : ∀ (vs : List String) (st : St) (σ : List Ty),
    WOK vt svt σ st → Inv st → CB st → vs.Nodup →
    WOK vt svt (σ ++ vs.map g) (allocFor vs st).2 ∧
    ∀ v ∈ vs, ∃ T, (allocFor vs st).1.lookup v = some T ∧ T.substI (σ ++ vs.map g) = g v := by
  intro vs
  induction vs with
  | nil => intro st σ w _ _ _; simp [allocFor]; exact w
  | cons v vs ih =>
    intro st σ w inv cb hnd
    rw [List.nodup_cons] at hnd
    have w1 := w.snoc inv cb (g v)
    obtain ⟨w2, hl⟩ := ih (newType st).2 (σ ++ [g v]) w1 (newType_inv inv) (newType_cb cb) hnd.2
    have happ : σ ++ (v :: vs).map g = (σ ++ [g v]) ++ vs.map g := by simp
    simp only [allocFor]
    rw [happ]
    refine ⟨w2, ?_⟩
    intro x hx
    rcases List.mem_cons.1 hx with rfl | hx'
    · refine ⟨(newType st).1, by simp, ?_⟩
      rw [newType_fst]
      simp only [Ty.substI_int, St.n]
      rw [← w.len, getD_append_left (by simp), getD_snoc_self]
    · obtain ⟨T, h1, h2⟩ := hl x hx'
      refine ⟨T, ?_, h2⟩
      have hne : (x == v) = false := by
        simp only [beq_eq_false_iff_ne]
        intro e; subst e; exact hnd.1 hx'
      simp [List.lookup_cons, hne, h1]

/-- the instance at the fresh variables, under the extended witness, is the instance the completion uses -/
theorem inst_fresh_substI {mf m : List (String × Ty)} {σ : List Ty} : ∀ S : Ty,
    (∀ v ∈ S.tvars, ∃ T, mf.lookup v = some T ∧ T.substI σ = (Ty.tvar v).inst m) → S.hasStvar = false →
    (S.inst mf).substI σ = S.inst m := by
  intro S
  induction S using Ty.induction with
  | htv v =>
    intro h _
    obtain ⟨T, h1, h2⟩ := h v (by simp [Ty.tvars])
    simp only [Ty.inst, h1, Option.getD_some] at h2 ⊢
    exact h2
  | hsv s => intro _ h; simp [Ty.hasStvar] at h
  | hcon c as ih =>
    intro h hs
    simp only [Ty.hasStvar, Ty.hasStvarL_eq, List.any_eq_false] at hs
    simp only [Ty.inst, Ty.instL_eq_map, Ty.substI_con, List.map_map, Ty.con.injEq, true_and]
    apply List.map_congr_left
    intro a ha
    apply ih a ha
    · intro v hv
      apply h v
      simp only [Ty.tvars, Ty.tvarsL_eq, List.mem_flatMap]
      exact ⟨a, ha, hv⟩
    · simpa using hs a ha

@[simp] theorem Ty.ustvarsL_eq (as : List Ty) : Ty.ustvarsL as = as.flatMap Ty.ustvars := by
  induction as with
  | nil => rfl
  | cons a as ih => simp [Ty.ustvarsL, ih]

theorem instS_fresh_substI {mf m : List (String × Ty)} {σ : List Ty} : ∀ D : Ty,
    (∀ v ∈ D.ustvars, ∃ T, mf.lookup v = some T ∧ T.substI σ = (Ty.stvar (.user v)).instS m) → D.NoInt →
    (D.instS mf).substI σ = D.instS m := by
  intro D
  induction D using Ty.induction with
  | htv v => intro _ _; simp [Ty.instS]
  | hsv s =>
    cases s with
    | internal k => intro _ h; simp [Ty.NoInt] at h
    | user v =>
      intro h _
      obtain ⟨T, h1, h2⟩ := h v (by simp [Ty.ustvars])
      simp only [Ty.instS, h1, Option.getD_some] at h2 ⊢
      exact h2
  | hcon c as ih =>
    intro h hn
    simp only [Ty.NoInt, Ty.internals_con, List.flatMap_eq_nil_iff] at hn
    simp only [Ty.instS, Ty.instSL_eq_map, Ty.substI_con, List.map_map, Ty.con.injEq, true_and]
    apply List.map_congr_left
    intro a ha
    apply ih a ha
    · intro v hv
      apply h v
      simp only [Ty.ustvars, Ty.ustvarsL_eq, List.mem_flatMap]
      exact ⟨a, ha, hv⟩
    · exact hn a ha

end Holpy.C08
