import Holpy.C18.ProofsRes
import Holpy.C18.ProofsHyps
import Holpy.C18.ProofsEq
import Holpy.C18.ProofsSimp
import Holpy.C18.ProofsSimpB
import Holpy.C18.ProofsSimp2
import Holpy.C18.ProofsCong
import Holpy.C18.ProofsPred
import Holpy.C18.ProofsHelper
namespace Holpy.C18
open Tm

theorem evalRule_sound' (I : Interp) (hI : I.LeOrder) (r : Rule) (cl : List Tm) (sizes : List Nat) (ps : List Seq) (s : Seq)
    (h : evalRule r cl sizes ps = .ok s) (hk : wellKinded r cl ps = true)
    (hp : ∀ p ∈ ps, p.holds I) : s.holds I := by
  cases r <;> simp only [evalRule] at h
  case thResolution => exact thResolution_sound I _ _ _ _ h hp
  case eqReflexive => exact eqReflexive_sound I _ _ h
  case iteSimplify => exact iteSimplify_sound I _ _ h (by simp only [wellKinded] at hk ⊢; exact hk)
  case connectiveDef => exact connectiveDef_sound I _ _ h (by simp only [wellKinded] at hk ⊢; exact hk)
  case subproof => exact subproof_sound I _ _ _ h hp
  case congRule => exact congRule_sound I _ _ _ h hk hp
  case eqCongruentPred => exact eqCongruentPred_sound I _ _ h (by simp only [wellKinded] at hk ⊢; exact hk)
  case notSimplify => exact notSimplify_sound I _ _ h (by simpa [wellKinded] using hk)
  case andSimplify => exact andSimplify_sound I _ _ h (by simpa [wellKinded] using hk)
  case orSimplify => exact orSimplify_sound I _ _ h (by simpa [wellKinded] using hk)
  case impliesSimplify => exact impliesSimplify_sound I _ _ h (by simpa [wellKinded] using hk)
  case equivSimplify => exact equivSimplify_sound I _ _ h (by simp only [wellKinded] at hk ⊢; exact hk)
  case boolSimplify => exact boolSimplify_sound I _ _ h (by simpa [wellKinded] using hk)
  case eqTransitive => exact eqTransitive_sound I _ _ h (by simp only [wellKinded] at hk ⊢; exact hk)
  case transRule => exact transRule_sound I _ _ _ h hk hp
  case eqCongruent => exact eqCongruent_sound I _ _ h (by simp only [wellKinded] at hk ⊢; exact hk)
  case laDisequality => exact laDisequality_sound I hI _ _ h (by
    cases cl with
    | nil => simp [laDisequality] at h
    | cons g rest => cases rest with
      | nil => simpa [wellKinded] using hk
      | cons _ _ => simp [laDisequality] at h)
  case laRwEq => exact laRwEq_sound I hI _ _ h (by
    cases cl with
    | nil => simp [laRwEq] at h
    | cons g rest => cases rest with
      | nil => simpa [wellKinded] using hk
      | cons _ _ => simp [laRwEq] at h)
  case notOr => exact notOr_sound I _ _ _ h hp
  case notAnd => exact notAnd_sound I _ _ _ h hp
  case andRule => exact andRule_sound I _ _ _ h hp
  case orRule => exact orRule_sound I _ _ _ h hp
  case impliesRule => exact impliesRule_sound I _ _ _ h hp
  case notImplies1 => exact notImplies1_sound I _ _ _ h hp
  case notImplies2 => exact notImplies2_sound I _ _ _ h hp
  case equiv1 => exact equiv1_sound I _ _ _ h hp
  case equiv2 => exact equiv2_sound I _ _ _ h hp
  case notEquiv1 => exact notEquiv1_sound I _ _ _ h hp
  case notEquiv2 => exact notEquiv2_sound I _ _ _ h hk hp
  case ite1 => exact ite1_sound I _ _ _ h hp
  case ite2 => exact ite2_sound I _ _ _ h hp
  case notIte1 => exact notIte1_sound I _ _ _ h hp
  case notIte2 => exact notIte2_sound I _ _ _ h hp
  case contraction => exact contraction_sound I _ _ _ h hp
  case notNot => exact notNot_sound I _ _ h
  case andPos => exact andPos_sound I _ _ h
  case andNeg => exact andNeg_sound I _ _ h
  case orPos => exact orPos_sound I _ _ h
  case orNeg => exact orNeg_sound I _ _ h
  case impliesPos => exact impliesPos_sound I _ _ h
  case impliesNeg1 => exact impliesNeg1_sound I _ _ h
  case impliesNeg2 => exact impliesNeg2_sound I _ _ h
  case equivPos1 => exact equivPos1_sound I _ _ h
  case equivPos2 => exact equivPos2_sound I _ _ h
  case equivNeg1 => exact equivNeg1_sound I _ _ h (by cases cl <;> simp [wellKinded] at hk ⊢ <;> exact hk)
  case equivNeg2 => exact equivNeg2_sound I _ _ h
  case xorPos1 => exact xorPos1_sound I _ _ h
  case xorPos2 => exact xorPos2_sound I _ _ h
  case xorNeg1 => exact xorNeg1_sound I _ _ h
  case xorNeg2 => exact xorNeg2_sound I _ _ h
  case itePos1 => exact itePos1_sound I _ _ h
  case itePos2 => exact itePos2_sound I _ _ h
  case iteNeg1 => exact iteNeg1_sound I _ _ h
  case iteNeg2 => exact iteNeg2_sound I _ _ h
  case falseRule => exact falseRule_sound I _ _ h
  case swapDisj => exact swapDisj_sound I _ _ _ _ h hp
  case combineDisj => exact combineDisj_sound I _ _ _ _ h hp
  case impToOr => exact impToOr_sound I _ _ _ h hp
  case conjPts => exact conjPts_sound I _ _ h hp
  case disjPts => exact disjPts_sound I _ _ h hp

theorem evalRule_hyps' (r : Rule) (cl : List Tm) (sizes : List Nat) (ps : List Seq) (s : Seq)
    (h : evalRule r cl sizes ps = .ok s) : ∀ x ∈ s.hyps, ∃ p ∈ ps, x ∈ p.hyps := by
  cases r <;> simp only [evalRule] at h
  case thResolution => exact thResolution_hyps _ _ _ _ h
  case notOr => exact notOr_hyps _ _ _ h
  case notAnd => exact notAnd_hyps _ _ _ h
  case andRule => exact andRule_hyps _ _ _ h
  case orRule => exact orRule_hyps _ _ _ h
  case impliesRule => exact impliesRule_hyps _ _ _ h
  case notImplies1 => exact notImplies1_hyps _ _ _ h
  case notImplies2 => exact notImplies2_hyps _ _ _ h
  case equiv1 => exact equiv1_hyps _ _ _ h
  case equiv2 => exact equiv2_hyps _ _ _ h
  case notEquiv1 => exact notEquiv1_hyps _ _ _ h
  case notEquiv2 => exact notEquiv2_hyps _ _ _ h
  case ite1 => exact ite1_hyps _ _ _ h
  case ite2 => exact ite2_hyps _ _ _ h
  case notIte1 => exact notIte1_hyps _ _ _ h
  case notIte2 => exact notIte2_hyps _ _ _ h
  case contraction => exact contraction_hyps _ _ _ h
  case transRule => exact transRule_hyps _ _ _ h
  case subproof => exact subproof_hyps _ _ _ h
  case congRule => exact congRule_hyps _ _ _ h
  case swapDisj => exact swapDisj_hyps _ _ _ _ h
  case combineDisj => exact combineDisj_hyps _ _ _ _ h
  case impToOr => exact impToOr_hyps _ _ _ h
  case conjPts => exact ptsRule_hyps _ _ _ h
  case disjPts => exact ptsRule_hyps _ _ _ h
  all_goals (intro x hx; exfalso)
  case eqReflexive => simp [eqReflexive_hyps _ _ h] at hx
  case eqCongruentPred => simp [eqCongruentPred_hyps _ _ h] at hx
  case iteSimplify => simp [iteSimplify_hyps _ _ h] at hx
  case connectiveDef => simp [connectiveDef_hyps _ _ h] at hx
  case notSimplify => simp [notSimplify_hyps _ _ h] at hx
  case andSimplify => simp [andSimplify_hyps _ _ h] at hx
  case orSimplify => simp [orSimplify_hyps _ _ h] at hx
  case impliesSimplify => simp [impliesSimplify_hyps _ _ h] at hx
  case equivSimplify => simp [equivSimplify_hyps _ _ h] at hx
  case boolSimplify => simp [boolSimplify_hyps _ _ h] at hx
  case eqTransitive => simp [eqTransitive_hyps _ _ h] at hx
  case eqCongruent => simp [eqCongruent_hyps _ _ h] at hx
  case laDisequality => simp [laDisequality_hyps _ _ h] at hx
  case laRwEq => simp [laRwEq_hyps _ _ h] at hx
  case notNot => simp [notNot_hyps _ _ h] at hx
  case andPos => simp [andPos_hyps _ _ h] at hx
  case andNeg => simp [andNeg_hyps _ _ h] at hx
  case orPos => simp [orPos_hyps _ _ h] at hx
  case orNeg => simp [orNeg_hyps _ _ h] at hx
  case impliesPos => simp [impliesPos_hyps _ _ h] at hx
  case impliesNeg1 => simp [impliesNeg1_hyps _ _ h] at hx
  case impliesNeg2 => simp [impliesNeg2_hyps _ _ h] at hx
  case equivPos1 => simp [equivPos1_hyps _ _ h] at hx
  case equivPos2 => simp [equivPos2_hyps _ _ h] at hx
  case equivNeg1 => simp [equivNeg1_hyps _ _ h] at hx
  case equivNeg2 => simp [equivNeg2_hyps _ _ h] at hx
  case xorPos1 => simp [xorPos1_hyps _ _ h] at hx
  case xorPos2 => simp [xorPos2_hyps _ _ h] at hx
  case xorNeg1 => simp [xorNeg1_hyps _ _ h] at hx
  case xorNeg2 => simp [xorNeg2_hyps _ _ h] at hx
  case itePos1 => simp [itePos1_hyps _ _ h] at hx
  case itePos2 => simp [itePos2_hyps _ _ h] at hx
  case iteNeg1 => simp [iteNeg1_hyps _ _ h] at hx
  case iteNeg2 => simp [iteNeg2_hyps _ _ h] at hx
  case falseRule => simp [falseRule_hyps _ _ h] at hx

theorem lookupAll_mem (acc : List Seq) (is : List Nat) (ps : List Seq) (h : lookupAll acc is = some ps) :
    ∀ p ∈ ps, p ∈ acc := by
  induction is generalizing ps with
  | nil => simp [lookupAll] at h; subst h; simp
  | cons i is ih =>
    simp only [lookupAll] at h
    split at h
    · rename_i p r hp hr
      cases h
      intro q hq
      rcases List.mem_cons.1 hq with rfl | hq
      · exact List.mem_of_getElem? hp
      · exact ih r hr q hq
    · contradiction

/-- invariant of `runProof`: every derived sequent holds and its hypotheses are assumed formulas -/
theorem runProof_inv (I : Interp) (hI : I.LeOrder) (A : List Tm) (cmds : List Cmd) (acc res : List Seq)
    (h : runProof cmds acc = .ok res)
    (hacc : ∀ s ∈ acc, s.holds I ∧ ∀ x ∈ s.hyps, x ∈ A)
    (hA : ∀ t ∈ assumptions cmds, t ∈ A) :
    ∀ s ∈ res, s.holds I ∧ ∀ x ∈ s.hyps, x ∈ A := by
  induction cmds generalizing acc with
  | nil => simp only [runProof] at h; cases h; exact hacc
  | cons c rest ih =>
    cases c with
    | assume t =>
      simp only [runProof] at h
      apply ih _ h
      · intro s hs
        rcases List.mem_append.1 hs with hs | hs
        · exact hacc s hs
        · simp only [List.mem_singleton] at hs
          subst hs
          exact ⟨fun hh => hh t (by simp), fun x hx => by
            simp only [List.mem_singleton] at hx; subst hx; exact hA _ (by simp [assumptions])⟩
      · exact fun t' ht' => hA t' (by simp [assumptions, ht'])
    | step r cl sizes prems =>
      simp only [runProof] at h
      split at h
      · contradiction
      · rename_i ps hps
        split at h
        · contradiction
        · rename_i hk
          split at h
          · contradiction
          · rename_i s hs
            have hmem := lookupAll_mem _ _ _ hps
            apply ih _ h
            · intro s' hs'
              rcases List.mem_append.1 hs' with hs' | hs'
              · exact hacc s' hs'
              · simp only [List.mem_singleton] at hs'
                subst hs'
                refine ⟨evalRule_sound' I hI r cl sizes ps _ hs (by simpa using hk) (fun p hp => (hacc p (hmem p hp)).1), ?_⟩
                intro x hx
                obtain ⟨p, hp, hxp⟩ := evalRule_hyps' r cl sizes ps _ hs x hx
                exact (hacc p (hmem p hp)).2 x hxp
            · exact fun t' ht' => hA t' (by simpa [assumptions] using ht')

/-- the run with the `wellKinded` test accepts only what the plain run accepts, with the same result -/
theorem runProof_raw (cmds : List Cmd) (acc res : List Seq) (h : runProof cmds acc = .ok res) :
    runProofRaw cmds acc = .ok res := by
  induction cmds generalizing acc with
  | nil => simpa [runProof, runProofRaw] using h
  | cons c rest ih =>
    cases c with
    | assume t => simp only [runProof] at h; simp only [runProofRaw]; exact ih _ h
    | step r cl sizes prems =>
      simp only [runProof] at h
      simp only [runProofRaw]
      split at h
      · contradiction
      · rename_i ps hps
        split at h
        · contradiction
        · split at h
          · contradiction
          · rename_i s hs
            first
              | exact ih _ h
              | (rw [hs]; exact ih _ h)
              | (simp only [hs]; exact ih _ h)

end Holpy.C18
