import Holpy.C18.ProofsHyps
namespace Holpy.C18
open Tm

theorem destEq_spec {t : Tm} {k : Nat} {a b : Tm} (h : destEq t = some (k, a, b)) :
    (k = 6 ∧ t = mkIff a b) ∨ (k = 7 ∧ t = mkEq a b) := by
  unfold destEq at h
  split at h <;> simp at h
  · obtain ⟨rfl, rfl, rfl⟩ := h; exact Or.inl ⟨rfl, rfl⟩
  · obtain ⟨rfl, rfl, rfl⟩ := h; exact Or.inr ⟨rfl, rfl⟩

/-- if no negated-equality literal is true, all the (first-order) equalities hold -/
theorem destNegEqs_hold (I : Interp) (xs : List Tm) (es : List (Nat × Tm × Tm)) (h : destNegEqs xs = some es)
    (hk : ∀ e ∈ es, e.1 = 7) (hx : ∀ x ∈ xs, ¬ tr I x) : ∀ e ∈ es, ev I e.2.1 = ev I e.2.2 := by
  induction xs generalizing es with
  | nil => simp [destNegEqs] at h; subst h; simp
  | cons x xs ih =>
    unfold destNegEqs at h
    split at h <;> try contradiction
    rename_i e rest heq
    simp only [List.cons.injEq] at heq
    obtain ⟨rfl, rfl⟩ := heq
    split at h <;> try contradiction
    rename_i d ds hd hds
    simp only [Option.some.injEq] at h; subst h
    intro e' he'
    rcases List.mem_cons.1 he' with rfl | he'
    · obtain ⟨k, a, b⟩ := e'
      have hk7 : k = 7 := hk (k, a, b) (by simp)
      rcases destEq_spec hd with ⟨h6, _⟩ | ⟨_, rfl⟩
      · omega
      · have := hx _ (List.mem_cons_self)
        simpa using this
    · exact ih ds hds (fun e he => hk e (by simp [he])) (fun y hy => hx y (by simp [hy])) e' he'

theorem eqTransLoop_sound (I : Interp) (cur : Tm × Tm) (prems : List (Nat × Tm × Tm)) (res : Tm × Tm)
    (h : eqTransLoop cur prems = some res) (hc : ev I cur.1 = ev I cur.2)
    (hp : ∀ e ∈ prems, ev I e.2.1 = ev I e.2.2) : ev I res.1 = ev I res.2 := by
  induction prems generalizing cur with
  | nil => simp [eqTransLoop] at h; subst h; exact hc
  | cons e rest ih =>
    obtain ⟨k, l, r⟩ := e
    have he := hp (k, l, r) (by simp)
    simp only at he
    unfold eqTransLoop at h
    split at h
    · rename_i hcl
      have : cur.2 = l := by simpa using hcl
      exact ih _ h (by simp only; rw [hc, this, he]) (fun e he' => hp e (by simp [he']))
    · split at h
      · rename_i hcr
        have : cur.2 = r := by simpa using hcr
        exact ih _ h (by simp only; rw [hc, this, he]) (fun e he' => hp e (by simp [he']))
      · contradiction

theorem eqTransitive_sound (I : Interp) (cl s) (h : eqTransitive cl = .ok s)
    (hk : wellKinded .eqTransitive cl [] = true) : s.holds I := by
  unfold eqTransitive at h
  split at h
  · contradiction
  split at h <;> try contradiction
  rename_i k0 l0 r0 prems goal hes hlast
  split at h
  · contradiction
  rename_i kg gl gr hg
  dsimp only at h
  split at h
  · contradiction
  split at h
  · contradiction
  rename_i cur hloop
  split at h <;> try contradiction
  rename_i hacc
  cases h
  intro _
  rw [tr_mkOrs]
  by_cases hex : ∃ x ∈ cl.dropLast, tr I x
  · obtain ⟨x, hx, hxt⟩ := hex
    exact ⟨x, List.dropLast_subset _ hx, hxt⟩
  · have hno : ∀ x ∈ cl.dropLast, ¬ tr I x := fun x hx ht => hex ⟨x, hx, ht⟩
    have hk' : ∀ e ∈ (k0, l0, r0) :: prems, e.1 = 7 := by
      simp only [wellKinded, hes] at hk
      intro e he
      have := (List.all_eq_true.1 hk) e he
      simpa using this
    have hall := destNegEqs_hold I _ _ hes hk' hno
    have h0 : ev I l0 = ev I r0 := hall (k0, l0, r0) (by simp)
    have hcur : ev I cur.1 = ev I cur.2 := by
      refine eqTransLoop_sound I _ prems cur hloop ?_ (fun e he => hall e (by simp [he]))
      split <;> simp [h0]
    refine ⟨goal, List.mem_of_getLast? hlast, ?_⟩
    have hk07 : k0 = 7 := hk' (k0, l0, r0) (by simp)
    simp only [Bool.or_eq_true, Bool.and_eq_true, beq_iff_eq] at hacc
    rcases destEq_spec hg with ⟨_, rfl⟩ | ⟨_, rfl⟩
    · rcases hacc with ⟨⟨hkk, h1⟩, h2⟩ | ⟨h1, h2⟩
      · omega
      · rw [tr_iff, tr_def, tr_def, ← h1, ← h2, hcur]
    · rcases hacc with ⟨⟨_, h1⟩, h2⟩ | ⟨h1, h2⟩
      · rw [tr_eq, ← h1, ← h2, hcur]
      · rw [tr_eq, ← h1, ← h2, hcur]

theorem eqTransitive_hyps (cl s) (h : eqTransitive cl = .ok s) : s.hyps = [] := by
  unfold eqTransitive at h
  dsimp only at h
  rule_hyps h

theorem transLoop_sound (I : Interp) (cur : Tm × Tm) (prems : List (Nat × Tm × Tm))
    (hu : transUsesEq cur prems = true)
    (hc : ev I cur.1 = ev I cur.2) (hp : ∀ e ∈ prems, e.1 = 7 → ev I e.2.1 = ev I e.2.2) :
    ev I (transLoop cur (prems.map (·.2))).1 = ev I (transLoop cur (prems.map (·.2))).2 := by
  induction prems generalizing cur with
  | nil => simpa [transLoop] using hc
  | cons e rest ih =>
    obtain ⟨k, l, r⟩ := e
    have hrest : ∀ e ∈ rest, e.1 = 7 → ev I e.2.1 = ev I e.2.2 := fun e he' => hp e (by simp [he'])
    simp only [List.map_cons]
    unfold transLoop
    unfold transUsesEq at hu
    split
    · rename_i hh; have hcl : cur.2 = l := by simpa using hh
      simp only [hh, Bool.false_eq_true, ↓reduceIte, Bool.and_eq_true, beq_iff_eq] at hu
      have he := hp (k, l, r) (by simp) hu.1
      exact ih _ hu.2 (by simp only at he ⊢; rw [hc, hcl, he]) hrest
    · rename_i h1
      simp only [h1, Bool.false_eq_true, ↓reduceIte] at hu
      split
      · rename_i hh; have hcl : cur.2 = r := by simpa using hh
        simp only [hh, Bool.false_eq_true, ↓reduceIte, Bool.and_eq_true, beq_iff_eq] at hu
        have he := hp (k, l, r) (by simp) hu.1
        exact ih _ hu.2 (by simp only at he ⊢; rw [hc, hcl, he]) hrest
      · rename_i h2
        simp only [h2, Bool.false_eq_true, ↓reduceIte] at hu
        split
        · rename_i hh; have hcl : cur.1 = l := by simpa using hh
          simp only [hh, Bool.false_eq_true, ↓reduceIte, Bool.and_eq_true, beq_iff_eq] at hu
          have he := hp (k, l, r) (by simp) hu.1
          exact ih _ hu.2 (by simp only at he ⊢; rw [← hc, hcl, he]) hrest
        · rename_i h3
          simp only [h3, Bool.false_eq_true, ↓reduceIte] at hu
          split
          · rename_i hh; have hcl : cur.1 = r := by simpa using hh
            simp only [hh, Bool.false_eq_true, ↓reduceIte, Bool.and_eq_true, beq_iff_eq] at hu
            have he := hp (k, l, r) (by simp) hu.1
            exact ih _ hu.2 (by simp only at he ⊢; rw [he, ← hcl, hc]) hrest
          · rename_i h4
            simp only [h4, Bool.false_eq_true, ↓reduceIte] at hu
            exact ih _ hu hc hrest

theorem destEqs_hold (I : Interp) (xs : List Tm) (es : List (Nat × Tm × Tm)) (h : destEqs xs = some es)
    (hx : ∀ x ∈ xs, tr I x) : ∀ e ∈ es, e.1 = 7 → ev I e.2.1 = ev I e.2.2 := by
  induction xs generalizing es with
  | nil => simp [destEqs] at h; subst h; simp
  | cons x xs ih =>
    unfold destEqs at h
    split at h <;> try contradiction
    rename_i d ds hd hds
    simp only [Option.some.injEq] at h; subst h
    intro e' he' hk7
    rcases List.mem_cons.1 he' with rfl | he'
    · obtain ⟨k, a, b⟩ := e'
      simp only at hk7
      rcases destEq_spec hd with ⟨h6, _⟩ | ⟨_, rfl⟩
      · omega
      · simpa using hx _ (List.mem_cons_self)
    · exact ih ds hds (fun y hy => hx y (by simp [hy])) e' he' hk7

theorem transRule_sound (I : Interp) (cl ps s) (h : transRule cl ps = .ok s)
    (hk : wellKinded .transRule cl ps = true) (hp : ∀ p ∈ ps, p.holds I) : s.holds I := by
  unfold transRule at h
  split at h <;> try contradiction
  rename_i arg
  split at h
  · contradiction
  rename_i ka al ar harg
  split at h
  · contradiction
  split at h <;> try contradiction
  rename_i k0 l0 r0 rest hes
  dsimp only at h
  split at h <;> try contradiction
  rename_i hacc
  cases h
  intro hh
  have hprops : ∀ x ∈ ps.map (·.prop), tr I x := by
    intro x hx
    obtain ⟨p, hpm, rfl⟩ := List.mem_map.1 hx
    exact hp p hpm (fun y hy => hh y (List.mem_flatMap.2 ⟨p, hpm, hy⟩))
  simp only [wellKinded, hes, Bool.and_eq_true, beq_iff_eq] at hk
  obtain ⟨hk07, huse⟩ := hk
  have hall := destEqs_hold I _ _ hes hprops
  have hcur := transLoop_sound I (l0, r0) rest huse (hall (k0, l0, r0) (by simp) hk07)
    (fun e he => hall e (by simp [he]))
  simp only [Bool.or_eq_true, Bool.and_eq_true, beq_iff_eq] at hacc
  obtain ⟨hka, hsides⟩ := hacc
  rcases destEq_spec harg with ⟨h6, _⟩ | ⟨_, rfl⟩
  · omega
  · rcases hsides with ⟨h1, h2⟩ | ⟨h1, h2⟩
    · rw [tr_eq, ← h1, ← h2, hcur]
    · rw [tr_eq, ← h1, ← h2, hcur]

theorem transRule_hyps (cl ps s) (h : transRule cl ps = .ok s) : ∀ x ∈ s.hyps, ∃ p ∈ ps, x ∈ p.hyps := by
  unfold transRule at h
  dsimp only at h
  repeat' (split at h <;> try contradiction)
  all_goals (cases h)
  all_goals (intro x hx; exact List.mem_flatMap.1 hx)

theorem argsAux_eq (t : Tm) (acc : List Tm) : argsAux t acc = args t ++ acc := by
  induction t generalizing acc with
  | var n => simp [args, argsAux]
  | const c => simp [args, argsAux]
  | comb f a ihf _ =>
    simp only [args, argsAux]
    rw [ihf [a], ihf (a :: acc)]; simp

/-- the value of a term is the meaning of its head applied to the values of its arguments -/
theorem evAcc_head_args (I : Interp) (t : Tm) (acc : List Nat) :
    evAcc I t acc = evApp I (head t) ((args t).map (ev I) ++ acc) := by
  induction t generalizing acc with
  | var n => simp [evAcc, head, args, argsAux]
  | const c => simp [evAcc, head, args, argsAux]
  | comb f a ihf _ =>
    simp only [evAcc, head]
    rw [ihf]
    have : args (Tm.comb f a) = args f ++ [a] := by
      simp only [args, argsAux]; rw [argsAux_eq]; rfl
    rw [this]; simp [ev]

theorem ev_congr (I : Interp) (s t : Tm) (hh : head s = head t)
    (ha : (args s).map (ev I) = (args t).map (ev I)) : ev I s = ev I t := by
  unfold ev
  rw [evAcc_head_args, evAcc_head_args, hh, ha]

theorem pairsMatch_sound (I : Interp) (es : List (Nat × Tm × Tm)) (xs ys : List Tm)
    (hm : pairsMatch es (List.zip xs ys) = true) (hl : es.length = (List.zip xs ys).length)
    (hxy : xs.length = ys.length) (he : ∀ e ∈ es, ev I e.2.1 = ev I e.2.2) :
    xs.map (ev I) = ys.map (ev I) := by
  induction xs generalizing es ys with
  | nil => cases ys with
    | nil => rfl
    | cons y ys => simp at hxy
  | cons x xs ih =>
    cases ys with
    | nil => simp at hxy
    | cons y ys =>
      cases es with
      | nil => simp at hl
      | cons e es =>
        obtain ⟨k, i, j⟩ := e
        simp only [List.zip_cons_cons, pairsMatch, Bool.and_eq_true, Bool.or_eq_true, beq_iff_eq] at hm
        obtain ⟨h1, h2⟩ := hm
        have hij := he (k, i, j) (by simp)
        simp only at hij
        have hxy' : ev I x = ev I y := by
          rcases h1 with ⟨rfl, rfl⟩ | ⟨rfl, rfl⟩
          · exact hij
          · exact hij.symm
        simp only [List.map_cons, hxy', List.cons.injEq, true_and]
        exact ih es ys h2 (by simpa using hl) (by simpa using hxy) (fun e he' => he e (by simp [he']))

theorem eqCongruent_sound (I : Interp) (cl s) (h : eqCongruent cl = .ok s)
    (hk : wellKinded .eqCongruent cl [] = true) : s.holds I := by
  unfold eqCongruent at h
  split at h
  · contradiction
  split at h <;> try contradiction
  rename_i es goal hes hlast
  split at h
  · contradiction
  rename_i kg gl gr hg
  split at h
  · contradiction
  rename_i hshape
  dsimp only at h
  split at h
  · contradiction
  rename_i hlen
  split at h <;> try contradiction
  rename_i hpm
  cases h
  intro _
  rw [tr_mkOrs]
  by_cases hex : ∃ x ∈ cl.dropLast, tr I x
  · obtain ⟨x, hx, hxt⟩ := hex
    exact ⟨x, List.dropLast_subset _ hx, hxt⟩
  · have hno : ∀ x ∈ cl.dropLast, ¬ tr I x := fun x hx ht => hex ⟨x, hx, ht⟩
    simp only [wellKinded, hes, hlast, hg, Bool.and_eq_true, beq_iff_eq] at hk
    obtain ⟨hk1, hk2⟩ := hk
    have hk' : ∀ e ∈ es, e.1 = 7 := fun e he => by simpa using (List.all_eq_true.1 hk1) e he
    have hall := destNegEqs_hold I _ _ hes hk' hno
    have hargs := pairsMatch_sound I es (args gl) (args gr) hpm (by simpa using hlen) hk2 hall
    have hhead : head gl = head gr := by
      simp only [Bool.not_eq_true', Bool.and_eq_false_iff, not_or, Bool.not_eq_false] at hshape
      simpa using hshape.2
    have hev := ev_congr I gl gr hhead hargs
    refine ⟨goal, List.mem_of_getLast? hlast, ?_⟩
    rcases destEq_spec hg with ⟨_, rfl⟩ | ⟨_, rfl⟩
    · rw [tr_iff, tr_def, tr_def, hev]
    · rw [tr_eq, hev]

theorem eqCongruent_hyps (cl s) (h : eqCongruent cl = .ok s) : s.hyps = [] := by
  unfold eqCongruent at h
  dsimp only at h
  rule_hyps h

end Holpy.C18
