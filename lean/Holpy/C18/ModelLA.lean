/-
C18 — executable model of `LAGenericMacro.eval` (smt/veriT/la_generic.py), used for the rules
`la_generic` and `la_tautology`.

Input: the clause literals with their arithmetic already parsed the way `to_la` sees it —
`LTm`: numeral constants (the harness evaluates `is_constant()` subterms exactly), atoms (every
subterm that is not `plus / minus / uminus / times` — variables, applications …), `+`, `-`, unary
`-`, `c * t` with a constant `c` (`times` with a non-constant first factor is the assertion
failure of `to_la`) — and the evaluated coefficient arguments.  The model follows the Python:

* step 1: every literal is negated into a constraint `L > R`, `L >= R` or `L = R` (equalities
  must be negated; only `<`, `<=` are allowed as comparisons);
* step 2: `norm(L - R)` through `LinearArith` (`collect_pairs` after every operation: first
  occurrence order, zero coefficients dropped), constants moved to the right: `lin ⋈ -const`;
  over the integers `lin > d` becomes `lin >= d + 1`;
* a single literal: both sides must be constants; accepted iff the constraint is false;
* integers only: a row `lin ⋈ c` whose coefficient gcd `k` does not divide `c` is rounded to
  `lin >= k * (c // k + 1)`;
* step 3: rows are multiplied by `|coeff|` (`coeff` itself for an equality); rows with coefficient
  zero are left out (fix C18-16);
* step 4: the left sides must cancel; accepted iff `0 ⋈ sum of the right sides` is contradictory:
  `rhs != 0` if all rows are equalities, `rhs > 0` if none is strict, `rhs >= 0` otherwise.

Generic in the number type: instantiated at `Rat` (sort real) and `Int` (sort int; the harness
sends an integer clause only if all its numerals and coefficients are integers).
Import-free: linked into the `c18_model` driver.
-/
namespace Holpy.C18.LA

inductive LTm (α : Type) where
  | num (q : α)
  | atom (n : Nat)
  | add (a b : LTm α)
  | sub (a b : LTm α)
  | neg (a : LTm α)
  | mul (c : α) (a : LTm α)
  | badMul (a : LTm α)          -- `times` whose first factor is not a constant: AssertionError in to_la
  deriving Repr

inductive Rel where
  | lt | le | eq | gt | ge | other
  deriving DecidableEq, Repr

/-- a clause literal: `neg` = it is a negation `~(l rel r)` -/
structure Lit (α : Type) where
  neg : Bool
  rel : Rel
  l : LTm α
  r : LTm α
  deriving Repr

inductive Kind where
  | eq | gt | ge
  deriving DecidableEq, Repr

/-- `LinearArith`: constant and pairs (atom, coefficient) -/
structure LinA (α : Type) where
  const : α
  lps : List (Nat × α)
  deriving Repr

/-- a constraint after step 2: `lps ⋈ rhs` -/
structure Row (α : Type) where
  kind : Kind
  lps : List (Nat × α)
  rhs : α
  deriving Repr

section generic
variable {α : Type} [Add α] [Sub α] [Neg α] [Mul α] [OfNat α 0] [DecidableEq α] [LT α] [DecidableLT α]

/-- the dictionary update of `collect_pairs` -/
def addPair (v : Nat) (c : α) : List (Nat × α) → List (Nat × α)
  | [] => [(v, c)]
  | (w, d) :: rest => if v = w then (w, d + c) :: rest else (w, d) :: addPair v c rest

/-- `collect_pairs` -/
def collect (ps : List (Nat × α)) : List (Nat × α) :=
  (ps.foldl (fun acc p => addPair p.1 p.2 acc) []).filter (fun p => p.2 ≠ 0)

def mkLinA (c : α) (ps : List (Nat × α)) : LinA α := ⟨c, collect ps⟩
def laAdd (a b : LinA α) : LinA α := mkLinA (a.const + b.const) (a.lps ++ b.lps)
def laNeg (a : LinA α) : LinA α := mkLinA (-a.const) (a.lps.map fun p => (p.1, -p.2))
def laSub (a b : LinA α) : LinA α := laAdd a (laNeg b)
def laScale (m : α) (a : LinA α) : LinA α := mkLinA (m * a.const) (a.lps.map fun p => (p.1, m * p.2))

/-- `to_la`; `none` = AssertionError -/
def toLA [OfNat α 1] : LTm α → Option (LinA α)
  | .num q => some (mkLinA q [])
  | .atom n => some (mkLinA 0 [(n, 1)])
  | .add a b =>
    match toLA a, toLA b with
    | some x, some y => some (laAdd x y)
    | _, _ => none
  | .sub a b =>
    match toLA a, toLA b with
    | some x, some y => some (laSub x y)
    | _, _ => none
  | .neg a =>
    match toLA a with
    | some x => some (laNeg x)
    | none => none
  | .mul c a =>
    match toLA a with
    | some x => some (laScale c x)
    | none => none
  | .badMul _ => none

/-- step 1: the constraint that is the negation of the literal -/
def step1 (l : Lit α) : Option (Kind × LTm α × LTm α) :=
  if l.neg then
    match l.rel with
    | .eq => some (.eq, l.l, l.r)
    | .lt => some (.gt, l.r, l.l)
    | .le => some (.ge, l.r, l.l)
    | _ => none
  else
    match l.rel with
    | .lt => some (.ge, l.l, l.r)
    | .le => some (.gt, l.l, l.r)
    | _ => none

/-- steps 1 and 2 for one literal -/
def rowOf [OfNat α 1] (l : Lit α) : Option (Row α) :=
  match step1 l with
  | none => none
  | some (k, L, R) =>
    match toLA (.sub L R) with
    | none => none
    | some la => some ⟨k, la.lps, -la.const⟩

def rowsOf [OfNat α 1] : List (Lit α) → Option (List (Row α))
  | [] => some []
  | l :: ls =>
    match rowOf l, rowsOf ls with
    | some r, some rs => some (r :: rs)
    | _, _ => none

/-- the case of a single literal: both sides constants, the constraint must be false -/
def single (r : Row α) : Bool :=
  match r.lps with
  | _ :: _ => false
  | [] =>
    match r.kind with
    | .eq => (0 : α) ≠ r.rhs
    | .gt => !((r.rhs : α) < 0)             -- not (lhs > rhs)
    | .ge => (0 : α) < r.rhs                -- not (lhs >= rhs)

def absA (c : α) : α := if c < 0 then -c else c

/-- step 3: multiply the rows by the coefficients; `zip` stops at the shorter list (the lengths are
compared before) -/
def scaleRows : List α → List (Row α) → List (Row α)
  | c :: cs, r :: rs =>
    if c = 0 then scaleRows cs rs
    else
      let m := if r.kind = .eq then c else absA c
      ⟨r.kind, (laScale m ⟨0, r.lps⟩).lps, m * r.rhs⟩ :: scaleRows cs rs
  | _, _ => []

def sumRhs : List (Row α) → α
  | [] => 0
  | r :: rs => r.rhs + sumRhs rs

/-- steps 3 and 4 -/
def combine (coeffs : List α) (rows : List (Row α)) : Bool :=
  if coeffs.length ≠ rows.length then false else
  let rs := scaleRows coeffs rows
  match rs with
  | [] => false
  | _ =>
    let lhs := collect (rs.flatMap (·.lps))
    if !lhs.isEmpty then false else
    let rhs := sumRhs rs
    if rs.all (fun r => r.kind = .eq) then rhs ≠ 0
    else if rs.all (fun r => r.kind = .eq ∨ r.kind = .ge) then (0 : α) < rhs
    else !(rhs < 0)

end generic

/-- sort real -/
def laGenericQ (lits : List (Lit Rat)) (coeffs : List Rat) : Bool :=
  match lits with
  | [] => false
  | _ :: _ =>
    match rowsOf lits with
    | none => false
    | some rows =>
      match rows with
      | [r] => single r
      | _ => combine coeffs rows

/-- `l > d` becomes `l >= d + 1` -/
def intStrict (r : Row Int) : Row Int :=
  match r.kind with
  | .gt => ⟨.ge, r.lps, r.rhs + 1⟩
  | _ => r

/-- `coeffs_gcd` (the list is not empty where it is used) -/
def gcdL : List (Nat × Int) → Nat
  | [] => 0
  | (_, c) :: rest => Nat.gcd c.natAbs (gcdL rest)

/-- the rounding step -/
def roundRow (r : Row Int) : Row Int :=
  match r.lps with
  | [] => r
  | _ :: _ =>
    if r.kind = .eq then r else
    let k : Int := gcdL r.lps
    if r.rhs % k ≠ 0 then ⟨.ge, r.lps, k * (r.rhs / k + 1)⟩ else r

/-- sort int -/
def laGenericZ (lits : List (Lit Int)) (coeffs : List Int) : Bool :=
  match lits with
  | [] => false
  | _ :: _ =>
    match rowsOf lits with
    | none => false
    | some rows0 =>
      let rows := rows0.map intStrict
      match rows with
      | [r] => single r
      | _ => combine coeffs (rows.map roundRow)

-- ------------------------------------------------------------------ semantics (import-free)
section sem
variable {α : Type} [Add α] [Sub α] [Neg α] [Mul α] [OfNat α 0] [LT α] [LE α]

def evalPs (ρ : Nat → α) : List (Nat × α) → α
  | [] => 0
  | (v, c) :: rest => c * ρ v + evalPs ρ rest

def evalT (ρ : Nat → α) : LTm α → α
  | .num q => q
  | .atom n => ρ n
  | .add a b => evalT ρ a + evalT ρ b
  | .sub a b => evalT ρ a - evalT ρ b
  | .neg a => - evalT ρ a
  | .mul c a => c * evalT ρ a
  | .badMul _ => 0

def relHolds : Rel → α → α → Prop
  | .lt, a, b => a < b
  | .le, a, b => a ≤ b
  | .eq, a, b => a = b
  | .gt, a, b => b < a
  | .ge, a, b => b ≤ a
  | .other, _, _ => False

/-- truth of a clause literal under a valuation of the atoms -/
def litTrue (ρ : Nat → α) (l : Lit α) : Prop :=
  if l.neg then ¬ relHolds l.rel (evalT ρ l.l) (evalT ρ l.r) else relHolds l.rel (evalT ρ l.l) (evalT ρ l.r)

def rowHolds (ρ : Nat → α) (r : Row α) : Prop :=
  match r.kind with
  | .eq => evalPs ρ r.lps = r.rhs
  | .gt => r.rhs < evalPs ρ r.lps
  | .ge => r.rhs ≤ evalPs ρ r.lps

end sem

end Holpy.C18.LA
