import Holpy.C18.ModelRules
import Holpy.C18.ProofsRes
import Holpy.C18.ProofsSimp
import Holpy.C18.ProofsEq
/-
C18 — soundness and hypotheses of the helper macros (ModelHelper.lean).
-/
namespace Holpy.C18
open Tm

theorem swapDisj_sound (I : Interp) (cl sizes ps s) (h : swapDisj cl sizes ps = .ok s) (hp : ∀ p ∈ ps, p.holds I) : s.holds I := by
  unfold swapDisj at h
  split at h <;> try contradiction
  rename_i idx
  split at h <;> try contradiction
  split at h <;> try contradiction
  rename_i pt rest
  split at h <;> try contradiction
  rename_i ds hds
  split at h <;> try contradiction
  rename_i hc
  cases h
  have hds' := stripDisjN_tr I _ _ _ hds
  have hpt := hp pt (by simp)
  have hc' : ds = cl := by simpa using hc
  subst hc'
  simp only [Seq.holds] at hpt ⊢
  intro hh
  obtain ⟨x, hx, hxt⟩ := hds'.1 (hpt hh)
  rw [tr_mkOrs]
  refine ⟨x, ?_, hxt⟩
  rw [← List.take_append_drop idx ds] at hx
  rcases List.mem_append.1 hx with hx | hx
  · simp [hx]
  · rw [← List.take_append_drop 1 (List.drop idx ds)] at hx
    rcases List.mem_append.1 hx with hx | hx
    · simp [hx]
    · rw [List.drop_drop] at hx
      simp only [List.mem_append]
      right
      first | exact hx | (rwa [Nat.add_comm] at hx)

theorem swapDisj_hyps (cl sizes ps s) (h : swapDisj cl sizes ps = .ok s) : ∀ x ∈ s.hyps, ∃ p ∈ ps, x ∈ p.hyps := by
  unfold swapDisj at h
  split at h <;> try contradiction
  split at h <;> try contradiction
  split at h <;> try contradiction
  rename_i pt rest
  split at h <;> try contradiction
  split at h <;> try contradiction
  cases h
  intro x hx
  exact ⟨pt, by simp, hx⟩

theorem stripIs_tr (I) (t : Tm) (xs : List Tm) (h : stripIs t xs = true) : tr I t ↔ ∃ x ∈ xs, tr I x := by
  unfold stripIs at h
  split at h
  · rename_i ds hds
    have : ds = xs := by simpa using h
    subst this
    exact stripDisjN_tr I _ _ _ hds
  · contradiction

theorem combineChk_tr (I) (l r : List Tm) (p : Tm) (h : combineChk l r p = true) (hp : tr I p) :
    ∃ x ∈ l ++ r, tr I x := by
  unfold combineChk at h
  split at h
  · have : p = ff := by simpa using h
    subst this
    exact absurd hp (tr_ff I)
  · split at h
    · obtain ⟨x, hx, hxt⟩ := (stripIs_tr I _ _ h).1 hp
      exact ⟨x, by simp [hx], hxt⟩
    · split at h
      · obtain ⟨x, hx, hxt⟩ := (stripIs_tr I _ _ h).1 hp
        exact ⟨x, by simp [hx], hxt⟩
      · split at h
        · rename_i t1 t2
          simp only [Bool.and_eq_true] at h
          rcases (tr_or I _ _).1 hp with h1 | h2
          · obtain ⟨x, hx, hxt⟩ := (stripIs_tr I _ _ h.1).1 h1
            exact ⟨x, by simp [hx], hxt⟩
          · obtain ⟨x, hx, hxt⟩ := (stripIs_tr I _ _ h.2).1 h2
            exact ⟨x, by simp [hx], hxt⟩
        · contradiction

theorem combineDisj_sound (I : Interp) (cl sizes ps s) (h : combineDisj cl sizes ps = .ok s) (hp : ∀ p ∈ ps, p.holds I) : s.holds I := by
  unfold combineDisj at h
  repeat' (split at h <;> try contradiction)
  cases h
  rename_i nl nr pt rest hchk hset
  have hpt := hp pt (by simp)
  simp only [Seq.holds] at hpt ⊢
  intro hh
  obtain ⟨x, hx, hxt⟩ := combineChk_tr I _ _ _ hchk (hpt hh)
  rw [tr_mkOrs]
  simp only [Bool.and_eq_true, List.all_eq_true] at hset
  have := hset.1 x hx
  exact ⟨x, by simpa using this, hxt⟩

theorem combineDisj_hyps (cl sizes ps s) (h : combineDisj cl sizes ps = .ok s) : ∀ x ∈ s.hyps, ∃ p ∈ ps, x ∈ p.hyps := by
  unfold combineDisj at h
  repeat' (split at h <;> try contradiction)
  rename_i pt rest _ _
  cases h
  intro x hx
  exact ⟨pt, by simp, hx⟩

theorem discharge_tr (I) (a : Tm) (h : ¬ tr I (discharge a)) : tr I a := by
  unfold discharge at h
  split at h
  · simpa using h
  · simpa using h

theorem impToOr_sound (I : Interp) (cl ps s) (h : impToOr cl ps = .ok s) (hp : ∀ p ∈ ps, p.holds I) : s.holds I := by
  unfold impToOr at h
  repeat' (split at h <;> try contradiction)
  cases h
  rename_i pt rest goal hg hc
  have hpt := hp pt (by simp)
  simp only [Seq.holds] at hpt ⊢
  intro hh
  rw [tr_mkOrs]
  by_cases hall : ∀ x ∈ pt.hyps, tr I x
  · exact ⟨pt.prop, by simp, hpt hall⟩
  · have hall' : ∃ x, x ∈ pt.hyps ∧ ¬ tr I x := by
      apply Classical.byContradiction
      intro hne
      apply hall
      intro x hx
      apply Classical.byContradiction
      intro hxf
      exact hne ⟨x, hx, hxf⟩
    obtain ⟨x, hx, hxf⟩ := hall'
    by_cases hd : (List.map discharge cl.dropLast).contains x = true
    · simp only [List.contains_eq_mem, List.mem_map, decide_eq_true_eq] at hd
      obtain ⟨a, ha, rfl⟩ := hd
      exact ⟨a, by simp [ha], discharge_tr I a hxf⟩
    · exact absurd (hh x (List.mem_filter.2 ⟨hx, by simpa using hd⟩)) hxf

theorem impToOr_hyps (cl ps s) (h : impToOr cl ps = .ok s) : ∀ x ∈ s.hyps, ∃ p ∈ ps, x ∈ p.hyps := by
  unfold impToOr at h
  repeat' (split at h <;> try contradiction)
  rename_i pt rest goal _ _
  cases h
  intro x hx
  exact ⟨pt, by simp, (List.mem_filter.1 hx).1⟩

/-- every premise equality (at either kind) makes its two sides equivalent as formulas -/
theorem destEqs_iff (I : Interp) (xs : List Tm) (es : List (Nat × Tm × Tm)) (h : destEqs xs = some es)
    (hx : ∀ x ∈ xs, tr I x) : ∀ e ∈ es, (tr I e.2.1 ↔ tr I e.2.2) := by
  induction xs generalizing es with
  | nil => simp [destEqs] at h; subst h; simp
  | cons x xs ih =>
    unfold destEqs at h
    split at h <;> try contradiction
    rename_i d ds hd hds
    simp only [Option.some.injEq] at h; subst h
    intro e' he'
    rcases List.mem_cons.1 he' with rfl | he'
    · obtain ⟨k, a, b⟩ := e'
      have hx0 := hx x (by simp)
      rcases destEq_spec hd with ⟨_, rfl⟩ | ⟨_, rfl⟩
      · simpa using hx0
      · have : ev I a = ev I b := by simpa using hx0
        simp [tr_def, this]
    · exact ih ds hds (fun y hy => hx y (by simp [hy])) e' he'

theorem ptsRule_sound (I : Interp) (mk : List Tm → Tm) (Q : (Tm → Prop) → List Tm → Prop)
    (hmk : ∀ xs, tr I (mk xs) ↔ Q (tr I) xs)
    (hQ : ∀ (es : List (Nat × Tm × Tm)), (∀ e ∈ es, (tr I e.2.1 ↔ tr I e.2.2)) →
      (Q (tr I) (es.map (·.2.1)) ↔ Q (tr I) (dedup (es.map (·.2.2)) [])))
    (hone : ∀ x, mk [x] = x)
    (ps s) (h : ptsRule mk ps = .ok s) (hp : ∀ p ∈ ps, p.holds I) : s.holds I := by
  unfold ptsRule at h
  split at h
  · contradiction
  · rename_i es hes
    have key : (∀ x ∈ s.hyps, tr I x) → ∀ e ∈ es, (tr I e.2.1 ↔ tr I e.2.2) := by
      intro hh
      apply destEqs_iff I _ _ hes
      intro x hx
      obtain ⟨p, hpm, rfl⟩ := List.mem_map.1 hx
      apply hp p hpm
      intro y hy
      apply hh
      split at h <;> cases h <;> exact mem_unionHyps ps p hpm y hy
    split at h
    · rename_i a b
      cases h
      simp only [Seq.holds] at key ⊢
      intro hh
      simp only [List.map_cons, List.map_nil, dedup, List.contains_nil, Bool.false_eq_true, ↓reduceIte,
        List.reverse_cons, List.reverse_nil, List.nil_append, hone, tr_eq]
      have hpr : tr I (mkEq a b) := by
        cases ps with
        | nil => simp [destEqs] at hes
        | cons p rest =>
          have h0 := hp p (by simp)
          have hprop : p.prop = mkEq a b := by
            simp only [List.map_cons] at hes
            unfold destEqs at hes
            split at hes <;> try contradiction
            rename_i d ds hd hds
            simp only [Option.some.injEq, List.cons.injEq] at hes
            obtain ⟨rfl, _⟩ := hes
            rcases destEq_spec hd with ⟨h6, _⟩ | ⟨_, h7⟩
            · omega
            · exact h7
          rw [← hprop]
          exact h0 (fun y hy => hh y (mem_unionHyps _ p (by simp) y hy))
      simpa using hpr
    · cases h
      simp only [Seq.holds] at key ⊢
      intro hh
      rw [tr_iff, hmk, hmk]
      exact hQ es (key hh)

theorem conjPts_sound (I : Interp) (ps s) (h : conjPts ps = .ok s) (hp : ∀ p ∈ ps, p.holds I) : s.holds I := by
  refine ptsRule_sound I mkAnds (fun P xs => ∀ x ∈ xs, P x) (tr_mkAnds I) ?_ (fun x => rfl) ps s h hp
  intro es hes
  constructor
  · intro h1 x hx
    have hx' : x ∈ es.map (·.2.2) := by simpa using (mem_dedup x _ []).1 hx
    obtain ⟨e, he, rfl⟩ := List.mem_map.1 hx'
    exact (hes e he).1 (h1 _ (List.mem_map.2 ⟨e, he, rfl⟩))
  · intro h1 x hx
    obtain ⟨e, he, rfl⟩ := List.mem_map.1 hx
    exact (hes e he).2 (h1 _ ((mem_dedup _ _ []).2 (Or.inl (List.mem_map.2 ⟨e, he, rfl⟩))))

theorem disjPts_sound (I : Interp) (ps s) (h : disjPts ps = .ok s) (hp : ∀ p ∈ ps, p.holds I) : s.holds I := by
  refine ptsRule_sound I mkOrs (fun P xs => ∃ x ∈ xs, P x) (tr_mkOrs I) ?_ (fun x => rfl) ps s h hp
  intro es hes
  constructor
  · rintro ⟨x, hx, hxt⟩
    obtain ⟨e, he, rfl⟩ := List.mem_map.1 hx
    exact ⟨e.2.2, (mem_dedup _ _ []).2 (Or.inl (List.mem_map.2 ⟨e, he, rfl⟩)), (hes e he).1 hxt⟩
  · rintro ⟨x, hx, hxt⟩
    have hx' : x ∈ es.map (·.2.2) := by simpa using (mem_dedup x _ []).1 hx
    obtain ⟨e, he, rfl⟩ := List.mem_map.1 hx'
    exact ⟨e.2.1, List.mem_map.2 ⟨e, he, rfl⟩, (hes e he).2 hxt⟩

theorem mem_unionHyps_inv (ps : List Seq) (x : Tm) (hx : x ∈ unionHyps ps) : ∃ p ∈ ps, x ∈ p.hyps := by
  unfold unionHyps at hx
  rcases (mem_dedup x _ []).1 hx with h | h
  · obtain ⟨p, hp, hxp⟩ := List.mem_flatMap.1 h
    exact ⟨p, hp, hxp⟩
  · simp at h

theorem ptsRule_hyps (mk ps s) (h : ptsRule mk ps = .ok s) : ∀ x ∈ s.hyps, ∃ p ∈ ps, x ∈ p.hyps := by
  unfold ptsRule at h
  repeat' (split at h <;> try contradiction)
  all_goals (cases h; exact fun x hx => mem_unionHyps_inv ps x hx)

end Holpy.C18
