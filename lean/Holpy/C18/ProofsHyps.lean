import Holpy.C18.ProofsClause
import Holpy.C18.ProofsClause2
namespace Holpy.C18
open Tm

/-- the two rules whose soundness needs the equivalence to be at type bool -/
theorem notEquiv2_sound (I : Interp) (cl ps s) (h : notEquiv2 cl ps = .ok s) (hk : wellKinded .notEquiv2 cl ps = true)
    (hp : ∀ p ∈ ps, p.holds I) : s.holds I := by
  unfold notEquiv2 at h
  repeat' (split at h <;> try contradiction)
  all_goals (cases h)
  all_goals (simp only [Seq.holds, List.forall_mem_cons] at *)
  all_goals (simp_all [wellKinded])
  all_goals (try grind [tr_def])

theorem equivNeg1_sound (I : Interp) (cl s) (h : equivNeg1 cl = .ok s) (hk : wellKinded .equivNeg1 cl [] = true) : s.holds I := by
  unfold equivNeg1 at h
  repeat' (split at h <;> try contradiction)
  all_goals (cases h)
  all_goals (simp_all [Seq.holds, mkOrs, wellKinded])
  all_goals (try grind [tr_def])

/-- hypotheses of an accepted result come from the premises -/
macro "rule_hyps" h:ident : tactic => `(tactic| (
  repeat' (split at $h:ident <;> try contradiction)
  all_goals (cases $h:ident)
  all_goals (simp)
  all_goals (try grind)))

theorem notOr_hyps (cl ps s) (h : notOr cl ps = .ok s) : ∀ x ∈ s.hyps, ∃ p ∈ ps, x ∈ p.hyps := by
  unfold notOr at h
  try dsimp only at h
  rule_hyps h

theorem notAnd_hyps (cl ps s) (h : notAnd cl ps = .ok s) : ∀ x ∈ s.hyps, ∃ p ∈ ps, x ∈ p.hyps := by
  unfold notAnd at h
  try dsimp only at h
  rule_hyps h

theorem andRule_hyps (cl ps s) (h : andRule cl ps = .ok s) : ∀ x ∈ s.hyps, ∃ p ∈ ps, x ∈ p.hyps := by
  unfold andRule at h
  try dsimp only at h
  rule_hyps h

theorem orRule_hyps (cl ps s) (h : orRule cl ps = .ok s) : ∀ x ∈ s.hyps, ∃ p ∈ ps, x ∈ p.hyps := by
  unfold orRule at h
  try dsimp only at h
  rule_hyps h

theorem impliesRule_hyps (cl ps s) (h : impliesRule cl ps = .ok s) : ∀ x ∈ s.hyps, ∃ p ∈ ps, x ∈ p.hyps := by
  unfold impliesRule at h
  try dsimp only at h
  rule_hyps h

theorem notImplies1_hyps (cl ps s) (h : notImplies1 cl ps = .ok s) : ∀ x ∈ s.hyps, ∃ p ∈ ps, x ∈ p.hyps := by
  unfold notImplies1 at h
  try dsimp only at h
  rule_hyps h

theorem notImplies2_hyps (cl ps s) (h : notImplies2 cl ps = .ok s) : ∀ x ∈ s.hyps, ∃ p ∈ ps, x ∈ p.hyps := by
  unfold notImplies2 at h
  try dsimp only at h
  rule_hyps h

theorem equiv1_hyps (cl ps s) (h : equiv1 cl ps = .ok s) : ∀ x ∈ s.hyps, ∃ p ∈ ps, x ∈ p.hyps := by
  unfold equiv1 at h
  try dsimp only at h
  rule_hyps h

theorem equiv2_hyps (cl ps s) (h : equiv2 cl ps = .ok s) : ∀ x ∈ s.hyps, ∃ p ∈ ps, x ∈ p.hyps := by
  unfold equiv2 at h
  try dsimp only at h
  rule_hyps h

theorem notEquiv1_hyps (cl ps s) (h : notEquiv1 cl ps = .ok s) : ∀ x ∈ s.hyps, ∃ p ∈ ps, x ∈ p.hyps := by
  unfold notEquiv1 at h
  try dsimp only at h
  rule_hyps h

theorem notEquiv2_hyps (cl ps s) (h : notEquiv2 cl ps = .ok s) : ∀ x ∈ s.hyps, ∃ p ∈ ps, x ∈ p.hyps := by
  unfold notEquiv2 at h
  try dsimp only at h
  rule_hyps h

theorem ite1_hyps (cl ps s) (h : ite1 cl ps = .ok s) : ∀ x ∈ s.hyps, ∃ p ∈ ps, x ∈ p.hyps := by
  unfold ite1 at h
  try dsimp only at h
  rule_hyps h

theorem ite2_hyps (cl ps s) (h : ite2 cl ps = .ok s) : ∀ x ∈ s.hyps, ∃ p ∈ ps, x ∈ p.hyps := by
  unfold ite2 at h
  try dsimp only at h
  rule_hyps h

theorem notIte1_hyps (cl ps s) (h : notIte1 cl ps = .ok s) : ∀ x ∈ s.hyps, ∃ p ∈ ps, x ∈ p.hyps := by
  unfold notIte1 at h
  try dsimp only at h
  rule_hyps h

theorem notIte2_hyps (cl ps s) (h : notIte2 cl ps = .ok s) : ∀ x ∈ s.hyps, ∃ p ∈ ps, x ∈ p.hyps := by
  unfold notIte2 at h
  try dsimp only at h
  rule_hyps h

theorem contraction_hyps (cl ps s) (h : contraction cl ps = .ok s) : ∀ x ∈ s.hyps, ∃ p ∈ ps, x ∈ p.hyps := by
  unfold contraction at h
  try dsimp only at h
  rule_hyps h

theorem notNot_hyps (cl s) (h : notNot cl = .ok s) : s.hyps = [] := by
  unfold notNot at h
  try dsimp only at h
  rule_hyps h

theorem andPos_hyps (cl s) (h : andPos cl = .ok s) : s.hyps = [] := by
  unfold andPos at h
  try dsimp only at h
  rule_hyps h

theorem andNeg_hyps (cl s) (h : andNeg cl = .ok s) : s.hyps = [] := by
  unfold andNeg at h
  try dsimp only at h
  rule_hyps h

theorem orPos_hyps (cl s) (h : orPos cl = .ok s) : s.hyps = [] := by
  unfold orPos at h
  try dsimp only at h
  rule_hyps h

theorem orNeg_hyps (cl s) (h : orNeg cl = .ok s) : s.hyps = [] := by
  unfold orNeg at h
  try dsimp only at h
  rule_hyps h

theorem impliesPos_hyps (cl s) (h : impliesPos cl = .ok s) : s.hyps = [] := by
  unfold impliesPos at h
  try dsimp only at h
  rule_hyps h

theorem impliesNeg1_hyps (cl s) (h : impliesNeg1 cl = .ok s) : s.hyps = [] := by
  unfold impliesNeg1 at h
  try dsimp only at h
  rule_hyps h

theorem impliesNeg2_hyps (cl s) (h : impliesNeg2 cl = .ok s) : s.hyps = [] := by
  unfold impliesNeg2 at h
  try dsimp only at h
  rule_hyps h

theorem equivPos1_hyps (cl s) (h : equivPos1 cl = .ok s) : s.hyps = [] := by
  unfold equivPos1 at h
  try dsimp only at h
  rule_hyps h

theorem equivPos2_hyps (cl s) (h : equivPos2 cl = .ok s) : s.hyps = [] := by
  unfold equivPos2 at h
  try dsimp only at h
  rule_hyps h

theorem equivNeg1_hyps (cl s) (h : equivNeg1 cl = .ok s) : s.hyps = [] := by
  unfold equivNeg1 at h
  try dsimp only at h
  rule_hyps h

theorem equivNeg2_hyps (cl s) (h : equivNeg2 cl = .ok s) : s.hyps = [] := by
  unfold equivNeg2 at h
  try dsimp only at h
  rule_hyps h

theorem xorPos1_hyps (cl s) (h : xorPos1 cl = .ok s) : s.hyps = [] := by
  unfold xorPos1 at h
  try dsimp only at h
  rule_hyps h

theorem xorPos2_hyps (cl s) (h : xorPos2 cl = .ok s) : s.hyps = [] := by
  unfold xorPos2 at h
  try dsimp only at h
  rule_hyps h

theorem xorNeg1_hyps (cl s) (h : xorNeg1 cl = .ok s) : s.hyps = [] := by
  unfold xorNeg1 at h
  try dsimp only at h
  rule_hyps h

theorem xorNeg2_hyps (cl s) (h : xorNeg2 cl = .ok s) : s.hyps = [] := by
  unfold xorNeg2 at h
  try dsimp only at h
  rule_hyps h

theorem itePos1_hyps (cl s) (h : itePos1 cl = .ok s) : s.hyps = [] := by
  unfold itePos1 at h
  try dsimp only at h
  rule_hyps h

theorem itePos2_hyps (cl s) (h : itePos2 cl = .ok s) : s.hyps = [] := by
  unfold itePos2 at h
  try dsimp only at h
  rule_hyps h

theorem iteNeg1_hyps (cl s) (h : iteNeg1 cl = .ok s) : s.hyps = [] := by
  unfold iteNeg1 at h
  try dsimp only at h
  rule_hyps h

theorem iteNeg2_hyps (cl s) (h : iteNeg2 cl = .ok s) : s.hyps = [] := by
  unfold iteNeg2 at h
  try dsimp only at h
  rule_hyps h

theorem falseRule_hyps (cl s) (h : falseRule cl = .ok s) : s.hyps = [] := by
  unfold falseRule at h
  try dsimp only at h
  rule_hyps h

theorem eqReflexive_sound (I : Interp) (cl s) (h : eqReflexive cl = .ok s) : s.holds I := by
  unfold eqReflexive at h
  rule_sound h

theorem laDisequality_sound (I : Interp) (hI : I.LeOrder) (cl s) (h : laDisequality cl = .ok s)
    (hk : wellKinded .laDisequality cl [] = true) : s.holds I := by
  unfold laDisequality at h
  repeat' (split at h <;> try contradiction)
  all_goals (cases h)
  all_goals (simp only [Seq.holds]; intro _)
  all_goals (rw [← tr_stripDisj I])
  all_goals (simp_all [wellKinded])
  all_goals (have := hI.antisymm; try grind)

theorem laRwEq_core (I : Interp) (hI : I.LeOrder) (t u : Tm) :
    ev I (mkEq t u) = ev I (mkAnd (mkLe t u) (mkLe u t)) := by
  simp only [ev, evAcc, evApp]
  have h1 := hI.antisymm (evAcc I t []) (evAcc I u [])
  by_cases he : evAcc I t [] = evAcc I u []
  · simp [he, hI.refl]
  · have h3 : ¬ (I.le (evAcc I t []) (evAcc I u []) = true ∧ I.le (evAcc I u []) (evAcc I t []) = true) :=
      fun ⟨a, b⟩ => he (h1 a b)
    simp [he]
    grind

theorem laRwEq_sound (I : Interp) (hI : I.LeOrder) (cl s) (h : laRwEq cl = .ok s)
    (hk : wellKinded .laRwEq cl [] = true) : s.holds I := by
  unfold laRwEq at h
  repeat' (split at h <;> try contradiction)
  all_goals (cases h)
  all_goals (simp only [Seq.holds]; intro _)
  all_goals (simp_all [wellKinded])
  all_goals (have := hI.antisymm; have := hI.refl; have := laRwEq_core I hI; grind [tr_def])

theorem eqReflexive_hyps (cl s) (h : eqReflexive cl = .ok s) : s.hyps = [] := by
  unfold eqReflexive at h
  rule_hyps h

theorem laDisequality_hyps (cl s) (h : laDisequality cl = .ok s) : s.hyps = [] := by
  unfold laDisequality at h
  rule_hyps h

theorem laRwEq_hyps (cl s) (h : laRwEq cl = .ok s) : s.hyps = [] := by
  unfold laRwEq at h
  rule_hyps h

end Holpy.C18
