/-
C18 — model of the `eval` methods of the arithmetic simplification rules `comp_simplify`,
`minus_simplify`, `unary_minus_simplify` (smt/veriT/verit_macro.py).

Arithmetic terms are sent structurally (`ATm`): natural-number literals (`zero`, `one`, `of_nat` of
a binary numeral), atoms (every subterm whose head is not one of the arithmetic constants),
`plus`, `minus`, `uminus`, `times`, `real_divide`.  Python's `==` on these terms is structural
equality; `is_constant()` is `isConst`; `int_eval` / `real_eval` / `eval_hol_number` on a constant
is `evalC` (`none`: division by zero).  Generic in the number type (`Rat` for sort real, `Int` for
sort int, where no division occurs).  Import-free.
-/
namespace Holpy.C18.Arith

inductive ATm (α : Type) where
  | lit (n : Nat)                -- zero, one, of_nat (bit…)
  | atom (k : Nat)
  | add (a b : ATm α)
  | sub (a b : ATm α)
  | neg (a : ATm α)
  | mul (a b : ATm α)
  | div (a b : ATm α)
  deriving DecidableEq, Repr

/-- the comparison on the left of a comp_simplify goal / inside its right side -/
inductive Cmp where
  | lt | le | gt | ge
  deriving DecidableEq, Repr

/-- the shapes of the right side that comp_simplify looks at -/
inductive CRhs (α : Type) where
  | tt | ff
  | le (a b : ATm α)             -- a <= b
  | nle (a b : ATm α)            -- ~(a <= b)
  | other
  deriving Repr

section generic
variable {α : Type} [Add α] [Sub α] [Neg α] [Mul α] [Div α] [NatCast α] [OfNat α 0] [DecidableEq α] [LT α] [DecidableLT α]

/-- `is_constant()` -/
def isConst : ATm α → Bool
  | .lit _ => true
  | .atom _ => false
  | .add a b => isConst a && isConst b
  | .sub a b => isConst a && isConst b
  | .neg a => isConst a
  | .mul a b => isConst a && isConst b
  | .div a b => isConst a && isConst b

/-- value of a constant term; `none` = ZeroDivisionError -/
def evalC : ATm α → Option α
  | .lit n => some (n : α)
  | .atom _ => none
  | .add a b => match evalC a, evalC b with
    | some x, some y => some (x + y)
    | _, _ => none
  | .sub a b => match evalC a, evalC b with
    | some x, some y => some (x - y)
    | _, _ => none
  | .neg a => match evalC a with
    | some x => some (-x)
    | none => none
  | .mul a b => match evalC a, evalC b with
    | some x, some y => some (x * y)
    | _, _ => none
  | .div a b =>
    -- `1 / 0` passes `is_number()` (gcd 1 0 = 1) and `dest_number` gives it the value 0; every other
    -- zero denominator is the "divide by zero" exception of real_eval
    if a = .lit 1 ∧ b = .lit 0 then some 0 else
    match evalC a, evalC b with
    | some x, some y => if y = 0 then none else some (x / y)
    | _, _ => none

/-- verit_comp_simplify: `(t1 cmp t2) <--> rhs` -/
def compSimplify (c : Cmp) (t1 t2 : ATm α) (rhs : CRhs α) : Bool :=
  let constCase : Option Bool :=        -- cases 1 and 3 decide (accept or raise) for < and <= between constants
    if isConst t1 && isConst t2 then
      match evalC t1, evalC t2 with
      | some n1, some n2 =>
        match c with
        | .lt => some (match rhs with
            | .tt => n1 < n2
            | .ff => !(n1 < n2)
            | _ => false)
        | .le => some (match rhs with
            | .tt => !(n2 < n1)
            | .ff => n2 < n1
            | _ => false)
        | _ => none
      | _, _ => some false
    else none
  match constCase with
  | some b => b
  | none =>
    match c, rhs with
    | .lt, .ff => if t1 = t2 then true else false                       -- case 2 (then case 6 needs ~(<=): not ff)
    | .le, .tt => if t1 = t2 then true else false                       -- case 4
    | .ge, .le r1 r2 => t1 = r2 && t2 = r1                              -- case 5
    | .lt, .nle r1 r2 => t1 = r2 && t2 = r1                             -- case 6
    | .gt, .nle r1 r2 => t1 = r1 && t2 = r2                             -- case 7
    | _, _ => false

/-- `compare_tm` of minus_simplify -/
def minusCompare (l r : ATm α) : Bool :=
  (match l, r with
   | .sub a b, .lit 0 => a = b
   | _, _ => false) ||
  (match l with
   | .sub a (.lit 0) => a = r
   | _ => false) ||
  (match l, r with
   | .sub (.lit 0) b, .neg b' => b' = b
   | _, _ => false) ||
  (match r with
   | .neg (.neg x) => x = l
   | _ => false)

/-- verit_minus_simplify: `lhs = rhs` -/
def minusSimplify (l r : ATm α) : Bool :=
  if isConst l && isConst r then
    match evalC l, evalC r with
    | some x, some y => x = y
    | _, _ => false
  else minusCompare l r || minusCompare r l

/-- verit_unary_minus_simplify (as fixed by C18-15): `-(-t) = t`, or constants -/
def unaryMinusSimplify (l r : ATm α) : Bool :=
  match l with
  | .neg inner =>
    match inner with
    | .neg x => if !isConst inner then x = r
      else (match evalC l, (if isConst r then evalC r else none) with
        | some a, some b => a = b
        | _, _ => false)
    | _ => if isConst inner then
        (match evalC l, (if isConst r then evalC r else none) with
         | some a, some b => a = b
         | _, _ => false)
      else false
  | _ => false

/-- verit_div_simplify (as fixed by C18-27): `t / t = 1` for a numeral `t` that is not zero,
`t / 1 = t`, or both sides constants with the same value -/
def divSimplify (l r : ATm α) : Bool :=
  match l with
  | .div a b =>
    (a = b && isConst b && (match evalC b with
       | some v => v ≠ 0
       | none => false) && r = .lit 1) ||
    (a = r && b = .lit 1) ||
    (isConst l && isConst r && (match evalC l, evalC r with
       | some x, some y => x = y
       | _, _ => false))
  | _ => false

/-- the right side of an eq_simplify goal -/
inductive ERhs where
  | tt | ff | other
  deriving DecidableEq, Repr

/-- verit_eq_simplify (as fixed by C18-11): `(t = t) <--> true`; `(c1 = c2) <--> false` for numerals of
different value; `~(t = t) <--> false`.  `neg` = the left side is a negated equality. -/
def eqSimplify (neg : Bool) (a b : ATm α) (rhs : ERhs) : Bool :=
  if neg then a = b && rhs = .ff
  else
    (a = b && rhs = .tt) ||
    (isConst a && isConst b && rhs = .ff && (match evalC a, evalC b with
       | some x, some y => x ≠ y
       | _, _ => false))

-- ---------------------------------------------------------------- sum_simplify

/-- `is_frac_number()`: a natural-number literal, or `m / n` of two such literals with `n != 1` and
`gcd m n = 1` (so `1 / 0` counts) -/
def isFracNum : ATm α → Bool
  | .lit _ => true
  | .div (.lit m) (.lit n) => n != 1 && Nat.gcd m n == 1
  | _ => false

/-- `is_number()` -/
def isNumber : ATm α → Bool
  | .neg x => isFracNum x && !(x = .lit 0)
  | t => isFracNum t

/-- `dest_number()` of a term for which `is_number()` holds (`n / 0 = 0`) -/
def numVal : ATm α → α
  | .lit n => (n : α)
  | .div (.lit m) (.lit n) => if n = 0 then 0 else (m : α) / (n : α)
  | .neg x => - numVal x
  | _ => 0

/-- `strip_plus_full` -/
def stripPlusFull : ATm α → List (ATm α)
  | .add a b => stripPlusFull a ++ stripPlusFull b
  | t => [t]

def sumVals : List (ATm α) → α
  | [] => 0
  | x :: xs => numVal x + sumVals xs

/-- `sum(ts[1:], ts[0])`: left-nested sum of a non-empty list -/
def sumLeftFrom (acc : ATm α) : List (ATm α) → ATm α
  | [] => acc
  | x :: xs => sumLeftFrom (.add acc x) xs

/-- `int_split_num_expr` / `real_split_num_expr`; `mk c` is the canonical numeral `Int(c)` / `Real(c)` -/
def splitNum (mk : α → ATm α) (t : ATm α) : ATm α :=
  let ss := stripPlusFull t
  let nums := ss.filter isNumber
  let non := ss.filter (fun x => !isNumber x)
  let c := sumVals nums
  match non with
  | [] => mk c
  | n0 :: rest => if c = 0 then sumLeftFrom n0 rest else .add (mk c) (sumLeftFrom n0 rest)

/-- verit_sum_simplify -/
def sumSimplify (mk : α → ATm α) (l r : ATm α) : Bool :=
  splitNum mk l = r || splitNum mk l = splitNum mk r

/-- `strip_times_full` -/
def stripTimesFull : ATm α → List (ATm α)
  | .mul a b => stripTimesFull a ++ stripTimesFull b
  | t => [t]

/-- the product of the values of numerals (`functools.reduce(operator.mul, …)`, exact arithmetic) -/
def prodVals : List (ATm α) → α
  | [] => ((1 : Nat) : α)
  | x :: xs => numVal x * prodVals xs

def isMul : ATm α → Bool
  | .mul _ _ => true
  | _ => false

/-- the three cases of verit_prod_simplify once the product is on the left -/
def prodCases (l r : ATm α) : Bool :=
  let lp := stripTimesFull l
  if lp.all isNumber && isNumber r && prodVals lp = numVal r then true        -- case 1 (`hol_eval(lhs) == hol_eval(rhs)`)
  else if r = .lit 0 && lp.any (fun p => p = .lit 0) then true                -- case 2
  else
    let rp := stripTimesFull r
    match lp.filter isNumber with
    | [] => false                                                            -- `assert len(lhs_consts) > 0`
    | c :: cs =>
      prodVals (c :: cs) = prodVals (rp.filter isNumber) &&
      lp.filter (fun x => !isNumber x) = rp.filter (fun x => !isNumber x)

/-- verit_prod_simplify: at least one side is a product; a product on the right only is swapped to the left -/
def prodSimplify (l r : ATm α) : Bool :=
  if !isMul l && !isMul r then false
  else if !isMul l then prodCases r l
  else prodCases l r

end generic

/-- `Int(c)`: `zero`, `one`, `of_nat …`, `uminus` of the numeral of `-c` -/
def mkNumZ (c : Int) : ATm Int := if c < 0 then .neg (.lit c.natAbs) else .lit c.natAbs

/-- `Real(c)`: as `Int(c)` for integers, `numerator / denominator` otherwise -/
def mkNumQ (c : Rat) : ATm Rat :=
  let body : ATm Rat := if c.den = 1 then .lit c.num.natAbs else .div (.lit c.num.natAbs) (.lit c.den)
  if c < 0 then .neg body else body

-- ------------------------------------------------------------------ semantics
section sem
variable {α : Type} [Add α] [Sub α] [Neg α] [Mul α] [Div α] [NatCast α] [LT α] [LE α]

def evalA (ρ : Nat → α) : ATm α → α
  | .lit n => (n : α)
  | .atom k => ρ k
  | .add a b => evalA ρ a + evalA ρ b
  | .sub a b => evalA ρ a - evalA ρ b
  | .neg a => - evalA ρ a
  | .mul a b => evalA ρ a * evalA ρ b
  | .div a b => evalA ρ a / evalA ρ b

def cmpHolds : Cmp → α → α → Prop
  | .lt, a, b => a < b
  | .le, a, b => a ≤ b
  | .gt, a, b => b < a
  | .ge, a, b => b ≤ a

def rhsHolds (ρ : Nat → α) : CRhs α → Prop
  | .tt => True
  | .ff => False
  | .le a b => evalA ρ a ≤ evalA ρ b
  | .nle a b => ¬ evalA ρ a ≤ evalA ρ b
  | .other => False

end sem

def compSimplifyQ := @compSimplify Rat _ _ _ _ _ _ _ _ _ _
def compSimplifyZ := @compSimplify Int _ _ _ _ _ _ _ _ _ _
def minusSimplifyQ := @minusSimplify Rat _ _ _ _ _ _ _ _
def minusSimplifyZ := @minusSimplify Int _ _ _ _ _ _ _ _
def unaryMinusSimplifyQ := @unaryMinusSimplify Rat _ _ _ _ _ _ _ _
def unaryMinusSimplifyZ := @unaryMinusSimplify Int _ _ _ _ _ _ _ _
def divSimplifyQ := @divSimplify Rat _ _ _ _ _ _ _ _
def eqSimplifyQ := @eqSimplify Rat _ _ _ _ _ _ _ _
def eqSimplifyZ := @eqSimplify Int _ _ _ _ _ _ _ _
def sumSimplifyQ (l r : ATm Rat) : Bool := sumSimplify mkNumQ l r
def sumSimplifyZ (l r : ATm Int) : Bool := sumSimplify mkNumZ l r

end Holpy.C18.Arith
