import Holpy.C18.Model
import Holpy.C18.ModelSimp
import Holpy.C18.ModelPred
import Holpy.C18.ModelHelper
/-
C18 — the table of modelled rules (`Rule`, `evalRule`), what well-typedness adds (`wellKinded`) and
the model of whole proofs in evaluation mode.  Import-free (project files only).
-/
namespace Holpy.C18
open Tm

/-- the tier-1 rules of the clause fragment (propositional rules and resolution) -/
inductive Rule where
  | notOr
  | notAnd
  | andRule
  | orRule
  | impliesRule
  | notImplies1
  | notImplies2
  | equiv1
  | equiv2
  | notEquiv1
  | notEquiv2
  | ite1
  | ite2
  | notIte1
  | notIte2
  | contraction
  | notNot
  | andPos
  | andNeg
  | orPos
  | orNeg
  | impliesPos
  | impliesNeg1
  | impliesNeg2
  | equivPos1
  | equivPos2
  | equivNeg1
  | equivNeg2
  | xorPos1
  | xorPos2
  | xorNeg1
  | xorNeg2
  | itePos1
  | itePos2
  | iteNeg1
  | iteNeg2
  | falseRule
  | thResolution
  | eqReflexive
  | laDisequality
  | laRwEq
  | eqTransitive
  | transRule
  | eqCongruent
  | notSimplify
  | andSimplify
  | orSimplify
  | impliesSimplify
  | equivSimplify
  | boolSimplify
  | iteSimplify
  | connectiveDef
  | subproof
  | congRule
  | eqCongruentPred
  | swapDisj
  | combineDisj
  | impToOr
  | conjPts
  | disjPts
  deriving DecidableEq, Repr

def Rule.ofName : String → Option Rule
  | "verit_not_or" => some .notOr
  | "verit_not_and" => some .notAnd
  | "verit_and" => some .andRule
  | "verit_or" => some .orRule
  | "verit_implies" => some .impliesRule
  | "verit_not_implies1" => some .notImplies1
  | "verit_not_implies2" => some .notImplies2
  | "verit_equiv1" => some .equiv1
  | "verit_equiv2" => some .equiv2
  | "verit_not_equiv1" => some .notEquiv1
  | "verit_not_equiv2" => some .notEquiv2
  | "verit_ite1" => some .ite1
  | "verit_ite2" => some .ite2
  | "verit_not_ite1" => some .notIte1
  | "verit_not_ite2" => some .notIte2
  | "verit_contraction" => some .contraction
  | "verit_not_not" => some .notNot
  | "verit_and_pos" => some .andPos
  | "verit_and_neg" => some .andNeg
  | "verit_or_pos" => some .orPos
  | "verit_or_neg" => some .orNeg
  | "verit_implies_pos" => some .impliesPos
  | "verit_implies_neg1" => some .impliesNeg1
  | "verit_implies_neg2" => some .impliesNeg2
  | "verit_equiv_pos1" => some .equivPos1
  | "verit_equiv_pos2" => some .equivPos2
  | "verit_equiv_neg1" => some .equivNeg1
  | "verit_equiv_neg2" => some .equivNeg2
  | "verit_xor_pos1" => some .xorPos1
  | "verit_xor_pos2" => some .xorPos2
  | "verit_xor_neg1" => some .xorNeg1
  | "verit_xor_neg2" => some .xorNeg2
  | "verit_ite_pos1" => some .itePos1
  | "verit_ite_pos2" => some .itePos2
  | "verit_ite_neg1" => some .iteNeg1
  | "verit_ite_neg2" => some .iteNeg2
  | "verit_false" => some .falseRule
  | "verit_th_resolution" => some .thResolution
  | "verit_eq_reflexive" => some .eqReflexive
  | "verit_la_disequality" => some .laDisequality
  | "verit_la_rw_eq" => some .laRwEq
  | "verit_eq_transitive" => some .eqTransitive
  | "verit_trans" => some .transRule
  | "verit_eq_congruent" => some .eqCongruent
  | "verit_not_simplify" => some .notSimplify
  | "verit_and_simplify" => some .andSimplify
  | "verit_or_simplify" => some .orSimplify
  | "verit_implies_simplify" => some .impliesSimplify
  | "verit_equiv_simplify" => some .equivSimplify
  | "verit_bool_simplify" => some .boolSimplify
  | "verit_ite_simplify" => some .iteSimplify
  | "verit_connective_def" => some .connectiveDef
  | "verit_subproof" => some .subproof
  | "verit_cong" => some .congRule
  | "verit_eq_congruent_pred" => some .eqCongruentPred
  | "swap_disj_to_front" => some .swapDisj
  | "combine_disj_clauses" => some .combineDisj
  | "imp_to_or" => some .impToOr
  | "verit_conj_pts" => some .conjPts
  | "verit_disj_pts" => some .disjPts
  | _ => none

def Rule.name : Rule → String
  | .notOr => "verit_not_or"
  | .notAnd => "verit_not_and"
  | .andRule => "verit_and"
  | .orRule => "verit_or"
  | .impliesRule => "verit_implies"
  | .notImplies1 => "verit_not_implies1"
  | .notImplies2 => "verit_not_implies2"
  | .equiv1 => "verit_equiv1"
  | .equiv2 => "verit_equiv2"
  | .notEquiv1 => "verit_not_equiv1"
  | .notEquiv2 => "verit_not_equiv2"
  | .ite1 => "verit_ite1"
  | .ite2 => "verit_ite2"
  | .notIte1 => "verit_not_ite1"
  | .notIte2 => "verit_not_ite2"
  | .contraction => "verit_contraction"
  | .notNot => "verit_not_not"
  | .andPos => "verit_and_pos"
  | .andNeg => "verit_and_neg"
  | .orPos => "verit_or_pos"
  | .orNeg => "verit_or_neg"
  | .impliesPos => "verit_implies_pos"
  | .impliesNeg1 => "verit_implies_neg1"
  | .impliesNeg2 => "verit_implies_neg2"
  | .equivPos1 => "verit_equiv_pos1"
  | .equivPos2 => "verit_equiv_pos2"
  | .equivNeg1 => "verit_equiv_neg1"
  | .equivNeg2 => "verit_equiv_neg2"
  | .xorPos1 => "verit_xor_pos1"
  | .xorPos2 => "verit_xor_pos2"
  | .xorNeg1 => "verit_xor_neg1"
  | .xorNeg2 => "verit_xor_neg2"
  | .itePos1 => "verit_ite_pos1"
  | .itePos2 => "verit_ite_pos2"
  | .iteNeg1 => "verit_ite_neg1"
  | .iteNeg2 => "verit_ite_neg2"
  | .falseRule => "verit_false"
  | .thResolution => "verit_th_resolution"
  | .eqReflexive => "verit_eq_reflexive"
  | .laDisequality => "verit_la_disequality"
  | .laRwEq => "verit_la_rw_eq"
  | .eqTransitive => "verit_eq_transitive"
  | .transRule => "verit_trans"
  | .eqCongruent => "verit_eq_congruent"
  | .notSimplify => "verit_not_simplify"
  | .andSimplify => "verit_and_simplify"
  | .orSimplify => "verit_or_simplify"
  | .impliesSimplify => "verit_implies_simplify"
  | .equivSimplify => "verit_equiv_simplify"
  | .boolSimplify => "verit_bool_simplify"
  | .iteSimplify => "verit_ite_simplify"
  | .connectiveDef => "verit_connective_def"
  | .subproof => "verit_subproof"
  | .congRule => "verit_cong"
  | .eqCongruentPred => "verit_eq_congruent_pred"
  | .swapDisj => "swap_disj_to_front"
  | .combineDisj => "combine_disj_clauses"
  | .impToOr => "imp_to_or"
  | .conjPts => "verit_conj_pts"
  | .disjPts => "verit_disj_pts"

def Rule.all : List Rule := [.notOr, .notAnd, .andRule, .orRule, .impliesRule, .notImplies1, .notImplies2, .equiv1, .equiv2, .notEquiv1, .notEquiv2, .ite1, .ite2, .notIte1, .notIte2, .contraction, .notNot, .andPos, .andNeg, .orPos, .orNeg, .impliesPos, .impliesNeg1, .impliesNeg2, .equivPos1, .equivPos2, .equivNeg1, .equivNeg2, .xorPos1, .xorPos2, .xorNeg1, .xorNeg2, .itePos1, .itePos2, .iteNeg1, .iteNeg2, .falseRule, .thResolution, .eqReflexive, .laDisequality, .laRwEq, .eqTransitive, .transRule, .eqCongruent, .notSimplify, .andSimplify, .orSimplify, .impliesSimplify, .equivSimplify, .boolSimplify, .iteSimplify, .connectiveDef, .subproof, .congRule, .eqCongruentPred, .swapDisj, .combineDisj, .impToOr, .conjPts, .disjPts]

/-- `eval` of the macro registered under the rule name; `sizes` is read by resolution and by the helper macros swap_disj_to_front / combine_disj_clauses (ModelHelper.lean) -/
def evalRule : Rule → List Tm → List Nat → List Seq → Except Err Seq
  | .notOr, cl, _, ps => Holpy.C18.notOr cl ps
  | .notAnd, cl, _, ps => Holpy.C18.notAnd cl ps
  | .andRule, cl, _, ps => Holpy.C18.andRule cl ps
  | .orRule, cl, _, ps => Holpy.C18.orRule cl ps
  | .impliesRule, cl, _, ps => Holpy.C18.impliesRule cl ps
  | .notImplies1, cl, _, ps => Holpy.C18.notImplies1 cl ps
  | .notImplies2, cl, _, ps => Holpy.C18.notImplies2 cl ps
  | .equiv1, cl, _, ps => Holpy.C18.equiv1 cl ps
  | .equiv2, cl, _, ps => Holpy.C18.equiv2 cl ps
  | .notEquiv1, cl, _, ps => Holpy.C18.notEquiv1 cl ps
  | .notEquiv2, cl, _, ps => Holpy.C18.notEquiv2 cl ps
  | .ite1, cl, _, ps => Holpy.C18.ite1 cl ps
  | .ite2, cl, _, ps => Holpy.C18.ite2 cl ps
  | .notIte1, cl, _, ps => Holpy.C18.notIte1 cl ps
  | .notIte2, cl, _, ps => Holpy.C18.notIte2 cl ps
  | .contraction, cl, _, ps => Holpy.C18.contraction cl ps
  | .notNot, cl, _, _ => Holpy.C18.notNot cl
  | .andPos, cl, _, _ => Holpy.C18.andPos cl
  | .andNeg, cl, _, _ => Holpy.C18.andNeg cl
  | .orPos, cl, _, _ => Holpy.C18.orPos cl
  | .orNeg, cl, _, _ => Holpy.C18.orNeg cl
  | .impliesPos, cl, _, _ => Holpy.C18.impliesPos cl
  | .impliesNeg1, cl, _, _ => Holpy.C18.impliesNeg1 cl
  | .impliesNeg2, cl, _, _ => Holpy.C18.impliesNeg2 cl
  | .equivPos1, cl, _, _ => Holpy.C18.equivPos1 cl
  | .equivPos2, cl, _, _ => Holpy.C18.equivPos2 cl
  | .equivNeg1, cl, _, _ => Holpy.C18.equivNeg1 cl
  | .equivNeg2, cl, _, _ => Holpy.C18.equivNeg2 cl
  | .xorPos1, cl, _, _ => Holpy.C18.xorPos1 cl
  | .xorPos2, cl, _, _ => Holpy.C18.xorPos2 cl
  | .xorNeg1, cl, _, _ => Holpy.C18.xorNeg1 cl
  | .xorNeg2, cl, _, _ => Holpy.C18.xorNeg2 cl
  | .itePos1, cl, _, _ => Holpy.C18.itePos1 cl
  | .itePos2, cl, _, _ => Holpy.C18.itePos2 cl
  | .iteNeg1, cl, _, _ => Holpy.C18.iteNeg1 cl
  | .iteNeg2, cl, _, _ => Holpy.C18.iteNeg2 cl
  | .falseRule, cl, _, _ => Holpy.C18.falseRule cl
  | .thResolution, cl, sizes, ps => Holpy.C18.thResolution cl sizes ps
  | .eqReflexive, cl, _, _ => Holpy.C18.eqReflexive cl
  | .laDisequality, cl, _, _ => Holpy.C18.laDisequality cl
  | .laRwEq, cl, _, _ => Holpy.C18.laRwEq cl
  | .eqTransitive, cl, _, _ => Holpy.C18.eqTransitive cl
  | .transRule, cl, _, ps => Holpy.C18.transRule cl ps
  | .eqCongruent, cl, _, _ => Holpy.C18.eqCongruent cl
  | .notSimplify, cl, _, _ => Holpy.C18.notSimplify cl
  | .andSimplify, cl, _, _ => Holpy.C18.andSimplify cl
  | .orSimplify, cl, _, _ => Holpy.C18.orSimplify cl
  | .impliesSimplify, cl, _, _ => Holpy.C18.impliesSimplify cl
  | .equivSimplify, cl, _, _ => Holpy.C18.equivSimplify cl
  | .boolSimplify, cl, _, _ => Holpy.C18.boolSimplify cl
  | .iteSimplify, cl, _, _ => Holpy.C18.iteSimplify cl
  | .connectiveDef, cl, _, _ => Holpy.C18.connectiveDef cl
  | .subproof, cl, _, ps => Holpy.C18.subproof cl ps
  | .congRule, cl, _, ps => Holpy.C18.congRule cl ps
  | .eqCongruentPred, cl, _, _ => Holpy.C18.eqCongruentPred cl
  | .swapDisj, cl, sizes, ps => Holpy.C18.swapDisj cl sizes ps
  | .combineDisj, cl, sizes, ps => Holpy.C18.combineDisj cl sizes ps
  | .impToOr, cl, _, ps => Holpy.C18.impToOr cl ps
  | .conjPts, _, _, ps => Holpy.C18.conjPts ps
  | .disjPts, _, _, ps => Holpy.C18.disjPts ps

/-- the goal of a simplification rule `lhs <--> rhs` is `equals` at type bool -/
def goalIsIff : List Tm → Bool
  | [mkEq _ _] => false
  | _ => true

def notFoEq : Tm → Bool
  | mkEq _ _ => false
  | _ => true

def notDisj : Tm → Bool
  | mkOr _ _ => false
  | _ => true

def isConnective : Tm → Bool
  | mkNot _ => true
  | mkAnd _ _ => true
  | mkOr _ _ => true
  | mkImp _ _ => true
  | mkIff _ _ => true
  | mkXor _ _ => true
  | _ => false

/-- What well-typedness of the instance gives and the model cannot see: in `not_equiv2` and
`equiv_neg1` the equivalence is `equals` at type bool (its sides are clause literals). -/
def wellKinded : Rule → List Tm → List Seq → Bool
  | .notSimplify, cl, _ => goalIsIff cl
  | .andSimplify, cl, _ => goalIsIff cl
  | .orSimplify, cl, _ => goalIsIff cl
  | .impliesSimplify, cl, _ => goalIsIff cl
  | .boolSimplify, cl, _ => goalIsIff cl
  | .eqCongruentPred, cl, _ =>
    -- the last literal is not itself a disjunction (so the disjuncts of `Or(*args)` are the arguments), the
    -- equalities are first-order, the two atoms have the same number of arguments
    (match cl.reverse with
     | a1 :: a2 :: rest =>
       notDisj a1 &&
       (match destNegEqs rest.reverse with
        | some es => es.all (fun e => e.1 == 7)
        | none => true) &&
       (if isNot a2 then (args (notArg a2)).length == (args a1).length
        else (args a2).length == (args (notArg a1)).length)
     | _ => true)
  | .congRule, cl, ps =>
    -- NOT implied by well-typedness: either all premises are first-order equalities (and both sides have the
    -- same number of arguments), or the goal is an equivalence between two formulas built by a connective
    -- (then premises may be equivalences).  Left out: an uninterpreted function applied to Boolean arguments
    -- that are rewritten by `<-->` premises.
    (match goalEq cl, destEqs (ps.map (·.prop)) with
     | some (_, l, r), some es =>
       (es.all (fun e => e.1 == 7) && (args l).length == (args r).length) ||
       (goalIsIff cl && isConnective l && isConnective r)
     | _, _ => true)
  | .iteSimplify, cl, _ => goalIsIff cl || (match goalEq cl with     -- an if-then-else at another type: a case that holds at every type
    | some (_, l, r) => compareIteEv l r || compareIteEv r l
    | none => true)
  | .connectiveDef, cl, _ => goalIsIff cl && (match goalEq cl with
    | some (_, l, _) => notFoEq l
    | none => true)
  | .equivSimplify, cl, _ => goalIsIff cl && (match goalEq cl with      -- … and so are the equivalences it rewrites:
    -- the left side always; the right side only where the rule takes it apart (`(¬c <--> ¬d) <--> (c <--> d)`: `c` is
    -- negated on the left, so it is a formula).  Elsewhere the right side is any formula, e.g. an equation `s = t`.
    | some (_, l, r) => notFoEq l && (match l with
      | mkIff (mkNot _) (mkNot _) => notFoEq r
      | _ => true)
    | none => true)
  | .notEquiv2, _, p :: _ => match p.prop with
    | mkNot (mkEq _ _) => false
    | _ => true
  | .equivNeg1, e :: _, _ => match e with
    | mkEq _ _ => false
    | _ => true
  | .laDisequality, [goal], _ => match stripDisj goal with   -- the compared terms are numbers: `equals` is not at type bool
    | mkIff _ _ :: _ => false
    | _ => true
  | .eqTransitive, cl, _ => match destNegEqs cl.dropLast with      -- the chained equalities are first-order
    | some es => es.all (fun e => e.1 == 7)
    | none => true
  | .eqCongruent, cl, _ =>        -- first-order premise equalities; both sides of the conclusion have the same number of arguments
    (match destNegEqs cl.dropLast with
     | some es => es.all (fun e => e.1 == 7)
     | none => true) &&
    (match cl.getLast? with
     | some goal => match destEq goal with
       | some (_, gl, gr) => (args gl).length == (args gr).length
       | none => true
     | none => true)
  | .transRule, _, ps => match destEqs (ps.map (·.prop)) with
    | some ((k0, l0, r0) :: rest) => k0 == 7 && transUsesEq (l0, r0) rest
    | _ => true
  | .laRwEq, [goal], _ => match goal with
    | mkIff (mkIff _ _) _ | mkEq (mkIff _ _) _ => false
    | _ => true
  | _, _, _ => true

-- ------------------------------------------------------------------ whole proofs (proof_rec, evaluation mode)

/-- a proof command: `assume` or a `step` whose premises are positions of earlier commands -/
inductive Cmd where
  | assume (t : Tm)
  | step (r : Rule) (cl : List Tm) (sizes : List Nat) (prems : List Nat)
  deriving Repr

/-- `to_pts`: look the premises up among the results so far -/
def lookupAll (acc : List Seq) : List Nat → Option (List Seq)
  | [] => some []
  | i :: is =>
    match acc[i]?, lookupAll acc is with
    | some p, some r => some (p :: r)
    | _, _ => none

/-- `ProofReconstruction.validate(is_eval=True)` restricted to tier-1 rules: `assume` gives
`A ⊢ A`; a step is `ProofTerm(macro_name, args, prevs)`, i.e. `eval`.  The `wellKinded` test is
not in the Python: it is true of every well-typed step and makes that assumption explicit. -/
def runProof : List Cmd → List Seq → Except Err (List Seq)
  | [], acc => .ok acc
  | .assume t :: rest, acc => runProof rest (acc ++ [⟨[t], t⟩])
  | .step r cl sizes prems :: rest, acc =>
    match lookupAll acc prems with
    | none => .error .index
    | some ps =>
      if !wellKinded r cl ps then .error .assertion else
      match evalRule r cl sizes ps with
      | .error e => .error e
      | .ok s => runProof rest (acc ++ [s])

/-- `validate(is_eval=True)` exactly as the Python runs it (no `wellKinded` test): this is what the
driver op `(proof …)` computes and what is compared with `proof_rec` -/
def runProofRaw : List Cmd → List Seq → Except Err (List Seq)
  | [], acc => .ok acc
  | .assume t :: rest, acc => runProofRaw rest (acc ++ [⟨[t], t⟩])
  | .step r cl sizes prems :: rest, acc =>
    match lookupAll acc prems with
    | none => .error .index
    | some ps =>
      match evalRule r cl sizes ps with
      | .error e => .error e
      | .ok s => runProofRaw rest (acc ++ [s])

/-- the formulas assumed by a proof -/
def assumptions : List Cmd → List Tm
  | [] => []
  | .assume t :: rest => t :: assumptions rest
  | .step .. :: rest => assumptions rest

end Holpy.C18
