import Holpy.C18.Sem
namespace Holpy.C18
open Tm
@[simp] theorem b2n_ne_zero (b : Bool) : (b2n b ≠ 0) ↔ b = true := by cases b <;> simp [b2n]
@[simp] theorem b2n_eq_zero (b : Bool) : (b2n b = 0) ↔ b = false := by cases b <;> simp [b2n]

@[simp] theorem tr_not (I) (a : Tm) : tr I (mkNot a) ↔ ¬ tr I a := by
  simp [tr, ev, evAcc, evApp]
@[simp] theorem tr_and (I) (a b : Tm) : tr I (mkAnd a b) ↔ tr I a ∧ tr I b := by
  simp [tr, ev, evAcc, evApp]
@[simp] theorem tr_or (I) (a b : Tm) : tr I (mkOr a b) ↔ tr I a ∨ tr I b := by
  simp [tr, ev, evAcc, evApp]; grind
@[simp] theorem tr_imp (I) (a b : Tm) : tr I (mkImp a b) ↔ (tr I a → tr I b) := by
  simp [tr, ev, evAcc, evApp]
@[simp] theorem tr_iff (I) (a b : Tm) : tr I (mkIff a b) ↔ (tr I a ↔ tr I b) := by
  simp [tr, ev, evAcc, evApp]; grind
@[simp] theorem tr_xor (I) (a b : Tm) : tr I (mkXor a b) ↔ ¬ (tr I a ↔ tr I b) := by
  simp [tr, ev, evAcc, evApp]; grind
@[simp] theorem tr_ite (I) (c a b : Tm) : tr I (mkIte c a b) ↔ ((tr I c → tr I a) ∧ (¬ tr I c → tr I b)) := by
  by_cases hc : evAcc I c [] = 0 <;> simp [tr, ev, evAcc, evApp, hc]
@[simp] theorem tr_tt (I) : tr I tt := by simp [tr, ev, evAcc, evApp]
@[simp] theorem tr_ff (I) : ¬ tr I ff := by simp [tr, ev, evAcc, evApp]
@[simp] theorem tr_eq (I) (a b : Tm) : tr I (mkEq a b) ↔ ev I a = ev I b := by
  simp [tr, ev, evAcc, evApp]
@[simp] theorem tr_le (I) (a b : Tm) : tr I (mkLe a b) ↔ I.le (ev I a) (ev I b) = true := by
  simp [tr, ev, evAcc, evApp]

theorem tr_mkOrs (I) (xs : List Tm) : tr I (mkOrs xs) ↔ ∃ x ∈ xs, tr I x := by
  induction xs with
  | nil => simp [mkOrs]
  | cons x xs ih =>
    cases xs with
    | nil => simp [mkOrs]
    | cons y ys => simp only [mkOrs, tr_or, ih]; simp

theorem tr_stripDisj (I) (t : Tm) : (∃ x ∈ stripDisj t, tr I x) ↔ tr I t := by
  fun_induction stripDisj t with
  | case1 a b ih => simp [← ih]
  | case2 t h => simp

theorem tr_stripConj (I) (t : Tm) : (∀ x ∈ stripConj t, tr I x) ↔ tr I t := by
  fun_induction stripConj t with
  | case1 a b ih => simp [← ih]
  | case2 t h => simp


theorem mem_stripDisj_tr (I) {g x : Tm} (h : g ∈ stripDisj x) (hg : tr I g) : tr I x :=
  (tr_stripDisj I x).1 ⟨g, h, hg⟩

theorem mem_stripConj_tr (I) {g x : Tm} (h : g ∈ stripConj x) (hx : tr I x) : tr I g :=
  (tr_stripConj I x).2 hx g h

theorem tr_def (I) (t : Tm) : tr I t = (ev I t ≠ 0) := rfl

attribute [grind =] tr_not tr_and tr_or tr_imp tr_iff tr_xor tr_ite tr_eq tr_le

/-- uniform proof script for a rule evaluator `f`: case-split the evaluator, substitute the
accepted shapes, unfold the semantics of the connectives, finish propositionally -/
macro "rule_sound" h:ident : tactic => `(tactic| (
  repeat' (split at $h:ident <;> try contradiction)
  all_goals (cases $h:ident)
  all_goals (simp only [Seq.holds, List.forall_mem_cons] at *)
  all_goals (try simp_all [tr_mkOrs])
  all_goals (try grind [tr_tt, tr_ff, tr_def])))

end Holpy.C18
