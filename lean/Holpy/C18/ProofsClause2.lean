import Holpy.C18.Proofs
namespace Holpy.C18
open Tm

theorem impliesRule_sound (I : Interp) (cl ps s) (h : impliesRule cl ps = .ok s) (hp : ∀ p ∈ ps, p.holds I) : s.holds I := by
  unfold impliesRule at h
  repeat' (split at h <;> try contradiction)
  cases h
  rename_i hc
  have hc' := beq_iff_eq.1 hc
  simp only [Seq.holds, List.forall_mem_cons] at *
  rw [← hc']
  simp_all
  grind

theorem notOr_sound (I : Interp) (cl ps s) (h : notOr cl ps = .ok s) (hp : ∀ p ∈ ps, p.holds I) : s.holds I := by
  unfold notOr at h
  repeat' (split at h <;> try contradiction)
  cases h
  simp_all [Seq.holds]
  grind [mem_stripDisj_tr]

theorem andFind_tr (I) (arg t : Tm) (h : andFind arg t = true) (ht : tr I t) : tr I arg := by
  fun_induction andFind arg t with
  | case1 a b ih => simp_all; grind
  | case2 t hne => simp at h

theorem andRule_sound (I : Interp) (cl ps s) (h : andRule cl ps = .ok s) (hp : ∀ p ∈ ps, p.holds I) : s.holds I := by
  unfold andRule at h
  repeat' (split at h <;> try contradiction)
  cases h
  simp_all [Seq.holds]
  grind [andFind_tr]

theorem stripDisjN_tr (I) (t : Tm) (n : Nat) (ds : List Tm) (h : stripDisjN t n = .ok ds) :
    tr I t ↔ ∃ x ∈ ds, tr I x := by
  fun_induction stripDisjN t n generalizing ds with
  | case1 t => cases h; simp
  | case2 a b n hn ih =>
    simp only [bind, Except.bind] at h
    split at h
    · contradiction
    · rename_i r hr
      cases h
      simp [ih r hr]
  | case3 t n h1 h2 => contradiction

theorem orRule_sound (I : Interp) (cl ps s) (h : orRule cl ps = .ok s) (hp : ∀ p ∈ ps, p.holds I) : s.holds I := by
  unfold orRule at h
  repeat' (split at h <;> try contradiction)
  cases h
  rename_i pt ds hds hc
  have := stripDisjN_tr I _ _ _ hds
  simp_all [Seq.holds, tr_mkOrs]

theorem mem_dedup (x : Tm) (xs acc : List Tm) : x ∈ dedup xs acc ↔ x ∈ xs ∨ x ∈ acc := by
  fun_induction dedup xs acc with
  | case1 acc => simp
  | case2 y ys acc hc ih => simp_all; grind
  | case3 y ys acc hc ih => simp_all; grind

theorem contraction_sound (I : Interp) (cl ps s) (h : contraction cl ps = .ok s) (hp : ∀ p ∈ ps, p.holds I) : s.holds I := by
  unfold contraction at h
  repeat' (split at h <;> try contradiction)
  cases h
  rename_i pt hc
  have hc' := beq_iff_eq.1 hc
  have h1 := tr_stripDisj I pt.prop
  simp only [Seq.holds, List.forall_mem_cons, tr_mkOrs] at *
  intro hh
  have h2 := h1.2 (hp.1 hh)
  obtain ⟨x, hx, hxt⟩ := h2
  exact ⟨x, by rw [← hc']; exact (mem_dedup x _ []).2 (Or.inl hx), hxt⟩

theorem allNegPairs_tr (I) (cs ds : List Tm) (h : allNegPairs cs ds = true) (hl : cs.length = ds.length) :
    (∃ d ∈ ds, tr I d) ↔ ¬ ∀ c ∈ cs, tr I c := by
  fun_induction allNegPairs cs ds with
  | case1 i is j js ih =>
    simp only [Bool.and_eq_true, beq_iff_eq] at h
    obtain ⟨h1, h2⟩ := h
    subst h1
    have := ih h2 (by simpa using hl)
    simp_all
    grind
  | case2 cs ds hne =>
    cases cs with
    | nil => cases ds with
      | nil => simp
      | cons d ds => simp at hl
    | cons c cs => cases ds with
      | nil => simp at hl
      | cons d ds => exact absurd rfl (fun h => hne c cs d ds h rfl)

theorem notAnd_sound (I : Interp) (cl ps s) (h : notAnd cl ps = .ok s) (hp : ∀ p ∈ ps, p.holds I) : s.holds I := by
  unfold notAnd at h
  dsimp only at h
  repeat' (split at h <;> try contradiction)
  cases h
  rename_i pt _ x hx hl hc
  have h1 := allNegPairs_tr I _ _ hc (by simpa using hl)
  have h2 := tr_stripDisj I (mkOrs cl)
  have h3 := tr_stripConj I x
  simp only [Seq.holds, List.forall_mem_cons] at *
  grind

theorem orNegFind_tr (I) (x d : Tm) (h : orNegFind x d = true) (hx : tr I x) : tr I d := by
  fun_induction orNegFind x d with
  | case1 a b ih => simp_all; grind
  | case2 t hne => simp at h

theorem orNeg_sound (I : Interp) (cl s) (h : orNeg cl = .ok s) : s.holds I := by
  unfold orNeg at h
  repeat' (split at h <;> try contradiction)
  cases h
  rename_i hc
  have := orNegFind_tr I _ _ hc
  simp_all [Seq.holds, mkOrs]
  grind

theorem orPos_sound (I : Interp) (cl s) (h : orPos cl = .ok s) : s.holds I := by
  unfold orPos at h
  repeat' (split at h <;> try contradiction)
  cases h
  rename_i d hc
  have hc' := beq_iff_eq.1 hc
  have := tr_stripDisj I d
  simp_all [Seq.holds, tr_mkOrs]
  grind

theorem andPos_sound (I : Interp) (cl s) (h : andPos cl = .ok s) : s.holds I := by
  unfold andPos at h
  dsimp only at h
  repeat' (split at h <;> try contradiction)
  all_goals cases h
  · simp_all [Seq.holds]
    grind [mem_stripConj_tr]
  · rename_i hc
    simp only [Seq.holds, mkOrs, List.all_eq_true, List.contains_iff_mem] at *
    intro _
    rw [tr_or, tr_not, ← tr_stripConj I (mkAnd _ _)]
    grind [mem_stripConj_tr]

theorem andNegExpected_tr (I) (last c : Tm) (h : ¬ tr I c) : ∃ r ∈ andNegExpected last c, tr I r := by
  fun_induction andNegExpected last c with
  | case1 a b hc => simp_all; grind
  | case2 a b hc ih => simp_all; grind
  | case3 t hne => simp_all

theorem andNeg_sound (I : Interp) (cl s) (h : andNeg cl = .ok s) : s.holds I := by
  unfold andNeg at h
  dsimp only at h
  repeat' (split at h <;> try contradiction)
  cases h
  rename_i c rest hc
  have hc' : rest = andNegExpected (rest.getLastD c) c := by simpa using hc
  have := andNegExpected_tr I (rest.getLastD c) c
  simp only [Seq.holds, tr_mkOrs]
  intro _
  by_cases hcc : tr I c
  · exact ⟨c, by simp, hcc⟩
  · obtain ⟨r, hr, hrt⟩ := this hcc
    exact ⟨r, List.mem_cons_of_mem _ (hc' ▸ hr), hrt⟩

end Holpy.C18
