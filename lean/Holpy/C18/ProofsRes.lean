import Holpy.C18.ProofsClause2
namespace Holpy.C18
open Tm

/-- truth of a literal `(atom, number of negations)` and of a clause of such literals -/
def litTr (I : Interp) (l : Lit) : Prop := tr I (litTerm l)
def clTr (I : Interp) (c : List Lit) : Prop := ∃ l ∈ c, litTr I l

theorem litTerm_stripNot (t : Tm) : litTerm (stripNot t) = t := by
  fun_induction stripNot t with
  | case1 a ih => simp only [litTerm, addNots] at *; rw [ih]
  | case2 t h => simp [litTerm, addNots]

theorem litTr_succ (I) (a : Tm) (n : Nat) : litTr I (a, n + 1) ↔ ¬ litTr I (a, n) := by
  simp [litTr, litTerm, addNots]

theorem mem_dedupLits (x : Lit) (xs acc : List Lit) : x ∈ dedupLits xs acc ↔ x ∈ xs ∨ x ∈ acc := by
  fun_induction dedupLits xs acc with
  | case1 acc => simp
  | case2 y ys acc hc ih => simp_all; grind
  | case3 y ys acc hc ih => simp_all; grind

theorem tryResolveJ_spec (ai : Tm) (ni : Nat) (p2 : List Lit) (l : Bool) (j : Nat)
    (h : tryResolveJ ai ni p2 = some (l, j)) :
    ∃ nj, p2[j]? = some (ai, nj) ∧ (l = true → ni + 1 = nj) ∧ (l = false → ni = nj + 1) := by
  fun_induction tryResolveJ ai ni p2 generalizing l j with
  | case1 => simp at h
  | case2 aj nj rest hc =>
    simp only [Option.some.injEq, Prod.mk.injEq] at h
    obtain ⟨rfl, rfl⟩ := h
    simp only [Bool.and_eq_true, beq_iff_eq] at hc
    exact ⟨nj, by simp [hc.1], fun _ => hc.2, fun h => by simp at h⟩
  | case3 aj nj rest hc1 hc =>
    simp only [Option.some.injEq, Prod.mk.injEq] at h
    obtain ⟨rfl, rfl⟩ := h
    simp only [Bool.and_eq_true, beq_iff_eq] at hc
    exact ⟨nj, by simp [hc.1], fun h => by simp at h, fun _ => hc.2⟩
  | case4 aj nj rest hc1 hc2 l' j' hr ih =>
    simp only [Option.some.injEq, Prod.mk.injEq] at h
    obtain ⟨rfl, rfl⟩ := h
    obtain ⟨n', h1, h2, h3⟩ := ih l' j' hr
    exact ⟨n', by simpa using h1, h2, h3⟩
  | case5 aj nj rest hc1 hc2 hr => simp at h

theorem tryResolve_spec (p1 p2 : List Lit) (l : Bool) (i j : Nat)
    (h : tryResolve p1 p2 = some (l, i, j)) :
    ∃ a n m, p1[i]? = some (a, n) ∧ p2[j]? = some (a, m) ∧ (l = true → n + 1 = m) ∧ (l = false → n = m + 1) := by
  fun_induction tryResolve p1 p2 generalizing l i j with
  | case1 => simp at h
  | case2 ai ni rest p2 l' j' hr =>
    simp only [Option.some.injEq, Prod.mk.injEq] at h
    obtain ⟨rfl, rfl, rfl⟩ := h
    obtain ⟨nj, h1, h2, h3⟩ := tryResolveJ_spec _ _ _ _ _ hr
    exact ⟨ai, ni, nj, by simp, h1, h2, h3⟩
  | case3 ai ni rest p2 hr l' i' j' hr2 ih =>
    simp only [Option.some.injEq, Prod.mk.injEq] at h
    obtain ⟨rfl, rfl, rfl⟩ := h
    obtain ⟨a, n, m, h1, h2, h3, h4⟩ := ih l' i' j' hr2
    exact ⟨a, n, m, by simpa using h1, h2, h3, h4⟩
  | case4 ai ni rest p2 hr hr2 => simp at h

theorem mem_removeAt (x : Lit) (xs : List Lit) (t : Nat) (hx : x ∈ xs) : x ∈ removeAt xs t ∨ xs[t]? = some x := by
  fun_induction removeAt xs t with
  | case1 => simp at hx
  | case2 y ys => simp at hx ⊢; grind
  | case3 y ys n ih => simp at hx ⊢; grind

theorem mem_foldl_add (x : Lit) (ys init : List Lit) :
    x ∈ ys.foldl (fun acc t => if acc.contains t then acc else acc ++ [t]) init ↔ x ∈ init ∨ x ∈ ys := by
  induction ys generalizing init with
  | nil => simp
  | cons y ys ih =>
    simp only [List.foldl_cons, ih]
    split <;> simp_all <;> grind

theorem mem_resolvent (x : Lit) (p1 p2 : List Lit) (t1 t2 : Nat) :
    x ∈ resolvent p1 p2 t1 t2 ↔ x ∈ removeAt p1 t1 ∨ x ∈ removeAt p2 t2 := by
  unfold resolvent
  exact mem_foldl_add x _ _

/-- one resolution step is sound: `p1[t1] = (a, n)`, `p2[t2] = (a, n + 1)` -/
theorem resolvent_sound (I) (p1 p2 : List Lit) (t1 t2 : Nat) (a : Tm) (n : Nat)
    (h1 : p1[t1]? = some (a, n)) (h2 : p2[t2]? = some (a, n + 1)) (c1 : clTr I p1) (c2 : clTr I p2) :
    clTr I (resolvent p1 p2 t1 t2) := by
  obtain ⟨l1, hl1, ht1⟩ := c1
  obtain ⟨l2, hl2, ht2⟩ := c2
  rcases mem_removeAt l1 p1 t1 hl1 with h | h
  · exact ⟨l1, (mem_resolvent _ _ _ _ _).2 (Or.inl h), ht1⟩
  · rcases mem_removeAt l2 p2 t2 hl2 with h' | h'
    · exact ⟨l2, (mem_resolvent _ _ _ _ _).2 (Or.inr h'), ht2⟩
    · rw [h1] at h; rw [h2] at h'
      cases h; cases h'
      exact absurd ht1 ((litTr_succ I a n).1 ht2)

theorem resolvent_sound' (I) (p1 p2 : List Lit) (t1 t2 : Nat) (a : Tm) (n : Nat)
    (h1 : p1[t1]? = some (a, n + 1)) (h2 : p2[t2]? = some (a, n)) (c1 : clTr I p1) (c2 : clTr I p2) :
    clTr I (resolvent p1 p2 t1 t2) := by
  obtain ⟨l1, hl1, ht1⟩ := c1
  obtain ⟨l2, hl2, ht2⟩ := c2
  rcases mem_removeAt l1 p1 t1 hl1 with h | h
  · exact ⟨l1, (mem_resolvent _ _ _ _ _).2 (Or.inl h), ht1⟩
  · rcases mem_removeAt l2 p2 t2 hl2 with h' | h'
    · exact ⟨l2, (mem_resolvent _ _ _ _ _).2 (Or.inr h'), ht2⟩
    · rw [h1] at h; rw [h2] at h'
      cases h; cases h'
      exact absurd ht2 ((litTr_succ I a n).1 ht1)

theorem findSecond_spec (c1 : List Lit) (rest : List (List Lit)) (d : Nat) (l : Bool) (t1 t2 : Nat)
    (h : findSecond c1 rest = some (d, l, t1, t2)) :
    ∃ c2, rest[d]? = some c2 ∧ tryResolve c1 c2 = some (l, t1, t2) := by
  fun_induction findSecond c1 rest generalizing d with
  | case1 => simp at h
  | case2 c2 rest l' t1' t2' hr =>
    simp only [Option.some.injEq, Prod.mk.injEq] at h
    obtain ⟨rfl, rfl, rfl, rfl⟩ := h
    exact ⟨c2, by simp, hr⟩
  | case3 c2 rest hr j r hr2 ih =>
    simp only [Option.some.injEq, Prod.mk.injEq] at h
    obtain ⟨rfl, rfl⟩ := h
    obtain ⟨c, h1, h2⟩ := ih j hr2
    exact ⟨c, by simpa using h1, h2⟩
  | case4 c2 rest hr hr2 => simp at h

theorem findPair_spec (rem : List (List Lit)) (i d : Nat) (l : Bool) (t1 t2 : Nat)
    (h : findPair rem = some (i, d, l, t1, t2)) :
    ∃ c1 c2, rem[i]? = some c1 ∧ rem[i + 1 + d]? = some c2 ∧ tryResolve c1 c2 = some (l, t1, t2) := by
  fun_induction findPair rem generalizing i with
  | case1 => simp at h
  | case2 c1 rest d' r hr =>
    simp only [Option.some.injEq, Prod.mk.injEq] at h
    obtain ⟨rfl, rfl, rfl⟩ := h
    obtain ⟨c2, h1, h2⟩ := findSecond_spec _ _ _ _ _ _ hr
    exact ⟨c1, c2, by simp, by simpa [Nat.add_comm] using h1, h2⟩
  | case3 c1 rest hr i' r hr2 ih =>
    simp only [Option.some.injEq, Prod.mk.injEq] at h
    obtain ⟨rfl, rfl⟩ := h
    obtain ⟨a, b, h1, h2, h3⟩ := ih i' hr2
    refine ⟨a, b, by simpa using h1, ?_, h3⟩
    have : i' + 1 + 1 + d = (i' + 1 + d) + 1 := by omega
    rw [this]; simpa using h2
  | case4 c1 rest hr hr2 => simp at h

/-- the loop keeps every remaining clause true -/
theorem resolveLoop_sound (I) (fuel : Nat) (rem : List (List Lit)) (h : ∀ c ∈ rem, clTr I c) :
    ∀ c ∈ resolveLoop fuel rem, clTr I c := by
  induction fuel generalizing rem with
  | zero => simpa [resolveLoop] using h
  | succ fuel ih =>
    unfold resolveLoop
    split
    · exact h
    · split
      · exact h
      · rename_i i d l t1 t2 hf
        dsimp only
        obtain ⟨c1, c2, h1, h2, h3⟩ := findPair_spec _ _ _ _ _ _ hf
        have hci : rem.getD i [] = c1 := by simp [List.getD, h1]
        have hcj : rem.getD (i + 1 + d) [] = c2 := by simp [List.getD, h2]
        rw [hci, hcj]
        obtain ⟨a, n, m, e1, e2, e3, e4⟩ := tryResolve_spec _ _ _ _ _ h3
        have hc1 : clTr I c1 := h c1 (List.mem_of_getElem? h1)
        have hc2 : clTr I c2 := h c2 (List.mem_of_getElem? h2)
        split
        · rename_i hl
          have hm := e3 hl
          subst hm
          apply ih
          intro c hc
          have hc' := List.mem_of_mem_eraseIdx hc
          rcases List.mem_or_eq_of_mem_set hc' with hc'' | rfl
          · exact h c hc''
          · exact resolvent_sound I c1 c2 t1 t2 a n e1 e2 hc1 hc2
        · rename_i hl
          have hm := e4 (by simpa using hl)
          subst hm
          apply ih
          intro c hc
          have hc' := List.mem_of_mem_eraseIdx hc
          rcases List.mem_or_eq_of_mem_set hc' with hc'' | rfl
          · exact h c hc''
          · exact resolvent_sound I c2 c1 t2 t1 a m e2 e1 hc2 hc1

theorem mem_dropRepeats (c : List Lit) (xs : List (List Lit)) (h : c ∈ dropRepeats xs) : c ∈ xs := by
  fun_induction dropRepeats xs with
  | case1 => simp at h
  | case2 x => exact h
  | case3 x y rest hxy ih =>
    simp only [List.mem_cons] at h ⊢
    rcases h with h | h
    · exact Or.inl h
    · exact Or.inr (by simpa using ih (List.mem_of_mem_tail h))
  | case4 x y rest hxy ih =>
    simp only [List.mem_cons] at h ⊢
    rcases h with h | h
    · exact Or.inl h
    · exact Or.inr (by simpa using ih h)

/-- `resolve_order`: if every premise clause has a true literal, so has the clause it returns -/
theorem resolveOrder_sound (I) (props : List (List Tm)) (concl : List Tm)
    (h : resolveOrder props = some concl) (hp : ∀ c ∈ props, ∃ t ∈ c, tr I t) : ∃ t ∈ concl, tr I t := by
  unfold resolveOrder at h
  dsimp only at h
  have hall : ∀ c ∈ props.map (fun c => dedupLits (c.map stripNot) []), clTr I c := by
    intro c hc
    obtain ⟨c0, hc0, rfl⟩ := List.mem_map.1 hc
    obtain ⟨t, ht, htt⟩ := hp c0 hc0
    exact ⟨stripNot t, (mem_dedupLits _ _ _).2 (Or.inl (List.mem_map_of_mem ht)), by simpa [litTr, litTerm_stripNot] using htt⟩
  have h2 := resolveLoop_sound I (props.map (fun c => dedupLits (c.map stripNot) [])).length _
    (fun c hc => hall c (mem_dropRepeats c _ hc))
  split at h
  · contradiction
  · rename_i c rest hrem
    cases h
    obtain ⟨l, hl, hlt⟩ := h2 c (by rw [hrem]; simp)
    exact ⟨litTerm l, List.mem_map_of_mem hl, hlt⟩

theorem stripAll_spec (I) (sizes : List Nat) (ps : List Seq) (prems : List (List Tm))
    (h : stripAll sizes ps = .ok prems) (hp : ∀ p ∈ ps, tr I p.prop) : ∀ c ∈ prems, ∃ t ∈ c, tr I t := by
  fun_induction stripAll sizes ps generalizing prems with
  | case1 n ns p ps ih =>
    simp only [bind, Except.bind] at h
    split at h
    · contradiction
    · rename_i c hc
      split at h
      · contradiction
      · rename_i r hr
        cases h
        intro c' hc'
        rcases List.mem_cons.1 hc' with rfl | hc'
        · exact (stripDisjN_tr I _ _ _ hc).1 (hp p (by simp))
        · exact ih r hr (fun q hq => hp q (by simp [hq])) c' hc'
  | case2 sizes ps hne => cases h; simp

theorem mem_unionHyps (ps : List Seq) (p : Seq) (hp : p ∈ ps) (x : Tm) (hx : x ∈ p.hyps) : x ∈ unionHyps ps := by
  unfold unionHyps
  exact (mem_dedup x _ []).2 (Or.inl (List.mem_flatMap.2 ⟨p, hp, hx⟩))

theorem resSpecial1_spec (ps cl) (h : resSpecial1 ps cl = true) : ∃ p, ps = [p] ∧ cl = [] ∧ p.prop = mkNot tt := by
  unfold resSpecial1 at h
  split at h
  · exact ⟨_, rfl, rfl, by simpa using h⟩
  · simp at h

theorem resSpecial2_sound (I) (ps cl) (h : resSpecial2 ps cl = true) (hp : ∀ p ∈ ps, tr I p.prop) : tr I (mkOrs cl) := by
  unfold resSpecial2 at h
  split at h
  · rename_i p0 p1 c
    have k0 := hp p0 (by simp)
    have k1 := hp p1 (by simp)
    split at h
    · rename_i a r heq
      simp only [Bool.and_eq_true, beq_iff_eq] at h
      obtain ⟨rfl, rfl⟩ := h
      rw [heq] at k1
      simp only [mkOrs]
      simp_all
    · rename_i a r heq
      simp only [Bool.and_eq_true, beq_iff_eq] at h
      obtain ⟨rfl, rfl⟩ := h
      rw [heq] at k1
      simp only [mkOrs]
      simp only [tr_eq] at k1
      have h3 : tr I (mkNot (mkNot p0.prop)) := by simpa using k0
      unfold tr at h3 ⊢
      rw [← k1]; exact h3
    · simp at h
  · simp at h

theorem resAccept_sound (I) (concl cl : List Tm) (h : resAccept concl cl = true) (hc : ∃ t ∈ concl, tr I t) :
    tr I (mkOrs cl) := by
  unfold resAccept at h
  obtain ⟨t, ht, htt⟩ := hc
  rcases Bool.or_eq_true_iff.1 h with h | h
  · simp only [tr_mkOrs]
    exact ⟨t, by simpa using (List.all_eq_true.1 h) t ht, htt⟩
  · split at h
    · rename_i c0 c
      simp only [List.mem_singleton] at ht
      subst ht
      simp only [beq_iff_eq] at h
      subst h
      simpa [mkOrs] using htt
    · simp at h

/-- verit_th_resolution / resolution -/
theorem thResolution_sound (I : Interp) (cl : List Tm) (sizes : List Nat) (ps : List Seq) (s : Seq)
    (h : thResolution cl sizes ps = .ok s) (hp : ∀ p ∈ ps, p.holds I) : s.holds I := by
  unfold thResolution at h
  dsimp only at h
  have key : (∀ x ∈ unionHyps ps, tr I x) → ∀ p ∈ ps, tr I p.prop :=
    fun hh p hpm => hp p hpm (fun x hx => hh x (mem_unionHyps ps p hpm x hx))
  split at h
  · contradiction
  split at h
  · cases h
    rename_i hs
    intro hh
    obtain ⟨p, rfl, rfl, hpp⟩ := resSpecial1_spec _ _ hs
    have := key hh p (by simp)
    rw [hpp] at this
    simp at this
  split at h
  · cases h
    rename_i hs
    exact fun hh => resSpecial2_sound I _ _ hs (key hh)
  split at h
  · contradiction
  rename_i prems hprems
  split at h
  · contradiction
  rename_i concl hconcl
  split at h
  · cases h
    rename_i hacc
    exact fun hh => resAccept_sound I _ _ hacc
      (resolveOrder_sound I prems concl hconcl (stripAll_spec I sizes ps prems hprems (key hh)))
  · contradiction

theorem thResolution_hyps (cl sizes ps s) (h : thResolution cl sizes ps = .ok s) : ∀ x ∈ s.hyps, ∃ p ∈ ps, x ∈ p.hyps := by
  have hu : ∀ x ∈ unionHyps ps, ∃ p ∈ ps, x ∈ p.hyps := by
    intro x hx
    unfold unionHyps at hx
    rcases (mem_dedup x _ []).1 hx with hx | hx
    · exact List.mem_flatMap.1 hx
    · simp at hx
  unfold thResolution at h
  dsimp only at h
  repeat' (split at h <;> try contradiction)
  all_goals (cases h; exact hu)

end Holpy.C18
