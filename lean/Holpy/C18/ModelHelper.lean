import Holpy.C18.Model
/-
C18 — the purely propositional helper macros of verit_macro.py (used inside the proof terms of other
rules, registered like every rule and with an `eval` of their own): `swap_disj_to_front`,
`combine_disj_clauses`, `imp_to_or`, `verit_conj_pts`, `verit_disj_pts` (the last two for the FIXED
code, fixes/C18-30: every premise is tested to be an equality).

Their Python arguments are not a clause; the encoding used by `evalRule` (and by the harness) is
  swap_disj_to_front   args = (l_args, idx)                  cl = l_args,                    sizes = [idx]
  combine_disj_clauses args = (l_args, r_args, goal_args)    cl = l_args ++ r_args ++ goal,  sizes = [|l_args|, |r_args|]
  imp_to_or            args = literals + [goal]              cl = args
  conj_pts / disj_pts  args unused                           cl = []
Import-free.
-/
namespace Holpy.C18
open Tm

/-- `swap_disj_to_front.eval` -/
def swapDisj (cl : List Tm) (sizes : List Nat) (ps : List Seq) : Except Err Seq :=
  match sizes with
  | [idx] =>
    if idx ≥ cl.length then .error .assertion else
    match ps with
    | pt :: _ =>
      match stripDisjN pt.prop cl.length with
      | .ok ds =>
        if ds != cl then .error .assertion
        else .ok ⟨pt.hyps, mkOrs ((cl.drop idx).take 1 ++ cl.take idx ++ cl.drop (idx + 1))⟩
      | .error e => .error e
    | [] => .error .index
  | _ => .error .unpack

/-- `strip_disj_n(t, len(xs)) != xs` raises -/
def stripIs (t : Tm) (xs : List Tm) : Bool :=
  match stripDisjN t xs.length with
  | .ok ds => ds == xs
  | .error _ => false

/-- the four-way test of `combine_disj_clauses.eval` that the premise decomposes into `l_args`, `r_args` -/
def combineChk (l r : List Tm) (p : Tm) : Bool :=
  if l.length == 0 && r.length == 0 then p == ff
  else if l.length == 0 then stripIs p r
  else if r.length == 0 then stripIs p l
  else match p with
    | mkOr t1 t2 => stripIs t1 l && stripIs t2 r
    | _ => false

/-- `combine_disj_clauses.eval`; `set(l_args + r_args) != set(goal_args)` raises -/
def combineDisj (cl : List Tm) (sizes : List Nat) (ps : List Seq) : Except Err Seq :=
  match sizes with
  | [nl, nr] =>
    match ps with
    | pt :: _ =>
      if combineChk (cl.take nl) ((cl.drop nl).take nr) pt.prop then
        if (cl.take nl ++ (cl.drop nl).take nr).all (cl.drop (nl + nr)).contains
            && (cl.drop (nl + nr)).all (cl.take nl ++ (cl.drop nl).take nr).contains
        then .ok ⟨pt.hyps, mkOrs (cl.drop (nl + nr))⟩
        else .error .assertion
      else .error .assertion
    | [] => .error .index
  | _ => .error .unpack

/-- the hypothesis a literal of `imp_to_or` discharges: `A` for `~A`, `~A` for a positive `A` -/
def discharge : Tm → Tm
  | mkNot x => x
  | a => mkNot a

/-- `imp_to_or.eval`: `Or(*args[:-1], pt.prop)` must be the goal `args[-1]`; only the hypotheses named
by the literals are discharged -/
def impToOr (cl : List Tm) (ps : List Seq) : Except Err Seq :=
  match ps, cl.getLast? with
  | pt :: _, some goal =>
    if mkOrs (cl.dropLast ++ [pt.prop]) == goal then
      .ok ⟨pt.hyps.filter (fun h => !((cl.dropLast).map discharge).contains h), mkOrs (cl.dropLast ++ [pt.prop])⟩
    else .error .assertion
  | _, _ => .error .index

/-- `verit_conj_pts.eval` / `verit_disj_pts.eval` (fixed: every premise is an equality):
`Eq(mk(lhs_1 … lhs_n), mk(rhs without repetitions))` under the union of the hypotheses.  `Eq(s, t)`
builds the equality at the type of `s`: bool for a conjunction / disjunction / `true` / `false`
(n ≠ 1), the type of the only premise's sides for n = 1. -/
def ptsRule (mk : List Tm → Tm) (ps : List Seq) : Except Err Seq :=
  match destEqs (ps.map (·.prop)) with
  | none => .error .verit
  | some es =>
    let lhs := mk (es.map (·.2.1))
    let rhs := mk (dedup (es.map (·.2.2)) [])
    match es with
    | [(7, _, _)] => .ok ⟨unionHyps ps, mkEq lhs rhs⟩
    | _ => .ok ⟨unionHyps ps, mkIff lhs rhs⟩

def conjPts (ps : List Seq) : Except Err Seq := ptsRule mkAnds ps
def disjPts (ps : List Seq) : Except Err Seq := ptsRule mkOrs ps

end Holpy.C18
