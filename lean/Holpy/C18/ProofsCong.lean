import Holpy.C18.ProofsEq
import Holpy.C18.ProofsRes
import Holpy.C18.ProofsSimp2
namespace Holpy.C18
open Tm

theorem ev_and (I : Interp) (a b : Tm) : ev I (mkAnd a b) = b2n (decide (ev I a ≠ 0 ∧ ev I b ≠ 0)) := by
  by_cases ha : evAcc I a [] = 0 <;> by_cases hb : evAcc I b [] = 0 <;> simp [ev, evAcc, evApp, ha, hb]
theorem ev_or (I : Interp) (a b : Tm) : ev I (mkOr a b) = b2n (decide (ev I a ≠ 0 ∨ ev I b ≠ 0)) := by
  by_cases ha : evAcc I a [] = 0 <;> by_cases hb : evAcc I b [] = 0 <;> simp [ev, evAcc, evApp, ha, hb]
theorem ev_iff (I : Interp) (a b : Tm) : ev I (mkIff a b) = b2n (decide (ev I a ≠ 0 ↔ ev I b ≠ 0)) := by
  by_cases ha : evAcc I a [] = 0 <;> by_cases hb : evAcc I b [] = 0 <;> simp [ev, evAcc, evApp, ha, hb]
theorem ev_eq (I : Interp) (a b : Tm) : ev I (mkEq a b) = b2n (decide (ev I a = ev I b)) := by
  simp only [ev, evAcc, evApp]; rfl

/-! ### the context identifies terms of equal value -/
section E
variable (I : Interp) (ctx : List (Tm × Tm)) (hctx : ∀ p ∈ ctx, ev I p.1 = ev I p.2)
include hctx

theorem inCtx_E (a b : Tm) (h : inCtx ctx a b = true) : ev I a = ev I b := by
  unfold inCtx at h
  simp only [Bool.or_eq_true, List.contains_iff_mem] at h
  rcases h with h | h
  · exact hctx _ h
  · exact (hctx _ h).symm

theorem h0_E (a b : Tm) (h : h0 ctx a b = true) : ev I a = ev I b := by
  unfold h0 at h
  simp only [Bool.or_eq_true, beq_iff_eq] at h
  rcases h with h | rfl
  · exact inCtx_E I ctx hctx a b h
  · rfl

theorem conjLoop_E (t1 t2 : Tm) (prog : Bool) (h : conjLoop ctx t1 t2 prog = true) : ev I t1 = ev I t2 := by
  fun_induction conjLoop ctx t1 t2 prog
  all_goals first
    | contradiction
    | exact h0_E I ctx hctx _ _ h
    | (rename_i ha hc ih
       rw [ev_and, ev_and, h0_E I ctx hctx _ _ ha, ih h])
    | (rename_i ha hc
       have e2 := hctx _ (List.contains_iff_mem.1 hc)
       simp only at e2
       rw [ev_and, ev_and, h0_E I ctx hctx _ _ ha, e2])

theorem disjLoop_E (t1 t2 : Tm) (prog : Bool) (h : disjLoop ctx t1 t2 prog = true) : ev I t1 = ev I t2 := by
  fun_induction disjLoop ctx t1 t2 prog
  all_goals first
    | contradiction
    | exact h0_E I ctx hctx _ _ h
    | (rename_i ha hc ih
       rw [ev_or, ev_or, h0_E I ctx hctx _ _ ha, ih h])
    | (rename_i ha hc
       have e2 := hctx _ (List.contains_iff_mem.1 hc)
       simp only at e2
       rw [ev_or, ev_or, h0_E I ctx hctx _ _ ha, e2])

theorem zipAll_E (xs ys : List Tm) (h : zipAll ctx xs ys = true) (hl : xs.length = ys.length) :
    xs.map (ev I) = ys.map (ev I) := by
  induction xs generalizing ys with
  | nil => cases ys with
    | nil => rfl
    | cons y ys => simp at hl
  | cons x xs ih =>
    cases ys with
    | nil => simp at hl
    | cons y ys =>
      simp only [zipAll, Bool.and_eq_true] at h
      simp only [List.map_cons, h0_E I ctx hctx _ _ h.1, List.cons.injEq, true_and]
      exact ih ys h.2 (by simpa using hl)

theorem cmpSym1_E (t1 t2 : Tm) (h : cmpSym1 ctx t1 t2 = true) (hl : (args t1).length = (args t2).length) :
    ev I t1 = ev I t2 := by
  unfold cmpSym1 at h
  split at h
  · rename_i hc; exact inCtx_E I ctx hctx _ _ hc
  split at h
  · exact congrArg _ (beq_iff_eq.1 h)
  split at h
  · split at h
    · contradiction
    rename_i hh
    simp only [Bool.not_eq_true', Bool.and_eq_false_iff, not_or, Bool.not_eq_false, beq_iff_eq] at hh
    split at h
    · rename_i k1 l1 r1 k2 l2 r2 hd1 hd2
      simp only [Bool.or_eq_true, Bool.and_eq_true] at h
      have hk : k1 = k2 := by
        rcases destEq_spec hd1 with ⟨rfl, rfl⟩ | ⟨rfl, rfl⟩ <;> rcases destEq_spec hd2 with ⟨rfl, rfl⟩ | ⟨rfl, rfl⟩ <;>
          simp [head] at hh <;> first | rfl | omega
      subst hk
      rcases destEq_spec hd1 with ⟨_, rfl⟩ | ⟨_, rfl⟩ <;> rcases destEq_spec hd2 with ⟨hk2, rfl⟩ | ⟨hk2, rfl⟩ <;>
        try omega
      · rcases h with ⟨a, b⟩ | ⟨a, b⟩
        · rw [ev_iff, ev_iff, h0_E I ctx hctx _ _ a, h0_E I ctx hctx _ _ b]
        · rw [ev_iff, ev_iff, h0_E I ctx hctx _ _ a, h0_E I ctx hctx _ _ b]
          congr 1; simp only [decide_eq_decide]; exact ⟨fun x => x.symm, fun x => x.symm⟩
      · rcases h with ⟨a, b⟩ | ⟨a, b⟩
        · rw [ev_eq, ev_eq, h0_E I ctx hctx _ _ a, h0_E I ctx hctx _ _ b]
        · rw [ev_eq, ev_eq, h0_E I ctx hctx _ _ a, h0_E I ctx hctx _ _ b]
          congr 1; simp only [decide_eq_decide]; exact ⟨fun x => x.symm, fun x => x.symm⟩
    · contradiction
    · split at h
      · exact conjLoop_E I ctx hctx _ _ _ h
      · exact disjLoop_E I ctx hctx _ _ _ h
      · exact ev_congr I t1 t2 hh.2 (zipAll_E I ctx hctx _ _ h hl)
  · exact congrArg _ (beq_iff_eq.1 h)

end E

/-! ### the context identifies formulas of equal truth value -/
section T
variable (I : Interp) (ctx : List (Tm × Tm)) (hctx : ∀ p ∈ ctx, (tr I p.1 ↔ tr I p.2))
include hctx

theorem inCtx_T (a b : Tm) (h : inCtx ctx a b = true) : tr I a ↔ tr I b := by
  unfold inCtx at h
  simp only [Bool.or_eq_true, List.contains_iff_mem] at h
  rcases h with h | h
  · exact hctx _ h
  · exact (hctx _ h).symm

theorem h0_T (a b : Tm) (h : h0 ctx a b = true) : tr I a ↔ tr I b := by
  unfold h0 at h
  simp only [Bool.or_eq_true, beq_iff_eq] at h
  rcases h with h | rfl
  · exact inCtx_T I ctx hctx a b h
  · rfl

theorem conjLoop_T (t1 t2 : Tm) (prog : Bool) (h : conjLoop ctx t1 t2 prog = true) : tr I t1 ↔ tr I t2 := by
  fun_induction conjLoop ctx t1 t2 prog
  all_goals first
    | contradiction
    | exact h0_T I ctx hctx _ _ h
    | (rename_i ha hc ih
       rw [tr_and, tr_and, h0_T I ctx hctx _ _ ha, ih h])
    | (rename_i ha hc
       have e2 := hctx _ (List.contains_iff_mem.1 hc)
       simp only at e2
       rw [tr_and, tr_and, h0_T I ctx hctx _ _ ha, e2])

theorem disjLoop_T (t1 t2 : Tm) (prog : Bool) (h : disjLoop ctx t1 t2 prog = true) : tr I t1 ↔ tr I t2 := by
  fun_induction disjLoop ctx t1 t2 prog
  all_goals first
    | contradiction
    | exact h0_T I ctx hctx _ _ h
    | (rename_i ha hc ih
       rw [tr_or, tr_or, h0_T I ctx hctx _ _ ha, ih h])
    | (rename_i ha hc
       have e2 := hctx _ (List.contains_iff_mem.1 hc)
       simp only at e2
       rw [tr_or, tr_or, h0_T I ctx hctx _ _ ha, e2])

/-- two formulas built by the same connective whose parts the context identifies have the same truth value -/
theorem cmpSym1_T (t1 t2 : Tm) (h : cmpSym1 ctx t1 t2 = true) (h1 : isConnective t1 = true)
    (h2 : isConnective t2 = true) : tr I t1 ↔ tr I t2 := by
  unfold cmpSym1 at h
  split at h
  · rename_i hc; exact inCtx_T I ctx hctx _ _ hc
  split at h
  · rw [beq_iff_eq.1 h]
  split at h
  · split at h
    · contradiction
    rename_i hh
    simp only [Bool.not_eq_true', Bool.and_eq_false_iff, not_or, Bool.not_eq_false, beq_iff_eq] at hh
    obtain ⟨_, hhead⟩ := hh
    unfold isConnective at h1 h2
    split at h1 <;> try contradiction
    all_goals (split at h2 <;> try contradiction)
    all_goals (simp only [head, Tm.const.injEq] at hhead)
    all_goals (try omega)
    all_goals (simp only [destEq, args, argsAux, zipAll, Bool.and_true, Bool.or_eq_true, Bool.and_eq_true] at h)
    · exact (by rw [tr_not, tr_not, h0_T I ctx hctx _ _ h])
    · exact conjLoop_T I ctx hctx _ _ _ h
    · exact disjLoop_T I ctx hctx _ _ _ h
    · rw [tr_imp, tr_imp, h0_T I ctx hctx _ _ h.1, h0_T I ctx hctx _ _ h.2]
    · rcases h with ⟨a, b⟩ | ⟨a, b⟩
      · rw [tr_iff, tr_iff, h0_T I ctx hctx _ _ a, h0_T I ctx hctx _ _ b]
      · rw [tr_iff, tr_iff, h0_T I ctx hctx _ _ a, h0_T I ctx hctx _ _ b]
        exact ⟨fun x => x.symm, fun x => x.symm⟩
    · rw [tr_xor, tr_xor, h0_T I ctx hctx _ _ h.1, h0_T I ctx hctx _ _ h.2]
  · rw [beq_iff_eq.1 h]

end T

theorem destEqs_ctx_E (I : Interp) (xs : List Tm) (es : List (Nat × Tm × Tm)) (h : destEqs xs = some es)
    (hk : ∀ e ∈ es, e.1 = 7) (hx : ∀ x ∈ xs, tr I x) :
    ∀ p ∈ es.flatMap (fun e => [(e.2.1, e.2.2), (e.2.2, e.2.1)]), ev I p.1 = ev I p.2 := by
  have := destEqs_hold I xs es h hx
  intro p hp
  obtain ⟨e, he, hpe⟩ := List.mem_flatMap.1 hp
  have hev := this e he (hk e he)
  simp only [List.mem_cons, List.mem_nil_iff, or_false] at hpe
  rcases hpe with rfl | rfl
  · exact hev
  · exact hev.symm

theorem destEqs_ctx_T (I : Interp) (xs : List Tm) (es : List (Nat × Tm × Tm)) (h : destEqs xs = some es)
    (hx : ∀ x ∈ xs, tr I x) :
    ∀ p ∈ es.flatMap (fun e => [(e.2.1, e.2.2), (e.2.2, e.2.1)]), (tr I p.1 ↔ tr I p.2) := by
  induction xs generalizing es with
  | nil => simp [destEqs] at h; subst h; simp
  | cons x xs ih =>
    unfold destEqs at h
    split at h <;> try contradiction
    rename_i d ds hd hds
    simp only [Option.some.injEq] at h; subst h
    intro p hp
    simp only [List.flatMap_cons, List.mem_append] at hp
    rcases hp with hp | hp
    · obtain ⟨k, a, b⟩ := d
      have hxt := hx x (by simp)
      have hab : tr I a ↔ tr I b := by
        rcases destEq_spec hd with ⟨_, rfl⟩ | ⟨_, rfl⟩
        · exact (tr_iff I a b).1 hxt
        · have := (tr_eq I a b).1 hxt
          rw [tr_def, tr_def, this]
      simp only [List.mem_cons, List.mem_nil_iff, or_false] at hp
      rcases hp with rfl | rfl
      · exact hab
      · exact hab.symm
    · exact ih ds hds (fun y hy => hx y (by simp [hy])) p hp

theorem congRule_sound (I : Interp) (cl ps s) (h : congRule cl ps = .ok s)
    (hk : wellKinded .congRule cl ps = true) (hp : ∀ p ∈ ps, p.holds I) : s.holds I := by
  unfold congRule at h
  split at h
  · contradiction
  rename_i g lhs rhs hg
  split at h
  · contradiction
  split at h
  · contradiction
  rename_i es hes
  dsimp only at h
  split at h <;> try contradiction
  rename_i hcmp
  cases h
  intro hh
  have hprops : ∀ x ∈ ps.map (·.prop), tr I x := by
    intro x hx
    obtain ⟨p, hpm, rfl⟩ := List.mem_map.1 hx
    exact hp p hpm (fun y hy => hh y (mem_unionHyps ps p hpm y hy))
  simp only [wellKinded, hg, hes, Bool.or_eq_true, Bool.and_eq_true, beq_iff_eq] at hk
  obtain ⟨rfl, hg2⟩ := goalEq_spec hg
  rcases hk with ⟨hk7, hlen⟩ | ⟨⟨hiff, hc1⟩, hc2⟩
  · have hctx := destEqs_ctx_E I _ es hes (fun e he => by simpa using (List.all_eq_true.1 hk7) e he) hprops
    have hev := cmpSym1_E I _ hctx lhs rhs hcmp hlen
    rcases hg2 with rfl | rfl
    · rw [tr_iff, tr_def, tr_def, hev]
    · rw [tr_eq, hev]
  · have hctx := destEqs_ctx_T I _ es hes hprops
    have ht := cmpSym1_T I _ hctx lhs rhs hcmp hc1 hc2
    rcases hg2 with rfl | rfl
    · exact (tr_iff I lhs rhs).2 ht
    · simp [goalIsIff] at hiff

theorem congRule_hyps (cl ps s) (h : congRule cl ps = .ok s) : ∀ x ∈ s.hyps, ∃ p ∈ ps, x ∈ p.hyps := by
  unfold congRule at h
  repeat' (split at h <;> try contradiction)
  dsimp only at h
  split at h <;> try contradiction
  cases h
  intro x hx
  unfold unionHyps at hx
  rcases (mem_dedup x _ []).1 hx with hx | hx
  · exact List.mem_flatMap.1 hx
  · simp at hx

end Holpy.C18
