import Holpy.C18.Proofs
namespace Holpy.C18
open Tm

theorem notImplies1_sound (I : Interp) (cl ps s) (h : notImplies1 cl ps = .ok s) (hp : ∀ p ∈ ps, p.holds I) : s.holds I := by
  unfold notImplies1 at h
  rule_sound h

theorem notImplies2_sound (I : Interp) (cl ps s) (h : notImplies2 cl ps = .ok s) (hp : ∀ p ∈ ps, p.holds I) : s.holds I := by
  unfold notImplies2 at h
  rule_sound h

theorem equiv1_sound (I : Interp) (cl ps s) (h : equiv1 cl ps = .ok s) (hp : ∀ p ∈ ps, p.holds I) : s.holds I := by
  unfold equiv1 at h
  rule_sound h

theorem equiv2_sound (I : Interp) (cl ps s) (h : equiv2 cl ps = .ok s) (hp : ∀ p ∈ ps, p.holds I) : s.holds I := by
  unfold equiv2 at h
  rule_sound h

theorem notEquiv1_sound (I : Interp) (cl ps s) (h : notEquiv1 cl ps = .ok s) (hp : ∀ p ∈ ps, p.holds I) : s.holds I := by
  unfold notEquiv1 at h
  rule_sound h

theorem ite1_sound (I : Interp) (cl ps s) (h : ite1 cl ps = .ok s) (hp : ∀ p ∈ ps, p.holds I) : s.holds I := by
  unfold ite1 at h
  rule_sound h

theorem ite2_sound (I : Interp) (cl ps s) (h : ite2 cl ps = .ok s) (hp : ∀ p ∈ ps, p.holds I) : s.holds I := by
  unfold ite2 at h
  rule_sound h

theorem notIte1_sound (I : Interp) (cl ps s) (h : notIte1 cl ps = .ok s) (hp : ∀ p ∈ ps, p.holds I) : s.holds I := by
  unfold notIte1 at h
  rule_sound h

theorem notIte2_sound (I : Interp) (cl ps s) (h : notIte2 cl ps = .ok s) (hp : ∀ p ∈ ps, p.holds I) : s.holds I := by
  unfold notIte2 at h
  rule_sound h

theorem notNot_sound (I : Interp) (cl s) (h : notNot cl = .ok s) : s.holds I := by
  unfold notNot at h
  rule_sound h

theorem impliesPos_sound (I : Interp) (cl s) (h : impliesPos cl = .ok s) : s.holds I := by
  unfold impliesPos at h
  rule_sound h

theorem impliesNeg1_sound (I : Interp) (cl s) (h : impliesNeg1 cl = .ok s) : s.holds I := by
  unfold impliesNeg1 at h
  rule_sound h

theorem impliesNeg2_sound (I : Interp) (cl s) (h : impliesNeg2 cl = .ok s) : s.holds I := by
  unfold impliesNeg2 at h
  rule_sound h

theorem equivPos1_sound (I : Interp) (cl s) (h : equivPos1 cl = .ok s) : s.holds I := by
  unfold equivPos1 at h
  rule_sound h

theorem equivPos2_sound (I : Interp) (cl s) (h : equivPos2 cl = .ok s) : s.holds I := by
  unfold equivPos2 at h
  rule_sound h

theorem equivNeg2_sound (I : Interp) (cl s) (h : equivNeg2 cl = .ok s) : s.holds I := by
  unfold equivNeg2 at h
  rule_sound h

theorem xorPos1_sound (I : Interp) (cl s) (h : xorPos1 cl = .ok s) : s.holds I := by
  unfold xorPos1 at h
  rule_sound h

theorem xorPos2_sound (I : Interp) (cl s) (h : xorPos2 cl = .ok s) : s.holds I := by
  unfold xorPos2 at h
  rule_sound h

theorem xorNeg1_sound (I : Interp) (cl s) (h : xorNeg1 cl = .ok s) : s.holds I := by
  unfold xorNeg1 at h
  rule_sound h

theorem xorNeg2_sound (I : Interp) (cl s) (h : xorNeg2 cl = .ok s) : s.holds I := by
  unfold xorNeg2 at h
  rule_sound h

theorem itePos1_sound (I : Interp) (cl s) (h : itePos1 cl = .ok s) : s.holds I := by
  unfold itePos1 at h
  rule_sound h

theorem itePos2_sound (I : Interp) (cl s) (h : itePos2 cl = .ok s) : s.holds I := by
  unfold itePos2 at h
  rule_sound h

theorem iteNeg1_sound (I : Interp) (cl s) (h : iteNeg1 cl = .ok s) : s.holds I := by
  unfold iteNeg1 at h
  rule_sound h

theorem iteNeg2_sound (I : Interp) (cl s) (h : iteNeg2 cl = .ok s) : s.holds I := by
  unfold iteNeg2 at h
  rule_sound h

theorem falseRule_sound (I : Interp) (cl s) (h : falseRule cl = .ok s) : s.holds I := by
  unfold falseRule at h
  rule_sound h

end Holpy.C18
