import Holpy.C18.ModelRules
/-
C18 — semantics of the term model (import-free, executable).

A first-order interpretation: every term is a head applied to arguments; the logical heads
(true, false, neg, conj, disj, implies, equals@bool, equals, IF, xor, less_eq with the right number
of arguments) have their meaning, every other head `h` with `n` arguments is an arbitrary function
`I.fn h : List Nat → Nat`.  Values are natural numbers; a formula is true when its value is not 0,
and the logical heads return 0 or 1.  `equals` at type bool compares truth values, `equals` at
another type compares values.  `less_eq` is an arbitrary relation `I.le` (the order axioms needed
are hypotheses of the la theorems).
-/
namespace Holpy.C18

structure Interp where
  fn : Tm → List Nat → Nat
  le : Nat → Nat → Bool

def b2n (b : Bool) : Nat := if b then 1 else 0

/-- the meaning of head `h` applied to argument values -/
def evApp (I : Interp) : Tm → List Nat → Nat
  | .const 0, [] => 1
  | .const 1, [] => 0
  | .const 2, [a] => b2n (decide (a = 0))
  | .const 3, [a, b] => b2n (decide (a ≠ 0 ∧ b ≠ 0))
  | .const 4, [a, b] => b2n (decide (a ≠ 0 ∨ b ≠ 0))
  | .const 5, [a, b] => b2n (decide (a ≠ 0 → b ≠ 0))
  | .const 6, [a, b] => b2n (decide (a ≠ 0 ↔ b ≠ 0))
  | .const 7, [a, b] => b2n (decide (a = b))
  | .const 8, [c, a, b] => if c ≠ 0 then a else b
  | .const 9, [a, b] => b2n (decide (¬ (a ≠ 0 ↔ b ≠ 0)))
  | .const 10, [a, b] => b2n (I.le a b)
  | h, vs => I.fn h vs

/-- value of `t` applied to already evaluated arguments `acc` -/
def evAcc (I : Interp) : Tm → List Nat → Nat
  | .comb f a, acc => evAcc I f (evAcc I a [] :: acc)
  | h, acc => evApp I h acc

def ev (I : Interp) (t : Tm) : Nat := evAcc I t []

/-- truth of a formula -/
def tr (I : Interp) (t : Tm) : Prop := ev I t ≠ 0

/-- a sequent holds: the hypotheses imply the proposition -/
def Seq.holds (I : Interp) (s : Seq) : Prop := (∀ h ∈ s.hyps, tr I h) → tr I s.prop

/-- what the arithmetic shape rules need of the relation interpreting `less_eq` -/
structure Interp.LeOrder (I : Interp) : Prop where
  refl : ∀ x, I.le x x = true
  antisymm : ∀ x y, I.le x y = true → I.le y x = true → x = y

end Holpy.C18
