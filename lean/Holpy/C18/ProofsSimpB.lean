import Holpy.C18.ProofsSimp
namespace Holpy.C18
open Tm

theorem impliesSimplify_sound (I : Interp) (cl s) (h : impliesSimplify cl = .ok s) (hk : goalIsIff cl = true) : s.holds I := by
  unfold impliesSimplify at h
  split at h
  · contradiction
  rename_i g lhs rhs hg
  have hgi := goal_iff hg hk
  subst hgi
  split at h <;> try contradiction
  dsimp only at h
  repeat' (split at h <;> try contradiction)
  all_goals (cases h)
  all_goals (simp_all [Seq.holds])
  all_goals (try grind [tr_tt, tr_ff])

theorem boolSimplify_sound (I : Interp) (cl s) (h : boolSimplify cl = .ok s) (hk : goalIsIff cl = true) : s.holds I := by
  unfold boolSimplify at h
  split at h
  · contradiction
  rename_i g lhs rhs hg
  have hgi := goal_iff hg hk
  subst hgi
  repeat' (split at h <;> try contradiction)
  all_goals (cases h)
  all_goals (simp_all [Seq.holds])
  all_goals (try grind [tr_tt, tr_ff])

theorem notFoEq_destEq {t : Tm} {k : Nat} {a b : Tm} (h : destEq t = some (k, a, b)) (hn : notFoEq t = true) :
    t = mkIff a b := by
  rcases goalEq_spec.destEq_spec' h with ⟨_, e⟩ | ⟨_, e⟩
  · exact e
  · subst e; simp [notFoEq] at hn

theorem equivSimplify_sound (I : Interp) (cl s) (h : equivSimplify cl = .ok s)
    (hk : wellKinded .equivSimplify cl [] = true) : s.holds I := by
  unfold equivSimplify at h
  split at h
  · contradiction
  rename_i g lhs rhs hg
  simp only [wellKinded, hg, Bool.and_eq_true] at hk
  obtain ⟨hk1, hk2, hk3⟩ := hk
  have hgi := goal_iff hg hk1
  subst hgi
  split at h
  · contradiction
  rename_i k a b hl
  have hle := notFoEq_destEq hl hk2
  subst hle
  split at h
  · rename_i hc1
    cases h
    unfold equivCase1 at hc1
    split at hc1
    · rename_i k' c d hr
      simp only [Bool.and_eq_true, beq_iff_eq] at hc1
      obtain ⟨rfl, rfl⟩ := hc1
      have hre := notFoEq_destEq hr (by simpa using hk3)
      subst hre
      intro _
      simp only [tr_iff, tr_not]
      grind
    · simp at hc1
  clear hk3
  repeat' (split at h <;> try contradiction)
  all_goals (cases h)
  all_goals (simp_all [Seq.holds])
  all_goals (try grind [tr_tt, tr_ff])

theorem notSimplify_hyps (cl s) (h : notSimplify cl = .ok s) : s.hyps = [] := by
  unfold notSimplify at h
  split at h
  · contradiction
  try dsimp only at h
  repeat' (split at h <;> try contradiction)
  all_goals (cases h; rfl)

theorem andSimplify_hyps (cl s) (h : andSimplify cl = .ok s) : s.hyps = [] := by
  unfold andSimplify at h
  split at h
  · contradiction
  try dsimp only at h
  repeat' (split at h <;> try contradiction)
  all_goals (cases h; rfl)

theorem orSimplify_hyps (cl s) (h : orSimplify cl = .ok s) : s.hyps = [] := by
  unfold orSimplify at h
  split at h
  · contradiction
  try dsimp only at h
  repeat' (split at h <;> try contradiction)
  all_goals (cases h; rfl)

theorem impliesSimplify_hyps (cl s) (h : impliesSimplify cl = .ok s) : s.hyps = [] := by
  unfold impliesSimplify at h
  split at h
  · contradiction
  try dsimp only at h
  repeat' (split at h <;> try contradiction)
  all_goals (cases h; rfl)

theorem equivSimplify_hyps (cl s) (h : equivSimplify cl = .ok s) : s.hyps = [] := by
  unfold equivSimplify at h
  split at h
  · contradiction
  try dsimp only at h
  repeat' (split at h <;> try contradiction)
  all_goals (cases h; rfl)

theorem boolSimplify_hyps (cl s) (h : boolSimplify cl = .ok s) : s.hyps = [] := by
  unfold boolSimplify at h
  split at h
  · contradiction
  try dsimp only at h
  repeat' (split at h <;> try contradiction)
  all_goals (cases h; rfl)

end Holpy.C18
