import Holpy.C18.ModelLA
import Mathlib.Tactic.Linarith
import Mathlib.Tactic.Ring
namespace Holpy.C18.LA

section generic
set_option linter.unusedSectionVars false
variable {α : Type} [CommRing α] [LinearOrder α] [IsStrictOrderedRing α]

theorem evalPs_addPair (ρ : Nat → α) (v : Nat) (c : α) (ps : List (Nat × α)) :
    evalPs ρ (addPair v c ps) = evalPs ρ ps + c * ρ v := by
  induction ps with
  | nil => simp [addPair, evalPs]
  | cons p ps ih =>
    obtain ⟨w, d⟩ := p
    simp only [addPair]
    split
    · rename_i h; subst h; simp only [evalPs]; ring
    · simp only [evalPs, ih]; ring

theorem evalPs_foldl (ρ : Nat → α) (ps acc : List (Nat × α)) :
    evalPs ρ (ps.foldl (fun acc p => addPair p.1 p.2 acc) acc) = evalPs ρ acc + evalPs ρ ps := by
  induction ps generalizing acc with
  | nil => simp [evalPs]
  | cons p ps ih =>
    obtain ⟨v, c⟩ := p
    simp only [List.foldl_cons, ih, evalPs_addPair, evalPs]; ring

theorem evalPs_filter (ρ : Nat → α) (ps : List (Nat × α)) :
    evalPs ρ (ps.filter (fun p => p.2 ≠ 0)) = evalPs ρ ps := by
  induction ps with
  | nil => rfl
  | cons p ps ih =>
    obtain ⟨v, c⟩ := p
    simp only [List.filter_cons]
    split
    · simp only [evalPs, ih]
    · rename_i h
      have hc : c = 0 := by simpa using h
      simp only [evalPs, ih, hc]; ring

theorem evalPs_collect (ρ : Nat → α) (ps : List (Nat × α)) : evalPs ρ (collect ps) = evalPs ρ ps := by
  unfold collect
  rw [evalPs_filter, evalPs_foldl]; simp [evalPs]

theorem evalPs_append (ρ : Nat → α) (a b : List (Nat × α)) : evalPs ρ (a ++ b) = evalPs ρ a + evalPs ρ b := by
  induction a with
  | nil => simp [evalPs]
  | cons p a ih => obtain ⟨v, c⟩ := p; simp only [List.cons_append, evalPs, ih]; ring

theorem evalPs_map_neg (ρ : Nat → α) (a : List (Nat × α)) : evalPs ρ (a.map fun p => (p.1, -p.2)) = - evalPs ρ a := by
  induction a with
  | nil => simp [evalPs]
  | cons p a ih => obtain ⟨v, c⟩ := p; simp only [List.map_cons, evalPs, ih]; ring

theorem evalPs_map_mul (ρ : Nat → α) (m : α) (a : List (Nat × α)) :
    evalPs ρ (a.map fun p => (p.1, m * p.2)) = m * evalPs ρ a := by
  induction a with
  | nil => simp [evalPs]
  | cons p a ih => obtain ⟨v, c⟩ := p; simp only [List.map_cons, evalPs, ih]; ring

def evalLinA (ρ : Nat → α) (a : LinA α) : α := a.const + evalPs ρ a.lps

theorem evalLinA_add (ρ : Nat → α) (a b : LinA α) : evalLinA ρ (laAdd a b) = evalLinA ρ a + evalLinA ρ b := by
  simp only [evalLinA, laAdd, mkLinA, evalPs_collect, evalPs_append]; ring
theorem evalLinA_neg (ρ : Nat → α) (a : LinA α) : evalLinA ρ (laNeg a) = - evalLinA ρ a := by
  simp only [evalLinA, laNeg, mkLinA, evalPs_collect, evalPs_map_neg]; ring
theorem evalLinA_sub (ρ : Nat → α) (a b : LinA α) : evalLinA ρ (laSub a b) = evalLinA ρ a - evalLinA ρ b := by
  simp only [laSub, evalLinA_add, evalLinA_neg]; ring
theorem evalLinA_scale (ρ : Nat → α) (m : α) (a : LinA α) : evalLinA ρ (laScale m a) = m * evalLinA ρ a := by
  simp only [evalLinA, laScale, mkLinA, evalPs_collect, evalPs_map_mul]; ring

theorem toLA_eval (ρ : Nat → α) (t : LTm α) (la : LinA α) (h : toLA t = some la) : evalLinA ρ la = evalT ρ t := by
  induction t generalizing la with
  | num q => simp only [toLA, Option.some.injEq] at h; subst h; simp [evalLinA, mkLinA, collect, evalPs, evalT]
  | atom n =>
    simp only [toLA, Option.some.injEq] at h; subst h
    simp only [evalLinA, mkLinA, evalPs_collect, evalPs, evalT]; ring
  | add a b iha ihb =>
    simp only [toLA] at h
    split at h <;> try contradiction
    rename_i x y hx hy
    simp only [Option.some.injEq] at h; subst h
    simp only [evalLinA_add, iha x hx, ihb y hy, evalT]
  | sub a b iha ihb =>
    simp only [toLA] at h
    split at h <;> try contradiction
    rename_i x y hx hy
    simp only [Option.some.injEq] at h; subst h
    simp only [evalLinA_sub, iha x hx, ihb y hy, evalT]
  | neg a iha =>
    simp only [toLA] at h
    split at h <;> try contradiction
    rename_i x hx
    simp only [Option.some.injEq] at h; subst h
    simp only [evalLinA_neg, iha x hx, evalT]
  | mul c a iha =>
    simp only [toLA] at h
    split at h <;> try contradiction
    rename_i x hx
    simp only [Option.some.injEq] at h; subst h
    simp only [evalLinA_scale, iha x hx, evalT]
  | badMul a _ => simp [toLA] at h

/-- steps 1 and 2: the row is the negation of the literal -/
theorem rowOf_sound (ρ : Nat → α) (l : Lit α) (r : Row α) (h : rowOf l = some r) (hl : ¬ litTrue ρ l) : rowHolds ρ r := by
  unfold rowOf at h
  split at h <;> try contradiction
  rename_i k L R hs
  split at h <;> try contradiction
  rename_i la hla
  simp only [Option.some.injEq] at h; subst h
  have he := toLA_eval ρ _ _ hla
  simp only [evalT, evalLinA] at he
  unfold step1 at hs
  unfold litTrue at hl
  unfold rowHolds
  split at hs
  · rename_i hn
    simp only [hn, if_true, not_not] at hl
    split at hs <;> simp only [Option.some.injEq, Prod.mk.injEq, reduceCtorEq] at hs
    all_goals (obtain ⟨rfl, rfl, rfl⟩ := hs)
    all_goals (rename_i hr; simp only [hr, relHolds] at hl; simp only; linarith)
  · rename_i hn
    simp only [hn] at hl
    split at hs <;> simp only [Option.some.injEq, Prod.mk.injEq, reduceCtorEq] at hs
    all_goals (obtain ⟨rfl, rfl, rfl⟩ := hs)
    all_goals (rename_i hr; simp only [hr, relHolds, Bool.false_eq_true, if_false, not_lt, not_le] at hl; simp only; linarith)

theorem rowsOf_sound (ρ : Nat → α) (ls : List (Lit α)) (rs : List (Row α)) (h : rowsOf ls = some rs)
    (hl : ∀ l ∈ ls, ¬ litTrue ρ l) : ∀ r ∈ rs, rowHolds ρ r := by
  induction ls generalizing rs with
  | nil => simp only [rowsOf, Option.some.injEq] at h; subst h; simp
  | cons l ls ih =>
    simp only [rowsOf] at h
    split at h <;> try contradiction
    rename_i r rs' hr hrs
    simp only [Option.some.injEq] at h; subst h
    intro x hx
    rcases List.mem_cons.1 hx with rfl | hx
    · exact rowOf_sound ρ l _ hr (hl l (by simp))
    · exact ih rs' hrs (fun l' hl' => hl l' (by simp [hl'])) x hx

theorem rowsOf_length (ls : List (Lit α)) (rs : List (Row α)) (h : rowsOf ls = some rs) : rs.length = ls.length := by
  induction ls generalizing rs with
  | nil => simp only [rowsOf, Option.some.injEq] at h; subst h; rfl
  | cons l ls ih =>
    simp only [rowsOf] at h
    split at h <;> try contradiction
    rename_i r rs' hr hrs
    simp only [Option.some.injEq] at h; subst h
    simp [ih rs' hrs]

/-- a single literal: accepted only if its negation is false -/
theorem single_sound (ρ : Nat → α) (r : Row α) (h : single r = true) : ¬ rowHolds ρ r := by
  unfold single at h
  split at h
  · simp at h
  · rename_i hl
    unfold rowHolds
    split at h <;> rename_i hk <;> simp only [hk, hl, evalPs] <;> simp at h
    · exact h
    · exact not_lt.2 h
    · exact not_le.2 h

/-- sum of the left sides of a list of rows -/
def sumLhs (ρ : Nat → α) : List (Row α) → α
  | [] => 0
  | r :: rs => evalPs ρ r.lps + sumLhs ρ rs

theorem evalPs_flatMap (ρ : Nat → α) (rs : List (Row α)) : evalPs ρ (rs.flatMap (·.lps)) = sumLhs ρ rs := by
  induction rs with
  | nil => simp [evalPs, sumLhs]
  | cons r rs ih => simp only [List.flatMap_cons, evalPs_append, ih, sumLhs]

theorem absA_pos (c : α) (hc : c ≠ 0) : 0 < absA c := by
  unfold absA
  split
  · linarith
  · rename_i h; exact lt_of_le_of_ne (not_lt.1 h) (Ne.symm hc)

/-- step 3 keeps the truth of the rows -/
theorem scaleRows_sound (ρ : Nat → α) (cs : List α) (rs : List (Row α)) (h : ∀ r ∈ rs, rowHolds ρ r) :
    ∀ r ∈ scaleRows cs rs, rowHolds ρ r := by
  induction cs generalizing rs with
  | nil => simp [scaleRows]
  | cons c cs ih =>
    cases rs with
    | nil => simp [scaleRows]
    | cons r rs =>
      simp only [scaleRows]
      have hr := h r (by simp)
      have hrest := ih rs (fun x hx => h x (by simp [hx]))
      split
      · exact hrest
      · rename_i hc
        intro x hx
        rcases List.mem_cons.1 hx with rfl | hx
        · have hs : evalPs ρ (laScale (if r.kind = Kind.eq then c else absA c) ⟨0, r.lps⟩).lps
              = (if r.kind = Kind.eq then c else absA c) * evalPs ρ r.lps := by
            have := evalLinA_scale ρ (if r.kind = Kind.eq then c else absA c) ⟨0, r.lps⟩
            simp only [evalLinA, laScale, mkLinA, mul_zero, zero_add] at this ⊢
            exact this
          have hmpos : r.kind ≠ Kind.eq → 0 < (if r.kind = Kind.eq then c else absA c) := fun hne => by
            rw [if_neg hne]; exact absA_pos c hc
          unfold rowHolds at hr ⊢
          dsimp only
          rw [hs]
          cases hk : r.kind <;> simp only [hk] at hr hmpos ⊢
          · rw [hr]
          · exact mul_lt_mul_of_pos_left hr (hmpos (by simp))
          · exact mul_le_mul_of_nonneg_left hr (le_of_lt (hmpos (by simp)))
        · exact hrest x hx

/-- adding up true rows -/
theorem sum_rows (ρ : Nat → α) (rs : List (Row α)) (h : ∀ r ∈ rs, rowHolds ρ r) :
    sumRhs rs ≤ sumLhs ρ rs ∧
    ((∀ r ∈ rs, r.kind = .eq) → sumLhs ρ rs = sumRhs rs) ∧
    ((∃ r ∈ rs, r.kind = .gt) → sumRhs rs < sumLhs ρ rs) := by
  induction rs with
  | nil => simp [sumRhs, sumLhs]
  | cons r rs ih =>
    have hr := h r (by simp)
    obtain ⟨i1, i2, i3⟩ := ih (fun x hx => h x (by simp [hx]))
    unfold rowHolds at hr
    simp only [sumRhs, sumLhs]
    refine ⟨?_, ?_, ?_⟩
    · cases hk : r.kind <;> simp only [hk] at hr <;> linarith
    · intro ha
      have h1 := ha r (by simp)
      simp only [h1] at hr
      rw [hr, i2 (fun x hx => ha x (by simp [hx]))]
    · rintro ⟨x, hx, hg⟩
      rcases List.mem_cons.1 hx with rfl | hx
      · simp only [hg] at hr; linarith
      · have := i3 ⟨x, hx, hg⟩
        cases hk : r.kind <;> simp only [hk] at hr <;> linarith

/-- steps 3 and 4: an accepted combination refutes the conjunction of the rows -/
theorem combine_sound (ρ : Nat → α) (cs : List α) (rows : List (Row α)) (h : combine cs rows = true) :
    ¬ ∀ r ∈ rows, rowHolds ρ r := by
  intro hall
  unfold combine at h
  split at h
  · simp at h
  dsimp only at h
  have hs := scaleRows_sound ρ cs rows hall
  split at h
  · simp at h
  obtain ⟨s1, s2, s3⟩ := sum_rows ρ _ hs
  split at h
  · simp at h
  rename_i hemp
  have hz : sumLhs ρ (scaleRows cs rows) = 0 := by
    rw [← evalPs_flatMap, ← evalPs_collect]
    have : collect ((scaleRows cs rows).flatMap (·.lps)) = [] := by
      simpa [List.isEmpty_iff] using hemp
    rw [this]; rfl
  rw [hz] at s1 s2 s3
  split at h
  · rename_i ha
    have := s2 (by simpa using ha)
    simp at h
    exact h this.symm
  · split at h
    · simp at h; linarith
    · rename_i hb
      have hb' : ∃ r ∈ scaleRows cs rows, ¬ (r.kind = Kind.eq ∨ r.kind = Kind.ge) := by simpa using hb
      obtain ⟨r, hr, hk⟩ := hb'
      have := s3 ⟨r, hr, by cases hh : r.kind <;> simp_all⟩
      simp at h; linarith

end generic

/-- la_generic / la_tautology at sort real: an accepted clause has a true literal under every
valuation of its atoms by rational numbers (so it is valid in every ordered field extension) -/
theorem laGenericQ_sound (lits : List (Lit ℚ)) (coeffs : List ℚ) (h : laGenericQ lits coeffs = true)
    (ρ : Nat → ℚ) : ∃ l ∈ lits, litTrue ρ l := by
  by_contra hno
  have hl : ∀ l ∈ lits, ¬ litTrue ρ l := fun l hl ht => hno ⟨l, hl, ht⟩
  unfold laGenericQ at h
  split at h
  · simp at h
  split at h
  · simp at h
  rename_i rows hrows
  have hr := rowsOf_sound ρ _ rows hrows hl
  split at h
  · rename_i r
    exact single_sound ρ r h (hr r (by simp))
  · exact combine_sound ρ coeffs rows h hr

/-! ### integers -/

theorem intStrict_sound (ρ : Nat → ℤ) (r : Row ℤ) (h : rowHolds ρ r) : rowHolds ρ (intStrict r) := by
  unfold intStrict
  split
  · rename_i hk
    unfold rowHolds at h ⊢
    simp only [hk] at h
    dsimp only
    omega
  · exact h

theorem gcdL_dvd (ρ : Nat → ℤ) (ps : List (Nat × ℤ)) : ((gcdL ps : Nat) : ℤ) ∣ evalPs ρ ps := by
  induction ps with
  | nil => simp [evalPs]
  | cons p ps ih =>
    obtain ⟨v, c⟩ := p
    simp only [gcdL, evalPs]
    apply Int.dvd_add
    · apply Dvd.dvd.mul_right
      have : ((Nat.gcd c.natAbs (gcdL ps) : Nat) : ℤ) ∣ (c.natAbs : ℤ) := by
        exact_mod_cast Nat.gcd_dvd_left _ _
      exact this.trans (Int.natAbs_dvd.2 (dvd_refl c))
    · have : ((Nat.gcd c.natAbs (gcdL ps) : Nat) : ℤ) ∣ ((gcdL ps : Nat) : ℤ) := by
        exact_mod_cast Nat.gcd_dvd_right _ _
      exact this.trans ih

/-- `0 ≤ k ∣ x`, `c ≤ x`, and `k` does not divide `c`: then `k * (c / k + 1) ≤ x` -/
theorem round_core (k x c : ℤ) (hk0 : 0 ≤ k) (hk : k ∣ x) (hc : c ≤ x) (hm : c % k ≠ 0) : k * (c / k + 1) ≤ x := by
  obtain ⟨y, rfl⟩ := hk
  rcases eq_or_lt_of_le hk0 with hz | hpos
  · subst hz; simp
  · have hne : k ≠ 0 := ne_of_gt hpos
    have h1 := Int.emod_nonneg c hne
    have h2 := Int.emod_lt_of_pos c hpos
    have h3 := Int.mul_ediv_add_emod c k
    have hlt : k * (c / k) < k * y := by omega
    have h4 : c / k < y := lt_of_mul_lt_mul_left hlt (le_of_lt hpos)
    have h5 : c / k + 1 ≤ y := by omega
    exact Int.mul_le_mul_of_nonneg_left h5 (le_of_lt hpos)

theorem roundRow_sound (ρ : Nat → ℤ) (r : Row ℤ) (h : rowHolds ρ r) : rowHolds ρ (roundRow r) := by
  unfold roundRow
  split
  · exact h
  · split
    · exact h
    · dsimp only
      split
      · rename_i hm
        have hd := gcdL_dvd ρ r.lps
        unfold rowHolds at h ⊢
        dsimp only
        cases hk : r.kind <;> simp only [hk] at h
        · rename_i hne; exact absurd hk hne
        · exact round_core _ _ _ (Int.natCast_nonneg _) hd (le_of_lt h) hm
        · exact round_core _ _ _ (Int.natCast_nonneg _) hd h hm
      · exact h

/-- la_generic / la_tautology at sort int: an accepted clause has a true literal under every
valuation of its atoms by integers (with the strict-to-non-strict step and the rounding step) -/
theorem laGenericZ_sound (lits : List (Lit ℤ)) (coeffs : List ℤ) (h : laGenericZ lits coeffs = true)
    (ρ : Nat → ℤ) : ∃ l ∈ lits, litTrue ρ l := by
  by_contra hno
  have hl : ∀ l ∈ lits, ¬ litTrue ρ l := fun l hl ht => hno ⟨l, hl, ht⟩
  unfold laGenericZ at h
  split at h
  · simp at h
  split at h
  · simp at h
  rename_i rows hrows
  have hr := rowsOf_sound ρ _ rows hrows hl
  have hr1 : ∀ r ∈ rows.map intStrict, rowHolds ρ r := by
    intro r hr'
    obtain ⟨r0, h0, rfl⟩ := List.mem_map.1 hr'
    exact intStrict_sound ρ r0 (hr r0 h0)
  dsimp only at h
  split at h
  · rename_i r heq
    exact single_sound ρ r h (hr1 r (by rw [heq]; simp))
  · refine combine_sound ρ coeffs _ h ?_
    intro r hr'
    obtain ⟨r0, h0, rfl⟩ := List.mem_map.1 hr'
    exact roundRow_sound ρ r0 (hr1 r0 h0)

end Holpy.C18.LA
