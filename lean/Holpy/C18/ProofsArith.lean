import Holpy.C18.ModelArith
import Mathlib.Tactic.Linarith
import Mathlib.Tactic.Ring
namespace Holpy.C18.Arith

section generic
set_option linter.unusedSectionVars false
variable {α : Type} [CommRing α] [LinearOrder α] [IsStrictOrderedRing α] [Div α]
-- division by zero is zero (holpy: `real_divide x 0 = 0`; true of `ℚ` and of `Int.ediv`)
variable (hd0 : ∀ x : α, x / (0 : α) = 0)
include hd0

/-- the value computed for a constant term is its value under every valuation -/
theorem evalC_sound (ρ : Nat → α) (t : ATm α) (x : α) (h : evalC t = some x) : evalA ρ t = x := by
  induction t generalizing x with
  | lit n => simp only [evalC, Option.some.injEq] at h; simp [evalA, h]
  | atom k => simp [evalC] at h
  | add a b iha ihb =>
    simp only [evalC] at h
    split at h <;> try contradiction
    rename_i u v hu hv
    simp only [Option.some.injEq] at h; subst h
    simp [evalA, iha u hu, ihb v hv]
  | sub a b iha ihb =>
    simp only [evalC] at h
    split at h <;> try contradiction
    rename_i u v hu hv
    simp only [Option.some.injEq] at h; subst h
    simp [evalA, iha u hu, ihb v hv]
  | neg a iha =>
    simp only [evalC] at h
    split at h <;> try contradiction
    rename_i u hu
    simp only [Option.some.injEq] at h; subst h
    simp [evalA, iha u hu]
  | mul a b iha ihb =>
    simp only [evalC] at h
    split at h <;> try contradiction
    rename_i u v hu hv
    simp only [Option.some.injEq] at h; subst h
    simp [evalA, iha u hu, ihb v hv]
  | div a b iha ihb =>
    simp only [evalC] at h
    split at h
    · rename_i h10
      obtain ⟨rfl, rfl⟩ := h10
      simp only [Option.some.injEq] at h; subst h
      simp [evalA, hd0]
    split at h <;> try contradiction
    rename_i u v hu hv
    split at h <;> try contradiction
    simp only [Option.some.injEq] at h; subst h
    simp [evalA, iha u hu, ihb v hv]

/-- verit_comp_simplify: the accepted equivalence `(t1 cmp t2) <--> rhs` holds under every valuation -/
theorem compSimplify_sound (ρ : Nat → α) (c : Cmp) (t1 t2 : ATm α) (rhs : CRhs α)
    (h : compSimplify c t1 t2 rhs = true) : cmpHolds c (evalA ρ t1) (evalA ρ t2) ↔ rhsHolds ρ rhs := by
  unfold compSimplify at h
  dsimp only at h
  split at h
  · -- the constant case decides
    rename_i b hb
    subst h
    split at hb
    · split at hb
      · rename_i n1 n2 h1 h2
        have e1 := evalC_sound hd0 ρ t1 n1 h1
        have e2 := evalC_sound hd0 ρ t2 n2 h2
        rw [e1, e2]
        split at hb <;> try (simp at hb)
        · split at hb <;> simp at hb <;> simp [cmpHolds, rhsHolds, hb]
        · split at hb <;> simp at hb <;> simp [cmpHolds, rhsHolds, hb]
      · simp at hb
    · simp at hb
  · split at h <;> try (simp at h)
    · subst h; simp [cmpHolds, rhsHolds]
    · subst h; simp [cmpHolds, rhsHolds]
    · obtain ⟨rfl, rfl⟩ := h; simp [cmpHolds, rhsHolds]
    · obtain ⟨rfl, rfl⟩ := h; simp [cmpHolds, rhsHolds]
    · obtain ⟨rfl, rfl⟩ := h; simp [cmpHolds, rhsHolds]

theorem minusCompare_sound (ρ : Nat → α) (l r : ATm α) (h : minusCompare l r = true) : evalA ρ l = evalA ρ r := by
  unfold minusCompare at h
  simp only [Bool.or_eq_true] at h
  rcases h with ((h | h) | h) | h
  · split at h <;> simp at h
    subst h; simp [evalA]
  · split at h <;> simp at h
    subst h; simp [evalA]
  · split at h <;> simp at h
    subst h; simp [evalA]
  · split at h <;> simp at h
    subst h; simp [evalA]

/-- verit_minus_simplify: the accepted equation holds under every valuation -/
theorem minusSimplify_sound (ρ : Nat → α) (l r : ATm α) (h : minusSimplify l r = true) : evalA ρ l = evalA ρ r := by
  unfold minusSimplify at h
  split at h
  · split at h <;> simp at h
    rename_i x y hx hy
    rw [evalC_sound hd0 ρ l x hx, evalC_sound hd0 ρ r y hy, h]
  · simp only [Bool.or_eq_true] at h
    rcases h with h | h
    · exact minusCompare_sound hd0 ρ l r h
    · exact (minusCompare_sound hd0 ρ r l h).symm

/-- verit_unary_minus_simplify: the accepted equation holds under every valuation -/
theorem unaryMinusSimplify_sound (ρ : Nat → α) (l r : ATm α) (h : unaryMinusSimplify l r = true) :
    evalA ρ l = evalA ρ r := by
  have constCase : ∀ (l r : ATm α), (match evalC l, (if isConst r then evalC r else none) with
      | some a, some b => decide (a = b)
      | _, _ => false) = true → evalA ρ l = evalA ρ r := by
    intro l r hc
    split at hc <;> simp at hc
    rename_i a b ha hb
    have hb' : evalC r = some b := by
      split at hb
      · exact hb
      · simp at hb
    rw [evalC_sound hd0 ρ l a ha, evalC_sound hd0 ρ r b hb', hc]
  unfold unaryMinusSimplify at h
  split at h
  case h_2 => simp at h
  rename_i inner
  split at h
  · rename_i x
    split at h
    · simp at h; subst h; simp [evalA]
    · exact constCase _ _ h
  · split at h
    · exact constCase _ _ h
    · simp at h

/-- verit_eq_simplify: the accepted equivalence holds under every valuation (`neg`: the left side is `~(a = b)`) -/
theorem eqSimplify_sound (ρ : Nat → α) (neg : Bool) (a b : ATm α) (rhs : ERhs) (h : eqSimplify neg a b rhs = true) :
    (if neg then ¬ evalA ρ a = evalA ρ b else evalA ρ a = evalA ρ b) ↔ rhs = .tt := by
  unfold eqSimplify at h
  split at h
  · rename_i hn
    simp only [Bool.and_eq_true, decide_eq_true_eq] at h
    obtain ⟨rfl, rfl⟩ := h
    simp [hn]
  · rename_i hn
    simp only [Bool.or_eq_true, Bool.and_eq_true, decide_eq_true_eq] at h
    rcases h with ⟨rfl, rfl⟩ | ⟨⟨⟨_, _⟩, rfl⟩, h4⟩
    · simp [hn]
    · split at h4 <;> simp at h4
      rename_i x y hx hy
      simp only [hn, Bool.false_eq_true, if_false]
      rw [evalC_sound hd0 ρ a x hx, evalC_sound hd0 ρ b y hy]
      simp [h4]

end generic

/-- verit_div_simplify over the rationals (division total, `x / 0 = 0`, as in holpy) -/
theorem divSimplifyQ_sound (ρ : Nat → ℚ) (l r : ATm ℚ) (h : divSimplifyQ l r = true) : evalA ρ l = evalA ρ r := by
  unfold divSimplifyQ divSimplify at h
  split at h
  case h_2 => simp at h
  rename_i a b
  simp only [Bool.or_eq_true, Bool.and_eq_true, decide_eq_true_eq] at h
  rcases h with (⟨⟨⟨rfl, hc⟩, hv⟩, rfl⟩ | ⟨rfl, rfl⟩) | ⟨⟨_, _⟩, h3⟩
  · split at hv <;> simp at hv
    rename_i v hb
    have := evalC_sound (fun x => div_zero x) ρ a v hb
    simp only [evalA, this]
    rw [div_self hv]; simp
  · simp [evalA]
  · split at h3 <;> simp at h3
    rename_i x y hx hy
    rw [evalC_sound (fun x => div_zero x) ρ _ x hx, evalC_sound (fun x => div_zero x) ρ r y hy, h3]

theorem compSimplifyQ_sound (ρ : Nat → ℚ) (c t1 t2 rhs) (h : compSimplifyQ c t1 t2 rhs = true) :
    cmpHolds c (evalA ρ t1) (evalA ρ t2) ↔ rhsHolds ρ rhs := compSimplify_sound (by intro x; simp) ρ c t1 t2 rhs h
theorem compSimplifyZ_sound (ρ : Nat → ℤ) (c t1 t2 rhs) (h : compSimplifyZ c t1 t2 rhs = true) :
    cmpHolds c (evalA ρ t1) (evalA ρ t2) ↔ rhsHolds ρ rhs := compSimplify_sound (by intro x; simp) ρ c t1 t2 rhs h
theorem minusSimplifyQ_sound (ρ : Nat → ℚ) (l r) (h : minusSimplifyQ l r = true) : evalA ρ l = evalA ρ r :=
  minusSimplify_sound (by intro x; simp) ρ l r h
theorem minusSimplifyZ_sound (ρ : Nat → ℤ) (l r) (h : minusSimplifyZ l r = true) : evalA ρ l = evalA ρ r :=
  minusSimplify_sound (by intro x; simp) ρ l r h
theorem unaryMinusSimplifyQ_sound (ρ : Nat → ℚ) (l r) (h : unaryMinusSimplifyQ l r = true) : evalA ρ l = evalA ρ r :=
  unaryMinusSimplify_sound (by intro x; simp) ρ l r h
theorem unaryMinusSimplifyZ_sound (ρ : Nat → ℤ) (l r) (h : unaryMinusSimplifyZ l r = true) : evalA ρ l = evalA ρ r :=
  unaryMinusSimplify_sound (by intro x; simp) ρ l r h

theorem eqSimplifyQ_sound (ρ : Nat → ℚ) (neg a b rhs) (h : eqSimplifyQ neg a b rhs = true) :
    (if neg then ¬ evalA ρ a = evalA ρ b else evalA ρ a = evalA ρ b) ↔ rhs = .tt := eqSimplify_sound (by intro x; simp) ρ neg a b rhs h
theorem eqSimplifyZ_sound (ρ : Nat → ℤ) (neg a b rhs) (h : eqSimplifyZ neg a b rhs = true) :
    (if neg then ¬ evalA ρ a = evalA ρ b else evalA ρ a = evalA ρ b) ↔ rhs = .tt := eqSimplify_sound (by intro x; simp) ρ neg a b rhs h

end Holpy.C18.Arith
