import Holpy.C18.ModelLA
import Holpy.C18.ModelArith
import Holpy.C18.ProofsLA
import Holpy.C18.ProofsArith
import Holpy.C18.ProofsSum
import Holpy.C18.ProofsProd
/-
C18 — property theorems about the rules modelled on parsed arithmetic (la_generic / la_tautology,
comp / minus / unary_minus / div / eq_simplify).  Split from Props.lean to keep build times down.
-/
namespace Holpy.C18

/-! ### la_generic / la_tautology -/

/-- If `LAGenericMacro.eval` accepts a clause of (negated) `<`, `<=`, `=` literals with the given
coefficients, the clause has a true literal under every valuation of its atoms — by rational
numbers at sort real (the combination check), by integers at sort int (with the step
`l > d ⟶ l >= d + 1` and the rounding of `k·(…) >= c` to the next multiple of the gcd `k`). -/
theorem la_generic_sound :
    (∀ (lits : List (LA.Lit ℚ)) (coeffs : List ℚ), LA.laGenericQ lits coeffs = true →
      ∀ ρ : Nat → ℚ, ∃ l ∈ lits, LA.litTrue ρ l) ∧
    (∀ (lits : List (LA.Lit ℤ)) (coeffs : List ℤ), LA.laGenericZ lits coeffs = true →
      ∀ ρ : Nat → ℤ, ∃ l ∈ lits, LA.litTrue ρ l) :=
  ⟨LA.laGenericQ_sound, LA.laGenericZ_sound⟩

/-- non-vacuity: `~(-1 <= 2x) | ~(1 <= -2x)` is accepted over the integers (only by rounding: the real
relaxation is satisfiable), `~(-3 <= 2x) | ~(1 <= -2x)` (false at x = -1) is rejected; over the
reals `~(x <= 0) | ~(1 <= x)` is accepted with coefficients 1, 1 and rejected with 1, 0 -/
example :
    LA.laGenericZ [⟨true, .le, .num (-1), .mul 2 (.atom 0)⟩, ⟨true, .le, .num 1, .mul (-2) (.atom 0)⟩] [1, 1] = true
    ∧ LA.laGenericZ [⟨true, .le, .num (-3), .mul 2 (.atom 0)⟩, ⟨true, .le, .num 1, .mul (-2) (.atom 0)⟩] [1, 1] = false
    ∧ LA.laGenericQ [⟨true, .le, .atom 0, .num 0⟩, ⟨true, .le, .num 1, .atom 0⟩] [1, 1] = true
    ∧ LA.laGenericQ [⟨true, .le, .atom 0, .num 0⟩, ⟨true, .le, .num 1, .atom 0⟩] [1, 0] = false := by
  refine ⟨by decide, by decide, by decide +kernel, by decide +kernel⟩

/-! ### arithmetic simplifications (ModelArith.lean: structural arithmetic terms) -/

/-- comp_simplify, minus_simplify, unary_minus_simplify: an accepted equivalence `(t1 cmp t2) <--> rhs`
resp. equation `lhs = rhs` holds under every valuation of the atoms by rationals (sort real) and
by integers (sort int). -/
theorem arith_simplify_sound :
    (∀ (ρ : Nat → ℚ) c t1 t2 rhs, Arith.compSimplifyQ c t1 t2 rhs = true →
      (Arith.cmpHolds c (Arith.evalA ρ t1) (Arith.evalA ρ t2) ↔ Arith.rhsHolds ρ rhs)) ∧
    (∀ (ρ : Nat → ℤ) c t1 t2 rhs, Arith.compSimplifyZ c t1 t2 rhs = true →
      (Arith.cmpHolds c (Arith.evalA ρ t1) (Arith.evalA ρ t2) ↔ Arith.rhsHolds ρ rhs)) ∧
    (∀ (ρ : Nat → ℚ) l r, Arith.minusSimplifyQ l r = true → Arith.evalA ρ l = Arith.evalA ρ r) ∧
    (∀ (ρ : Nat → ℤ) l r, Arith.minusSimplifyZ l r = true → Arith.evalA ρ l = Arith.evalA ρ r) ∧
    (∀ (ρ : Nat → ℚ) l r, Arith.unaryMinusSimplifyQ l r = true → Arith.evalA ρ l = Arith.evalA ρ r) ∧
    (∀ (ρ : Nat → ℤ) l r, Arith.unaryMinusSimplifyZ l r = true → Arith.evalA ρ l = Arith.evalA ρ r) :=
  ⟨Arith.compSimplifyQ_sound, Arith.compSimplifyZ_sound, Arith.minusSimplifyQ_sound, Arith.minusSimplifyZ_sound,
   Arith.unaryMinusSimplifyQ_sound, Arith.unaryMinusSimplifyZ_sound⟩

/-- non-vacuity: `2 < 3 <--> true`, `x < y <--> ~(y <= x)` accepted, `x < y <--> ~(x <= y)` rejected;
`x - 0 = x` accepted, `x - 0 = 0` rejected; `-(-x) = x` accepted, `-(x - y) = y` rejected -/
example :
    Arith.compSimplifyZ .lt (.lit 2) (.lit 3) .tt = true
    ∧ Arith.compSimplifyZ .lt (.atom 0) (.atom 1) (.nle (.atom 1) (.atom 0)) = true
    ∧ Arith.compSimplifyZ .lt (.atom 0) (.atom 1) (.nle (.atom 0) (.atom 1)) = false
    ∧ Arith.minusSimplifyZ (.sub (.atom 0) (.lit 0)) (.atom 0) = true
    ∧ Arith.minusSimplifyZ (.sub (.atom 0) (.lit 0)) (.lit 0) = false
    ∧ Arith.unaryMinusSimplifyZ (.neg (.neg (.atom 0))) (.atom 0) = true
    ∧ Arith.unaryMinusSimplifyZ (.neg (.sub (.atom 0) (.atom 1))) (.atom 1) = false := by
  refine ⟨by decide, by decide, by decide, by decide, by decide, by decide, by decide⟩

/-- div_simplify (division total with `x / 0 = 0`, as in holpy; `t / t = 1` only for a non-zero numeral)
and eq_simplify (`t = t`, numerals of different value, `~(t = t)`): an accepted goal holds under every valuation -/
theorem div_eq_simplify_sound :
    (∀ (ρ : Nat → ℚ) l r, Arith.divSimplifyQ l r = true → Arith.evalA ρ l = Arith.evalA ρ r) ∧
    (∀ (ρ : Nat → ℚ) neg a b rhs, Arith.eqSimplifyQ neg a b rhs = true →
      ((if neg then ¬ Arith.evalA ρ a = Arith.evalA ρ b else Arith.evalA ρ a = Arith.evalA ρ b) ↔ rhs = .tt)) ∧
    (∀ (ρ : Nat → ℤ) neg a b rhs, Arith.eqSimplifyZ neg a b rhs = true →
      ((if neg then ¬ Arith.evalA ρ a = Arith.evalA ρ b else Arith.evalA ρ a = Arith.evalA ρ b) ↔ rhs = .tt)) :=
  ⟨Arith.divSimplifyQ_sound, Arith.eqSimplifyQ_sound, Arith.eqSimplifyZ_sound⟩

/-- non-vacuity: `3 / 3 = 1` and `x / 1 = x` accepted, `0 / 0 = 1` and `x / x = 1` rejected;
`(2 = 3) <--> false` accepted, `(x = y) <--> false` rejected -/
example :
    Arith.divSimplifyQ (.div (.lit 3) (.lit 3)) (.lit 1) = true
    ∧ Arith.divSimplifyQ (.div (.atom 0) (.lit 1)) (.atom 0) = true
    ∧ Arith.divSimplifyQ (.div (.lit 0) (.lit 0)) (.lit 1) = false
    ∧ Arith.divSimplifyQ (.div (.atom 0) (.atom 0)) (.lit 1) = false
    ∧ Arith.eqSimplifyZ false (.lit 2) (.lit 3) .ff = true
    ∧ Arith.eqSimplifyZ false (.atom 0) (.atom 1) .ff = false := by
  refine ⟨by decide +kernel, by decide +kernel, by decide +kernel, by decide +kernel, by decide, by decide⟩

/-- sum_simplify: `split_num_expr` (numerals recognised by `is_number`, valued by `dest_number`, collected into
one canonical numeral in front of the other summands) preserves the value; prod_simplify: its three cases
(all factors numerals with the right product; a zero factor; equal numeral products and syntactically equal
remaining factors).  So an accepted equation `lhs = rhs` holds under every valuation — over the rationals
(division total, `x / 0 = 0`) and over the integers. -/
theorem sum_prod_simplify_sound :
    (∀ (ρ : Nat → ℚ) l r, Arith.sumSimplifyQ l r = true → Arith.evalA ρ l = Arith.evalA ρ r) ∧
    (∀ (ρ : Nat → ℤ) l r, Arith.sumSimplifyZ l r = true → Arith.evalA ρ l = Arith.evalA ρ r) ∧
    (∀ (ρ : Nat → ℚ) l r, Arith.prodSimplify l r = true → Arith.evalA ρ l = Arith.evalA ρ r) ∧
    (∀ (ρ : Nat → ℤ) l r, Arith.prodSimplify l r = true → Arith.evalA ρ l = Arith.evalA ρ r) :=
  ⟨Arith.sumSimplifyQ_sound, Arith.sumSimplifyZ_sound, Arith.prodSimplifyQ_sound, Arith.prodSimplifyZ_sound⟩

/-- non-vacuity: `(1 + x) + 2 = 3 + x`, `x + 0 = x`, `(2 * x) * 3 = 6 * x`, `x * 0 = 0` accepted;
`x + y = y + x`, `x + 1 = x`, `(2 * x) * 3 = 5 * x`, `x * y = y * x` (no numeral factor) rejected -/
example :
    Arith.sumSimplifyZ (.add (.add (.lit 1) (.atom 0)) (.lit 2)) (.add (.lit 3) (.atom 0)) = true
    ∧ Arith.sumSimplifyZ (.add (.atom 0) (.lit 0)) (.atom 0) = true
    ∧ Arith.sumSimplifyZ (.add (.atom 0) (.atom 1)) (.add (.atom 1) (.atom 0)) = false
    ∧ Arith.sumSimplifyZ (.add (.atom 0) (.lit 1)) (.atom 0) = false
    ∧ Arith.prodSimplify (α := Int) (.mul (.mul (.lit 2) (.atom 0)) (.lit 3)) (.mul (.lit 6) (.atom 0)) = true
    ∧ Arith.prodSimplify (α := Int) (.mul (.atom 0) (.lit 0)) (.lit 0) = true
    ∧ Arith.prodSimplify (α := Int) (.mul (.mul (.lit 2) (.atom 0)) (.lit 3)) (.mul (.lit 5) (.atom 0)) = false
    ∧ Arith.prodSimplify (α := Int) (.mul (.atom 0) (.atom 1)) (.mul (.atom 1) (.atom 0)) = false := by
  refine ⟨by decide, by decide, by decide, by decide, by decide, by decide, by decide, by decide⟩

end Holpy.C18
