import Holpy.C18.ProofsArith
import Mathlib.Data.Rat.Defs
namespace Holpy.C18.Arith

section generic
set_option linter.unusedSectionVars false
variable {α : Type} [CommRing α] [LinearOrder α] [IsStrictOrderedRing α] [Div α]
variable (hd0 : ∀ x : α, x / (0 : α) = 0)

def lsum (ρ : Nat → α) : List (ATm α) → α
  | [] => 0
  | x :: xs => evalA ρ x + lsum ρ xs

theorem lsum_append (ρ : Nat → α) (xs ys : List (ATm α)) : lsum ρ (xs ++ ys) = lsum ρ xs + lsum ρ ys := by
  induction xs with
  | nil => simp [lsum]
  | cons x xs ih => simp only [List.cons_append, lsum, ih]; ring

theorem evalA_stripPlus (ρ : Nat → α) (t : ATm α) : evalA ρ t = lsum ρ (stripPlusFull t) := by
  induction t with
  | add a b iha ihb => simp only [stripPlusFull, lsum_append, evalA, iha, ihb]
  | _ => simp [stripPlusFull, lsum]

theorem lsum_partition (ρ : Nat → α) (p : ATm α → Bool) (xs : List (ATm α)) :
    lsum ρ xs = lsum ρ (xs.filter p) + lsum ρ (xs.filter (fun x => !p x)) := by
  induction xs with
  | nil => simp [lsum]
  | cons x xs ih =>
    by_cases hp : p x = true
    · simp only [List.filter_cons, hp, if_true, Bool.not_true, Bool.false_eq_true, if_false, lsum, ih]; ring
    · have : p x = false := by simpa using hp
      simp only [List.filter_cons, this, Bool.false_eq_true, if_false, Bool.not_false, if_true, lsum, ih]; ring

include hd0 in
theorem numVal_eval (ρ : Nat → α) (x : ATm α) (h : isNumber x = true) : evalA ρ x = numVal x := by
  have frac : ∀ y : ATm α, isFracNum y = true → evalA ρ y = numVal y := by
    intro y hy
    unfold isFracNum at hy
    split at hy
    · simp [evalA, numVal]
    · rename_i m n
      simp only [evalA, numVal]
      split
      · rename_i hn; subst hn; simp [hd0]
      · rfl
    · simp at hy
  unfold isNumber at h
  split at h
  · rename_i y
    simp only [Bool.and_eq_true] at h
    simp only [evalA, frac y h.1, numVal]
  · exact frac x h

include hd0 in
theorem sumVals_eval (ρ : Nat → α) (xs : List (ATm α)) (h : ∀ x ∈ xs, isNumber x = true) : lsum ρ xs = sumVals xs := by
  induction xs with
  | nil => rfl
  | cons x xs ih =>
    simp only [lsum, sumVals, numVal_eval hd0 ρ x (h x (by simp)), ih (fun y hy => h y (by simp [hy]))]

theorem sumLeftFrom_eval (ρ : Nat → α) (acc : ATm α) (xs : List (ATm α)) :
    evalA ρ (sumLeftFrom acc xs) = evalA ρ acc + lsum ρ xs := by
  induction xs generalizing acc with
  | nil => simp [sumLeftFrom, lsum]
  | cons x xs ih => simp only [sumLeftFrom, ih, evalA, lsum]; ring

include hd0 in
/-- `split_num_expr` preserves the value (given that `mk c` denotes `c`) -/
theorem splitNum_sound (ρ : Nat → α) (mk : α → ATm α) (hmk : ∀ c, evalA ρ (mk c) = c) (t : ATm α) :
    evalA ρ (splitNum mk t) = evalA ρ t := by
  have hpart := lsum_partition ρ isNumber (stripPlusFull t)
  have hnums := sumVals_eval hd0 ρ ((stripPlusFull t).filter isNumber) (fun x hx => (List.mem_filter.1 hx).2)
  rw [evalA_stripPlus ρ t, hpart, hnums]
  unfold splitNum
  dsimp only
  split
  · rename_i hnon
    rw [hnon, hmk]; simp [lsum]
  · rename_i n0 rest hnon
    rw [hnon]
    split
    · rename_i hc
      rw [sumLeftFrom_eval, hc]; simp [lsum]
    · simp only [evalA, hmk, sumLeftFrom_eval, lsum]

include hd0 in
theorem sumSimplify_sound (ρ : Nat → α) (mk : α → ATm α) (hmk : ∀ c, evalA ρ (mk c) = c) (l r : ATm α)
    (h : sumSimplify mk l r = true) : evalA ρ l = evalA ρ r := by
  unfold sumSimplify at h
  simp only [Bool.or_eq_true, decide_eq_true_eq] at h
  rcases h with h | h
  · rw [← splitNum_sound hd0 ρ mk hmk l, h]
  · rw [← splitNum_sound hd0 ρ mk hmk l, h, splitNum_sound hd0 ρ mk hmk r]

end generic

theorem mkNumZ_eval (ρ : Nat → ℤ) (c : ℤ) : evalA ρ (mkNumZ c) = c := by
  unfold mkNumZ
  split
  · simp only [evalA]; omega
  · simp only [evalA]; omega

theorem mkNumQ_eval (ρ : Nat → ℚ) (c : ℚ) : evalA ρ (mkNumQ c) = c := by
  have hbody : ∀ (q : ℚ), 0 ≤ q →
      evalA ρ (if q.den = 1 then (ATm.lit q.num.natAbs : ATm ℚ) else .div (.lit q.num.natAbs) (.lit q.den)) = q := by
    intro q hq
    have hnum : (0 : ℤ) ≤ q.num := Rat.num_nonneg.2 hq
    have hcast : ((q.num.natAbs : ℕ) : ℚ) = (q.num : ℚ) := by
      have h0 : ((q.num.natAbs : ℕ) : ℤ) = q.num := Int.natAbs_of_nonneg hnum
      calc ((q.num.natAbs : ℕ) : ℚ) = (((q.num.natAbs : ℕ) : ℤ) : ℚ) := (Int.cast_natCast _).symm
        _ = (q.num : ℚ) := by rw [h0]
    split
    · rename_i hden
      simp only [evalA, hcast]
      have := Rat.num_div_den q
      rw [hden] at this; simpa using this
    · simp only [evalA, hcast]
      exact Rat.num_div_den q
  unfold mkNumQ
  dsimp only
  split
  · rename_i hneg
    have h1 := hbody (-c) (by linarith)
    simp only [Rat.neg_num, Rat.neg_den, Int.natAbs_neg] at h1
    simp only [evalA, h1]; ring
  · rename_i hpos
    exact hbody c (not_lt.1 hpos)

theorem sumSimplifyQ_sound (ρ : Nat → ℚ) (l r : ATm ℚ) (h : sumSimplifyQ l r = true) : evalA ρ l = evalA ρ r :=
  sumSimplify_sound (fun x => div_zero x) ρ mkNumQ (mkNumQ_eval ρ) l r h

theorem sumSimplifyZ_sound (ρ : Nat → ℤ) (l r : ATm ℤ) (h : sumSimplifyZ l r = true) : evalA ρ l = evalA ρ r :=
  sumSimplify_sound (by intro x; simp) ρ mkNumZ (mkNumZ_eval ρ) l r h

end Holpy.C18.Arith
