import Holpy.C18.Model
/-
C18 — model of `verit_eq_congruent_pred` (as fixed by C18-09) and of `verit_refl`.  Import-free.
-/
namespace Holpy.C18
open Tm

/-- `t.arg` of a negation (only taken after `is_not()`) -/
def notArg : Tm → Tm
  | mkNot a => a
  | t => t

/-- `t.arg` of any combination -/
def lastArg : Tm → Tm
  | .comb _ a => a
  | t => t

/-- the polarity and head tests on the last two ARGUMENTS `args[-2]`, `args[-1]` -/
def ecpHeads (a2 a1 : Tm) : Bool :=
  !((isNot a2 && isNot a1) || (!isNot a2 && !isNot a1)) &&
  !(isNot a2 && head (notArg a2) != head a1) &&
  !(isNot a1 && head (notArg a1) != head a2)

/-- `args_pair`: the argument lists of the two atoms, zipped -/
def ecpArgsPair (predFun concl : Tm) : List (Tm × Tm) :=
  if isNot predFun then List.zip (args (notArg predFun)) (args concl)
  else List.zip (args predFun) (args (lastArg concl))

/-- `preds_pair`: a single equality is used twice -/
def ecpPredsPair (e : Nat × Tm × Tm) (rest : List (Nat × Tm × Tm)) : List (Nat × Tm × Tm) :=
  if rest.isEmpty then [e, e] else e :: rest

/-- verit_eq_congruent_pred.  The head tests look at the last two arguments, the pairs are taken
from the last two disjuncts of `Or(*args).strip_disj()`. -/
def eqCongruentPred (cl : List Tm) : Except Err Seq :=
  if cl.length < 3 then .error .verit else
  match cl.reverse with
  | a1 :: a2 :: _ =>
    if !ecpHeads a2 a1 then .error .verit else
    match (stripDisj (mkOrs cl)).reverse with
    | concl :: predFun :: predsRev =>
      match destNegEqs predsRev.reverse with
      | none => .error .verit
      | some [] => .error .index
      | some (e :: rest) =>
        if !isNot predFun && !isComb concl then .error .attr
        else if (ecpArgsPair predFun concl).length > (ecpPredsPair e rest).length then .error .verit
        else if pairsMatch (ecpPredsPair e rest) (ecpArgsPair predFun concl) then .ok ⟨[], mkOrs cl⟩
        else .error .verit
    | _ => .error .index
  | _ => .error .verit

/-- `ctxt[name]` for the variable `x` (the harness sends the context as pairs (variable, term)) -/
def ctxLookup (ctx : List (Tm × Tm)) (x : Tm) : Option Tm :=
  match ctx with
  | [] => none
  | (k, v) :: rest => if k == x then some v else ctxLookup rest x

def isVarT : Tm → Bool
  | .var _ => true
  | _ => false

/-- verit_refl: `args = (goal, ctxt)`; the result carries its own hypothesis (the context equation) -/
def reflRule (cl : List Tm) (ctx : List (Tm × Tm)) : Except Err Seq :=
  match cl with
  | [goal] =>
    match destEq goal with
    | none => .error .verit
    | some (k, l, r) =>
      if isVarT l && ctxLookup ctx l == some r then .ok ⟨[goal], goal⟩
      else if isVarT r && ctxLookup ctx r == some l then .ok ⟨[.comb (.comb (.const k) r) l], goal⟩
      else .error .verit
  | _ => .error .verit

end Holpy.C18
