/-
C18 — executable model of the `eval` methods of the veriT proof-rule macros
(`smt/veriT/verit_macro.py`, `la_generic.py`), tier-1 rules, for the FIXED code
(fixes/C18-*.patch).

Terms are holpy's own first-order fragment: `Var | Const | Comb` (binders never occur in a
tier-1 rule; the harness sends an abstraction as an opaque variable).  Navigation follows the
Python: `t.arg` is the argument of a `Comb`, `t.arg1` is `t.fun.arg`, `t.args` is `strip_comb`,
`is_not()` is `is_comb('neg', 1)` and so on; `Or(*args)` / `And(*args)` nest to the right;
`strip_disj`, `strip_conj` walk down the right spine; `zip` truncates; lengths are compared only
where the code compares them.  Python's `==` on terms is structural equality (`DecidableEq`):
the harness numbers variables and constants injectively (a constant together with its type).

Constant codes: 0 true, 1 false, 2 neg, 3 conj, 4 disj, 5 implies, 6 equals at type bool,
7 equals at any other type, 8 IF, 9 xor, 10 less_eq; everything else (>= 100) is uninterpreted.
`is_equals()` answers yes for 6 and 7 alike — the code cannot tell them apart either.

Import-free: linked into the `c18_model` driver.
-/
namespace Holpy.C18

inductive Tm where
  | var (n : Nat)
  | const (c : Nat)
  | comb (f a : Tm)
  deriving DecidableEq, Repr, Inhabited

/-- the exceptions that end an `eval` (only accept / reject is compared with the implementation) -/
inductive Err where
  | verit      -- VeriTException
  | attr       -- AttributeError: `.arg` of a non-combination …
  | assertion  -- AssertionError
  | unpack     -- ValueError: wrong number of values to unpack
  | index      -- IndexError
  deriving DecidableEq, Repr

/-- a theorem `hyps ⊢ prop` -/
structure Seq where
  hyps : List Tm
  prop : Tm
  deriving DecidableEq, Repr

namespace Tm

@[match_pattern] abbrev tt : Tm := .const 0
@[match_pattern] abbrev ff : Tm := .const 1
@[match_pattern] abbrev mkNot (a : Tm) : Tm := .comb (.const 2) a
@[match_pattern] abbrev mkAnd (a b : Tm) : Tm := .comb (.comb (.const 3) a) b
@[match_pattern] abbrev mkOr (a b : Tm) : Tm := .comb (.comb (.const 4) a) b
@[match_pattern] abbrev mkImp (a b : Tm) : Tm := .comb (.comb (.const 5) a) b
@[match_pattern] abbrev mkIff (a b : Tm) : Tm := .comb (.comb (.const 6) a) b
@[match_pattern] abbrev mkEq (a b : Tm) : Tm := .comb (.comb (.const 7) a) b
@[match_pattern] abbrev mkIte (c a b : Tm) : Tm := .comb (.comb (.comb (.const 8) c) a) b
@[match_pattern] abbrev mkXor (a b : Tm) : Tm := .comb (.comb (.const 9) a) b
@[match_pattern] abbrev mkLe (a b : Tm) : Tm := .comb (.comb (.const 10) a) b

/-- `Term.head` -/
def head : Tm → Tm
  | .comb f _ => head f
  | t => t

def argsAux : Tm → List Tm → List Tm
  | .comb f a, acc => argsAux f (a :: acc)
  | _, acc => acc

/-- `Term.args` (`strip_comb()[1]`) -/
def args (t : Tm) : List Tm := argsAux t []

/-- `Or(*xs)`: `false` for the empty list, right-nested otherwise -/
def mkOrs : List Tm → Tm
  | [] => ff
  | [x] => x
  | x :: xs => mkOr x (mkOrs xs)

/-- `And(*xs)` -/
def mkAnds : List Tm → Tm
  | [] => tt
  | [x] => x
  | x :: xs => mkAnd x (mkAnds xs)

/-- `t.strip_disj()` -/
def stripDisj : Tm → List Tm
  | mkOr a b => a :: stripDisj b
  | t => [t]

/-- `t.strip_conj()` -/
def stripConj : Tm → List Tm
  | mkAnd a b => a :: stripConj b
  | t => [t]

/-- `strip_disj_n(tm, n)`: `n = 1` returns `[tm]`; otherwise `tm` must be a disjunction
(assertion).  `n = 0` runs down the whole right spine and then fails on the last disjunct. -/
def stripDisjN : Tm → Nat → Except Err (List Tm)
  | t, 1 => .ok [t]
  | mkOr a b, n => do let r ← stripDisjN b (n - 1); .ok (a :: r)
  | _, _ => .error .assertion

def isNot : Tm → Bool
  | mkNot _ => true
  | _ => false

def isEquals : Tm → Bool
  | mkIff _ _ => true
  | mkEq _ _ => true
  | _ => false

def isIf : Tm → Bool
  | mkIte _ _ _ => true
  | _ => false

end Tm

open Tm

/-- remove later duplicates, keep first occurrences (the `if x not in acc: acc.append(x)` loops) -/
def dedup : List Tm → List Tm → List Tm
  | [], acc => acc.reverse
  | x :: xs, acc => if acc.contains x then dedup xs acc else dedup xs (x :: acc)

/-- `Thm(prop, *(pt.hyps for pt in prevs))`: union in order of first occurrence -/
def unionHyps (ps : List Seq) : List Tm := dedup (ps.flatMap (·.hyps)) []

-- ------------------------------------------------------------------ clause rules with a premise

/-- verit_not_or (fixed): premise `~(a_1 | … | a_n)`, goal `~a_i`; only `args[0]`, `prevs[0]` are read. -/
def notOr (cl : List Tm) (ps : List Seq) : Except Err Seq :=
  match cl, ps with
  | goal :: _, pt0 :: _ =>
    match pt0.prop, goal with
    | mkNot x, mkNot g => if (stripDisj x).contains g then .ok ⟨pt0.hyps, goal⟩ else .error .verit
    | _, _ => .error .verit
  | _, _ => .error .index

/-- the `for i, j in zip(conj_atoms, disj_atoms): if Not(i) != j: raise` loop -/
def allNegPairs : List Tm → List Tm → Bool
  | i :: is, j :: js => mkNot i == j && allNegPairs is js
  | _, _ => true

/-- verit_not_and (fixed: premise is a negation, equal lengths) -/
def notAnd (cl : List Tm) (ps : List Seq) : Except Err Seq :=
  match ps with
  | pt0 :: _ =>
    let goal := mkOrs cl
    match pt0.prop with
    | mkNot x =>
      let cs := stripConj x
      let ds := stripDisj goal
      if cs.length != ds.length then .error .verit
      else if allNegPairs cs ds then .ok ⟨pt0.hyps, goal⟩ else .error .verit
    | _ => .error .verit
  | _ => .error .index

/-- verit_not_not (fixed): `neg_arg, pos_arg = args`; `neg_arg == Not(Not(Not(pos_arg)))` -/
def notNot (cl : List Tm) : Except Err Seq :=
  match cl with
  | [n, p] => if n == mkNot (mkNot (mkNot p)) then .ok ⟨[], mkOr n p⟩ else .error .verit
  | _ => .error .unpack

/-- the `while prem.is_conj()` loop of verit_and -/
def andFind (arg : Tm) : Tm → Bool
  | mkAnd a b => arg == a || arg == b || andFind arg b
  | _ => false

/-- verit_and -/
def andRule (cl : List Tm) (ps : List Seq) : Except Err Seq :=
  match cl, ps with
  | [arg], [pt] => if andFind arg pt.prop then .ok ⟨pt.hyps, arg⟩ else .error .verit
  | _, _ => .error .verit

/-- verit_or: `strip_disj_n(prev, len(args))` must equal the clause -/
def orRule (cl : List Tm) (ps : List Seq) : Except Err Seq :=
  match ps with
  | [pt] =>
    match stripDisjN pt.prop cl.length with
    | .ok ds => if ds == cl then .ok ⟨pt.hyps, mkOrs cl⟩ else .error .verit
    | .error e => .error e
  | _ => .error .verit

/-- verit_implies (fixed: premise is an implication) -/
def impliesRule (cl : List Tm) (ps : List Seq) : Except Err Seq :=
  match ps with
  | pt :: _ =>
    match pt.prop with
    | mkImp p q => if mkOr (mkNot p) q == mkOrs cl then .ok ⟨pt.hyps, mkOrs cl⟩ else .error .verit
    | _ => .error .verit
  | _ => .error .index

/-- verit_not_implies1 (fixed: keeps the hypotheses) -/
def notImplies1 (cl : List Tm) (ps : List Seq) : Except Err Seq :=
  match cl, ps with
  | [goal], [pt] =>
    match pt.prop with
    | mkNot (mkImp p _) => if goal != p then .error .verit else .ok ⟨pt.hyps, goal⟩
    | _ => .error .verit
  | _, _ => .error .verit

/-- verit_not_implies2 (fixed: keeps the hypotheses) -/
def notImplies2 (cl : List Tm) (ps : List Seq) : Except Err Seq :=
  match cl, ps with
  | [goal], [pt] =>
    match pt.prop with
    | mkNot (mkImp _ q) => if goal != mkNot q then .error .verit else .ok ⟨pt.hyps, goal⟩
    | _ => .error .verit
  | _, _ => .error .verit

/-- verit_equiv1 (fixed: premise `is_equals()`) — the conclusion is `Or(*args)` for the whole clause -/
def equiv1 (cl : List Tm) (ps : List Seq) : Except Err Seq :=
  match ps with
  | pt :: _ =>
    match pt.prop with
    | mkIff p1 p2 | mkEq p1 p2 =>        -- `is_equals()`, then `p1, p2 = pt.prop.args`
      match cl with
      | a0 :: a1 :: _ => if mkNot p1 == a0 && p2 == a1 then .ok ⟨pt.hyps, mkOrs cl⟩ else .error .verit
      | _ => .error .index
    | _ => .error .verit
  | _ => .error .index

/-- verit_equiv2 (fixed) -/
def equiv2 (cl : List Tm) (ps : List Seq) : Except Err Seq :=
  match ps with
  | pt :: _ =>
    match pt.prop with
    | mkIff p1 p2 | mkEq p1 p2 =>        -- `is_equals()`, then `p1, p2 = pt.prop.args`
      match cl with
      | a0 :: a1 :: _ => if p1 == a0 && mkNot p2 == a1 then .ok ⟨pt.hyps, mkOrs cl⟩ else .error .verit
      | _ => .error .index
    | _ => .error .verit
  | _ => .error .index

/-- verit_not_equiv1 (fixed: premise is a negated equivalence) -/
def notEquiv1 (cl : List Tm) (ps : List Seq) : Except Err Seq :=
  match ps, cl with
  | pt :: _, [p1, p2] =>
    match pt.prop with
    | mkNot (mkIff q1 q2) | mkNot (mkEq q1 q2) =>
      if p1 == q1 && p2 == q2 then .ok ⟨pt.hyps, mkOr p1 p2⟩ else .error .verit
    | _ => .error .verit
  | _ :: _, _ => .error .unpack
  | _, _ => .error .index

/-- verit_not_equiv2 (fixed; goal literals compared with `Not(..)`) -/
def notEquiv2 (cl : List Tm) (ps : List Seq) : Except Err Seq :=
  match ps, cl with
  | pt :: _, [p1, p2] =>
    match pt.prop with
    | mkNot (mkIff q1 q2) | mkNot (mkEq q1 q2) =>
      if p1 == mkNot q1 && p2 == mkNot q2 then .ok ⟨pt.hyps, mkOr p1 p2⟩ else .error .verit
    | _ => .error .verit
  | _ :: _, _ => .error .unpack
  | _, _ => .error .index

/-- verit_ite1 -/
def ite1 (cl : List Tm) (ps : List Seq) : Except Err Seq :=
  match cl, ps with
  | [a1, a2], [pt] =>
    match pt.prop with
    | mkIte c _ y => if a1 != c || a2 != y then .error .verit else .ok ⟨pt.hyps, mkOr a1 a2⟩
    | _ => .error .verit
  | _, _ => .error .verit

/-- verit_ite2 -/
def ite2 (cl : List Tm) (ps : List Seq) : Except Err Seq :=
  match cl, ps with
  | [a1, a2], [pt] =>
    match pt.prop with
    | mkIte c x _ => if a1 != mkNot c || a2 != x then .error .verit else .ok ⟨pt.hyps, mkOr a1 a2⟩
    | _ => .error .verit
  | _, _ => .error .verit

/-- verit_not_ite1 -/
def notIte1 (cl : List Tm) (ps : List Seq) : Except Err Seq :=
  match cl, ps with
  | [q1, q2], [pt] =>
    match pt.prop with
    | mkNot (mkIte c _ y) =>
      if !isNot q2 then .error .verit
      else if c == q1 && mkNot y == q2 then .ok ⟨pt.hyps, mkOrs cl⟩ else .error .verit
    | _ => .error .verit
  | _, _ => .error .verit

/-- verit_not_ite2 -/
def notIte2 (cl : List Tm) (ps : List Seq) : Except Err Seq :=
  match cl, ps with
  | [q1, q2], [pt] =>
    match pt.prop with
    | mkNot (mkIte c x _) =>
      if !isNot q1 || !isNot q2 then .error .verit
      else if mkNot c == q1 && mkNot x == q2 then .ok ⟨pt.hyps, mkOrs cl⟩ else .error .verit
    | _ => .error .verit
  | _, _ => .error .verit

/-- verit_contraction: duplicates of `prev.strip_disj()` removed must be the clause -/
def contraction (cl : List Tm) (ps : List Seq) : Except Err Seq :=
  match ps with
  | [pt] => if dedup (stripDisj pt.prop) [] == cl then .ok ⟨pt.hyps, mkOrs cl⟩ else .error .verit
  | _ => .error .verit

-- ------------------------------------------------------------------ tautology rules (no premise)

/-- verit_and_pos (fixed: first literal is a negation) -/
def andPos (cl : List Tm) : Except Err Seq :=
  match cl with
  | [nc, pk] =>
    match nc with
    | mkNot c =>
      let cs := stripConj c
      if cs.contains pk then .ok ⟨[], mkOr nc pk⟩
      else match pk with
        | mkAnd _ _ => if (stripConj pk).all cs.contains then .ok ⟨[], mkOrs cl⟩ else .error .verit
        | _ => .error .verit
    | _ => .error .verit
  | _ => .error .unpack

/-- the `while conj.is_conj()` loop of verit_and_neg with the (fixed) `else` branch -/
def andNegExpected (last : Tm) : Tm → List Tm
  | mkAnd a b => if mkNot b == last then [mkNot a, mkNot b] else mkNot a :: andNegExpected last b
  | t => [mkNot t]

/-- verit_and_neg (fixed) -/
def andNeg (cl : List Tm) : Except Err Seq :=
  match cl with
  | c :: rest =>
    let last := rest.getLastD c      -- args[-1]
    if rest != andNegExpected last c then .error .verit else .ok ⟨[], mkOrs cl⟩
  | [] => .error .index

/-- verit_or_pos (fixed: first literal is a negation) -/
def orPos (cl : List Tm) : Except Err Seq :=
  match cl with
  | nd :: rest =>
    match nd with
    | mkNot d => if stripDisj d == rest then .ok ⟨[], mkOrs cl⟩ else .error .verit
    | _ => .error .verit
  | [] => .error .index

/-- the `while disj_tm.is_disj()` loop of verit_or_neg -/
def orNegFind (x : Tm) : Tm → Bool
  | mkOr a b => a == x || b == x || orNegFind x b
  | _ => false

/-- verit_or_neg -/
def orNeg (cl : List Tm) : Except Err Seq :=
  match cl with
  | [d, n] =>
    match d, n with
    | mkOr _ _, mkNot x => if orNegFind x d then .ok ⟨[], mkOrs cl⟩ else .error .verit
    | _, _ => .error .verit
  | _ => .error .verit

/-- verit_implies_pos -/
def impliesPos (cl : List Tm) : Except Err Seq :=
  match cl with
  | [a1, a2, a3] =>
    match a1, a2 with
    | mkNot (mkImp p q), mkNot p' => if p == p' && q == a3 then .ok ⟨[], mkOrs cl⟩ else .error .verit
    | _, _ => .error .verit
  | _ => .error .verit

/-- verit_implies_neg1 -/
def impliesNeg1 (cl : List Tm) : Except Err Seq :=
  match cl with
  | [mkImp p _, a1] => if p != a1 then .error .verit else .ok ⟨[], mkOrs cl⟩
  | _ => .error .verit

/-- verit_implies_neg2 -/
def impliesNeg2 (cl : List Tm) : Except Err Seq :=
  match cl with
  | [mkImp _ q, a1] => if mkNot q != a1 then .error .verit else .ok ⟨[], mkOrs cl⟩
  | _ => .error .verit

/-- verit_equiv_pos1 (fixed: first literal is a negated equivalence) -/
def equivPos1 (cl : List Tm) : Except Err Seq :=
  match cl with
  | [a1, a2, a3] =>
    match a1 with
    | mkNot (mkIff p q) | mkNot (mkEq p q) =>
      if p == a2 && mkNot q == a3 then .ok ⟨[], mkOrs cl⟩ else .error .verit
    | _ => .error .verit
  | _ => .error .unpack

/-- verit_equiv_pos2 (fixed) -/
def equivPos2 (cl : List Tm) : Except Err Seq :=
  match cl with
  | [a1, a2, a3] =>
    match a1 with
    | mkNot (mkIff p q) | mkNot (mkEq p q) =>
      if mkNot p == a2 && q == a3 then .ok ⟨[], mkOrs cl⟩ else .error .verit
    | _ => .error .verit
  | _ => .error .unpack

/-- verit_equiv_neg1 -/
def equivNeg1 (cl : List Tm) : Except Err Seq :=
  match cl with
  | [e, p1, p2] =>
    match e with
    | mkIff l r | mkEq l r => if p1 == mkNot l && p2 == mkNot r then .ok ⟨[], mkOrs cl⟩ else .error .verit
    | _ => .error .verit
  | _ => .error .verit

/-- verit_equiv_neg2 -/
def equivNeg2 (cl : List Tm) : Except Err Seq :=
  match cl with
  | [e, p1, p2] =>
    match e with
    | mkIff l r | mkEq l r => if p1 == l && p2 == r then .ok ⟨[], mkOrs cl⟩ else .error .verit
    | _ => .error .verit
  | _ => .error .verit

/-- verit_xor_pos1 -/
def xorPos1 (cl : List Tm) : Except Err Seq :=
  match cl with
  | [mkNot (mkXor t1 t2), q, r] => if t1 == q && t2 == r then .ok ⟨[], mkOrs cl⟩ else .error .verit
  | _ => .error .verit

/-- verit_xor_pos2 -/
def xorPos2 (cl : List Tm) : Except Err Seq :=
  match cl with
  | [mkNot (mkXor t1 t2), mkNot q, mkNot r] => if t1 == q && t2 == r then .ok ⟨[], mkOrs cl⟩ else .error .verit
  | _ => .error .verit

/-- verit_xor_neg1 -/
def xorNeg1 (cl : List Tm) : Except Err Seq :=
  match cl with
  | [mkXor t1 t2, q, mkNot r] => if t1 == q && t2 == r then .ok ⟨[], mkOrs cl⟩ else .error .verit
  | _ => .error .verit

/-- verit_xor_neg2 -/
def xorNeg2 (cl : List Tm) : Except Err Seq :=
  match cl with
  | [mkXor t1 t2, mkNot q, r] => if t1 == q && t2 == r then .ok ⟨[], mkOrs cl⟩ else .error .verit
  | _ => .error .verit

/-- verit_ite_pos1 -/
def itePos1 (cl : List Tm) : Except Err Seq :=
  match cl with
  | [mkNot (mkIte p1 _ p3), a2, a3] => if p1 == a2 && p3 == a3 then .ok ⟨[], mkOrs cl⟩ else .error .verit
  | _ => .error .verit

/-- verit_ite_pos2 -/
def itePos2 (cl : List Tm) : Except Err Seq :=
  match cl with
  | [mkNot (mkIte p1 p2 _), mkNot q1, a3] => if p1 == q1 && p2 == a3 then .ok ⟨[], mkOrs cl⟩ else .error .verit
  | _ => .error .verit

/-- verit_ite_neg1 -/
def iteNeg1 (cl : List Tm) : Except Err Seq :=
  match cl with
  | [mkIte p1 _ p3, a2, mkNot a3] => if p1 == a2 && p3 == a3 then .ok ⟨[], mkOrs cl⟩ else .error .verit
  | _ => .error .verit

/-- verit_ite_neg2 -/
def iteNeg2 (cl : List Tm) : Except Err Seq :=
  match cl with
  | [mkIte p1 p2 _, mkNot a2, mkNot a3] => if p1 == a2 && p2 == a3 then .ok ⟨[], mkOrs cl⟩ else .error .verit
  | _ => .error .verit

/-- verit_false -/
def falseRule (cl : List Tm) : Except Err Seq :=
  match cl with
  | [a] => if a != mkNot ff then .error .verit else .ok ⟨[], a⟩
  | _ => .error .verit


-- ------------------------------------------------------------------ resolution

/-- `strip_not` of `resolve_order`: the atom and the number of negations in front of it -/
def stripNot : Tm → Tm × Nat
  | mkNot a => ((stripNot a).1, (stripNot a).2 + 1)
  | t => (t, 0)

/-- `id_to_term` -/
def addNots (a : Tm) : Nat → Tm
  | 0 => a
  | n + 1 => mkNot (addNots a n)

abbrev Lit := Tm × Nat

def litTerm (l : Lit) : Tm := addNots l.1 l.2

/-- order-preserving removal of repeated literals (`tmp` loop) -/
def dedupLits : List Lit → List Lit → List Lit
  | [], acc => acc.reverse
  | x :: xs, acc => if acc.contains x then dedupLits xs acc else dedupLits xs (x :: acc)

/-- inner loop of `try_resolve` over `prop2` for a fixed literal of `prop1`:
`some (true, j)` = 'left', `some (false, j)` = 'right' -/
def tryResolveJ (ai : Tm) (ni : Nat) : List Lit → Option (Bool × Nat)
  | [] => none
  | (aj, nj) :: rest =>
    if ai == aj && ni + 1 == nj then some (true, 0)
    else if ai == aj && ni == nj + 1 then some (false, 0)
    else match tryResolveJ ai ni rest with
      | some (l, j) => some (l, j + 1)
      | none => none

/-- `try_resolve(prop1, prop2)`: `(left?, i, j)` -/
def tryResolve : List Lit → List Lit → Option (Bool × Nat × Nat)
  | [], _ => none
  | (ai, ni) :: rest, p2 =>
    match tryResolveJ ai ni p2 with
    | some (l, j) => some (l, 0, j)
    | none => match tryResolve rest p2 with
      | some (l, i, j) => some (l, i + 1, j)
      | none => none

/-- `prop[:t] + prop[t+1:]` -/
def removeAt : List Lit → Nat → List Lit
  | [], _ => []
  | _ :: xs, 0 => xs
  | x :: xs, n + 1 => x :: removeAt xs n

/-- `res_list` of one resolution step: `prop1` without position `t1`, then the literals of `prop2`
without position `t2` that are not yet present -/
def resolvent (p1 p2 : List Lit) (t1 t2 : Nat) : List Lit :=
  (removeAt p2 t2).foldl (fun acc t => if acc.contains t then acc else acc ++ [t]) (removeAt p1 t1)

/-- search of the first resolvable pair among `id_remain[i]`, `id_remain[j]`, `i < j`:
for a fixed first clause, the first later clause that resolves with it (offset from the clause
after the first one) -/
def findSecond (c1 : List Lit) : List (List Lit) → Option (Nat × Bool × Nat × Nat)
  | [] => none
  | c2 :: rest =>
    match tryResolve c1 c2 with
    | some (l, t1, t2) => some (0, l, t1, t2)
    | none => match findSecond c1 rest with
      | some (j, r) => some (j + 1, r)
      | none => none

/-- `(i, d, left?, t1, t2)`: positions `i` and `i + 1 + d` in the list of remaining clauses -/
def findPair : List (List Lit) → Option (Nat × Nat × Bool × Nat × Nat)
  | [] => none
  | c1 :: rest =>
    match findSecond c1 rest with
    | some (d, r) => some (0, d, r)
    | none => match findPair rest with
      | some (i, r) => some (i + 1, r)
      | none => none

def setAt (xs : List (List Lit)) (i : Nat) (v : List Lit) : List (List Lit) := xs.set i v

/-- one pass of the `while len(id_remain) > 1` loop.  'left': the resolvent replaces the first
clause and the second is removed; 'right': the roles are exchanged (the resolvent is stored
under the later index, the earlier one is removed). -/
def resolveLoop : Nat → List (List Lit) → List (List Lit)
  | 0, rem => rem
  | fuel + 1, rem =>
    if rem.length ≤ 1 then rem else
    match findPair rem with
    | none => rem
    | some (i, d, l, t1, t2) =>
      let j := i + 1 + d
      let ci := rem.getD i []
      let cj := rem.getD j []
      if l then
        resolveLoop fuel ((rem.set i (resolvent ci cj t1 t2)).eraseIdx j)
      else
        resolveLoop fuel ((rem.set j (resolvent cj ci t2 t1)).eraseIdx i)

/-- `id_remain`: clauses equal to their immediate predecessor are skipped -/
def dropRepeats : List (List Lit) → List (List Lit)
  | [] => []
  | [x] => [x]
  | x :: y :: rest => if x == y then x :: (dropRepeats (y :: rest)).tail else x :: dropRepeats (y :: rest)

/-- `resolve_order(props)[1]`; `none` = IndexError on an empty list of premises -/
def resolveOrder (props : List (List Tm)) : Option (List Tm) :=
  let ps := props.map (fun c => dedupLits (c.map stripNot) [])
  let rem := resolveLoop ps.length (dropRepeats ps)
  match rem with
  | [] => none
  | c :: _ => some (c.map litTerm)

/-- `prems.append(strip_disj_n(prev.prop, cl_size))` over `zip(cl_sizes, prevs)` -/
def stripAll : List Nat → List Seq → Except Err (List (List Tm))
  | n :: ns, p :: ps => do
    let c ← stripDisjN p.prop n
    let r ← stripAll ns ps
    .ok (c :: r)
  | _, _ => .ok []

/-- special case 1 of verit_th_resolution: `len(prevs) == 1 and prevs[0].prop == Not(true) and len(cl) == 0` -/
def resSpecial1 : List Seq → List Tm → Bool
  | [p], [] => p.prop == mkNot tt
  | _, _ => false

/-- special case 2: from `A` and `~~A <--> B` conclude `B` -/
def resSpecial2 : List Seq → List Tm → Bool
  | [p0, p1], [c] =>
    match p1.prop with
    | mkIff (mkNot (mkNot a)) r | mkEq (mkNot (mkNot a)) r => a == p0.prop && c == r
    | _ => false
  | _, _ => false

/-- the final comparison: `set(cl_concl) <= set(cl)`, or the goal is `~~A` where `A` was computed -/
def resAccept (concl cl : List Tm) : Bool :=
  concl.all cl.contains ||
  (match concl, cl with
   | [c0], [c] => mkNot (mkNot c0) == c
   | _, _ => false)

/-- verit_th_resolution (also used for `resolution`) -/
def thResolution (cl : List Tm) (sizes : List Nat) (ps : List Seq) : Except Err Seq :=
  if sizes.length != ps.length then .error .assertion else
  let res : Seq := ⟨unionHyps ps, mkOrs cl⟩
  if resSpecial1 ps cl then .ok res
  else if resSpecial2 ps cl then .ok res
  else
    match stripAll sizes ps with
    | .error e => .error e
    | .ok prems =>
      match resolveOrder prems with
      | none => .error .index
      | some concl => if resAccept concl cl then .ok res else .error .verit

-- ------------------------------------------------------------------ equality / arithmetic shape rules

/-- verit_eq_reflexive -/
def eqReflexive (cl : List Tm) : Except Err Seq :=
  match cl with
  | goal :: _ =>
    match goal with
    | mkIff l r | mkEq l r => if l == r then .ok ⟨[], goal⟩ else .error .verit
    | _ => .error .verit
  | [] => .error .index

/-- verit_la_disequality: `t1 = t2 | ~(t1 <= t2) | ~(t2 <= t1)` given as ONE disjunction -/
def laDisequality (cl : List Tm) : Except Err Seq :=
  match cl with
  | [goal] =>
    match stripDisj goal with
    | [e, mkNot (mkLe a1 a2), mkNot (mkLe b1 b2)] =>
      match e with
      | mkIff t1 t2 | mkEq t1 t2 =>
        if t1 == a1 && t1 == b2 && t2 == a2 && t2 == b1 then .ok ⟨[], goal⟩ else .error .verit
      | _ => .error .verit
    | _ => .error .verit
  | _ => .error .verit

/-- verit_la_rw_eq: `(t = u) <--> (t <= u) & (u <= t)` -/
def laRwEq (cl : List Tm) : Except Err Seq :=
  match cl with
  | [goal] =>
    match goal with
    | mkIff lhs rhs | mkEq lhs rhs =>
      match lhs, rhs with
      | mkEq t u, mkAnd (mkLe a1 a2) (mkLe b1 b2) | mkIff t u, mkAnd (mkLe a1 a2) (mkLe b1 b2) =>
        if t == a1 && t == b2 && u == a2 && u == b1 then .ok ⟨[], goal⟩ else .error .verit
      | _, _ => .error .verit
    | _ => .error .verit
  | _ => .error .verit

-- ------------------------------------------------------------------ equality chains

/-- `t.is_equals()` with the kind of the `equals` constant (6 at type bool, 7 otherwise), `t.lhs`, `t.rhs` -/
def destEq : Tm → Option (Nat × Tm × Tm)
  | mkIff a b => some (6, a, b)
  | mkEq a b => some (7, a, b)
  | _ => none

/-- the negated equalities `args[:-1]` of eq_transitive / eq_congruent -/
def destNegEqs : List Tm → Option (List (Nat × Tm × Tm))
  | [] => some []
  | mkNot e :: rest =>
    match destEq e, destNegEqs rest with
    | some x, some xs => some (x :: xs)
    | _, _ => none
  | _ :: _ => none

/-- the loop of eq_transitive: extend `cur` on the right by the next premise, in either orientation -/
def eqTransLoop (cur : Tm × Tm) : List (Nat × Tm × Tm) → Option (Tm × Tm)
  | [] => some cur
  | (_, l, r) :: rest =>
    if cur.2 == l then eqTransLoop (cur.1, r) rest
    else if cur.2 == r then eqTransLoop (cur.1, l) rest
    else none

/-- verit_eq_transitive.  `Eq(s, t)` rebuilds an equality at the type of `s`: for well-typed
arguments that is the `equals` constant of the first premise (kind `k0`). -/
def eqTransitive (cl : List Tm) : Except Err Seq :=
  if cl.length < 3 then .error .verit else
  match destNegEqs cl.dropLast, cl.getLast? with
  | some ((k0, l0, r0) :: prems), some goal =>
    match destEq goal with
    | none => .error .assertion
    | some (kg, gl, gr) =>
      let inG (t : Tm) := t == gl || t == gr
      if !inG l0 && !inG r0 then .error .verit else
      let cur0 : Tm × Tm := if !inG l0 && inG r0 then (r0, l0) else (l0, r0)
      match eqTransLoop cur0 prems with
      | none => .error .verit
      | some cur =>
        if (kg == k0 && cur.1 == gl && cur.2 == gr) || (cur.1 == gr && cur.2 == gl) then .ok ⟨[], mkOrs cl⟩
        else .error .verit
  | _, _ => .error .verit

def isComb : Tm → Bool
  | .comb _ _ => true
  | _ => false

/-- `for (i, j), (m, n) in zip(preds_eq, concl_eq)`: each premise is the argument pair, in either orientation -/
def pairsMatch : List (Nat × Tm × Tm) → List (Tm × Tm) → Bool
  | (_, i, j) :: es, (m, n) :: ps => ((i == m && j == n) || (i == n && j == m)) && pairsMatch es ps
  | _, _ => true

/-- verit_eq_congruent -/
def eqCongruent (cl : List Tm) : Except Err Seq :=
  if cl.length < 2 then .error .verit else
  match destNegEqs cl.dropLast, cl.getLast? with
  | some es, some goal =>
    match destEq goal with
    | none => .error .verit
    | some (_, gl, gr) =>
      if !(isComb gl && isComb gr && head gl == head gr) then .error .verit else
      let ce := List.zip (args gl) (args gr)
      if es.length != ce.length then .error .verit
      else if pairsMatch es ce then .ok ⟨[], mkOrs cl⟩ else .error .verit
  | _, _ => .error .verit

/-- the loop of verit_trans: the next premise may attach at either end; a premise that does not
connect is skipped (`continue`) -/
def transLoop (cur : Tm × Tm) : List (Tm × Tm) → Tm × Tm
  | [] => cur
  | (l, r) :: rest =>
    if cur.2 == l then transLoop (cur.1, r) rest
    else if cur.2 == r then transLoop (cur.1, l) rest
    else if cur.1 == l then transLoop (cur.2, r) rest
    else if cur.1 == r then transLoop (l, cur.2) rest
    else transLoop cur rest

/-- the premises that `transLoop` actually attaches are first-order equalities (skipped ones may be anything) -/
def transUsesEq (cur : Tm × Tm) : List (Nat × Tm × Tm) → Bool
  | [] => true
  | (k, l, r) :: rest =>
    if cur.2 == l then k == 7 && transUsesEq (cur.1, r) rest
    else if cur.2 == r then k == 7 && transUsesEq (cur.1, l) rest
    else if cur.1 == l then k == 7 && transUsesEq (cur.2, r) rest
    else if cur.1 == r then k == 7 && transUsesEq (l, cur.2) rest
    else transUsesEq cur rest

def destEqs : List Tm → Option (List (Nat × Tm × Tm))
  | [] => some []
  | e :: rest =>
    match destEq e, destEqs rest with
    | some x, some xs => some (x :: xs)
    | _, _ => none

/-- verit_trans: hypotheses are all hypotheses of the premises, in order (not de-duplicated) -/
def transRule (cl : List Tm) (ps : List Seq) : Except Err Seq :=
  match cl with
  | [arg] =>
    match destEq arg with
    | none => .error .verit
    | some (ka, al, ar) =>
      if ps.length < 2 then .error .verit else
      match destEqs (ps.map (·.prop)) with
      | some ((k0, l0, r0) :: rest) =>
        let cur := transLoop (l0, r0) (rest.map (·.2))
        if ka == k0 && ((cur.1 == al && cur.2 == ar) || (cur.2 == al && cur.1 == ar))
        then .ok ⟨ps.flatMap (·.hyps), arg⟩ else .error .verit
      | _ => .error .verit
  | _ => .error .verit

end Holpy.C18
