import Holpy.C18.Model
/-
C18 — model of the `eval` methods of the propositional simplification rules
(`not_simplify`, `and_simplify`, `or_simplify`, `implies_simplify`, `equiv_simplify`,
`bool_simplify`, `ite_simplify`), for the fixed code.  Each rule takes ONE literal, an equality
`lhs = rhs` (`is_equals()`: the code does not look at the type of `equals`), and returns it.
Import-free.
-/
namespace Holpy.C18
open Tm

/-- `len(args) == 1 and args[0].is_equals()`: the goal, its two sides -/
def goalEq (cl : List Tm) : Option (Tm × Tm × Tm) :=
  match cl with
  | [g] => match destEq g with
    | some (_, l, r) => some (g, l, r)
    | none => none
  | _ => none

/-- verit_not_simplify -/
def notSimplify (cl : List Tm) : Except Err Seq :=
  match goalEq cl with
  | none => .error .verit
  | some (g, lhs, rhs) =>
    if !isNot lhs then .error .verit
    else if lhs == mkNot ff && rhs == tt then .ok ⟨[], g⟩
    else if lhs == mkNot tt && rhs == ff then .ok ⟨[], g⟩
    else if lhs == mkNot (mkNot rhs) then .ok ⟨[], g⟩
    else .error .verit

/-- `Not(a) == b or a == Not(b)` -/
def complPair (a b : Tm) : Bool := mkNot a == b || a == mkNot b

/-- some suffix `t` (from a later position on) with `c == Not(And(*t))` -/
def tailsMatch (c : Tm) : List Tm → Bool
  | [] => false
  | d :: rest => c == mkNot (mkAnds (d :: rest)) || tailsMatch c rest

/-- case 5 of and_simplify: positions `i < j` with complementary conjuncts, or
`conjs[i] == Not(And(*conjs[j:]))` -/
def andCase5 : List Tm → Bool
  | [] => false
  | c :: rest => rest.any (complPair c) || tailsMatch c rest || andCase5 rest

/-- verit_and_simplify -/
def andSimplify (cl : List Tm) : Except Err Seq :=
  match goalEq cl with
  | none => .error .verit
  | some (g, lhs, rhs) =>
    let cs := stripConj lhs
    if mkAnds (cs.filter (fun c => c != tt)) == rhs then .ok ⟨[], g⟩
    else if mkAnds (dedup cs []) == rhs then .ok ⟨[], g⟩
    else if cs.contains ff && rhs == ff then .ok ⟨[], g⟩
    else if andCase5 cs && rhs == ff then .ok ⟨[], g⟩
    else .error .verit

/-- positions `i < j` with complementary disjuncts -/
def hasCompl : List Tm → Bool
  | [] => false
  | c :: rest => rest.any (complPair c) || hasCompl rest

/-- verit_or_simplify: a complementary pair decides (accept iff `rhs == true`); otherwise remove
`false`, or the same set of disjuncts, or `true` among the disjuncts -/
def orSimplify (cl : List Tm) : Except Err Seq :=
  match goalEq cl with
  | none => .error .verit
  | some (g, lhs, rhs) =>
    let ds := stripDisj lhs
    if hasCompl ds then (if rhs == tt then .ok ⟨[], g⟩ else .error .verit)
    else if mkOrs (ds.filter (fun d => d != ff)) == rhs then .ok ⟨[], g⟩
    else if ds.all (stripDisj rhs).contains && (stripDisj rhs).all ds.contains then .ok ⟨[], g⟩
    else if ds.contains tt && rhs == tt then .ok ⟨[], g⟩
    else .error .verit

/-- verit_implies_simplify (case 9 as fixed by C18-26) -/
def impliesSimplify (cl : List Tm) : Except Err Seq :=
  match goalEq cl with
  | none => .error .verit
  | some (g, lhs, rhs) =>
    match lhs with
    | mkImp prem concl =>
      let case1 := match rhs with
        | mkImp q1 q2 => prem == mkNot q2 && concl == mkNot q1
        | _ => false
      if case1 then .ok ⟨[], g⟩
      else if prem == ff && rhs == tt then .ok ⟨[], g⟩
      else if concl == tt && concl == rhs then .ok ⟨[], g⟩
      else if prem == tt && concl == rhs then .ok ⟨[], g⟩
      else if concl == ff && mkNot prem == rhs then .ok ⟨[], g⟩
      else if prem == concl && rhs == tt then .ok ⟨[], g⟩
      else if prem == mkNot concl && rhs == concl then .ok ⟨[], g⟩
      else if concl == mkNot prem && rhs == concl then .ok ⟨[], g⟩
      else match prem, rhs with
        | mkImp p q, mkOr r1 r2 => if p == r1 && q == concl && concl == r2 then .ok ⟨[], g⟩ else .error .verit
        | _, _ => .error .verit
    | _ => .error .verit

/-- case 1 of equiv_simplify: `(~c <--> ~d) <--> (c <--> d)` -/
def equivCase1 (a b rhs : Tm) : Bool :=
  match destEq rhs with
  | some (_, c, d) => a == mkNot c && b == mkNot d
  | none => false

/-- verit_equiv_simplify -/
def equivSimplify (cl : List Tm) : Except Err Seq :=
  match goalEq cl with
  | none => .error .verit
  | some (g, lhs, rhs) =>
    match destEq lhs with
    | none => .error .verit
    | some (_, a, b) =>
      if equivCase1 a b rhs then .ok ⟨[], g⟩
      else if a == b && rhs == tt then .ok ⟨[], g⟩
      else if mkNot a == b && rhs == ff then .ok ⟨[], g⟩
      else if mkNot b == a && rhs == ff then .ok ⟨[], g⟩
      else if a == tt && b == rhs then .ok ⟨[], g⟩
      else if b == tt && a == rhs then .ok ⟨[], g⟩
      else if mkNot b == rhs && a == ff then .ok ⟨[], g⟩
      else if mkNot a == rhs && b == ff then .ok ⟨[], g⟩
      else .error .verit

/-- verit_bool_simplify: the first case whose shape test matches decides -/
def boolSimplify (cl : List Tm) : Except Err Seq :=
  match goalEq cl with
  | none => .error .verit
  | some (g, lhs, rhs) =>
    match lhs, rhs with
    | mkNot (mkImp p q), mkAnd r1 r2 => if p == r1 && mkNot q == r2 then .ok ⟨[], g⟩ else .error .verit
    | mkNot (mkOr p q), mkAnd r1 r2 => if mkNot p == r1 && mkNot q == r2 then .ok ⟨[], g⟩ else .error .verit
    | mkNot (mkAnd p q), mkOr r1 r2 => if mkNot p == r1 && mkNot q == r2 then .ok ⟨[], g⟩ else .error .verit
    | mkImp p1 (mkImp p2 p3), mkImp (mkAnd q1 q2) q3 =>
      if p1 == q1 && p2 == q2 && p3 == q3 then .ok ⟨[], g⟩ else .error .verit
    | mkImp (mkImp p1 p2) p3, mkOr q1 q2 => if p1 == q1 && p2 == q2 && p3 == q2 then .ok ⟨[], g⟩ else .error .verit
    | mkAnd p1 (mkImp p2 p3), mkAnd q1 q2 => if p1 == p2 && p1 == q1 && p3 == q2 then .ok ⟨[], g⟩ else .error .verit
    | mkAnd (mkImp p1 p2) p3, mkAnd q1 q2 => if p1 == p3 && p1 == q1 && p2 == q2 then .ok ⟨[], g⟩ else .error .verit
    | _, _ => .error .verit

/-- `compare_ite`, the cases that hold at every type (1-4, 7, 8; 7 and 8 as fixed by C18-13).
When both sides are if-then-else terms only cases 4, 7, 8 are tried, and a nested `then` branch
decides for case 7 alone. -/
def compareIteEv (i1 i2 : Tm) : Bool :=
  match i1 with
  | mkIte lP lT lE =>
    match i2 with
    | mkIte rP rT rE =>
      if lP == mkNot rP && lT == rE && lE == rT then true
      else match lT with
        | mkIte tP tT _ => lP == tP && lP == rP && tT == rT && lE == rE
        | _ => match lE with
          | mkIte eP _ eE => lP == eP && lP == rP && lT == rT && eE == rE
          | _ => false
    | _ => (lP == tt && i2 == lT) || (lP == ff && i2 == lE) || (lT == lE && i2 == lT)
  | _ => false

/-- `compare_ite`, the boolean cases 9-16 (the right side is not an if-then-else) -/
def compareIteBool (i1 i2 : Tm) : Bool :=
  match i1 with
  | mkIte lP lT lE =>
    if isIf i2 then false else
    (lT == tt && lE == ff && i2 == lP) ||
    (lT == ff && lE == tt && i2 == mkNot lP) ||
    (lT == tt && i2 == mkOr lP lE) ||
    (lE == ff && i2 == mkAnd lP lT) ||
    (lT == ff && i2 == mkAnd (mkNot lP) lE) ||
    (lE == tt && i2 == mkOr (mkNot lP) lT) ||
    (match lP with
     | mkNot p => (lE == tt && i2 == mkOr p lT) || (lT == ff && i2 == mkAnd p lE)
     | _ => false)
  | _ => false

/-- verit_ite_simplify: `compare_ite(lhs, rhs) or compare_ite(rhs, lhs)` -/
def iteSimplify (cl : List Tm) : Except Err Seq :=
  match goalEq cl with
  | none => .error .verit
  | some (g, lhs, rhs) =>
    if compareIteEv lhs rhs || compareIteBool lhs rhs || compareIteEv rhs lhs || compareIteBool rhs lhs
    then .ok ⟨[], g⟩ else .error .verit

/-- verit_connective_def, the quantifier-free cases (as fixed by C18-12):
`(p <--> q) <--> (p --> q) & (q --> p)` and `(if p then q else r) <--> (p --> q) & (~p --> r)`.
The case `?x. P <--> ~!x. ~P` needs binders: instances with binders are not given to the model. -/
def connectiveDef (cl : List Tm) : Except Err Seq :=
  match goalEq cl with
  | none => .error .verit
  | some (g, lhs, rhs) =>
    match destEq lhs with
    | some (_, p1, p2) =>
      match rhs with
      | mkAnd (mkImp q1 q2) (mkImp o1 o2) =>
        if q1 == p1 && o2 == p1 && p2 == q2 && o1 == p2 then .ok ⟨[], g⟩ else .error .verit
      | _ => .error .verit
    | none =>
      match lhs, rhs with
      | mkIte p1 p2 p3, mkAnd (mkImp q1 q2) (mkImp o1 o2) =>
        if q1 == p1 && o1 == mkNot p1 && p2 == q2 && o2 == p3 then .ok ⟨[], g⟩ else .error .verit
      | _, _ => .error .verit

/-- the loop `all(g == Not(p) for g, p in zip(goal_neg_tms, input_prop))` -/
def negsOf : List Tm → List Tm → Bool
  | g :: gs, p :: ps => g == mkNot p && negsOf gs ps
  | _, _ => true

/-- verit_subproof (as fixed by C18-10): the premises are the assumptions of the subproof followed
by its last step; the discharged assumptions disappear from the hypotheses -/
def subproof (cl : List Tm) (ps : List Seq) : Except Err Seq :=
  if cl.length ≤ 1 then .error .verit
  else if ps.length == 0 then .error .verit
  else if cl.length != ps.length then .error .verit
  else
    match ps.getLast?, cl.getLast? with
    | some last, some gc =>
      let input := ps.dropLast.map (·.prop)
      if negsOf cl.dropLast input && gc == last.prop then
        .ok ⟨dedup ((ps.flatMap (·.hyps)).filter (fun h => !input.contains h)) [], mkOrs cl⟩
      else .error .verit
    | _, _ => .error .verit

-- ------------------------------------------------------------------ cong (compare_sym_tm with depth 1)

def isVarTm : Tm → Bool
  | .var _ => true
  | _ => false

/-- `(t1, t2) in ctx or (t2, t1) in ctx` -/
def inCtx (ctx : List (Tm × Tm)) (a b : Tm) : Bool := ctx.contains (a, b) || ctx.contains (b, a)

/-- `helper(a, b, 0)`: identified by the context, or the same term -/
def h0 (ctx : List (Tm × Tm)) (a b : Tm) : Bool := inCtx ctx a b || a == b

/-- the `while cur1.is_conj() and cur2.is_conj() and helper(cur1.arg1, cur2.arg1, 0)` loop;
`prog` = the loop has advanced at least once -/
def conjLoop (ctx : List (Tm × Tm)) : Tm → Tm → Bool → Bool
  | mkAnd a1 b1, t2, prog =>
    match t2 with
    | mkAnd a2 b2 =>
      if h0 ctx a1 a2 then (if ctx.contains (b1, b2) then true else conjLoop ctx b1 b2 true)
      else (if prog then h0 ctx (mkAnd a1 b1) t2 else false)
    | _ => if prog then h0 ctx (mkAnd a1 b1) t2 else false
  | t1, t2, prog => if prog then h0 ctx t1 t2 else false

def disjLoop (ctx : List (Tm × Tm)) : Tm → Tm → Bool → Bool
  | mkOr a1 b1, t2, prog =>
    match t2 with
    | mkOr a2 b2 =>
      if h0 ctx a1 a2 then (if ctx.contains (b1, b2) then true else disjLoop ctx b1 b2 true)
      else (if prog then h0 ctx (mkOr a1 b1) t2 else false)
    | _ => if prog then h0 ctx (mkOr a1 b1) t2 else false
  | t1, t2, prog => if prog then h0 ctx t1 t2 else false

/-- `all(helper(l, r, 0) for l, r in zip(t1.args, t2.args))` -/
def zipAll (ctx : List (Tm × Tm)) : List Tm → List Tm → Bool
  | a :: as, b :: bs => h0 ctx a b && zipAll ctx as bs
  | _, _ => true

/-- `compare_sym_tm(t1, t2, ctx=ctx, depth=1)` for terms without binders whose heads are not
`plus`, `let` or `distinct` (other instances are not given to the model) -/
def cmpSym1 (ctx : List (Tm × Tm)) (t1 t2 : Tm) : Bool :=
  if inCtx ctx t1 t2 then true
  else if isVarTm t1 || isVarTm t2 then t1 == t2
  else if isComb t1 then
    if !(isComb t2 && head t1 == head t2) then false
    else match destEq t1, destEq t2 with
      | some (_, l1, r1), some (_, l2, r2) =>
        (h0 ctx l1 l2 && h0 ctx r1 r2) || (h0 ctx r1 l2 && h0 ctx l1 r2)
      | some _, none => false                         -- same head: cannot happen
      | none, _ =>
        match t1 with
        | mkAnd _ _ => conjLoop ctx t1 t2 false
        | mkOr _ _ => disjLoop ctx t1 t2 false
        | _ => zipAll ctx (args t1) (args t2)
  else t1 == t2

/-- verit_cong (as fixed by C18-14) -/
def congRule (cl : List Tm) (ps : List Seq) : Except Err Seq :=
  match goalEq cl with
  | none => .error .verit
  | some (g, lhs, rhs) =>
    if head lhs != head rhs then .error .verit else
    match destEqs (ps.map (·.prop)) with
    | none => .error .verit
    | some es =>
      let ctx := es.flatMap (fun e => [(e.2.1, e.2.2), (e.2.2, e.2.1)])
      if cmpSym1 ctx lhs rhs then .ok ⟨unionHyps ps, g⟩ else .error .verit

end Holpy.C18
