import Holpy.Common.Sexp
import Holpy.C18.Model
/-
Line protocol of the C18 model (one s-expression in, one out):
  (eval RULE (TERM ...) (NAT ...) ((HYPS PROP) ...))  ->  (ok (TERM ...) TERM WK) | (reject ERR) | bad-op
  (rules)                                            ->  (NAME ...)        the rules the model knows
TERM = (v n) | (k c) | (c TERM TERM);  HYPS = (TERM ...);  WK = T | F (`wellKinded`)
-/
open Holpy Holpy.C18

namespace Holpy.C18.Driver

partial def tmOf : Sexp → Option Tm
  | .list [.atom "v", n] => do some (.var (← n.toNat?))
  | .list [.atom "k", n] => do some (.const (← n.toNat?))
  | .list [.atom "c", f, a] => do some (.comb (← tmOf f) (← tmOf a))
  | _ => none

partial def tmTo : Tm → Sexp
  | .var n => .list [.atom "v", Sexp.ofNat n]
  | .const n => .list [.atom "k", Sexp.ofNat n]
  | .comb f a => .list [.atom "c", tmTo f, tmTo a]

def tmsOf (s : Sexp) : Option (List Tm) := do (← s.toList?).mapM tmOf
def natsOf (s : Sexp) : Option (List Nat) := do (← s.toList?).mapM Sexp.toNat?
def seqOf : Sexp → Option Seq
  | .list [h, p] => do some ⟨← tmsOf h, ← tmOf p⟩
  | _ => none
def seqsOf (s : Sexp) : Option (List Seq) := do (← s.toList?).mapM seqOf

def errTo : Err → String
  | .verit => "verit"
  | .attr => "attr"
  | .assertion => "assertion"
  | .unpack => "unpack"
  | .index => "index"

def handle (line : String) : String :=
  match Sexp.parse line with
  | some (.list [.atom "eval", .atom r, cl, sizes, ps]) =>
    match Rule.ofName r, tmsOf cl, natsOf sizes, seqsOf ps with
    | some rule, some c, some z, some p =>
      match evalRule rule c z p with
      | .ok s => toString (Sexp.list [.atom "ok", .list (s.hyps.map tmTo), tmTo s.prop, Sexp.ofBool (wellKinded rule c p)])
      | .error e => toString (Sexp.list [.atom "reject", .atom (errTo e)])
    | _, _, _, _ => "bad-op"
  | some (.list [.atom "rules"]) => toString (Sexp.list (Rule.all.map fun r => .atom r.name))
  | _ => "bad-op"

end Holpy.C18.Driver

def main : IO Unit := Holpy.lineLoop Holpy.C18.Driver.handle
