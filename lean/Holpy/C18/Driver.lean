import Holpy.Common.Sexp
import Holpy.C18.ModelRules
import Holpy.C18.ModelLA
import Holpy.C18.ModelArith
/-
Line protocol of the C18 model (one s-expression in, one out):
  (eval RULE (TERM ...) (NAT ...) ((HYPS PROP) ...))  ->  (ok (TERM ...) TERM WK) | (reject ERR) | bad-op
  (rules)                                            ->  (NAME ...)        the rules the model knows
  (proof (CMD ...))                                  ->  (ok (TERM ...) TERM WK) | (reject ERR)   last sequent of
                                                         `validate(is_eval=True)`; WK = the run with the wellKinded test agrees
  (refl (TERM) ((VAR TERM) ...))                     ->  (ok (TERM ...) TERM T) | (reject ERR)   verit_refl with its context
  (la Z|Q (LIT ...) (NUM ...))                       ->  T | F             la_generic / la_tautology accepts?
TERM = (v n) | (k c) | (c TERM TERM);  HYPS = (TERM ...);  WK = T | F (`wellKinded`)
CMD = (assume TERM) | (step RULE (TERM ...) (NAT ...) (NAT ...))     premises = positions of earlier commands
  (arith comp Z|Q CMP ATM ATM RHS) | (arith minus Z|Q ATM ATM) | (arith uminus Z|Q ATM ATM) | (arith div Q ATM ATM) | (arith sum|prod Z|Q ATM ATM)
  | (arith eqs Z|Q NEG ATM ATM tt|ff|other)  ->  T | F
ATM = (l n) | (a k) | (+ ATM ATM) | (- ATM ATM) | (~ ATM) | (* ATM ATM) | (/ ATM ATM);  CMP in lt le gt ge
RHS = tt | ff | (le ATM ATM) | (nle ATM ATM) | other
LIT = (T|F REL LTM LTM) with REL in lt le eq gt ge other;  NUM = (numerator denominator)
LTM = (n NUM) | (a k) | (+ LTM LTM) | (- LTM LTM) | (~ LTM) | (* NUM LTM) | (bad LTM)
-/
open Holpy Holpy.C18

namespace Holpy.C18.Driver

partial def tmOf : Sexp → Option Tm
  | .list [.atom "v", n] => do some (.var (← n.toNat?))
  | .list [.atom "k", n] => do some (.const (← n.toNat?))
  | .list [.atom "c", f, a] => do some (.comb (← tmOf f) (← tmOf a))
  | _ => none

partial def tmTo : Tm → Sexp
  | .var n => .list [.atom "v", Sexp.ofNat n]
  | .const n => .list [.atom "k", Sexp.ofNat n]
  | .comb f a => .list [.atom "c", tmTo f, tmTo a]

def tmsOf (s : Sexp) : Option (List Tm) := do (← s.toList?).mapM tmOf
def natsOf (s : Sexp) : Option (List Nat) := do (← s.toList?).mapM Sexp.toNat?
def seqOf : Sexp → Option Seq
  | .list [h, p] => do some ⟨← tmsOf h, ← tmOf p⟩
  | _ => none
def seqsOf (s : Sexp) : Option (List Seq) := do (← s.toList?).mapM seqOf

def errTo : Err → String
  | .verit => "verit"
  | .attr => "attr"
  | .assertion => "assertion"
  | .unpack => "unpack"
  | .index => "index"

open Holpy.C18.LA in
def numQ : Sexp → Option Rat
  | .list [n, d] => do
    let a ← n.toInt?
    let b ← d.toNat?
    if b = 0 then none else some (mkRat a b)
  | _ => none

open Holpy.C18.LA in
def numZ : Sexp → Option Int
  | .list [n, d] => do
    let a ← n.toInt?
    let b ← d.toNat?
    if b = 1 then some a else none
  | _ => none

open Holpy.C18.LA in
partial def ltmOf {α : Type} (num : Sexp → Option α) : Sexp → Option (LA.LTm α)
  | .list [.atom "n", q] => do some (.num (← num q))
  | .list [.atom "a", k] => do some (.atom (← k.toNat?))
  | .list [.atom "+", a, b] => do some (.add (← ltmOf num a) (← ltmOf num b))
  | .list [.atom "-", a, b] => do some (.sub (← ltmOf num a) (← ltmOf num b))
  | .list [.atom "~", a] => do some (.neg (← ltmOf num a))
  | .list [.atom "*", c, a] => do some (.mul (← num c) (← ltmOf num a))
  | .list [.atom "bad", a] => do some (.badMul (← ltmOf num a))
  | _ => none

open Holpy.C18.LA in
def relOf : Sexp → Option Rel
  | .atom "lt" => some .lt
  | .atom "le" => some .le
  | .atom "eq" => some .eq
  | .atom "gt" => some .gt
  | .atom "ge" => some .ge
  | .atom "other" => some .other
  | _ => none

open Holpy.C18.LA in
def litOf {α : Type} (num : Sexp → Option α) : Sexp → Option (LA.Lit α)
  | .list [n, r, a, b] => do some ⟨← n.toBool?, ← relOf r, ← ltmOf num a, ← ltmOf num b⟩
  | _ => none

partial def atmOf {α : Type} : Sexp → Option (Arith.ATm α)
  | .list [.atom "l", n] => do some (.lit (← n.toNat?))
  | .list [.atom "a", k] => do some (.atom (← k.toNat?))
  | .list [.atom "+", a, b] => do some (.add (← atmOf a) (← atmOf b))
  | .list [.atom "-", a, b] => do some (.sub (← atmOf a) (← atmOf b))
  | .list [.atom "~", a] => do some (.neg (← atmOf a))
  | .list [.atom "*", a, b] => do some (.mul (← atmOf a) (← atmOf b))
  | .list [.atom "/", a, b] => do some (.div (← atmOf a) (← atmOf b))
  | _ => none

def cmpOf : Sexp → Option Arith.Cmp
  | .atom "lt" => some .lt
  | .atom "le" => some .le
  | .atom "gt" => some .gt
  | .atom "ge" => some .ge
  | _ => none

def crhsOf {α : Type} : Sexp → Option (Arith.CRhs α)
  | .atom "tt" => some .tt
  | .atom "ff" => some .ff
  | .atom "other" => some .other
  | .list [.atom "le", a, b] => do some (.le (← atmOf a) (← atmOf b))
  | .list [.atom "nle", a, b] => do some (.nle (← atmOf a) (← atmOf b))
  | _ => none

def erhsOf : Sexp → Option Arith.ERhs
  | .atom "tt" => some .tt
  | .atom "ff" => some .ff
  | .atom "other" => some .other
  | _ => none

def arithOp : List Sexp → Option Bool
  | [.atom "comp", .atom "Q", c, a, b, r] => do some (Arith.compSimplifyQ (← cmpOf c) (← atmOf a) (← atmOf b) (← crhsOf r))
  | [.atom "comp", .atom "Z", c, a, b, r] => do some (Arith.compSimplifyZ (← cmpOf c) (← atmOf a) (← atmOf b) (← crhsOf r))
  | [.atom "minus", .atom "Q", a, b] => do some (Arith.minusSimplifyQ (← atmOf a) (← atmOf b))
  | [.atom "minus", .atom "Z", a, b] => do some (Arith.minusSimplifyZ (← atmOf a) (← atmOf b))
  | [.atom "uminus", .atom "Q", a, b] => do some (Arith.unaryMinusSimplifyQ (← atmOf a) (← atmOf b))
  | [.atom "uminus", .atom "Z", a, b] => do some (Arith.unaryMinusSimplifyZ (← atmOf a) (← atmOf b))
  | [.atom "sum", .atom "Q", a, b] => do some (Arith.sumSimplifyQ (← atmOf a) (← atmOf b))
  | [.atom "sum", .atom "Z", a, b] => do some (Arith.sumSimplifyZ (← atmOf a) (← atmOf b))
  | [.atom "prod", .atom "Q", a, b] => do some (Arith.prodSimplify (α := Rat) (← atmOf a) (← atmOf b))
  | [.atom "prod", .atom "Z", a, b] => do some (Arith.prodSimplify (α := Int) (← atmOf a) (← atmOf b))
  | [.atom "div", .atom "Q", a, b] => do some (Arith.divSimplifyQ (← atmOf a) (← atmOf b))
  | [.atom "eqs", .atom "Q", n, a, b, r] => do some (Arith.eqSimplifyQ (← n.toBool?) (← atmOf a) (← atmOf b) (← erhsOf r))
  | [.atom "eqs", .atom "Z", n, a, b, r] => do some (Arith.eqSimplifyZ (← n.toBool?) (← atmOf a) (← atmOf b) (← erhsOf r))
  | _ => none

def cmdOf : Sexp → Option Cmd
  | .list [.atom "assume", t] => do some (.assume (← tmOf t))
  | .list [.atom "step", .atom r, cl, sizes, prems] => do
    some (.step (← Rule.ofName r) (← tmsOf cl) (← natsOf sizes) (← natsOf prems))
  | _ => none

def handle (line : String) : String :=
  match Sexp.parse line with
  | some (.list [.atom "eval", .atom r, cl, sizes, ps]) =>
    match Rule.ofName r, tmsOf cl, natsOf sizes, seqsOf ps with
    | some rule, some c, some z, some p =>
      match evalRule rule c z p with
      | .ok s => toString (Sexp.list [.atom "ok", .list (s.hyps.map tmTo), tmTo s.prop, Sexp.ofBool (wellKinded rule c p)])
      | .error e => toString (Sexp.list [.atom "reject", .atom (errTo e)])
    | _, _, _, _ => "bad-op"
  | some (.list [.atom "proof", cmds]) =>
    match (do (← cmds.toList?).mapM cmdOf) with
    | some cs =>
      match runProofRaw cs [] with
      | .ok res =>
        match res.getLast? with
        | some s =>
          let wk := match runProof cs [] with
            | .ok res' => res'.getLast? == some s
            | .error _ => false
          toString (Sexp.list [.atom "ok", .list (s.hyps.map tmTo), tmTo s.prop, Sexp.ofBool wk])
        | none => "(reject empty)"
      | .error e => toString (Sexp.list [.atom "reject", .atom (errTo e)])
    | none => "bad-op"
  | some (.list [.atom "refl", cl, ctx]) =>
    match tmsOf cl, (do (← ctx.toList?).mapM (fun p => match p with
        | .list [a, b] => do some ((← tmOf a), (← tmOf b))
        | _ => none)) with
    | some c, some cx =>
      match reflRule c cx with
      | .ok s => toString (Sexp.list [.atom "ok", .list (s.hyps.map tmTo), tmTo s.prop, Sexp.ofBool true])
      | .error e => toString (Sexp.list [.atom "reject", .atom (errTo e)])
    | _, _ => "bad-op"
  | some (.list (.atom "arith" :: rest)) =>
    match arithOp rest with
    | some b => toString (Sexp.ofBool b)
    | none => "bad-op"
  | some (.list [.atom "la", .atom "Q", lits, cs]) =>
    match (do (← lits.toList?).mapM (litOf numQ)), (do (← cs.toList?).mapM numQ) with
    | some ls, some c => toString (Sexp.ofBool (LA.laGenericQ ls c))
    | _, _ => "bad-op"
  | some (.list [.atom "la", .atom "Z", lits, cs]) =>
    match (do (← lits.toList?).mapM (litOf numZ)), (do (← cs.toList?).mapM numZ) with
    | some ls, some c => toString (Sexp.ofBool (LA.laGenericZ ls c))
    | _, _ => "bad-op"
  | some (.list [.atom "rules"]) => toString (Sexp.list (Rule.all.map fun r => .atom r.name))
  | _ => "bad-op"

end Holpy.C18.Driver

def main : IO Unit := Holpy.lineLoop Holpy.C18.Driver.handle
