import Holpy.C18.ProofsClause2
namespace Holpy.C18
open Tm

theorem tr_mkAnds (I) (xs : List Tm) : tr I (mkAnds xs) ↔ ∀ x ∈ xs, tr I x := by
  induction xs with
  | nil => simp [mkAnds]
  | cons x xs ih =>
    cases xs with
    | nil => simp [mkAnds]
    | cons y ys => simp only [mkAnds, tr_and, ih]; simp

theorem goalEq_spec {cl : List Tm} {g l r : Tm} (h : goalEq cl = some (g, l, r)) :
    cl = [g] ∧ (g = mkIff l r ∨ g = mkEq l r) := by
  unfold goalEq at h
  split at h <;> try contradiction
  rename_i g'
  split at h <;> try contradiction
  rename_i k l' r' hd
  simp only [Option.some.injEq, Prod.mk.injEq] at h
  obtain ⟨rfl, rfl, rfl⟩ := h
  rcases destEq_spec' hd with ⟨_, e⟩ | ⟨_, e⟩
  · exact ⟨rfl, Or.inl e⟩
  · exact ⟨rfl, Or.inr e⟩
where
  destEq_spec' {t : Tm} {k : Nat} {a b : Tm} (h : destEq t = some (k, a, b)) :
      (k = 6 ∧ t = mkIff a b) ∨ (k = 7 ∧ t = mkEq a b) := by
    unfold destEq at h
    split at h <;> simp at h
    · obtain ⟨rfl, rfl, rfl⟩ := h; exact Or.inl ⟨rfl, rfl⟩
    · obtain ⟨rfl, rfl, rfl⟩ := h; exact Or.inr ⟨rfl, rfl⟩

/-- a simplification goal that is `equals` at type bool -/
theorem goal_iff {cl : List Tm} {g l r : Tm} (h : goalEq cl = some (g, l, r)) (hk : goalIsIff cl = true) :
    g = mkIff l r := by
  obtain ⟨rfl, h2⟩ := goalEq_spec h
  rcases h2 with rfl | rfl
  · rfl
  · simp [goalIsIff] at hk

theorem notSimplify_sound (I : Interp) (cl s) (h : notSimplify cl = .ok s) (hk : goalIsIff cl = true) : s.holds I := by
  unfold notSimplify at h
  split at h
  · contradiction
  rename_i g lhs rhs hg
  have hgi := goal_iff hg hk
  subst hgi
  repeat' (split at h <;> try contradiction)
  all_goals (cases h)
  all_goals (simp_all [Seq.holds])

theorem complPair_tr (I) (a b : Tm) (h : complPair a b = true) : ¬ (tr I a ∧ tr I b) := by
  unfold complPair at h
  simp only [Bool.or_eq_true, beq_iff_eq] at h
  rcases h with rfl | rfl <;> simp

theorem tailsMatch_tr (I) (c : Tm) (rest : List Tm) (h : tailsMatch c rest = true) :
    ¬ (tr I c ∧ ∀ x ∈ rest, tr I x) := by
  induction rest with
  | nil => simp [tailsMatch] at h
  | cons d rest ih =>
    simp only [tailsMatch, Bool.or_eq_true, beq_iff_eq] at h
    rcases h with rfl | h
    · rintro ⟨h1, h2⟩
      exact (tr_not I _).1 h1 ((tr_mkAnds I _).2 h2)
    · rintro ⟨h1, h2⟩
      exact ih h ⟨h1, fun x hx => h2 x (by simp [hx])⟩

theorem andCase5_tr (I) (cs : List Tm) (h : andCase5 cs = true) : ¬ ∀ c ∈ cs, tr I c := by
  induction cs with
  | nil => simp [andCase5] at h
  | cons c rest ih =>
    simp only [andCase5, Bool.or_eq_true, List.any_eq_true] at h
    intro hall
    rcases h with (⟨d, hd, hp⟩ | h) | h
    · exact complPair_tr I c d hp ⟨hall c (by simp), hall d (by simp [hd])⟩
    · exact tailsMatch_tr I c rest h ⟨hall c (by simp), fun x hx => hall x (by simp [hx])⟩
    · exact ih h (fun x hx => hall x (by simp [hx]))

theorem andSimplify_sound (I : Interp) (cl s) (h : andSimplify cl = .ok s) (hk : goalIsIff cl = true) : s.holds I := by
  unfold andSimplify at h
  split at h
  · contradiction
  rename_i g lhs rhs hg
  have hgi := goal_iff hg hk
  subst hgi
  dsimp only at h
  have hl := tr_stripConj I lhs
  split at h
  · rename_i hc
    first | (cases h; intro _; rw [tr_iff]) | skip
    have : rhs = mkAnds ((stripConj lhs).filter (fun c => c != tt)) := (beq_iff_eq.1 hc).symm
    rw [this, tr_mkAnds, ← hl]
    constructor
    · intro ha x hx; exact ha x (List.mem_filter.1 hx).1
    · intro ha x hx
      by_cases hxt : x = tt
      · subst hxt; exact tr_tt I
      · exact ha x (List.mem_filter.2 ⟨hx, by simpa using hxt⟩)
  split at h
  · rename_i hc
    first | (cases h; intro _; rw [tr_iff]) | skip
    have : rhs = mkAnds (dedup (stripConj lhs) []) := (beq_iff_eq.1 hc).symm
    rw [this, tr_mkAnds, ← hl]
    constructor
    · intro ha x hx
      rcases (mem_dedup x _ []).1 hx with hx | hx
      · exact ha x hx
      · simp at hx
    · intro ha x hx; exact ha x ((mem_dedup x _ []).2 (Or.inl hx))
  split at h
  · rename_i hc
    first | (cases h; intro _; rw [tr_iff]) | skip
    simp only [Bool.and_eq_true, beq_iff_eq, List.contains_iff_mem] at hc
    obtain ⟨hf, rfl⟩ := hc
    rw [← hl]
    constructor
    · intro ha; exact absurd (ha ff hf) (tr_ff I)
    · intro hff; exact absurd hff (tr_ff I)
  split at h
  · rename_i hc
    first | (cases h; intro _; rw [tr_iff]) | skip
    simp only [Bool.and_eq_true, beq_iff_eq] at hc
    obtain ⟨h5, rfl⟩ := hc
    rw [← hl]
    constructor
    · intro ha; exact absurd ha (andCase5_tr I _ h5)
    · intro hff; exact absurd hff (tr_ff I)
  · contradiction

theorem hasCompl_tr (I) (ds : List Tm) (h : hasCompl ds = true) : ∃ d ∈ ds, tr I d := by
  induction ds with
  | nil => simp [hasCompl] at h
  | cons c rest ih =>
    simp only [hasCompl, Bool.or_eq_true, List.any_eq_true] at h
    rcases h with ⟨d, hd, hp⟩ | h
    · unfold complPair at hp
      simp only [Bool.or_eq_true, beq_iff_eq] at hp
      by_cases hc : tr I c
      · exact ⟨c, by simp, hc⟩
      · rcases hp with rfl | rfl
        · exact ⟨_, by simp [hd], (tr_not I c).2 hc⟩
        · have : tr I d := Classical.byContradiction (fun hd' => hc ((tr_not I d).2 hd'))
          exact ⟨d, by simp [hd], this⟩
    · obtain ⟨d, hd, ht⟩ := ih h
      exact ⟨d, by simp [hd], ht⟩

theorem orSimplify_sound (I : Interp) (cl s) (h : orSimplify cl = .ok s) (hk : goalIsIff cl = true) : s.holds I := by
  unfold orSimplify at h
  split at h
  · contradiction
  rename_i g lhs rhs hg
  have hgi := goal_iff hg hk
  subst hgi
  dsimp only at h
  have hl := tr_stripDisj I lhs
  split at h
  · rename_i hc
    split at h <;> try contradiction
    rename_i hr
    cases h; intro _; rw [tr_iff]
    have : rhs = tt := beq_iff_eq.1 hr
    subst this
    simp only [tr_tt, iff_true]
    exact hl.1 (hasCompl_tr I _ hc)
  split at h
  · rename_i hc
    first | (cases h; intro _; rw [tr_iff]) | skip
    have : rhs = mkOrs ((stripDisj lhs).filter (fun d => d != ff)) := (beq_iff_eq.1 hc).symm
    rw [this, tr_mkOrs, ← hl]
    constructor
    · rintro ⟨x, hx, hxt⟩
      have hne : x ≠ ff := by rintro rfl; exact tr_ff I hxt
      exact ⟨x, List.mem_filter.2 ⟨hx, by simpa using hne⟩, hxt⟩
    · rintro ⟨x, hx, hxt⟩; exact ⟨x, (List.mem_filter.1 hx).1, hxt⟩
  split at h
  · rename_i hc
    first | (cases h; intro _; rw [tr_iff]) | skip
    simp only [Bool.and_eq_true, List.all_eq_true, List.contains_iff_mem] at hc
    rw [← hl, ← tr_stripDisj I rhs]
    constructor
    · rintro ⟨x, hx, hxt⟩; exact ⟨x, hc.1 x hx, hxt⟩
    · rintro ⟨x, hx, hxt⟩; exact ⟨x, hc.2 x hx, hxt⟩
  split at h
  · rename_i hc
    first | (cases h; intro _; rw [tr_iff]) | skip
    simp only [Bool.and_eq_true, beq_iff_eq, List.contains_iff_mem] at hc
    obtain ⟨ht, rfl⟩ := hc
    simp only [tr_tt, iff_true]
    exact hl.1 ⟨tt, ht, tr_tt I⟩
  · contradiction

end Holpy.C18
