import Holpy.C18.ProofsSimpB
namespace Holpy.C18
open Tm

theorem ev_ite (I : Interp) (c a b : Tm) : ev I (mkIte c a b) = if ev I c ≠ 0 then ev I a else ev I b := by
  by_cases hc : evAcc I c [] = 0 <;> simp [ev, evAcc, evApp, hc]

theorem ev_tt (I : Interp) : ev I tt = 1 := by simp [ev, evAcc, evApp]
theorem ev_ff (I : Interp) : ev I ff = 0 := by simp [ev, evAcc, evApp]
theorem ev_not (I : Interp) (a : Tm) : ev I (mkNot a) = if ev I a = 0 then 1 else 0 := by
  by_cases hc : evAcc I a [] = 0 <;> simp [ev, evAcc, evApp, hc, b2n]

theorem compareIteEv_sound (I : Interp) (a b : Tm) (h : compareIteEv a b = true) : ev I a = ev I b := by
  unfold compareIteEv at h
  repeat' (split at h <;> try contradiction)
  all_goals (simp only [Bool.and_eq_true, Bool.or_eq_true, beq_iff_eq] at h)
  all_goals (try simp only [ev_ite])
  all_goals (try (have ht := ev_tt I; have hf := ev_ff I; grind [ev_not]))

theorem compareIteBool_sound (I : Interp) (a b : Tm) (h : compareIteBool a b = true) : tr I a ↔ tr I b := by
  unfold compareIteBool at h
  repeat' (split at h <;> try contradiction)
  all_goals (simp only [Bool.and_eq_true, Bool.or_eq_true, beq_iff_eq, Bool.or_false] at h)
  all_goals (have ht := tr_tt I; have hf := tr_ff I; grind)

theorem iteSimplify_sound (I : Interp) (cl s) (h : iteSimplify cl = .ok s)
    (hk : wellKinded .iteSimplify cl [] = true) : s.holds I := by
  unfold iteSimplify at h
  split at h
  · contradiction
  rename_i g lhs rhs hg
  split at h <;> try contradiction
  rename_i hc
  cases h
  intro _
  simp only [wellKinded, hg, Bool.or_eq_true] at hk
  simp only [Bool.or_eq_true] at hc
  obtain ⟨rfl, h2⟩ := goalEq_spec hg
  have hiff : tr I lhs ↔ tr I rhs := by
    rcases hc with ((h1 | h1) | h1) | h1
    · rw [tr_def, tr_def, compareIteEv_sound I _ _ h1]
    · exact compareIteBool_sound I _ _ h1
    · rw [tr_def, tr_def, compareIteEv_sound I _ _ h1]
    · exact (compareIteBool_sound I _ _ h1).symm
  rcases h2 with rfl | rfl
  · exact (tr_iff I lhs rhs).2 hiff
  · rw [tr_eq]
    rcases hk with hk | hk
    · simp [goalIsIff] at hk
    · rcases hk with h1 | h1
      · exact compareIteEv_sound I _ _ h1
      · exact (compareIteEv_sound I _ _ h1).symm

theorem connectiveDef_sound (I : Interp) (cl s) (h : connectiveDef cl = .ok s)
    (hk : wellKinded .connectiveDef cl [] = true) : s.holds I := by
  unfold connectiveDef at h
  split at h
  · contradiction
  rename_i g lhs rhs hg
  simp only [wellKinded, hg, Bool.and_eq_true] at hk
  obtain ⟨hk1, hk2⟩ := hk
  have hgi := goal_iff hg hk1
  subst hgi
  split at h
  · rename_i k p1 p2 hl
    have hle := notFoEq_destEq hl hk2
    subst hle
    repeat' (split at h <;> try contradiction)
    all_goals (cases h)
    all_goals (simp_all [Seq.holds])
    all_goals (try grind)
  · repeat' (split at h <;> try contradiction)
    all_goals (cases h)
    all_goals (simp_all [Seq.holds])
    all_goals (try grind)

theorem negsOf_sound (I : Interp) (gs ps : List Tm) (h : negsOf gs ps = true) (hl : gs.length = ps.length)
    (hno : ∀ g ∈ gs, ¬ tr I g) : ∀ p ∈ ps, tr I p := by
  induction gs generalizing ps with
  | nil => cases ps with
    | nil => simp
    | cons p ps => simp at hl
  | cons g gs ih =>
    cases ps with
    | nil => simp at hl
    | cons p ps =>
      simp only [negsOf, Bool.and_eq_true, beq_iff_eq] at h
      obtain ⟨rfl, h2⟩ := h
      intro q hq
      rcases List.mem_cons.1 hq with rfl | hq
      · have := hno _ (List.mem_cons_self)
        exact Classical.byContradiction (fun hn => this ((tr_not I q).2 hn))
      · exact ih ps h2 (by simpa using hl) (fun x hx => hno x (by simp [hx])) q hq

theorem subproof_sound (I : Interp) (cl ps s) (h : subproof cl ps = .ok s) (hp : ∀ p ∈ ps, p.holds I) : s.holds I := by
  unfold subproof at h
  repeat' (split at h <;> try contradiction)
  dsimp only at h
  split at h <;> try contradiction
  rename_i hl1 hl2 hl3 _ _ last gc hlast hgc hc
  cases h
  simp only [Bool.and_eq_true, beq_iff_eq] at hc
  obtain ⟨hneg, hgcl⟩ := hc
  intro hh
  rw [tr_mkOrs]
  by_cases hex : ∃ x ∈ cl.dropLast, tr I x
  · obtain ⟨x, hx, hxt⟩ := hex
    exact ⟨x, List.dropLast_subset _ hx, hxt⟩
  · have hno : ∀ x ∈ cl.dropLast, ¬ tr I x := fun x hx ht => hex ⟨x, hx, ht⟩
    have hlen : cl.dropLast.length = (ps.dropLast.map (·.prop)).length := by
      simp only [List.length_dropLast, List.length_map]
      have : cl.length = ps.length := by simpa using hl3
      omega
    have hin := negsOf_sound I _ _ hneg hlen hno
    refine ⟨gc, List.mem_of_getLast? hgc, ?_⟩
    rw [hgcl]
    apply hp last (List.mem_of_getLast? hlast)
    intro y hy
    by_cases hyin : y ∈ ps.dropLast.map (·.prop)
    · exact hin y hyin
    · apply hh
      apply (mem_dedup y _ []).2
      left
      refine List.mem_filter.2 ⟨List.mem_flatMap.2 ⟨last, List.mem_of_getLast? hlast, hy⟩, ?_⟩
      simpa using hyin

theorem subproof_hyps (cl ps s) (h : subproof cl ps = .ok s) : ∀ x ∈ s.hyps, ∃ p ∈ ps, x ∈ p.hyps := by
  unfold subproof at h
  repeat' (split at h <;> try contradiction)
  dsimp only at h
  split at h <;> try contradiction
  cases h
  intro x hx
  rcases (mem_dedup x _ []).1 hx with hx | hx
  · exact List.mem_flatMap.1 (List.mem_filter.1 hx).1
  · simp at hx

theorem iteSimplify_hyps (cl s) (h : iteSimplify cl = .ok s) : s.hyps = [] := by
  unfold iteSimplify at h
  repeat' (split at h <;> try contradiction)
  all_goals (cases h; rfl)

theorem connectiveDef_hyps (cl s) (h : connectiveDef cl = .ok s) : s.hyps = [] := by
  unfold connectiveDef at h
  repeat' (split at h <;> try contradiction)
  all_goals (cases h; rfl)

end Holpy.C18
