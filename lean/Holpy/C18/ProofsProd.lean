import Holpy.C18.ProofsSum
namespace Holpy.C18.Arith

section generic
set_option linter.unusedSectionVars false
variable {α : Type} [CommRing α] [LinearOrder α] [IsStrictOrderedRing α] [Div α]
variable (hd0 : ∀ x : α, x / (0 : α) = 0)

def lprod (ρ : Nat → α) : List (ATm α) → α
  | [] => 1
  | x :: xs => evalA ρ x * lprod ρ xs

theorem lprod_append (ρ : Nat → α) (xs ys : List (ATm α)) : lprod ρ (xs ++ ys) = lprod ρ xs * lprod ρ ys := by
  induction xs with
  | nil => simp [lprod]
  | cons x xs ih => simp only [List.cons_append, lprod, ih]; ring

theorem evalA_stripTimes (ρ : Nat → α) (t : ATm α) : evalA ρ t = lprod ρ (stripTimesFull t) := by
  induction t with
  | mul a b iha ihb => simp only [stripTimesFull, lprod_append, evalA, iha, ihb]
  | _ => simp [stripTimesFull, lprod]

theorem lprod_partition (ρ : Nat → α) (p : ATm α → Bool) (xs : List (ATm α)) :
    lprod ρ xs = lprod ρ (xs.filter p) * lprod ρ (xs.filter (fun x => !p x)) := by
  induction xs with
  | nil => simp [lprod]
  | cons x xs ih =>
    by_cases hp : p x = true
    · simp only [List.filter_cons, hp, if_true, Bool.not_true, Bool.false_eq_true, if_false, lprod, ih]; ring
    · have : p x = false := by simpa using hp
      simp only [List.filter_cons, this, Bool.false_eq_true, if_false, Bool.not_false, if_true, lprod, ih]; ring

include hd0 in
theorem prodVals_eval (ρ : Nat → α) (xs : List (ATm α)) (h : ∀ x ∈ xs, isNumber x = true) : lprod ρ xs = prodVals xs := by
  induction xs with
  | nil => simp [lprod, prodVals]
  | cons x xs ih =>
    simp only [lprod, prodVals, numVal_eval hd0 ρ x (h x (by simp)), ih (fun y hy => h y (by simp [hy]))]

theorem lprod_zero (ρ : Nat → α) (xs : List (ATm α)) (h : ∃ x ∈ xs, x = ATm.lit 0) : lprod ρ xs = 0 := by
  induction xs with
  | nil => simp at h
  | cons x xs ih =>
    obtain ⟨y, hy, rfl⟩ := h
    rcases List.mem_cons.1 hy with rfl | hy'
    · simp [lprod, evalA]
    · simp [lprod, ih ⟨_, hy', rfl⟩]

include hd0 in
theorem prodCases_sound (ρ : Nat → α) (l r : ATm α) (h : prodCases l r = true) : evalA ρ l = evalA ρ r := by
  unfold prodCases at h
  dsimp only at h
  split at h
  · rename_i h1
    simp only [Bool.and_eq_true, decide_eq_true_eq, List.all_eq_true] at h1
    obtain ⟨⟨hall, hr⟩, hv⟩ := h1
    rw [evalA_stripTimes ρ l, prodVals_eval hd0 ρ _ hall, hv, numVal_eval hd0 ρ r hr]
  split at h
  · rename_i _ h2
    simp only [Bool.and_eq_true, decide_eq_true_eq, List.any_eq_true] at h2
    obtain ⟨rfl, y, hy, hy0⟩ := h2
    rw [evalA_stripTimes ρ l, lprod_zero ρ _ ⟨y, hy, hy0⟩]
    simp [evalA]
  split at h
  · simp at h
  · rename_i c cs hc
    simp only [Bool.and_eq_true, decide_eq_true_eq] at h
    obtain ⟨hv, ht⟩ := h
    rw [evalA_stripTimes ρ l, evalA_stripTimes ρ r,
        lprod_partition ρ isNumber (stripTimesFull l), lprod_partition ρ isNumber (stripTimesFull r),
        prodVals_eval hd0 ρ ((stripTimesFull l).filter isNumber) (fun x hx => (List.mem_filter.1 hx).2),
        prodVals_eval hd0 ρ ((stripTimesFull r).filter isNumber) (fun x hx => (List.mem_filter.1 hx).2),
        hc, hv, ht]

include hd0 in
theorem prodSimplify_sound (ρ : Nat → α) (l r : ATm α) (h : prodSimplify l r = true) : evalA ρ l = evalA ρ r := by
  unfold prodSimplify at h
  split at h
  · simp at h
  split at h
  · exact (prodCases_sound hd0 ρ r l h).symm
  · exact prodCases_sound hd0 ρ l r h

end generic

theorem prodSimplifyQ_sound (ρ : Nat → ℚ) (l r : ATm ℚ) (h : prodSimplify l r = true) : evalA ρ l = evalA ρ r :=
  prodSimplify_sound (fun x => div_zero x) ρ l r h

theorem prodSimplifyZ_sound (ρ : Nat → ℤ) (l r : ATm ℤ) (h : prodSimplify l r = true) : evalA ρ l = evalA ρ r :=
  prodSimplify_sound (by intro x; simp) ρ l r h

end Holpy.C18.Arith
