import Holpy.C18.ProofsEq
namespace Holpy.C18
open Tm

theorem stripDisj_mkOrs_append (xs : List Tm) (a : Tm) (ha : notDisj a = true) :
    stripDisj (mkOrs (xs ++ [a])) = xs ++ [a] := by
  induction xs with
  | nil =>
    simp only [List.nil_append, mkOrs]
    unfold stripDisj
    split
    · simp [notDisj] at ha
    · rfl
  | cons x xs ih =>
    cases hxs : xs ++ [a] with
    | nil => simp at hxs
    | cons y ys =>
      simp only [List.cons_append, hxs, mkOrs]
      rw [hxs] at ih
      conv => lhs; unfold stripDisj
      simp only [ih]

theorem pairsMatch_sound' (I : Interp) (es : List (Nat × Tm × Tm)) (xs ys : List Tm)
    (hm : pairsMatch es (List.zip xs ys) = true) (hl : (List.zip xs ys).length ≤ es.length)
    (hxy : xs.length = ys.length) (he : ∀ e ∈ es, ev I e.2.1 = ev I e.2.2) :
    xs.map (ev I) = ys.map (ev I) := by
  induction xs generalizing es ys with
  | nil => cases ys with
    | nil => rfl
    | cons y ys => simp at hxy
  | cons x xs ih =>
    cases ys with
    | nil => simp at hxy
    | cons y ys =>
      cases es with
      | nil => simp at hl
      | cons e es =>
        obtain ⟨k, i, j⟩ := e
        simp only [List.zip_cons_cons, pairsMatch, Bool.and_eq_true, Bool.or_eq_true, beq_iff_eq] at hm
        obtain ⟨h1, h2⟩ := hm
        have hij := he (k, i, j) (by simp)
        simp only at hij
        have hxy' : ev I x = ev I y := by
          rcases h1 with ⟨rfl, rfl⟩ | ⟨rfl, rfl⟩
          · exact hij
          · exact hij.symm
        simp only [List.map_cons, hxy', List.cons.injEq, true_and]
        exact ih es ys h2 (by simpa using hl) (by simpa using hxy) (fun e he' => he e (by simp [he']))

theorem isNot_notArg {t : Tm} (h : isNot t = true) : t = mkNot (notArg t) := by
  unfold isNot at h
  split at h
  · rfl
  · simp at h

theorem eqCongruentPred_sound (I : Interp) (cl s) (h : eqCongruentPred cl = .ok s)
    (hk : wellKinded .eqCongruentPred cl [] = true) : s.holds I := by
  unfold eqCongruentPred at h
  split at h
  · contradiction
  split at h <;> try contradiction
  rename_i a1 a2 r hrev
  have hcl : cl = r.reverse ++ [a2, a1] := by
    have : cl = (a1 :: a2 :: r).reverse := by rw [← hrev, List.reverse_reverse]
    simpa using this
  simp only [wellKinded, hrev, Bool.and_eq_true] at hk
  obtain ⟨⟨hno, hk7⟩, hlen⟩ := hk
  have hstrip : stripDisj (mkOrs cl) = cl := by
    rw [hcl]
    have := stripDisj_mkOrs_append (r.reverse ++ [a2]) a1 hno
    simpa using this
  split at h
  · contradiction
  rename_i hheads
  rw [hstrip, hrev] at h
  simp only at h
  split at h
  · contradiction
  · contradiction
  rename_i e rest hes
  split at h
  · contradiction
  split at h
  · contradiction
  rename_i hle
  split at h <;> try contradiction
  rename_i hpm
  cases h
  intro _
  rw [tr_mkOrs]
  by_cases hex : ∃ x ∈ r.reverse, tr I x
  · obtain ⟨x, hx, hxt⟩ := hex
    exact ⟨x, by rw [hcl]; simp [List.mem_reverse.1 hx], hxt⟩
  · have hnox : ∀ x ∈ r.reverse, ¬ tr I x := fun x hx ht => hex ⟨x, hx, ht⟩
    rw [hes] at hk7
    have hk' : ∀ e' ∈ e :: rest, e'.1 = 7 := fun e' he' => by simpa using (List.all_eq_true.1 hk7) e' he'
    have hall := destNegEqs_hold I _ _ hes hk' hnox
    have hpp : ∀ e' ∈ ecpPredsPair e rest, ev I e'.2.1 = ev I e'.2.2 := by
      intro e' he'
      unfold ecpPredsPair at he'
      split at he'
      · simp only [List.mem_cons, List.mem_nil_iff, or_false, or_self] at he'
        rw [he']; exact hall e (by simp)
      · exact hall e' he'
    have hH : ecpHeads a2 a1 = true := by simpa using hheads
    simp only [ecpHeads, Bool.and_eq_true, Bool.not_eq_true'] at hH
    obtain ⟨⟨hpol, hh2⟩, hh1⟩ := hH
    have hle' : (ecpArgsPair a2 a1).length ≤ (ecpPredsPair e rest).length := by omega
    by_cases hn2 : isNot a2 = true
    · -- ~p(xs), q(ys)
      have hhead : head (notArg a2) = head a1 := by simpa [hn2] using hh2
      simp only [ecpArgsPair, hn2, if_true] at hpm hle'
      simp only [hn2, if_true, beq_iff_eq] at hlen
      have hargs := pairsMatch_sound' I _ _ _ hpm hle' hlen hpp
      have hev := ev_congr I _ _ hhead hargs
      have ha2 := isNot_notArg hn2
      by_cases hq : tr I a1
      · exact ⟨a1, by rw [hcl]; simp, hq⟩
      · refine ⟨a2, by rw [hcl]; simp, ?_⟩
        rw [ha2, tr_not, tr_def, hev]; exact hq
    · -- p(xs), ~q(ys)
      have hn2' : isNot a2 = false := by simpa using hn2
      have hn1 : isNot a1 = true := by simpa [hn2'] using hpol
      have ha1 := isNot_notArg hn1
      have hla : lastArg a1 = notArg a1 := by
        rw [ha1]; simp [lastArg, notArg]
      have hhead : head (notArg a1) = head a2 := by simpa [hn1] using hh1
      simp only [ecpArgsPair, hn2', Bool.false_eq_true, if_false, hla] at hpm hle'
      simp only [hn2', Bool.false_eq_true, if_false, beq_iff_eq] at hlen
      have hargs := pairsMatch_sound' I _ _ _ hpm hle' hlen hpp
      have hev := ev_congr I _ _ hhead.symm hargs
      by_cases hp : tr I a2
      · exact ⟨a2, by rw [hcl]; simp, hp⟩
      · refine ⟨a1, by rw [hcl]; simp, ?_⟩
        rw [ha1, tr_not, tr_def, ← hev]; exact hp

theorem eqCongruentPred_hyps (cl s) (h : eqCongruentPred cl = .ok s) : s.hyps = [] := by
  unfold eqCongruentPred at h
  repeat' (split at h <;> try contradiction)
  all_goals (cases h; rfl)

/-- verit_refl: the returned sequent `x = t ⊢ goal` (goal is `x = t` or `t = x`) is valid -/
theorem reflRule_sound (I : Interp) (cl ctx s) (h : reflRule cl ctx = .ok s) : s.holds I := by
  unfold reflRule at h
  split at h <;> try contradiction
  rename_i goal
  split at h
  · contradiction
  rename_i k l r hd
  split at h
  · cases h
    intro hh; exact hh goal (by simp)
  split at h
  · cases h
    intro hh
    have h1 := hh _ (List.mem_singleton.2 rfl)
    rcases destEq_spec hd with ⟨rfl, rfl⟩ | ⟨rfl, rfl⟩
    · have : tr I (mkIff r l) := h1
      rw [tr_iff] at this ⊢; exact this.symm
    · have : tr I (mkEq r l) := h1
      rw [tr_eq] at this ⊢; exact this.symm
  · contradiction

end Holpy.C18
