import Holpy.C18.ModelRules
import Holpy.C18.Sem
import Holpy.C18.Gen
import Holpy.C18.ProofsHyps
import Holpy.C18.ProofsRes
import Holpy.C18.ProofsProof
import Holpy.C18.ProofsHelper
/-
C18 — property theorems.  `Interp` is an arbitrary first-order interpretation (Sem.lean); a
sequent holds when its hypotheses imply its proposition.  Everything is about the model of the
FIXED code (fixes/C18-*.patch); the harness ties the model to the Python.
-/
namespace Holpy.C18
open Tm

/-! ### registry: every registered macro is classified -/

/-- Every registered macro, in lexicographic order, with its tier: `true` = tier 1 (has a model and a
soundness theorem below), `false` = tier 2 (simplification tables, quantifier / skolem / context
rules, equality and arithmetic rules not modelled yet, internal helper macros: judged by the
oracle of the harness only). -/
def classified : List (String × Bool) := [
  ("combine_disj_clauses", true),
  ("imp_to_or", true),
  ("swap_disj_to_front", true),
  ("verit_ac_simp", false),
  ("verit_and", true),
  ("verit_and_neg", true),
  ("verit_and_pos", true),
  ("verit_and_simplify", true),
  ("verit_bfun_elim", false),
  ("verit_bind", false),
  ("verit_bool_simplify", true),
  ("verit_comp_simplify", true),
  ("verit_cong", true),
  ("verit_conj_pts", true),
  ("verit_connective_def", true),
  ("verit_contraction", true),
  ("verit_disj_pts", true),
  ("verit_distinct_elim", false),
  ("verit_div_simplify", true),
  ("verit_eq_congruent", true),
  ("verit_eq_congruent_pred", true),
  ("verit_eq_reflexive", true),
  ("verit_eq_simplify", true),
  ("verit_eq_transitive", true),
  ("verit_equiv1", true),
  ("verit_equiv2", true),
  ("verit_equiv_neg1", true),
  ("verit_equiv_neg2", true),
  ("verit_equiv_pos1", true),
  ("verit_equiv_pos2", true),
  ("verit_equiv_simplify", true),
  ("verit_false", true),
  ("verit_forall_inst", false),
  ("verit_imp_conj", false),
  ("verit_imp_disj", false),
  ("verit_implies", true),
  ("verit_implies_neg1", true),
  ("verit_implies_neg2", true),
  ("verit_implies_pos", true),
  ("verit_implies_simplify", true),
  ("verit_ite1", true),
  ("verit_ite2", true),
  ("verit_ite_intro", false),
  ("verit_ite_neg1", true),
  ("verit_ite_neg2", true),
  ("verit_ite_pos1", true),
  ("verit_ite_pos2", true),
  ("verit_ite_simplify", true),
  ("verit_la_disequality", true),
  ("verit_la_generic", true),
  ("verit_la_rw_eq", true),
  ("verit_let", false),
  ("verit_minus_simplify", true),
  ("verit_norm_lia", false),
  ("verit_norm_lra", false),
  ("verit_not_and", true),
  ("verit_not_equiv1", true),
  ("verit_not_equiv2", true),
  ("verit_not_implies1", true),
  ("verit_not_implies2", true),
  ("verit_not_ite1", true),
  ("verit_not_ite2", true),
  ("verit_not_not", true),
  ("verit_not_or", true),
  ("verit_not_simplify", true),
  ("verit_onepoint", false),
  ("verit_or", true),
  ("verit_or_neg", true),
  ("verit_or_pos", true),
  ("verit_or_simplify", true),
  ("verit_prod_simplify", true),
  ("verit_qnt_cnf", false),
  ("verit_qnt_join", false),
  ("verit_qnt_rm_unused", false),
  ("verit_qnt_simplify", false),
  ("verit_refl", true),
  ("verit_round_lia", false),
  ("verit_sko_ex", false),
  ("verit_sko_forall", false),
  ("verit_subproof", true),
  ("verit_sum_simplify", true),
  ("verit_th_resolution", true),
  ("verit_trans", true),
  ("verit_unary_minus_simplify", true),
  ("verit_xor_neg1", true),
  ("verit_xor_neg2", true),
  ("verit_xor_pos1", true),
  ("verit_xor_pos2", true)
]

def tier1 : List String := (classified.filter (·.2)).map (·.1)
def tier2 : List String := (classified.filter (fun x => !x.2)).map (·.1)

/-- A macro added to or removed from verit_macro.py / la_generic.py must be classified: the
classified names are exactly the registered names (Gen.lean is regenerated on every run). -/
theorem registry_classified : classified.map (·.1) = Gen.namesSorted := by decide +kernel

/-- tier 1 is exactly the set of rules the model implements -/
theorem tier1_modelled : ∀ r ∈ Rule.all, (r.name, true) ∈ classified := by decide +kernel

/-- … plus `verit_la_generic`, whose model (ModelLA.lean) works on parsed linear arithmetic -/
theorem tier1_count : tier1.length = Rule.all.length + 9 ∧ ("verit_la_generic", true) ∈ classified
    ∧ ("verit_div_simplify", true) ∈ classified ∧ ("verit_eq_simplify", true) ∈ classified
    ∧ ("verit_comp_simplify", true) ∈ classified ∧ ("verit_minus_simplify", true) ∈ classified
    ∧ ("verit_unary_minus_simplify", true) ∈ classified := by decide +kernel

example : ("verit_not_and", true) ∈ classified ∧ ("verit_onepoint", false) ∈ classified := by decide +kernel

/-! ### the propositional clause rules -/

/-- If `eval` of a tier-1 rule accepts a clause for given premises, the returned sequent holds in
every first-order interpretation in which the premise sequents hold (`wellKinded`: the
equivalence inspected by not_equiv2 / equiv_neg1 is at type bool, as in every well-typed step). -/
theorem evalRule_sound (I : Interp) (hI : I.LeOrder) (r : Rule) (cl : List Tm) (sizes : List Nat) (ps : List Seq) (s : Seq)
    (h : evalRule r cl sizes ps = .ok s) (hk : wellKinded r cl ps = true)
    (hp : ∀ p ∈ ps, p.holds I) : s.holds I :=
  evalRule_sound' I hI r cl sizes ps s h hk hp

/-- The hypotheses of an accepted result are hypotheses of the premises (none for a tautology rule). -/
theorem evalRule_hyps (r : Rule) (cl : List Tm) (sizes : List Nat) (ps : List Seq) (s : Seq)
    (h : evalRule r cl sizes ps = .ok s) : ∀ x ∈ s.hyps, ∃ p ∈ ps, x ∈ p.hyps :=
  evalRule_hyps' r cl sizes ps s h

/-- The propositional clause rules (every tier-1 rule except resolution), as one table-driven theorem. -/
theorem clauseRule_sound (I : Interp) (hI : I.LeOrder) (r : Rule) (cl : List Tm) (ps : List Seq) (s : Seq)
    (_hr : r ≠ .thResolution) (h : evalRule r cl [] ps = .ok s) (hk : wellKinded r cl ps = true)
    (hp : ∀ p ∈ ps, p.holds I) : s.holds I :=
  evalRule_sound' I hI r cl [] ps s h hk hp

/-- the shape rules of equality and linear arithmetic: `t = t`; `t1 = t2 | ~(t1 <= t2) | ~(t2 <= t1)`;
`(t = u) <--> (t <= u) & (u <= t)` hold whenever `less_eq` is interpreted by a reflexive antisymmetric relation -/
theorem eq_la_shape_sound (I : Interp) (hI : I.LeOrder) (cl : List Tm) (s : Seq) :
    (eqReflexive cl = .ok s → s.holds I) ∧
    (laDisequality cl = .ok s → wellKinded .laDisequality cl [] = true → s.holds I) ∧
    (laRwEq cl = .ok s → wellKinded .laRwEq cl [] = true → s.holds I) :=
  ⟨eqReflexive_sound I cl s, laDisequality_sound I hI cl s, laRwEq_sound I hI cl s⟩

/-- non-vacuity: `x = y | ~(x <= y) | ~(y <= x)` is accepted, with the last literal `~(x <= y)` it is not -/
example : laDisequality [mkOr (mkEq (.var 0) (.var 1)) (mkOr (mkNot (mkLe (.var 0) (.var 1))) (mkNot (mkLe (.var 1) (.var 0))))]
      = .ok ⟨[], mkOr (mkEq (.var 0) (.var 1)) (mkOr (mkNot (mkLe (.var 0) (.var 1))) (mkNot (mkLe (.var 1) (.var 0))))⟩
    ∧ laDisequality [mkOr (mkEq (.var 0) (.var 1)) (mkOr (mkNot (mkLe (.var 0) (.var 1))) (mkNot (mkLe (.var 0) (.var 1))))]
      = .error .verit := ⟨rfl, rfl⟩

/-- The propositional helper macros swap_disj_to_front, combine_disj_clauses, imp_to_or, verit_conj_pts,
verit_disj_pts (their Python arguments encoded as in ModelHelper.lean): an accepted result holds wherever the
premises hold; imp_to_or removes from the hypotheses only those its literals name, and the clause it returns
holds under the remaining ones. -/
theorem helper_macros_sound (I : Interp) (cl : List Tm) (sizes : List Nat) (ps : List Seq) (s : Seq)
    (hp : ∀ p ∈ ps, p.holds I) :
    (swapDisj cl sizes ps = .ok s → s.holds I) ∧ (combineDisj cl sizes ps = .ok s → s.holds I) ∧
    (impToOr cl ps = .ok s → s.holds I) ∧ (conjPts ps = .ok s → s.holds I) ∧ (disjPts ps = .ok s → s.holds I) :=
  ⟨fun h => swapDisj_sound I _ _ _ _ h hp, fun h => combineDisj_sound I _ _ _ _ h hp,
   fun h => impToOr_sound I _ _ _ h hp, fun h => conjPts_sound I _ _ h hp, fun h => disjPts_sound I _ _ h hp⟩

/-- non-vacuity: from `h, a ⊢ c` imp_to_or gives `h ⊢ ~a | c` (only `a` is discharged) and rejects the goal `~b | c`;
swap moves the disjunct at index 1 to the front; conj_pts from `a <--> b`, `c <--> b` gives `a & c <--> b`, and (fixed)
rejects a premise `e --> (a <--> b)` -/
example : impToOr [mkNot (.var 0), mkOr (mkNot (.var 0)) (.var 2)] [⟨[.var 9, .var 0], .var 2⟩]
      = .ok ⟨[.var 9], mkOr (mkNot (.var 0)) (.var 2)⟩
    ∧ impToOr [mkNot (.var 0), mkOr (mkNot (.var 1)) (.var 2)] [⟨[.var 9, .var 0], .var 2⟩] = .error .assertion
    ∧ swapDisj [.var 0, .var 1, .var 2] [1] [⟨[], mkOr (.var 0) (mkOr (.var 1) (.var 2))⟩]
      = .ok ⟨[], mkOr (.var 1) (mkOr (.var 0) (.var 2))⟩
    ∧ conjPts [⟨[], mkIff (.var 0) (.var 1)⟩, ⟨[.var 9], mkIff (.var 2) (.var 1)⟩]
      = .ok ⟨[.var 9], mkIff (mkAnd (.var 0) (.var 2)) (.var 1)⟩
    ∧ conjPts [⟨[], mkImp (.var 5) (mkIff (.var 0) (.var 1))⟩] = .error .verit
    ∧ combineDisj [.var 0, .var 1, .var 1, .var 0] [1, 1] [⟨[], mkOr (.var 0) (.var 1)⟩] = .ok ⟨[], mkOr (.var 1) (.var 0)⟩
    ∧ combineDisj [.var 0, .var 1, .var 1] [1, 1] [⟨[], mkOr (.var 0) (.var 1)⟩] = .error .assertion :=
  ⟨rfl, rfl, rfl, rfl, rfl, rfl, rfl⟩

/-- non-vacuity: `not_and` accepts `~(a & b) ⊢ ~a | ~b` (and the fixed rule rejects the goal `[~a]`) -/
example : evalRule .notAnd [mkNot (.var 0), mkNot (.var 1)] [] [⟨[.var 9], mkNot (mkAnd (.var 0) (.var 1))⟩]
      = .ok ⟨[.var 9], mkOr (mkNot (.var 0)) (mkNot (.var 1))⟩
    ∧ evalRule .notAnd [mkNot (.var 0)] [] [⟨[], mkNot (mkAnd (.var 0) (.var 1))⟩] = .error .verit := ⟨rfl, rfl⟩

/-- non-vacuity: `not_not` accepts `~~~p | p` and rejects the old counterexample `[a & b & c & p, p]` -/
example : evalRule .notNot [mkNot (mkNot (mkNot (.var 0))), .var 0] [] [] = .ok ⟨[], mkOr (mkNot (mkNot (mkNot (.var 0)))) (.var 0)⟩
    ∧ evalRule .notNot [mkAnd (.var 1) (mkAnd (.var 2) (mkAnd (.var 3) (.var 0))), .var 0] [] [] = .error .verit := ⟨rfl, rfl⟩

/-- non-vacuity: `and_neg` accepts `(a & b) | ~a | ~b`; the fixed rule rejects `(a & b & c) | ~a | ~b` -/
example : evalRule .andNeg [mkAnd (.var 0) (.var 1), mkNot (.var 0), mkNot (.var 1)] [] [] =
      .ok ⟨[], mkOr (mkAnd (.var 0) (.var 1)) (mkOr (mkNot (.var 0)) (mkNot (.var 1)))⟩
    ∧ evalRule .andNeg [mkAnd (.var 0) (mkAnd (.var 1) (.var 2)), mkNot (.var 0), mkNot (.var 1)] [] [] = .error .verit :=
  ⟨rfl, rfl⟩

/-- the equality rules eq_transitive, trans, eq_congruent: an accepted chain / congruence step is
valid whenever `equals` is equality (premise equalities first-order, both sides of a congruence with
the same number of arguments — `wellKinded`, true of well-typed steps) -/
theorem eq_rules_sound (I : Interp) (cl : List Tm) (ps : List Seq) (s : Seq) :
    (eqTransitive cl = .ok s → wellKinded .eqTransitive cl [] = true → s.holds I) ∧
    (transRule cl ps = .ok s → wellKinded .transRule cl ps = true → (∀ p ∈ ps, p.holds I) → s.holds I) ∧
    (eqCongruent cl = .ok s → wellKinded .eqCongruent cl [] = true → s.holds I) :=
  ⟨eqTransitive_sound I cl s, transRule_sound I cl ps s, eqCongruent_sound I cl s⟩

/-- non-vacuity: `~(x = y) | ~(y = z) | x = z` is accepted, `~(x = y) | ~(w = z) | x = z` is not;
`~(x = y) | f x = f y` is accepted, `~(x = y) | f x = f z` is not -/
example :
    eqTransitive [mkNot (mkEq (.var 0) (.var 1)), mkNot (mkEq (.var 1) (.var 2)), mkEq (.var 0) (.var 2)] =
      .ok ⟨[], mkOr (mkNot (mkEq (.var 0) (.var 1))) (mkOr (mkNot (mkEq (.var 1) (.var 2))) (mkEq (.var 0) (.var 2)))⟩
    ∧ eqTransitive [mkNot (mkEq (.var 0) (.var 1)), mkNot (mkEq (.var 3) (.var 2)), mkEq (.var 0) (.var 2)] = .error .verit
    ∧ eqCongruent [mkNot (mkEq (.var 0) (.var 1)), mkEq (.comb (.const 100) (.var 0)) (.comb (.const 100) (.var 1))] =
      .ok ⟨[], mkOr (mkNot (mkEq (.var 0) (.var 1))) (mkEq (.comb (.const 100) (.var 0)) (.comb (.const 100) (.var 1)))⟩
    ∧ eqCongruent [mkNot (mkEq (.var 0) (.var 1)), mkEq (.comb (.const 100) (.var 0)) (.comb (.const 100) (.var 2))] = .error .verit :=
  ⟨rfl, rfl, rfl, rfl⟩

/-- verit_refl (not in `Rule`: it introduces its own hypothesis): for a goal `x = t` / `t = x` with the
context entry `x -> t` the returned sequent `x = t ⊢ goal` is valid -/
theorem refl_sound (I : Interp) (cl : List Tm) (ctx : List (Tm × Tm)) (s : Seq)
    (h : reflRule cl ctx = .ok s) : s.holds I := reflRule_sound I cl ctx s h

/-- non-vacuity: with `x -> f y`, `f y = x` is accepted under the hypothesis `x = f y`; `x = z` is rejected -/
example : reflRule [mkEq (.comb (.const 100) (.var 1)) (.var 0)] [(.var 0, .comb (.const 100) (.var 1))] =
      .ok ⟨[mkEq (.var 0) (.comb (.const 100) (.var 1))], mkEq (.comb (.const 100) (.var 1)) (.var 0)⟩
    ∧ reflRule [mkEq (.var 0) (.var 2)] [(.var 0, .comb (.const 100) (.var 1))] = .error .verit := ⟨rfl, rfl⟩

/-! ### resolution -/

/-- `verit_th_resolution` (rules `resolution` and `th_resolution`): whatever order `resolve_order`
finds, with negations counted as `try_resolve` counts them, duplicate removal, the two special
cases and the final subset test — an accepted conclusion follows from the premises. -/
theorem resolution_sound (I : Interp) (cl : List Tm) (sizes : List Nat) (ps : List Seq) (s : Seq)
    (h : thResolution cl sizes ps = .ok s) (hp : ∀ p ∈ ps, p.holds I) : s.holds I :=
  thResolution_sound I cl sizes ps s h hp

/-- non-vacuity: `a | b`, `~a`, `~b` resolve to the empty clause; without `~b` the empty clause is rejected -/
example : thResolution [] [2, 1, 1] [⟨[.var 7], mkOr (.var 0) (.var 1)⟩, ⟨[], mkNot (.var 0)⟩, ⟨[.var 8], mkNot (.var 1)⟩]
      = .ok ⟨[.var 7, .var 8], ff⟩
    ∧ thResolution [] [2, 1] [⟨[], mkOr (.var 0) (.var 1)⟩, ⟨[], mkNot (.var 0)⟩] = .error .verit := ⟨rfl, rfl⟩

/-! ### whole proofs -/

/-- PARTIAL.  A proof that evaluation mode accepts and that ends in the empty clause (`false`) shows
that the assumed formulas are jointly unsatisfiable — proved for proofs made of `assume` commands
and steps of the rules in `Rule` (the propositional clause rules, resolution, the equality and
simplification rules of the term model, subproof, cong, and the helper macros swap_disj_to_front,
combine_disj_clauses, imp_to_or, conj_pts, disj_pts) whose steps are `wellKinded` (true of well-typed steps; `runProof` tests
it, the Python does not — `runProof_agrees_raw` relates it to the untested run that the driver
compares with `proof_rec.validate`).  Missing: steps of la_generic (its theorem `la_generic_sound`
is about the parsed arithmetic, not the term model), of the arithmetic simplifications and
of every tier-2 rule; anchors / contexts. -/
theorem empty_clause_unsat_partial (I : Interp) (hI : I.LeOrder) (cmds : List Cmd) (res : List Seq) (s : Seq)
    (h : runProof cmds [] = .ok res) (hlast : res.getLast? = some s) (hs : s.prop = ff) :
    ¬ ∀ t ∈ assumptions cmds, tr I t := by
  intro hall
  have inv := runProof_inv I hI (assumptions cmds) cmds [] res h (by simp) (fun t ht => ht)
  obtain ⟨h1, h2⟩ := inv s (List.mem_of_getLast? hlast)
  have := h1 (fun x hx => hall x (h2 x hx))
  rw [hs] at this
  exact tr_ff I this

/-- what `runProof` accepts, the run without the `wellKinded` test (the one compared with the
implementation) accepts with the same result -/
theorem runProof_agrees_raw (cmds : List Cmd) (res : List Seq) (h : runProof cmds [] = .ok res) :
    runProofRaw cmds [] = .ok res := runProof_raw cmds [] res h

/-- non-vacuity: assume `a --> b`, `a`, `~b`; `implies`; `resolution` to the empty clause -/
example : (runProof [.assume (mkImp (.var 0) (.var 1)), .assume (.var 0), .assume (mkNot (.var 1)),
      .step .impliesRule [mkNot (.var 0), .var 1] [] [0],
      .step .thResolution [] [2, 1, 1] [3, 1, 2]] []).map (fun r => r.getLast?.map (·.prop)) = .ok (some ff) := rfl

end Holpy.C18
