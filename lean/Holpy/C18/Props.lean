import Holpy.C18.Model
import Holpy.C18.Sem
import Holpy.C18.Gen
import Holpy.C18.ProofsHyps
/-
C18 — property theorems.  `Interp` is an arbitrary first-order interpretation (Sem.lean); a
sequent holds when its hypotheses imply its proposition.  Everything is about the model of the
FIXED code (fixes/C18-*.patch); the harness ties the model to the Python.
-/
namespace Holpy.C18
open Tm

/-! ### registry: every registered macro is classified -/

/-- Every registered macro, in lexicographic order, with its tier: `true` = tier 1 (has a model and a
soundness theorem below), `false` = tier 2 (simplification tables, quantifier / skolem / context
rules, equality and arithmetic rules not modelled yet, internal helper macros: judged by the
oracle of the harness only). -/
def classified : List (String × Bool) := [
  ("combine_disj_clauses", false),
  ("imp_to_or", false),
  ("swap_disj_to_front", false),
  ("verit_ac_simp", false),
  ("verit_and", true),
  ("verit_and_neg", true),
  ("verit_and_pos", true),
  ("verit_and_simplify", false),
  ("verit_bfun_elim", false),
  ("verit_bind", false),
  ("verit_bool_simplify", false),
  ("verit_comp_simplify", false),
  ("verit_cong", false),
  ("verit_conj_pts", false),
  ("verit_connective_def", false),
  ("verit_contraction", true),
  ("verit_disj_pts", false),
  ("verit_distinct_elim", false),
  ("verit_div_simplify", false),
  ("verit_eq_congruent", false),
  ("verit_eq_congruent_pred", false),
  ("verit_eq_reflexive", false),
  ("verit_eq_simplify", false),
  ("verit_eq_transitive", false),
  ("verit_equiv1", true),
  ("verit_equiv2", true),
  ("verit_equiv_neg1", true),
  ("verit_equiv_neg2", true),
  ("verit_equiv_pos1", true),
  ("verit_equiv_pos2", true),
  ("verit_equiv_simplify", false),
  ("verit_false", true),
  ("verit_forall_inst", false),
  ("verit_imp_conj", false),
  ("verit_imp_disj", false),
  ("verit_implies", true),
  ("verit_implies_neg1", true),
  ("verit_implies_neg2", true),
  ("verit_implies_pos", true),
  ("verit_implies_simplify", false),
  ("verit_ite1", true),
  ("verit_ite2", true),
  ("verit_ite_intro", false),
  ("verit_ite_neg1", true),
  ("verit_ite_neg2", true),
  ("verit_ite_pos1", true),
  ("verit_ite_pos2", true),
  ("verit_ite_simplify", false),
  ("verit_la_disequality", false),
  ("verit_la_generic", false),
  ("verit_la_rw_eq", false),
  ("verit_let", false),
  ("verit_minus_simplify", false),
  ("verit_norm_lia", false),
  ("verit_norm_lra", false),
  ("verit_not_and", true),
  ("verit_not_equiv1", true),
  ("verit_not_equiv2", true),
  ("verit_not_implies1", true),
  ("verit_not_implies2", true),
  ("verit_not_ite1", true),
  ("verit_not_ite2", true),
  ("verit_not_not", true),
  ("verit_not_or", true),
  ("verit_not_simplify", false),
  ("verit_onepoint", false),
  ("verit_or", true),
  ("verit_or_neg", true),
  ("verit_or_pos", true),
  ("verit_or_simplify", false),
  ("verit_prod_simplify", false),
  ("verit_qnt_cnf", false),
  ("verit_qnt_join", false),
  ("verit_qnt_rm_unused", false),
  ("verit_qnt_simplify", false),
  ("verit_refl", false),
  ("verit_round_lia", false),
  ("verit_sko_ex", false),
  ("verit_sko_forall", false),
  ("verit_subproof", false),
  ("verit_sum_simplify", false),
  ("verit_th_resolution", true),
  ("verit_trans", false),
  ("verit_unary_minus_simplify", false),
  ("verit_xor_neg1", true),
  ("verit_xor_neg2", true),
  ("verit_xor_pos1", true),
  ("verit_xor_pos2", true)
]

def tier1 : List String := (classified.filter (·.2)).map (·.1)
def tier2 : List String := (classified.filter (fun x => !x.2)).map (·.1)

/-- A macro added to or removed from verit_macro.py / la_generic.py must be classified: the
classified names are exactly the registered names (Gen.lean is regenerated on every run). -/
theorem registry_classified : classified.map (·.1) = Gen.namesSorted := by decide +kernel

/-- tier 1 is exactly the set of rules the model implements -/
theorem tier1_modelled : ∀ r ∈ Rule.all, (r.name, true) ∈ classified := by decide +kernel

theorem tier1_count : tier1.length = Rule.all.length := by decide +kernel

example : ("verit_not_and", true) ∈ classified ∧ ("verit_onepoint", false) ∈ classified := by decide +kernel

/-! ### the propositional clause rules -/

/-- If `eval` of a propositional clause rule (any tier-1 rule except resolution) accepts, the
returned sequent holds in every interpretation in which the premises hold. -/
theorem clauseRule_sound (I : Interp) (r : Rule) (cl : List Tm) (sizes : List Nat) (ps : List Seq) (s : Seq)
    (hr : r ≠ .thResolution) (h : evalRule r cl sizes ps = .ok s) (hk : wellKinded r cl ps = true)
    (hp : ∀ p ∈ ps, p.holds I) : s.holds I := by
  cases r <;> simp only [evalRule] at h
  case thResolution => exact absurd rfl hr
  case notOr => exact notOr_sound I _ _ _ h hp
  case notAnd => exact notAnd_sound I _ _ _ h hp
  case andRule => exact andRule_sound I _ _ _ h hp
  case orRule => exact orRule_sound I _ _ _ h hp
  case impliesRule => exact impliesRule_sound I _ _ _ h hp
  case notImplies1 => exact notImplies1_sound I _ _ _ h hp
  case notImplies2 => exact notImplies2_sound I _ _ _ h hp
  case equiv1 => exact equiv1_sound I _ _ _ h hp
  case equiv2 => exact equiv2_sound I _ _ _ h hp
  case notEquiv1 => exact notEquiv1_sound I _ _ _ h hp
  case notEquiv2 => exact notEquiv2_sound I _ _ _ h hk hp
  case ite1 => exact ite1_sound I _ _ _ h hp
  case ite2 => exact ite2_sound I _ _ _ h hp
  case notIte1 => exact notIte1_sound I _ _ _ h hp
  case notIte2 => exact notIte2_sound I _ _ _ h hp
  case contraction => exact contraction_sound I _ _ _ h hp
  case notNot => exact notNot_sound I _ _ h
  case andPos => exact andPos_sound I _ _ h
  case andNeg => exact andNeg_sound I _ _ h
  case orPos => exact orPos_sound I _ _ h
  case orNeg => exact orNeg_sound I _ _ h
  case impliesPos => exact impliesPos_sound I _ _ h
  case impliesNeg1 => exact impliesNeg1_sound I _ _ h
  case impliesNeg2 => exact impliesNeg2_sound I _ _ h
  case equivPos1 => exact equivPos1_sound I _ _ h
  case equivPos2 => exact equivPos2_sound I _ _ h
  case equivNeg1 => exact equivNeg1_sound I _ _ h (by cases cl <;> simp [wellKinded] at hk ⊢ <;> exact hk)
  case equivNeg2 => exact equivNeg2_sound I _ _ h
  case xorPos1 => exact xorPos1_sound I _ _ h
  case xorPos2 => exact xorPos2_sound I _ _ h
  case xorNeg1 => exact xorNeg1_sound I _ _ h
  case xorNeg2 => exact xorNeg2_sound I _ _ h
  case itePos1 => exact itePos1_sound I _ _ h
  case itePos2 => exact itePos2_sound I _ _ h
  case iteNeg1 => exact iteNeg1_sound I _ _ h
  case iteNeg2 => exact iteNeg2_sound I _ _ h
  case falseRule => exact falseRule_sound I _ _ h

/-- non-vacuity: `not_and` accepts `~(a & b) ⊢ ~a | ~b` (and the fixed rule rejects the goal `[~a]`) -/
example : evalRule .notAnd [mkNot (.var 0), mkNot (.var 1)] [] [⟨[.var 9], mkNot (mkAnd (.var 0) (.var 1))⟩]
      = .ok ⟨[.var 9], mkOr (mkNot (.var 0)) (mkNot (.var 1))⟩
    ∧ evalRule .notAnd [mkNot (.var 0)] [] [⟨[], mkNot (mkAnd (.var 0) (.var 1))⟩] = .error .verit := ⟨rfl, rfl⟩

/-- non-vacuity: `not_not` accepts `~~~p | p` and rejects the old counterexample `[a & b & c & p, p]` -/
example : evalRule .notNot [mkNot (mkNot (mkNot (.var 0))), .var 0] [] [] = .ok ⟨[], mkOr (mkNot (mkNot (mkNot (.var 0)))) (.var 0)⟩
    ∧ evalRule .notNot [mkAnd (.var 1) (mkAnd (.var 2) (mkAnd (.var 3) (.var 0))), .var 0] [] [] = .error .verit := ⟨rfl, rfl⟩

end Holpy.C18
