import Holpy.C13.Wire
import Holpy.C14.Model
/- Driver of the C14 model (the splice of `apply_tactic` is the C13 model's): same line protocol. -/
def main : IO Unit := Holpy.lineLoop Holpy.C13.Wire.handle
