import Holpy.Common.Sexp
/- stub: replaced when the C14 model is built -/
def main : IO Unit := Holpy.lineLoop (fun _ => "bad-op")
