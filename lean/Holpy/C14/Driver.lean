import Holpy.C14.Wire
/- Driver of the C14 model (the splice of `apply_tactic` is the C13 model's): same line protocol. -/
def main : IO Unit := Holpy.lineLoop Holpy.C14.Wire.handle
