import Holpy.C14.Props2
import Holpy.C13.RevertModel
/-
C14 — property theorems, third file: the remaining methods, and the search side of the methods
whose `search` is a filter on the shape of goal and facts.
-/
namespace Holpy.C14
open Holpy.C13

/-- The other methods that go through `apply_tactic` — `induction` (tactic `var_induct`),
`rewrite_goal_with_prev`, `apply_resolve_step` (`resolve`), `inst_exists_goal`, `apply_prev` — obey
the same law as `apply_backward_step`: with `new` the exported lines of the tactic's proof term, the
goals open afterwards are the earlier ones without the goal line plus at most the gaps of the term
(what `search` advertises as `_goal` where it advertises anything), and a term without gaps closes
exactly the goal. -/
theorem advertised_eq_applied_tactic_methods (t : Option Seq) (s s' : Proof) (id : IId)
    (new : List NewLine) (cur : Item) (hcur : findItem s id = some cur) (hid : exportedAt id new)
    (hsub : ∀ l ∈ new, l.item.sub = []) (h : applyTactic s id new = .ok s') :
    cntList t s' + cntItem t cur ≤ cntList t s + (advertised new).count t ∧
    (advertised new = [] → cntList t s' + cntItem t cur = cntList t s) :=
  advertised_eq_applied_apply_backward_step t s s' id new cur hcur hid hsub h

example : (match applyTactic s0 [0] new1 with
    | .ok s' => cntList (some ⟨5, []⟩) s' == 0 && advertised new1 == []
    | .error _ => false) = true := by decide

/-- `new_var` and `apply_fact` (one `add_line_before` + `set_line`, never a gap): the open gaps are
exactly those before. -/
theorem advertised_eq_applied_new_var_apply_fact (t : Option Seq) (s s' : Proof) (id : IId) (r : Nat) (p : List IId)
    (th : Option Seq) (cur : Item) (hcur : findItem s id = some cur) (hr : r ≠ ruleSorry)
    (h : forwardFact s id r p th = .ok s') : cntList t s' = cntList t s :=
  advertised_eq_applied_forall_elim t s s' id r p th cur hcur hr h

example : (match forwardFact s0 [0] 5 [] none with
    | .ok s' => cntList (some ⟨5, []⟩) s' == 1 && s'.length == 3
    | .error _ => false) = true := by decide

/-- `rewrite_fact`, `rewrite_fact_with_prev`, `apply_forward_step` (`_fact` advertised; the new fact
is inserted before the goal and may close it): no gap is opened; the gaps are those before, or those
before without the goal when an earlier visible line — e.g. the new fact — proves it. -/
theorem advertised_eq_applied_forward_close (t : Option Seq) (s s' : Proof) (id : IId) (r : Nat) (p : List IId)
    (th : Option Seq) (cur : Item) (hcur : findItem s id = some cur) (hr : r ≠ ruleSorry)
    (h : forwardCloseM s id r p th = .ok s') : cntList t s' ≤ cntList t s := by
  unfold forwardCloseM at h
  split at h
  · simp at h
  · rename_i s1 h1
    have a := advertised_eq_applied_forall_elim t s s1 id r p th cur hcur hr h1
    simp only at h
    split at h
    · simp at h
    · split at h
      · split at h
        · simp at h
        · split at h
          · simp at h
          · simp at h; subst h; omega
          · have b := cnt_replaceId t _ _ _ _ h
            omega
      · simp at h; subst h; omega

/-- the new fact `⊢ p5` is exactly the goal: the goal line is replaced by it -/
example : (match forwardCloseM s0 [0] 6 [] (some ⟨5, []⟩) with
    | .ok s' => wf s' && s'.length == 2 && cntList (some ⟨5, []⟩) s' == 0
    | .error _ => false) = true := by decide

/-- `revert_intro` (never suggested by `search`): the gap is re-stated (`th'` = the goal with the
assumption moved into the proposition), the `intros` line re-set, the assumption removed — at most
the re-stated gap is newly open.  Partial: that the old statement of the gap is gone is not part of
this inequality (it is overwritten at the same position; compared by the stream). -/
theorem advertised_eq_applied_revert_intro_partial (t : Option Seq) (s s' : Proof) (id fact : IId)
    (th' : Option Seq) (ra ri : Nat) (hri : ri ≠ ruleSorry) (h : revertIntroM s id fact th' ra ri = .ok s') :
    cntList t s' ≤ cntList t s + (if th' = t then 1 else 0) := by
  unfold revertIntroM at h
  split at h
  · rename_i s2 h2
    have c := cnt_removeLine t s2 s' fact h
    unfold revertIntroPrefix at h2
    split at h2
    · rename_i cur pt item _ _ _
      split at h2
      · simp at h2
      · split at h2
        · simp at h2
        · rename_i hg
          split at h2
          · simp at h2
          · split at h2
            · simp at h2
            · rename_i s1 h1
              have a := cnt_setLine t s s1 _ _ _ _ h1
              have b := cnt_setLine t s1 s2 _ _ _ _ h2
              have hir : item.rule = ri := by
                simp at hg
                exact hg.1.1.1
              have : ¬ (item.rule = ruleSorry ∧ item.th = t) := by
                rw [hir]; intro hh; exact hri hh.1
              simp [this] at b
              simp at a
              omega
    · simp at h2
  · simp at h

/-! ### the same laws, method by method (the stream `method:*` / `op:apply_tactic` of each method ties it to its model) -/

/-- `induction` (tactic `var_induct`; advertises the cases as `_goal`): gaps after ≤ gaps before minus the goal plus the gaps of the proof term; no
gap in the term = exactly the goal disappears. -/
theorem advertised_eq_applied_induction (t : Option Seq) (s s' : Proof) (id : IId)
    (new : List NewLine) (cur : Item) (hcur : findItem s id = some cur) (hid : exportedAt id new)
    (hsub : ∀ l ∈ new, l.item.sub = []) (h : applyTactic s id new = .ok s') :
    cntList t s' + cntItem t cur ≤ cntList t s + (advertised new).count t ∧
    (advertised new = [] → cntList t s' + cntItem t cur = cntList t s) :=
  advertised_eq_applied_tactic_methods t s s' id new cur hcur hid hsub h

example : (match applyTactic s0 [0] new1 with
    | .ok s' => cntList (some ⟨5, []⟩) s' + 1 == cntList (some ⟨5, []⟩) s0 && advertised new1 == []
    | .error _ => false) = true := by decide

/-- `rewrite_goal_with_prev` (advertises the rewritten goal and side conditions as `_goal`): gaps after ≤ gaps before minus the goal plus the gaps of the proof term; no
gap in the term = exactly the goal disappears. -/
theorem advertised_eq_applied_rewrite_goal_with_prev (t : Option Seq) (s s' : Proof) (id : IId)
    (new : List NewLine) (cur : Item) (hcur : findItem s id = some cur) (hid : exportedAt id new)
    (hsub : ∀ l ∈ new, l.item.sub = []) (h : applyTactic s id new = .ok s') :
    cntList t s' + cntItem t cur ≤ cntList t s + (advertised new).count t ∧
    (advertised new = [] → cntList t s' + cntItem t cur = cntList t s) :=
  advertised_eq_applied_tactic_methods t s s' id new cur hcur hid hsub h

example : (match applyTactic s0 [0] new1 with
    | .ok s' => cntList (some ⟨5, []⟩) s' + 1 == cntList (some ⟨5, []⟩) s0 && advertised new1 == []
    | .error _ => false) = true := by decide

/-- `apply_resolve_step` (tactic `resolve`; advertises nothing: it closes the goal): gaps after ≤ gaps before minus the goal plus the gaps of the proof term; no
gap in the term = exactly the goal disappears. -/
theorem advertised_eq_applied_apply_resolve_step (t : Option Seq) (s s' : Proof) (id : IId)
    (new : List NewLine) (cur : Item) (hcur : findItem s id = some cur) (hid : exportedAt id new)
    (hsub : ∀ l ∈ new, l.item.sub = []) (h : applyTactic s id new = .ok s') :
    cntList t s' + cntItem t cur ≤ cntList t s + (advertised new).count t ∧
    (advertised new = [] → cntList t s' + cntItem t cur = cntList t s) :=
  advertised_eq_applied_tactic_methods t s s' id new cur hcur hid hsub h

example : (match applyTactic s0 [0] new1 with
    | .ok s' => cntList (some ⟨5, []⟩) s' + 1 == cntList (some ⟨5, []⟩) s0 && advertised new1 == []
    | .error _ => false) = true := by decide

/-- `inst_exists_goal` (not suggested with a `_goal`; opens the instantiated body): gaps after ≤ gaps before minus the goal plus the gaps of the proof term; no
gap in the term = exactly the goal disappears. -/
theorem advertised_eq_applied_inst_exists_goal (t : Option Seq) (s s' : Proof) (id : IId)
    (new : List NewLine) (cur : Item) (hcur : findItem s id = some cur) (hid : exportedAt id new)
    (hsub : ∀ l ∈ new, l.item.sub = []) (h : applyTactic s id new = .ok s') :
    cntList t s' + cntItem t cur ≤ cntList t s + (advertised new).count t ∧
    (advertised new = [] → cntList t s' + cntItem t cur = cntList t s) :=
  advertised_eq_applied_tactic_methods t s s' id new cur hcur hid hsub h

example : (match applyTactic s0 [0] new1 with
    | .ok s' => cntList (some ⟨5, []⟩) s' + 1 == cntList (some ⟨5, []⟩) s0 && advertised new1 == []
    | .error _ => false) = true := by decide

/-- `new_var` (a `variable` line before the goal): the open gaps are exactly those before. -/
theorem advertised_eq_applied_new_var (t : Option Seq) (s s' : Proof) (id : IId) (r : Nat) (p : List IId)
    (th : Option Seq) (cur : Item) (hcur : findItem s id = some cur) (hr : r ≠ ruleSorry)
    (h : forwardFact s id r p th = .ok s') : cntList t s' = cntList t s :=
  advertised_eq_applied_new_var_apply_fact t s s' id r p th cur hcur hr h

example : (match forwardFact s0 [0] 8 [] (some ⟨3, []⟩) with
    | .ok s' => cntList (some ⟨5, []⟩) s' == cntList (some ⟨5, []⟩) s0 && s'.length == s0.length + 1
    | .error _ => false) = true := by decide

/-- `apply_fact` (the instantiated fact before the goal): the open gaps are exactly those before. -/
theorem advertised_eq_applied_apply_fact (t : Option Seq) (s s' : Proof) (id : IId) (r : Nat) (p : List IId)
    (th : Option Seq) (cur : Item) (hcur : findItem s id = some cur) (hr : r ≠ ruleSorry)
    (h : forwardFact s id r p th = .ok s') : cntList t s' = cntList t s :=
  advertised_eq_applied_new_var_apply_fact t s s' id r p th cur hcur hr h

example : (match forwardFact s0 [0] 8 [] (some ⟨3, []⟩) with
    | .ok s' => cntList (some ⟨5, []⟩) s' == cntList (some ⟨5, []⟩) s0 && s'.length == s0.length + 1
    | .error _ => false) = true := by decide

/-- `rewrite_fact` (`_fact` = the rewritten fact): no gap is opened; the goal is closed when an earlier visible line — e.g. the
new fact — proves it. -/
theorem advertised_eq_applied_rewrite_fact (t : Option Seq) (s s' : Proof) (id : IId) (r : Nat) (p : List IId)
    (th : Option Seq) (cur : Item) (hcur : findItem s id = some cur) (hr : r ≠ ruleSorry)
    (h : forwardCloseM s id r p th = .ok s') : cntList t s' ≤ cntList t s :=
  advertised_eq_applied_forward_close t s s' id r p th cur hcur hr h

example : (match forwardCloseM s0 [0] 6 [] (some ⟨5, []⟩), forwardCloseM s0 [0] 6 [] (some ⟨4, []⟩) with
    | .ok s', .ok s'' => cntList (some ⟨5, []⟩) s' == 0 && cntList (some ⟨5, []⟩) s'' == 1
    | _, _ => false) = true := by decide

/-- `rewrite_fact_with_prev` (`_fact` = the rewritten fact): no gap is opened; the goal is closed when an earlier visible line — e.g. the
new fact — proves it. -/
theorem advertised_eq_applied_rewrite_fact_with_prev (t : Option Seq) (s s' : Proof) (id : IId) (r : Nat) (p : List IId)
    (th : Option Seq) (cur : Item) (hcur : findItem s id = some cur) (hr : r ≠ ruleSorry)
    (h : forwardCloseM s id r p th = .ok s') : cntList t s' ≤ cntList t s :=
  advertised_eq_applied_forward_close t s s' id r p th cur hcur hr h

example : (match forwardCloseM s0 [0] 6 [] (some ⟨5, []⟩), forwardCloseM s0 [0] 6 [] (some ⟨4, []⟩) with
    | .ok s', .ok s'' => cntList (some ⟨5, []⟩) s' == 0 && cntList (some ⟨5, []⟩) s'' == 1
    | _, _ => false) = true := by decide

/-- `apply_forward_step` (`_fact` = the conclusion of the theorem): no gap is opened; the goal is closed when an earlier visible line — e.g. the
new fact — proves it. -/
theorem advertised_eq_applied_apply_forward_step (t : Option Seq) (s s' : Proof) (id : IId) (r : Nat) (p : List IId)
    (th : Option Seq) (cur : Item) (hcur : findItem s id = some cur) (hr : r ≠ ruleSorry)
    (h : forwardCloseM s id r p th = .ok s') : cntList t s' ≤ cntList t s :=
  advertised_eq_applied_forward_close t s s' id r p th cur hcur hr h

example : (match forwardCloseM s0 [0] 6 [] (some ⟨5, []⟩), forwardCloseM s0 [0] 6 [] (some ⟨4, []⟩) with
    | .ok s', .ok s'' => cntList (some ⟨5, []⟩) s' == 0 && cntList (some ⟨5, []⟩) s'' == 1
    | _, _ => false) = true := by decide

/-! ### search side -/

/-- For the methods whose `search` is a filter on the shape of the goal and the selected facts
(`introduction`, `exists_elim`, `inst_exists_goal`): whenever `search` returns its suggestion for a
selected gap, the assertions that `apply` makes before it looks at any parameter hold.  Partial:
`forall_elim.apply` asserts nothing on the shape (a wrong type surfaces in the re-check); searches
that enumerate theorems are not modelled (oracle only). -/
theorem search_suggestions_apply_partial (rule : Nat) (c : Sel) (hgap : rule = ruleSorry) :
    (searchIntroduction c = true → applicableIntroduction rule c = true) ∧
    (searchExistsElim c = true → applicableExistsElim rule c = true) ∧
    (searchInstExistsGoal c = true → applicableInstExistsGoal rule c = true) := by
  subst hgap
  simp only [searchIntroduction, applicableIntroduction, searchExistsElim, applicableExistsElim,
    searchInstExistsGoal, applicableInstExistsGoal, Bool.and_eq_true, Bool.or_eq_true, beq_iff_eq]
  refine ⟨fun h => ⟨trivial, h.2.symm⟩, fun h => ⟨⟨h.1, trivial⟩, h.2⟩, fun h => ⟨trivial, h.2⟩⟩

example : searchIntroduction ⟨0, true, false, false, false, false⟩ = true ∧
    searchExistsElim ⟨1, false, false, false, false, true⟩ = true ∧
    searchExistsElim ⟨2, false, false, false, false, true⟩ = false := by decide

end Holpy.C14
