import Holpy.C14.Methods
import Holpy.C14.Intro
import Holpy.C14.Props
/-
C14 — property theorems, second file: per method, what `search` advertises against what `apply`
produces in the model.  Tactic bodies are opaque: a method that goes through `apply_tactic` is the
function "exported lines of the proof term" (`new`); `search` and `apply` evaluate the same tactic
on the same goal, theorem name and facts (the harness compares the `_goal` list of every suggestion
with the gaps of the export captured while applying it: stream `advertised-vs-export`).
-/
namespace Holpy.C14
open Holpy.C13

/-- The gap count of exported lines (no subproofs) is the multiplicity in the advertised list. -/
theorem cnt_eq_count_advertised (t : Option Seq) : ∀ (new : List NewLine),
    (∀ l ∈ new, l.item.sub = []) → cntList t (new.map (·.item)) = (advertised new).count t
  | [], _ => by simp [cntList, advertised, gaps]
  | l :: rest, h => by
    have ih := cnt_eq_count_advertised t rest (fun x hx => h x (by simp [hx]))
    have hl := h l (by simp)
    cases hli : l.item with
    | mk id r p th hs sub =>
      rw [hli] at hl
      simp only [Item.sub] at hl
      subst hl
      simp only [List.map_cons, cntList, hli, cntItem, advertised, gaps] at ih ⊢
      by_cases hr : r = ruleSorry
      · by_cases ht : th = t
        · simp [hr, ht, hli, Item.rule, Item.th, List.filter_cons, ih, advertised, gaps] ; omega
        · simp [hr, ht, hli, Item.rule, Item.th, List.filter_cons, ih, advertised, gaps, List.count_cons]
      · simp [hr, hli, Item.rule, List.filter_cons, ih, advertised, gaps]

/-- `apply_backward_step` with a named theorem (tactic `rule`): the goals that are open after `apply`
are the earlier ones without the goal line plus, at most, the advertised ones (as a multiset: for
every sequent `t`); if nothing is advertised (`_goal = []`, "solves") exactly the goal disappears. -/
theorem advertised_eq_applied_apply_backward_step (t : Option Seq) (s s' : Proof) (id : IId)
    (new : List NewLine) (cur : Item) (hcur : findItem s id = some cur) (hid : exportedAt id new)
    (hsub : ∀ l ∈ new, l.item.sub = []) (h : applyTactic s id new = .ok s') :
    cntList t s' + cntItem t cur ≤ cntList t s + (advertised new).count t ∧
    (advertised new = [] → cntList t s' + cntItem t cur = cntList t s) := by
  have e := cnt_eq_count_advertised t new hsub
  refine ⟨by rw [← e]; exact open_goals_subset_advertised t s s' id new cur hcur hid h, fun hadv => ?_⟩
  have hs : ∀ l ∈ new, l.item.rule ≠ ruleSorry := by
    intro l hl hr
    have : l.item.th ∈ advertised new := by
      simp only [advertised, gaps, List.mem_map, List.mem_filter]
      exact ⟨l, ⟨hl, by simp [hr]⟩, rfl⟩
    rw [hadv] at this
    simp at this
  have hnew : cntList t (new.map (·.item)) = 0 := by rw [e, hadv]; simp
  exact solving_shape_closes_exactly_the_goal t s s' id new cur hcur hid hs hnew h

/-- `rewrite_goal` with a given theorem name (tactic `rewrite_goal`, macro `rewrite_goal` /
`rewrite_goal_sym`): same statement — both methods are `apply_tactic` on the exported lines of their
proof term. -/
theorem advertised_eq_applied_rewrite_goal (t : Option Seq) (s s' : Proof) (id : IId)
    (new : List NewLine) (cur : Item) (hcur : findItem s id = some cur) (hid : exportedAt id new)
    (hsub : ∀ l ∈ new, l.item.sub = []) (h : applyTactic s id new = .ok s') :
    cntList t s' + cntItem t cur ≤ cntList t s + (advertised new).count t ∧
    (advertised new = [] → cntList t s' + cntItem t cur = cntList t s) :=
  advertised_eq_applied_apply_backward_step t s s' id new cur hcur hid hsub h

/-- `cases` (`search` suggests nothing; `apply` is `apply_tactic` with the proof term
`classical_cases (sorry (A --> C)) (sorry (~A --> C))`): afterwards the goal line is closed and at
most the two case goals are newly open (`r`, the rule of the conclusion line, is `apply_theorem`). -/
theorem advertised_eq_applied_cases (t : Option Seq) (s s' : Proof) (id : IId) (r : Nat)
    (th1 th2 concl : Option Seq) (b1 b2 : Bool) (cur : Item) (hcur : findItem s id = some cur)
    (hr : r ≠ ruleSorry) (h : casesM s id r th1 th2 concl b1 b2 = .ok s') :
    cntList t s' + cntItem t cur ≤ cntList t s + (if th1 = t then 1 else 0) + (if th2 = t then 1 else 0) := by
  have := open_goals_subset_advertised t s s' id _ cur hcur (exportedAt_casesShape id r th1 th2 concl b1 b2) h
  simp only [casesShape, List.map, cntList, cntItem] at this
  simp [hr] at this ⊢
  omega

example : exportedAt [0] new0 ∧ (∀ l ∈ new0, l.item.sub = []) ∧ advertised new0 = [some ⟨7, []⟩, some ⟨8, []⟩] := by
  refine ⟨?_, by decide, by decide⟩
  intro k hk
  have : k = 0 ∨ k = 1 ∨ k = 2 := by simp [new0] at hk; omega
  rcases this with h | h | h <;> subst h <;> rfl

example : advertised new1 = [] := by decide

example : (match casesM s0 [0] 9 (some ⟨7, []⟩) (some ⟨8, []⟩) (some ⟨5, []⟩) false false with
    | .ok s' => wf s' && (sorrysList s' == [some ⟨7, []⟩, some ⟨8, []⟩])
    | .error _ => false) = true := by decide

/-- `cut` (never suggested by `search`; the step displays "have C"): `apply` opens exactly one new
gap, stating the given sequent, and leaves every other gap as it is. -/
theorem advertised_eq_applied_cut (t : Option Seq) (s s' : Proof) (id : IId) (th : Option Seq) (cur : Item)
    (hcur : findItem s id = some cur) (h : cutM s id th = .ok s') :
    cntList t s' = cntList t s + (if th = t then 1 else 0) :=
  cnt_cutM t s s' id th cur hcur h

example : (match cutM s0 [0] (some ⟨7, []⟩) with
    | .ok s' => wf s' && (sorrysList s' == [some ⟨7, []⟩, some ⟨5, []⟩])
    | .error _ => false) = true := by decide

/-- `forall_elim` (suggested without `_goal`/`_fact`; `apply` is `add_line_before(id, 1)` +
`set_line(id, 'forall_elim_gen', …)`), and every other forward step that inserts one proved line:
the open gaps are exactly those before. -/
theorem advertised_eq_applied_forall_elim (t : Option Seq) (s s' : Proof) (id : IId) (r : Nat) (p : List IId)
    (th : Option Seq) (cur : Item) (hcur : findItem s id = some cur) (hr : r ≠ ruleSorry)
    (h : forwardFact s id r p th = .ok s') : cntList t s' = cntList t s := by
  have := cnt_forwardFact t s s' id r p th cur hcur h
  simpa [hr] using this

example : (match forwardFact s0 [0] 6 [] (some ⟨3, []⟩) with
    | .ok s' => wf s' && (sorrysList s' == [some ⟨5, []⟩]) && s'.length == 3
    | .error _ => false) = true := by decide

/-- `introduction` (suggested without `_goal`; `apply` turns the goal line into a `subproof` line
holding the exported lines of the `intros` proof term — variables, assumptions, one gap, the closing
`intros` line — and identifies lines of it with earlier visible ones): afterwards the goal line is no
longer a gap, and the gaps that are newly open are among those of the new subproof. -/
theorem advertised_eq_applied_introduction (t : Option Seq) (s s' : Proof) (id : IId) (sub : List Item)
    (cur : Item) (hcur : findItem s id = some cur) (h : introM s id sub = .ok s') :
    cntList t s' + cntItem t cur ≤ cntList t s + cntList t sub :=
  cnt_introM t s s' id sub cur hcur h

example : (match introM s0 [0] [.mk [0, 0] 7 [] (some ⟨6, [6]⟩) false [], .mk [0, 1] ruleSorry [] (some ⟨8, [6]⟩) false [],
      .mk [0, 2] 4 [[0, 0], [0, 1]] (some ⟨5, []⟩) false []] with
    | .ok s' => wf s' && (sorrysList s' == [some ⟨8, [6]⟩]) && s'.length == 2
    | .error _ => false) = true := by decide

end Holpy.C14
