import Holpy.C13.Wire
import Holpy.C14.Model
import Holpy.C14.ExistsModel
import Holpy.C14.SearchModel
import Holpy.C13.ExportModel
import Holpy.C13.RevertModel
/-
Line protocol, additions for the method-level model of C14 (everything else: Holpy/C13/Wire.lean):
  (cut STATE ID TH)                      -> (ok STATE) | (error KIND)     cut_method.apply
  (forward STATE ID RULE (ID ...) TH)    -> (ok STATE) | (error KIND)     add_line_before(id,1) + set_line
  (cases STATE ID RULE TH1 TH2 CONCL T|F T|F) -> (ok STATE) | (error KIND)
  (advertised ((ITEM T|F) ...))          -> (TH ...)
  (intro STATE ID (ITEM ...))            -> (ok STATE) | (error KIND)     introduction.apply
  (forwardclose STATE ID RULE (ID ...) TH) -> (ok STATE) | (error KIND)   rewrite_fact / rewrite_fact_with_prev / apply_forward_step
  (searchfilter N GF GI GE FF FE)        -> (T|F T|F T|F T|F)   introduction exists_elim forall_elim inst_exists_goal suggested?
  (applicable RULE N GF GI GE FF FE)     -> (T|F T|F T|F)   introduction exists_elim inst_exists_goal: first tests of `apply` pass?
  (revert STATE ID FACT TH RA RI)        -> (ok STATE) | (error KIND)     revert_intro.apply (RA/RI: rule codes of assume/intros)
  (existselim STATE ID FACT T|F (TH ...) TH BODY RA RV RI) -> (ok STATE) | (error KIND)   exists_elim.apply
  (roundtrip STATE)                      -> (ok STATE) | (error KIND)     importLines [] (exportLines STATE)
  (import ((ID RULE (ID ...) TH) ...))   -> (ok STATE) | (error KIND)
-/
open Holpy Holpy.C13 Holpy.C13.Wire

namespace Holpy.C14.Wire

def handle (line : String) : String :=
  match Sexp.parse line with
  | some (.list [.atom "cut", st, i, t]) =>
    match stateOf st, idOf i, thOf t with
    | some s, some i, some t => resTo (cutM s i t)
    | _, _, _ => "bad-op"
  | some (.list [.atom "forward", st, i, r, p, t]) =>
    match stateOf st, idOf i, r.toNat?, idsOf p, thOf t with
    | some s, some i, some r, some p, some t => resTo (forwardFact s i r p t)
    | _, _, _, _, _ => "bad-op"
  | some (.list [.atom "cases", st, i, r, t1, t2, c, b1, b2]) =>
    match stateOf st, idOf i, r.toNat?, thOf t1, thOf t2, thOf c, b1.toBool?, b2.toBool? with
    | some s, some i, some r, some t1, some t2, some c, some b1, some b2 => resTo (casesM s i r t1 t2 c b1 b2)
    | _, _, _, _, _, _, _, _ => "bad-op"
  | some (.list [.atom "revert", st, i, f, t, ra, ri]) =>
    match stateOf st, idOf i, idOf f, thOf t, ra.toNat?, ri.toNat? with
    | some s, some i, some f, some t, some ra, some ri => resTo (revertIntroM s i f t ra ri)
    | _, _, _, _, _, _ => "bad-op"
  | some (.list [.atom "forwardclose", st, i, r, p, t]) =>
    match stateOf st, idOf i, r.toNat?, idsOf p, thOf t with
    | some s, some i, some r, some p, some t => resTo (forwardCloseM s i r p t)
    | _, _, _, _, _ => "bad-op"
  | some (.list [.atom "searchfilter", n, gf, gi, ge, ff, fe]) =>
    match n.toNat?, gf.toBool?, gi.toBool?, ge.toBool?, ff.toBool?, fe.toBool? with
    | some n, some gf, some gi, some ge, some ff, some fe =>
      let c : Sel := ⟨n, gf, gi, ge, ff, fe⟩
      toString (Sexp.list [Sexp.ofBool (searchIntroduction c), Sexp.ofBool (searchExistsElim c),
        Sexp.ofBool (searchForallElim c), Sexp.ofBool (searchInstExistsGoal c)])
    | _, _, _, _, _, _ => "bad-op"
  | some (.list [.atom "applicable", r, n, gf, gi, ge, ff, fe]) =>
    match r.toNat?, n.toNat?, gf.toBool?, gi.toBool?, ge.toBool?, ff.toBool?, fe.toBool? with
    | some r, some n, some gf, some gi, some ge, some ff, some fe =>
      let c : Sel := ⟨n, gf, gi, ge, ff, fe⟩
      toString (Sexp.list [Sexp.ofBool (applicableIntroduction r c), Sexp.ofBool (applicableExistsElim r c),
        Sexp.ofBool (applicableInstExistsGoal r c)])
    | _, _, _, _, _, _, _ => "bad-op"
  | some (.list [.atom "intro", st, i, sub]) =>
    match stateOf st, idOf i, stateOf sub with
    | some s, some i, some sub => resTo (introM s i sub)
    | _, _, _ => "bad-op"
  | some (.list [.atom "advertised", new]) =>
    match newOf new with
    | some new => toString (Sexp.list ((advertised new).map thTo))
    | none => "bad-op"
  | some (.list [.atom "existselim", st, i, f, fe, vs, ath, b, ra, rv, ri]) =>
    match stateOf st, idOf i, idOf f, fe.toBool?, (vs.toList? >>= fun xs => xs.mapM thOf), thOf ath, b.toNat?, ra.toNat?, rv.toNat?, ri.toNat? with
    | some s, some i, some f, some fe, some vs, some ath, some b, some ra, some rv, some ri =>
      resTo (existsElimM s i f fe vs ath b ra rv ri)
    | _, _, _, _, _, _, _, _, _, _ => "bad-op"
  | some (.list [.atom "searchbackward", n, es]) =>
    -- (searchbackward NPREVS ((NAME HB HB1 q|r|(TH ...)) ...)) -> ((NAME q|(TH ...)) ...)   apply_backward_step.search
    match n.toNat?, (es.toList? >>= fun xs => xs.mapM (fun
        | .list [.atom nm, hb, hb1, out] => do
          let o : TacOut ← (match out with
            | .atom "q" => some TacOut.query
            | .atom "r" => some TacOut.refused
            | o => do
              let ths ← (← o.toList?).mapM thOf
              some (TacOut.gaps (ths.map (fun th => ⟨.mk [0] ruleSorry [] th false [], false⟩))))
          some ((⟨nm, ← hb.toBool?, ← hb1.toBool?⟩ : DbEntry), o)
        | _ => none)) with
    | some n, some es =>
      let tac := fun nm => match es.find? (fun e => e.1.name == nm) with
        | some e => e.2
        | none => TacOut.refused
      toString (Sexp.list ((searchBackward (es.map (·.1)) n tac).map (fun sg =>
        Sexp.list [.atom sg.1, match sg.2 with | none => .atom "q" | some a => Sexp.list (a.map thTo)])))
    | _, _ => "bad-op"
  | some (.list [.atom "roundtrip", st]) =>
    match stateOf st with
    | some s => resTo (importLines [] (exportLines s))
    | none => "bad-op"
  | some (.list [.atom "import", ls]) =>
    match ls.toList? >>= fun xs => xs.mapM (fun
        | .list [i, r, p, t] => do some (⟨← idOf i, ← r.toNat?, ← idsOf p, ← thOf t⟩ : Line)
        | _ => none) with
    | some lines => resTo (importLines [] lines)
    | none => "bad-op"
  | _ => Holpy.C13.Wire.handle line

end Holpy.C14.Wire
