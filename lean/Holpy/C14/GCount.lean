import Holpy.C14.ExistsModel
import Holpy.C14.Methods
/-
The counting lemmas of Proofs.lean / Closing.lean / Methods.lean for the generic gap measure
`gcList q` (gaps whose stated sequent satisfies `q`) — same proofs.
-/
namespace Holpy.C14
open Holpy.C13

theorem gcList_append (q : Option Seq → Bool) : ∀ (a b : List Item), gcList q (a ++ b) = gcList q a + gcList q b
  | [], b => by simp [gcList]
  | i :: is, b => by simp [gcList, gcList_append q is b, Nat.add_assoc]

theorem gcList_take_drop (q : Option Seq → Bool) (l : List Item) (k : Nat) :
    gcList q (l.take k) + gcList q (l.drop k) = gcList q l := by
  rw [← gcList_append, List.take_append_drop]

mutual
theorem gcItem_incr (q : Option Seq → Bool) (st : IId) (n : Nat) : ∀ i : Item, gcItem q (Item.incr st n i) = gcItem q i
  | .mk id r p th hs sub => by simp only [Item.incr, gcItem]; rw [gcList_incr q st n sub]
theorem gcList_incr (q : Option Seq → Bool) (st : IId) (n : Nat) : ∀ l : List Item, gcList q (incrList st n l) = gcList q l
  | [] => by simp [incrList, gcList]
  | i :: is => by simp only [incrList, gcList]; rw [gcItem_incr q st n i, gcList_incr q st n is]
end

theorem gcList_newLines (q : Option Seq → Bool) (id : IId) (n : Nat) : gcList q (newLines id n) = 0 := by
  unfold newLines
  induction (List.range n) with
  | nil => simp [gcList]
  | cons a as ih =>
    simp only [List.map, gcList, gcItem]
    rw [ih]; simp [ruleEmpty, ruleSorry]

/-- Replacing the `i`-th item: the count changes by the difference of the two items. -/
theorem gcList_set (q : Option Seq → Bool) : ∀ (l : List Item) (i : Nat) (x y : Item), l[i]? = some y →
    gcList q (l.set i x) + gcItem q y = gcList q l + gcItem q x
  | [], i, x, y, h => by simp at h
  | a :: as, 0, x, y, h => by
    simp at h; subst h; simp [gcList]; omega
  | a :: as, i + 1, x, y, h => by
    simp at h
    have := gcList_set q as i x y h
    simp [gcList]; omega

/-- Generic bound through `modifyAt`: if the leaf transformation adds at most `c` gaps with
sequent `t`, so does the whole edit. -/
theorem gc_modifyAt_le (q : Option Seq → Bool) (c : Nat) (f : List Item → Except Err (List Item))
    (hf : ∀ l l', f l = .ok l' → gcList q l' ≤ gcList q l + c) :
    ∀ (path : List Nat) (items items' : List Item), modifyAt path f items = .ok items' →
      gcList q items' ≤ gcList q items + c
  | [], items, items', h => by simp [modifyAt] at h; exact hf _ _ h
  | i :: rest, items, items', h => by
    simp only [modifyAt] at h
    split at h
    · simp at h
    · rename_i id r p th hs sub hget
      split at h
      · split at h
        · rename_i sub' hsub
          simp at h; subst h
          have ih := gc_modifyAt_le q c f hf rest sub sub' hsub
          have hs := gcList_set q items i (.mk id r p th hs sub') (.mk id r p th hs sub) hget
          simp only [gcItem] at hs
          omega
        · simp at h
      · simp at h


/-- Exact form of `cnt_modifyAt_le`, with the list reached by the path available to the leaf. -/
theorem gc_modifyAt_eq (q : Option Seq → Bool) (a b : Nat) (f : List Item → Except Err (List Item)) :
    ∀ (path : List Nat) (items items' : List Item),
      (∀ l l', getAt path items = some l → f l = .ok l' → gcList q l' + a = gcList q l + b) →
      modifyAt path f items = .ok items' → gcList q items' + a = gcList q items + b
  | [], items, items', hf, h => by simp [modifyAt] at h; exact hf _ _ (by simp [getAt]) h
  | i :: rest, items, items', hf, h => by
    simp only [modifyAt] at h
    split at h
    · simp at h
    · rename_i id r p th hs sub hget
      split at h
      · rename_i hhs
        split at h
        · rename_i sub' hsub
          simp at h; subst h
          have ih := gc_modifyAt_eq q a b f rest sub sub' (fun l l' hg hfl => by
            apply hf l l' _ hfl
            simp only [getAt, hget]; subst hhs; exact hg) hsub
          have hs := gcList_set q items i (.mk id r p th hs sub') (.mk id r p th hs sub) hget
          simp only [gcItem] at hs
          omega
        · simp at h
      · simp at h


/-- Exact count for the placement loop of `apply_tactic`: the lines placed replace the lines that
were at their positions. -/
theorem gc_placeAll_eq (q : Option Seq → Bool) (P : List Nat) (split : Nat) :
    ∀ (items : List Item) (i : Nat) (s s' : Proof) (L : List Item), getAt P s = some L →
      (∀ k (h : k < items.length), (items[k]).id = P ++ [split + i + k]) →
      placeAll s items = .ok s' →
      gcList q s' + gcList q ((L.drop (split + i)).take items.length) = gcList q s + gcList q items
  | [], i, s, s', L, _, _, h => by simp [placeAll] at h; subst h; simp [gcList]
  | x :: xs, i, s, s', L, hg, hid, h => by
    simp only [placeAll] at h
    split at h
    · rename_i s1 h1
      have hx : x.id = P ++ [split + i] := hid 0 (by simp)
      rw [hx, placeItem_unfold] at h1
      obtain ⟨l', hl', hg1⟩ := getAt_modifyAt _ P s s1 L hg h1
      split at hl'
      · rename_i hlt
        simp at hl'; subst hl'
        have hget : L[split + i]? = some L[split + i] := by simp [hlt]
        have e1 := gc_modifyAt_eq q (gcItem q L[split + i]) (gcItem q x) _ P s s1 (fun l l' hgl hfl => by
          rw [hg] at hgl; cases hgl
          simp [hlt] at hfl; subst hfl
          exact gcList_set q L (split + i) x L[split + i] hget) h1
        have ih := gc_placeAll_eq q P split xs (i + 1) s1 s' (L.set (split + i) x) hg1 (fun k hk => by
          have := hid (k + 1) (by simp; omega)
          simp at this
          rw [this]; congr 2; omega) h
        have hd : (L.set (split + i) x).drop (split + (i + 1)) = L.drop (split + (i + 1)) := by
          rw [List.drop_set_of_lt]; omega
        rw [hd] at ih
        have hc : (L.drop (split + i)).take (x :: xs).length
            = L[split + i] :: (L.drop (split + (i + 1))).take xs.length := by
          rw [List.drop_eq_getElem_cons hlt]
          simp [Nat.add_assoc]
        rw [hc]
        simp only [gcList] at ih ⊢
        omega
      · simp at hl'
    · simp at h


/-- Inserting `n` lines before an existing line and placing `n` lines on them: the gaps afterwards
are exactly the earlier ones plus those of the lines placed. -/
theorem gc_insert_lines (q : Option Seq → Bool) (s s1 s2 : Proof) (id : IId) (items : List Item) (cur : Item)
    (hcur : findItem s id = some cur)
    (hid : ∀ k (h : k < items.length), (items[k]).id = incrId id k)
    (h1 : addLineBefore s id items.length = .ok s1)
    (h2 : placeAll s1 items = .ok s2) :
    gcList q s2 = gcList q s + gcList q items := by
  obtain ⟨l, split, hlast, hget, hcl⟩ := findItem_getAt id s cur hcur
  have hidd := dropLast_concat id split hlast
  have hlt : split < l.length := by
    rcases Nat.lt_or_ge split l.length with h1 | h1
    · exact h1
    · simp [List.getElem?_eq_none h1] at hcl
  unfold addLineBefore at h1
  rw [hlast] at h1
  simp only at h1
  obtain ⟨L0, hL0, hg1⟩ := getAt_modifyAt _ id.dropLast s s1 l hget h1
  simp at hL0
  have e1 := gc_modifyAt_eq q 0 0 _ id.dropLast s s1 (fun l0 l' hgl hfl => by
    rw [hget] at hgl; cases hgl
    simp at hfl; subst hfl
    rw [gcList_append, gcList_append, gcList_newLines, gcList_incr]
    have := gcList_take_drop q l split
    omega) h1
  have e2 := gc_placeAll_eq q id.dropLast split items 0 s1 s2 L0 hg1 (fun k hk => by
    rw [hid k hk]
    conv => lhs; rw [← hidd]
    rw [incrId_pos]; simp) h2
  have hdrop : L0.drop (split + 0) = newLines id items.length ++ incrList id items.length (l.drop split) := by
    subst hL0
    have hl : (l.take split).length = split := by simp; omega
    simp only [Nat.add_zero, List.append_assoc]
    rw [List.drop_left' hl]
  have htake : (L0.drop (split + 0)).take items.length = newLines id items.length := by
    rw [hdrop]
    have hnl : (newLines id items.length).length = items.length := by simp [newLines]
    rw [List.take_append_of_le_length (by omega), List.take_of_length_le (by omega)]
  rw [htake, gcList_newLines] at e2
  omega


end Holpy.C14
