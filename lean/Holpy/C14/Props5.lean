import Holpy.C14.SearchModel
import Holpy.C14.Props2
/-
C14 — property theorems, fifth file: the theorem-enumerating search of `apply_backward_step`
(abstract database and tactic; `rewrite_goal.search` has the same shape with the attributes
hint_rewrite / hint_rewrite_sym and no parameter query).
-/
namespace Holpy.C14
open Holpy.C13

/-- Every suggestion `apply_backward_step.search` returns is applicable: the tactic it names does
not refuse (it yields a proof term, or asks for parameters when nothing was advertised), and
applying a suggestion that advertised `adv` splices a term whose gaps are exactly `adv` — so the
goals open afterwards are the earlier ones minus the goal plus at most `adv`.  Partial: the tactic
(matcher, instantiation, `apply_theorem`) is an abstract function here; that `search` and `apply`
see the same theorem database and facts is the stream `search:backward`. -/
theorem search_backward_suggestions_apply_partial (db : List DbEntry) (nprevs : Nat) (tac : String → TacOut)
    (name : String) (adv : Option (List (Option Seq))) (hs : (name, adv) ∈ searchBackward db nprevs tac) :
    (adv = none → tac name = .query) ∧
    (∀ a, adv = some a → ∃ new, tac name = .gaps new ∧ a = advertised new ∧
      ∀ (t : Option Seq) (s s' : Proof) (id : IId) (cur : Item), findItem s id = some cur → exportedAt id new →
        (∀ l ∈ new, l.item.sub = []) → applyBackward s id tac name = .ok s' →
        cntList t s' + cntItem t cur ≤ cntList t s + a.count t ∧
        (a = [] → cntList t s' + cntItem t cur = cntList t s)) := by
  unfold searchBackward at hs
  rw [List.mem_mergeSort] at hs
  simp only [List.mem_filterMap] at hs
  obtain ⟨e, _, he⟩ := hs
  unfold suggOf at he
  split at he
  · split at he
    · rename_i new hn
      simp at he
      obtain ⟨h1, h2⟩ := he
      subst h1; subst h2
      refine ⟨fun h => by simp at h, fun a ha => ?_⟩
      simp at ha; subst ha
      refine ⟨new, hn, rfl, fun t s s' id cur hcur hid hsub happ => ?_⟩
      unfold applyBackward at happ
      rw [hn] at happ
      exact advertised_eq_applied_apply_backward_step t s s' id new cur hcur hid hsub happ
    · rename_i hn
      simp at he
      obtain ⟨h1, h2⟩ := he
      subst h1; subst h2
      exact ⟨fun _ => hn, fun a ha => by simp at ha⟩
    · simp at he
  · simp at he

def db0 : List DbEntry := [⟨"disjI1", true, false⟩, ⟨"conjI", true, false⟩, ⟨"exI", true, false⟩, ⟨"conjD1", false, true⟩, ⟨"refl", false, false⟩]
def tac0 : String → TacOut
  | "conjI" => .gaps new0
  | "exI" => .query
  | "conjD1" => .gaps new1
  | _ => .refused

example : ("conjI", some (advertised new0)) ∈ searchBackward db0 0 tac0 ∧ ("exI", none) ∈ searchBackward db0 0 tac0 := by
  unfold searchBackward
  rw [List.mem_mergeSort, List.mem_mergeSort]
  simp [db0, suggOf, tac0]

end Holpy.C14
