namespace Holpy.C14
end Holpy.C14
