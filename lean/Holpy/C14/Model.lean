import Holpy.C13.Model
/-
C14 — what a suggestion advertises, on the C13 model of `apply_tactic`.

A method that goes through `ProofState.apply_tactic` builds a proof term; `search` advertises the
propositions of its gaps (`_goal: [gap.prop for gap in pt.gaps]`), `apply` splices the exported
lines of the same term (`Holpy.C13.applyTactic`).  A forward method (`_fact`) inserts one line
before the goal (`add_line_before(id, 1)` + `set_line`).
-/
namespace Holpy.C14
open Holpy.C13

/-- The gaps of an exported proof term: the stated sequents of its `sorry` lines. -/
def gaps (new : List NewLine) : List (Option Seq) :=
  (new.filter (fun l => l.item.rule = ruleSorry)).map (fun l => l.item.th)

/-- A forward step (`rewrite_fact`, `apply_forward_step`, `apply_fact`, `forall_elim`, …):
one new proved line with rule `r`, citations `p` and computed sequent `th` before the goal `id`. -/
def forwardFact (s : Proof) (id : IId) (r : Nat) (p : List IId) (th : Option Seq) : Except Err Proof :=
  match addLineBefore s id 1 with
  | .ok s1 => setLine s1 id r p th
  | .error e => .error e

end Holpy.C14
