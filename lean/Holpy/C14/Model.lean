import Holpy.C13.Model
/-
C14 — what a suggestion advertises, on the C13 model of `apply_tactic`.

A method that goes through `ProofState.apply_tactic` builds a proof term; `search` advertises the
propositions of its gaps (`_goal: [gap.prop for gap in pt.gaps]`), `apply` splices the exported
lines of the same term (`Holpy.C13.applyTactic`).  A forward method (`_fact`) inserts one line
before the goal (`add_line_before(id, 1)` + `set_line`).
-/
namespace Holpy.C14
open Holpy.C13

/-- The gaps of an exported proof term: the stated sequents of its `sorry` lines. -/
def gaps (new : List NewLine) : List (Option Seq) :=
  (new.filter (fun l => l.item.rule = ruleSorry)).map (fun l => l.item.th)

/-- A forward step (`rewrite_fact`, `apply_forward_step`, `apply_fact`, `forall_elim`, …):
one new proved line with rule `r`, citations `p` and computed sequent `th` before the goal `id`. -/
def forwardFact (s : Proof) (id : IId) (r : Nat) (p : List IId) (th : Option Seq) : Except Err Proof :=
  match addLineBefore s id 1 with
  | .ok s1 => setLine s1 id r p th
  | .error e => .error e

/-- `cut` (`cut_method.apply`): `add_line_before(id, 1)` then `set_line(id, 'sorry', th=Thm(C, hyps))`:
a new gap with the stated sequent before the goal. -/
def cutM (s : Proof) (id : IId) (th : Option Seq) : Except Err Proof :=
  match addLineBefore s id 1 with
  | .ok s1 => setLine s1 id ruleSorry [] th
  | .error e => .error e

/-- `cases` (`cases_method.apply` → `apply_tactic(id, tactic.cases(), args=A)`): the proof term is
`apply_theorem('classical_cases', sorry (A --> C), sorry (~A --> C))`; exported at `id` it is two gaps
and the conclusion line citing them (rule code `r`). -/
def casesShape (id : IId) (r : Nat) (th1 th2 concl : Option Seq) (triv1 triv2 : Bool) : List NewLine :=
  [⟨.mk id ruleSorry [] th1 false [], triv1⟩,
   ⟨.mk (incrId id 1) ruleSorry [] th2 false [], triv2⟩,
   ⟨.mk (incrId id 2) r [id, incrId id 1] concl false [], false⟩]

def casesM (s : Proof) (id : IId) (r : Nat) (th1 th2 concl : Option Seq) (triv1 triv2 : Bool) : Except Err Proof :=
  applyTactic s id (casesShape id r th1 th2 concl triv1 triv2)

/-- `state.get_proof_item(new_id).rule == item.rule`. -/
def sameRule (s : Proof) (new : IId) (r : Nat) : Bool :=
  match findItem s new with
  | some other => other.rule == r
  | none => false

/-- The "already proved" loop of `introduction.apply` over `cur_item.subproof.items[:-1]`: a line
of the new subproof whose sequent an earlier visible line proves is identified with that line —
a gap with any such line, an assumption / variable only with a line of the same rule. -/
def closeIntro : Proof → List IId → List Item → Except Err Proof
  | s, _, [] => .ok s
  | s, rem, it :: rest =>
    let cid := liveId rem it.id
    match findItem s cid with
    | none => .error .proofState
    | some cur =>
      match cur.th with
      | none => .error .index
      | some th =>
        match findGoal s th cid with
        | .error e => .error e
        | .ok none => closeIntro s rem rest
        | .ok (some new) =>
          if it.rule = ruleSorry || sameRule s new it.rule then
            match replaceId s cid new with
            | .error e => .error e
            | .ok s' => closeIntro s' (rem ++ [cid]) rest
          else closeIntro s rem rest

/-- `introduction.apply`: the goal line becomes a `subproof` line holding the exported lines of the
`intros` proof term (`pt.export(prefix=id)`: ids `id.0, id.1, …`), then the "already proved" loop. -/
def introM (s : Proof) (id : IId) (sub : List Item) : Except Err Proof :=
  match findItem s id with
  | none => .error .proofState
  | some cur =>
    if cur.rule ≠ ruleSorry then .error .assertion
    else
      match placeItem s id (.mk cur.id ruleSubproof cur.prevs cur.th true sub) with
      | .error e => .error e
      | .ok s1 => closeIntro s1 [] sub.dropLast

/-- The forward methods that may close the goal (`rewrite_fact`, `rewrite_fact_with_prev`,
`apply_forward_step`): insert the new fact before the goal; if the line behind it is a gap and an
earlier visible line (in particular the new fact) proves its sequent, `replace_id` it away. -/
def forwardCloseM (s : Proof) (id : IId) (r : Nat) (p : List IId) (th : Option Seq) : Except Err Proof :=
  match forwardFact s id r p th with
  | .error e => .error e
  | .ok s1 =>
    let id2 := incrId id 1
    match findItem s1 id2 with
    | none => .error .proofState
    | some g =>
      if g.rule = ruleSorry then
        match g.th with
        | none => .error .index
        | some gth =>
          match findGoal s1 gth id2 with
          | .error e => .error e
          | .ok none => .ok s1
          | .ok (some new) => replaceId s1 id2 new
      else .ok s1

/-! ### the search side of the methods whose `search` is a filter on the shape of goal and fact -/

/-- What the filters look at: how many facts are selected and the outermost connective of the goal
and of the first fact. -/
structure Sel where
  nfacts : Nat
  goalForall : Bool
  goalImplies : Bool
  goalExists : Bool
  factForall : Bool
  factExists : Bool
  deriving Repr, DecidableEq

/-- `introduction.search`: no facts, goal `!x. …` or `A --> B`. -/
def searchIntroduction (c : Sel) : Bool := c.nfacts == 0 && (c.goalForall || c.goalImplies)
/-- `exists_elim.search`: exactly one fact, of the form `?x. …`. -/
def searchExistsElim (c : Sel) : Bool := c.nfacts == 1 && c.factExists
/-- `forall_elim.search`: exactly one fact, of the form `!x. …`. -/
def searchForallElim (c : Sel) : Bool := c.nfacts == 1 && c.factForall
/-- `inst_exists_goal.search`: no facts, goal `?x. …`. -/
def searchInstExistsGoal (c : Sel) : Bool := c.nfacts == 0 && c.goalExists

/-- The tests `apply` performs first (its assertions before any parameter is looked at), for a
selected line with rule `rule`. -/
def applicableIntroduction (rule : Nat) (c : Sel) : Bool := rule == ruleSorry && (c.goalImplies || c.goalForall)
def applicableExistsElim (rule : Nat) (c : Sel) : Bool := c.nfacts == 1 && rule == ruleSorry && c.factExists
def applicableInstExistsGoal (rule : Nat) (c : Sel) : Bool := rule == ruleSorry && c.goalExists

/-- What a method that goes through `apply_tactic` advertises in `search`: the propositions of the
gaps of the proof term (`[gap.prop for gap in pt.gaps]`), here the stated sequents of the exported
`sorry` lines. -/
def advertised (new : List NewLine) : List (Option Seq) := gaps new

/- Number of open gaps (lines with rule `sorry`) whose stated sequent is `t`, subproofs included. -/
mutual
def cntItem (t : Option Seq) : Item → Nat
  | .mk _ r _ th _ sub => (if r = ruleSorry ∧ th = t then 1 else 0) + cntList t sub
def cntList (t : Option Seq) : List Item → Nat
  | [] => 0
  | i :: is => cntItem t i + cntList t is
end

/- Number of lines, subproofs included. -/
mutual
def sizeItem : Item → Nat
  | .mk _ _ _ _ _ sub => 1 + sizeList sub
def sizeList : List Item → Nat
  | [] => 0
  | i :: is => sizeItem i + sizeList is
end

end Holpy.C14
