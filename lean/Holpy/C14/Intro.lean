import Holpy.C14.Methods
/-
Helper lemmas for C14: the gaps after `introduction`.
-/
namespace Holpy.C14
open Holpy.C13

theorem cnt_closeIntro (t : Option Seq) : ∀ (items : List Item) (s : Proof) (rem : List IId) (s' : Proof),
    closeIntro s rem items = .ok s' → cntList t s' ≤ cntList t s
  | [], s, rem, s', h => by simp [closeIntro] at h; subst h; omega
  | it :: rest, s, rem, s', h => by
    simp only [closeIntro] at h
    split at h
    · simp at h
    · split at h
      · simp at h
      · split at h
        · simp at h
        · exact cnt_closeIntro t rest _ _ _ h
        · split at h
          · split at h
            · simp at h
            · rename_i s1 h1
              have a := cnt_replaceId t _ _ _ _ h1
              have b := cnt_closeIntro t rest _ _ _ h
              omega
          · exact cnt_closeIntro t rest _ _ _ h

/-- Exact count for replacing the line at `id` by another line. -/
theorem cnt_placeItem_eq (t : Option Seq) (s s' : Proof) (id : IId) (x cur : Item)
    (hcur : findItem s id = some cur) (h : placeItem s id x = .ok s') :
    cntList t s' + cntItem t cur = cntList t s + cntItem t x := by
  obtain ⟨l, split, hlast, hget, hcl⟩ := findItem_getAt id s cur hcur
  unfold placeItem at h
  rw [hlast] at h
  simp only at h
  exact cnt_modifyAt_eq t (cntItem t cur) (cntItem t x) _ id.dropLast s s' (fun l0 l' hgl hfl => by
    rw [hget] at hgl; cases hgl
    split at hfl
    · simp at hfl; subst hfl
      exact cntList_set t l split x cur hcl
    · simp at hfl) h

/-- `introduction`: afterwards the goal line is no longer a gap and at most the gaps of the new
subproof are newly open. -/
theorem cnt_introM (t : Option Seq) (s s' : Proof) (id : IId) (sub : List Item) (cur : Item)
    (hcur : findItem s id = some cur) (h : introM s id sub = .ok s') :
    cntList t s' + cntItem t cur ≤ cntList t s + cntList t sub := by
  unfold introM at h
  rw [hcur] at h
  simp only at h
  split at h
  · simp at h
  · split at h
    · simp at h
    · rename_i s1 h1
      have a := cnt_placeItem_eq t s s1 id _ cur hcur h1
      have b := cnt_closeIntro t _ _ _ _ h
      simp only [cntItem] at a
      have : ¬ (ruleSubproof = ruleSorry ∧ cur.th = t) := by simp [ruleSubproof, ruleSorry]
      simp [this] at a
      omega

end Holpy.C14
