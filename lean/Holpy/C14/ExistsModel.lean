import Holpy.C14.Model
/-
C14 — model of `exists_elim.apply` (server/method.py) on the C13 proof-state model, and the
generic gap measure its theorems are stated with.

    assert len(prevs) == 1; assert item(id).rule == 'sorry'; assert fact.is_exists()
    vars, body = strip_exists(fact.prop, names)
    add_line_before(id, len(vars)+1)
    set_line(id+i, 'variable', …) for i < len(vars);  set_line(id+len(vars), 'assume', body)
    i = len(vars)+1; loop over the lines id+i of the same block:
        line missing                -> AssertionError("cannot find intros at the end")
        rule == 'intros'            -> prevs := prevs[:-1] + [fact, id, …, id+len(vars)] + [prevs[-1]]; stop
        rule not assume / variable  -> th := Thm(th.prop, th.hyps, body)     (in place: subproof kept)
Rule arguments are not part of the structural model (the `intros` arguments: C13's alias model).
The sequents the checker computes for the new `variable` / `assume` lines enter as data.
-/
namespace Holpy.C14
open Holpy.C13

/-- `Thm(th.prop, th.hyps, body)`: the hypothesis is appended unless it is there already. -/
def addHyp (body : Nat) : Option Seq → Option Seq
  | none => none
  | some ⟨p, h⟩ => some ⟨p, if h.contains body then h else h ++ [body]⟩

/-- The loop over the lines behind the new assumption (from the goal line on). -/
def restate (body ra rv ri : Nat) (newIntros : List IId) : List Item → Except Err (List Item)
  | [] => .error .assertion
  | (.mk id r p th hs sub) :: rest =>
    if r = ri then
      match p.getLast? with
      | none => .error .index
      | some last => .ok (.mk id r (p.dropLast ++ newIntros ++ [last]) th hs sub :: rest)
    else if r = ra ∨ r = rv then
      match restate body ra rv ri newIntros rest with
      | .ok rest' => .ok (.mk id r p th hs sub :: rest')
      | .error e => .error e
    else
      match th with
      | none => .error .index
      | some _ =>
        match restate body ra rv ri newIntros rest with
        | .ok rest' => .ok (.mk id r p (addHyp body th) hs sub :: rest')
        | .error e => .error e

/-- `set_line(id+i, 'variable', …)` for the sequents `vths` (one per new variable), from offset `i`. -/
def setVars (rv : Nat) (id : IId) : Proof → Nat → List (Option Seq) → Except Err Proof
  | s, _, [] => .ok s
  | s, i, th :: ths =>
    match setLine s (incrId id i) rv [] th with
    | .ok s' => setVars rv id s' (i + 1) ths
    | .error e => .error e

/-- `exists_elim.apply(state, id, {names}, [fact])`; `factExists` = `fact.th.prop.is_exists()`,
`vths` / `ath` the sequents of the new variable lines / of the new assumption, `body` the code of
the assumed proposition, `ra rv ri` the rule codes of `assume`, `variable`, `intros`. -/
def existsElimM (s : Proof) (id fact : IId) (factExists : Bool) (vths : List (Option Seq)) (ath : Option Seq)
    (body ra rv ri : Nat) : Except Err Proof :=
  match findItem s id with
  | none => .error .proofState
  | some cur =>
    if cur.rule ≠ ruleSorry then .error .assertion
    else
      match findItem s fact with
      | none => .error .proofState
      | some _ =>
        if !factExists then .error .assertion
        else
          let nv := vths.length
          match addLineBefore s id (nv + 1) with
          | .error e => .error e
          | .ok s1 =>
            match setVars rv id s1 0 vths with
            | .error e => .error e
            | .ok s2 =>
              match setLine s2 (incrId id nv) ra [] ath with
              | .error e => .error e
              | .ok s3 =>
                match id.getLast? with
                | none => .error .index
                | some split =>
                  let newIntros := fact :: (List.range (nv + 1)).map (fun i => incrId id i)
                  modifyAt id.dropLast (fun items =>
                    match restate body ra rv ri newIntros (items.drop (split + nv + 1)) with
                    | .ok tail => .ok (items.take (split + nv + 1) ++ tail)
                    | .error e => .error e) s3

/-! ### a generic gap measure: the open gaps whose stated sequent satisfies `q` -/
mutual
def gcItem (q : Option Seq → Bool) : Item → Nat
  | .mk _ r _ th _ sub => (if r = ruleSorry ∧ q th = true then 1 else 0) + gcList q sub
def gcList (q : Option Seq → Bool) : List Item → Nat
  | [] => 0
  | i :: is => gcItem q i + gcList q is
end

end Holpy.C14
