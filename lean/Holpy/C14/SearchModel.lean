import Holpy.C14.Model
/-
C14 — the theorem-enumerating search of `apply_backward_step` (server/method.py 641-662), abstractly:
the theorem database is a list of entries (name, has attribute hint_backward, has hint_backward1),
the tactic (`tactic.rule().get_proof_term`, i.e. matcher + instantiation) is a function of the name
with three outcomes: a proof term (its exported lines), ParameterQueryException, refused
(AssertionError / MatchException).  `search` keeps the hinted theorems the tactic does not refuse,
sorted by name; `apply` runs the same tactic and splices.
-/
namespace Holpy.C14
open Holpy.C13

structure DbEntry where
  name : String
  hintB : Bool
  hintB1 : Bool

inductive TacOut where
  | gaps (new : List NewLine)
  | query
  | refused

/-- One suggestion: the theorem name and the advertised `_goal` list (none: suggested without one). -/
abbrev Sugg := String × Option (List (Option Seq))

def suggOf (nprevs : Nat) (tac : String → TacOut) (e : DbEntry) : Option Sugg :=
  if e.hintB || (e.hintB1 && decide (1 ≤ nprevs)) then
    match tac e.name with
    | .gaps new => some (e.name, some (advertised new))
    | .query => some (e.name, none)
    | .refused => none
  else none

def searchBackward (db : List DbEntry) (nprevs : Nat) (tac : String → TacOut) : List Sugg :=
  (db.filterMap (suggOf nprevs tac)).mergeSort (fun a b => !(b.1 < a.1))

/-- `apply_backward_step.apply` without parameters: the same tactic, then the splice. -/
def applyBackward (s : Proof) (id : IId) (tac : String → TacOut) (name : String) : Except Err Proof :=
  match tac name with
  | .gaps new => applyTactic s id new
  | _ => .error .assertion

end Holpy.C14
