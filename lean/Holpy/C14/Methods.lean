import Holpy.C14.Closing
import Holpy.C13.GoalTactic
/-
Helper lemmas for C14: exact effect of the structurally simple methods on the open gaps.
-/
namespace Holpy.C14
open Holpy.C13

theorem incrId_zero : ∀ (id : IId), incrId id 0 = id
  | [] => rfl
  | [a] => by simp [incrId]
  | a :: b :: as => by simp [incrId, incrId_zero (b :: as)]

/-- Inserting `n` lines before an existing line and placing `n` lines on them: the gaps afterwards
are exactly the earlier ones plus those of the lines placed. -/
theorem cnt_insert_lines (t : Option Seq) (s s1 s2 : Proof) (id : IId) (items : List Item) (cur : Item)
    (hcur : findItem s id = some cur)
    (hid : ∀ k (h : k < items.length), (items[k]).id = incrId id k)
    (h1 : addLineBefore s id items.length = .ok s1)
    (h2 : placeAll s1 items = .ok s2) :
    cntList t s2 = cntList t s + cntList t items := by
  obtain ⟨l, split, hlast, hget, hcl⟩ := findItem_getAt id s cur hcur
  have hidd := dropLast_concat id split hlast
  have hlt : split < l.length := by
    rcases Nat.lt_or_ge split l.length with h1 | h1
    · exact h1
    · simp [List.getElem?_eq_none h1] at hcl
  unfold addLineBefore at h1
  rw [hlast] at h1
  simp only at h1
  obtain ⟨L0, hL0, hg1⟩ := getAt_modifyAt _ id.dropLast s s1 l hget h1
  simp at hL0
  have e1 := cnt_modifyAt_eq t 0 0 _ id.dropLast s s1 (fun l0 l' hgl hfl => by
    rw [hget] at hgl; cases hgl
    simp at hfl; subst hfl
    rw [cntList_append, cntList_append, cntList_newLines, cntList_incr]
    have := cntList_take_drop t l split
    omega) h1
  have e2 := cnt_placeAll_eq t id.dropLast split items 0 s1 s2 L0 hg1 (fun k hk => by
    rw [hid k hk]
    conv => lhs; rw [← hidd]
    rw [incrId_pos]; simp) h2
  have hdrop : L0.drop (split + 0) = newLines id items.length ++ incrList id items.length (l.drop split) := by
    subst hL0
    have hl : (l.take split).length = split := by simp; omega
    simp only [Nat.add_zero, List.append_assoc]
    rw [List.drop_left' hl]
  have htake : (L0.drop (split + 0)).take items.length = newLines id items.length := by
    rw [hdrop]
    have hnl : (newLines id items.length).length = items.length := by simp [newLines]
    rw [List.take_append_of_le_length (by omega), List.take_of_length_le (by omega)]
  rw [htake, cntList_newLines] at e2
  omega

/-- `cut`: exactly one new gap, stating the given sequent; every other gap stays. -/
theorem cnt_cutM (t : Option Seq) (s s' : Proof) (id : IId) (th : Option Seq) (cur : Item)
    (hcur : findItem s id = some cur) (h : cutM s id th = .ok s') :
    cntList t s' = cntList t s + (if th = t then 1 else 0) := by
  unfold cutM at h
  split at h
  · rename_i s1 h1
    have h2 : placeAll s1 [Item.mk id ruleSorry [] th false []] = .ok s' := by
      simp only [placeAll, Item.id]
      have : placeItem s1 id (Item.mk id ruleSorry [] th false []) = .ok s' := h
      rw [this]
    have := cnt_insert_lines t s s1 s' id [Item.mk id ruleSorry [] th false []] cur hcur
      (fun k hk => by
        have : k = 0 := by simp at hk; omega
        subst this
        simp [Item.id, incrId_zero]) h1 h2
    simpa [cntList, cntItem] using this
  · simp at h

/-- A forward step: exactly one new line, with rule `r`; the gaps change by that line only. -/
theorem cnt_forwardFact (t : Option Seq) (s s' : Proof) (id : IId) (r : Nat) (p : List IId) (th : Option Seq)
    (cur : Item) (hcur : findItem s id = some cur) (h : forwardFact s id r p th = .ok s') :
    cntList t s' = cntList t s + (if r = ruleSorry ∧ th = t then 1 else 0) := by
  unfold forwardFact at h
  split at h
  · rename_i s1 h1
    have h2 : placeAll s1 [Item.mk id r p th false []] = .ok s' := by
      simp only [placeAll, Item.id]
      have : placeItem s1 id (Item.mk id r p th false []) = .ok s' := h
      rw [this]
    have := cnt_insert_lines t s s1 s' id [Item.mk id r p th false []] cur hcur
      (fun k hk => by
        have : k = 0 := by simp at hk; omega
        subst this
        simp [Item.id, incrId_zero]) h1 h2
    simpa [cntList, cntItem] using this
  · simp at h

theorem exportedAt_casesShape (id : IId) (r : Nat) (th1 th2 concl : Option Seq) (b1 b2 : Bool) :
    exportedAt id (casesShape id r th1 th2 concl b1 b2) := by
  intro k hk
  have : k = 0 ∨ k = 1 ∨ k = 2 := by simp [casesShape] at hk; omega
  rcases this with h | h | h <;> subst h <;> simp [casesShape, Item.id, incrId_zero]

end Holpy.C14
