import Holpy.C14.Model
/-
Helper lemmas for C14: how the number of open gaps with a given sequent changes under the
operations of the C13 model.
-/
namespace Holpy.C14
open Holpy.C13

theorem cntList_append (t : Option Seq) : ∀ (a b : List Item), cntList t (a ++ b) = cntList t a + cntList t b
  | [], b => by simp [cntList]
  | i :: is, b => by simp [cntList, cntList_append t is b, Nat.add_assoc]

theorem cntList_take_drop (t : Option Seq) (l : List Item) (k : Nat) :
    cntList t (l.take k) + cntList t (l.drop k) = cntList t l := by
  rw [← cntList_append, List.take_append_drop]

mutual
theorem cntItem_incr (t : Option Seq) (st : IId) (n : Nat) : ∀ i : Item, cntItem t (Item.incr st n i) = cntItem t i
  | .mk id r p th hs sub => by simp only [Item.incr, cntItem]; rw [cntList_incr t st n sub]
theorem cntList_incr (t : Option Seq) (st : IId) (n : Nat) : ∀ l : List Item, cntList t (incrList st n l) = cntList t l
  | [] => by simp [incrList, cntList]
  | i :: is => by simp only [incrList, cntList]; rw [cntItem_incr t st n i, cntList_incr t st n is]
end

mutual
theorem cntItem_decr (t : Option Seq) (rm : IId) : ∀ i : Item, cntItem t (Item.decr rm i) = cntItem t i
  | .mk id r p th hs sub => by simp only [Item.decr, cntItem]; rw [cntList_decr t rm sub]
theorem cntList_decr (t : Option Seq) (rm : IId) : ∀ l : List Item, cntList t (decrList rm l) = cntList t l
  | [] => by simp [decrList, cntList]
  | i :: is => by simp only [decrList, cntList]; rw [cntItem_decr t rm i, cntList_decr t rm is]
end

mutual
theorem cntItem_replace (t : Option Seq) (o n : IId) : ∀ i : Item, cntItem t (Item.replacePrev o n i) = cntItem t i
  | .mk id r p th hs sub => by simp only [Item.replacePrev, cntItem]; rw [cntList_replace t o n sub]
theorem cntList_replace (t : Option Seq) (o n : IId) : ∀ l : List Item, cntList t (replaceList o n l) = cntList t l
  | [] => by simp [replaceList, cntList]
  | i :: is => by simp only [replaceList, cntList]; rw [cntItem_replace t o n i, cntList_replace t o n is]
end

theorem cntList_newLines (t : Option Seq) (id : IId) (n : Nat) : cntList t (newLines id n) = 0 := by
  unfold newLines
  induction (List.range n) with
  | nil => simp [cntList]
  | cons a as ih =>
    simp only [List.map, cntList, cntItem]
    rw [ih]; simp [ruleEmpty, ruleSorry]

/-- Replacing the `i`-th item: the count changes by the difference of the two items. -/
theorem cntList_set (t : Option Seq) : ∀ (l : List Item) (i : Nat) (x y : Item), l[i]? = some y →
    cntList t (l.set i x) + cntItem t y = cntList t l + cntItem t x
  | [], i, x, y, h => by simp at h
  | a :: as, 0, x, y, h => by
    simp at h; subst h; simp [cntList]; omega
  | a :: as, i + 1, x, y, h => by
    simp at h
    have := cntList_set t as i x y h
    simp [cntList]; omega

/-- Generic bound through `modifyAt`: if the leaf transformation adds at most `c` gaps with
sequent `t`, so does the whole edit. -/
theorem cnt_modifyAt_le (t : Option Seq) (c : Nat) (f : List Item → Except Err (List Item))
    (hf : ∀ l l', f l = .ok l' → cntList t l' ≤ cntList t l + c) :
    ∀ (path : List Nat) (items items' : List Item), modifyAt path f items = .ok items' →
      cntList t items' ≤ cntList t items + c
  | [], items, items', h => by simp [modifyAt] at h; exact hf _ _ h
  | i :: rest, items, items', h => by
    simp only [modifyAt] at h
    split at h
    · simp at h
    · rename_i id r p th hs sub hget
      split at h
      · split at h
        · rename_i sub' hsub
          simp at h; subst h
          have ih := cnt_modifyAt_le t c f hf rest sub sub' hsub
          have hs := cntList_set t items i (.mk id r p th hs sub') (.mk id r p th hs sub) hget
          simp only [cntItem] at hs
          omega
        · simp at h
      · simp at h

theorem cntList_drop_succ_le (t : Option Seq) : ∀ (l : List Item) (k : Nat),
    cntList t (l.drop (k + 1)) ≤ cntList t (l.drop k)
  | [], k => by simp [cntList]
  | a :: as, 0 => by simp [cntList]
  | a :: as, k + 1 => by simpa using cntList_drop_succ_le t as k

theorem cnt_addLineBefore (t : Option Seq) (s s' : Proof) (id : IId) (n : Nat)
    (h : addLineBefore s id n = .ok s') : cntList t s' ≤ cntList t s := by
  unfold addLineBefore at h
  split at h
  · simp at h
  · rename_i split _
    have := cnt_modifyAt_le t 0 _ (fun l l' hl => by
      simp at hl; subst hl
      rw [cntList_append, cntList_append, cntList_newLines, cntList_incr]
      have := cntList_take_drop t l split
      omega) _ _ _ h
    omega

theorem cnt_removeLine (t : Option Seq) (s s' : Proof) (id : IId)
    (h : removeLine s id = .ok s') : cntList t s' ≤ cntList t s := by
  unfold removeLine at h
  split at h
  · simp at h
  · rename_i split _
    have := cnt_modifyAt_le t 0 _ (fun l l' hl => by
      simp at hl; subst hl
      rw [cntList_append, cntList_decr]
      have h1 := cntList_take_drop t l split
      have h2 := cntList_drop_succ_le t l split
      omega) _ _ _ h
    omega

theorem cnt_placeItem (t : Option Seq) (s s' : Proof) (id : IId) (it : Item)
    (h : placeItem s id it = .ok s') : cntList t s' ≤ cntList t s + cntItem t it := by
  unfold placeItem at h
  split at h
  · simp at h
  · rename_i split _
    exact cnt_modifyAt_le t (cntItem t it) _ (fun l l' hl => by
      split at hl
      · rename_i hlt
        simp at hl; subst hl
        have hget : l[split]? = some l[split] := by simp [hlt]
        have := cntList_set t l split it l[split] hget
        omega
      · simp at hl) _ _ _ h

theorem cnt_setLine (t : Option Seq) (s s' : Proof) (id : IId) (r : Nat) (p : List IId) (th : Option Seq)
    (h : setLine s id r p th = .ok s') :
    cntList t s' ≤ cntList t s + (if r = ruleSorry ∧ th = t then 1 else 0) := by
  have := cnt_placeItem t s s' id _ h
  simpa [cntItem, cntList] using this

theorem cnt_replaceId (t : Option Seq) (s s' : Proof) (o n : IId)
    (h : replaceId s o n = .ok s') : cntList t s' ≤ cntList t s := by
  unfold replaceId at h
  split at h
  · rename_i s1 h1
    have a := cnt_modifyAt_le t 0 _ (fun l l' hl => by
      simp at hl; subst hl; rw [cntList_replace]; omega) _ _ _ h1
    have b := cnt_removeLine t s1 s' o h
    omega
  · simp at h

theorem cnt_placeAll (t : Option Seq) : ∀ (items : List Item) (s s' : Proof),
    placeAll s items = .ok s' → cntList t s' ≤ cntList t s + cntList t items
  | [], s, s', h => by simp [placeAll] at h; subst h; simp [cntList]
  | it :: rest, s, s', h => by
    simp only [placeAll] at h
    split at h
    · rename_i s1 h1
      have a := cnt_placeItem t s s1 it.id it h1
      have b := cnt_placeAll t rest s1 s' h
      simp only [cntList]; omega
    · simp at h

theorem cnt_closeProved (t : Option Seq) : ∀ (new : List NewLine) (s : Proof) (rem : List IId) (acc : List Bool)
    (s' : Proof) (rem' : List IId) (fl : List Bool),
    closeProved s rem acc new = .ok (s', rem', fl) → cntList t s' ≤ cntList t s
  | [], s, rem, acc, s', rem', fl, h => by simp [closeProved] at h; rw [h.1]; omega
  | l :: rest, s, rem, acc, s', rem', fl, h => by
    simp only [closeProved] at h
    split at h
    · split at h
      · simp at h
      · split at h
        · simp at h
        · split at h
          · simp at h
          · exact cnt_closeProved t rest _ _ _ _ _ _ h
          · split at h
            · simp at h
            · rename_i s1 h1
              have a := cnt_replaceId t _ _ _ _ h1
              have b := cnt_closeProved t rest _ _ _ _ _ _ h
              omega
    · exact cnt_closeProved t rest _ _ _ _ _ _ h

theorem cnt_closeTrivial (t : Option Seq) : ∀ (ls : List (NewLine × Bool)) (s : Proof) (rem : List IId) (s' : Proof),
    closeTrivial s rem ls = .ok s' → cntList t s' ≤ cntList t s
  | [], s, rem, s', h => by simp [closeTrivial] at h; subst h; omega
  | (l, removed) :: rest, s, rem, s', h => by
    simp only [closeTrivial] at h
    split at h
    · split at h
      · simp at h
      · split at h
        · rename_i s1 h1
          have a := cnt_setLine t _ _ _ _ _ _ h1
          have b := cnt_closeTrivial t rest _ _ _ h
          simp [ruleTrivial, ruleSorry] at a
          omega
        · simp at h
    · exact cnt_closeTrivial t rest _ _ _ h

theorem cnt_applyTactic (t : Option Seq) (s s' : Proof) (id : IId) (new : List NewLine)
    (h : applyTactic s id new = .ok s') :
    cntList t s' ≤ cntList t s + cntList t (new.map (·.item)) := by
  unfold applyTactic at h
  split at h
  · simp at h
  · split at h
    · simp at h
    · split at h
      · simp at h
      · split at h
        · simp at h
        · rename_i s1 h1
          split at h
          · simp at h
          · rename_i s2 h2
            split at h
            · simp at h
            · rename_i s3 rem flags h3
              have a := cnt_addLineBefore t _ _ _ _ h1
              have b := cnt_placeAll t _ _ _ h2
              have c := cnt_closeProved t _ _ _ _ _ _ _ h3
              have d := cnt_closeTrivial t _ _ _ _ h
              omega

end Holpy.C14
