import Holpy.C14.Model
namespace Holpy.C14
end Holpy.C14
