import Holpy.C14.Proofs
import Holpy.C13.Numbering
/-
Helper lemmas for C14: exact gap count of the splice of `apply_tactic` (the goal line is replaced
by the last line of the proof term).
-/
namespace Holpy.C14
open Holpy.C13

/-- Exact form of `cnt_modifyAt_le`, with the list reached by the path available to the leaf. -/
theorem cnt_modifyAt_eq (t : Option Seq) (a b : Nat) (f : List Item → Except Err (List Item)) :
    ∀ (path : List Nat) (items items' : List Item),
      (∀ l l', getAt path items = some l → f l = .ok l' → cntList t l' + a = cntList t l + b) →
      modifyAt path f items = .ok items' → cntList t items' + a = cntList t items + b
  | [], items, items', hf, h => by simp [modifyAt] at h; exact hf _ _ (by simp [getAt]) h
  | i :: rest, items, items', hf, h => by
    simp only [modifyAt] at h
    split at h
    · simp at h
    · rename_i id r p th hs sub hget
      split at h
      · rename_i hhs
        split at h
        · rename_i sub' hsub
          simp at h; subst h
          have ih := cnt_modifyAt_eq t a b f rest sub sub' (fun l l' hg hfl => by
            apply hf l l' _ hfl
            simp only [getAt, hget]; subst hhs; exact hg) hsub
          have hs := cntList_set t items i (.mk id r p th hs sub') (.mk id r p th hs sub) hget
          simp only [cntItem] at hs
          omega
        · simp at h
      · simp at h

/-- The list reached by `path` after an edit at `path` is the edited list. -/
theorem getAt_modifyAt (f : List Item → Except Err (List Item)) :
    ∀ (path : List Nat) (items items' : List Item) (l : List Item), getAt path items = some l →
      modifyAt path f items = .ok items' → ∃ l', f l = .ok l' ∧ getAt path items' = some l'
  | [], items, items', l, hg, h => by
    simp [getAt] at hg; subst hg
    simp [modifyAt] at h
    exact ⟨items', h, by simp [getAt]⟩
  | i :: rest, items, items', l, hg, h => by
    simp only [modifyAt] at h
    split at h
    · simp at h
    · rename_i id r p th hs sub hget
      split at h
      · rename_i hhs
        split at h
        · rename_i sub' hsub
          simp at h; subst h
          subst hhs
          simp only [getAt, hget] at hg
          obtain ⟨l', h1, h2⟩ := getAt_modifyAt f rest sub sub' l hg hsub
          refine ⟨l', h1, ?_⟩
          have hi : i < items.length := by
            rcases Nat.lt_or_ge i items.length with h3 | h3
            · exact h3
            · simp [List.getElem?_eq_none h3] at hget
          simp only [getAt, List.getElem?_set_self hi]
          exact h2
        · simp at h
      · simp at h

theorem placeItem_unfold (s : Proof) (P : List Nat) (k : Nat) (x : Item) :
    placeItem s (P ++ [k]) x =
      modifyAt P (fun items => if k < items.length then .ok (items.set k x) else .error .index) s := by
  simp [placeItem]

/-- Exact count for the placement loop of `apply_tactic`: the lines placed replace the lines that
were at their positions. -/
theorem cnt_placeAll_eq (t : Option Seq) (P : List Nat) (split : Nat) :
    ∀ (items : List Item) (i : Nat) (s s' : Proof) (L : List Item), getAt P s = some L →
      (∀ k (h : k < items.length), (items[k]).id = P ++ [split + i + k]) →
      placeAll s items = .ok s' →
      cntList t s' + cntList t ((L.drop (split + i)).take items.length) = cntList t s + cntList t items
  | [], i, s, s', L, _, _, h => by simp [placeAll] at h; subst h; simp [cntList]
  | x :: xs, i, s, s', L, hg, hid, h => by
    simp only [placeAll] at h
    split at h
    · rename_i s1 h1
      have hx : x.id = P ++ [split + i] := hid 0 (by simp)
      rw [hx, placeItem_unfold] at h1
      obtain ⟨l', hl', hg1⟩ := getAt_modifyAt _ P s s1 L hg h1
      split at hl'
      · rename_i hlt
        simp at hl'; subst hl'
        have hget : L[split + i]? = some L[split + i] := by simp [hlt]
        have e1 := cnt_modifyAt_eq t (cntItem t L[split + i]) (cntItem t x) _ P s s1 (fun l l' hgl hfl => by
          rw [hg] at hgl; cases hgl
          simp [hlt] at hfl; subst hfl
          exact cntList_set t L (split + i) x L[split + i] hget) h1
        have ih := cnt_placeAll_eq t P split xs (i + 1) s1 s' (L.set (split + i) x) hg1 (fun k hk => by
          have := hid (k + 1) (by simp; omega)
          simp at this
          rw [this]; congr 2; omega) h
        have hd : (L.set (split + i) x).drop (split + (i + 1)) = L.drop (split + (i + 1)) := by
          rw [List.drop_set_of_lt]; omega
        rw [hd] at ih
        have hc : (L.drop (split + i)).take (x :: xs).length
            = L[split + i] :: (L.drop (split + (i + 1))).take xs.length := by
          rw [List.drop_eq_getElem_cons hlt]
          simp [Nat.add_assoc]
        rw [hc]
        simp only [cntList] at ih ⊢
        omega
      · simp at hl'
    · simp at h

theorem take_append_succ {α : Type} : ∀ (A : List α) (c : α) (B : List α),
    (A ++ c :: B).take (A.length + 1) = A ++ [c]
  | [], c, B => by simp
  | a :: A, c, B => by simp [take_append_succ A c B]

/-- Without `sorry` lines the first closing loop does nothing. -/
theorem closeProved_no_gap : ∀ (new : List NewLine) (s : Proof) (rem : List IId) (acc : List Bool),
    (∀ l ∈ new, l.item.rule ≠ ruleSorry) → ∃ fl, closeProved s rem acc new = .ok (s, rem, fl)
  | [], s, rem, acc, _ => ⟨acc.reverse, by simp [closeProved]⟩
  | l :: rest, s, rem, acc, h => by
    have hl : l.item.rule ≠ ruleSorry := h l (by simp)
    obtain ⟨fl, hfl⟩ := closeProved_no_gap rest s rem (false :: acc) (fun x hx => h x (by simp [hx]))
    exact ⟨fl, by simp [closeProved, hl, hfl]⟩

/-- Without `sorry` lines the second closing loop does nothing. -/
theorem closeTrivial_no_gap : ∀ (ls : List (NewLine × Bool)) (s : Proof) (rem : List IId),
    (∀ x ∈ ls, x.1.item.rule ≠ ruleSorry) → closeTrivial s rem ls = .ok s
  | [], s, rem, _ => by simp [closeTrivial]
  | (l, b) :: rest, s, rem, h => by
    have hl : l.item.rule ≠ ruleSorry := h (l, b) (by simp)
    simp [closeTrivial, hl, closeTrivial_no_gap rest s rem (fun x hx => h x (by simp [hx]))]

theorem cntItem_incr' (t : Option Seq) (st : IId) (n : Nat) (i : Item) : cntItem t (Item.incr st n i) = cntItem t i :=
  cntItem_incr t st n i

/-- Exact count for the splice of `apply_tactic` (insertion + placement) when the exported lines
carry the ids `id, id+1, …` (as `ProofTerm.export(prefix=id, subproof=False)` numbers them): the
lines of the term take the place of the inserted empty lines and of the goal line. -/
theorem cnt_splice (t : Option Seq) (s s1 s2 : Proof) (id : IId) (new : List NewLine) (cur : Item)
    (hcur : findItem s id = some cur) (hne : new ≠ [])
    (hid : ∀ k (h : k < new.length), (new[k]).item.id = incrId id k)
    (h1 : addLineBefore s id (new.length - 1) = .ok s1)
    (h2 : placeAll s1 (new.map (·.item)) = .ok s2) :
    cntList t s2 + cntItem t cur = cntList t s + cntList t (new.map (·.item)) := by
  obtain ⟨l, split, hlast, hget, hcl⟩ := findItem_getAt id s cur hcur
  have hidd := dropLast_concat id split hlast
  have hlt : split < l.length := by
    rcases Nat.lt_or_ge split l.length with h1 | h1
    · exact h1
    · simp [List.getElem?_eq_none h1] at hcl
  unfold addLineBefore at h1
  rw [hlast] at h1
  simp only at h1
  obtain ⟨L0, hL0, hg1⟩ := getAt_modifyAt _ id.dropLast s s1 l hget h1
  simp at hL0
  have e1 := cnt_modifyAt_eq t 0 0 _ id.dropLast s s1 (fun l0 l' hgl hfl => by
    rw [hget] at hgl; cases hgl
    simp at hfl; subst hfl
    rw [cntList_append, cntList_append, cntList_newLines, cntList_incr]
    have := cntList_take_drop t l split
    omega) h1
  have e2 := cnt_placeAll_eq t id.dropLast split (new.map (·.item)) 0 s1 s2 L0 hg1 (fun k hk => by
    simp at hk
    simp only [List.getElem_map]
    rw [hid k hk]
    conv => lhs; rw [← hidd]
    rw [incrId_pos]; simp) h2
  have hdrop : L0.drop (split + 0) = newLines id (new.length - 1) ++ incrList id (new.length - 1) (l.drop split) := by
    subst hL0
    have hl : (l.take split).length = split := by simp; omega
    simp only [Nat.add_zero, List.append_assoc]
    rw [List.drop_left' hl]
  have hnn : new.length ≠ 0 := by
    intro e; exact hne (by simpa using e)
  have hdl : l.drop split = cur :: l.drop (split + 1) := by
    rw [List.drop_eq_getElem_cons hlt]
    congr 1
    have := hcl
    simp [hlt] at this
    exact this
  have htake : (L0.drop (split + 0)).take (new.map (·.item)).length
      = newLines id (new.length - 1) ++ [Item.incr id (new.length - 1) cur] := by
    rw [hdrop, hdl]
    have hnl : (newLines id (new.length - 1)).length = new.length - 1 := by simp [newLines]
    have hm : (new.map (·.item)).length = (newLines id (new.length - 1)).length + 1 := by
      rw [hnl]; simp; omega
    rw [hm]
    simp only [incrList]
    exact take_append_succ _ _ _
  rw [htake, cntList_append, cntList_newLines] at e2
  simp only [cntList, cntItem_incr'] at e2
  omega

/-- `apply_tactic`: the gaps open afterwards are at most the earlier ones *without the goal* plus
the gaps of the proof term. -/
theorem cnt_applyTactic_goal (t : Option Seq) (s s' : Proof) (id : IId) (new : List NewLine) (cur : Item)
    (hcur : findItem s id = some cur)
    (hid : ∀ k (h : k < new.length), (new[k]).item.id = incrId id k)
    (h : applyTactic s id new = .ok s') :
    cntList t s' + cntItem t cur ≤ cntList t s + cntList t (new.map (·.item)) := by
  unfold applyTactic at h
  rw [hcur] at h
  simp only at h
  split at h
  · simp at h
  · split at h
    · simp at h
    · rename_i hemp
      split at h
      · simp at h
      · rename_i s1 h1
        split at h
        · simp at h
        · rename_i s2 h2
          split at h
          · simp at h
          · rename_i s3 rem flags h3
            have hne : new ≠ [] := by intro e; subst e; simp at hemp
            have a := cnt_splice t s s1 s2 id new cur hcur hne hid h1 h2
            have c := cnt_closeProved t _ _ _ _ _ _ _ h3
            have d := cnt_closeTrivial t _ _ _ _ h
            omega

/-- `apply_tactic` with a proof term without gaps: exactly the goal disappears from the gaps. -/
theorem cnt_applyTactic_solving (t : Option Seq) (s s' : Proof) (id : IId) (new : List NewLine) (cur : Item)
    (hcur : findItem s id = some cur)
    (hs : ∀ l ∈ new, l.item.rule ≠ ruleSorry)
    (hid : ∀ k (h : k < new.length), (new[k]).item.id = incrId id k)
    (h : applyTactic s id new = .ok s') :
    cntList t s' + cntItem t cur = cntList t s + cntList t (new.map (·.item)) := by
  unfold applyTactic at h
  rw [hcur] at h
  simp only at h
  split at h
  · simp at h
  · split at h
    · simp at h
    · rename_i hemp
      split at h
      · simp at h
      · rename_i s1 h1
        split at h
        · simp at h
        · rename_i s2 h2
          obtain ⟨fl, hfl⟩ := closeProved_no_gap new s2 [] [] hs
          rw [hfl] at h
          simp only at h
          rw [closeTrivial_no_gap _ s2 [] (fun x hx => hs x.1 (List.of_mem_zip hx).1)] at h
          simp at h; subst h
          have hne : new ≠ [] := by intro e; subst e; simp at hemp
          exact cnt_splice t s s1 s2 id new cur hcur hne hid h1 h2

end Holpy.C14
