import Holpy.C14.ExistsProofs
import Holpy.C14.Props3
/-
C14 — property theorems, fourth file: `exists_elim` (suggested without `_goal` / `_fact`: it
advertises no new goal and no new fact) on the method-level model `existsElimM`.
-/
namespace Holpy.C14
open Holpy.C13

/-- `exists_elim.apply` keeps every open goal and opens none: for every class `q` of sequents, the
gaps in `q` afterwards are at most the earlier gaps that are in `q` themselves or get into `q` by
receiving the new assumption `body` as a hypothesis; and for a class that does not look at that
hypothesis (e.g. "the proposition is `p`", or "any gap") the number of gaps is exactly what it was.
The lines added are `variable` / `assume` lines (rules `rv`, `ra`), never gaps. -/
theorem advertised_eq_applied_exists_elim (q : Option Seq → Bool) (s s' : Proof) (id fact : IId) (fe : Bool)
    (vths : List (Option Seq)) (ath : Option Seq) (body ra rv ri : Nat)
    (hra : ra ≠ ruleSorry) (hrv : rv ≠ ruleSorry)
    (h : existsElimM s id fact fe vths ath body ra rv ri = .ok s') :
    gcList q s' ≤ gcList (orHyp body q) s ∧
    ((∀ th, q (addHyp body th) = q th) → gcList q s' = gcList q s) := by
  unfold existsElimM at h
  split at h
  · simp at h
  · rename_i cur hcur
    split at h
    · simp at h
    · split at h
      · simp at h
      · split at h
        · simp at h
        · simp only at h
          split at h
          · simp at h
          · rename_i s1 h1
            split at h
            · simp at h
            · rename_i s2 h2
              split at h
              · simp at h
              · rename_i s3 h3
                split at h
                · simp at h
                · rename_i split hsplit
                  -- the lines placed
                  let items := varItems rv id 0 vths ++ [Item.mk (incrId id vths.length) ra [] ath false []]
                  have hlen : items.length = vths.length + 1 := by simp [items, varItems_length]
                  have hplace : placeAll s1 items = .ok s3 := by
                    simp only [items]
                    rw [placeAll_append, ← setVars_eq_placeAll, h2]
                    simp only [placeAll, Item.id]
                    have : placeItem s2 (incrId id vths.length) (Item.mk (incrId id vths.length) ra [] ath false []) = .ok s3 := h3
                    rw [this]
                  have hid : ∀ k (hk : k < items.length), (items[k]).id = incrId id k := by
                    intro k hk
                    by_cases hkv : k < (varItems rv id 0 vths).length
                    · simp only [items]
                      rw [List.getElem_append_left hkv, varItems_id]; simp
                    · have hk2 : k = vths.length := by
                        rw [varItems_length] at hkv; omega
                      subst hk2
                      simp only [items]
                      rw [List.getElem_append_right (by rw [varItems_length]; omega)]
                      simp [varItems_length, Item.id]
                  have h1' : addLineBefore s id items.length = .ok s1 := by rw [hlen]; exact h1
                  have hzero : ∀ q' : Option Seq → Bool, gcList q' items = 0 := by
                    intro q'
                    simp only [items]
                    rw [gcList_append, gc_varItems q' rv hrv]
                    simp [gcList, gcItem, hra]
                  have e1 := gc_insert_lines q s s1 s3 id items cur hcur hid h1' hplace
                  have e2 := gc_insert_lines (orHyp body q) s s1 s3 id items cur hcur hid h1' hplace
                  rw [hzero] at e1 e2
                  have mono := gc_mono q (orHyp body q) (fun th hh => by simp [orHyp, hh])
                  refine ⟨?_, fun hq => ?_⟩
                  · have := gc_modifyAt_le2 q (orHyp body q) (fun th hh => by simp [orHyp, hh]) _
                      (fun l l' hl => by
                        split at hl
                        · rename_i tail ht
                          simp at hl; subst hl
                          have a := gc_restate_le q body ra rv ri _ _ _ ht
                          have b := gcList_take_drop (orHyp body q) l (split + vths.length + 1)
                          have c := mono.2 (l.take (split + vths.length + 1))
                          rw [gcList_append]
                          omega
                        · simp at hl) _ _ _ h
                    omega
                  · have := gc_modifyAt_eq q 0 0 _ id.dropLast s3 s' (fun l l' _ hl => by
                      split at hl
                      · rename_i tail ht
                        simp at hl; subst hl
                        have a := gc_restate_eq q body ra rv ri _ hq _ _ ht
                        have b := gcList_take_drop q l (split + vths.length + 1)
                        rw [gcList_append]
                        omega
                      · simp at hl) h
                    omega

/-! Non-vacuity: `0: ex ⊢ ex by assume; 1: ex ⊢ p5 by sorry; 2: ⊢ p6 by intros from 0, 1`;
exists_elim at 1 with fact 0, one variable: `1: variable; 2: p21 ⊢ p21 by assume; 3: ex, p21 ⊢ p5 by sorry;
4: intros from 0, 0, 1, 2, 3`. -/
def sE : Proof :=
  [.mk [0] 7 [] (some ⟨9, [9]⟩) false [], .mk [1] ruleSorry [] (some ⟨5, [9]⟩) false [],
   .mk [2] 4 [[0], [1]] (some ⟨6, []⟩) false []]

example : (match existsElimM sE [1] [0] true [some ⟨20, []⟩] (some ⟨21, [21]⟩) 21 7 8 4 with
    | .ok s' => wf s' && sorrysList s' == [some ⟨5, [9, 21]⟩] && s'.length == 5 &&
        (match findItem s' [4] with | some it => it.prevs == [[0], [0], [1], [2], [3]] | none => false) &&
        gcList (fun th => th.map (·.prop) == some 5) s' == 1 && gcList (fun th => th.map (·.prop) == some 5) sE == 1
    | .error _ => false) = true := by decide

/-- a class that does not look at the new hypothesis: "the proposition is `p`" -/
example (p body : Nat) : ∀ th, (fun th : Option Seq => th.map (·.prop) == some p) (addHyp body th)
    = (fun th : Option Seq => th.map (·.prop) == some p) th := by
  intro th
  cases th with
  | none => rfl
  | some t => cases t; simp [addHyp]

end Holpy.C14
