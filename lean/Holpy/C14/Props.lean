import Holpy.C14.Proofs
namespace Holpy.C14
end Holpy.C14
