import Holpy.C14.Proofs
/-
C14 — property theorems (apply half of "a suggestion does what it says"), on the model of
`ProofState.apply_tactic` of Holpy/C13/Model.lean.  `search` advertises the gaps of the proof term
whose exported lines `apply` splices; that both use the same term is per-method code, judged by the
oracle of harness/props/c14.py, not by a theorem.
-/
namespace Holpy.C14
open Holpy.C13

/-- For every sequent `t`: after `apply_tactic(id, …)` spliced the exported lines `new`, the number
of open gaps stating `t` is at most the number before plus the number of `sorry` lines of `new`
stating `t` — the goals a step newly leaves open are a sub-multiset of the gaps of its proof term
(what `search` advertises as `_goal`).  Partial: not stated here are (a) that the goal line itself
is no longer open and (b) that an advertised gap which is not left open was removed by
`find_goal`/`replace_id` or by the `trivial` rule — in the model these are the only two places
where `closeProved`/`closeTrivial` touch a line (by construction, compared with the Python on
every recorded `apply_tactic` call). -/
theorem open_goals_subset_advertised_partial (t : Option Seq) (s s' : Proof) (id : IId) (new : List NewLine)
    (h : applyTactic s id new = .ok s') :
    cntList t s' ≤ cntList t s + cntList t (new.map (·.item)) :=
  cnt_applyTactic t s s' id new h

/-- A proof term without gaps (a suggestion advertised as solving, `_goal = []`) leaves no gap
open that was not open before. -/
theorem solving_shape_leaves_no_new_gap (t : Option Seq) (s s' : Proof) (id : IId) (new : List NewLine)
    (hnew : cntList t (new.map (·.item)) = 0)
    (h : applyTactic s id new = .ok s') : cntList t s' ≤ cntList t s := by
  have := cnt_applyTactic t s s' id new h
  omega

/-- A forward step that inserts a proved line (rule other than `sorry`) before the goal opens no
new gap.  Partial: that exactly one line is added is checked by the oracle (`_fact` comparison),
not proved. -/
theorem forward_fact_opens_no_gap_partial (t : Option Seq) (s s' : Proof) (id : IId) (r : Nat) (p : List IId)
    (th : Option Seq) (hr : r ≠ ruleSorry) (h : forwardFact s id r p th = .ok s') :
    cntList t s' ≤ cntList t s := by
  unfold forwardFact at h
  split at h
  · rename_i s1 h1
    have a := cnt_addLineBefore t _ _ _ _ h1
    have b := cnt_setLine t _ _ _ _ _ _ h
    simp [hr] at b
    omega
  · simp at h

/-! Non-vacuity: `0: ⊢ p5 by sorry; 1: ⊢ p5 by intros from 0`, a tactic whose proof term has the
gaps `p7` (already proved by nothing), `p8` (trivial) and the conclusion by rule 9. -/
def s0 : Proof := [.mk [0] ruleSorry [] (some ⟨5, []⟩) false [], .mk [1] 4 [[0]] (some ⟨5, []⟩) false []]
def new0 : List NewLine :=
  [⟨.mk [0] ruleSorry [] (some ⟨7, []⟩) false [], false⟩,
   ⟨.mk [1] ruleSorry [] (some ⟨8, []⟩) false [], true⟩,
   ⟨.mk [2] 9 [[0], [1]] (some ⟨5, []⟩) false [], false⟩]

example : (match applyTactic s0 [0] new0 with
    | .ok s' => wf s' && sorrysList s' == [some ⟨7, []⟩] && s'.length == 4
    | .error _ => false) = true := by decide

example : cntList (some ⟨7, []⟩) (new0.map (·.item)) = 1 ∧ cntList (some ⟨7, []⟩) s0 = 0 := by decide

example : (match forwardFact s0 [0] 6 [] (some ⟨3, []⟩) with
    | .ok s' => wf s' && s'.length == 3 && sorrysList s' == [some ⟨5, []⟩]
    | .error _ => false) = true := by decide

end Holpy.C14
