import Holpy.C14.Proofs
import Holpy.C14.Closing
import Holpy.C13.GoalTactic
/-
C14 — property theorems (apply half of "a suggestion does what it says"), on the model of
`ProofState.apply_tactic` of Holpy/C13/Model.lean.  `search` advertises the gaps of the proof term
whose exported lines `apply` splices; that both use the same term is per-method code, judged by the
oracle of harness/props/c14.py, not by a theorem.
-/
namespace Holpy.C14
open Holpy.C13

/-- For every sequent `t`: after `apply_tactic(id, …)` spliced the exported lines `new`, the number
of open gaps stating `t` is at most the number before plus the number of `sorry` lines of `new`
stating `t` — the goals a step newly leaves open are a sub-multiset of the gaps of its proof term
(what `search` advertises as `_goal`).  Partial: not stated here are (a) that the goal line itself
is no longer open and (b) that an advertised gap which is not left open was removed by
`find_goal`/`replace_id` or by the `trivial` rule — in the model these are the only two places
where `closeProved`/`closeTrivial` touch a line (by construction, compared with the Python on
every recorded `apply_tactic` call). -/
theorem open_goals_subset_advertised_partial (t : Option Seq) (s s' : Proof) (id : IId) (new : List NewLine)
    (h : applyTactic s id new = .ok s') :
    cntList t s' ≤ cntList t s + cntList t (new.map (·.item)) :=
  cnt_applyTactic t s s' id new h

/-- With the goal line counted: after `apply_tactic(id, …)` the open gaps stating `t` are at most
the earlier ones *minus the goal line* plus the `sorry` lines of the proof term stating `t`; so the
goal itself stays open only if the term re-states it as one of its gaps. -/
theorem open_goals_subset_advertised (t : Option Seq) (s s' : Proof) (id : IId) (new : List NewLine) (cur : Item)
    (hcur : findItem s id = some cur) (hid : exportedAt id new)
    (h : applyTactic s id new = .ok s') :
    cntList t s' + cntItem t cur ≤ cntList t s + cntList t (new.map (·.item)) :=
  cnt_applyTactic_goal t s s' id new cur hcur hid h

/-- A proof term without `sorry` lines (a suggestion advertised as solving, `_goal = []`) closes
exactly the goal: for every sequent `t` the gaps stating `t` afterwards are those before without the
goal line (`cntItem t cur` is 1 for the goal's own sequent — see the example — and 0 otherwise, the
goal being a `sorry` line without subproof). -/
theorem solving_shape_closes_exactly_the_goal (t : Option Seq) (s s' : Proof) (id : IId) (new : List NewLine)
    (cur : Item) (hcur : findItem s id = some cur) (hid : exportedAt id new)
    (hs : ∀ l ∈ new, l.item.rule ≠ ruleSorry) (hnew : cntList t (new.map (·.item)) = 0)
    (h : applyTactic s id new = .ok s') : cntList t s' + cntItem t cur = cntList t s := by
  have := cnt_applyTactic_solving t s s' id new cur hcur hs hid h
  omega

/-- Weaker form without the hypothesis on the exported ids: a proof term without gaps leaves no gap
open that was not open before.  Partial: by itself this would allow the goal to stay open; that it
does not is `solving_shape_closes_exactly_the_goal`. -/
theorem solving_shape_leaves_no_new_gap_partial (t : Option Seq) (s s' : Proof) (id : IId) (new : List NewLine)
    (hnew : cntList t (new.map (·.item)) = 0)
    (h : applyTactic s id new = .ok s') : cntList t s' ≤ cntList t s := by
  have := cnt_applyTactic t s s' id new h
  omega

/-- A forward step that inserts a proved line (rule other than `sorry`) before the goal opens no
new gap.  Partial: that exactly one line is added is checked by the oracle (`_fact` comparison),
not proved. -/
theorem forward_fact_opens_no_gap_partial (t : Option Seq) (s s' : Proof) (id : IId) (r : Nat) (p : List IId)
    (th : Option Seq) (hr : r ≠ ruleSorry) (h : forwardFact s id r p th = .ok s') :
    cntList t s' ≤ cntList t s := by
  unfold forwardFact at h
  split at h
  · rename_i s1 h1
    have a := cnt_addLineBefore t _ _ _ _ h1
    have b := cnt_setLine t _ _ _ _ _ _ h
    simp [hr] at b
    omega
  · simp at h

/-! Non-vacuity: `0: ⊢ p5 by sorry; 1: ⊢ p5 by intros from 0`, a tactic whose proof term has the
gaps `p7` (already proved by nothing), `p8` (trivial) and the conclusion by rule 9. -/
def s0 : Proof := [.mk [0] ruleSorry [] (some ⟨5, []⟩) false [], .mk [1] 4 [[0]] (some ⟨5, []⟩) false []]
def new0 : List NewLine :=
  [⟨.mk [0] ruleSorry [] (some ⟨7, []⟩) false [], false⟩,
   ⟨.mk [1] ruleSorry [] (some ⟨8, []⟩) false [], true⟩,
   ⟨.mk [2] 9 [[0], [1]] (some ⟨5, []⟩) false [], false⟩]

example : (match applyTactic s0 [0] new0 with
    | .ok s' => wf s' && sorrysList s' == [some ⟨7, []⟩] && s'.length == 4
    | .error _ => false) = true := by decide

example : cntList (some ⟨7, []⟩) (new0.map (·.item)) = 1 ∧ cntList (some ⟨7, []⟩) s0 = 0 := by decide

example : exportedAt [0] new0 := by
  intro k hk
  have : k = 0 ∨ k = 1 ∨ k = 2 := by simp [new0] at hk; omega
  rcases this with h | h | h <;> subst h <;> rfl

/-- a solving term: one line, no gap; the goal `⊢ p5` is the only gap before and none is left -/
def new1 : List NewLine := [⟨.mk [0] 9 [] (some ⟨5, []⟩) false [], false⟩]

example : (∀ l ∈ new1, l.item.rule ≠ ruleSorry) ∧ exportedAt [0] new1 ∧
    findItem s0 [0] = some (.mk [0] ruleSorry [] (some ⟨5, []⟩) false []) ∧
    cntItem (some ⟨5, []⟩) (.mk [0] ruleSorry [] (some ⟨5, []⟩) false []) = 1 ∧
    (match applyTactic s0 [0] new1 with
      | .ok s' => cntList (some ⟨5, []⟩) s' == 0 && cntList (some ⟨5, []⟩) s0 == 1 && wf s'
      | .error _ => false) = true := by
  refine ⟨by decide, ?_, rfl, by decide, by decide⟩
  intro k hk
  have : k = 0 := by simp [new1] at hk; omega
  subst this; rfl

example : (match forwardFact s0 [0] 6 [] (some ⟨3, []⟩) with
    | .ok s' => wf s' && s'.length == 3 && sorrysList s' == [some ⟨5, []⟩]
    | .error _ => false) = true := by decide

end Holpy.C14
