import Holpy.C14.GCount
/-
C14 — `exists_elim.apply` (existsElimM): every open gap is kept, with its proposition; the
hypotheses of the gaps from the goal line to the closing `intros` line grow by the new assumption.
-/
namespace Holpy.C14
open Holpy.C13

theorem placeAll_append : ∀ (a b : List Item) (s : Proof),
    placeAll s (a ++ b) = (match placeAll s a with | .ok s' => placeAll s' b | .error e => .error e)
  | [], b, s => by simp [placeAll]
  | x :: xs, b, s => by
    simp only [List.cons_append, placeAll]
    cases placeItem s x.id x with
    | ok s' => simp only []; exact placeAll_append xs b s'
    | error e => rfl

/-- The lines `set_line(id+i, 'variable', …)` writes. -/
def varItems (rv : Nat) (id : IId) : Nat → List (Option Seq) → List Item
  | _, [] => []
  | i, th :: ths => .mk (incrId id i) rv [] th false [] :: varItems rv id (i + 1) ths

theorem setVars_eq_placeAll (rv : Nat) (id : IId) : ∀ (ths : List (Option Seq)) (s : Proof) (i : Nat),
    setVars rv id s i ths = placeAll s (varItems rv id i ths)
  | [], s, i => by simp [setVars, varItems, placeAll]
  | th :: ths, s, i => by
    simp only [setVars, varItems, placeAll, setLine, Item.id]
    cases placeItem s (incrId id i) (.mk (incrId id i) rv [] th false []) with
    | ok s' => simp only []; exact setVars_eq_placeAll rv id ths s' (i + 1)
    | error e => rfl

theorem varItems_length (rv : Nat) (id : IId) : ∀ (ths : List (Option Seq)) (i : Nat),
    (varItems rv id i ths).length = ths.length
  | [], _ => rfl
  | _ :: ths, i => by simp [varItems, varItems_length rv id ths (i + 1)]

theorem varItems_id (rv : Nat) (id : IId) : ∀ (ths : List (Option Seq)) (i k : Nat)
    (h : k < (varItems rv id i ths).length), ((varItems rv id i ths)[k]).id = incrId id (i + k)
  | [], _, k, h => by simp [varItems] at h
  | _ :: ths, i, 0, _ => by simp [varItems, Item.id]
  | _ :: ths, i, k + 1, h => by
    simp only [varItems, List.getElem_cons_succ]
    rw [varItems_id rv id ths (i + 1) k (by simpa [varItems] using h)]
    congr 1; omega

theorem gc_varItems (q : Option Seq → Bool) (rv : Nat) (hrv : rv ≠ ruleSorry) (id : IId) :
    ∀ (ths : List (Option Seq)) (i : Nat), gcList q (varItems rv id i ths) = 0
  | [], _ => by simp [varItems, gcList]
  | _ :: ths, i => by simp [varItems, gcList, gcItem, hrv, gc_varItems q rv hrv id ths (i + 1)]

/-- pointwise monotonicity of the gap measure -/
theorem gc_mono (q q2 : Option Seq → Bool) (hq : ∀ th, q th = true → q2 th = true) :
    (∀ i : Item, gcItem q i ≤ gcItem q2 i) ∧ (∀ l : List Item, gcList q l ≤ gcList q2 l) := by
  have key : ∀ n, (∀ i : Item, sizeItem i ≤ n → gcItem q i ≤ gcItem q2 i) ∧
      (∀ l : List Item, sizeList l ≤ n → gcList q l ≤ gcList q2 l) := by
    intro n
    induction n with
    | zero =>
      refine ⟨fun i hi => ?_, fun l hl => ?_⟩
      · cases i; simp [sizeItem] at hi
      · cases l with
        | nil => simp [gcList]
        | cons a as => cases a; simp [sizeList, sizeItem] at hl
    | succ n ih =>
      refine ⟨fun i hi => ?_, fun l hl => ?_⟩
      · cases i with
        | mk id r p th hs sub =>
          simp only [sizeItem] at hi
          have := ih.2 sub (by omega)
          simp only [gcItem]
          by_cases h1 : r = ruleSorry ∧ q th = true
          · have h2 : r = ruleSorry ∧ q2 th = true := ⟨h1.1, hq _ h1.2⟩
            simp [h1, h2]; omega
          · simp only [h1, if_false]
            split <;> omega
      · cases l with
        | nil => simp [gcList]
        | cons a as =>
          simp only [sizeList] at hl
          have hpos : 1 ≤ sizeItem a := by cases a; simp [sizeItem]
          have h1 : gcItem q a ≤ gcItem q2 a := by
            cases a with
            | mk id r p th hs sub =>
              simp only [sizeItem] at hl
              have := ih.2 sub (by omega)
              simp only [gcItem]
              by_cases h1 : r = ruleSorry ∧ q th = true
              · have h2 : r = ruleSorry ∧ q2 th = true := ⟨h1.1, hq _ h1.2⟩
                simp [h1, h2]; omega
              · simp only [h1, if_false]
                split <;> omega
          have h2 := ih.2 as (by omega)
          simp only [gcList]; omega
  exact ⟨fun i => (key _).1 i (Nat.le_refl _), fun l => (key _).2 l (Nat.le_refl _)⟩

/-- what a gap may have become: itself or itself with the new hypothesis -/
def orHyp (body : Nat) (q : Option Seq → Bool) : Option Seq → Bool := fun th => q th || q (addHyp body th)

theorem gc_restate_le (q : Option Seq → Bool) (body ra rv ri : Nat) (ni : List IId) :
    ∀ (l l' : List Item), restate body ra rv ri ni l = .ok l' → gcList q l' ≤ gcList (orHyp body q) l
  | [], l', h => by simp [restate] at h
  | (.mk id r p th hs sub) :: rest, l', h => by
    have m := gc_mono q (orHyp body q) (fun th h => by simp [orHyp, h])
    simp only [restate] at h
    split at h
    · split at h
      · simp at h
      · simp at h; subst h
        have := m.2 rest
        have := m.1 (.mk id r p th hs sub)
        simp only [gcList, gcItem] at *
        omega
    · split at h
      · split at h
        · rename_i rest' hr
          simp at h; subst h
          have := gc_restate_le q body ra rv ri ni rest rest' hr
          have := m.1 (.mk id r p th hs sub)
          simp only [gcList] at *
          simp only [gcItem] at *
          omega
        · simp at h
      · split at h
        · simp at h
        · rename_i t0
          split at h
          · rename_i rest' hr
            simp at h; subst h
            have := gc_restate_le q body ra rv ri ni rest rest' hr
            have := m.2 sub
            simp only [gcList, gcItem]
            by_cases h1 : r = ruleSorry ∧ q (addHyp body (some t0)) = true
            · have h2 : r = ruleSorry ∧ orHyp body q (some t0) = true := ⟨h1.1, by simp [orHyp, h1.2]⟩
              simp [h1, h2]; omega
            · simp only [h1, if_false]
              split <;> omega
          · simp at h

theorem gc_restate_eq (q : Option Seq → Bool) (body ra rv ri : Nat) (ni : List IId)
    (hq : ∀ th, q (addHyp body th) = q th) :
    ∀ (l l' : List Item), restate body ra rv ri ni l = .ok l' → gcList q l' = gcList q l
  | [], l', h => by simp [restate] at h
  | (.mk id r p th hs sub) :: rest, l', h => by
    simp only [restate] at h
    split at h
    · split at h
      · simp at h
      · simp at h; subst h
        simp only [gcList, gcItem]
    · split at h
      · split at h
        · rename_i rest' hr
          simp at h; subst h
          have := gc_restate_eq q body ra rv ri ni hq rest rest' hr
          simp only [gcList, gcItem] at *
          omega
        · simp at h
      · split at h
        · simp at h
        · split at h
          · rename_i rest' hr
            simp at h; subst h
            have := gc_restate_eq q body ra rv ri ni hq rest rest' hr
            simp only [gcList, gcItem, hq] at *
            omega
          · simp at h

/-- `l.set i x` against another measure of `l`. -/
theorem gc_set_le2 (q q2 : Option Seq → Bool) (hq : ∀ th, q th = true → q2 th = true) :
    ∀ (l : List Item) (i : Nat) (x y : Item), l[i]? = some y → gcItem q x ≤ gcItem q2 y →
      gcList q (l.set i x) ≤ gcList q2 l
  | [], i, x, y, h, _ => by simp at h
  | a :: as, 0, x, y, h, hx => by
    simp at h; subst h
    have := (gc_mono q q2 hq).2 as
    simp [gcList]; omega
  | a :: as, i + 1, x, y, h, hx => by
    simp at h
    have := gc_set_le2 q q2 hq as i x y h hx
    have := (gc_mono q q2 hq).1 a
    simp [gcList]; omega

theorem gc_modifyAt_le2 (q q2 : Option Seq → Bool) (hq : ∀ th, q th = true → q2 th = true)
    (f : List Item → Except Err (List Item))
    (hf : ∀ l l', f l = .ok l' → gcList q l' ≤ gcList q2 l) :
    ∀ (path : List Nat) (items items' : List Item), modifyAt path f items = .ok items' →
      gcList q items' ≤ gcList q2 items
  | [], items, items', h => by simp [modifyAt] at h; exact hf _ _ h
  | i :: rest, items, items', h => by
    simp only [modifyAt] at h
    split at h
    · simp at h
    · rename_i id r p th hs sub hget
      split at h
      · split at h
        · rename_i sub' hsub
          simp at h; subst h
          have ih := gc_modifyAt_le2 q q2 hq f hf rest sub sub' hsub
          apply gc_set_le2 q q2 hq items i _ _ hget
          simp only [gcItem]
          by_cases h1 : r = ruleSorry ∧ q th = true
          · have h2 : r = ruleSorry ∧ q2 th = true := ⟨h1.1, hq _ h1.2⟩
            simp [h1, h2]; omega
          · simp only [h1, if_false]
            split <;> omega
        · simp at h
      · simp at h

end Holpy.C14
