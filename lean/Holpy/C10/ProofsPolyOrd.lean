import Holpy.C10.PolyModel
import Holpy.C10.Proofs
/-
C10 — `compare_fst` on factor tuples (length, then first differing factor: base, then power) is a
strict total order, given that the order on atoms is one (atoms are ranks: `Nat`).
-/
namespace Holpy.C10.Poly
open Holpy.C10

theorem then_eq_eq {a b : Ordering} : a.then b = .eq ↔ a = .eq ∧ b = .eq := by
  cases a <;> cases b <;> simp [Ordering.then]

theorem then_eq_lt {a b : Ordering} : a.then b = .lt ↔ a = .lt ∨ (a = .eq ∧ b = .lt) := by
  cases a <;> cases b <;> simp [Ordering.then]

theorem then_eq_gt {a b : Ordering} : a.then b = .gt ↔ a = .gt ∨ (a = .eq ∧ b = .gt) := by
  cases a <;> cases b <;> simp [Ordering.then]

theorem natCmp_total' : TotalOrder natCmp := natCmp_total

/-- Lexicographic combination of two total orders is one (on pairs). -/
theorem pairCmp_total : TotalOrder pairCmp where
  eq_iff := by
    intro a b
    obtain ⟨a1, a2⟩ := a; obtain ⟨b1, b2⟩ := b
    simp [pairCmp]
  gt_iff := by
    intro a b
    obtain ⟨a1, a2⟩ := a; obtain ⟨b1, b2⟩ := b
    simp only [pairCmp, then_eq_gt, then_eq_lt, Nat.compare_eq_gt, Nat.compare_eq_lt, Nat.compare_eq_eq]
    omega
  lt_trans := by
    intro a b c
    obtain ⟨a1, a2⟩ := a; obtain ⟨b1, b2⟩ := b; obtain ⟨c1, c2⟩ := c
    simp only [pairCmp, then_eq_lt, Nat.compare_eq_lt, Nat.compare_eq_eq]
    omega

theorem lexCmp_eq_iff : ∀ (l r : Mono), lexCmp l r = .eq ↔ l = r
  | [], [] => by simp [lexCmp]
  | [], _ :: _ => by simp [lexCmp]
  | _ :: _, [] => by simp [lexCmp]
  | a :: l, b :: r => by
    simp only [lexCmp, then_eq_eq, pairCmp_total.eq_iff, lexCmp_eq_iff l r, List.cons.injEq]

theorem lexCmp_gt_iff : ∀ (l r : Mono), lexCmp l r = .gt ↔ lexCmp r l = .lt
  | [], [] => by simp [lexCmp]
  | [], _ :: _ => by simp [lexCmp]
  | _ :: _, [] => by simp [lexCmp]
  | a :: l, b :: r => by
    simp only [lexCmp, then_eq_gt, then_eq_lt, pairCmp_total.gt_iff, pairCmp_total.eq_iff, lexCmp_gt_iff l r]
    constructor
    · rintro (h | ⟨h1, h2⟩)
      · exact Or.inl h
      · exact Or.inr ⟨h1.symm, h2⟩
    · rintro (h | ⟨h1, h2⟩)
      · exact Or.inl h
      · exact Or.inr ⟨h1.symm, h2⟩

theorem lexCmp_lt_trans : ∀ (l r s : Mono), lexCmp l r = .lt → lexCmp r s = .lt → lexCmp l s = .lt
  | [], [], _ => by simp [lexCmp]
  | [], _ :: _, [] => by simp [lexCmp]
  | [], _ :: _, _ :: _ => by simp [lexCmp]
  | _ :: _, [], _ => by simp [lexCmp]
  | _ :: _, _ :: _, [] => by simp [lexCmp]
  | a :: l, b :: r, c :: s => by
    simp only [lexCmp, then_eq_lt, pairCmp_total.eq_iff]
    rintro (h1 | ⟨h1, h2⟩) (h3 | ⟨h3, h4⟩)
    · exact Or.inl (pairCmp_total.lt_trans _ _ _ h1 h3)
    · subst h3; exact Or.inl h1
    · subst h1; exact Or.inl h3
    · subst h1; subst h3; exact Or.inr ⟨rfl, lexCmp_lt_trans l r s h2 h4⟩

/-- `compare_fst` on factor tuples is a strict total order. -/
theorem monoCmp_total : TotalOrder monoCmp where
  eq_iff := by
    intro a b
    simp only [monoCmp, then_eq_eq, Nat.compare_eq_eq, lexCmp_eq_iff]
    constructor
    · exact fun h => h.2
    · rintro rfl; exact ⟨rfl, rfl⟩
  gt_iff := by
    intro a b
    simp only [monoCmp, then_eq_gt, then_eq_lt, Nat.compare_eq_gt, Nat.compare_eq_lt, Nat.compare_eq_eq,
      lexCmp_gt_iff]
    constructor
    · rintro (h | ⟨h1, h2⟩)
      · exact Or.inl h
      · exact Or.inr ⟨h1.symm, h2⟩
    · rintro (h | ⟨h1, h2⟩)
      · exact Or.inl h
      · exact Or.inr ⟨h1.symm, h2⟩
  lt_trans := by
    intro a b c
    simp only [monoCmp, then_eq_lt, Nat.compare_eq_lt, Nat.compare_eq_eq]
    rintro (h1 | ⟨h1, h2⟩) (h3 | ⟨h3, h4⟩)
    · exact Or.inl (by omega)
    · exact Or.inl (by omega)
    · exact Or.inl (by omega)
    · exact Or.inr ⟨by omega, lexCmp_lt_trans _ _ _ h2 h4⟩

end Holpy.C10.Poly
