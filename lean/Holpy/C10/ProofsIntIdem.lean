import Holpy.C10.ProofsIntClosureNF

/-! Idempotence of `int_norm_conv`: `simp_full` rebuilds a normal form from its stripped presentation
(`1 * x` shown as `x`, `x ^ 1` shown as `x`). -/

namespace Holpy.C10.IntN
open IExp

theorem strip_atomPow {a : IExp} (h : isAtomPow a = true) :
    simpFull (stripPow1 (strip1 a)) = mul (num 1) a := by
  obtain ⟨x, e, rfl⟩ := isAtomPow_pow h
  cases x with
  | atom i s =>
    by_cases he : e = 1
    · subst he; simp [strip1, stripPow1, simpFull]
    · simp [strip1, stripPow1, simpFull, he]
  | _ => simp [isAtomPow] at h

theorem multAtom_sorted {b a : IExp} (h : isBodyI (mul b a) = true) : multAtom b a = mul b a := by
  simp only [isBodyI, Bool.and_eq_true, beq_iff_eq] at h
  obtain ⟨⟨ha, hb⟩, hlt⟩ := h
  cases b with
  | mul u v => simp only [lastF] at hlt; simp [multAtom, hlt]
  | pow u e => simp only [lastF] at hlt; simp [multAtom, hlt]
  | _ => simp [isBodyI, isAtomPow] at hb

theorem strip_body : ∀ {b : IExp}, isBodyI b = true →
    simpFull (stripPow1 (strip1 b)) = mul (num 1) b := by
  intro b
  induction b with
  | mul b0 a ih0 _ =>
    intro h
    have h' := h
    simp only [isBodyI, Bool.and_eq_true, beq_iff_eq] at h'
    obtain ⟨⟨ha, hb0⟩, hlt⟩ := h'
    have hs : strip1 (mul b0 a) = mul (strip1 b0) (strip1 a) := by
      cases b0 <;> simp_all [strip1, isBodyI, isAtomPow]
    have hs2 : stripPow1 (mul (strip1 b0) (strip1 a)) = mul (stripPow1 (strip1 b0)) (stripPow1 (strip1 a)) := by
      simp [stripPow1]
    rw [hs, hs2]
    simp only [simpFull]
    rw [ih0 hb0, strip_atomPow ha]
    obtain ⟨x, e, rfl⟩ := isAtomPow_pow ha
    have : multAtom b0 (pow x e) = mul b0 (pow x e) := multAtom_sorted h
    simp [mulPI, polyMonoI, multMono, multWo, this]
  | pow x e _ => intro h; exact strip_atomPow (by simpa [isBodyI] using h)
  | atom i s => intro h; simp [isBodyI, isAtomPow] at h
  | num z => intro h; simp [isBodyI, isAtomPow] at h
  | add u v _ _ => intro h; simp [isBodyI, isAtomPow] at h
  | sub u v _ _ => intro h; simp [isBodyI, isAtomPow] at h
  | neg u _ => intro h; simp [isBodyI, isAtomPow] at h

theorem strip1_one_body {b : IExp} (h : isBodyI b = true) : strip1 (mul (num 1) b) = strip1 b := by
  cases b with
  | mul u v =>
    simp only [isBodyI, Bool.and_eq_true, beq_iff_eq] at h
    cases u <;> simp_all [strip1, isBodyI, isAtomPow]
  | pow x e => simp [strip1]
  | _ => simp [isBodyI, isAtomPow] at h

theorem strip_mono {m : IExp} (h : isMonoI m = true) : simpFull (stripPow1 (strip1 m)) = m := by
  rcases isMonoI_cases h with ⟨z, rfl, _⟩ | ⟨c, b, rfl, hc, hb⟩
  · simp [strip1, stripPow1, simpFull]
  · by_cases h1 : c = 1
    · subst h1; rw [strip1_one_body hb, strip_body hb]
    · have hs : strip1 (mul (num c) b) = mul (num c) (strip1 b) := by
        simp [strip1, h1]
      have hs2 : stripPow1 (mul (num c) (strip1 b)) = mul (num c) (stripPow1 (strip1 b)) := by
        simp [stripPow1]
      rw [hs, hs2]
      simp only [simpFull]
      rw [strip_body hb]
      simp [mulPI, polyMonoI, multMono, hc]

theorem insMI_sorted {q m : IExp} (h : isPolyI (add q m) = true) : insMI q m = add q m := by
  simp only [isPolyI, Bool.and_eq_true, beq_iff_eq] at h
  obtain ⟨⟨hq, hm⟩, hlt⟩ := h
  have hm0 := mono_ne_zero hm
  have hq0 := poly_ne_zero hq
  cases q with
  | add a b => simp only [lastM] at hlt; simp [insMI, hlt]
  | num z => simp only [lastM] at hlt; simp [insMI, hlt, hm0, hq0]
  | mul u v => simp only [lastM] at hlt; simp [insMI, hlt, hm0, hq0]
  | _ => simp [isPolyI, isMonoI] at hq

theorem addPI_sorted {q m : IExp} (h : isPolyI (add q m) = true) : addPI q m = add q m := by
  have h' := h
  simp only [isPolyI, Bool.and_eq_true, beq_iff_eq] at h'
  obtain ⟨⟨hq, hm⟩, _⟩ := h'
  have hm0 := mono_ne_zero hm
  have hq0 := poly_ne_zero hq
  rcases isMonoI_cases hm with ⟨z, rfl, _⟩ | ⟨c, b, rfl, _, _⟩
  · simp only [addPI]; rw [if_neg hq0, if_neg hm0]; exact insMI_sorted h
  · simp only [addPI]; rw [if_neg hq0, if_neg hm0]; exact insMI_sorted h

theorem strip_poly : ∀ {p : IExp}, isPolyI p = true → simpFull (stripPow1 (strip1 p)) = p := by
  intro p
  induction p with
  | add q m ihq _ =>
    intro h
    have h' := h
    simp only [isPolyI, Bool.and_eq_true, beq_iff_eq] at h'
    simp only [strip1, stripPow1, simpFull]
    rw [ihq h'.1.1, strip_mono h'.1.2]
    exact addPI_sorted h
  | num z => intro h; exact strip_mono (by simpa [isPolyI] using h)
  | mul u v _ _ => intro h; exact strip_mono (by simpa [isPolyI] using h)
  | atom i s => intro h; simp [isPolyI, isMonoI] at h
  | sub u v _ _ => intro h; simp [isPolyI, isMonoI] at h
  | neg u _ => intro h; simp [isPolyI, isMonoI] at h
  | pow u e _ => intro h; simp [isPolyI, isMonoI] at h

/-- `simp_full` rebuilds a normal form from its stripped presentation. -/
theorem strip_nf {n : IExp} (h : isNFI n = true) : simpFull (stripPow1 (strip1 n)) = n := by
  rcases (isNFI_iff n).1 h with rfl | h
  · simp [strip1, stripPow1, simpFull]
  · exact strip_poly h

/-- `int_norm_conv` is idempotent on terms whose powers have atomic bases. -/
theorem intNorm_idem {t : IExp} (h : atomicPowers t = true) : intNorm (intNorm t) = intNorm t := by
  unfold intNorm
  rw [strip_nf (simpFull_nf h)]

end Holpy.C10.IntN
