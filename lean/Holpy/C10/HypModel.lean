import Holpy.C10.Model
/-
C10 — the conversion combinators of `logic/conv.py` with HYPOTHESES tracked (import-free: linked into
the `c10_model` driver).

A conversion returns a sequent `hyps ⊢ lhs = rhs` (`ProofTerm.th`).  `Model.lean` has the same
combinators on bare equations; here every kernel step keeps the hypotheses the way `kernel/thm.py`
does:
  * `Thm.transitive`, `Thm.combination`: union of the hypotheses of the two premises;
  * `ProofTerm.transitive` short cuts: a reflexive first premise is dropped TOGETHER WITH ITS
    HYPOTHESES (the second is returned unchanged), likewise a reflexive second premise;
  * `combination_conv` returns `⊢ t = t` (no hypotheses) when both parts are reflexive;
  * `Thm.abstraction x`: `InvalidDerivationException` when `x` occurs free in a hypothesis;
    `abs_conv` turns that into `ConvException`, `top_conv` / `top_sweep_conv` let it through;
  * `rewr_conv(pt, conds=[..])` for `pt : H ⊢ A1 --> ... --> An --> lhs = rhs`: the number of
    conditions must be `n` (`ConvException`), `first_order_match_list(As, [cond.prop ..])` THEN
    `first_order_match(lhs, t)` (`ConvException`), every variable of `rhs` instantiated
    (`ConvException`), `substitution`, `implies_elim(*conds)` -- the result carries the hypotheses
    of `pt` and of every condition --, final `assert lhs == t`.
Hypotheses are a list here and a set in the code (the harness compares them as sets).
-/
namespace Holpy.C10.H
open Holpy.C10

/-- A sequent `hyps ⊢ lhs = rhs`. -/
structure Seq where
  hyps : List Term
  lhs : Term
  rhs : Term
  deriving Repr, DecidableEq, Inhabited

abbrev ConvH := Term → Except Err Seq

/-- `Term.occurs_var (Var x)`: a free occurrence (binders are named as `dest_abs` names them). -/
def occursVar (x : Nat) : Term → Bool
  | .atom n => n == x
  | .comb f a => occursVar x f || occursVar x a
  | .abs y b => if y == x then false else occursVar x b

def isReflS (s : Seq) : Bool := s.lhs == s.rhs
def reflS (t : Term) : Seq := ⟨[], t, t⟩

/-- `pt.transitive(eq_pt)`. -/
def transS (p q : Seq) : Except Err Seq :=
  if isReflS p then .ok q
  else if isReflS q then .ok p
  else if p.rhs == q.lhs then .ok ⟨p.hyps ++ q.hyps, p.lhs, q.rhs⟩
  else .error .invalid

/-- `pt1.combination(pt2)`. -/
def combS (p q : Seq) : Seq := ⟨p.hyps ++ q.hyps, .comb p.lhs q.lhs, .comb p.rhs q.rhs⟩

/-- `pt.abstraction(x)`. -/
def absS (x : Nat) (p : Seq) : Except Err Seq :=
  if p.hyps.any (occursVar x) then .error .invalid
  else .ok ⟨p.hyps, .abs x p.lhs, .abs x p.rhs⟩

def onRhsH (p : Seq) (cv : ConvH) : Except Err Seq :=
  match cv p.rhs with
  | .error e => .error e
  | .ok q => transS p q

def onRhsLH (p : Seq) : List ConvH → Except Err Seq
  | [] => .ok p
  | cv :: cvs =>
    match onRhsH p cv with
    | .error e => .error e
    | .ok p' => onRhsLH p' cvs

def allConvH : ConvH := fun t => .ok (reflS t)
def noConvH : ConvH := fun _ => .error .conv

def combinationConvH (c1 c2 : ConvH) : ConvH := fun t =>
  match t with
  | .comb f a =>
    match c1 f with
    | .error e => .error e
    | .ok p1 =>
      match c2 a with
      | .error e => .error e
      | .ok p2 => if isReflS p1 && isReflS p2 then .ok (reflS t) else .ok (combS p1 p2)
  | _ => .error .conv

def thenConvH (c1 c2 : ConvH) : ConvH := fun t =>
  match c1 t with
  | .error e => .error e
  | .ok p1 =>
    match c2 p1.rhs with
    | .error e => .error e
    | .ok p2 => transS p1 p2

def elseConvH (c1 c2 : ConvH) : ConvH := fun t =>
  match c1 t with
  | .error .conv => c2 t
  | r => r

def absConvH (cv : ConvH) : ConvH := fun t =>
  match t with
  | .abs x b =>
    match cv b with
    | .ok p =>
      match absS x p with
      | .ok s => .ok s
      | .error .invalid => .error .conv
      | .error e => .error e
    | .error .invalid => .error .conv
    | .error e => .error e
  | _ => .error .conv

def tryConvH (cv : ConvH) : ConvH := elseConvH cv allConvH
def combConvH (cv : ConvH) : ConvH := combinationConvH cv cv
def argConvH (cv : ConvH) : ConvH := combinationConvH allConvH cv
def funConvH (cv : ConvH) : ConvH := combinationConvH cv allConvH
def arg1ConvH (cv : ConvH) : ConvH := funConvH (argConvH cv)
def binopConvH (cv : ConvH) : ConvH := combinationConvH (argConvH cv) cv

def subConvH (cv : ConvH) : ConvH := fun t =>
  match t with
  | .comb _ _ => combConvH cv t
  | .abs _ _ => absConvH cv t
  | .atom _ => .ok (reflS t)

def repeatLoopH (cv : ConvH) : Nat → Seq → Except Err Seq
  | 0, _ => .error .fuel
  | n + 1, p =>
    match onRhsH p cv with
    | .error e => .error e
    | .ok p2 => if p2.rhs == p.rhs then .ok p else repeatLoopH cv n p2

def repeatConvH (cv : ConvH) (fuel : Nat) : ConvH := fun t => repeatLoopH cv fuel (reflS t)

def bottomConvH (cv : ConvH) : Nat → ConvH
  | 0 => fun _ => .error .fuel
  | n + 1 => fun t =>
    let self := bottomConvH cv n
    match t with
    | .comb _ _ => onRhsLH (reflS t) [funConvH self, argConvH self, tryConvH cv]
    | .abs _ _ => onRhsLH (reflS t) [absConvH self, tryConvH cv]
    | .atom _ => onRhsLH (reflS t) [tryConvH cv]

def topConvH (cv : ConvH) : Nat → ConvH
  | 0 => fun _ => .error .fuel
  | n + 1 => fun t =>
    match onRhsH (reflS t) cv with
    | .error e => .error e
    | .ok pt =>
      match pt.rhs with
      | .comb f a =>
        match topConvH cv n f with
        | .error e => .error e
        | .ok fp =>
          match topConvH cv n a with
          | .error e => .error e
          | .ok ap => transS pt (combS fp ap)
      | .abs _ _ =>
        match t with
        | .abs x b =>
          match topConvH cv n b with
          | .error e => .error e
          | .ok bp =>
            if isReflS bp then .ok pt
            else
              match absS x bp with
              | .error e => .error e
              | .ok s => transS pt s
        | _ => .error .assertion
      | .atom _ => .ok pt

def topSweepConvH (cv : ConvH) : ConvH := fun t =>
  match onRhsH (reflS t) (tryConvH cv) with
  | .error e => .error e
  | .ok pt =>
    if !isReflS pt then .ok pt
    else
      match t with
      | .comb f a =>
        match topSweepConvH cv f with
        | .error e => .error e
        | .ok fp =>
          match topSweepConvH cv a with
          | .error e => .error e
          | .ok ap => .ok (combS fp ap)
      | .abs x b =>
        match topSweepConvH cv b with
        | .error e => .error e
        | .ok bp => if isReflS bp then .ok pt else absS x bp
      | .atom _ => .ok pt

/-! ### conditional rewrite rules -/

/-- a supplied condition: the sequent `hyps ⊢ prop` of a proof term handed to `rewr_conv(conds=..)` -/
structure Cond where
  hyps : List Term
  prop : Term
  deriving Repr, DecidableEq, Inhabited

/-- the rewrite theorem `hyps ⊢ A1 --> ... --> An --> lhs = rhs` (binder-free patterns; `sym`
already applied by the reader) -/
structure Rule where
  hyps : List Term
  asms : List Pat
  lhs : Pat
  rhs : Pat
  deriving Repr, Inhabited

/-- `first_order_match_list`. -/
def matchList : List Pat → List Term → Inst → Option Inst
  | [], [], i => some i
  | p :: ps, t :: ts, i =>
    match matchPat p t i with
    | some i' => matchList ps ts i'
    | none => none
  | _, _, _ => none

def condHyps (conds : List Cond) : List Term := conds.flatMap (·.hyps)

/-- `rewr_conv(pt, conds=conds)`. -/
def rewrConvH (r : Rule) (conds : List Cond) : ConvH := fun t =>
  if r.asms.length != conds.length then .error .conv
  else
    match matchList r.asms (conds.map (·.prop)) [] with
    | none => .error .conv
    | some i0 =>
      match matchPat r.lhs t i0 with
      | none => .error .conv
      | some i =>
        match substPat i r.lhs, substPat i r.rhs with
        | some l, some r' =>
          if l == t then .ok ⟨r.hyps ++ condHyps conds, l, r'⟩ else .error .assertion
        | _, _ => .error .conv

/-- Conversion expressions with conditional rules at the leaves. -/
inductive CEH where
  | all | no
  | rewr (r : Rule) (conds : List Cond)
  | thenC (a b : CEH) | elseC (a b : CEH) | tryC (a : CEH)
  | comb (a b : CEH) | comb1 (a : CEH) | arg (a : CEH) | fn (a : CEH) | arg1 (a : CEH) | binop (a : CEH)
  | absC (a : CEH) | sub (a : CEH) | rep (a : CEH) | bottom (a : CEH) | top (a : CEH) | topSweep (a : CEH)
  deriving Repr, Inhabited

def interpH (fuel : Nat) : CEH → ConvH
  | .all => allConvH
  | .no => noConvH
  | .rewr r conds => rewrConvH r conds
  | .thenC a b => thenConvH (interpH fuel a) (interpH fuel b)
  | .elseC a b => elseConvH (interpH fuel a) (interpH fuel b)
  | .tryC a => tryConvH (interpH fuel a)
  | .comb a b => combinationConvH (interpH fuel a) (interpH fuel b)
  | .comb1 a => combConvH (interpH fuel a)
  | .arg a => argConvH (interpH fuel a)
  | .fn a => funConvH (interpH fuel a)
  | .arg1 a => arg1ConvH (interpH fuel a)
  | .binop a => binopConvH (interpH fuel a)
  | .absC a => absConvH (interpH fuel a)
  | .sub a => subConvH (interpH fuel a)
  | .rep a => repeatConvH (interpH fuel a) fuel
  | .bottom a => bottomConvH (interpH fuel a) fuel
  | .top a => topConvH (interpH fuel a) fuel
  | .topSweep a => topSweepConvH (interpH fuel a)

/-- everything the caller supplied: the hypotheses of the rewrite theorems and of the conditions -/
def supplied : CEH → List Term
  | .all => []
  | .no => []
  | .rewr r conds => r.hyps ++ condHyps conds
  | .thenC a b => supplied a ++ supplied b
  | .elseC a b => supplied a ++ supplied b
  | .comb a b => supplied a ++ supplied b
  | .tryC a => supplied a
  | .comb1 a => supplied a
  | .arg a => supplied a
  | .fn a => supplied a
  | .arg1 a => supplied a
  | .binop a => supplied a
  | .absC a => supplied a
  | .sub a => supplied a
  | .rep a => supplied a
  | .bottom a => supplied a
  | .top a => supplied a
  | .topSweep a => supplied a

/-- forget the conditions: the expression of `Model.lean` (for rules without assumptions) -/
def erase : CEH → CE
  | .all => .all
  | .no => .no
  | .rewr r _ => .rewr r.lhs r.rhs
  | .thenC a b => .thenC (erase a) (erase b)
  | .elseC a b => .elseC (erase a) (erase b)
  | .tryC a => .tryC (erase a)
  | .comb a b => .comb (erase a) (erase b)
  | .comb1 a => .comb1 (erase a)
  | .arg a => .arg (erase a)
  | .fn a => .fn (erase a)
  | .arg1 a => .arg1 (erase a)
  | .binop a => .binop (erase a)
  | .absC a => .absC (erase a)
  | .sub a => .sub (erase a)
  | .rep a => .rep (erase a)
  | .bottom a => .bottom (erase a)
  | .top a => .top (erase a)
  | .topSweep a => .topSweep (erase a)

end Holpy.C10.H
