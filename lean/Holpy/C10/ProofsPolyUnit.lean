import Holpy.C10.ProofsPolyCanon
import Holpy.C10.ProofsPolyEval
/-
C10 — unit laws, cancellation, numerals and powers for the polynomial operations; what
`convert_to_poly` returns is canonical (sorted, no zero coefficient, canonical monomials); expressions
related by the ring axioms get identical polynomials.
-/
set_option linter.unusedSectionVars false
namespace Holpy.C10.Poly
open Holpy.C10

section generic
variable {κ V : Type} [CommSemiring V] [DecidableEq V] {cmp : κ → κ → Ordering}

theorem key_mem_merged (l : List (κ × V)) (p : κ × V) (hp : p ∈ merged cmp l) : ∃ q ∈ l, q.1 = p.1 := by
  induction l generalizing p with
  | nil => simp [merged] at hp
  | cons t l ih =>
    have hp' : p ∈ insertAdd cmp t.1 t.2 (merged cmp l) := hp
    rcases key_mem_insertAdd t.1 t.2 _ p hp' with h1 | ⟨q, hq, he⟩
    · exact ⟨t, by simp, h1.symm⟩
    · obtain ⟨q', hq', he'⟩ := ih q hq
      exact ⟨q', by simp [hq'], he'.trans he⟩

theorem key_mem_collect (l : List (κ × V)) (p : κ × V) (hp : p ∈ collect cmp l) : ∃ q ∈ l, q.1 = p.1 :=
  key_mem_merged l p (List.mem_filter.1 hp).1

end generic

section poly
variable {α : Type} [CommRing α] [DecidableEq α]

/-- What `Polynomial(...)` objects look like: sorted by `compare_fst`, no zero coefficient, every
monomial's factors sorted by atom with non-zero powers. -/
def Good (p : PolyL α) : Prop := Canon monoCmp p ∧ ∀ t ∈ p, Canon natCmp t.1

theorem canon_monoMul (m1 m2 : Mono) : Canon natCmp (monoMul m1 m2) := canon_collect natCmp_total' _

theorem good_mkPoly (l : PolyL α) (h : ∀ t ∈ l, Canon natCmp t.1) : Good (mkPoly l) := by
  refine ⟨canon_collect monoCmp_total l, ?_⟩
  intro t ht
  obtain ⟨q, hq, he⟩ := key_mem_collect l t ht
  rw [← he]; exact h q hq

theorem mem_prodTerms {p q : PolyL α} {t : Mono × α} (ht : t ∈ prodTerms p q) :
    ∃ m1 m2, t.1 = monoMul m1 m2 := by
  unfold prodTerms at ht
  simp only [List.mem_flatMap, List.mem_map] at ht
  obtain ⟨t1, _, t2, _, rfl⟩ := ht
  exact ⟨t1.1, t2.1, rfl⟩

theorem good_pmul (p q : PolyL α) : Good (pmul p q) :=
  good_mkPoly _ (fun t ht => by obtain ⟨m1, m2, he⟩ := mem_prodTerms ht; rw [he]; exact canon_monoMul m1 m2)

theorem good_padd {p q : PolyL α} (hp : Good p) (hq : Good q) : Good (padd p q) :=
  good_mkPoly _ (fun t ht => by
    rcases List.mem_append.1 ht with h | h
    · exact hp.2 t h
    · exact hq.2 t h)

theorem good_pscale (c : α) {p : PolyL α} (hp : Good p) : Good (pscale c p) :=
  good_mkPoly _ (fun t ht => by
    obtain ⟨u, hu, rfl⟩ := List.mem_map.1 ht
    exact hp.2 u hu)

theorem canon_nil_mono : Canon natCmp ([] : Mono) := ⟨List.Pairwise.nil, by simp⟩

theorem good_pconst (c : α) : Good (pconst c) :=
  good_mkPoly _ (fun t ht => by simp at ht; rw [ht]; exact canon_nil_mono)

theorem good_psingle (i : Nat) : Good (psingle i : PolyL α) :=
  good_mkPoly _ (fun t ht => by simp at ht; rw [ht]; exact canon_collect natCmp_total' _)

theorem good_powLoop (p : PolyL α) (n : Nat) {r : PolyL α} (hr : Good r) : Good (powLoop p n r) := by
  induction n generalizing r with
  | zero => exact hr
  | succ n ih => exact ih (good_pmul r p)

theorem good_toPoly (e : PExp α) : Good (toPoly e) := by
  induction e with
  | atom i => exact good_psingle i
  | num c => exact good_pconst c
  | add a b iha ihb => exact good_padd iha ihb
  | mul a b _ _ => exact good_pmul _ _
  | neg a ih => exact good_pscale _ ih
  | sub a b iha ihb => exact good_padd iha (good_pscale _ ihb)
  | pow a k ih =>
    cases k with
    | zero => exact good_pconst 1
    | succ n => exact good_powLoop _ n ih
  | scale c a ih => exact good_pscale c ih

theorem mkPoly_of_good {p : PolyL α} (hp : Good p) : mkPoly p = p := collect_of_canon hp.1

theorem monoMul_nil_right {m : Mono} (hm : Canon natCmp m) : monoMul m [] = m := by
  unfold monoMul; rw [List.append_nil]; exact collect_of_canon hm

theorem monoMul_nil_left {m : Mono} (hm : Canon natCmp m) : monoMul [] m = m := by
  unfold monoMul; exact collect_of_canon hm

theorem wsum_map_scale (g : Mono → α) (c : α) (p : PolyL α) :
    wsum g (p.map (fun t => (t.1, c * t.2))) = c * wsum g p := by
  induction p with
  | nil => simp [wsum]
  | cons t p ih => simp only [List.map_cons, wsum, ih]; ring

theorem sameSum_pconst (c : α) : SameSum (pconst c) [(([] : Mono), c)] := sameSum_mkPoly _

theorem padd_zero {p : PolyL α} (hp : Good p) : padd p (pconst 0) = p := by
  have h : SameSum (p ++ pconst (0 : α)) p := fun g => by
    rw [wsum_append, sameSum_pconst]; simp [wsum]
  calc padd p (pconst 0) = mkPoly p := mkPoly_congr h
    _ = p := mkPoly_of_good hp

theorem pmul_one {p : PolyL α} (hp : Good p) : pmul p (pconst 1) = p := by
  have h : SameSum (prodTerms p (pconst (1 : α))) p := fun g => by
    rw [sameSum_prod_right p (sameSum_pconst (1 : α)) g, wsum_prodTerms]
    apply wsum_congr_mem
    intro t ht
    simp [wsum, monoMul_nil_right (hp.2 t ht)]
  unfold pmul
  rw [mkPoly_congr h, mkPoly_of_good hp]

theorem pmul_zero (p : PolyL α) : pmul p (pconst 0) = pconst 0 := by
  unfold pmul pconst
  apply mkPoly_congr
  intro g
  rw [sameSum_prod_right p (sameSum_mkPoly _) g, wsum_prodTerms]
  simp [wsum, wsum_zero_fun]

theorem padd_pneg (p : PolyL α) : padd p (pneg p) = pconst 0 := by
  unfold padd pneg pscale pconst
  apply mkPoly_congr
  intro g
  rw [wsum_append, sameSum_mkPoly, wsum_map_scale]
  simp [wsum]

theorem pscale_eq_pmul (c : α) {p : PolyL α} (hp : Good p) : pscale c p = pmul (pconst c) p := by
  unfold pscale pmul
  apply mkPoly_congr
  intro g
  rw [wsum_map_scale, sameSum_prod_left p (sameSum_pconst c) g, wsum_prodTerms]
  simp only [wsum, add_zero]
  congr 1
  exact wsum_congr_mem p (fun t ht => by rw [monoMul_nil_left (hp.2 t ht)])

theorem pconst_add (x y : α) : padd (pconst x) (pconst y) = pconst (x + y) := by
  unfold padd
  conv => rhs; unfold pconst
  apply mkPoly_congr
  intro g
  rw [wsum_append, sameSum_pconst, sameSum_pconst]
  simp [wsum]; ring

theorem monoMul_nil_nil : monoMul [] [] = [] := rfl

theorem pconst_mul (x y : α) : pmul (pconst x) (pconst y) = pconst (x * y) := by
  unfold pmul
  conv => rhs; unfold pconst
  apply mkPoly_congr
  intro g
  rw [sameSum_prod_left _ (sameSum_pconst x) g, sameSum_prod_right _ (sameSum_pconst y) g, wsum_prodTerms]
  simp [wsum, monoMul_nil_nil]; ring

theorem powLoop_pmul (p : PolyL α) (n : Nat) (r : PolyL α) :
    powLoop p n (pmul r p) = pmul (powLoop p n r) p := by
  induction n generalizing r with
  | zero => rfl
  | succ n ih => simp only [powLoop]; rw [ih]

theorem ppow_succ {p : PolyL α} (hp : Good p) (k : Nat) : ppow p (k + 1) = pmul (ppow p k) p := by
  cases k with
  | zero =>
    show p = pmul (pconst 1) p
    rw [pmul_comm, pmul_one hp]
  | succ n =>
    show powLoop p (n + 1) p = pmul (powLoop p n p) p
    simp only [powLoop]; exact powLoop_pmul p n p

/-- Expressions related by the ring axioms have the same polynomial (the same list). -/
theorem toPoly_ringEq {a b : PExp α} (h : RingEq a b) : toPoly a = toPoly b := by
  induction h with
  | refl a => rfl
  | symm _ ih => exact ih.symm
  | trans _ _ ih1 ih2 => exact ih1.trans ih2
  | add_congr _ _ ih1 ih2 => simp only [toPoly, ih1, ih2]
  | mul_congr _ _ ih1 ih2 => simp only [toPoly, ih1, ih2]
  | neg_congr _ ih => simp only [toPoly, ih]
  | sub_congr _ _ ih1 ih2 => simp only [toPoly, ih1, ih2]
  | pow_congr k _ ih => simp only [toPoly, ih]
  | scale_congr c _ ih => simp only [toPoly, ih]
  | add_comm a b => exact padd_comm _ _
  | add_assoc a b c => exact padd_assoc _ _ _
  | mul_comm a b => exact pmul_comm _ _
  | mul_assoc a b c => exact pmul_assoc _ _ _
  | distrib a b c => exact pmul_padd _ _ _
  | add_zero a => exact padd_zero (good_toPoly a)
  | mul_one a => exact pmul_one (good_toPoly a)
  | mul_zero a => exact pmul_zero _
  | neg_cancel a => exact padd_pneg _
  | sub_def a b => rfl
  | neg_def a => exact pscale_eq_pmul (-1) (good_toPoly a)
  | scale_def c a => exact pscale_eq_pmul c (good_toPoly a)
  | num_add x y => exact pconst_add x y
  | num_mul x y => exact pconst_mul x y
  | pow_zero a => rfl
  | pow_succ a k => exact ppow_succ (good_toPoly a) k

/-- The congruence is sound for the ring semantics (it relates only expressions of equal value). -/
theorem evalE_ringEq {a b : PExp α} (h : RingEq a b) (ρ : Nat → α) : evalE ρ a = evalE ρ b := by
  rw [← evalPoly_toPoly, ← evalPoly_toPoly, toPoly_ringEq h]

end poly

end Holpy.C10.Poly
