import Holpy.C10.ProofsIntInjSem
import Holpy.C10.ProofsIntIdem

/-! `int_norm_eq` picks the same representative for an equation and for the equation with the overall
sign changed: multiplying a normal form by `-1` negates every coefficient in place (by canonicity),
and the first coefficient decides which of the two is returned. -/

namespace Holpy.C10.IntN
open IExp MvPolynomial

/-! ### `simp_full` rebuilds a normal form from the presentation with `x ^ 1` shown as `x` -/

theorem spow_atomPow {a : IExp} (h : isAtomPow a = true) : simpFull (stripPow1 a) = mul (num 1) a := by
  obtain ⟨i, s, e, rfl⟩ := atomPow_form h
  by_cases he : e = 1
  · subst he; simp [stripPow1, simpFull]
  · simp [stripPow1, simpFull, he]

theorem spow_body : ∀ {b : IExp}, isBodyI b = true → simpFull (stripPow1 b) = mul (num 1) b := by
  intro b
  induction b with
  | mul b0 a ih0 _ =>
    intro h
    have h' := h
    simp only [isBodyI, Bool.and_eq_true, beq_iff_eq] at h'
    obtain ⟨⟨ha, hb0⟩, hlt⟩ := h'
    have hs2 : stripPow1 (mul b0 a) = mul (stripPow1 b0) (stripPow1 a) := by simp [stripPow1]
    rw [hs2]
    simp only [simpFull]
    rw [ih0 hb0, spow_atomPow ha]
    obtain ⟨x, e, rfl⟩ := isAtomPow_pow ha
    have : multAtom b0 (pow x e) = mul b0 (pow x e) := multAtom_sorted h
    simp [mulPI, polyMonoI, multMono, multWo, this]
  | pow x e _ => intro h; exact spow_atomPow (by simpa [isBodyI] using h)
  | atom i s => intro h; simp [isBodyI, isAtomPow] at h
  | num z => intro h; simp [isBodyI, isAtomPow] at h
  | add u v _ _ => intro h; simp [isBodyI, isAtomPow] at h
  | sub u v _ _ => intro h; simp [isBodyI, isAtomPow] at h
  | neg u _ => intro h; simp [isBodyI, isAtomPow] at h

theorem spow_mono {m : IExp} (h : isMonoI m = true) : simpFull (stripPow1 m) = m := by
  rcases isMonoI_cases h with ⟨z, rfl, _⟩ | ⟨c, b, rfl, hc, hb⟩
  · simp [stripPow1, simpFull]
  · have hs2 : stripPow1 (mul (num c) b) = mul (num c) (stripPow1 b) := by simp [stripPow1]
    rw [hs2]
    simp only [simpFull]
    rw [spow_body hb]
    simp [mulPI, polyMonoI, multMono, hc]

theorem spow_poly : ∀ {p : IExp}, isPolyI p = true → simpFull (stripPow1 p) = p := by
  intro p
  induction p with
  | add q m ihq _ =>
    intro h
    have h' := h
    simp only [isPolyI, Bool.and_eq_true, beq_iff_eq] at h'
    simp only [stripPow1, simpFull]
    rw [ihq h'.1.1, spow_mono h'.1.2]
    exact addPI_sorted h
  | num z => intro h; exact spow_mono (by simpa [isPolyI] using h)
  | mul u v _ _ => intro h; exact spow_mono (by simpa [isPolyI] using h)
  | atom i s => intro h; simp [isPolyI, isMonoI] at h
  | sub u v _ _ => intro h; simp [isPolyI, isMonoI] at h
  | neg u _ => intro h; simp [isPolyI, isMonoI] at h
  | pow u e _ => intro h; simp [isPolyI, isMonoI] at h

theorem spow_nf {n : IExp} (h : isNFI n = true) : simpFull (stripPow1 n) = n := by
  rcases (isNFI_iff n).1 h with rfl | h
  · simp [stripPow1, simpFull]
  · exact spow_poly h

/-! ### negating every coefficient in place -/

def negAll : IExp → IExp
  | add p m => add (negAll p) (negAll m)
  | num z => num (-z)
  | mul (num c) b => mul (num (-c)) b
  | t => t

theorem negAll_mono {m : IExp} (h : isMonoI m = true) :
    isMonoI (negAll m) = true ∧ (∀ z, cmpMono (negAll m) z = cmpMono m z) ∧
    (∀ z, cmpMono z (negAll m) = cmpMono z m) ∧ lastM (negAll m) = negAll m := by
  rcases isMonoI_cases h with ⟨x, rfl, hx⟩ | ⟨c, b, rfl, hc, hb⟩
  · refine ⟨by simpa [negAll, isMonoI] using hx, fun z => cmpMono_num_left z _ _, fun z => ?_, rfl⟩
    cases z <;> rfl
  · refine ⟨by simp [negAll, isMonoI, hc, hb], fun z => cmpMono_coeff_left z _ _ b,
      fun z => cmpMono_coeff_right z _ _ b, rfl⟩

theorem negAll_poly : ∀ {p : IExp}, isPolyI p = true →
    isPolyI (negAll p) = true ∧ lastM (negAll p) = negAll (lastM p) := by
  intro p
  induction p with
  | add q m ihq _ =>
    intro h
    simp only [isPolyI, Bool.and_eq_true, beq_iff_eq] at h
    obtain ⟨⟨hq, hm⟩, hlt⟩ := h
    obtain ⟨i1, i2⟩ := ihq hq
    obtain ⟨m1, m2, m3, _⟩ := negAll_mono hm
    obtain ⟨_, l2, _, _⟩ := negAll_mono (lastM_mono hq)
    refine ⟨?_, rfl⟩
    simp only [negAll, isPolyI, Bool.and_eq_true, beq_iff_eq]
    refine ⟨⟨i1, m1⟩, ?_⟩
    rw [i2, m3, l2]; exact hlt
  | num z =>
    intro h
    have hm : isMonoI (num z) = true := by simpa [isPolyI] using h
    exact ⟨mono_poly (negAll_mono hm).1, rfl⟩
  | mul u v _ _ =>
    intro h
    have hm : isMonoI (mul u v) = true := by simpa [isPolyI] using h
    exact ⟨mono_poly (negAll_mono hm).1, by rw [(negAll_mono hm).2.2.2]; rfl⟩
  | atom i s => intro h; simp [isPolyI, isMonoI] at h
  | sub u v _ _ => intro h; simp [isPolyI, isMonoI] at h
  | neg u _ => intro h; simp [isPolyI, isMonoI] at h
  | pow u e _ => intro h; simp [isPolyI, isMonoI] at h

theorem negAll_nf {n : IExp} (h : isNFI n = true) : isNFI (negAll n) = true := by
  rcases (isNFI_iff n).1 h with rfl | h
  · decide
  · exact poly_nf (negAll_poly h).1

theorem negAll_eval (ρ : Nat → Int) : ∀ {p : IExp}, isPolyI p = true → evalI ρ (negAll p) = - evalI ρ p := by
  intro p
  induction p with
  | add q m ihq _ =>
    intro h
    simp only [isPolyI, Bool.and_eq_true, beq_iff_eq] at h
    rcases isMonoI_cases h.1.2 with ⟨x, rfl, _⟩ | ⟨c, b, rfl, _, _⟩
    · simp only [negAll, evalI, ihq h.1.1]; omega
    · simp only [negAll, evalI, ihq h.1.1, Int.neg_mul]; omega
  | num z => intro _; simp [negAll, evalI]
  | mul u v _ _ =>
    intro h
    rcases isMonoI_cases (show isMonoI (mul u v) = true by simpa [isPolyI] using h) with ⟨x, hx, _⟩ | ⟨c, b, hb, _, _⟩
    · cases hx
    · cases hb; simp [negAll, evalI]
  | atom i s => intro h; simp [isPolyI, isMonoI] at h
  | sub u v _ _ => intro h; simp [isPolyI, isMonoI] at h
  | neg u _ => intro h; simp [isPolyI, isMonoI] at h
  | pow u e _ => intro h; simp [isPolyI, isMonoI] at h

theorem negAll_eval_nf (ρ : Nat → Int) {n : IExp} (h : isNFI n = true) : evalI ρ (negAll n) = - evalI ρ n := by
  rcases (isNFI_iff n).1 h with rfl | h
  · simp [negAll, evalI]
  · exact negAll_eval ρ h

theorem negAll_wf (sh : Nat → Nat) : ∀ {p : IExp}, isPolyI p = true → wfI sh p = true → wfI sh (negAll p) = true := by
  intro p
  induction p with
  | add q m ihq _ =>
    intro h w
    simp only [isPolyI, Bool.and_eq_true, beq_iff_eq] at h
    simp only [wfI, Bool.and_eq_true] at w
    rcases isMonoI_cases h.1.2 with ⟨x, rfl, _⟩ | ⟨c, b, rfl, _, _⟩
    · simp [negAll, wfI, ihq h.1.1 w.1]
    · simp only [negAll, wfI, Bool.and_eq_true, ihq h.1.1 w.1, true_and]
      simpa [wfI] using w.2
  | num z => intro _ _; rfl
  | mul u v _ _ =>
    intro h w
    rcases isMonoI_cases (show isMonoI (mul u v) = true by simpa [isPolyI] using h) with ⟨x, hx, _⟩ | ⟨c, b, hb, _, _⟩
    · cases hx
    · cases hb; simpa [negAll, wfI] using w
  | atom i s => intro h; simp [isPolyI, isMonoI] at h
  | sub u v _ _ => intro h; simp [isPolyI, isMonoI] at h
  | neg u _ => intro h; simp [isPolyI, isMonoI] at h
  | pow u e _ => intro h; simp [isPolyI, isMonoI] at h

theorem negAll_wf_nf (sh : Nat → Nat) {n : IExp} (h : isNFI n = true) (w : wfI sh n = true) :
    wfI sh (negAll n) = true := by
  rcases (isNFI_iff n).1 h with rfl | h
  · rfl
  · exact negAll_wf sh h w

theorem firstCoeff_negAll : ∀ {p : IExp}, isPolyI p = true → firstCoeff (negAll p) = - firstCoeff p := by
  intro p
  induction p with
  | add q m ihq _ =>
    intro h
    simp only [isPolyI, Bool.and_eq_true, beq_iff_eq] at h
    simp only [negAll, firstCoeff, ihq h.1.1]
  | num z => intro _; rfl
  | mul u v _ _ =>
    intro h
    rcases isMonoI_cases (show isMonoI (mul u v) = true by simpa [isPolyI] using h) with ⟨x, hx, _⟩ | ⟨c, b, hb, _, _⟩
    · cases hx
    · cases hb; rfl
  | atom i s => intro h; simp [isPolyI, isMonoI] at h
  | sub u v _ _ => intro h; simp [isPolyI, isMonoI] at h
  | neg u _ => intro h; simp [isPolyI, isMonoI] at h
  | pow u e _ => intro h; simp [isPolyI, isMonoI] at h

theorem firstCoeff_ne_zero : ∀ {p : IExp}, isPolyI p = true → firstCoeff p ≠ 0 := by
  intro p
  induction p with
  | add q m ihq _ =>
    intro h
    simp only [isPolyI, Bool.and_eq_true, beq_iff_eq] at h
    simp only [firstCoeff]; exact ihq h.1.1
  | num z => intro h; simpa [isPolyI, isMonoI, firstCoeff] using h
  | mul u v _ _ =>
    intro h
    rcases isMonoI_cases (show isMonoI (mul u v) = true by simpa [isPolyI] using h) with ⟨x, hx, _⟩ | ⟨c, b, hb, hc, _⟩
    · cases hx
    · cases hb; exact hc
  | atom i s => intro h; simp [isPolyI, isMonoI] at h
  | sub u v _ _ => intro h; simp [isPolyI, isMonoI] at h
  | neg u _ => intro h; simp [isPolyI, isMonoI] at h
  | pow u e _ => intro h; simp [isPolyI, isMonoI] at h

theorem firstCoeff_stripPow : ∀ {p : IExp}, isPolyI p = true → firstCoeff (stripPow1 p) = firstCoeff p := by
  intro p
  induction p with
  | add q m ihq _ =>
    intro h
    simp only [isPolyI, Bool.and_eq_true, beq_iff_eq] at h
    simp only [stripPow1, firstCoeff, ihq h.1.1]
  | num z => intro _; rfl
  | mul u v _ _ =>
    intro h
    rcases isMonoI_cases (show isMonoI (mul u v) = true by simpa [isPolyI] using h) with ⟨x, hx, _⟩ | ⟨c, b, hb, _, _⟩
    · cases hx
    · cases hb; simp [stripPow1, firstCoeff]
  | atom i s => intro h; simp [isPolyI, isMonoI] at h
  | sub u v _ _ => intro h; simp [isPolyI, isMonoI] at h
  | neg u _ => intro h; simp [isPolyI, isMonoI] at h
  | pow u e _ => intro h; simp [isPolyI, isMonoI] at h

/-- a normal form with the negated value is the coefficient-wise negation -/
theorem nf_neg_eq (sh : Nat → Nat) {n n' : IExp} (hn : isNFI n = true) (hn' : isNFI n' = true)
    (wn : wfI sh n = true) (wn' : wfI sh n' = true) (h : ∀ ρ, evalI ρ n' = - evalI ρ n) :
    n' = negAll n := by
  apply nf_injI sh hn' (negAll_nf hn) wn' (negAll_wf_nf sh hn wn)
  apply MvPolynomial.funext
  intro ρ
  rw [eval_phiI, eval_phiI, h ρ, negAll_eval_nf ρ hn]

theorem firstCoeff_nf_zero {n : IExp} (hn : isNFI n = true) (h : firstCoeff n = 0) : n = num 0 := by
  rcases (isNFI_iff n).1 hn with h0 | hp
  · exact h0
  · exact absurd h (firstCoeff_ne_zero hp)

theorem firstCoeff_stripPow_nf {n : IExp} (hn : isNFI n = true) : firstCoeff (stripPow1 n) = firstCoeff n := by
  rcases (isNFI_iff n).1 hn with rfl | hp
  · rfl
  · exact firstCoeff_stripPow hp

theorem firstCoeff_negAll_nf {n : IExp} (hn : isNFI n = true) : firstCoeff (negAll n) = - firstCoeff n := by
  rcases (isNFI_iff n).1 hn with rfl | hp
  · rfl
  · exact firstCoeff_negAll hp

/-- `int_norm_eq` as a function of the normal form `n` of `lhs - rhs` -/
theorem intNormEq_char (sh : Nat → Nat) {a b : IExp} (pa : atomicPowers (sub a b) = true)
    (wa : wfI sh (sub a b) = true) :
    intNormEq a b = if firstCoeff (simpFull (sub a b)) < 0 then stripPow1 (negAll (simpFull (sub a b)))
      else stripPow1 (simpFull (sub a b)) := by
  have hn := simpFull_nf pa
  have wn := simpFull_wf sh _ wa
  unfold intNormEq
  simp only [firstCoeff_stripPow_nf hn]
  have h1 : simpFull (mul (num (-1)) (stripPow1 (simpFull (sub a b)))) = negAll (simpFull (sub a b)) := by
    have : ∀ n, isNFI n = true → simpFull (mul (num (-1)) (stripPow1 n)) = mulPI (num (-1)) n := by
      intro n hn'
      simp only [simpFull]
      rw [spow_nf hn']
    rw [this _ hn]
    apply nf_neg_eq sh hn (mulPI_nf (mono_nf neg_one_mono) hn) wn (mulPI_wf sh _ _ rfl wn)
    intro ρ
    rw [mulPI_sound]; simp [evalI]
  rw [h1]

/-- `int_norm_eq` returns the same equation for `a = b` and for any equation whose difference is
the negated difference (`b = a`, `-a = -b`, ...) -/
theorem intNormEq_sign (sh : Nat → Nat) {a b a' b' : IExp}
    (pa : atomicPowers (sub a b) = true) (pa' : atomicPowers (sub a' b') = true)
    (wa : wfI sh (sub a b) = true) (wa' : wfI sh (sub a' b') = true)
    (h : ∀ ρ, evalI ρ a' - evalI ρ b' = - (evalI ρ a - evalI ρ b)) :
    intNormEq a b = intNormEq a' b' := by
  have hn := simpFull_nf pa
  have hn' := simpFull_nf pa'
  have wn := simpFull_wf sh _ wa
  have wn' := simpFull_wf sh _ wa'
  have e' : simpFull (sub a' b') = negAll (simpFull (sub a b)) := by
    apply nf_neg_eq sh hn hn' wn wn'
    intro ρ
    rw [simpFull_sound, simpFull_sound]
    simpa [evalI] using h ρ
  have e : simpFull (sub a b) = negAll (simpFull (sub a' b')) := by
    apply nf_neg_eq sh hn' hn wn' wn
    intro ρ
    rw [simpFull_sound, simpFull_sound]
    have := h ρ
    simp only [evalI]; omega
  rw [intNormEq_char sh pa wa, intNormEq_char sh pa' wa']
  have hf : firstCoeff (simpFull (sub a' b')) = - firstCoeff (simpFull (sub a b)) := by
    rw [e', firstCoeff_negAll_nf hn]
  rw [hf, ← e]
  by_cases h1 : firstCoeff (simpFull (sub a b)) < 0
  · rw [if_pos h1, if_neg (by omega), e']
  · by_cases h2 : firstCoeff (simpFull (sub a b)) = 0
    · have z := firstCoeff_nf_zero hn h2
      rw [if_neg h1, if_neg (by omega), e', z]
      rfl
    · rw [if_neg h1, if_pos (by omega)]

end Holpy.C10.IntN
