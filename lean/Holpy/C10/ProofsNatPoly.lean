import Holpy.C10.Model
import Holpy.C10.ProofsPolySem
import Holpy.C10.ProofsNat
import Holpy.C10.ProofsNF
/-
C10 — the nat Conv normaliser `norm_full` and the polynomial model: the normal form has the same
polynomial as the term (values in ℤ under every valuation, then semantic canonicity).
-/
namespace Holpy.C10
open NExp Holpy.C10.Poly

/-- Value in ℤ under an integer valuation of the atoms. -/
def evalZ (ρ : Nat → Int) : NExp → Int
  | .atom i _ => ρ i
  | .num n => n
  | .add a b => evalZ ρ a + evalZ ρ b
  | .mul a b => evalZ ρ a * evalZ ρ b
  | .suc a => evalZ ρ a + 1

theorem coeffForm_soundZ (ρ : Nat → Int) (t : NExp) :
    evalZ ρ (coeffForm t).1 * ((coeffForm t).2 : Int) = evalZ ρ t := by
  unfold coeffForm
  split <;> simp [evalZ]

theorem fromCoeff_soundZ (ρ : Nat → Int) (x : NExp) (c : Nat) :
    evalZ ρ (fromCoeff x c) = evalZ ρ x * (c : Int) := by
  unfold fromCoeff
  split
  · next h => simp [h]
  · split
    · next h => simp [h, evalZ]
    · simp [evalZ]

theorem combineMonomial_soundZ (ρ : Nat → Int) (m1 m2 : NExp) :
    evalZ ρ (combineMonomial m1 m2) = evalZ ρ m1 + evalZ ρ m2 := by
  unfold combineMonomial
  have h1 := coeffForm_soundZ ρ m1
  have h2 := coeffForm_soundZ ρ m2
  generalize coeffForm m1 = p1 at *
  generalize coeffForm m2 = p2 at *
  obtain ⟨b1, c1⟩ := p1
  obtain ⟨b2, c2⟩ := p2
  simp only at h1 h2 ⊢
  split
  · next h => subst h; rw [fromCoeff_soundZ, ← h1, ← h2]; push_cast; ring
  · simp [evalZ]

theorem insM_soundZ (one : Nat) (ρ : Nat → Int) (p m : NExp) :
    evalZ ρ (insM one p m) = evalZ ρ p + evalZ ρ m := by
  fun_induction insM one p m <;> simp_all [evalZ, combineMonomial_soundZ] <;> ring

theorem addP_soundZ (one : Nat) (ρ : Nat → Int) (p q : NExp) :
    evalZ ρ (addP one p q) = evalZ ρ p + evalZ ρ q := by
  fun_induction addP one p q <;> simp_all [evalZ, insM_soundZ] <;> ring

theorem insA_soundZ (one : Nat) (ρ : Nat → Int) (p a : NExp) :
    evalZ ρ (insA one p a) = evalZ ρ p * evalZ ρ a := by
  fun_induction insA one p a <;> simp_all [evalZ] <;> ring

theorem mulM_soundZ (one : Nat) (ρ : Nat → Int) (p q : NExp) :
    evalZ ρ (mulM one p q) = evalZ ρ p * evalZ ρ q := by
  fun_induction mulM one p q <;> simp_all [evalZ, insA_soundZ] <;> ring

theorem polyMono_soundZ (one : Nat) (ρ : Nat → Int) (p m : NExp) :
    evalZ ρ (polyMono one p m) = evalZ ρ p * evalZ ρ m := by
  fun_induction polyMono one p m <;> simp_all [evalZ, addP_soundZ, mulM_soundZ] <;> ring

theorem mulP_soundZ (one : Nat) (ρ : Nat → Int) (p q : NExp) :
    evalZ ρ (mulP one p q) = evalZ ρ p * evalZ ρ q := by
  fun_induction mulP one p q <;> simp_all [evalZ, addP_soundZ, polyMono_soundZ] <;> ring

theorem norm_soundZ (one : Nat) (ρ : Nat → Int) (t : NExp) : evalZ ρ (norm one t) = evalZ ρ t := by
  induction t with
  | atom i s => rfl
  | num n => rfl
  | add a b iha ihb => simp [norm, evalZ, addP_soundZ, iha, ihb]
  | mul a b iha ihb => simp [norm, evalZ, mulP_soundZ, iha, ihb]
  | suc a ih => simp [norm, evalZ, addP_soundZ, ih]

/-- A nat expression of the fragment {atoms, numerals, Suc, +, *} as a polynomial expression
(atoms by their rank; `Suc a` is `a + 1`). -/
def emb : NExp → PExp Int
  | .atom i _ => .atom i
  | .num n => .num n
  | .add a b => .add (emb a) (emb b)
  | .mul a b => .mul (emb a) (emb b)
  | .suc a => .add (emb a) (.num 1)

theorem evalE_emb (ρ : Nat → Int) (t : NExp) : evalE ρ (emb t) = evalZ ρ t := by
  induction t with
  | atom i s => rfl
  | num n => rfl
  | add a b iha ihb => simp [emb, evalE, evalZ, iha, ihb]
  | mul a b iha ihb => simp [emb, evalE, evalZ, iha, ihb]
  | suc a ih => simp [emb, evalE, evalZ, ih]

theorem toPoly_emb_norm (one : Nat) (t : NExp) : toPoly (emb (norm one t)) = toPoly (emb t) :=
  toPoly_eq_of_eval_eq _ _ (fun ρ => by rw [evalE_emb, evalE_emb, norm_soundZ])

end Holpy.C10
