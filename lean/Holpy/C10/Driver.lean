import Holpy.Common.Sexp
import Holpy.C10.Model
import Holpy.C10.PolyModel
import Holpy.C10.IntModel
import Holpy.C10.HypModel
/-
Line protocol of the C10 model (one s-expression in, one out):
  (acnorm TREE)            -> TREE                       conj_norm / disj_norm on member ids
  (conv FUEL CE TERM)      -> (ok LHS RHS) | (err KIND)  conversion combinators
  (convh FUEL CEH TERM)    -> (ok (HYP ...) LHS RHS) | (err KIND)   the same with hypotheses (HypModel.lean);
                              CEH = CE with leaves (rewrc (HYP ...) (ASM-PAT ...) L R (((HYP ...) PROP) ...))
  (natnorm ONE NEXP)       -> NEXP                       data/nat.py norm_full (see Model.lean)
  (intsimp IEXP) / (intnorm IEXP) -> IEXP               simp_full / int_norm_conv (IntModel.lean)
  (isnfishape IEXP)        -> T | F                      the normal-form shape of simp_full (isNFI)
  (fragi IEXP IEXP)        -> T | F                      the hypothesis of int_norm_canonical (fragI)
  (intnormeq IEXP IEXP)    -> IEXP                       int_norm_eq: left side of the resulting `lhs = 0`
  (topoly EXPR)            -> ((((atom power) ...) num den) ...)   convert_to_poly (PolyModel.lean)
  (frompoly EXPR)          -> EXPR                       from_poly (convert_to_poly e)
  (bodycmp ONE NEXP NEXP)  -> lt | eq | gt               fast_compare on monomial bodies / atoms
  (wfs ONE NEXP)           -> T | F                      atoms determined by their rank (hypothesis of norm_full_iff_poly)
  (isnf ONE NEXP)          -> T | F                      the normal-form predicate of norm_idem
TREE = n | (n L R);  TERM = (a n) | (c F A) | (l x BODY);  PAT = (v n) | (a n) | (c F A)
CE   = all | no | (rewr L R) | (then A B) | (else A B) | (try A) | (comb A B) | (comb1 A) | (arg A)
     | (fun A) | (arg1 A) | (binop A) | (abs A) | (sub A) | (repeat A) | (bottom A) | (top A ...)
     | (topsweep A) | (every A ...)
NEXP = (at id size fsz hgt) | (num n) | (add X Y) | (mul X Y) | (suc X)
-/
open Holpy Holpy.C10

namespace Holpy.C10.Driver

partial def treeOf : Sexp → Option (Tree Nat)
  | .list [.atom "n", l, r] => do some (.node (← treeOf l) (← treeOf r))
  | s => do some (.leaf (← s.toNat?))

partial def treeTo : Tree Nat → Sexp
  | .leaf a => Sexp.ofNat a
  | .node l r => .list [.atom "n", treeTo l, treeTo r]

partial def termOf : Sexp → Option Term
  | .list [.atom "a", n] => do some (.atom (← n.toNat?))
  | .list [.atom "c", f, a] => do some (.comb (← termOf f) (← termOf a))
  | .list [.atom "l", x, b] => do some (.abs (← x.toNat?) (← termOf b))
  | _ => none

partial def termTo : Term → Sexp
  | .atom n => .list [.atom "a", Sexp.ofNat n]
  | .comb f a => .list [.atom "c", termTo f, termTo a]
  | .abs x b => .list [.atom "l", Sexp.ofNat x, termTo b]

partial def patOf : Sexp → Option Pat
  | .list [.atom "v", n] => do some (.var (← n.toNat?))
  | .list [.atom "a", n] => do some (.atom (← n.toNat?))
  | .list [.atom "c", f, a] => do some (.comb (← patOf f) (← patOf a))
  | _ => none

def everyCE : List CE → CE
  | [] => .all
  | [c] => c
  | c :: cs => .thenC c (everyCE cs)

partial def ceOf : Sexp → Option CE
  | .atom "all" => some .all
  | .atom "no" => some .no
  | .list [.atom "rewr", l, r] => do some (.rewr (← patOf l) (← patOf r))
  | .list [.atom "then", a, b] => do some (.thenC (← ceOf a) (← ceOf b))
  | .list [.atom "else", a, b] => do some (.elseC (← ceOf a) (← ceOf b))
  | .list [.atom "try", a] => do some (.tryC (← ceOf a))
  | .list [.atom "comb", a, b] => do some (.comb (← ceOf a) (← ceOf b))
  | .list [.atom "comb1", a] => do some (.comb1 (← ceOf a))
  | .list [.atom "arg", a] => do some (.arg (← ceOf a))
  | .list [.atom "fun", a] => do some (.fn (← ceOf a))
  | .list [.atom "arg1", a] => do some (.arg1 (← ceOf a))
  | .list [.atom "binop", a] => do some (.binop (← ceOf a))
  | .list [.atom "abs", a] => do some (.absC (← ceOf a))
  | .list [.atom "sub", a] => do some (.sub (← ceOf a))
  | .list [.atom "repeat", a] => do some (.rep (← ceOf a))
  | .list [.atom "bottom", a] => do some (.bottom (← ceOf a))
  | .list [.atom "topsweep", a] => do some (.topSweep (← ceOf a))
  | .list (.atom "top" :: cs) => do
    let cs ← cs.mapM ceOf
    some (.top (everyCE (cs.map .tryC)))
  | .list (.atom "every" :: cs) => do
    let cs ← cs.mapM ceOf
    some (everyCE cs)
  | _ => none

partial def nexpOf : Sexp → Option NExp
  | .list [.atom "at", i, sz] => do some (.atom (← i.toNat?) { size := (← sz.toNat?) })
  | .list [.atom "at", i, sz, fsz, hgt] => do
    some (.atom (← i.toNat?) { size := (← sz.toNat?), fsz := (← fsz.toNat?), hgt := (← hgt.toBool?) })
  | .list [.atom "num", n] => do some (.num (← n.toNat?))
  | .list [.atom "add", a, b] => do some (.add (← nexpOf a) (← nexpOf b))
  | .list [.atom "mul", a, b] => do some (.mul (← nexpOf a) (← nexpOf b))
  | .list [.atom "suc", a] => do some (.suc (← nexpOf a))
  | _ => none

partial def nexpTo : NExp → Sexp
  | .atom i sh => .list [.atom "at", Sexp.ofNat i, Sexp.ofNat sh.size, Sexp.ofNat sh.fsz, Sexp.ofBool sh.hgt]
  | .num n => .list [.atom "num", Sexp.ofNat n]
  | .add a b => .list [.atom "add", nexpTo a, nexpTo b]
  | .mul a b => .list [.atom "mul", nexpTo a, nexpTo b]
  | .suc a => .list [.atom "suc", nexpTo a]

/-! polynomial layer: EXPR = (at i) | (num n d) | (add a b) | (mul a b) | (neg a) | (sub a b) | (pow a k) | (scale n d a) -/
open Holpy.C10.Poly in
partial def pexpOf : Sexp → Option (PExp Rat)
  | .list [.atom "at", i] => do some (.atom (← i.toNat?))
  | .list [.atom "num", n, d] => do some (.num (mkRat (← n.toInt?) (← d.toNat?)))
  | .list [.atom "add", a, b] => do some (.add (← pexpOf a) (← pexpOf b))
  | .list [.atom "mul", a, b] => do some (.mul (← pexpOf a) (← pexpOf b))
  | .list [.atom "neg", a] => do some (.neg (← pexpOf a))
  | .list [.atom "sub", a, b] => do some (.sub (← pexpOf a) (← pexpOf b))
  | .list [.atom "pow", a, k] => do some (.pow (← pexpOf a) (← k.toNat?))
  | .list [.atom "scale", n, d, a] => do some (.scale (mkRat (← n.toInt?) (← d.toNat?)) (← pexpOf a))
  | _ => none

open Holpy.C10.Poly in
partial def pexpTo : PExp Rat → Sexp
  | .atom i => .list [.atom "at", Sexp.ofNat i]
  | .num c => .list [.atom "num", Sexp.ofInt c.num, Sexp.ofNat c.den]
  | .add a b => .list [.atom "add", pexpTo a, pexpTo b]
  | .mul a b => .list [.atom "mul", pexpTo a, pexpTo b]
  | .neg a => .list [.atom "neg", pexpTo a]
  | .sub a b => .list [.atom "sub", pexpTo a, pexpTo b]
  | .pow a k => .list [.atom "pow", pexpTo a, Sexp.ofNat k]
  | .scale c a => .list [.atom "scale", Sexp.ofInt c.num, Sexp.ofNat c.den, pexpTo a]

def polyTo (p : Holpy.C10.Poly.PolyL Rat) : Sexp :=
  .list (p.map fun t => .list [.list (t.1.map fun f => .list [Sexp.ofNat f.1, Sexp.ofNat f.2]),
    Sexp.ofInt t.2.num, Sexp.ofNat t.2.den])

/-! integer normaliser: IEXP = (at i s) | (num z) | (add a b) | (sub a b) | (mul a b) | (neg a) | (pow b e) -/
open Holpy.C10.IntN in
partial def iexpOf : Sexp → Option IExp
  | .list [.atom "at", i, s] => do some (.atom (← i.toNat?) (← s.toNat?))
  | .list [.atom "num", z] => do some (.num (← z.toInt?))
  | .list [.atom "add", a, b] => do some (.add (← iexpOf a) (← iexpOf b))
  | .list [.atom "sub", a, b] => do some (.sub (← iexpOf a) (← iexpOf b))
  | .list [.atom "mul", a, b] => do some (.mul (← iexpOf a) (← iexpOf b))
  | .list [.atom "neg", a] => do some (.neg (← iexpOf a))
  | .list [.atom "pow", b, e] => do some (.pow (← iexpOf b) (← e.toNat?))
  | _ => none

open Holpy.C10.IntN in
partial def iexpTo : IExp → Sexp
  | .atom i s => .list [.atom "at", Sexp.ofNat i, Sexp.ofNat s]
  | .num z => .list [.atom "num", Sexp.ofInt z]
  | .add a b => .list [.atom "add", iexpTo a, iexpTo b]
  | .sub a b => .list [.atom "sub", iexpTo a, iexpTo b]
  | .mul a b => .list [.atom "mul", iexpTo a, iexpTo b]
  | .neg a => .list [.atom "neg", iexpTo a]
  | .pow b e => .list [.atom "pow", iexpTo b, Sexp.ofNat e]

/-! combinators with hypotheses -/
open Holpy.C10.H in
partial def cehOf : Sexp → Option CEH
  | .atom "all" => some .all
  | .atom "no" => some .no
  | .list [.atom "rewrc", .list hs, .list asms, l, r, .list conds] => do
    let hs ← hs.mapM termOf
    let asms ← asms.mapM patOf
    let conds ← conds.mapM fun c =>
      match c with
      | .list [.list ch, p] => do some ({ hyps := (← ch.mapM termOf), prop := (← termOf p) } : Cond)
      | _ => none
    some (.rewr { hyps := hs, asms := asms, lhs := (← patOf l), rhs := (← patOf r) } conds)
  | .list [.atom "then", a, b] => do some (.thenC (← cehOf a) (← cehOf b))
  | .list [.atom "else", a, b] => do some (.elseC (← cehOf a) (← cehOf b))
  | .list [.atom "try", a] => do some (.tryC (← cehOf a))
  | .list [.atom "comb", a, b] => do some (.comb (← cehOf a) (← cehOf b))
  | .list [.atom "comb1", a] => do some (.comb1 (← cehOf a))
  | .list [.atom "arg", a] => do some (.arg (← cehOf a))
  | .list [.atom "fun", a] => do some (.fn (← cehOf a))
  | .list [.atom "arg1", a] => do some (.arg1 (← cehOf a))
  | .list [.atom "binop", a] => do some (.binop (← cehOf a))
  | .list [.atom "abs", a] => do some (.absC (← cehOf a))
  | .list [.atom "sub", a] => do some (.sub (← cehOf a))
  | .list [.atom "repeat", a] => do some (.rep (← cehOf a))
  | .list [.atom "bottom", a] => do some (.bottom (← cehOf a))
  | .list [.atom "topsweep", a] => do some (.topSweep (← cehOf a))
  | .list (.atom "top" :: cs) => do
    let cs ← cs.mapM cehOf
    some (.top (every (cs.map .tryC)))
  | .list (.atom "every" :: cs) => do
    let cs ← cs.mapM cehOf
    some (every cs)
  | _ => none
where
  every : List CEH → CEH
    | [] => .all
    | [c] => c
    | c :: cs => .thenC c (every cs)

def errTo : Err → String
  | .conv => "conv"
  | .invalid => "invalid"
  | .assertion => "assertion"
  | .fuel => "fuel"

def handle (line : String) : String :=
  match Sexp.parse line with
  | some (.list [.atom "acnorm", t]) =>
    match treeOf t with
    | some t => toString (treeTo (acNorm (fun a b => compare a b) t))
    | none => "bad-op"
  | some (.list [.atom "conv", fuel, ce, t]) =>
    match fuel.toNat?, ceOf ce, termOf t with
    | some n, some ce, some t =>
      match interp n ce t with
      | .ok (l, r) => toString (Sexp.list [.atom "ok", termTo l, termTo r])
      | .error e => toString (Sexp.list [.atom "err", .atom (errTo e)])
    | _, _, _ => "bad-op"
  | some (.list [.atom "convh", fuel, ce, t]) =>
    match fuel.toNat?, cehOf ce, termOf t with
    | some n, some ce, some t =>
      match Holpy.C10.H.interpH n ce t with
      | .ok s => toString (Sexp.list [.atom "ok", .list (s.hyps.map termTo), termTo s.lhs, termTo s.rhs])
      | .error e => toString (Sexp.list [.atom "err", .atom (errTo e)])
    | _, _, _ => "bad-op"
  | some (.list [.atom "intsimp", e]) =>
    match iexpOf e with
    | some e => toString (iexpTo (Holpy.C10.IntN.simpFull e))
    | none => "bad-op"
  | some (.list [.atom "isnfi", e]) =>
    match iexpOf e with
    | some e => toString (Sexp.list [Sexp.ofBool (Holpy.C10.IntN.atomicPowers e),
        Sexp.ofBool (Holpy.C10.IntN.isNFI (Holpy.C10.IntN.simpFull e))])
    | none => "bad-op"
  | some (.list [.atom "fragi", a, b]) =>
    match iexpOf a, iexpOf b with
    | some a, some b => toString (Sexp.ofBool (Holpy.C10.IntN.fragI a b))
    | _, _ => "bad-op"
  | some (.list [.atom "isnfishape", e]) =>
    match iexpOf e with
    | some e => toString (Sexp.ofBool (Holpy.C10.IntN.isNFI e))
    | none => "bad-op"
  | some (.list [.atom "intnorm", e]) =>
    match iexpOf e with
    | some e => toString (iexpTo (Holpy.C10.IntN.intNorm e))
    | none => "bad-op"
  | some (.list [.atom "intnormeq", a, b]) =>
    match iexpOf a, iexpOf b with
    | some a, some b => toString (iexpTo (Holpy.C10.IntN.intNormEq a b))
    | _, _ => "bad-op"
  | some (.list [.atom "topoly", e]) =>
    match pexpOf e with
    | some e => toString (polyTo (Holpy.C10.Poly.toPoly e))
    | none => "bad-op"
  | some (.list [.atom "frompoly", e]) =>
    match pexpOf e with
    | some e => toString (pexpTo (Holpy.C10.Poly.fromPoly (Holpy.C10.Poly.toPoly e)))
    | none => "bad-op"
  | some (.list [.atom "bodycmp", one, a, b]) =>
    match one.toNat?, nexpOf a, nexpOf b with
    | some o, some a, some b =>
      match fastCmp o a b with
      | .lt => "lt"
      | .eq => "eq"
      | .gt => "gt"
    | _, _, _ => "bad-op"
  | some (.list [.atom "wfs", one, t]) =>
    match one.toNat?, nexpOf t with
    | some o, some t => toString (Sexp.ofBool (atomsByRank o t))
    | _, _ => "bad-op"
  | some (.list [.atom "isnf", one, t]) =>
    match one.toNat?, nexpOf t with
    | some o, some t => toString (Sexp.ofBool (isNF o t))
    | _, _ => "bad-op"
  | some (.list [.atom "natnorm", one, t]) =>
    match one.toNat?, nexpOf t with
    | some o, some t => toString (nexpTo (norm o t))
    | _, _ => "bad-op"
  | _ => "bad-op"

end Holpy.C10.Driver

def main : IO Unit := Holpy.lineLoop Holpy.C10.Driver.handle
