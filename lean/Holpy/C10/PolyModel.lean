/-
C10 — executable model of the polynomial layer `util/poly.py` and of `convert_to_poly`
(`data/nat.py`, `data/integer.py`, `data/real.py`) on the polynomial fragment.
Import-free (linked into the `c10_model` driver).

* `collect` is `collect_pairs`: group by first component adding the second components, drop the
  groups whose sum is 0, sort by the comparison.  Python groups with a dict (key equality) and sorts
  afterwards with `cmp_to_key`; here the pairs are inserted into a list kept sorted and a pair whose
  key compares `eq` is added to the existing entry -- the same result whenever `eq` means equality
  (the comparisons used are strict total orders: `monoCmp_total`, and C03 for `fast_compare`).
* A monomial's factors are `collect compare` of (atom, power) pairs (atoms are ranks under
  `fast_compare`, handed over by the harness); `Monomial.__mul__` concatenates and collects.
* `Polynomial(monomials)` is `collect monoCmp` of (factors, coeff) pairs, `monoCmp` being
  `compare_fst` on factor tuples: length first, then the first position where the factors differ --
  bases compared, powers if the bases agree.
* `__add__` concatenates and collects, `__mul__` multiplies every pair of monomials and collects,
  `scale`, `__neg__`, `__sub__`, `__pow__` (`p ^ 0 = 1`, also for the zero polynomial; otherwise
  repeated `*=` from the left) as in the Python.
The coefficient type is a parameter (the driver uses `Rat`; nat and int polynomials have integer
coefficients).
-/
namespace Holpy.C10.Poly

/-- Insert `(k, v)` into a list sorted by `cmp`; equal key: add. -/
def insertAdd {κ V : Type} [Add V] (cmp : κ → κ → Ordering) (k : κ) (v : V) :
    List (κ × V) → List (κ × V)
  | [] => [(k, v)]
  | (k', v') :: l =>
    match cmp k k' with
    | .lt => (k, v) :: (k', v') :: l
    | .eq => (k', v' + v) :: l
    | .gt => (k', v') :: insertAdd cmp k v l

/-- All pairs merged into one sorted list (sums not yet filtered). -/
def merged {κ V : Type} [Add V] (cmp : κ → κ → Ordering) (l : List (κ × V)) : List (κ × V) :=
  l.foldr (fun p acc => insertAdd cmp p.1 p.2 acc) []

/-- `collect_pairs`. -/
def collect {κ V : Type} [Add V] [Zero V] [DecidableEq V] (cmp : κ → κ → Ordering)
    (l : List (κ × V)) : List (κ × V) :=
  (merged cmp l).filter (fun p => p.2 ≠ 0)

/-- Factors of a monomial: (atom, power), sorted by atom, powers ≥ 1. -/
abbrev Mono := List (Nat × Nat)

def natCmp (a b : Nat) : Ordering := compare a b

def pairCmp (a b : Nat × Nat) : Ordering := (compare a.1 b.1).then (compare a.2 b.2)

def lexCmp : Mono → Mono → Ordering
  | [], [] => .eq
  | [], _ :: _ => .lt
  | _ :: _, [] => .gt
  | a :: l, b :: r => (pairCmp a b).then (lexCmp l r)

/-- `compare_fst` on factor tuples. -/
def monoCmp (m1 m2 : Mono) : Ordering := (compare m1.length m2.length).then (lexCmp m1 m2)

/-- `Monomial.__mul__` on the factors. -/
def monoMul (m1 m2 : Mono) : Mono := collect natCmp (m1 ++ m2)

section
variable {α : Type} [Add α] [Mul α] [Neg α] [Zero α] [One α] [DecidableEq α]

abbrev PolyL (α : Type) := List (Mono × α)

/-- `Polynomial(monomials)`. -/
def mkPoly (l : PolyL α) : PolyL α := collect monoCmp l

def padd (p q : PolyL α) : PolyL α := mkPoly (p ++ q)

/-- All products of a term of `p` with a term of `q` (`m1 * m2 for m1 in p for m2 in q`). -/
def prodTerms (p q : PolyL α) : PolyL α :=
  p.flatMap (fun t1 => q.map (fun t2 => (monoMul t1.1 t2.1, t1.2 * t2.2)))

def pmul (p q : PolyL α) : PolyL α := mkPoly (prodTerms p q)

/-- `scale(c)` (for `c = 1` Python returns the monomials unchanged; `1 * x = x`). -/
def pscale (c : α) (p : PolyL α) : PolyL α := mkPoly (p.map (fun t => (t.1, c * t.2)))

def pneg (p : PolyL α) : PolyL α := pscale (-1) p

def psub (p q : PolyL α) : PolyL α := padd p (pneg q)

def pconst (c : α) : PolyL α := mkPoly [([], c)]

def psingle (i : Nat) : PolyL α := mkPoly [(collect natCmp [(i, 1)], 1)]

/-- `res = self; for i in range(n - 1): res *= self`. -/
def powLoop (p : PolyL α) : Nat → PolyL α → PolyL α
  | 0, res => res
  | n + 1, res => powLoop p n (pmul res p)

def ppow (p : PolyL α) : Nat → PolyL α
  | 0 => pconst 1
  | n + 1 => powLoop p n p

/-- The polynomial fragment of the expressions `convert_to_poly` is applied to. -/
inductive PExp (α : Type) where
  | atom (i : Nat)
  | num (c : α)
  | add (a b : PExp α)
  | mul (a b : PExp α)
  | neg (a : PExp α)
  | sub (a b : PExp α)
  | pow (a : PExp α) (k : Nat)
  | scale (c : α) (a : PExp α)      -- real: division by a constant, `scale(1 / c)`
  deriving Repr, Inhabited

/-- `convert_to_poly`. -/
def toPoly : PExp α → PolyL α
  | .atom i => psingle i
  | .num c => pconst c
  | .add a b => padd (toPoly a) (toPoly b)
  | .mul a b => pmul (toPoly a) (toPoly b)
  | .neg a => pneg (toPoly a)
  | .sub a b => psub (toPoly a) (toPoly b)
  | .pow a k => ppow (toPoly a) k
  | .scale c a => pscale c (toPoly a)

/-- `from_mono` (real / int): coefficient first unless 1, `base` or `base ^ power`, left-nested product. -/
def fromMono (t : Mono × α) : PExp α :=
  let fs : List (PExp α) := t.1.map (fun f => if f.2 = 1 then .atom f.1 else .pow (.atom f.1) f.2)
  let fs := if t.2 = 1 then fs else .num t.2 :: fs
  match fs with
  | [] => .num 1
  | f :: rest => rest.foldl .mul f

/-- `from_poly`: left-nested sum, `0` for the empty polynomial. -/
def fromPoly (p : PolyL α) : PExp α :=
  match p.map fromMono with
  | [] => .num 0
  | f :: rest => rest.foldl .add f

end

end Holpy.C10.Poly
