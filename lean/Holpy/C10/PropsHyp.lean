import Holpy.C10.HypModel
import Holpy.C10.ProofsHyp
/-
C10 — property theorems about the conversion combinators WITH HYPOTHESES (`logic/conv.py`;
model `HypModel.lean`): "returns an equation whose left side is exactly t and whose hypotheses come
only from the supplied conditions".
-/
namespace Holpy.C10
open Holpy.C10.H

/-- Every combinator expression over (conditional) rewrite rules returns, when it returns at all, a
sequent whose left side is exactly the given term and whose hypotheses all come from what the caller
supplied: the hypotheses of the rewrite theorems and of the condition proof terms (`supplied ce`). -/
theorem conv_hyps_supplied (fuel : Nat) (ce : CEH) (t : Term) (s : Seq)
    (h : interpH fuel ce t = .ok s) : s.lhs = t ∧ ∀ g ∈ s.hyps, g ∈ supplied ce :=
  interpH_ok fuel ce t s h

/- rule 10 ?0 ?1 = ?0 under the assumption 11 ?0 ?1, condition `20 ⊢ 11 5 6`, inside `7 (10 5 6)`:
the result `20 ⊢ 7 (10 5 6) = 7 5` carries the hypothesis of the condition -/
example : interpH 10
    (.top (.tryC (.rewr ⟨[], [.comb (.comb (.atom 11) (.var 0)) (.var 1)],
        .comb (.comb (.atom 10) (.var 0)) (.var 1), .var 0⟩
      [⟨[.atom 20], .comb (.comb (.atom 11) (.atom 5)) (.atom 6)⟩])))
    (.comb (.atom 7) (.comb (.comb (.atom 10) (.atom 5)) (.atom 6)))
    = .ok ⟨[.atom 20], .comb (.atom 7) (.comb (.comb (.atom 10) (.atom 5)) (.atom 6)),
        .comb (.atom 7) (.atom 5)⟩ := by
  rfl

/-- The same, combinator by combinator, for ARBITRARY argument conversions that keep to a set `S` of
supplied hypotheses (so it covers conversions that are not rewrite rules: normalisers with
conditions, `auto_conv`). -/
theorem conv_hyps_combinators {S : List Term} {c1 c2 : ConvH} (h1 : HypOK S c1) (h2 : HypOK S c2)
    (n : Nat) :
    HypOK S (thenConvH c1 c2) ∧ HypOK S (elseConvH c1 c2) ∧ HypOK S (tryConvH c1) ∧
    HypOK S (combinationConvH c1 c2) ∧ HypOK S (argConvH c1) ∧ HypOK S (funConvH c1) ∧
    HypOK S (arg1ConvH c1) ∧ HypOK S (binopConvH c1) ∧ HypOK S (absConvH c1) ∧ HypOK S (subConvH c1) ∧
    HypOK S (repeatConvH c1 n) ∧ HypOK S (bottomConvH c1 n) ∧ HypOK S (topConvH c1 n) ∧
    HypOK S (topSweepConvH c1) :=
  ⟨thenConvH_ok h1 h2, elseConvH_ok h1 h2, tryConvH_ok h1, combinationConvH_ok h1 h2, argConvH_ok h1,
   funConvH_ok h1, arg1ConvH_ok h1, binopConvH_ok h1, absConvH_ok h1, subConvH_ok h1,
   repeatConvH_ok h1 n, bottomConvH_ok h1 n, topConvH_ok h1 n, topSweepConvH_ok h1⟩

example : HypOK [.atom 20] allConvH ∧ HypOK [.atom 20] (rewrConvH ⟨[.atom 20], [], .atom 1, .atom 2⟩ []) :=
  ⟨allConvH_ok _, (rewrConvH_ok _ _).mono (by simp [condHyps])⟩

/-- A conditional rewrite returns exactly the hypotheses of its theorem and of its conditions, and
only when as many conditions were supplied as the theorem has assumptions. -/
theorem rewr_conv_hyps (r : Rule) (conds : List Cond) (t : Term) (s : Seq)
    (h : rewrConvH r conds t = .ok s) :
    s.lhs = t ∧ s.hyps = r.hyps ++ condHyps conds ∧ r.asms.length = conds.length := by
  unfold rewrConvH at h
  split at h
  · cases h
  · next hlen =>
    split at h
    · cases h
    · split at h
      · cases h
      · split at h
        · split at h
          · next hl => cases h; exact ⟨by simpa using hl, rfl, by simpa using hlen⟩
          · cases h
        · cases h

/- the condition is missing: ConvException, whatever the term -/
example : rewrConvH ⟨[], [.var 0], .var 0, .atom 1⟩ [] (.atom 5) = .error .conv := by rfl

/-- `abs_conv` never returns a sequent with a hypothesis in which the bound variable occurs free (the
side condition of the kernel's ABSTRACTION rule: such a body result makes `abs_conv` fail). -/
theorem abs_conv_hyps_closed (cv : ConvH) (x : Nat) (b : Term) (s : Seq)
    (h : absConvH cv (.abs x b) = .ok s) : ∀ g ∈ s.hyps, occursVar x g = false :=
  absConvH_closed h

/- the condition `11 x` mentions the bound variable `x = 3`: `abs_conv` fails with ConvException;
with a condition about another variable it goes under the binder and keeps the hypothesis -/
example : absConvH (rewrConvH ⟨[], [.comb (.atom 11) (.var 0)], .comb (.atom 10) (.var 0), .var 0⟩
      [⟨[.comb (.atom 11) (.atom 3)], .comb (.atom 11) (.atom 3)⟩])
    (.abs 3 (.comb (.atom 10) (.atom 3))) = .error .conv := by rfl
example : absConvH (rewrConvH ⟨[], [.comb (.atom 11) (.var 0)], .comb (.atom 10) (.var 0), .var 0⟩
      [⟨[.comb (.atom 11) (.atom 4)], .comb (.atom 11) (.atom 4)⟩])
    (.abs 3 (.comb (.atom 10) (.atom 4)))
    = .ok ⟨[.comb (.atom 11) (.atom 4)], .abs 3 (.comb (.atom 10) (.atom 4)), .abs 3 (.atom 4)⟩ := by rfl

/-- The hypothesis on the argument conversions is needed: `ProofTerm.transitive` returns its second
argument unchecked when the first is reflexive, so a sub-conversion that brings a hypothesis of its
own makes `then_conv` return it. -/
theorem conv_hyps_needs_hypothesis :
    ∃ c : ConvH, ¬ HypOK [] (thenConvH allConvH c) := by
  refine ⟨fun t => .ok ⟨[.atom 9], t, .atom 2⟩, ?_⟩
  intro h
  have := (h (.atom 0) ⟨[.atom 9], .atom 0, .atom 2⟩ (by rfl)).2 (.atom 9) (by simp)
  cases this

end Holpy.C10
