import Holpy.C10.Model
/-
C10 — the model's `fast_compare` on monomial bodies is a strict total order on product trees:
comparing the other way round gives the swapped answer (all terms), `eq` only on identical product
trees, and `lt` is transitive on product trees.
-/
namespace Holpy.C10
open NExp

theorem ordThen_swap (a b : Ordering) : (ordThen a b).swap = ordThen a.swap b.swap := by
  cases a <;> cases b <;> rfl

theorem natCompare_swap (a b : Nat) : (compare a b).swap = compare b a := by
  rcases Nat.lt_trichotomy a b with h | h | h
  · rw [Nat.compare_eq_lt.2 h, Nat.compare_eq_gt.2 h]; rfl
  · subst h; simp
  · rw [Nat.compare_eq_gt.2 h, Nat.compare_eq_lt.2 h]; rfl

theorem ordThen_eq_eq {a b : Ordering} : ordThen a b = .eq ↔ a = .eq ∧ b = .eq := by
  cases a <;> cases b <;> simp [ordThen]

theorem ordThen_eq_lt {a b : Ordering} : ordThen a b = .lt ↔ a = .lt ∨ (a = .eq ∧ b = .lt) := by
  cases a <;> cases b <;> simp [ordThen]

theorem leafTie_swap (one : Nat) (a b : NExp) : (leafTie one a b).swap = leafTie one b a := by
  cases a <;> cases b <;> simp only [leafTie, natCompare_swap]
  all_goals (try rfl)
  all_goals (split <;> rfl)

theorem fastCmp_swap (one : Nat) : ∀ a b : NExp, (fastCmp one a b).swap = fastCmp one b a := by
  intro a
  induction a with
  | mul x y ihx ihy =>
    intro b
    cases b with
    | mul x' y' => simp only [fastCmp, ordThen_swap, natCompare_swap, ihx, ihy]
    | _ => simp only [fastCmp, ordThen_swap, natCompare_swap, leafTie_swap]
  | _ => intro b; cases b <;> simp only [fastCmp, ordThen_swap, natCompare_swap, leafTie_swap]

theorem fastCmp_gt_iff (one : Nat) (a b : NExp) : fastCmp one a b = .gt ↔ fastCmp one b a = .lt := by
  rw [← fastCmp_swap one a b]; cases fastCmp one a b <;> simp [Ordering.swap]

theorem fastCmp_lt_iff (one : Nat) (a b : NExp) : fastCmp one a b = .lt ↔ fastCmp one b a = .gt := by
  rw [← fastCmp_swap one a b]; cases fastCmp one a b <;> simp [Ordering.swap]

theorem fastCmp_eq_symm (one : Nat) (a b : NExp) : fastCmp one a b = .eq ↔ fastCmp one b a = .eq := by
  rw [← fastCmp_swap one a b]; cases fastCmp one a b <;> simp [Ordering.swap]

/-- product trees: atoms, numerals, products of product trees -/
def isTree : NExp → Bool
  | .atom _ _ => true
  | .num _ => true
  | .mul a b => isTree a && isTree b
  | _ => false

theorem shape_ext {s s' : Shape} (h1 : s.size = s'.size) (h2 : s.fsz = s'.fsz) (h3 : s.hgt = s'.hgt) : s = s' := by
  cases s; cases s'; simp_all

/-- what is compared after the three numeric keys -/
def inner (one : Nat) : NExp → NExp → Ordering
  | .mul x y, .mul x' y' => ordThen (fastCmp one x x') (fastCmp one y y')
  | a, b => leafTie one a b

/-- `fastCmp` is the lexicographic comparison of (size, function-part size, class, inner). -/
theorem fastCmp_lex (one : Nat) (a b : NExp) :
    fastCmp one a b = ordThen (compare a.size b.size)
      (ordThen (compare (fsize a) (fsize b)) (ordThen (compare (cls a) (cls b)) (inner one a b))) := by
  cases a <;> cases b <;> simp only [fastCmp, inner, fsize, cls]
  -- the product / product case
  rename_i x y x' y'
  rcases Nat.lt_trichotomy x.size x'.size with h | h | h
  · simp [Nat.compare_eq_lt.2 h, Nat.compare_eq_lt.2 (show x.size + 2 < x'.size + 2 by omega), ordThen]
  · simp [h, ordThen]
  · simp [Nat.compare_eq_gt.2 h, Nat.compare_eq_gt.2 (show x'.size + 2 < x.size + 2 by omega), ordThen]

theorem fastCmp_lt_char (one : Nat) (a b : NExp) : fastCmp one a b = .lt ↔
    (a.size < b.size ∨ (a.size = b.size ∧ (fsize a < fsize b ∨ (fsize a = fsize b ∧
      (cls a < cls b ∨ (cls a = cls b ∧ inner one a b = .lt)))))) := by
  rw [fastCmp_lex]
  simp only [ordThen_eq_lt, Nat.compare_eq_lt, Nat.compare_eq_eq]

theorem fastCmp_eq_char (one : Nat) (a b : NExp) : fastCmp one a b = .eq ↔
    (a.size = b.size ∧ fsize a = fsize b ∧ cls a = cls b ∧ inner one a b = .eq) := by
  rw [fastCmp_lex]
  simp only [ordThen_eq_eq, Nat.compare_eq_eq]

/-- `fast_compare` answers `eq` only on identical product trees. -/
theorem fastCmp_eq (one : Nat) : ∀ a b : NExp, isTree a = true → isTree b = true →
    fastCmp one a b = .eq → a = b := by
  intro a
  induction a with
  | mul x y ihx ihy =>
    intro b ha hb h
    simp only [isTree, Bool.and_eq_true] at ha
    obtain ⟨_, _, hc, hi⟩ := (fastCmp_eq_char one _ _).1 h
    cases b with
    | mul x' y' =>
      simp only [isTree, Bool.and_eq_true] at hb
      simp only [inner, ordThen_eq_eq] at hi
      rw [ihx x' ha.1 hb.1 hi.1, ihy y' ha.2 hb.2 hi.2]
    | atom i s => simp only [cls] at hc; split at hc <;> omega
    | num n => simp [cls] at hc
    | add u v => simp [isTree] at hb
    | suc u => simp [isTree] at hb
  | atom i s =>
    intro b _ hb h
    obtain ⟨hs, hf, hc, hi⟩ := (fastCmp_eq_char one _ _).1 h
    cases b with
    | mul x y => simp only [cls] at hc; split at hc <;> omega
    | atom j s' =>
      simp only [inner, leafTie, Nat.compare_eq_eq] at hi
      simp only [NExp.size] at hs
      simp only [fsize] at hf
      have : s.hgt = s'.hgt := by
        simp only [cls] at hc
        cases hx : s.hgt <;> cases hy : s'.hgt <;> simp_all
      rw [hi, shape_ext hs hf this]
    | num n => simp only [inner, leafTie] at hi; split at hi <;> cases hi
    | add u v => simp [isTree] at hb
    | suc u => simp [isTree] at hb
  | num n =>
    intro b _ hb h
    obtain ⟨_, _, hc, hi⟩ := (fastCmp_eq_char one _ _).1 h
    cases b with
    | mul x y => simp [cls] at hc
    | atom j s' => simp only [inner, leafTie] at hi; split at hi <;> cases hi
    | num m => simp only [inner, leafTie, Nat.compare_eq_eq] at hi; rw [hi]
    | add u v => simp [isTree] at hb
    | suc u => simp [isTree] at hb
  | add u v _ _ => intro b ha; simp [isTree] at ha
  | suc u _ => intro b ha; simp [isTree] at ha

/-- numeric keys of a leaf: `leafTie` is their lexicographic comparison -/
def lk1 (one : Nat) : NExp → Nat
  | .atom i _ => 2 * i + 1
  | _ => 2 * one
def lk2 : NExp → Nat
  | .num n => n
  | _ => 0

def isLeaf : NExp → Bool
  | .atom _ _ => true
  | .num _ => true
  | _ => false

theorem leafTie_lt_char (one : Nat) (a b : NExp) (ha : isLeaf a = true) (hb : isLeaf b = true) :
    leafTie one a b = .lt ↔ (lk1 one a < lk1 one b ∨ (lk1 one a = lk1 one b ∧ lk2 a < lk2 b)) := by
  cases a <;> cases b <;> simp only [isLeaf] at ha hb <;> try (cases ha) <;> try (cases hb)
  · simp only [leafTie, lk1, lk2, Nat.compare_eq_lt]; omega
  · simp only [leafTie, lk1, lk2]; split <;> simp <;> omega
  · simp only [leafTie, lk1, lk2]; split <;> simp <;> omega
  · simp only [leafTie, lk1, lk2, Nat.compare_eq_lt]
    constructor
    · intro h; exact Or.inr ⟨by simp, h⟩
    · rintro (h | ⟨_, h⟩)
      · omega
      · exact h

theorem leafTie_trans (one : Nat) (a b c : NExp) (ha : isLeaf a = true) (hb : isLeaf b = true)
    (hc : isLeaf c = true)
    (h1 : leafTie one a b = .lt) (h2 : leafTie one b c = .lt) : leafTie one a c = .lt := by
  rw [leafTie_lt_char one _ _ ha hb] at h1
  rw [leafTie_lt_char one _ _ hb hc] at h2
  rw [leafTie_lt_char one _ _ ha hc]
  omega

/-- lexicographic transitivity for three numeric keys followed by a relation that is transitive
when the keys agree -/
theorem lex_trans (s1 s2 s3 f1 f2 f3 c1 c2 c3 : Nat) (P12 P23 P13 : Prop)
    (hP : s1 = s2 → s2 = s3 → f1 = f2 → f2 = f3 → c1 = c2 → c2 = c3 → P12 → P23 → P13)
    (h1 : s1 < s2 ∨ (s1 = s2 ∧ (f1 < f2 ∨ (f1 = f2 ∧ (c1 < c2 ∨ (c1 = c2 ∧ P12))))))
    (h2 : s2 < s3 ∨ (s2 = s3 ∧ (f2 < f3 ∨ (f2 = f3 ∧ (c2 < c3 ∨ (c2 = c3 ∧ P23)))))) :
    s1 < s3 ∨ (s1 = s3 ∧ (f1 < f3 ∨ (f1 = f3 ∧ (c1 < c3 ∨ (c1 = c3 ∧ P13))))) := by
  rcases h1 with a | ⟨a1, a | ⟨a2, a | ⟨a3, a⟩⟩⟩ <;> rcases h2 with b | ⟨b1, b | ⟨b2, b | ⟨b3, b⟩⟩⟩
  all_goals first
    | exact Or.inl (by omega)
    | exact Or.inr ⟨by omega, Or.inl (by omega)⟩
    | exact Or.inr ⟨by omega, Or.inr ⟨by omega, Or.inl (by omega)⟩⟩
    | exact Or.inr ⟨by omega, Or.inr ⟨by omega, Or.inr ⟨by omega, hP a1 b1 a2 b2 a3 b3 a b⟩⟩⟩

theorem isLeaf_of_tree_nonmul {a : NExp} (ha : isTree a = true) (hna : ∀ x y, a ≠ .mul x y) :
    isLeaf a = true := by
  cases a with
  | mul x y => exact absurd rfl (hna x y)
  | atom i s => rfl
  | num n => rfl
  | add u v => simp [isTree] at ha
  | suc u => simp [isTree] at ha

theorem cls_mul_of_eq {a : NExp} (x y : NExp) (h : cls a = cls (.mul x y)) : ∃ x' y', a = .mul x' y' := by
  cases a with
  | mul x' y' => exact ⟨x', y', rfl⟩
  | atom i s => simp only [cls] at h; split at h <;> omega
  | num n => simp [cls] at h
  | add u v => simp [cls] at h
  | suc u => simp [cls] at h

theorem inner_leaf (one : Nat) {a b : NExp} (hna : ∀ x y, a ≠ .mul x y) : inner one a b = leafTie one a b := by
  cases a with
  | mul x y => exact absurd rfl (hna x y)
  | _ => cases b <;> rfl

/-- transitivity when the first term is a leaf -/
theorem leaf_case (one : Nat) (a b c : NExp) (ha : isTree a = true) (hb : isTree b = true)
    (hc : isTree c = true) (hna : ∀ x y, a ≠ .mul x y)
    (h1 : fastCmp one a b = .lt) (h2 : fastCmp one b c = .lt) : fastCmp one a c = .lt := by
  rw [fastCmp_lt_char] at h1 h2 ⊢
  refine lex_trans _ _ _ _ _ _ _ _ _ _ _ _ ?_ h1 h2
  intro _ _ _ _ k5 k6 i1 i2
  have hnb : ∀ x y, b ≠ .mul x y := by
    intro x y e; subst e
    obtain ⟨x', y', e⟩ := cls_mul_of_eq x y k5
    exact hna x' y' e
  have hnc : ∀ x y, c ≠ .mul x y := by
    intro x y e; subst e
    obtain ⟨x', y', e⟩ := cls_mul_of_eq x y k6
    exact hnb x' y' e
  rw [inner_leaf one hna] at i1 ⊢
  rw [inner_leaf one hnb] at i2
  exact leafTie_trans one a b c (isLeaf_of_tree_nonmul ha hna) (isLeaf_of_tree_nonmul hb hnb)
    (isLeaf_of_tree_nonmul hc hnc) i1 i2

/-- `lt` is transitive on product trees. -/
theorem fastCmp_trans (one : Nat) : ∀ a b c : NExp, isTree a = true → isTree b = true → isTree c = true →
    fastCmp one a b = .lt → fastCmp one b c = .lt → fastCmp one a c = .lt := by
  intro a
  induction a with
  | mul x y ihx ihy =>
    intro b c ha hb hc h1 h2
    rw [fastCmp_lt_char] at h1 h2 ⊢
    refine lex_trans _ _ _ _ _ _ _ _ _ _ _ _ ?_ h1 h2
    intro _ _ _ _ k5 k6 i1 i2
    obtain ⟨x', y', rfl⟩ := cls_mul_of_eq x y k5.symm
    obtain ⟨x'', y'', rfl⟩ := cls_mul_of_eq x' y' k6.symm
    simp only [isTree, Bool.and_eq_true] at ha hb hc
    simp only [inner, ordThen_eq_lt] at i1 i2 ⊢
    rcases i1 with l1 | ⟨e1, l1⟩ <;> rcases i2 with l2 | ⟨e2, l2⟩
    · exact Or.inl (ihx x' x'' ha.1 hb.1 hc.1 l1 l2)
    · have := fastCmp_eq one x' x'' hb.1 hc.1 e2; subst this; exact Or.inl l1
    · have := fastCmp_eq one x x' ha.1 hb.1 e1; subst this; exact Or.inl l2
    · have e := fastCmp_eq one x x' ha.1 hb.1 e1
      have e' := fastCmp_eq one x' x'' hb.1 hc.1 e2
      subst e; subst e'
      exact Or.inr ⟨e1, ihy y' y'' ha.2 hb.2 hc.2 l1 l2⟩
  | atom i s =>
    intro b c ha hb hc h1 h2
    exact leaf_case one _ b c ha hb hc (by intro x y h; cases h) h1 h2
  | num n =>
    intro b c ha hb hc h1 h2
    exact leaf_case one _ b c ha hb hc (by intro x y h; cases h) h1 h2
  | add u v _ _ => intro b c ha; simp [isTree] at ha
  | suc u _ => intro b c ha; simp [isTree] at ha

end Holpy.C10
