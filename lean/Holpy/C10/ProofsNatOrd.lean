import Holpy.C10.Model
/-
C10 — order facts about the model's `fast_compare` on monomial bodies: comparing the other way
round gives the swapped answer (all terms), and `eq` only on identical product trees.
-/
namespace Holpy.C10
open NExp

theorem ordThen_swap (a b : Ordering) : (ordThen a b).swap = ordThen a.swap b.swap := by
  cases a <;> cases b <;> rfl

theorem natCompare_swap (a b : Nat) : (compare a b).swap = compare b a := by
  rcases Nat.lt_trichotomy a b with h | h | h
  · rw [Nat.compare_eq_lt.2 h, Nat.compare_eq_gt.2 h]; rfl
  · subst h; simp
  · rw [Nat.compare_eq_gt.2 h, Nat.compare_eq_lt.2 h]; rfl

theorem ordThen_eq_eq {a b : Ordering} : ordThen a b = .eq ↔ a = .eq ∧ b = .eq := by
  cases a <;> cases b <;> simp [ordThen]

theorem leafCmp_swap (one : Nat) (a b : NExp) : (leafCmp one a b).swap = leafCmp one b a := by
  cases a <;> cases b <;> simp only [leafCmp, ordThen_swap, natCompare_swap]
  all_goals (try rfl)
  all_goals (split <;> rfl)

theorem generic_swap (one : Nat) (a b : NExp)
    (h : fastCmp one a b = if a.size ≠ b.size then compare a.size b.size else leafCmp one a b)
    (h' : fastCmp one b a = if b.size ≠ a.size then compare b.size a.size else leafCmp one b a) :
    (fastCmp one a b).swap = fastCmp one b a := by
  rw [h, h']
  by_cases hs : a.size = b.size
  · have hs' : b.size = a.size := hs.symm
    rw [if_neg (by simpa using hs), if_neg (by simpa using hs'), leafCmp_swap]
  · have hs' : ¬ b.size = a.size := fun e => hs e.symm
    rw [if_pos hs, if_pos hs', natCompare_swap]

theorem fastCmp_swap (one : Nat) : ∀ a b : NExp, (fastCmp one a b).swap = fastCmp one b a := by
  intro a
  induction a with
  | mul x y ihx ihy =>
    intro b
    cases b with
    | mul x' y' =>
      simp only [fastCmp]
      by_cases hs : (NExp.mul x y).size = (NExp.mul x' y').size
      · simp only [hs, ne_eq, not_true_eq_false, if_false, ordThen_swap, natCompare_swap, ihx, ihy]
      · have hs' : ¬ (NExp.mul x' y').size = (NExp.mul x y).size := fun h => hs h.symm
        simp only [hs, hs', ne_eq, not_false_eq_true, if_true, natCompare_swap]
    | atom i s =>
      simp only [fastCmp]
      by_cases hs : (NExp.mul x y).size = s.size
      · simp only [hs, ne_eq, not_true_eq_false, if_false, ordThen_swap, natCompare_swap]
        cases s.hgt <;> rfl
      · have hs' : ¬ s.size = (NExp.mul x y).size := fun h => hs h.symm
        simp only [hs, hs', ne_eq, not_false_eq_true, if_true, natCompare_swap]
    | num n => exact generic_swap one _ _ (by simp only [fastCmp]) (by simp only [fastCmp])
    | add u v => exact generic_swap one _ _ (by simp only [fastCmp]) (by simp only [fastCmp])
    | suc u => exact generic_swap one _ _ (by simp only [fastCmp]) (by simp only [fastCmp])
  | atom i s =>
    intro b
    cases b with
    | mul x y =>
      simp only [fastCmp]
      by_cases hs : s.size = (NExp.mul x y).size
      · simp only [hs, ne_eq, not_true_eq_false, if_false, ordThen_swap, natCompare_swap]
        cases s.hgt <;> rfl
      · have hs' : ¬ (NExp.mul x y).size = s.size := fun h => hs h.symm
        simp only [hs, hs', ne_eq, not_false_eq_true, if_true, natCompare_swap]
    | atom j s' => exact generic_swap one _ _ (by simp only [fastCmp]) (by simp only [fastCmp])
    | num n => exact generic_swap one _ _ (by simp only [fastCmp]) (by simp only [fastCmp])
    | add u v => exact generic_swap one _ _ (by simp only [fastCmp]) (by simp only [fastCmp])
    | suc u => exact generic_swap one _ _ (by simp only [fastCmp]) (by simp only [fastCmp])
  | num n =>
    intro b
    cases b <;> exact generic_swap one _ _ (by simp only [fastCmp]) (by simp only [fastCmp])
  | add u v _ _ =>
    intro b
    cases b <;> exact generic_swap one _ _ (by simp only [fastCmp]) (by simp only [fastCmp])
  | suc u _ =>
    intro b
    cases b <;> exact generic_swap one _ _ (by simp only [fastCmp]) (by simp only [fastCmp])

theorem fastCmp_gt_iff (one : Nat) (a b : NExp) : fastCmp one a b = .gt ↔ fastCmp one b a = .lt := by
  rw [← fastCmp_swap one a b]; cases fastCmp one a b <;> simp [Ordering.swap]

theorem fastCmp_lt_iff (one : Nat) (a b : NExp) : fastCmp one a b = .lt ↔ fastCmp one b a = .gt := by
  rw [← fastCmp_swap one a b]; cases fastCmp one a b <;> simp [Ordering.swap]

theorem fastCmp_eq_symm (one : Nat) (a b : NExp) : fastCmp one a b = .eq ↔ fastCmp one b a = .eq := by
  rw [← fastCmp_swap one a b]; cases fastCmp one a b <;> simp [Ordering.swap]

/-- product trees: atoms, numerals, products of product trees -/
def isTree : NExp → Bool
  | .atom _ _ => true
  | .num _ => true
  | .mul a b => isTree a && isTree b
  | _ => false

theorem shape_ext {s s' : Shape} (h1 : s.size = s'.size) (h2 : s.fsz = s'.fsz) (h3 : s.hgt = s'.hgt) : s = s' := by
  cases s; cases s'; simp_all

/-- `fast_compare` answers `eq` only on identical product trees. -/
theorem fastCmp_eq (one : Nat) : ∀ a b : NExp, isTree a = true → isTree b = true →
    fastCmp one a b = .eq → a = b := by
  intro a
  induction a with
  | mul x y ihx ihy =>
    intro b ha hb h
    simp only [isTree, Bool.and_eq_true] at ha
    cases b with
    | mul x' y' =>
      simp only [isTree, Bool.and_eq_true] at hb
      simp only [fastCmp] at h
      split at h
      · simp at h; omega
      · simp only [ordThen_eq_eq] at h
        rw [ihx x' ha.1 hb.1 h.2.1, ihy y' ha.2 hb.2 h.2.2]
    | atom i s =>
      simp only [fastCmp] at h
      split at h
      · simp at h; omega
      · simp only [ordThen_eq_eq] at h
        cases hh : s.hgt <;> simp [hh] at h
    | num n =>
      simp only [fastCmp] at h
      split at h
      · simp at h; omega
      · next hs => simp [NExp.size] at hs
    | add u v => simp [isTree] at hb
    | suc u => simp [isTree] at hb
  | atom i s =>
    intro b _ hb h
    cases b with
    | mul x y =>
      simp only [fastCmp] at h
      split at h
      · simp at h; omega
      · simp only [ordThen_eq_eq] at h
        cases hh : s.hgt <;> simp [hh] at h
    | atom j s' =>
      simp only [fastCmp] at h
      split at h
      · simp at h; omega
      · next hs =>
        simp only [leafCmp, ordThen_eq_eq, Nat.compare_eq_eq] at h
        simp only [NExp.size, ne_eq, Decidable.not_not] at hs
        obtain ⟨h1, h2, h3⟩ := h
        have : s.hgt = s'.hgt := by cases hx : s.hgt <;> cases hy : s'.hgt <;> simp_all [Bool.toNat]
        rw [h1, shape_ext hs h2 this]
    | num n =>
      simp only [fastCmp] at h
      split at h
      · simp at h; omega
      · simp only [leafCmp] at h; split at h <;> cases h
    | add u v => simp [isTree] at hb
    | suc u => simp [isTree] at hb
  | num n =>
    intro b _ hb h
    cases b with
    | mul x y =>
      simp only [fastCmp] at h
      split at h
      · simp at h; omega
      · next hs => simp [NExp.size] at hs
    | atom j s' =>
      simp only [fastCmp] at h
      split at h
      · simp at h; omega
      · simp only [leafCmp] at h; split at h <;> cases h
    | num m =>
      simp only [fastCmp] at h
      split at h
      · simp [NExp.size] at *
      · simp only [leafCmp, Nat.compare_eq_eq] at h; rw [h]
    | add u v => simp [isTree] at hb
    | suc u => simp [isTree] at hb
  | add u v _ _ => intro b ha; simp [isTree] at ha
  | suc u _ => intro b ha; simp [isTree] at ha

end Holpy.C10
