import Holpy.C10.Model
/-
C10 — normal forms of the nat normaliser are fixed points (helper lemmas for `norm_idem_partial`).
-/
namespace Holpy.C10
open NExp

theorem isBody_cases {one : Nat} {b : NExp} (h : isBody one b = true) :
    (∃ i s, b = .atom i s) ∨ (∃ b1 i s, b = .mul b1 (.atom i s) ∧ isBody one b1 = true ∧
      compareAtom one (lastFactor b1) (.atom i s) ≠ .gt) := by
  cases b with
  | atom i s => exact Or.inl ⟨i, s, rfl⟩
  | num n => simp [isBody] at h
  | add a b => simp [isBody] at h
  | suc a => simp [isBody] at h
  | mul b1 a =>
    cases a with
    | atom i s =>
      simp [isBody, isAtomE] at h
      exact Or.inr ⟨b1, i, s, rfl, h.1, h.2⟩
    | num n => simp [isBody, isAtomE] at h
    | add a b => simp [isBody, isAtomE] at h
    | suc a => simp [isBody, isAtomE] at h
    | mul a b => simp [isBody, isAtomE] at h

theorem compareAtom_atom_num (one i : Nat) (s : Shape) (n : Nat) : compareAtom one (.atom i s) (.num n) = .lt := by
  simp [compareAtom, NExp.isNum]

/-- Inserting an atom that is not smaller than the last factor leaves a body as it is. -/
theorem insA_body_atom {one : Nat} {b : NExp} (hb : isBody one b = true) (i : Nat) (s : Shape)
    (hc : compareAtom one (lastFactor b) (.atom i s) ≠ .gt) :
    insA one b (.atom i s) = .mul b (.atom i s) := by
  rcases isBody_cases hb with ⟨j, sj, rfl⟩ | ⟨b1, j, sj, rfl, _, _⟩
  · simp only [lastFactor] at hc
    simp only [insA]
    cases h : compareAtom one (.atom j sj) (.atom i s) with
    | lt => simp
    | eq => simp
    | gt => exact absurd h hc
  · simp only [lastFactor] at hc
    simp only [insA]
    cases h : compareAtom one (.atom j sj) (.atom i s) with
    | lt => simp
    | eq => simp
    | gt => exact absurd h hc

theorem insA_body_num {one : Nat} {b : NExp} (hb : isBody one b = true) (c : Nat) (hc : 2 ≤ c) :
    insA one b (.num c) = .mul b (.num c) := by
  have h0 : c ≠ 0 := by omega
  have h1 : c ≠ 1 := by omega
  rcases isBody_cases hb with ⟨j, sj, rfl⟩ | ⟨b1, j, sj, rfl, _, _⟩
  · simp [insA, compareAtom_atom_num, h0, h1]
  · simp [insA, compareAtom_atom_num, h0, h1]

theorem body_not_add {one : Nat} {b : NExp} (hb : isBody one b = true) : ∀ x y, b ≠ .add x y := by
  intro x y h; subst h; simp [isBody] at hb

theorem polyMono_of_body {one : Nat} {b : NExp} (hb : isBody one b = true) (m : NExp) :
    polyMono one b m = mulM one b m := by
  rcases isBody_cases hb with ⟨j, sj, rfl⟩ | ⟨b1, j, sj, rfl, _, _⟩ <;> simp [polyMono]

theorem norm_body {one : Nat} : ∀ {b : NExp}, isBody one b = true → norm one b = b := by
  intro b
  induction b with
  | atom i s => intro _; rfl
  | num n => intro h; simp [isBody] at h
  | add a b _ _ => intro h; simp [isBody] at h
  | suc a _ => intro h; simp [isBody] at h
  | mul b1 a ih1 _ =>
    intro h
    rcases isBody_cases h with ⟨j, sj, hj⟩ | ⟨b1', i, s, he, hb1, hc⟩
    · cases hj
    · cases he
      have : norm one (.mul b1 (.atom i s)) = mulP one (norm one b1) (.atom i s) := rfl
      rw [this, ih1 hb1]
      simp only [mulP]
      rw [polyMono_of_body hb1]
      simp only [mulM]
      exact insA_body_atom hb1 i s hc

theorem isMono_cases {one : Nat} {m : NExp} (h : isMono one m = true) :
    (∃ n, m = .num n ∧ 1 ≤ n) ∨ (∃ b c, m = .mul b (.num c) ∧ isBody one b = true ∧ 2 ≤ c) ∨
    isBody one m = true := by
  cases m with
  | atom i s => exact Or.inr (Or.inr rfl)
  | num n => simp [isMono] at h; exact Or.inl ⟨n, rfl, h⟩
  | add a b => simp [isMono, isBody] at h
  | suc a => simp [isMono, isBody] at h
  | mul b a =>
    cases a with
    | num c => simp [isMono] at h; exact Or.inr (Or.inl ⟨b, c, rfl, h.1, h.2⟩)
    | atom i s => exact Or.inr (Or.inr (by simpa [isMono] using h))
    | add x y => exact Or.inr (Or.inr (by simpa [isMono] using h))
    | suc x => exact Or.inr (Or.inr (by simpa [isMono] using h))
    | mul x y => exact Or.inr (Or.inr (by simpa [isMono] using h))

theorem norm_mono {one : Nat} {m : NExp} (h : isMono one m = true) : norm one m = m := by
  rcases isMono_cases h with ⟨n, rfl, _⟩ | ⟨b, c, rfl, hb, hc⟩ | hb
  · rfl
  · have : norm one (.mul b (.num c)) = mulP one (norm one b) (.num c) := rfl
    rw [this, norm_body hb]
    simp only [mulP]
    rw [polyMono_of_body hb]
    simp only [mulM]
    exact insA_body_num hb c hc
  · exact norm_body hb

theorem mono_not_add {one : Nat} {m : NExp} (h : isMono one m = true) : ∀ x y, m ≠ .add x y := by
  intro x y he; subst he; simp [isMono, isBody] at h

theorem mono_ne_zero {one : Nat} {m : NExp} (h : isMono one m = true) : m ≠ .num 0 := by
  intro he; subst he; simp [isMono] at h

theorem addP_mono {one : Nat} (p : NExp) {m : NExp} (h : isMono one m = true) :
    addP one p m = insM one p m := by
  cases m with
  | add x y => exact absurd rfl (mono_not_add h x y)
  | atom i s => rfl
  | num n => rfl
  | mul x y => rfl
  | suc x => rfl

theorem insM_sorted {one : Nat} {p m : NExp} (hp : p ≠ .num 0) (hm : m ≠ .num 0)
    (hc : compareMonomial one (lastMono p) m = .lt) : insM one p m = .add p m := by
  cases p with
  | add p1 m1 =>
    simp only [lastMono] at hc
    simp [insM, hm, hc]
  | atom i s => simp only [lastMono] at hc; simp [insM, hm, hc]
  | num n =>
    simp only [lastMono] at hc
    have : (NExp.num n = NExp.num 0) = False := by simpa using hp
    simp [insM, hm, hc, this]
  | mul x y => simp only [lastMono] at hc; simp [insM, hm, hc]
  | suc x => simp only [lastMono] at hc; simp [insM, hm, hc]

theorem poly_ne_zero {one : Nat} {p : NExp} (h : isPoly one p = true) : p ≠ .num 0 := by
  intro he; subst he; simp [isPoly, isMono] at h

theorem norm_poly {one : Nat} : ∀ {p : NExp}, isPoly one p = true → norm one p = p := by
  intro p
  induction p with
  | add p m ihp _ =>
    intro h
    simp only [isPoly, Bool.and_eq_true, beq_iff_eq] at h
    obtain ⟨⟨hp, hm⟩, hc⟩ := h
    have : norm one (.add p m) = addP one (norm one p) (norm one m) := rfl
    rw [this, ihp hp, norm_mono hm, addP_mono p hm]
    exact insM_sorted (poly_ne_zero hp) (mono_ne_zero hm) hc
  | atom i s => intro _; rfl
  | num n => intro _; rfl
  | mul x y _ _ => intro h; exact norm_mono (by simpa [isPoly] using h)
  | suc x _ => intro h; simp [isPoly, isMono, isBody] at h

theorem norm_nf {one : Nat} {t : NExp} (h : isNF one t = true) : norm one t = t := by
  simp only [isNF, Bool.or_eq_true, beq_iff_eq] at h
  rcases h with rfl | h
  · rfl
  · exact norm_poly h

/-! unit-law generators that need no invariant -/

theorem insM_zero (one : Nat) (p : NExp) : insM one p (.num 0) = p := by
  cases p with
  | add p1 m1 => simp [insM]
  | atom i s => simp [insM]
  | num n => by_cases h : n = 0 <;> simp [insM, h]
  | mul x y => simp [insM]
  | suc x => simp [insM]

theorem insA_zero (one : Nat) (p : NExp) : insA one p (.num 0) = .num 0 := by
  cases p with
  | mul p1 a1 => simp [insA]
  | atom i s => simp [insA]
  | num n => by_cases h : n = 0 <;> simp [insA, h]
  | add x y => simp [insA]
  | suc x => simp [insA]

theorem polyMono_zero (one : Nat) (p : NExp) : polyMono one p (.num 0) = .num 0 := by
  induction p with
  | add p1 m1 ih _ =>
    simp only [polyMono, mulM, insA_zero, ih, addP]
    simp [insM]
  | atom i s => simp [polyMono, mulM, insA_zero]
  | num n => simp [polyMono, mulM, insA_zero]
  | mul x y _ _ => simp [polyMono, mulM, insA_zero]
  | suc x _ => simp [polyMono, mulM, insA_zero]

end Holpy.C10
