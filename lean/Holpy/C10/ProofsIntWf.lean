import Holpy.C10.ProofsInt

/-! `simp_full` only rearranges and copies the atoms of its input and adds exponents: if every atom
of the input is the table entry of its rank (`atom i (sh i)`) and no exponent is 0, the same holds
for the normal form. -/

namespace Holpy.C10.IntN
open IExp

theorem multAtom_wf (sh : Nat → Nat) (p c : IExp) (hp : wfI sh p = true) (hc : wfI sh c = true) :
    wfI sh (multAtom p c) = true := by
  fun_induction multAtom p c <;> simp_all [wfI] <;> omega

theorem multWo_wf (sh : Nat → Nat) (a q : IExp) (ha : wfI sh a = true) (hq : wfI sh q = true) :
    wfI sh (multWo a q) = true := by
  fun_induction multWo a q <;> simp_all [wfI, multAtom_wf]

theorem multMono_wf (sh : Nat → Nat) (x y : IExp) (hx : wfI sh x = true) (hy : wfI sh y = true) :
    wfI sh (multMono x y) = true := by
  unfold multMono
  split <;> simp_all [wfI, multWo_wf]

theorem combine_wf (sh : Nat → Nat) (m1 m2 : IExp) (h1 : wfI sh m1 = true) (h2 : wfI sh m2 = true) :
    ∀ m, combine m1 m2 = some m → wfI sh m = true := by
  intro m hm
  unfold combine at hm
  split at hm
  · split at hm
    · split at hm
      · cases hm
      · cases hm; simp_all [wfI]
    · cases hm; simp_all [wfI]
  · cases hm; simp_all [wfI]

theorem insMI_wf (sh : Nat → Nat) (p c : IExp) (hp : wfI sh p = true) (hc : wfI sh c = true) :
    wfI sh (insMI p c) = true := by
  induction p with
  | add a b iha _ =>
    simp only [wfI, Bool.and_eq_true] at hp
    simp only [insMI]
    cases hcmp : cmpMono b c with
    | lt => simp only; simp [wfI, hp.1, hp.2, hc]
    | gt =>
      simp only
      by_cases h0 : insMI a c = num 0
      · rw [if_pos h0]; exact hp.2
      · rw [if_neg h0]; simp [wfI, iha hp.1, hp.2]
    | eq =>
      simp only
      cases hcomb : combine b c with
      | none => exact hp.1
      | some m => simp [wfI, hp.1, combine_wf sh b c hp.2 hc m hcomb]
  | atom i s =>
    simp only [insMI]; repeat' split
    all_goals first | exact hp | exact hc | (simp_all [wfI]; done) | exact combine_wf sh _ _ hp hc _ ‹_›
  | num z =>
    simp only [insMI]; repeat' split
    all_goals first | exact hp | exact hc | (simp_all [wfI]; done) | exact combine_wf sh _ _ hp hc _ ‹_›
  | sub u v _ _ =>
    simp only [insMI]; repeat' split
    all_goals first | exact hp | exact hc | (simp_all [wfI]; done) | exact combine_wf sh _ _ hp hc _ ‹_›
  | mul u v _ _ =>
    simp only [insMI]; repeat' split
    all_goals first | exact hp | exact hc | (simp_all [wfI]; done) | exact combine_wf sh _ _ hp hc _ ‹_›
  | neg u _ =>
    simp only [insMI]; repeat' split
    all_goals first | exact hp | exact hc | (simp_all [wfI]; done) | exact combine_wf sh _ _ hp hc _ ‹_›
  | pow u e _ =>
    simp only [insMI]; repeat' split
    all_goals first | exact hp | exact hc | (simp_all [wfI]; done) | exact combine_wf sh _ _ hp hc _ ‹_›

theorem subMI_wf (sh : Nat → Nat) (a c : IExp) (ha : wfI sh a = true) (hc : wfI sh c = true) :
    wfI sh (subMI a c) = true := by
  unfold subMI
  exact insMI_wf sh _ _ ha (multMono_wf sh _ _ rfl hc)

theorem addPI_wf (sh : Nat → Nat) (a b : IExp) (ha : wfI sh a = true) (hb : wfI sh b = true) :
    wfI sh (addPI a b) = true := by
  fun_induction addPI a b <;> simp_all [wfI, insMI_wf]

theorem subPI_wf (sh : Nat → Nat) (a b : IExp) (ha : wfI sh a = true) (hb : wfI sh b = true) :
    wfI sh (subPI a b) = true := by
  fun_induction subPI a b <;> simp_all [wfI, subMI_wf]

theorem polyMonoI_wf (sh : Nat → Nat) (p c : IExp) (hp : wfI sh p = true) (hc : wfI sh c = true) :
    wfI sh (polyMonoI p c) = true := by
  fun_induction polyMonoI p c <;> simp_all [wfI, addPI_wf, multMono_wf]

theorem mulPI_wf (sh : Nat → Nat) (a b : IExp) (ha : wfI sh a = true) (hb : wfI sh b = true) :
    wfI sh (mulPI a b) = true := by
  fun_induction mulPI a b <;> simp_all [wfI, addPI_wf, polyMonoI_wf]

theorem simpFull_wf (sh : Nat → Nat) (t : IExp) (h : wfI sh t = true) : wfI sh (simpFull t) = true := by
  induction t with
  | atom i s => simpa [simpFull, wfI] using h
  | num z => rfl
  | add a b iha ihb =>
    simp only [wfI, Bool.and_eq_true] at h
    exact addPI_wf sh _ _ (iha h.1) (ihb h.2)
  | sub a b iha ihb =>
    simp only [wfI, Bool.and_eq_true] at h
    exact subPI_wf sh _ _ (iha h.1) (ihb h.2)
  | mul a b iha ihb =>
    simp only [wfI, Bool.and_eq_true] at h
    exact mulPI_wf sh _ _ (iha h.1) (ihb h.2)
  | neg a iha =>
    simp only [wfI] at h
    exact mulPI_wf sh _ _ rfl (iha h)
  | pow b e _ => simpa [simpFull, wfI] using h

end Holpy.C10.IntN
