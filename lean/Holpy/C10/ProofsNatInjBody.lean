import Holpy.C10.ProofsNatClosureNorm
import Holpy.C10.ProofsNatWf
import Mathlib.Algebra.MvPolynomial.Funext
/-
C10 — a normal-form monomial body is determined by its exponent vector (given that atoms are
determined by their rank).
-/
namespace Holpy.C10
open NExp

/-- exponent vector of a product tree (numerals contribute nothing) -/
noncomputable def fsB : NExp → (ℕ →₀ ℕ)
  | .atom i _ => Finsupp.single i 1
  | .mul x y => fsB x + fsB y
  | _ => 0

/-- `a` occurs as a factor of the body -/
def hasFac : NExp → NExp → Prop
  | .mul x y, a => hasFac x a ∨ y = a
  | b, a => b = a

theorem fsB_pos_hasFac {one : Nat} : ∀ {b : NExp}, isBody one b = true → ∀ i, fsB b i ≠ 0 →
    ∃ s, hasFac b (.atom i s) := by
  intro b
  induction b with
  | atom j s =>
    intro _ i h
    simp only [fsB, Finsupp.single_apply] at h
    by_cases e : j = i
    · subst e; exact ⟨s, rfl⟩
    · simp [e] at h
  | num n => intro h; simp [isBody] at h
  | add u v _ _ => intro h; simp [isBody] at h
  | suc u _ => intro h; simp [isBody] at h
  | mul x y ihx _ =>
    intro hb i h
    rcases isBody_cases hb with ⟨j, s, he⟩ | ⟨b1, j, s, he, hb1, _⟩
    · cases he
    · cases he
      simp only [fsB, Finsupp.add_apply, Finsupp.single_apply] at h
      by_cases e : j = i
      · subst e; exact ⟨s, Or.inr rfl⟩
      · simp only [e, if_false, Nat.add_zero] at h
        obtain ⟨s', hs'⟩ := ihx hb1 i h
        exact ⟨s', Or.inl hs'⟩

theorem hasFac_wf {sh : Nat → Shape} : ∀ {b : NExp}, wfS sh b = true → ∀ i s, hasFac b (.atom i s) → s = sh i := by
  intro b
  induction b with
  | atom j s' => intro h i s e; cases e; simpa [wfS] using h
  | num n => intro _ i s e; cases e
  | add u v _ _ => intro _ i s e; cases e
  | suc u _ => intro _ i s e; cases e
  | mul x y ihx ihy =>
    intro h i s e
    simp only [wfS, Bool.and_eq_true] at h
    rcases e with e | e
    · exact ihx h.1 i s e
    · subst e; simpa [wfS] using h.2

/-- the relation "not greater" between atoms -/
theorem cmpAtom_atoms (one : Nat) (i : Nat) (s : Shape) (j : Nat) (s' : Shape) :
    compareAtom one (.atom i s) (.atom j s') = fastCmp one (.atom i s) (.atom j s') := by
  simp [compareAtom, NExp.isNum]

theorem le_trans_atoms (one : Nat) {a b c : NExp} (ha : isAtomE a = true) (hb : isAtomE b = true)
    (hc : isAtomE c = true) (h1 : compareAtom one a b ≠ .gt) (h2 : compareAtom one b c ≠ .gt) :
    compareAtom one a c ≠ .gt := by
  cases a with
  | atom i s =>
    cases b with
    | atom j s' =>
      cases c with
      | atom k s'' =>
        rw [cmpAtom_atoms] at h1 h2 ⊢
        intro h3
        -- a > c, a ≤ b, b ≤ c
        have h3' := (fastCmp_gt_iff one _ _).1 h3      -- c < a
        cases e1 : fastCmp one (.atom i s) (.atom j s') with
        | gt => exact h1 e1
        | eq =>
          have := fastCmp_eq one _ _ rfl rfl e1
          cases this
          exact h2 h3
        | lt =>
          cases e2 : fastCmp one (.atom j s') (.atom k s'') with
          | gt => exact h2 e2
          | eq =>
            have := fastCmp_eq one _ _ rfl rfl e2
            cases this
            rw [h3] at e1; cases e1
          | lt =>
            have := fastCmp_trans one _ _ _ rfl rfl rfl e1 e2
            rw [h3] at this; cases this
      | _ => simp [isAtomE] at hc
    | _ => simp [isAtomE] at hb
  | _ => simp [isAtomE] at ha

theorem lastFactor_isAtom {one : Nat} {b : NExp} (hb : isBody one b = true) : isAtomE (lastFactor b) = true := by
  rcases isBody_cases hb with ⟨j, s, rfl⟩ | ⟨b1, j, s, rfl, _, _⟩ <;> rfl

/-- every factor of a body is not greater than its last factor -/
theorem hasFac_le_last {one : Nat} : ∀ {b : NExp}, isBody one b = true → ∀ a, hasFac b a →
    isAtomE a = true ∧ compareAtom one a (lastFactor b) ≠ .gt := by
  intro b
  induction b with
  | atom j s =>
    intro _ a e
    cases e
    refine ⟨rfl, ?_⟩
    rw [show lastFactor (.atom j s) = .atom j s from rfl, cmpAtom_atoms]
    intro h
    have := (fastCmp_gt_iff one _ _).1 h
    rw [h] at this; cases this
  | num n => intro h; simp [isBody] at h
  | add u v _ _ => intro h; simp [isBody] at h
  | suc u _ => intro h; simp [isBody] at h
  | mul x y ihx _ =>
    intro hb a e
    rcases isBody_cases hb with ⟨j, s, he⟩ | ⟨b1, j, s, he, hb1, hc⟩
    · cases he
    · cases he
      simp only [lastFactor]
      rcases e with e | e
      · obtain ⟨ha, hle⟩ := ihx hb1 a e
        exact ⟨ha, le_trans_atoms one ha (lastFactor_isAtom hb1) rfl hle hc⟩
      · subst e
        refine ⟨rfl, ?_⟩
        rw [cmpAtom_atoms]
        intro h
        have := (fastCmp_gt_iff one _ _).1 h
        rw [h] at this; cases this

end Holpy.C10
