import Holpy.C10.ProofsNatClosureNorm
import Holpy.C10.ProofsNatWf
import Mathlib.Algebra.MvPolynomial.Funext
/-
C10 — a normal-form monomial body is determined by its exponent vector (given that atoms are
determined by their rank).
-/
namespace Holpy.C10
open NExp

/-- exponent vector of a product tree (numerals contribute nothing) -/
noncomputable def fsB : NExp → (ℕ →₀ ℕ)
  | .atom i _ => Finsupp.single i 1
  | .mul x y => fsB x + fsB y
  | _ => 0

/-- `a` occurs as a factor of the body -/
def hasFac : NExp → NExp → Prop
  | .mul x y, a => hasFac x a ∨ y = a
  | b, a => b = a

theorem fsB_pos_hasFac {one : Nat} : ∀ {b : NExp}, isBody one b = true → ∀ i, fsB b i ≠ 0 →
    ∃ s, hasFac b (.atom i s) := by
  intro b
  induction b with
  | atom j s =>
    intro _ i h
    simp only [fsB, Finsupp.single_apply] at h
    by_cases e : j = i
    · subst e; exact ⟨s, rfl⟩
    · simp [e] at h
  | num n => intro h; simp [isBody] at h
  | add u v _ _ => intro h; simp [isBody] at h
  | suc u _ => intro h; simp [isBody] at h
  | mul x y ihx _ =>
    intro hb i h
    rcases isBody_cases hb with ⟨j, s, he⟩ | ⟨b1, j, s, he, hb1, _⟩
    · cases he
    · cases he
      simp only [fsB, Finsupp.add_apply, Finsupp.single_apply] at h
      by_cases e : j = i
      · subst e; exact ⟨s, Or.inr rfl⟩
      · simp only [e, if_false, Nat.add_zero] at h
        obtain ⟨s', hs'⟩ := ihx hb1 i h
        exact ⟨s', Or.inl hs'⟩

theorem hasFac_wf {sh : Nat → Shape} : ∀ {b : NExp}, wfS sh b = true → ∀ i s, hasFac b (.atom i s) → s = sh i := by
  intro b
  induction b with
  | atom j s' => intro h i s e; cases e; simpa [wfS] using h
  | num n => intro _ i s e; cases e
  | add u v _ _ => intro _ i s e; cases e
  | suc u _ => intro _ i s e; cases e
  | mul x y ihx ihy =>
    intro h i s e
    simp only [wfS, Bool.and_eq_true] at h
    rcases e with e | e
    · exact ihx h.1 i s e
    · subst e; simpa [wfS] using h.2

/-- the relation "not greater" between atoms -/
theorem cmpAtom_atoms (one : Nat) (i : Nat) (s : Shape) (j : Nat) (s' : Shape) :
    compareAtom one (.atom i s) (.atom j s') = fastCmp one (.atom i s) (.atom j s') := by
  simp [compareAtom, NExp.isNum]

theorem le_trans_atoms (one : Nat) {a b c : NExp} (ha : isAtomE a = true) (hb : isAtomE b = true)
    (hc : isAtomE c = true) (h1 : compareAtom one a b ≠ .gt) (h2 : compareAtom one b c ≠ .gt) :
    compareAtom one a c ≠ .gt := by
  cases a with
  | atom i s =>
    cases b with
    | atom j s' =>
      cases c with
      | atom k s'' =>
        rw [cmpAtom_atoms] at h1 h2 ⊢
        intro h3
        -- a > c, a ≤ b, b ≤ c
        have h3' := (fastCmp_gt_iff one _ _).1 h3      -- c < a
        cases e1 : fastCmp one (.atom i s) (.atom j s') with
        | gt => exact h1 e1
        | eq =>
          have := fastCmp_eq one _ _ rfl rfl e1
          cases this
          exact h2 h3
        | lt =>
          cases e2 : fastCmp one (.atom j s') (.atom k s'') with
          | gt => exact h2 e2
          | eq =>
            have := fastCmp_eq one _ _ rfl rfl e2
            cases this
            rw [h3] at e1; cases e1
          | lt =>
            have := fastCmp_trans one _ _ _ rfl rfl rfl e1 e2
            rw [h3] at this; cases this
      | _ => simp [isAtomE] at hc
    | _ => simp [isAtomE] at hb
  | _ => simp [isAtomE] at ha

theorem lastFactor_isAtom {one : Nat} {b : NExp} (hb : isBody one b = true) : isAtomE (lastFactor b) = true := by
  rcases isBody_cases hb with ⟨j, s, rfl⟩ | ⟨b1, j, s, rfl, _, _⟩ <;> rfl

/-- every factor of a body is not greater than its last factor -/
theorem hasFac_le_last {one : Nat} : ∀ {b : NExp}, isBody one b = true → ∀ a, hasFac b a →
    isAtomE a = true ∧ compareAtom one a (lastFactor b) ≠ .gt := by
  intro b
  induction b with
  | atom j s =>
    intro _ a e
    cases e
    refine ⟨rfl, ?_⟩
    rw [show lastFactor (.atom j s) = .atom j s from rfl, cmpAtom_atoms]
    intro h
    have := (fastCmp_gt_iff one _ _).1 h
    rw [h] at this; cases this
  | num n => intro h; simp [isBody] at h
  | add u v _ _ => intro h; simp [isBody] at h
  | suc u _ => intro h; simp [isBody] at h
  | mul x y ihx _ =>
    intro hb a e
    rcases isBody_cases hb with ⟨j, s, he⟩ | ⟨b1, j, s, he, hb1, hc⟩
    · cases he
    · cases he
      simp only [lastFactor]
      rcases e with e | e
      · obtain ⟨ha, hle⟩ := ihx hb1 a e
        exact ⟨ha, le_trans_atoms one ha (lastFactor_isAtom hb1) rfl hle hc⟩
      · subst e
        refine ⟨rfl, ?_⟩
        rw [cmpAtom_atoms]
        intro h
        have := (fastCmp_gt_iff one _ _).1 h
        rw [h] at this; cases this

theorem fsB_last_pos {one : Nat} {b : NExp} (hb : isBody one b = true) :
    ∃ i s, lastFactor b = .atom i s ∧ fsB b i ≠ 0 := by
  rcases isBody_cases hb with ⟨j, s, rfl⟩ | ⟨b1, j, s, rfl, _, _⟩
  · exact ⟨j, s, rfl, by simp [fsB]⟩
  · exact ⟨j, s, rfl, by simp [fsB]⟩

theorem fsB_ne_zero {one : Nat} {b : NExp} (hb : isBody one b = true) : fsB b ≠ 0 := by
  obtain ⟨i, s, _, h⟩ := fsB_last_pos hb
  intro e; rw [e] at h; simp at h

theorem atom_antisymm (one : Nat) {a a' : NExp} (ha : isAtomE a = true) (ha' : isAtomE a' = true)
    (h1 : compareAtom one a a' ≠ .gt) (h2 : compareAtom one a' a ≠ .gt) : a = a' := by
  cases a with
  | atom i s =>
    cases a' with
    | atom j s' =>
      rw [cmpAtom_atoms] at h1 h2
      cases e : fastCmp one (.atom i s) (.atom j s') with
      | gt => exact absurd e h1
      | lt => exact absurd ((fastCmp_lt_iff one _ _).1 e) h2
      | eq => exact fastCmp_eq one _ _ rfl rfl e
    | _ => simp [isAtomE] at ha'
  | _ => simp [isAtomE] at ha

/-- A normal-form body is determined by its exponent vector. -/
theorem fsB_inj {one : Nat} {sh : Nat → Shape} : ∀ {b b' : NExp}, isBody one b = true → isBody one b' = true →
    wfS sh b = true → wfS sh b' = true → fsB b = fsB b' → b = b' := by
  intro b
  induction b with
  | num n => intro b' h; simp [isBody] at h
  | add u v _ _ => intro b' h; simp [isBody] at h
  | suc u _ => intro b' h; simp [isBody] at h
  | atom i s =>
    intro b' _ hb' hw hw' he
    rcases isBody_cases hb' with ⟨j, s', rfl⟩ | ⟨b1', j, s', rfl, hb1', _⟩
    · simp only [fsB] at he
      have hij : i = j := by
        have := congrArg (fun f => f i) he
        simp only [Finsupp.single_apply] at this
        by_cases e : j = i
        · exact e.symm
        · simp [e] at this
      subst hij
      simp only [wfS, beq_iff_eq] at hw hw'
      rw [hw, hw']
    · exfalso
      simp only [fsB] at he
      have hj := congrArg (fun f => f j) he
      simp only [Finsupp.single_apply, Finsupp.add_apply, if_true] at hj
      have hij : i = j := by
        by_cases e : i = j
        · exact e
        · simp [e] at hj
      subst hij
      have : fsB b1' = 0 := by
        have h2 : (0 : ℕ →₀ ℕ) + Finsupp.single i 1 = fsB b1' + Finsupp.single i 1 := by simpa using he
        exact (add_right_cancel h2).symm
      exact fsB_ne_zero hb1' this
  | mul x y ihx _ =>
    intro b' hb hb' hw hw' he
    rcases isBody_cases hb with ⟨j, s, e0⟩ | ⟨b1, i, s, e0, hb1, _⟩
    · cases e0
    cases e0
    rcases isBody_cases hb' with ⟨j, s', rfl⟩ | ⟨b1', j, s', rfl, hb1', _⟩
    · exfalso
      simp only [fsB] at he
      have hj := congrArg (fun f => f i) he
      simp only [Finsupp.single_apply, Finsupp.add_apply, if_true] at hj
      have hij : j = i := by
        by_cases e : j = i
        · exact e
        · simp [e] at hj
      subst hij
      have : fsB x = 0 := by
        have h2 : fsB x + Finsupp.single j 1 = (0 : ℕ →₀ ℕ) + Finsupp.single j 1 := by simpa using he
        exact add_right_cancel h2
      exact fsB_ne_zero hb1 this
    · -- the last factors agree
      have hw1 : wfS sh x = true ∧ s = sh i := by simpa [wfS] using hw
      have hw1' : wfS sh b1' = true ∧ s' = sh j := by simpa [wfS] using hw'
      have hpos : fsB (.mul x (.atom i s)) i ≠ 0 := by simp [fsB]
      have hpos' : fsB (.mul b1' (.atom j s')) j ≠ 0 := by simp [fsB]
      rw [he] at hpos
      rw [← he] at hpos'
      obtain ⟨s0, h0⟩ := fsB_pos_hasFac hb' i hpos
      obtain ⟨s0', h0'⟩ := fsB_pos_hasFac hb j hpos'
      have e0 : s0 = s := by rw [hasFac_wf hw' i s0 h0, hw1.2]
      have e0' : s0' = s' := by rw [hasFac_wf hw j s0' h0', hw1'.2]
      subst e0; subst e0'
      have l1 := (hasFac_le_last hb' _ h0).2
      have l2 := (hasFac_le_last hb _ h0').2
      simp only [lastFactor] at l1 l2
      have hat : NExp.atom i s0 = NExp.atom j s0' := atom_antisymm one rfl rfl l1 l2
      cases hat
      simp only [fsB] at he
      have := ihx hb1 hb1' hw1.1 hw1'.1 (add_right_cancel he)
      rw [this]

end Holpy.C10
