import Holpy.C10.IntModel
import Mathlib.Tactic.Ring
import Mathlib.Tactic.Linarith
/-
C10 — the integer Conv normaliser preserves the value in ℤ.
-/
namespace Holpy.C10.IntN
open IExp

theorem multAtom_sound (ρ : Nat → Int) (p c : IExp) :
    evalI ρ (multAtom p c) = evalI ρ p * evalI ρ c := by
  fun_induction multAtom p c <;> simp_all [evalI] <;> ring

theorem multWo_sound (ρ : Nat → Int) (a q : IExp) :
    evalI ρ (multWo a q) = evalI ρ a * evalI ρ q := by
  fun_induction multWo a q <;> simp_all [evalI, multAtom_sound] <;> ring

theorem multMono_sound (ρ : Nat → Int) (x y : IExp) :
    evalI ρ (multMono x y) = evalI ρ x * evalI ρ y := by
  unfold multMono
  split <;> simp_all [evalI, multWo_sound] <;> ring

/-- `combine` as a value (none stands for 0). -/
def combVal (ρ : Nat → Int) : Option IExp → Int
  | none => 0
  | some m => evalI ρ m

theorem combine_sound (ρ : Nat → Int) (m1 m2 : IExp) :
    combVal ρ (combine m1 m2) = evalI ρ m1 + evalI ρ m2 := by
  unfold combine
  split
  · next c1 b c2 b' =>
    by_cases hb : b = b'
    · subst hb
      by_cases hz : c1 + c2 = 0
      · simp only [if_true, hz, combVal, evalI]
        have : c1 * evalI ρ b + c2 * evalI ρ b = (c1 + c2) * evalI ρ b := by ring
        rw [this, hz]; ring
      · simp only [if_true, hz, if_false, combVal, evalI]; ring
    · simp [hb, combVal, evalI]
  · simp [combVal, evalI]

/-- the second arm of `insMI` (left side is not a sum). -/
def insLeaf (a b : IExp) : IExp :=
  if b = num 0 then a
  else if a = num 0 then b
  else
    match cmpMono a b with
    | .gt => add b a
    | .eq =>
      match a, b with
      | num x, num y => num (x + y)
      | _, _ =>
        match combine a b with
        | none => num 0
        | some m => m
    | .lt => add a b

theorem insLeaf_sound (ρ : Nat → Int) (a b : IExp) :
    evalI ρ (insLeaf a b) = evalI ρ a + evalI ρ b := by
  unfold insLeaf
  by_cases hb : b = num 0
  · simp [hb, evalI]
  by_cases ha : a = num 0
  · simp [hb, ha, evalI]
  simp only [hb, ha, if_false]
  have hc := combine_sound ρ a b
  cases hcm : cmpMono a b with
  | gt => simp only [evalI]; ring
  | lt => simp [evalI]
  | eq =>
    simp only
    split
    · simp [evalI]
    · cases hcb : combine a b with
      | none => rw [hcb] at hc; simp only [combVal] at hc; simp only [evalI]; linarith
      | some m => rw [hcb] at hc; simp only [combVal] at hc; simpa using hc

theorem insMI_sound (ρ : Nat → Int) : ∀ (p c : IExp), evalI ρ (insMI p c) = evalI ρ p + evalI ρ c := by
  intro p
  induction p with
  | add a b iha _ =>
    intro c
    simp only [insMI]
    have hc := combine_sound ρ b c
    cases hcm : cmpMono b c with
    | gt =>
      simp only
      by_cases hr : insMI a c = num 0
      · have := iha c
        rw [hr] at this
        simp only [hr, if_true, evalI] at this ⊢
        linarith
      · simp only [hr, if_false, evalI, iha c]; ring
    | eq =>
      simp only
      cases hcb : combine b c with
      | none => rw [hcb] at hc; simp only [combVal] at hc; simp only [evalI]; linarith
      | some m => rw [hcb] at hc; simp only [combVal] at hc; simp only [evalI, hc]; ring
    | lt => simp [evalI]
  | atom i s => intro c; exact insLeaf_sound ρ _ c
  | num z => intro c; exact insLeaf_sound ρ _ c
  | sub a b _ _ => intro c; exact insLeaf_sound ρ _ c
  | mul a b _ _ => intro c; exact insLeaf_sound ρ _ c
  | neg a _ => intro c; exact insLeaf_sound ρ _ c
  | pow b e _ => intro c; exact insLeaf_sound ρ _ c

theorem subMI_sound (ρ : Nat → Int) (a c : IExp) : evalI ρ (subMI a c) = evalI ρ a - evalI ρ c := by
  simp [subMI, insMI_sound, multMono_sound, evalI]; ring

theorem addPI_sound (ρ : Nat → Int) (a b : IExp) : evalI ρ (addPI a b) = evalI ρ a + evalI ρ b := by
  fun_induction addPI a b <;> simp_all [evalI, insMI_sound] <;> ring

theorem subPI_sound (ρ : Nat → Int) (a b : IExp) : evalI ρ (subPI a b) = evalI ρ a - evalI ρ b := by
  fun_induction subPI a b <;> simp_all [evalI, subMI_sound] <;> ring

theorem polyMonoI_sound (ρ : Nat → Int) (p c : IExp) : evalI ρ (polyMonoI p c) = evalI ρ p * evalI ρ c := by
  fun_induction polyMonoI p c <;> simp_all [evalI, addPI_sound, multMono_sound] <;> ring

theorem mulPI_sound (ρ : Nat → Int) (a b : IExp) : evalI ρ (mulPI a b) = evalI ρ a * evalI ρ b := by
  fun_induction mulPI a b <;> simp_all [evalI, addPI_sound, polyMonoI_sound] <;> ring

theorem simpFull_sound (ρ : Nat → Int) (t : IExp) : evalI ρ (simpFull t) = evalI ρ t := by
  induction t with
  | atom i s => simp [simpFull, evalI]
  | num z => rfl
  | add a b iha ihb => simp [simpFull, evalI, addPI_sound, iha, ihb]
  | sub a b iha ihb => simp [simpFull, evalI, subPI_sound, iha, ihb]
  | mul a b iha ihb => simp [simpFull, evalI, mulPI_sound, iha, ihb]
  | neg a ih => simp [simpFull, evalI, mulPI_sound, ih]
  | pow b e _ => simp [simpFull, evalI]

theorem strip1_sound (ρ : Nat → Int) (t : IExp) : evalI ρ (strip1 t) = evalI ρ t := by
  fun_induction strip1 t <;> simp_all [evalI]

theorem stripPow1_sound (ρ : Nat → Int) (t : IExp) : evalI ρ (stripPow1 t) = evalI ρ t := by
  fun_induction stripPow1 t <;> simp_all [evalI]

theorem intNorm_sound (ρ : Nat → Int) (t : IExp) : evalI ρ (intNorm t) = evalI ρ t := by
  simp [intNorm, stripPow1_sound, strip1_sound, simpFull_sound]

theorem intNormEq_sound (ρ : Nat → Int) (a b : IExp) :
    (evalI ρ (intNormEq a b) = 0 ↔ evalI ρ a = evalI ρ b) := by
  unfold intNormEq
  simp only
  split
  · simp only [stripPow1_sound, simpFull_sound, evalI]
    constructor <;> intro h <;> linarith
  · simp only [stripPow1_sound, simpFull_sound, evalI]
    constructor <;> intro h <;> linarith

end Holpy.C10.IntN
