import Holpy.C10.ProofsNatClosureMul
/-
C10 — `isNF (norm t)`: the normal-form shape is closed under every operation of `norm_full`.
-/
namespace Holpy.C10
open NExp

def isSeq0 (one : Nat) (t : NExp) : Bool := t == .num 0 || t == .num 1 || isSeq one t
def isFac0 (t : NExp) : Bool := t == .num 0 || t == .num 1 || isFac t

theorem insA_zero_left (one : Nat) (a : NExp) : insA one (.num 0) a = .num 0 := by simp [insA]

theorem insA_one_left (one : Nat) (a : NExp) (ha : a ≠ .num 0) : insA one (.num 1) a = a := by
  simp [insA, ha]

theorem insA_one_right (one : Nat) (p : NExp) (hp : p ≠ .num 0) : insA one p (.num 1) = p := by
  cases p with
  | mul x y => simp [insA]
  | num n =>
    have : n ≠ 0 := by intro e; subst e; exact hp rfl
    by_cases h1 : n = 1 <;> simp [insA, this, h1]
  | atom i s => simp [insA]
  | add x y => simp [insA]
  | suc x => simp [insA]

theorem insA_seq0 {one : Nat} {p a : NExp} (hp : isSeq0 one p = true) (ha : isFac0 a = true) :
    isSeq0 one (insA one p a) = true := by
  simp only [isFac0, Bool.or_eq_true, beq_iff_eq] at ha
  simp only [isSeq0, Bool.or_eq_true, beq_iff_eq] at hp
  rcases ha with (rfl | rfl) | ha
  · rw [insA_zero]; simp [isSeq0]
  · rcases hp with (rfl | rfl) | hp
    · rw [insA_zero_left]; simp [isSeq0]
    · rw [insA_one_left one _ (by simp)]; simp [isSeq0]
    · have : p ≠ .num 0 := by intro e; subst e; simp [isSeq, isFac] at hp
      rw [insA_one_right one p this]; simp [isSeq0, hp]
  · rcases hp with (rfl | rfl) | hp
    · rw [insA_zero_left]; simp [isSeq0]
    · rw [insA_one_left one a (isFac_ne a ha).1]; simp [isSeq0, isFac_isSeq ha]
    · simp [isSeq0, (insA_closed hp ha).1]

theorem mulM_seq0 {one : Nat} {p : NExp} (hp : isSeq0 one p = true) :
    ∀ {q : NExp}, isSeq0 one q = true → isSeq0 one (mulM one p q) = true := by
  intro q
  induction q with
  | mul q1 a ih _ =>
    intro hq
    have hq' : isSeq one (.mul q1 a) = true := by simpa [isSeq0] using hq
    simp only [isSeq, Bool.and_eq_true] at hq'
    simp only [mulM]
    exact insA_seq0 (ih (by simp [isSeq0, hq'.1.1])) (by simp [isFac0, hq'.1.2])
  | atom i s => intro hq; simp only [mulM]; exact insA_seq0 hp (by simp [isFac0, isFac])
  | num n =>
    intro hq
    simp only [mulM]
    exact insA_seq0 hp (by simpa [isSeq0, isFac0, isSeq] using hq)
  | add x y _ _ => intro hq; simp [isSeq0, isSeq, isFac] at hq
  | suc x _ => intro hq; simp [isSeq0, isSeq, isFac] at hq

/-! conversions between the two descriptions of a monomial -/

theorem isBody_lastFactor_notnum {one : Nat} {b : NExp} (hb : isBody one b = true) :
    (lastFactor b).isNum = false := by
  rcases isBody_cases hb with ⟨i, s, rfl⟩ | ⟨b1, i, s, rfl, _, _⟩ <;> rfl

theorem follows_notnum_num (one : Nat) {x : NExp} (hx : x.isNum = false) (c : Nat) :
    follows one x (.num c) = true := by
  cases x <;> simp_all [follows, compareAtom, NExp.isNum]

theorem isBody_isSeq {one : Nat} : ∀ {b : NExp}, isBody one b = true → isSeq one b = true := by
  intro b
  induction b with
  | atom i s => intro _; rfl
  | num n => intro h; simp [isBody] at h
  | add u v _ _ => intro h; simp [isBody] at h
  | suc u _ => intro h; simp [isBody] at h
  | mul x y ihx _ =>
    intro h
    rcases isBody_cases h with ⟨i, s, he⟩ | ⟨b1, i, s, he, hb1, hc⟩
    · cases he
    · cases he
      simp only [isSeq, Bool.and_eq_true]
      refine ⟨⟨ihx hb1, rfl⟩, ?_⟩
      simp only [follows, Bool.and_eq_true, bne_iff_ne, ne_eq, Bool.not_eq_true', NExp.isNum, Bool.and_false]
      exact ⟨hc, trivial⟩

theorem isMono_isSeq0 {one : Nat} {m : NExp} (h : isMono0 one m = true) : isSeq0 one m = true := by
  simp only [isMono0, Bool.or_eq_true, beq_iff_eq] at h
  rcases h with rfl | h
  · simp [isSeq0]
  rcases isMono_cases h with ⟨n, rfl, hn⟩ | ⟨b, c, rfl, hb, hc⟩ | hb
  · by_cases h1 : n = 1
    · subst h1; simp [isSeq0]
    · simp [isSeq0, isSeq, isFac]; omega
  · simp only [isSeq0, isSeq, Bool.or_eq_true, Bool.and_eq_true, isFac, decide_eq_true_eq]
    exact Or.inr ⟨⟨isBody_isSeq hb, hc⟩, follows_notnum_num one (isBody_lastFactor_notnum hb) c⟩
  · simp [isSeq0, isBody_isSeq hb]

theorem follows_lastnotnum {one : Nat} {x z : NExp} (h : follows one x z = true) (hz : isFac z = true) :
    x.isNum = false := by
  cases hx : x.isNum
  · rfl
  · exfalso
    simp only [follows, Bool.and_eq_true, bne_iff_ne, ne_eq, Bool.not_eq_true'] at h
    cases hzn : z.isNum
    · simp [compareAtom, hx, hzn] at h
    · simp [hx, hzn] at h

theorem isSeq_isBody {one : Nat} : ∀ {p : NExp}, isSeq one p = true → (lastFactor p).isNum = false →
    isBody one p = true := by
  intro p
  induction p with
  | atom i s => intro _ _; rfl
  | num n => intro _ h; simp [lastFactor, NExp.isNum] at h
  | add u v _ _ => intro h; simp [isSeq, isFac] at h
  | suc u _ => intro h; simp [isSeq, isFac] at h
  | mul p1 a1 ih _ =>
    intro h hl
    simp only [isSeq, Bool.and_eq_true] at h
    obtain ⟨⟨hp1, ha1⟩, hf⟩ := h
    simp only [lastFactor] at hl
    have hat : isAtomE a1 = true := by cases a1 <;> simp_all [isFac, isAtomE, NExp.isNum]
    have hb1 := ih hp1 (follows_lastnotnum hf ha1)
    simp only [follows, Bool.and_eq_true, bne_iff_ne, ne_eq] at hf
    simp only [isBody, Bool.and_eq_true, bne_iff_ne, ne_eq]
    exact ⟨⟨hat, hb1⟩, hf.1⟩

theorem isSeq0_isMono0 {one : Nat} {m : NExp} (h : isSeq0 one m = true) : isMono0 one m = true := by
  simp only [isSeq0, Bool.or_eq_true, beq_iff_eq] at h
  rcases h with (rfl | rfl) | h
  · simp [isMono0]
  · simp [isMono0, isMono]
  · cases m with
    | atom i s => simp [isMono0, isMono, isBody]
    | num n => simp [isSeq, isFac] at h; simp [isMono0, isMono]; omega
    | add u v => simp [isSeq, isFac] at h
    | suc u => simp [isSeq, isFac] at h
    | mul p a =>
      simp only [isSeq, Bool.and_eq_true] at h
      obtain ⟨⟨hp, ha⟩, hf⟩ := h
      have hpb := isSeq_isBody hp (follows_lastnotnum hf ha)
      cases a with
      | num c => simp [isFac] at ha; simp [isMono0, isMono, hpb]; omega
      | atom i s =>
        have : isBody one (.mul p (.atom i s)) = true := by
          simp only [follows, Bool.and_eq_true, bne_iff_ne, ne_eq] at hf
          simp only [isBody, isAtomE, Bool.and_eq_true, bne_iff_ne, ne_eq, Bool.true_and]
          exact ⟨hpb, hf.1⟩
        simp [isMono0, isMono, this]
      | add u v => simp [isFac] at ha
      | suc u => simp [isFac] at ha
      | mul u v => simp [isFac] at ha

theorem mulM_mono0 {one : Nat} {p q : NExp} (hp : isMono0 one p = true) (hq : isMono0 one q = true) :
    isMono0 one (mulM one p q) = true :=
  isSeq0_isMono0 (mulM_seq0 (isMono_isSeq0 hp) (isMono_isSeq0 hq))

theorem isNF_of_isMono0 {one : Nat} {m : NExp} (h : isMono0 one m = true) : isNF one m = true := by
  simp only [isMono0, Bool.or_eq_true, beq_iff_eq] at h
  rcases h with rfl | h
  · simp [isNF]
  · exact isNF_of_isPoly (isPoly_of_isMono h)

theorem isMono0_of_isNF_nonadd {one : Nat} {p : NExp} (hna : ∀ x y, p ≠ .add x y)
    (h : isNF one p = true) : isMono0 one p = true := by
  simp only [isNF, Bool.or_eq_true, beq_iff_eq] at h
  rcases h with rfl | h
  · simp [isMono0]
  · simp [isMono0, isMono_of_isPoly_nonadd hna h]

theorem polyMono_nf {one : Nat} {m : NExp} (hm : isMono0 one m = true) :
    ∀ {p : NExp}, isNF one p = true → isNF one (polyMono one p m) = true := by
  intro p
  induction p with
  | add p1 m1 ih _ =>
    intro hp
    have hp' : isPoly one (.add p1 m1) = true := by simpa [isNF] using hp
    simp only [isPoly, Bool.and_eq_true, beq_iff_eq] at hp'
    simp only [polyMono]
    exact addP_nf (ih (isNF_of_isPoly hp'.1.1))
      (isNF_of_isMono0 (mulM_mono0 (by simp [isMono0, hp'.1.2]) hm))
  | atom i s =>
    intro hp; simp only [polyMono]
    exact isNF_of_isMono0 (mulM_mono0 (isMono0_of_isNF_nonadd (by intro x y h; cases h) hp) hm)
  | num n =>
    intro hp; simp only [polyMono]
    exact isNF_of_isMono0 (mulM_mono0 (isMono0_of_isNF_nonadd (by intro x y h; cases h) hp) hm)
  | mul a b _ _ =>
    intro hp; simp only [polyMono]
    exact isNF_of_isMono0 (mulM_mono0 (isMono0_of_isNF_nonadd (by intro x y h; cases h) hp) hm)
  | suc a _ =>
    intro hp; simp only [polyMono]
    exact isNF_of_isMono0 (mulM_mono0 (isMono0_of_isNF_nonadd (by intro x y h; cases h) hp) hm)

theorem mulP_nf {one : Nat} {p : NExp} (hp : isNF one p = true) :
    ∀ {q : NExp}, isNF one q = true → isNF one (mulP one p q) = true := by
  intro q
  induction q with
  | add q1 m ih _ =>
    intro hq
    have hq' : isPoly one (.add q1 m) = true := by simpa [isNF] using hq
    simp only [isPoly, Bool.and_eq_true, beq_iff_eq] at hq'
    simp only [mulP]
    exact addP_nf (ih (isNF_of_isPoly hq'.1.1)) (polyMono_nf (by simp [isMono0, hq'.1.2]) hp)
  | atom i s =>
    intro hq; simp only [mulP]
    exact polyMono_nf (isMono0_of_isNF_nonadd (by intro x y h; cases h) hq) hp
  | num n =>
    intro hq; simp only [mulP]
    exact polyMono_nf (isMono0_of_isNF_nonadd (by intro x y h; cases h) hq) hp
  | mul a b _ _ =>
    intro hq; simp only [mulP]
    exact polyMono_nf (isMono0_of_isNF_nonadd (by intro x y h; cases h) hq) hp
  | suc a _ =>
    intro hq; simp only [mulP]
    exact polyMono_nf (isMono0_of_isNF_nonadd (by intro x y h; cases h) hq) hp

/-- The result of `norm_full` always has the normal-form shape. -/
theorem norm_isNF (one : Nat) (t : NExp) : isNF one (norm one t) = true := by
  induction t with
  | atom i s => simp [norm, isNF, isPoly, isMono, isBody]
  | num n =>
    by_cases h : n = 0
    · subst h; simp [norm, isNF]
    · simp [norm, isNF, isPoly, isMono]; omega
  | add a b iha ihb => simp only [norm]; exact addP_nf iha ihb
  | mul a b iha ihb => simp only [norm]; exact mulP_nf iha ihb
  | suc a ih => simp only [norm]; exact addP_nf ih (by simp [isNF, isPoly, isMono])

/-- Normalising a normal form changes nothing. -/
theorem norm_norm (one : Nat) (t : NExp) : norm one (norm one t) = norm one t :=
  norm_nf (norm_isNF one t)

end Holpy.C10
