import Holpy.C10.ProofsIntInjFs

/-! A normal form of `simp_full` is determined by the polynomial it stands for (atoms table entries
of their rank, no exponent 0); hence terms with the same value under every valuation get the same
normal form. -/

namespace Holpy.C10.IntN
open IExp MvPolynomial

/-- lists that are pairwise related by an asymmetric relation and have the same members are equal -/
theorem pairwise_extI {α : Type} {R : α → α → Prop} (hasym : ∀ a b, R a b → ¬ R b a) :
    ∀ (l1 l2 : List α), l1.Pairwise R → l2.Pairwise R → (∀ x, x ∈ l1 ↔ x ∈ l2) → l1 = l2 := by
  intro l1
  induction l1 with
  | nil =>
    intro l2 _ _ hm
    cases l2 with
    | nil => rfl
    | cons b l2 => exact absurd ((hm b).2 (by simp)) (by simp)
  | cons a l1 ih =>
    intro l2 h1 h2 hm
    cases l2 with
    | nil => exact absurd ((hm a).1 (by simp)) (by simp)
    | cons b l2 =>
      have h1' := List.pairwise_cons.1 h1
      have h2' := List.pairwise_cons.1 h2
      have hab : a = b := by
        have ha : a ∈ b :: l2 := (hm a).1 (by simp)
        have hb : b ∈ a :: l1 := (hm b).2 (by simp)
        rcases List.mem_cons.1 ha with e | ha
        · exact e
        · rcases List.mem_cons.1 hb with e | hb
          · exact e.symm
          · exact absurd (h1'.1 b hb) (hasym _ _ (h2'.1 a ha))
      subst hab
      congr 1
      apply ih l2 h1'.2 h2'.2
      intro x
      constructor
      · intro hx
        rcases List.mem_cons.1 ((hm x).1 (by simp [hx])) with e | hx2
        · subst e; exact absurd (h1'.1 x hx) (hasym _ _ (h1'.1 x hx))
        · exact hx2
      · intro hx
        rcases List.mem_cons.1 ((hm x).2 (by simp [hx])) with e | hx2
        · subst e; exact absurd (h2'.1 x hx) (hasym _ _ (h2'.1 x hx))
        · exact hx2

theorem wf_atomPow (sh : Nat → Nat) {i s e : Nat} (h : wfI sh (pow (atom i s) e) = true) :
    e ≠ 0 ∧ s = sh i := by
  simpa [wfI] using h

/-- every factor of `b` is a factor of `b'` when the exponent vectors agree -/
theorem facs_subset (sh : Nat → Nat) {b b' : IExp} (hb : isBodyI b = true) (hb' : isBodyI b' = true)
    (wb : wfI sh b = true) (wb' : wfI sh b' = true) (h : fsI b = fsI b') :
    ∀ a ∈ facsI b, a ∈ facsI b' := by
  intro a ha
  obtain ⟨f1, _, _⟩ := facsI_facts hb
  obtain ⟨i, s, e, rfl⟩ := atomPow_form (f1 a ha)
  have hv : fsI b i = e := fsI_at sh hb wb i s e ha
  obtain ⟨he0, hs⟩ := wf_atomPow sh (facs_wf sh wb _ ha)
  by_cases hex : ∃ s' e', pow (atom i s') e' ∈ facsI b'
  · obtain ⟨s', e', hm'⟩ := hex
    have hv' : fsI b' i = e' := fsI_at sh hb' wb' i s' e' hm'
    obtain ⟨_, hs'⟩ := wf_atomPow sh (facs_wf sh wb' _ hm')
    have : e' = e := by rw [← hv, h, hv']
    rw [this, hs', ← hs] at hm'
    exact hm'
  · exfalso
    have : fsI b' i = 0 := fsI_zero i hb' (fun s' e' hm => hex ⟨s', e', hm⟩)
    rw [← h, hv] at this
    exact he0 this

/-- a body is determined by its exponent vector -/
theorem fsI_inj (sh : Nat → Nat) {b b' : IExp} (hb : isBodyI b = true) (hb' : isBodyI b' = true)
    (wb : wfI sh b = true) (wb' : wfI sh b' = true) (h : fsI b = fsI b') : b = b' := by
  apply facsI_inj hb hb'
  obtain ⟨f1, f2, _⟩ := facsI_facts hb
  obtain ⟨g1, g2, _⟩ := facsI_facts hb'
  apply pairwise_extI (R := fun a b => isAtomPow a = true ∧ isAtomPow b = true ∧ cmpAtom a b = .lt)
  · rintro a b ⟨ha, hb, h1⟩ ⟨_, _, h2⟩
    rw [← cmpAtom_swap a b ha hb, h1] at h2
    cases h2
  · exact List.Pairwise.imp_of_mem (fun {a b} ha hb hab => ⟨f1 a ha, f1 b hb, hab⟩) f2
  · exact List.Pairwise.imp_of_mem (fun {a b} ha hb hab => ⟨g1 a ha, g1 b hb, hab⟩) g2
  · intro x
    exact ⟨facs_subset sh hb hb' wb wb' h x, facs_subset sh hb' hb wb' wb h.symm x⟩

theorem lastF_mem (b : IExp) : lastF b ∈ facsI b := by
  cases b <;> simp [lastF, facsI]

theorem fsI_ne_zero (sh : Nat → Nat) {b : IExp} (hb : isBodyI b = true) (wb : wfI sh b = true) :
    fsI b ≠ 0 := by
  intro h0
  obtain ⟨i, s, e, he⟩ := atomPow_form (lastF_atomPow hb)
  have hm : pow (atom i s) e ∈ facsI b := by rw [← he]; exact lastF_mem b
  have hv := fsI_at sh hb wb i s e hm
  obtain ⟨he0, _⟩ := wf_atomPow sh (facs_wf sh wb _ hm)
  rw [h0] at hv
  exact he0 (by simpa using hv.symm)

/-! ### monomials and polynomials -/

noncomputable def kI : IExp → ℕ →₀ ℕ
  | .mul (.num _) b => fsI b
  | _ => 0

def cfI : IExp → ℤ
  | .num z => z
  | .mul (.num c) _ => c
  | _ => 0

theorem phi_monoI {m : IExp} (h : isMonoI m = true) : phiI m = monomial (kI m) (cfI m) := by
  rcases isMonoI_cases h with ⟨z, rfl, _⟩ | ⟨c, b, rfl, _, hb⟩
  · simp [phiI, kI, cfI, C_apply]
  · simp only [phiI, kI, cfI, phi_bodyI hb, C_mul_monomial, mul_one]

theorem cfI_ne_zero {m : IExp} (h : isMonoI m = true) : cfI m ≠ 0 := by
  rcases isMonoI_cases h with ⟨z, rfl, hz⟩ | ⟨c, b, rfl, hc, _⟩
  · exact hz
  · exact hc

theorem bodyCmp_self (b : IExp) : bodyCmp b b = .eq := by
  have := bodyCmp_swap b b
  cases h : bodyCmp b b <;> simp [h, Ordering.swap] at this ⊢

theorem cmpMono_self {m : IExp} (h : isMonoI m = true) : cmpMono m m = .eq := by
  rcases isMonoI_cases h with ⟨z, rfl, _⟩ | ⟨c, b, rfl, _, _⟩
  · rfl
  · simp only [cmpMono]; exact bodyCmp_self b

/-- a monomial is determined by its exponent vector and coefficient -/
theorem mono_injI (sh : Nat → Nat) {a b : IExp} (ha : isMonoI a = true) (hb : isMonoI b = true)
    (wa : wfI sh a = true) (wb : wfI sh b = true) (hk : kI a = kI b) (hc : cfI a = cfI b) : a = b := by
  rcases isMonoI_cases ha with ⟨x, rfl, _⟩ | ⟨c, p, rfl, _, hp⟩ <;>
    rcases isMonoI_cases hb with ⟨y, rfl, _⟩ | ⟨d, q, rfl, _, hq⟩
  · simp only [cfI] at hc; rw [hc]
  · exfalso
    simp only [kI] at hk
    exact fsI_ne_zero sh hq (by simpa [wfI] using wb) hk.symm
  · exfalso
    simp only [kI] at hk
    exact fsI_ne_zero sh hp (by simpa [wfI] using wa) hk
  · simp only [kI] at hk
    simp only [cfI] at hc
    rw [fsI_inj sh hp hq (by simpa [wfI] using wa) (by simpa [wfI] using wb) hk, hc]

theorem kI_ne_of_lt (sh : Nat → Nat) {a b : IExp} (ha : isMonoI a = true) (hb : isMonoI b = true)
    (wa : wfI sh a = true) (wb : wfI sh b = true) (h : cmpMono a b = .lt) : kI a ≠ kI b := by
  intro hk
  rcases isMonoI_cases ha with ⟨x, rfl, _⟩ | ⟨c, p, rfl, _, hp⟩ <;>
    rcases isMonoI_cases hb with ⟨y, rfl, _⟩ | ⟨d, q, rfl, _, hq⟩
  · simp [cmpMono] at h
  · simp only [kI] at hk
    exact fsI_ne_zero sh hq (by simpa [wfI] using wb) hk.symm
  · simp [cmpMono] at h
  · simp only [kI] at hk
    have := fsI_inj sh hp hq (by simpa [wfI] using wa) (by simpa [wfI] using wb) hk
    subst this
    simp only [cmpMono, bodyCmp_self] at h
    cases h

noncomputable def sumLI (l : List IExp) : MvPolynomial ℕ ℤ :=
  (l.map (fun m => monomial (kI m) (cfI m))).sum

theorem sumLI_append (l1 l2 : List IExp) : sumLI (l1 ++ l2) = sumLI l1 + sumLI l2 := by
  simp [sumLI]

theorem phi_sumLI : ∀ {s : IExp}, isPolyI s = true → phiI s = sumLI (monosI s) := by
  intro s
  induction s with
  | add p m ihp _ =>
    intro h
    simp only [isPolyI, Bool.and_eq_true, beq_iff_eq] at h
    simp only [phiI, monosI, sumLI_append, ihp h.1.1, phi_monoI h.1.2]
    simp [sumLI]
  | num z => intro h; simp [monosI, sumLI, phi_monoI (show isMonoI (num z) = true by simpa [isPolyI] using h)]
  | mul u v _ _ =>
    intro h; simp [monosI, sumLI, phi_monoI (show isMonoI (mul u v) = true by simpa [isPolyI] using h)]
  | atom i s => intro h; simp [isPolyI, isMonoI] at h
  | sub u v _ _ => intro h; simp [isPolyI, isMonoI] at h
  | neg u _ => intro h; simp [isPolyI, isMonoI] at h
  | pow u e _ => intro h; simp [isPolyI, isMonoI] at h

theorem coeff_sumLI_none (k : ℕ →₀ ℕ) (l : List IExp) (h : ∀ m ∈ l, kI m ≠ k) : coeff k (sumLI l) = 0 := by
  induction l with
  | nil => simp [sumLI]
  | cons a l ih =>
    have : sumLI (a :: l) = monomial (kI a) (cfI a) + sumLI l := by simp [sumLI]
    rw [this, coeff_add, coeff_monomial, if_neg (h a (by simp)), ih (fun m hm => h m (by simp [hm]))]
    simp

theorem coeff_sumLI_one (l : List IExp) (hd : l.Pairwise (fun a b => kI a ≠ kI b)) (m0 : IExp) (hm : m0 ∈ l) :
    coeff (kI m0) (sumLI l) = cfI m0 := by
  induction l with
  | nil => cases hm
  | cons a l ih =>
    have hs : sumLI (a :: l) = monomial (kI a) (cfI a) + sumLI l := by simp [sumLI]
    have hp := List.pairwise_cons.1 hd
    rw [hs, coeff_add, coeff_monomial]
    rcases List.mem_cons.1 hm with rfl | hm'
    · rw [if_pos rfl, coeff_sumLI_none _ l (fun m hm2 e => hp.1 m hm2 e.symm)]; simp
    · rw [if_neg (hp.1 m0 hm'), ih hp.2 hm']; simp

theorem monos_wf (sh : Nat → Nat) : ∀ {s : IExp}, wfI sh s = true → ∀ m ∈ monosI s, wfI sh m = true := by
  intro s
  induction s with
  | add p a ihp _ =>
    intro h x hx
    simp only [wfI, Bool.and_eq_true] at h
    simp only [monosI, List.mem_append, List.mem_singleton] at hx
    rcases hx with hx | hx
    · exact ihp h.1 x hx
    · rw [hx]; exact h.2
  | atom i s => intro h x hx; simp only [monosI, List.mem_singleton] at hx; rw [hx]; exact h
  | num z => intro h x hx; simp only [monosI, List.mem_singleton] at hx; rw [hx]; exact h
  | mul u v _ _ => intro h x hx; simp only [monosI, List.mem_singleton] at hx; rw [hx]; exact h
  | sub u v _ _ => intro h x hx; simp only [monosI, List.mem_singleton] at hx; rw [hx]; exact h
  | neg u _ => intro h x hx; simp only [monosI, List.mem_singleton] at hx; rw [hx]; exact h
  | pow u e _ => intro h x hx; simp only [monosI, List.mem_singleton] at hx; rw [hx]; exact h

theorem monos_distinct (sh : Nat → Nat) {s : IExp} (hs : isPolyI s = true) (ws : wfI sh s = true) :
    (monosI s).Pairwise (fun a b => kI a ≠ kI b) := by
  obtain ⟨s1, s2, _⟩ := monosI_facts hs
  refine List.Pairwise.imp_of_mem ?_ s2
  intro a b ha hb hab
  exact kI_ne_of_lt sh (s1 a ha) (s1 b hb) (monos_wf sh ws a ha) (monos_wf sh ws b hb) hab

/-- every monomial of `s` is a monomial of `t` when the two trees stand for the same polynomial -/
theorem monos_subsetI (sh : Nat → Nat) {s t : IExp} (hs : isPolyI s = true) (ht : isPolyI t = true)
    (ws : wfI sh s = true) (wt : wfI sh t = true) (h : phiI s = phiI t) :
    ∀ m ∈ monosI s, m ∈ monosI t := by
  obtain ⟨s1, _, _⟩ := monosI_facts hs
  obtain ⟨t1, _, _⟩ := monosI_facts ht
  have ds := monos_distinct sh hs ws
  have dt := monos_distinct sh ht wt
  intro m hm
  have c1 : coeff (kI m) (phiI t) = cfI m := by
    rw [← h, phi_sumLI hs]; exact coeff_sumLI_one _ ds m hm
  by_cases hex : ∃ m' ∈ monosI t, kI m' = kI m
  · obtain ⟨m', hm', hk⟩ := hex
    have c2 : coeff (kI m') (phiI t) = cfI m' := by
      rw [phi_sumLI ht]; exact coeff_sumLI_one _ dt m' hm'
    rw [hk, c1] at c2
    have : m' = m := mono_injI sh (t1 m' hm') (s1 m hm) (monos_wf sh wt m' hm') (monos_wf sh ws m hm) hk c2.symm
    rw [← this]; exact hm'
  · exfalso
    have : coeff (kI m) (phiI t) = 0 := by
      rw [phi_sumLI ht]; exact coeff_sumLI_none _ _ (fun m' hm' e => hex ⟨m', hm', e⟩)
    rw [c1] at this
    exact cfI_ne_zero (s1 m hm) this

/-- a polynomial tree is determined by its polynomial -/
theorem poly_injI (sh : Nat → Nat) {s t : IExp} (hs : isPolyI s = true) (ht : isPolyI t = true)
    (ws : wfI sh s = true) (wt : wfI sh t = true) (h : phiI s = phiI t) : s = t := by
  apply monosI_inj hs ht
  obtain ⟨s1, s2, _⟩ := monosI_facts hs
  obtain ⟨t1, t2, _⟩ := monosI_facts ht
  apply pairwise_extI (R := fun a b => isMonoI a = true ∧ isMonoI b = true ∧ cmpMono a b = .lt)
  · rintro a b ⟨ha, hb, h1⟩ ⟨_, _, h2⟩
    have := cmpMono_trans ha hb ha h1 h2
    rw [cmpMono_self ha] at this
    cases this
  · exact List.Pairwise.imp_of_mem (fun {a b} ha hb hab => ⟨s1 a ha, s1 b hb, hab⟩) s2
  · exact List.Pairwise.imp_of_mem (fun {a b} ha hb hab => ⟨t1 a ha, t1 b hb, hab⟩) t2
  · intro x
    exact ⟨monos_subsetI sh hs ht ws wt h x, monos_subsetI sh ht hs wt ws h.symm x⟩

theorem lastM_mem (s : IExp) : lastM s ∈ monosI s := by
  cases s <;> simp [lastM, monosI]

theorem phi_ne_zeroI (sh : Nat → Nat) {t : IExp} (ht : isPolyI t = true) (wt : wfI sh t = true) :
    phiI t ≠ 0 := by
  intro h0
  obtain ⟨t1, _, _⟩ := monosI_facts ht
  have c := coeff_sumLI_one _ (monos_distinct sh ht wt) (lastM t) (lastM_mem t)
  rw [← phi_sumLI ht, h0] at c
  exact cfI_ne_zero (t1 _ (lastM_mem t)) (by simpa using c.symm)

/-- a normal form is determined by its polynomial -/
theorem nf_injI (sh : Nat → Nat) {s t : IExp} (hs : isNFI s = true) (ht : isNFI t = true)
    (ws : wfI sh s = true) (wt : wfI sh t = true) (h : phiI s = phiI t) : s = t := by
  rcases (isNFI_iff s).1 hs with rfl | hs <;> rcases (isNFI_iff t).1 ht with rfl | ht
  · rfl
  · exfalso; exact phi_ne_zeroI sh ht wt (by rw [← h]; simp [phiI])
  · exfalso; exact phi_ne_zeroI sh hs ws (by rw [h]; simp [phiI])
  · exact poly_injI sh hs ht ws wt h

/-- terms (powers of atoms only, atoms table entries of their rank, no exponent 0) with the same
value under every valuation have the same `simp_full` normal form -/
theorem simpFull_canonical (sh : Nat → Nat) {a b : IExp} (pa : atomicPowers a = true) (pb : atomicPowers b = true)
    (wa : wfI sh a = true) (wb : wfI sh b = true) (h : ∀ ρ, evalI ρ a = evalI ρ b) :
    simpFull a = simpFull b := by
  apply nf_injI sh (simpFull_nf pa) (simpFull_nf pb) (simpFull_wf sh a wa) (simpFull_wf sh b wb)
  apply MvPolynomial.funext
  intro ρ
  rw [eval_phiI, eval_phiI, simpFull_sound, simpFull_sound, h ρ]

end Holpy.C10.IntN
