import Holpy.C10.PolyModel
import Holpy.C10.Proofs
import Mathlib.Tactic.Ring
/-
C10 — theory of `collect_pairs` (generic in the key order and the value semiring).
`wsum g l = Σ v * g k` is the invariant: collecting does not change it for ANY `g`, the result is
strictly sorted with non-zero values, and such a list is determined by its `wsum`s.
-/
set_option linter.unusedSectionVars false
namespace Holpy.C10.Poly
open Holpy.C10

section
variable {κ V : Type} [CommSemiring V] [DecidableEq V] {cmp : κ → κ → Ordering}

/-- `Σ v * g k` over the pairs. -/
def wsum (g : κ → V) : List (κ × V) → V
  | [] => 0
  | p :: l => p.2 * g p.1 + wsum g l

theorem wsum_append (g : κ → V) (l1 l2 : List (κ × V)) :
    wsum g (l1 ++ l2) = wsum g l1 + wsum g l2 := by
  induction l1 with
  | nil => simp [wsum]
  | cons p l ih => simp [wsum, ih]; ring

theorem wsum_insertAdd (h : TotalOrder cmp) (g : κ → V) (k : κ) (v : V) (l : List (κ × V)) :
    wsum g (insertAdd cmp k v l) = v * g k + wsum g l := by
  induction l with
  | nil => simp [insertAdd, wsum]
  | cons p l ih =>
    obtain ⟨k', v'⟩ := p
    unfold insertAdd
    cases hc : cmp k k' with
    | lt => simp [wsum]
    | eq =>
      have := (h.eq_iff k k').1 hc
      subst this
      simp [wsum]; ring
    | gt => simp [wsum, ih]; ring

theorem wsum_merged (h : TotalOrder cmp) (g : κ → V) (l : List (κ × V)) :
    wsum g (merged cmp l) = wsum g l := by
  induction l with
  | nil => rfl
  | cons p l ih =>
    show wsum g (insertAdd cmp p.1 p.2 (merged cmp l)) = _
    rw [wsum_insertAdd h, ih]; rfl

theorem wsum_filter (g : κ → V) (l : List (κ × V)) :
    wsum g (l.filter (fun p => p.2 ≠ 0)) = wsum g l := by
  induction l with
  | nil => rfl
  | cons p l ih =>
    simp only [List.filter_cons]
    split
    · simp only [wsum]; rw [ih]
    · next hp =>
      have h0 : p.2 = 0 := by simpa using hp
      simp only [wsum, h0]; rw [ih]; ring

/-- Collecting does not change any weighted sum. -/
theorem wsum_collect (h : TotalOrder cmp) (g : κ → V) (l : List (κ × V)) :
    wsum g (collect cmp l) = wsum g l := by
  unfold collect
  rw [wsum_filter, wsum_merged h]

/-- Keys strictly increasing. -/
def SortedK (cmp : κ → κ → Ordering) (l : List (κ × V)) : Prop :=
  l.Pairwise (fun a b => cmp a.1 b.1 = .lt)

/-- The shape `collect_pairs` returns: keys strictly increasing, no zero value. -/
def Canon (cmp : κ → κ → Ordering) (l : List (κ × V)) : Prop :=
  SortedK cmp l ∧ ∀ p ∈ l, p.2 ≠ 0

theorem key_mem_insertAdd (k : κ) (v : V) (l : List (κ × V)) (p : κ × V)
    (hp : p ∈ insertAdd cmp k v l) : p.1 = k ∨ ∃ q ∈ l, q.1 = p.1 := by
  induction l with
  | nil => simp [insertAdd] at hp; left; rw [hp]
  | cons q l ih =>
    obtain ⟨k', v'⟩ := q
    unfold insertAdd at hp
    cases hc : cmp k k' with
    | lt =>
      simp [hc] at hp
      rcases hp with rfl | rfl | hp
      · left; rfl
      · right; exact ⟨(k', v'), by simp, rfl⟩
      · right; exact ⟨p, by simp [hp], rfl⟩
    | eq =>
      simp [hc] at hp
      rcases hp with rfl | hp
      · right; exact ⟨(k', v'), by simp, rfl⟩
      · right; exact ⟨p, by simp [hp], rfl⟩
    | gt =>
      simp [hc] at hp
      rcases hp with rfl | hp
      · right; exact ⟨(k', v'), by simp, rfl⟩
      · rcases ih hp with h1 | ⟨q, hq, he⟩
        · left; exact h1
        · right; exact ⟨q, by simp [hq], he⟩

theorem sorted_insertAdd (h : TotalOrder cmp) (k : κ) (v : V) (l : List (κ × V))
    (hl : SortedK cmp l) : SortedK cmp (insertAdd cmp k v l) := by
  induction l with
  | nil => simp [insertAdd, SortedK]
  | cons q l ih =>
    obtain ⟨k', v'⟩ := q
    have hl' := List.pairwise_cons.1 hl
    unfold insertAdd
    cases hc : cmp k k' with
    | lt =>
      simp only
      refine List.pairwise_cons.2 ⟨?_, hl⟩
      intro x hx
      rcases List.mem_cons.1 hx with rfl | hx
      · exact hc
      · exact h.lt_trans _ _ _ hc (hl'.1 x hx)
    | eq =>
      simp only
      exact List.pairwise_cons.2 ⟨fun x hx => hl'.1 x hx, hl'.2⟩
    | gt =>
      simp only
      refine List.pairwise_cons.2 ⟨?_, ih hl'.2⟩
      intro x hx
      rcases key_mem_insertAdd k v l x hx with h1 | ⟨q, hq, he⟩
      · rw [h1]; exact (h.gt_iff _ _).1 hc
      · rw [← he]; exact hl'.1 q hq

theorem sorted_merged (h : TotalOrder cmp) (l : List (κ × V)) : SortedK cmp (merged cmp l) := by
  induction l with
  | nil => simp [merged, SortedK]
  | cons p l ih => exact sorted_insertAdd h p.1 p.2 _ ih

theorem canon_collect (h : TotalOrder cmp) (l : List (κ × V)) : Canon cmp (collect cmp l) := by
  constructor
  · exact List.Pairwise.sublist List.filter_sublist (sorted_merged h l)
  · intro p hp
    have := (List.mem_filter.1 hp).2
    simpa using this

/-- The coefficient of `k`: the weighted sum for the indicator of `k`. -/
def delta (cmp : κ → κ → Ordering) (k : κ) : κ → V := fun k' => if cmp k' k = .eq then 1 else 0

theorem coef_of_all_gt (h : TotalOrder cmp) (k : κ) (l : List (κ × V))
    (hl : ∀ p ∈ l, cmp k p.1 = .lt) : wsum (delta cmp k) l = 0 := by
  induction l with
  | nil => rfl
  | cons p l ih =>
    have h1 := hl p (by simp)
    have : cmp p.1 k ≠ .eq := by
      intro he
      have := (h.eq_iff _ _).1 he
      rw [this] at h1
      exact lt_irrefl h k h1
    simp [wsum, delta, this, ih (fun q hq => hl q (by simp [hq]))]

theorem lt_irrefl' (h : TotalOrder cmp) (a : κ) : cmp a a ≠ .lt := lt_irrefl h a

/-- A canonical list is determined by its coefficients. -/
theorem canon_ext (h : TotalOrder cmp) : ∀ (l1 l2 : List (κ × V)), Canon cmp l1 → Canon cmp l2 →
    (∀ k, wsum (delta cmp k) l1 = wsum (delta cmp k) l2) → l1 = l2 := by
  intro l1
  induction l1 with
  | nil =>
    intro l2 _ h2 hc
    cases l2 with
    | nil => rfl
    | cons q l2 =>
      exfalso
      have s2 := List.pairwise_cons.1 h2.1
      have := hc q.1
      simp only [wsum] at this
      rw [coef_of_all_gt h q.1 l2 (fun p hp => s2.1 p hp)] at this
      have e : cmp q.1 q.1 = .eq := (h.eq_iff _ _).2 rfl
      simp [delta, e] at this
      exact h2.2 q (by simp) this.symm
  | cons p l1 ih =>
    intro l2 h1 h2 hc
    have s1 := List.pairwise_cons.1 h1.1
    cases l2 with
    | nil =>
      exfalso
      have := hc p.1
      simp only [wsum] at this
      rw [coef_of_all_gt h p.1 l1 (fun q hq => s1.1 q hq)] at this
      have e : cmp p.1 p.1 = .eq := (h.eq_iff _ _).2 rfl
      simp [delta, e] at this
      exact h1.2 p (by simp) this
    | cons q l2 =>
      have s2 := List.pairwise_cons.1 h2.1
      have epp : cmp p.1 p.1 = .eq := (h.eq_iff _ _).2 rfl
      have eqq : cmp q.1 q.1 = .eq := (h.eq_iff _ _).2 rfl
      -- the two smallest keys agree
      have hk : p.1 = q.1 := by
        cases hcmp : cmp p.1 q.1 with
        | eq => exact (h.eq_iff _ _).1 hcmp
        | lt =>
          exfalso
          have := hc p.1
          simp only [wsum] at this
          rw [coef_of_all_gt h p.1 l1 (fun r hr => s1.1 r hr),
              coef_of_all_gt h p.1 l2 (fun r hr => h.lt_trans _ _ _ hcmp (s2.1 r hr))] at this
          have ne : cmp q.1 p.1 ≠ .eq := by
            intro he; have := (h.eq_iff _ _).1 he; rw [this] at hcmp; exact lt_irrefl h _ hcmp
          simp [delta, epp, ne] at this
          exact h1.2 p (by simp) this
        | gt =>
          exfalso
          have hlt := (h.gt_iff _ _).1 hcmp
          have := hc q.1
          simp only [wsum] at this
          rw [coef_of_all_gt h q.1 l2 (fun r hr => s2.1 r hr),
              coef_of_all_gt h q.1 l1 (fun r hr => h.lt_trans _ _ _ hlt (s1.1 r hr))] at this
          have ne : cmp p.1 q.1 ≠ .eq := by rw [hcmp]; simp
          simp [delta, eqq, ne] at this
          exact h2.2 q (by simp) this.symm
      -- and so do their values
      have hv : p.2 = q.2 := by
        have := hc p.1
        simp only [wsum] at this
        rw [coef_of_all_gt h p.1 l1 (fun r hr => s1.1 r hr)] at this
        rw [coef_of_all_gt h p.1 l2 (fun r hr => by rw [hk]; exact s2.1 r hr)] at this
        have e2 : cmp q.1 p.1 = .eq := (h.eq_iff _ _).2 hk.symm
        simpa [delta, epp, e2] using this
      have hpq : p = q := Prod.ext hk hv
      subst hpq
      congr 1
      apply ih l2 ⟨s1.2, fun r hr => h1.2 r (by simp [hr])⟩ ⟨s2.2, fun r hr => h2.2 r (by simp [hr])⟩
      intro k
      have := hc k
      simp only [wsum] at this
      by_cases hke : cmp p.1 k = .eq
      · have := (h.eq_iff _ _).1 hke
        subst this
        rw [coef_of_all_gt h p.1 l1 (fun r hr => s1.1 r hr), coef_of_all_gt h p.1 l2 (fun r hr => s2.1 r hr)]
      · simpa [delta, hke] using this

/-- Two lists of pairs are the same formal sum. -/
def SameSum (l1 l2 : List (κ × V)) : Prop := ∀ g : κ → V, wsum g l1 = wsum g l2

/-- `collect_pairs` gives identical results on lists that are the same formal sum. -/
theorem collect_congr (h : TotalOrder cmp) {l1 l2 : List (κ × V)} (hs : SameSum l1 l2) :
    collect cmp l1 = collect cmp l2 :=
  canon_ext h _ _ (canon_collect h l1) (canon_collect h l2)
    (fun k => by rw [wsum_collect h, wsum_collect h]; exact hs _)

theorem insertAdd_of_lt_all (k : κ) (v : V) (l : List (κ × V)) (hl : ∀ p ∈ l, cmp k p.1 = .lt) :
    insertAdd cmp k v l = (k, v) :: l := by
  cases l with
  | nil => rfl
  | cons q l => obtain ⟨k', v'⟩ := q; simp [insertAdd, hl (k', v') (by simp)]

/-- A canonical list is a fixed point of `collect_pairs`. -/
theorem collect_of_canon {l : List (κ × V)} (hl : Canon cmp l) : collect cmp l = l := by
  have hm : merged cmp l = l := by
    induction l with
    | nil => rfl
    | cons p l ih =>
      have s := List.pairwise_cons.1 hl.1
      show insertAdd cmp p.1 p.2 (merged cmp l) = p :: l
      rw [ih ⟨s.2, fun r hr => hl.2 r (by simp [hr])⟩]
      exact insertAdd_of_lt_all p.1 p.2 l s.1
  unfold collect
  rw [hm]
  exact List.filter_eq_self.2 (fun p hp => by simpa using hl.2 p hp)

theorem sameSum_collect (h : TotalOrder cmp) (l : List (κ × V)) : SameSum (collect cmp l) l :=
  fun g => wsum_collect h g l

end

end Holpy.C10.Poly
