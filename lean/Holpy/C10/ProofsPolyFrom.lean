import Holpy.C10.ProofsPolyUnit
/-
C10 — `from_poly` writes a polynomial as an expression whose `convert_to_poly` is that polynomial
again (so `from_poly ∘ convert_to_poly` is stable).
-/
set_option linter.unusedSectionVars false
namespace Holpy.C10.Poly
open Holpy.C10

section
variable {α : Type} [CommRing α] [DecidableEq α]

theorem canon_prefix {κ V : Type} [CommSemiring V] [DecidableEq V] {cmp : κ → κ → Ordering}
    {l1 l2 : List (κ × V)} (h : Canon cmp (l1 ++ l2)) : Canon cmp l1 :=
  ⟨List.Pairwise.sublist (List.sublist_append_left l1 l2) h.1, fun p hp => h.2 p (by simp [hp])⟩

theorem canon_single_mono (a k : Nat) (hk : k ≠ 0) : Canon natCmp [(a, k)] :=
  ⟨List.pairwise_singleton _ _, by simpa using hk⟩

theorem mkPoly_single (m : Mono) (c : α) (hc : c ≠ 0) : mkPoly [(m, c)] = [(m, c)] :=
  collect_of_canon ⟨List.pairwise_singleton _ _, by simpa using hc⟩

theorem pmul_single (m1 m2 : Mono) (c1 c2 : α) (hc : c1 * c2 ≠ 0) :
    pmul [(m1, c1)] [(m2, c2)] = [(monoMul m1 m2, c1 * c2)] := by
  unfold pmul prodTerms
  simp only [List.flatMap_cons, List.flatMap_nil, List.map_cons, List.map_nil, List.append_nil]
  exact mkPoly_single _ _ hc

theorem toPoly_atom (h1 : (1 : α) ≠ 0) (a : Nat) : toPoly (.atom a : PExp α) = [([(a, 1)], 1)] := by
  show mkPoly [(collect natCmp [(a, 1)], (1 : α))] = _
  rw [collect_of_canon (canon_single_mono a 1 (by decide)), mkPoly_single _ _ h1]

theorem monoMul_same (a k : Nat) : monoMul [(a, k)] [(a, 1)] = [(a, 1 + k)] := by
  have e : natCmp a a = .eq := (natCmp_total'.eq_iff a a).2 rfl
  simp [monoMul, collect, merged, insertAdd, e]

theorem toPoly_pow_atom (h1 : (1 : α) ≠ 0) (a : Nat) : ∀ k, k ≠ 0 →
    toPoly (.pow (.atom a) k : PExp α) = [([(a, k)], 1)]
  | 0, h => absurd rfl h
  | 1, _ => by show toPoly (.atom a : PExp α) = _; exact toPoly_atom h1 a
  | k + 2, _ => by
    have ih := toPoly_pow_atom h1 a (k + 1) (by omega)
    show ppow (toPoly (.atom a : PExp α)) (k + 2) = _
    rw [ppow_succ (good_toPoly _) (k + 1)]
    have : ppow (toPoly (.atom a : PExp α)) (k + 1) = [([(a, k + 1)], 1)] := ih
    rw [this, toPoly_atom h1, pmul_single _ _ _ _ (by simpa using h1), monoMul_same,
      show 1 + (k + 1) = k + 2 by omega]
    simp

/-- The expression `from_mono` writes for one factor. -/
def factorExp (f : Nat × Nat) : PExp α := if f.2 = 1 then .atom f.1 else .pow (.atom f.1) f.2

theorem toPoly_factorExp (h1 : (1 : α) ≠ 0) (f : Nat × Nat) (hf : f.2 ≠ 0) :
    toPoly (factorExp f : PExp α) = [([f], 1)] := by
  unfold factorExp
  split
  · next h => rw [toPoly_atom h1]; obtain ⟨a, k⟩ := f; simp at h; simp [h]
  · exact toPoly_pow_atom h1 f.1 f.2 hf

theorem toPoly_foldl_mul (h1 : (1 : α) ≠ 0) (c : α) (hc : c ≠ 0) :
    ∀ (rest : Mono) (m0 : Mono) (E : PExp α), toPoly E = [(m0, c)] → Canon natCmp (m0 ++ rest) →
      toPoly ((rest.map factorExp).foldl .mul E) = [(m0 ++ rest, c)]
  | [], m0, E, hE, _ => by simpa using hE
  | f :: rest, m0, E, hE, hcan => by
    have hcan' : Canon natCmp ((m0 ++ [f]) ++ rest) := by simpa using hcan
    have hf : f.2 ≠ 0 := hcan.2 f (by simp)
    have hstep : toPoly (.mul E (factorExp f)) = [(m0 ++ [f], c)] := by
      show pmul (toPoly E) (toPoly (factorExp f)) = _
      rw [hE, toPoly_factorExp h1 f hf, pmul_single _ _ _ _ (by simpa using hc)]
      have : monoMul m0 [f] = m0 ++ [f] := collect_of_canon (canon_prefix hcan')
      rw [this]; simp
    have := toPoly_foldl_mul h1 c hc rest (m0 ++ [f]) (.mul E (factorExp f)) hstep hcan'
    simpa using this

theorem pconst_of_ne (c : α) (hc : c ≠ 0) : pconst c = [([], c)] := mkPoly_single _ _ hc

theorem pconst_zero : pconst (0 : α) = [] := by
  simp [pconst, mkPoly, collect, merged, insertAdd]

theorem toPoly_fromMono (h1 : (1 : α) ≠ 0) (t : Mono × α) (hm : Canon natCmp t.1) (hc : t.2 ≠ 0) :
    toPoly (fromMono t) = [t] := by
  obtain ⟨m, c⟩ := t
  simp only at hm hc
  unfold fromMono
  simp only
  by_cases hc1 : c = 1
  · subst hc1
    simp only [if_true]
    cases m with
    | nil => simp only [List.map_nil]; exact pconst_of_ne 1 h1
    | cons f rest =>
      simp only [List.map_cons]
      have hf : f.2 ≠ 0 := hm.2 f (by simp)
      have := toPoly_foldl_mul h1 (1 : α) h1 rest [f] (factorExp f) (toPoly_factorExp h1 f hf) (by simpa using hm)
      change toPoly (List.foldl PExp.mul (factorExp f) (List.map factorExp rest)) = _
      simpa using this
  · simp only [hc1, if_false]
    have := toPoly_foldl_mul h1 c hc m [] (.num c) (pconst_of_ne c hc) (by simpa using hm)
    change toPoly (List.foldl PExp.mul (PExp.num c) (List.map factorExp m)) = _
    simpa using this

theorem toPoly_foldl_add (h1 : (1 : α) ≠ 0) :
    ∀ (rest p0 : PolyL α) (E : PExp α), toPoly E = p0 → Good (p0 ++ rest) →
      toPoly ((rest.map fromMono).foldl .add E) = p0 ++ rest
  | [], p0, E, hE, _ => by simpa using hE
  | t :: rest, p0, E, hE, hg => by
    have hg' : Good ((p0 ++ [t]) ++ rest) := by simpa using hg
    have hstep : toPoly (.add E (fromMono t)) = p0 ++ [t] := by
      show padd (toPoly E) (toPoly (fromMono t)) = _
      rw [hE, toPoly_fromMono h1 t (hg.2 t (by simp)) (hg.1.2 t (by simp))]
      exact collect_of_canon (canon_prefix hg'.1)
    have := toPoly_foldl_add h1 rest (p0 ++ [t]) (.add E (fromMono t)) hstep hg'
    simpa using this

/-- `convert_to_poly (from_poly p) = p` for every well-formed polynomial. -/
theorem toPoly_fromPoly (h1 : (1 : α) ≠ 0) {p : PolyL α} (hp : Good p) : toPoly (fromPoly p) = p := by
  unfold fromPoly
  cases p with
  | nil => simp only [List.map_nil]; exact pconst_zero
  | cons t rest =>
    simp only [List.map_cons]
    have ht : toPoly (fromMono t) = [t] := toPoly_fromMono h1 t (hp.2 t (by simp)) (hp.1.2 t (by simp))
    have := toPoly_foldl_add h1 rest [t] (fromMono t) ht (by simpa using hp)
    simpa using this

end

end Holpy.C10.Poly
