import Holpy.C10.ProofsIntInjBody
import Holpy.C10.ProofsIntWf
import Mathlib.Algebra.MvPolynomial.Funext

/-! A monomial body is determined by its exponent vector (atoms table entries of their rank, no
exponent 0). -/

namespace Holpy.C10.IntN
open IExp MvPolynomial

/-- the multivariate polynomial an integer term stands for -/
noncomputable def phiI : IExp → MvPolynomial ℕ ℤ
  | .atom i _ => X i
  | .num z => C z
  | .add a b => phiI a + phiI b
  | .sub a b => phiI a - phiI b
  | .mul a b => phiI a * phiI b
  | .neg a => - phiI a
  | .pow b e => phiI b ^ e

theorem eval_phiI (ρ : ℕ → ℤ) (e : IExp) : MvPolynomial.eval ρ (phiI e) = evalI ρ e := by
  induction e with
  | atom i s => simp [phiI, evalI]
  | num z => simp [phiI, evalI]
  | add a b iha ihb => simp [phiI, evalI, iha, ihb]
  | sub a b iha ihb => simp [phiI, evalI, iha, ihb]
  | mul a b iha ihb => simp [phiI, evalI, iha, ihb]
  | neg a ih => simp [phiI, evalI, ih]
  | pow b e ih => simp [phiI, evalI, ih]

/-- exponent vector of a body -/
noncomputable def fsI : IExp → ℕ →₀ ℕ
  | .pow (.atom i _) e => Finsupp.single i e
  | .mul b a => fsI b + fsI a
  | _ => 0

theorem atomPow_form {a : IExp} (h : isAtomPow a = true) : ∃ i s e, a = pow (atom i s) e := by
  obtain ⟨x, e, rfl⟩ := isAtomPow_pow h
  cases x with
  | atom i s => exact ⟨i, s, e, rfl⟩
  | _ => simp [isAtomPow] at h

theorem phi_atomPow {a : IExp} (h : isAtomPow a = true) : phiI a = monomial (fsI a) 1 := by
  obtain ⟨i, s, e, rfl⟩ := atomPow_form h
  simp only [phiI, fsI]
  exact X_pow_eq_monomial

theorem phi_bodyI : ∀ {b : IExp}, isBodyI b = true → phiI b = monomial (fsI b) 1 := by
  intro b
  induction b with
  | mul p a ihp _ =>
    intro h
    simp only [isBodyI, Bool.and_eq_true, beq_iff_eq] at h
    simp only [phiI, fsI, ihp h.1.2, phi_atomPow h.1.1, monomial_mul, mul_one]
  | pow u e _ => intro h; exact phi_atomPow (by simpa [isBodyI] using h)
  | atom i s => intro h; simp [isBodyI, isAtomPow] at h
  | num z => intro h; simp [isBodyI, isAtomPow] at h
  | add u v _ _ => intro h; simp [isBodyI, isAtomPow] at h
  | sub u v _ _ => intro h; simp [isBodyI, isAtomPow] at h
  | neg u _ => intro h; simp [isBodyI, isAtomPow] at h

theorem body_cases {b : IExp} (h : isBodyI b = true) :
    (∃ i s e, b = pow (atom i s) e) ∨
    (∃ p i s e, b = mul p (pow (atom i s) e) ∧ isBodyI p = true ∧
      cmpAtom (lastF p) (pow (atom i s) e) = .lt) := by
  cases b with
  | mul p a =>
    simp only [isBodyI, Bool.and_eq_true, beq_iff_eq] at h
    obtain ⟨i, s, e, rfl⟩ := atomPow_form h.1.1
    exact Or.inr ⟨p, i, s, e, rfl, h.1.2, h.2⟩
  | pow u e => exact Or.inl (atomPow_form (by simpa [isBodyI] using h))
  | _ => simp [isBodyI, isAtomPow] at h

/-- an index that is not the rank of a factor has exponent 0 -/
theorem fsI_zero (i : Nat) : ∀ {b : IExp}, isBodyI b = true →
    (∀ s e, pow (atom i s) e ∉ facsI b) → fsI b i = 0 := by
  intro b
  induction b with
  | mul p a ihp _ =>
    intro h hn
    rcases body_cases h with ⟨j, s, e, he⟩ | ⟨p', j, s, e, he, hp, _⟩
    · cases he
    · cases he
      simp only [fsI, Finsupp.add_apply]
      rw [ihp hp (fun s' e' hm => hn s' e' (by simp [facsI, hm]))]
      by_cases hji : j = i
      · subst hji; exact absurd (by simp [facsI]) (hn s e)
      · simp [Finsupp.single_apply, hji]
  | pow u e _ =>
    intro h hn
    rcases body_cases h with ⟨j, s, e', he⟩ | ⟨p', j, s, e', he, _, _⟩
    · cases he
      simp only [fsI]
      by_cases hji : j = i
      · subst hji; exact absurd (by simp [facsI]) (hn s e)
      · simp [Finsupp.single_apply, hji]
    · cases he
  | atom i s => intro h; simp [isBodyI, isAtomPow] at h
  | num z => intro h; simp [isBodyI, isAtomPow] at h
  | add u v _ _ => intro h; simp [isBodyI, isAtomPow] at h
  | sub u v _ _ => intro h; simp [isBodyI, isAtomPow] at h
  | neg u _ => intro h; simp [isBodyI, isAtomPow] at h

theorem facs_wf (sh : Nat → Nat) : ∀ {b : IExp}, wfI sh b = true → ∀ a ∈ facsI b, wfI sh a = true := by
  intro b
  induction b with
  | mul p a ihp _ =>
    intro h x hx
    simp only [wfI, Bool.and_eq_true] at h
    simp only [facsI, List.mem_append, List.mem_singleton] at hx
    rcases hx with hx | hx
    · exact ihp h.1 x hx
    · rw [hx]; exact h.2
  | atom i s => intro h x hx; simp only [facsI, List.mem_singleton] at hx; rw [hx]; exact h
  | num z => intro h x hx; simp only [facsI, List.mem_singleton] at hx; rw [hx]; exact h
  | add u v _ _ => intro h x hx; simp only [facsI, List.mem_singleton] at hx; rw [hx]; exact h
  | sub u v _ _ => intro h x hx; simp only [facsI, List.mem_singleton] at hx; rw [hx]; exact h
  | neg u _ => intro h x hx; simp only [facsI, List.mem_singleton] at hx; rw [hx]; exact h
  | pow u e _ => intro h x hx; simp only [facsI, List.mem_singleton] at hx; rw [hx]; exact h

/-- two factors of a body with the same rank are the same factor -/
theorem cmpAtom_lt_ne (sh : Nat → Nat) {i s e j s' e' : Nat}
    (w1 : wfI sh (pow (atom i s) e) = true) (w2 : wfI sh (pow (atom j s') e') = true)
    (h : cmpAtom (pow (atom i s) e) (pow (atom j s') e') = .lt) : i ≠ j := by
  intro hij
  subst hij
  simp only [wfI, Bool.and_eq_true, beq_iff_eq] at w1 w2
  simp only [cmpAtom, baseCmp, ordThen_eq_lt, Nat.compare_eq_lt, Nat.compare_eq_eq] at h
  omega

/-- the exponent vector at the rank of a factor is the exponent of that factor -/
theorem fsI_at (sh : Nat → Nat) : ∀ {b : IExp}, isBodyI b = true → wfI sh b = true →
    ∀ i s e, pow (atom i s) e ∈ facsI b → fsI b i = e := by
  intro b
  induction b with
  | mul p a ihp _ =>
    intro h hw i s e hm
    rcases body_cases h with ⟨j, s', e', he⟩ | ⟨p', j, s', e', he, hp, hlt⟩
    · cases he
    · cases he
      have hw' := hw
      simp only [wfI, Bool.and_eq_true] at hw'
      obtain ⟨f1, _, f3⟩ := facsI_facts hp
      have hbelow : ∀ a ∈ facsI p, cmpAtom a (pow (atom j s') e') = .lt := by
        intro a ha
        rcases f3 a ha with h1 | h1
        · rw [h1]; exact hlt
        · exact cmpAtom_trans (f1 a ha) (lastF_atomPow hp) (by simp [isAtomPow]) h1 hlt
      simp only [facsI, List.mem_append, List.mem_singleton] at hm
      simp only [fsI, Finsupp.add_apply]
      rcases hm with hm | hm
      · rw [ihp hp hw'.1 i s e hm]
        have hne : i ≠ j := cmpAtom_lt_ne sh (facs_wf sh hw'.1 _ hm)
          (by simpa [wfI] using hw'.2) (hbelow _ hm)
        simp [Finsupp.single_apply, Ne.symm hne]
      · cases hm
        rw [fsI_zero i hp (fun s2 e2 hm2 => by
          have hne : i ≠ i := cmpAtom_lt_ne sh (facs_wf sh hw'.1 _ hm2)
            (by simpa [wfI] using hw'.2) (hbelow _ hm2)
          exact hne rfl)]
        simp
  | pow u e0 _ =>
    intro h hw i s e hm
    simp only [facsI, List.mem_singleton] at hm
    cases hm
    simp [fsI]
  | atom i s => intro h; simp [isBodyI, isAtomPow] at h
  | num z => intro h; simp [isBodyI, isAtomPow] at h
  | add u v _ _ => intro h; simp [isBodyI, isAtomPow] at h
  | sub u v _ _ => intro h; simp [isBodyI, isAtomPow] at h
  | neg u _ => intro h; simp [isBodyI, isAtomPow] at h

end Holpy.C10.IntN
