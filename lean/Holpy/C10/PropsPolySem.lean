import Holpy.C10.PolyModel
import Holpy.C10.ProofsPolySem
/-
C10 — semantic canonicity of the polynomial layer.
-/
namespace Holpy.C10
open Holpy.C10.Poly

/-- "Equal as polynomials" in the semantic sense: over an infinite integral domain (ℤ for nat/int
terms, ℚ for real ones) two expressions have the IDENTICAL `convert_to_poly` list exactly when they
have the same value under every valuation of the atoms. -/
theorem poly_canonical_semantic {α : Type} [CommRing α] [DecidableEq α] [IsDomain α] [Infinite α]
    (a b : PExp α) : toPoly a = toPoly b ↔ ∀ ρ : Nat → α, evalE ρ a = evalE ρ b := by
  constructor
  · intro h ρ
    rw [← evalPoly_toPoly, ← evalPoly_toPoly, h]
  · exact toPoly_eq_of_eval_eq a b

/- (x + y)^2 and x^2 + 2xy + y^2 over ℤ: equal everywhere, hence the same list -/
example : toPoly (.pow (.add (.atom 0) (.atom 1)) 2 : PExp Int)
    = toPoly (.add (.add (.pow (.atom 0) 2) (.mul (.num 2) (.mul (.atom 0) (.atom 1)))) (.pow (.atom 1) 2)) :=
  (poly_canonical_semantic _ _).2 (fun ρ => by simp only [evalE]; ring)

/-- A well-formed polynomial list that evaluates to 0 under every valuation is the empty list. -/
theorem poly_zero_of_eval_zero {α : Type} [CommRing α] [DecidableEq α] [IsDomain α] [Infinite α]
    {p : PolyL α} (hp : Good p) (h : ∀ ρ : Nat → α, evalPoly ρ p = 0) : p = [] :=
  good_eval_zero hp h

example : toPoly (.sub (.mul (.atom 0) (.atom 1)) (.mul (.atom 1) (.atom 0)) : PExp Int) = [] :=
  poly_zero_of_eval_zero (good_toPoly _) (fun ρ => by rw [evalPoly_toPoly]; simp only [evalE]; ring)

end Holpy.C10
