import Holpy.C10.ProofsNatOrd
import Holpy.C10.ProofsNF
/-
C10 — the normal-form shape is closed under the operations of `norm_full` (additive layer).
-/
namespace Holpy.C10
open NExp

theorem isBody_isTree {one : Nat} : ∀ {b : NExp}, isBody one b = true → isTree b = true := by
  intro b
  induction b with
  | atom i s => intro _; rfl
  | num n => intro h; simp [isBody] at h
  | add u v _ _ => intro h; simp [isBody] at h
  | suc u _ => intro h; simp [isBody] at h
  | mul x y ihx _ =>
    intro h
    rcases isBody_cases h with ⟨i, s, he⟩ | ⟨b1, i, s, he, hb1, _⟩
    · cases he
    · cases he; simp [isTree, ihx hb1]

/-- body and coefficient of a monomial -/
theorem isMono_dest {one : Nat} {m : NExp} (h : isMono one m = true) :
    (destMonomial m = .num 1 ∨ isBody one (destMonomial m) = true) ∧ (coeffForm m).1 = destMonomial m ∧
    1 ≤ (coeffForm m).2 ∧ m = fromCoeff (destMonomial m) (coeffForm m).2 := by
  rcases isMono_cases h with ⟨n, rfl, hn⟩ | ⟨b, c, rfl, hb, hc⟩ | hb
  · refine ⟨Or.inl rfl, rfl, hn, ?_⟩
    simp only [destMonomial, coeffForm, fromCoeff]
    by_cases h1 : n = 1 <;> simp [h1]
  · refine ⟨Or.inr hb, rfl, by simp [coeffForm]; omega, ?_⟩
    have hb1 : b ≠ .num 1 := by intro e; subst e; simp [isBody] at hb
    have hc1 : c ≠ 1 := by omega
    simp [destMonomial, coeffForm, fromCoeff, hc1, hb1]
  · -- a bare body: not of the form `_ * num _`, not a numeral
    have hd : destMonomial m = m ∧ coeffForm m = (m, 1) := by
      rcases isBody_cases hb with ⟨i, s, rfl⟩ | ⟨b1, i, s, rfl, _, _⟩ <;> simp [destMonomial, coeffForm]
    rw [hd.1, hd.2]
    exact ⟨Or.inr hb, rfl, Nat.le_refl 1, by simp [fromCoeff]⟩

theorem isMono_tree {one : Nat} {m : NExp} (h : isMono one m = true) : isTree (destMonomial m) = true := by
  rcases (isMono_dest h).1 with e | hb
  · rw [e]; rfl
  · exact isBody_isTree hb

theorem isMono_fromCoeff {one : Nat} {b : NExp} (hb : b = .num 1 ∨ isBody one b = true) {c : Nat} (hc : 2 ≤ c) :
    isMono one (fromCoeff b c) = true ∧ destMonomial (fromCoeff b c) = b := by
  have hc1 : c ≠ 1 := by omega
  rcases hb with rfl | hb
  · simp [fromCoeff, hc1, isMono, destMonomial]; omega
  · have hb1 : b ≠ .num 1 := by intro e; subst e; simp [isBody] at hb
    simp [fromCoeff, hc1, hb1, isMono, destMonomial, hb]; omega

/-- combining two monomials with the same body -/
theorem combine_same {one : Nat} {m1 m : NExp} (h1 : isMono one m1 = true) (h : isMono one m = true)
    (he : destMonomial m1 = destMonomial m) :
    isMono one (combineMonomial m1 m) = true ∧ destMonomial (combineMonomial m1 m) = destMonomial m1 := by
  obtain ⟨hb1, hc1, hp1, _⟩ := isMono_dest h1
  obtain ⟨_, hc, hp, _⟩ := isMono_dest h
  unfold combineMonomial
  generalize hcf1 : coeffForm m1 = p1 at hc1 hp1
  generalize hcf : coeffForm m = p at hc hp
  obtain ⟨b1, c1⟩ := p1
  obtain ⟨b2, c2⟩ := p
  simp only at hc1 hp1 hc hp ⊢
  have : b1 = b2 := by rw [hc1, hc, he]
  simp only [this, if_true]
  rw [← this, hc1]
  exact isMono_fromCoeff hb1 (by omega)

theorem isPoly_of_isMono {one : Nat} {m : NExp} (h : isMono one m = true) : isPoly one m = true := by
  cases m with
  | add x y => exact absurd rfl (mono_not_add h x y)
  | atom i s => simpa [isPoly] using h
  | num n => simpa [isPoly] using h
  | mul x y => simpa [isPoly] using h
  | suc x => simpa [isPoly] using h

theorem lastMono_of_isMono {one : Nat} {m : NExp} (h : isMono one m = true) : lastMono m = m := by
  cases m with
  | add x y => exact absurd rfl (mono_not_add h x y)
  | _ => rfl

theorem isMono_of_isPoly_nonadd {one : Nat} {p : NExp} (hna : ∀ x y, p ≠ .add x y)
    (h : isPoly one p = true) : isMono one p = true := by
  cases p with
  | add x y => exact absurd rfl (hna x y)
  | atom i s => simpa [isPoly] using h
  | num n => simpa [isPoly] using h
  | mul x y => simpa [isPoly] using h
  | suc x => simpa [isPoly] using h

/-- the second arm of `insM` -/
theorem insM_nonadd (one : Nat) {p : NExp} (hna : ∀ x y, p ≠ .add x y) (m : NExp)
    (hp0 : p ≠ .num 0) (hm0 : m ≠ .num 0) :
    (compareMonomial one p m = .gt → insM one p m = .add m p) ∧
    (compareMonomial one p m = .eq → insM one p m = combineMonomial p m) ∧
    (compareMonomial one p m = .lt → insM one p m = .add p m) := by
  cases p with
  | add x y => exact absurd rfl (hna x y)
  | atom i s => refine ⟨?_, ?_, ?_⟩ <;> intro h <;> simp [insM, hm0, h]
  | num n =>
    have : n ≠ 0 := by intro e; subst e; exact hp0 rfl
    refine ⟨?_, ?_, ?_⟩ <;> intro h <;> simp [insM, hm0, h, this]
  | mul x y => refine ⟨?_, ?_, ?_⟩ <;> intro h <;> simp [insM, hm0, h]
  | suc x => refine ⟨?_, ?_, ?_⟩ <;> intro h <;> simp [insM, hm0, h]

theorem cmpMono_eq_dest {one : Nat} {m1 m : NExp} (h1 : isMono one m1 = true) (h : isMono one m = true)
    (he : compareMonomial one m1 m = .eq) : destMonomial m1 = destMonomial m :=
  fastCmp_eq one _ _ (isMono_tree h1) (isMono_tree h) he

theorem insM_leaf {one : Nat} {p m : NExp} (hna : ∀ x y, p ≠ .add x y) (hp : isPoly one p = true)
    (hm : isMono one m = true) :
    isPoly one (insM one p m) = true ∧
    (destMonomial (lastMono (insM one p m)) = destMonomial (lastMono p) ∨
     destMonomial (lastMono (insM one p m)) = destMonomial m) := by
  have hpm := isMono_of_isPoly_nonadd hna hp
  have hp0 : p ≠ .num 0 := poly_ne_zero hp
  have hm0 : m ≠ .num 0 := mono_ne_zero hm
  obtain ⟨hgt, heq, hlt⟩ := insM_nonadd one hna m hp0 hm0
  have hlp : lastMono p = p := lastMono_of_isMono hpm
  cases hc : compareMonomial one p m with
  | gt =>
    rw [hgt hc]
    refine ⟨?_, Or.inl (by simp [lastMono, hlp])⟩
    simp only [isPoly, Bool.and_eq_true, beq_iff_eq]
    refine ⟨⟨isPoly_of_isMono hm, hpm⟩, ?_⟩
    rw [lastMono_of_isMono hm]
    exact (fastCmp_gt_iff one _ _).1 hc
  | eq =>
    rw [heq hc]
    have he := cmpMono_eq_dest hpm hm hc
    obtain ⟨hcm, hcd⟩ := combine_same hpm hm he
    refine ⟨isPoly_of_isMono hcm, Or.inl ?_⟩
    rw [lastMono_of_isMono hcm, hlp]; exact hcd
  | lt =>
    rw [hlt hc]
    refine ⟨?_, Or.inr rfl⟩
    simp only [isPoly, Bool.and_eq_true, beq_iff_eq]
    refine ⟨⟨by first | exact hp | exact hpm, hm⟩, ?_⟩
    rw [hlp]; exact hc

/-- `norm_add_monomial` keeps the polynomial shape; the last monomial of the result has the body of
the old last monomial or of the inserted one. -/
theorem insM_closed {one : Nat} : ∀ {p m : NExp}, isPoly one p = true → isMono one m = true →
    isPoly one (insM one p m) = true ∧
    (destMonomial (lastMono (insM one p m)) = destMonomial (lastMono p) ∨
     destMonomial (lastMono (insM one p m)) = destMonomial m) := by
  intro p
  induction p with
  | add p1 m1 ih _ =>
    intro m hp hm
    simp only [isPoly, Bool.and_eq_true, beq_iff_eq] at hp
    obtain ⟨⟨hp1, hm1⟩, hs⟩ := hp
    have hm0 : m ≠ .num 0 := mono_ne_zero hm
    simp only [insM, hm0, if_false]
    cases hc : compareMonomial one m1 m with
    | gt =>
      simp only
      obtain ⟨ihp, ihl⟩ := ih hp1 hm
      refine ⟨?_, Or.inl rfl⟩
      simp only [isPoly, Bool.and_eq_true, beq_iff_eq]
      refine ⟨⟨ihp, hm1⟩, ?_⟩
      unfold compareMonomial
      rcases ihl with e | e
      · rw [e]; exact hs
      · rw [e]; exact (fastCmp_gt_iff one _ _).1 hc
    | eq =>
      simp only
      have he := cmpMono_eq_dest hm1 hm hc
      obtain ⟨hcm, hcd⟩ := combine_same hm1 hm he
      refine ⟨?_, Or.inl ?_⟩
      · simp only [isPoly, Bool.and_eq_true, beq_iff_eq]
        refine ⟨⟨hp1, hcm⟩, ?_⟩
        unfold compareMonomial; rw [hcd]; exact hs
      · simp only [lastMono]; exact hcd
    | lt =>
      simp only
      refine ⟨?_, Or.inr rfl⟩
      simp only [isPoly, Bool.and_eq_true, beq_iff_eq]
      exact ⟨⟨⟨⟨hp1, hm1⟩, hs⟩, hm⟩, hc⟩
  | atom i s => intro m hp hm; exact insM_leaf (by intro x y h; cases h) hp hm
  | num n => intro m hp hm; exact insM_leaf (by intro x y h; cases h) hp hm
  | mul a b _ _ => intro m hp hm; exact insM_leaf (by intro x y h; cases h) hp hm
  | suc a _ => intro m hp hm; exact insM_leaf (by intro x y h; cases h) hp hm

/-- a monomial or 0 -/
def isMono0 (one : Nat) (m : NExp) : Bool := m == .num 0 || isMono one m

theorem insM_zero_left (one : Nat) (m : NExp) (hm : ∀ x y, m ≠ .add x y) : insM one (.num 0) m = m := by
  simp [insM]

theorem isNF_of_isPoly {one : Nat} {p : NExp} (h : isPoly one p = true) : isNF one p = true := by
  simp [isNF, h]

theorem insM_nf {one : Nat} {p m : NExp} (hp : isNF one p = true) (hm : isMono0 one m = true) :
    isNF one (insM one p m) = true := by
  simp only [isMono0, Bool.or_eq_true, beq_iff_eq] at hm
  rcases hm with rfl | hm
  · rw [insM_zero]; exact hp
  · simp only [isNF, Bool.or_eq_true, beq_iff_eq] at hp
    rcases hp with rfl | hp
    · rw [insM_zero_left one m (mono_not_add hm)]
      exact isNF_of_isPoly (isPoly_of_isMono hm)
    · exact isNF_of_isPoly (insM_closed hp hm).1

theorem addP_nf {one : Nat} {p : NExp} (hp : isNF one p = true) :
    ∀ {q : NExp}, isNF one q = true → isNF one (addP one p q) = true := by
  intro q
  induction q with
  | add q1 m ih _ =>
    intro hq
    have hq' : isPoly one (.add q1 m) = true := by simpa [isNF] using hq
    simp only [isPoly, Bool.and_eq_true, beq_iff_eq] at hq'
    simp only [addP]
    exact insM_nf (ih (isNF_of_isPoly hq'.1.1)) (by simp [isMono0, hq'.1.2])
  | atom i s =>
    intro hq
    simp only [addP]
    exact insM_nf hp (by simpa [isNF, isMono0, isPoly] using hq)
  | num n =>
    intro hq
    simp only [addP]
    exact insM_nf hp (by simpa [isNF, isMono0, isPoly] using hq)
  | mul a b _ _ =>
    intro hq
    simp only [addP]
    exact insM_nf hp (by simpa [isNF, isMono0, isPoly] using hq)
  | suc a _ =>
    intro hq
    simp only [addP]
    exact insM_nf hp (by simpa [isNF, isMono0, isPoly] using hq)

end Holpy.C10
