/-
C10 — executable model of the integer Conv normaliser of `data/integer.py`:
`simp_full`, `int_norm_conv` (= `simp_full` followed by two `top_conv` sweeps removing `1 * x` and
`x ^ 1`), and `int_norm_eq` (move everything to the left side, normalise, make the leading
coefficient non-negative).  Import-free.

Each `Conv` class is the tree function its chain of rewrites computes on the shapes it is applied
to (other shapes are returned unchanged; the Python raises).  A normal form is a left-nested sum of
monomials `c * body`, numbers first; a body is a left-nested product of atoms `x ^ e` ordered by the
base.  Atoms (whatever `simp_full` wraps as `1 * x ^ 1`) carry their rank under `fast_compare` and their
`size()`; bodies are compared by `fast_compare` on the terms `x ^ e` / products, for which the size
and the order of the NUMERAL `e` (a binary numeral term: `of_nat (bit0 (bit1 one))`) matter:
`numSize`, `numCmp`.
-/
namespace Holpy.C10.IntN

inductive IExp where
  | atom (id : Nat) (size : Nat)
  | num (z : Int)
  | add (a b : IExp)
  | sub (a b : IExp)
  | mul (a b : IExp)
  | neg (a : IExp)
  | pow (b : IExp) (e : Nat)      -- `b ^ (e::nat)` with a numeral exponent
  deriving Repr, DecidableEq, Inhabited

open IExp

/-- number of binary digits -/
def bits : Nat → Nat → Nat
  | 0, _ => 0
  | fuel + 1, n => if n < 2 then 1 else 1 + bits fuel (n / 2)

/-- `size()` of the nat numeral term: `zero`, `one` are constants; `of_nat (bit.. one)` otherwise. -/
def numSize (n : Nat) : Nat := if n < 2 then 1 else 2 * bits n n + 1

/-- `fast_compare` on two binary numeral terms of the same size: least significant digit first
(`bit0` < `bit1` by name), then the rest. -/
def binCmp : Nat → Nat → Nat → Ordering
  | 0, _, _ => .eq
  | fuel + 1, n, m =>
    if n < 2 || m < 2 then compare n m
    else
      match compare (n % 2) (m % 2) with
      | .eq => binCmp fuel (n / 2) (m / 2)
      | o => o

/-- `fast_compare` on nat numeral terms: size, then `one` < `zero` (constant names), then digits. -/
def numCmp (n m : Nat) : Ordering :=
  if numSize n ≠ numSize m then compare (numSize n) (numSize m)
  else if n < 2 && m < 2 then compare m n
  else binCmp (n + 1) n m

def IExp.size : IExp → Nat
  | atom _ s => s
  | num _ => 1
  | add a b => a.size + b.size + 3
  | sub a b => a.size + b.size + 3
  | mul a b => a.size + b.size + 3
  | neg a => a.size + 2
  | pow b e => b.size + numSize e + 3

def ordThen (a b : Ordering) : Ordering :=
  match a with
  | .eq => b
  | o => o

/-- `fast_compare` on bases (atoms: size, then rank). -/
def baseCmp : IExp → IExp → Ordering
  | atom i s, atom j s' => ordThen (compare s s') (compare i j)
  | a, b => compare a.size b.size

/-- `compare_atom`: two atoms `x ^ e`, `y ^ f` by their bases. -/
def cmpAtom : IExp → IExp → Ordering
  | pow b _, pow b' _ => baseCmp b b'
  | _, _ => .lt

/-- size of the function part: `|power b| = |b| + 2`, `|times x| = |x| + 2` (the `+ 2` is dropped) -/
def fszI : IExp → Nat
  | pow b _ => b.size
  | mul x _ => x.size
  | _ => 0

/-- `power` < `times` (constant names) -/
def clsI : IExp → Nat
  | mul _ _ => 1
  | _ => 0

/-- two atoms `x ^ e`, `y ^ f` whose sizes and base sizes agree: the bases, then the exponents -/
def leafI : IExp → IExp → Ordering
  | pow b e, pow b' e' => ordThen (baseCmp b b') (numCmp e e')
  | _, _ => .eq

/-- `fast_compare` on bodies (`x ^ e` or left-nested products of such): size, then the function
parts (`power b` / `times x`: their sizes, `power` < `times`), then -- two products -- `x` against
`x'` and the arguments, or -- two atoms -- the bases and the exponents. -/
def bodyCmp : IExp → IExp → Ordering
  | mul x y, mul x' y' =>
    ordThen (compare (mul x y).size (mul x' y').size)
      (ordThen (compare x.size x'.size) (ordThen (bodyCmp x x') (bodyCmp y y')))
  | a, b =>
    ordThen (compare a.size b.size)
      (ordThen (compare (fszI a) (fszI b)) (ordThen (compare (clsI a) (clsI b)) (leafI a b)))

def isNum : IExp → Bool
  | num _ => true
  | _ => false

/-- `compare_monomial`: numbers first, otherwise the bodies. -/
def cmpMono : IExp → IExp → Ordering
  | num _, num _ => .eq
  | num _, _ => .lt
  | _, num _ => .gt
  | mul _ b, mul _ b' => bodyCmp b b'
  | _, _ => .lt

/-- `norm_mult_atom` on `p * c`. -/
def multAtom : IExp → IExp → IExp
  | mul a b, c =>
    match cmpAtom b c with
    | .gt => mul (multAtom a c) b
    | .eq =>
      match b, c with
      | pow x e1, pow x' e2 => if x = x' then mul a (pow x (e1 + e2)) else mul (mul a b) c
      | _, _ => mul (mul a b) c
    | .lt => mul (mul a b) c
  | a, c =>
    match cmpAtom a c with
    | .gt => mul c a
    | .eq =>
      match a, c with
      | pow x e1, pow x' e2 => if x = x' then pow x (e1 + e2) else mul a c
      | _, _ => mul a c
    | .lt => mul a c

/-- `norm_mult_monomial_wo_coeff` on `a * q`. -/
def multWo (a : IExp) : IExp → IExp
  | mul b c => multAtom (multWo a b) c
  | q => multAtom a q

/-- `norm_mult_monomial` on `x * y` (two monomials). -/
def multMono : IExp → IExp → IExp
  | num c, num d => num (c * d)
  | num c, mul (num d) body => mul (num (c * d)) body
  | num c, y => mul (num c) y
  | mul (num c) body, num d => mul (num (d * c)) body
  | x, num d => mul x (num d)
  | mul (num c) b1, mul (num d) b2 => mul (num (c * d)) (multWo b1 b2)
  | x, y => mul x y

/-- the coefficient-combining step of `norm_add_monomial`: `c1 * b + c2 * b` (the rewrite with
`int_mul_add_distr_r` needs the same body on both sides; the Python raises otherwise). -/
def combine : IExp → IExp → Option IExp
  | mul (num c1) b, mul (num c2) b' =>
    if b = b' then (if c1 + c2 = 0 then none else some (mul (num (c1 + c2)) b))
    else some (add (mul (num c1) b) (mul (num c2) b'))
  | m1, m2 => some (add m1 m2)

/-- `norm_add_monomial` on `p + c`. -/
def insMI : IExp → IExp → IExp
  | add a b, c =>
    match cmpMono b c with
    | .gt =>
      let r := insMI a c
      if r = num 0 then b else add r b
    | .eq =>
      match combine b c with
      | none => a
      | some m => add a m
    | .lt => add (add a b) c
  | a, b =>
    if b = num 0 then a
    else if a = num 0 then b
    else
      match cmpMono a b with
      | .gt => add b a
      | .eq =>
        match a, b with
        | num x, num y => num (x + y)
        | _, _ =>
          match combine a b with
          | none => num 0
          | some m => m
      | .lt => add a b

/-- `norm_add_monomial` on `a - c`: `a + (-1) * c`. -/
def subMI (a c : IExp) : IExp := insMI a (multMono (num (-1)) c)

/-- `norm_add_polynomial` on `a + b`. -/
def addPI (a : IExp) : IExp → IExp
  | add b1 c => if a = num 0 then add b1 c else insMI (addPI a b1) c
  | b => if a = num 0 then b else if b = num 0 then a else insMI a b

/-- `norm_add_polynomial` on `a - b`. -/
def subPI (a : IExp) : IExp → IExp
  | add b1 c => subMI (subPI a b1) c
  | b => subMI a b

/-- `norm_mult_poly_monomial` on `p * c`. -/
def polyMonoI : IExp → IExp → IExp
  | add a b, c => addPI (polyMonoI a c) (multMono b c)
  | p, c => multMono p c

/-- `norm_mult_polynomials` on `a * b`. -/
def mulPI (a : IExp) : IExp → IExp
  | add b1 c => if a = num 0 then num 0 else addPI (mulPI a b1) (polyMonoI a c)
  | b => if a = num 0 then num 0 else if b = num 0 then num 0 else polyMonoI a b

/-- `simp_full`. -/
def simpFull : IExp → IExp
  | atom i s => mul (num 1) (pow (atom i s) 1)
  | num z => num z
  | add a b => addPI (simpFull a) (simpFull b)
  | sub a b => subPI (simpFull a) (simpFull b)
  | mul a b => mulPI (simpFull a) (simpFull b)
  | neg a => mulPI (num (-1)) (simpFull a)
  | pow b e => mul (num 1) (pow b e)

/-- `top_conv(rewr_conv('int_mul_1_l'))`: `1 * x` becomes `x`, then the children of the result. -/
def strip1 : IExp → IExp
  | mul (num 1) x =>
    match x with
    | add a b => add (strip1 a) (strip1 b)
    | sub a b => sub (strip1 a) (strip1 b)
    | mul a b => mul (strip1 a) (strip1 b)
    | neg a => neg (strip1 a)
    | pow b e => pow (strip1 b) e
    | y => y
  | add a b => add (strip1 a) (strip1 b)
  | sub a b => sub (strip1 a) (strip1 b)
  | mul a b => mul (strip1 a) (strip1 b)
  | neg a => neg (strip1 a)
  | pow b e => pow (strip1 b) e
  | t => t

/-- `top_conv(rewr_conv('int_pow_1_r'))`: `x ^ 1` becomes `x`, then the children of the result. -/
def stripPow1 : IExp → IExp
  | pow b 1 =>
    match b with
    | add x y => add (stripPow1 x) (stripPow1 y)
    | sub x y => sub (stripPow1 x) (stripPow1 y)
    | mul x y => mul (stripPow1 x) (stripPow1 y)
    | neg x => neg (stripPow1 x)
    | pow c e => pow (stripPow1 c) e
    | y => y
  | add a b => add (stripPow1 a) (stripPow1 b)
  | sub a b => sub (stripPow1 a) (stripPow1 b)
  | mul a b => mul (stripPow1 a) (stripPow1 b)
  | neg a => neg (stripPow1 a)
  | pow b e => pow (stripPow1 b) e
  | t => t

/-- `int_norm_conv`. -/
def intNorm (t : IExp) : IExp := stripPow1 (strip1 (simpFull t))

/-- coefficient of the leftmost summand (`strip_plus(...)[0]`). -/
def firstCoeff : IExp → Int
  | add a _ => firstCoeff a
  | num z => z
  | mul (num c) _ => c
  | _ => 0

/-- `int_norm_eq` on `a = b`: the left side of the resulting `lhs = 0`. -/
def intNormEq (a b : IExp) : IExp :=
  let l := stripPow1 (simpFull (sub a b))
  if firstCoeff l < 0 then stripPow1 (simpFull (mul (num (-1)) l)) else l

/-! ### the normal-form shape of `simp_full` -/

def lastF : IExp → IExp
  | mul _ a => a
  | t => t

def lastM : IExp → IExp
  | add _ m => m
  | t => t

def isAtomPow : IExp → Bool
  | pow (atom _ _) _ => true
  | _ => false

/-- a body: `x ^ e` (atomic base) or a left-nested product of such with strictly increasing bases -/
def isBodyI : IExp → Bool
  | mul b a => isAtomPow a && isBodyI b && (cmpAtom (lastF b) a == .lt)
  | t => isAtomPow t

/-- a monomial: a non-zero numeral, or `c * body` with `c ≠ 0` -/
def isMonoI : IExp → Bool
  | num z => decide (z ≠ 0)
  | mul (num c) b => decide (c ≠ 0) && isBodyI b
  | _ => false

/-- a polynomial: left-nested sum of monomials, strictly increasing under `compare_monomial`
(numbers first) -/
def isPolyI : IExp → Bool
  | add p m => isPolyI p && isMonoI m && (cmpMono (lastM p) m == .lt)
  | t => isMonoI t

/-- what `simp_full` returns: `0` or a polynomial -/
def isNFI (t : IExp) : Bool := t == num 0 || isPolyI t

/-- the fragment on which `simp_full` expands everything: powers only of atoms (a power of a
compound base is left as an atom by the code and is outside the canonicity claim) -/
def atomicPowers : IExp → Bool
  | atom _ _ => true
  | num _ => true
  | add a b => atomicPowers a && atomicPowers b
  | sub a b => atomicPowers a && atomicPowers b
  | mul a b => atomicPowers a && atomicPowers b
  | neg a => atomicPowers a
  | pow (atom _ _) _ => true
  | pow _ _ => false

/-- every atom is the table entry of its rank, no exponent is `0` -/
def wfI (sh : Nat → Nat) : IExp → Bool
  | .atom i s => s == sh i
  | .num _ => true
  | .add a b => wfI sh a && wfI sh b
  | .sub a b => wfI sh a && wfI sh b
  | .mul a b => wfI sh a && wfI sh b
  | .neg a => wfI sh a
  | .pow b e => (e != 0) && wfI sh b

def atomsOfI : IExp → List (Nat × Nat)
  | .atom i s => [(i, s)]
  | .num _ => []
  | .add a b => atomsOfI a ++ atomsOfI b
  | .sub a b => atomsOfI a ++ atomsOfI b
  | .mul a b => atomsOfI a ++ atomsOfI b
  | .neg a => atomsOfI a
  | .pow b _ => atomsOfI b

/-- the size table read off a list of atoms (first occurrence of each rank) -/
def shOf (l : List (Nat × Nat)) (i : Nat) : Nat :=
  match l.find? (fun p => p.1 == i) with
  | some p => p.2
  | none => 0

/-- the fragment of `int_norm_canonical`, decided by the driver: powers only of atoms, no exponent
`0`, and atoms determined by their rank (every atom is the entry of its rank in the table read off
the two terms) -/
def fragI (a b : IExp) : Bool :=
  atomicPowers a && atomicPowers b &&
    wfI (shOf (atomsOfI a ++ atomsOfI b)) a && wfI (shOf (atomsOfI a ++ atomsOfI b)) b

/-- Value in ℤ. -/
def evalI (ρ : Nat → Int) : IExp → Int
  | atom i _ => ρ i
  | num z => z
  | add a b => evalI ρ a + evalI ρ b
  | sub a b => evalI ρ a - evalI ρ b
  | mul a b => evalI ρ a * evalI ρ b
  | neg a => - evalI ρ a
  | pow b e => evalI ρ b ^ e

end Holpy.C10.IntN
