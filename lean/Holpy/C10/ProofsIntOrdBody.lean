import Holpy.C10.ProofsIntOrdTrans
import Holpy.C10.ProofsNatOrd
/-
C10 — `fast_compare` on integer monomial bodies (atomic bases) is transitive; with `bodyCmp_swap`
and `bodyCmp_eq` it is a strict total order on them.
-/
namespace Holpy.C10.IntN
open IExp

theorem ordThen_eq_lt {a b : Ordering} : ordThen a b = .lt ↔ a = .lt ∨ (a = .eq ∧ b = .lt) := by
  cases a <;> cases b <;> simp [ordThen]

/-- what is compared after the three numeric keys -/
def innerI : IExp → IExp → Ordering
  | .mul x y, .mul x' y' => ordThen (bodyCmp x x') (bodyCmp y y')
  | a, b => leafI a b

theorem bodyCmp_lex (a b : IExp) :
    bodyCmp a b = ordThen (compare a.size b.size)
      (ordThen (compare (fszI a) (fszI b)) (ordThen (compare (clsI a) (clsI b)) (innerI a b))) := by
  cases a <;> cases b <;> simp only [bodyCmp, innerI, fszI, clsI]
  simp [ordThen]

theorem bodyCmp_lt_char (a b : IExp) : bodyCmp a b = .lt ↔
    (a.size < b.size ∨ (a.size = b.size ∧ (fszI a < fszI b ∨ (fszI a = fszI b ∧
      (clsI a < clsI b ∨ (clsI a = clsI b ∧ innerI a b = .lt)))))) := by
  rw [bodyCmp_lex]
  simp only [ordThen_eq_lt, Nat.compare_eq_lt, Nat.compare_eq_eq]

theorem clsI_mul_of_eq {a : IExp} (x y : IExp) (h : clsI a = clsI (.mul x y)) : ∃ x' y', a = .mul x' y' := by
  cases a <;> simp_all [clsI]

/-- transitivity of the comparison of two atoms `x ^ e` with atomic bases -/
theorem leafI_trans (i s e j s' e' k s'' e'' : Nat)
    (h1 : leafI (.pow (.atom i s) e) (.pow (.atom j s') e') = .lt)
    (h2 : leafI (.pow (.atom j s') e') (.pow (.atom k s'') e'') = .lt) :
    leafI (.pow (.atom i s) e) (.pow (.atom k s'') e'') = .lt := by
  simp only [leafI, baseCmp, ordThen_eq_lt, ordThen_eq_eq, Nat.compare_eq_lt, Nat.compare_eq_eq] at h1 h2 ⊢
  rcases h1 with (a1 | ⟨a1, a2⟩) | ⟨⟨a1, a2⟩, a3⟩ <;> rcases h2 with (b1 | ⟨b1, b2⟩) | ⟨⟨b1, b2⟩, b3⟩
  · exact Or.inl (Or.inl (by omega))
  · exact Or.inl (Or.inl (by omega))
  · exact Or.inl (Or.inl (by omega))
  · exact Or.inl (Or.inl (by omega))
  · exact Or.inl (Or.inr ⟨by omega, by omega⟩)
  · exact Or.inl (Or.inr ⟨by omega, by omega⟩)
  · exact Or.inl (Or.inl (by omega))
  · exact Or.inl (Or.inr ⟨by omega, by omega⟩)
  · exact Or.inr ⟨⟨by omega, by omega⟩, numCmp_trans _ _ _ a3 b3⟩

/-- `lt` is transitive on integer monomial bodies. -/
theorem bodyCmp_trans : ∀ a b c : IExp, isTreeI a = true → isTreeI b = true → isTreeI c = true →
    bodyCmp a b = .lt → bodyCmp b c = .lt → bodyCmp a c = .lt := by
  intro a
  induction a with
  | mul x y ihx ihy =>
    intro b c ha hb hc h1 h2
    rw [bodyCmp_lt_char] at h1 h2 ⊢
    refine Holpy.C10.lex_trans _ _ _ _ _ _ _ _ _ _ _ _ ?_ h1 h2
    intro _ _ _ _ k5 k6 i1 i2
    obtain ⟨x', y', rfl⟩ := clsI_mul_of_eq x y k5.symm
    obtain ⟨x'', y'', rfl⟩ := clsI_mul_of_eq x' y' k6.symm
    simp only [isTreeI, Bool.and_eq_true] at ha hb hc
    simp only [innerI, ordThen_eq_lt] at i1 i2 ⊢
    rcases i1 with l1 | ⟨e1, l1⟩ <;> rcases i2 with l2 | ⟨e2, l2⟩
    · exact Or.inl (ihx x' x'' ha.1 hb.1 hc.1 l1 l2)
    · have := bodyCmp_eq x' x'' hb.1 hc.1 e2; subst this; exact Or.inl l1
    · have := bodyCmp_eq x x' ha.1 hb.1 e1; subst this; exact Or.inl l2
    · have e := bodyCmp_eq x x' ha.1 hb.1 e1
      have e' := bodyCmp_eq x' x'' hb.1 hc.1 e2
      subst e; subst e'
      exact Or.inr ⟨e1, ihy y' y'' ha.2 hb.2 hc.2 l1 l2⟩
  | pow d e _ =>
    intro b c ha hb hc h1 h2
    rw [bodyCmp_lt_char] at h1 h2 ⊢
    refine Holpy.C10.lex_trans _ _ _ _ _ _ _ _ _ _ _ _ ?_ h1 h2
    intro _ _ _ _ k5 k6 i1 i2
    -- class 0: b and c are atoms `y ^ f` too
    cases b with
    | mul x y => simp [clsI] at k5
    | pow d' e' =>
      cases c with
      | mul x y => simp [clsI] at k6
      | pow d'' e'' =>
        cases d with
        | atom i s =>
          cases d' with
          | atom j s' =>
            cases d'' with
            | atom k s'' =>
              simp only [innerI] at i1 i2 ⊢
              exact leafI_trans i s e j s' e' k s'' e'' i1 i2
            | _ => simp [isTreeI] at hc
          | _ => simp [isTreeI] at hb
        | _ => simp [isTreeI] at ha
      | _ => simp [isTreeI] at hc
    | _ => simp [isTreeI] at hb
  | atom i s => intro b c ha; simp [isTreeI] at ha
  | num z => intro b c ha; simp [isTreeI] at ha
  | add u v _ _ => intro b c ha; simp [isTreeI] at ha
  | sub u v _ _ => intro b c ha; simp [isTreeI] at ha
  | neg u _ => intro b c ha; simp [isTreeI] at ha

end Holpy.C10.IntN
