import Holpy.C10.ProofsIntClosureAdd

/-! Closure of `simp_full`: every layer (`norm_add_polynomial`, subtraction, `norm_mult_poly_monomial`,
`norm_mult_polynomials`) maps normal forms to normal forms, hence `simp_full` returns a normal form on
the fragment whose powers have atomic bases. -/

namespace Holpy.C10.IntN
open IExp

theorem isNFI_iff (t : IExp) : isNFI t = true ↔ t = num 0 ∨ isPolyI t = true := by
  simp [isNFI]

theorem poly_nf {p : IExp} (h : isPolyI p = true) : isNFI p = true := (isNFI_iff p).2 (Or.inr h)

theorem mono_nf {m : IExp} (h : isMonoI m = true) : isNFI m = true := poly_nf (mono_poly h)

theorem mono_ne_zero {m : IExp} (h : isMonoI m = true) : m ≠ num 0 := poly_ne_zero (mono_poly h)

/-- `norm_add_monomial` on a normal form and a monomial. -/
theorem insMI_nf {p c : IExp} (hp : isNFI p = true) (hc : isMonoI c = true) : isNFI (insMI p c) = true := by
  rcases (isNFI_iff p).1 hp with rfl | hp
  · have : insMI (num 0) c = c := by
      simp [insMI, mono_ne_zero hc]
    rw [this]; exact mono_nf hc
  · rcases insMI_closed hp hc with h | ⟨h, _⟩
    · rw [h]; decide
    · exact poly_nf h

/-- adding the monomial `0` changes nothing. -/
theorem insMI_zero : ∀ {p : IExp}, isNFI p = true → insMI p (num 0) = p := by
  intro p
  induction p with
  | add x y ihx _ =>
    intro hp
    rcases (isNFI_iff _).1 hp with h | hp
    · cases h
    · simp only [isPolyI, Bool.and_eq_true, beq_iff_eq] at hp
      obtain ⟨⟨hx, hy⟩, hxy⟩ := hp
      rcases isMonoI_cases hy with ⟨z, rfl, _⟩ | ⟨d, q, rfl, _, hq⟩
      · exact absurd hxy (not_lt_num (lastM_mono hx) z)
      · have h1 : cmpMono (mul (num d) q) (num 0) = .gt := by simp [cmpMono]
        simp only [insMI, h1]
        rw [ihx (poly_nf hx), if_neg (poly_ne_zero hx)]
  | atom i s => intro _; simp [insMI]
  | num z => intro _; simp [insMI]
  | sub u v _ _ => intro _; simp [insMI]
  | mul u v _ _ => intro _; simp [insMI]
  | neg u _ => intro _; simp [insMI]
  | pow u e _ => intro _; simp [insMI]

theorem poly_add_parts {b1 c : IExp} (h : isNFI (add b1 c) = true) :
    isPolyI b1 = true ∧ isMonoI c = true := by
  rcases (isNFI_iff _).1 h with h | h
  · cases h
  · simp only [isPolyI, Bool.and_eq_true, beq_iff_eq] at h
    exact ⟨h.1.1, h.1.2⟩

theorem nf_nonadd {b : IExp} (h : isNFI b = true) (hna : ∀ u v, b ≠ add u v) :
    b = num 0 ∨ isMonoI b = true := by
  rcases (isNFI_iff _).1 h with h | h
  · exact Or.inl h
  · right
    cases b with
    | add u v => exact absurd rfl (hna u v)
    | _ => simpa [isPolyI] using h

/-- `norm_add_polynomial`. -/
theorem addPI_nf {a : IExp} (ha : isNFI a = true) : ∀ {b : IExp}, isNFI b = true → isNFI (addPI a b) = true := by
  intro b
  induction b with
  | add b1 c ih _ =>
    intro hb
    obtain ⟨h1, hc⟩ := poly_add_parts hb
    simp only [addPI]
    by_cases h0 : a = num 0
    · rw [if_pos h0]; exact hb
    · rw [if_neg h0]; exact insMI_nf (ih (poly_nf h1)) hc
  | num z =>
    intro hb
    simp only [addPI]
    by_cases h0 : a = num 0
    · rw [if_pos h0]; exact hb
    · rw [if_neg h0]
      by_cases hz : num z = num 0
      · rw [if_pos hz]; exact ha
      · rw [if_neg hz]
        rcases nf_nonadd hb (fun _ _ h => by cases h) with h | h
        · exact absurd h hz
        · exact insMI_nf ha h
  | mul u v _ _ =>
    intro hb
    simp only [addPI]
    by_cases h0 : a = num 0
    · rw [if_pos h0]; exact hb
    · rw [if_neg h0, if_neg (by intro h; cases h)]
      rcases nf_nonadd hb (fun _ _ h => by cases h) with h | h
      · cases h
      · exact insMI_nf ha h
  | atom i s => intro hb; simp [isNFI, isPolyI, isMonoI] at hb
  | sub u v _ _ => intro hb; simp [isNFI, isPolyI, isMonoI] at hb
  | neg u _ => intro hb; simp [isNFI, isPolyI, isMonoI] at hb
  | pow u e _ => intro hb; simp [isNFI, isPolyI, isMonoI] at hb

theorem neg_one_mono : isMonoI (num (-1)) = true := by decide

/-- `norm_add_monomial` for a subtraction. -/
theorem subMI_nf {a c : IExp} (ha : isNFI a = true) (hc : isMonoI c = true) : isNFI (subMI a c) = true := by
  unfold subMI
  exact insMI_nf ha (multMono_closed neg_one_mono hc)

theorem subMI_zero {a : IExp} (ha : isNFI a = true) : subMI a (num 0) = a := by
  unfold subMI
  have : multMono (num (-1)) (num 0) = num 0 := by simp [multMono]
  rw [this]; exact insMI_zero ha

/-- `norm_add_polynomial` for a subtraction. -/
theorem subPI_nf {a : IExp} (ha : isNFI a = true) : ∀ {b : IExp}, isNFI b = true → isNFI (subPI a b) = true := by
  intro b
  induction b with
  | add b1 c ih _ =>
    intro hb
    obtain ⟨h1, hc⟩ := poly_add_parts hb
    simp only [subPI]
    exact subMI_nf (ih (poly_nf h1)) hc
  | num z =>
    intro hb
    simp only [subPI]
    rcases nf_nonadd hb (fun _ _ h => by cases h) with h | h
    · rw [h, subMI_zero ha]; exact ha
    · exact subMI_nf ha h
  | mul u v _ _ =>
    intro hb
    simp only [subPI]
    rcases nf_nonadd hb (fun _ _ h => by cases h) with h | h
    · cases h
    · exact subMI_nf ha h
  | atom i s => intro hb; simp [isNFI, isPolyI, isMonoI] at hb
  | sub u v _ _ => intro hb; simp [isNFI, isPolyI, isMonoI] at hb
  | neg u _ => intro hb; simp [isNFI, isPolyI, isMonoI] at hb
  | pow u e _ => intro hb; simp [isNFI, isPolyI, isMonoI] at hb

/-- `norm_mult_poly_monomial`. -/
theorem polyMonoI_nf : ∀ {p c : IExp}, isPolyI p = true → isMonoI c = true → isNFI (polyMonoI p c) = true := by
  intro p
  induction p with
  | add a b iha _ =>
    intro c hp hc
    simp only [isPolyI, Bool.and_eq_true, beq_iff_eq] at hp
    simp only [polyMonoI]
    exact addPI_nf (iha hp.1.1 hc) (mono_nf (multMono_closed hp.1.2 hc))
  | num z =>
    intro c hp hc
    simp only [polyMonoI]
    exact mono_nf (multMono_closed (by simpa [isPolyI] using hp) hc)
  | mul u v _ _ =>
    intro c hp hc
    simp only [polyMonoI]
    exact mono_nf (multMono_closed (by simpa [isPolyI] using hp) hc)
  | atom i s => intro c hp; simp [isPolyI, isMonoI] at hp
  | sub u v _ _ => intro c hp; simp [isPolyI, isMonoI] at hp
  | neg u _ => intro c hp; simp [isPolyI, isMonoI] at hp
  | pow u e _ => intro c hp; simp [isPolyI, isMonoI] at hp

theorem zero_nf : isNFI (num 0) = true := by decide

/-- `norm_mult_polynomials`. -/
theorem mulPI_nf {a : IExp} (ha : isNFI a = true) : ∀ {b : IExp}, isNFI b = true → isNFI (mulPI a b) = true := by
  intro b
  induction b with
  | add b1 c ih _ =>
    intro hb
    obtain ⟨h1, hc⟩ := poly_add_parts hb
    simp only [mulPI]
    by_cases h0 : a = num 0
    · rw [if_pos h0]; exact zero_nf
    · rw [if_neg h0]
      rcases (isNFI_iff a).1 ha with h | h
      · exact absurd h h0
      · exact addPI_nf (ih (poly_nf h1)) (polyMonoI_nf h hc)
  | num z =>
    intro hb
    simp only [mulPI]
    by_cases h0 : a = num 0
    · rw [if_pos h0]; exact zero_nf
    · rw [if_neg h0]
      by_cases hz : num z = num 0
      · rw [if_pos hz]; exact zero_nf
      · rw [if_neg hz]
        rcases (isNFI_iff a).1 ha with h | h
        · exact absurd h h0
        · rcases nf_nonadd hb (fun _ _ h => by cases h) with h' | h'
          · exact absurd h' hz
          · exact polyMonoI_nf h h'
  | mul u v _ _ =>
    intro hb
    simp only [mulPI]
    by_cases h0 : a = num 0
    · rw [if_pos h0]; exact zero_nf
    · rw [if_neg h0, if_neg (by intro h; cases h)]
      rcases (isNFI_iff a).1 ha with h | h
      · exact absurd h h0
      · rcases nf_nonadd hb (fun _ _ h => by cases h) with h' | h'
        · cases h'
        · exact polyMonoI_nf h h'
  | atom i s => intro hb; simp [isNFI, isPolyI, isMonoI] at hb
  | sub u v _ _ => intro hb; simp [isNFI, isPolyI, isMonoI] at hb
  | neg u _ => intro hb; simp [isNFI, isPolyI, isMonoI] at hb
  | pow u e _ => intro hb; simp [isNFI, isPolyI, isMonoI] at hb

/-- `simp_full` returns a normal form (`0`, or a sum of monomials strictly increasing under
`compare_monomial`, each a non-zero coefficient times a product of powers with strictly increasing
atomic bases) on every term whose powers have atomic bases. -/
theorem simpFull_nf : ∀ {t : IExp}, atomicPowers t = true → isNFI (simpFull t) = true := by
  intro t
  induction t with
  | atom i s => intro _; simp [simpFull, isNFI, isPolyI, isMonoI, isBodyI, isAtomPow]
  | num z =>
    intro _
    simp only [simpFull]
    by_cases hz : z = 0
    · subst hz; exact zero_nf
    · exact mono_nf (by simpa [isMonoI] using hz)
  | add a b iha ihb =>
    intro h
    simp only [atomicPowers, Bool.and_eq_true] at h
    exact addPI_nf (iha h.1) (ihb h.2)
  | sub a b iha ihb =>
    intro h
    simp only [atomicPowers, Bool.and_eq_true] at h
    exact subPI_nf (iha h.1) (ihb h.2)
  | mul a b iha ihb =>
    intro h
    simp only [atomicPowers, Bool.and_eq_true] at h
    exact mulPI_nf (iha h.1) (ihb h.2)
  | neg a iha =>
    intro h
    simp only [atomicPowers] at h
    exact mulPI_nf (mono_nf neg_one_mono) (iha h)
  | pow b e _ =>
    intro h
    cases b with
    | atom i s =>
      simp [simpFull, isNFI, isPolyI, isMonoI, isBodyI, isAtomPow]
    | _ => simp [atomicPowers] at h

end Holpy.C10.IntN
