import Holpy.C10.ProofsIntOrd
/-
C10 — integer normaliser, closure of the body shape under `norm_mult_atom` (`multAtom`): inserting
an atom `x ^ e` into a body with strictly increasing bases gives such a body again.
-/
namespace Holpy.C10.IntN
open IExp

theorem cmpAtom_swap (a b : IExp) (ha : isAtomPow a = true) (hb : isAtomPow b = true) :
    (cmpAtom a b).swap = cmpAtom b a := by
  cases a with
  | pow x e =>
    cases b with
    | pow y f => simp only [cmpAtom, baseCmp_swap]
    | _ => simp [isAtomPow] at hb
  | _ => simp [isAtomPow] at ha

theorem cmpAtom_gt_lt (a b : IExp) (ha : isAtomPow a = true) (hb : isAtomPow b = true)
    (h : cmpAtom a b = .gt) : cmpAtom b a = .lt := by
  rw [← cmpAtom_swap a b ha hb, h]; rfl

/-- `cmpAtom` only looks at the base -/
theorem cmpAtom_pow_exp (x : IExp) (e e' : Nat) (z : IExp) : cmpAtom (pow x e) z = cmpAtom (pow x e') z := by
  cases z <;> simp [cmpAtom]

theorem cmpAtom_pow_exp_right (z x : IExp) (e e' : Nat) : cmpAtom z (pow x e) = cmpAtom z (pow x e') := by
  cases z <;> simp [cmpAtom]

theorem cmpAtom_eq_base {x y : IExp} {e f : Nat} (hx : isAtomPow (pow x e) = true) (hy : isAtomPow (pow y f) = true)
    (h : cmpAtom (pow x e) (pow y f) = .eq) : x = y := by
  cases x with
  | atom i s =>
    cases y with
    | atom j s' => exact baseCmp_atom_eq i s j s' (by simpa [cmpAtom] using h)
    | _ => simp [isAtomPow] at hy
  | _ => simp [isAtomPow] at hx

theorem isAtomPow_lastF {a : IExp} (h : isAtomPow a = true) : lastF a = a := by
  cases a <;> simp_all [isAtomPow, lastF]

theorem isAtomPow_body {a : IExp} (h : isAtomPow a = true) : isBodyI a = true := by
  cases a <;> simp_all [isAtomPow, isBodyI]

theorem isAtomPow_pow {a : IExp} (h : isAtomPow a = true) : ∃ x e, a = pow x e := by
  cases a <;> simp_all [isAtomPow]

/-- `norm_mult_atom` keeps the body shape; an atom that may follow both the old last factor and the
inserted one may follow the new last factor. -/
theorem multAtom_closed : ∀ {p c : IExp}, isBodyI p = true → isAtomPow c = true →
    isBodyI (multAtom p c) = true ∧
    (∀ z, cmpAtom (lastF p) z = .lt → cmpAtom c z = .lt → cmpAtom (lastF (multAtom p c)) z = .lt) := by
  intro p
  induction p with
  | mul a b iha _ =>
    intro c hp hc
    simp only [isBodyI, Bool.and_eq_true, beq_iff_eq] at hp
    obtain ⟨⟨hb, ha⟩, hlt⟩ := hp
    simp only [multAtom]
    cases hcmp : cmpAtom b c with
    | gt =>
      simp only
      obtain ⟨i1, i2⟩ := iha ha hc
      refine ⟨?_, fun z hz _ => by simpa [lastF] using hz⟩
      simp only [isBodyI, Bool.and_eq_true, beq_iff_eq]
      exact ⟨⟨hb, i1⟩, i2 b hlt (cmpAtom_gt_lt b c hb hc hcmp)⟩
    | lt =>
      simp only
      refine ⟨?_, fun z _ hz => by simpa [lastF] using hz⟩
      simp only [isBodyI, Bool.and_eq_true, beq_iff_eq, lastF]
      exact ⟨⟨hc, ⟨⟨hb, ha⟩, hlt⟩⟩, hcmp⟩
    | eq =>
      simp only
      obtain ⟨x, e1, rfl⟩ := isAtomPow_pow hb
      obtain ⟨y, e2, rfl⟩ := isAtomPow_pow hc
      have hxy : x = y := cmpAtom_eq_base hb hc hcmp
      subst hxy
      simp only [if_true]
      refine ⟨?_, fun z hz _ => ?_⟩
      · simp only [isBodyI, Bool.and_eq_true, beq_iff_eq]
        refine ⟨⟨?_, ha⟩, ?_⟩
        · cases x <;> simp_all [isAtomPow]
        · rw [cmpAtom_pow_exp_right (lastF a) x (e1 + e2) e1]; exact hlt
      · simp only [lastF] at hz ⊢
        rw [cmpAtom_pow_exp x (e1 + e2) e1]; exact hz
  | pow x e _ =>
    intro c hp hc
    have hpa : isAtomPow (pow x e) = true := by simpa [isBodyI] using hp
    simp only [multAtom]
    cases hcmp : cmpAtom (pow x e) c with
    | gt =>
      simp only
      refine ⟨?_, fun z hz _ => by simpa [lastF] using hz⟩
      simp only [isBodyI, Bool.and_eq_true, beq_iff_eq]
      exact ⟨⟨hpa, isAtomPow_body hc⟩, by rw [isAtomPow_lastF hc]; exact cmpAtom_gt_lt _ c hpa hc hcmp⟩
    | lt =>
      simp only
      refine ⟨?_, fun z _ hz => by simpa [lastF] using hz⟩
      simp only [isBodyI, Bool.and_eq_true, beq_iff_eq]
      exact ⟨⟨hc, hp⟩, by simpa [lastF] using hcmp⟩
    | eq =>
      simp only
      obtain ⟨y, e2, rfl⟩ := isAtomPow_pow hc
      have hxy : x = y := cmpAtom_eq_base hpa hc hcmp
      subst hxy
      simp only [if_true]
      refine ⟨?_, fun z hz _ => ?_⟩
      · cases x <;> simp_all [isAtomPow, isBodyI]
      · simp only [lastF] at hz ⊢
        rw [cmpAtom_pow_exp x (e + e2) e]; exact hz
  | atom i s => intro c hp; simp [isBodyI, isAtomPow] at hp
  | num z => intro c hp; simp [isBodyI, isAtomPow] at hp
  | add u v _ _ => intro c hp; simp [isBodyI, isAtomPow] at hp
  | sub u v _ _ => intro c hp; simp [isBodyI, isAtomPow] at hp
  | neg u _ => intro c hp; simp [isBodyI, isAtomPow] at hp

/-- `norm_mult_monomial_wo_coeff` keeps the body shape. -/
theorem multWo_closed {a : IExp} (ha : isBodyI a = true) : ∀ {q : IExp}, isBodyI q = true →
    isBodyI (multWo a q) = true := by
  intro q
  induction q with
  | mul b c ihb _ =>
    intro hq
    simp only [isBodyI, Bool.and_eq_true, beq_iff_eq] at hq
    simp only [multWo]
    exact (multAtom_closed (ihb hq.1.2) hq.1.1).1
  | pow x e _ =>
    intro hq
    simp only [multWo]
    exact (multAtom_closed ha (by simpa [isBodyI] using hq)).1
  | atom i s => intro hq; simp [isBodyI, isAtomPow] at hq
  | num z => intro hq; simp [isBodyI, isAtomPow] at hq
  | add u v _ _ => intro hq; simp [isBodyI, isAtomPow] at hq
  | sub u v _ _ => intro hq; simp [isBodyI, isAtomPow] at hq
  | neg u _ => intro hq; simp [isBodyI, isAtomPow] at hq

theorem isMonoI_cases {m : IExp} (h : isMonoI m = true) :
    (∃ z, m = num z ∧ z ≠ 0) ∨ (∃ c b, m = mul (num c) b ∧ c ≠ 0 ∧ isBodyI b = true) := by
  cases m with
  | num z => left; exact ⟨z, rfl, by simpa [isMonoI] using h⟩
  | mul x b =>
    cases x with
    | num c =>
      right
      simp only [isMonoI, Bool.and_eq_true, decide_eq_true_eq] at h
      exact ⟨c, b, rfl, h.1, h.2⟩
    | _ => simp [isMonoI] at h
  | _ => simp [isMonoI] at h

theorem body_not_num {b : IExp} (h : isBodyI b = true) : ∀ z, b ≠ num z := by
  intro z e; subst e; simp [isBodyI, isAtomPow] at h

/-- `norm_mult_monomial`: the product of two monomials is a monomial. -/
theorem multMono_closed {x y : IExp} (hx : isMonoI x = true) (hy : isMonoI y = true) :
    isMonoI (multMono x y) = true := by
  rcases isMonoI_cases hx with ⟨c, rfl, hc⟩ | ⟨c, b1, rfl, hc, hb1⟩ <;>
    rcases isMonoI_cases hy with ⟨d, rfl, hd⟩ | ⟨d, b2, rfl, hd, hb2⟩
  · simp only [multMono, isMonoI, decide_eq_true_eq]; exact Int.mul_ne_zero hc hd
  · simp only [multMono, isMonoI, Bool.and_eq_true, decide_eq_true_eq]
    exact ⟨Int.mul_ne_zero hc hd, hb2⟩
  · simp only [multMono, isMonoI, Bool.and_eq_true, decide_eq_true_eq]
    exact ⟨Int.mul_ne_zero hd hc, hb1⟩
  · have h1 := body_not_num hb1
    have h2 := body_not_num hb2
    cases b2 with
    | num z => exact absurd rfl (h2 z)
    | _ =>
      simp only [multMono, isMonoI, Bool.and_eq_true, decide_eq_true_eq]
      exact ⟨Int.mul_ne_zero hc hd, multWo_closed hb1 hb2⟩

end Holpy.C10.IntN
