import Holpy.C10.ProofsIntOrd
/-
C10 — transitivity of the model's `fast_compare` on numeral exponents (same-size binary numerals are
compared least significant digit first).
-/
namespace Holpy.C10.IntN
open IExp

theorem bits_fuel : ∀ (f f' n : Nat), 1 ≤ f → 1 ≤ f' → n ≤ f → n ≤ f' → bits f n = bits f' n := by
  intro f
  induction f with
  | zero => intro f' n h; omega
  | succ f ih =>
    intro f' n _ h1' hn hn'
    cases f' with
    | zero => omega
    | succ f'' =>
      simp only [bits]
      by_cases h : n < 2
      · simp [h]
      · simp only [h, if_false]
        rw [ih f'' (n / 2) (by omega) (by omega) (by omega) (by omega)]

theorem bits_pos (f n : Nat) (hf : 1 ≤ f) : 1 ≤ bits f n := by
  cases f with
  | zero => omega
  | succ f => simp only [bits]; split <;> omega

/-- transitivity of the digit comparison on numerals of the same length -/
theorem binCmp_trans : ∀ (f a b c : Nat), a < f → b < f → c < f →
    bits f a = bits f b → bits f b = bits f c →
    binCmp f a b = .lt → binCmp f b c = .lt → binCmp f a c = .lt := by
  intro f
  induction f with
  | zero => intro a b c h; omega
  | succ f ih =>
    intro a b c ha hb hc e1 e2 h1 h2
    simp only [bits] at e1 e2
    simp only [binCmp] at h1 h2 ⊢
    by_cases a2 : a < 2
    · -- then b and c are < 2 as well
      have b2 : b < 2 := by
        by_cases hb2 : b < 2
        · exact hb2
        · exfalso
          have := bits_pos f (b / 2) (by omega)
          simp only [a2, hb2, if_true, if_false] at e1; omega
      have c2 : c < 2 := by
        by_cases hc2 : c < 2
        · exact hc2
        · exfalso
          have := bits_pos f (c / 2) (by omega)
          simp only [b2, hc2, if_true, if_false] at e2; omega
      simp only [a2, b2, c2, decide_true, Bool.true_or, Bool.or_true, if_true, Nat.compare_eq_lt] at h1 h2 ⊢
      omega
    · have b2 : ¬ b < 2 := by
        intro hb2
        have := bits_pos f (a / 2) (by omega)
        simp only [a2, hb2, if_true, if_false] at e1; omega
      have c2 : ¬ c < 2 := by
        intro hc2
        have := bits_pos f (b / 2) (by omega)
        simp only [b2, hc2, if_true, if_false] at e2; omega
      simp only [a2, b2, c2, if_false] at e1 e2
      simp only [a2, b2, c2, decide_false, Bool.or_false, Bool.false_eq_true, if_false] at h1 h2 ⊢
      have ea : bits f (a / 2) = bits f (b / 2) := by omega
      have eb : bits f (b / 2) = bits f (c / 2) := by omega
      have da : a % 2 < 2 := Nat.mod_lt _ (by omega)
      have db : b % 2 < 2 := Nat.mod_lt _ (by omega)
      have dc : c % 2 < 2 := Nat.mod_lt _ (by omega)
      cases hab : compare (a % 2) (b % 2) with
      | gt => rw [hab] at h1; cases h1
      | lt =>
        have l1 := Nat.compare_eq_lt.1 hab
        cases hbc : compare (b % 2) (c % 2) with
        | gt => rw [hbc] at h2; cases h2
        | lt => have l2 := Nat.compare_eq_lt.1 hbc; omega
        | eq =>
          have l2 := Nat.compare_eq_eq.1 hbc
          rw [Nat.compare_eq_lt.2 (show a % 2 < c % 2 by omega)]
      | eq =>
        have l1 := Nat.compare_eq_eq.1 hab
        rw [hab] at h1
        cases hbc : compare (b % 2) (c % 2) with
        | gt => rw [hbc] at h2; cases h2
        | lt =>
          have l2 := Nat.compare_eq_lt.1 hbc
          rw [Nat.compare_eq_lt.2 (show a % 2 < c % 2 by omega)]
        | eq =>
          have l2 := Nat.compare_eq_eq.1 hbc
          rw [hbc] at h2
          rw [Nat.compare_eq_eq.2 (show a % 2 = c % 2 by omega)]
          exact ih (a / 2) (b / 2) (c / 2) (by omega) (by omega) (by omega) ea eb h1 h2

theorem numSize_lt2 (n : Nat) : numSize n = 1 ↔ n < 2 := by
  unfold numSize
  by_cases h : n < 2
  · simp [h]
  · have := bits_pos n n (by omega)
    rw [if_neg h]
    constructor
    · intro e; omega
    · intro e; exact absurd e h

/-- what `numCmp` computes once the sizes agree -/
theorem numCmp_same {n m : Nat} (hs : numSize n = numSize m) :
    numCmp n m = (if n < 2 then compare m n else binCmp (n + m + 2) n m) := by
  unfold numCmp
  rw [if_neg (show ¬ (numSize n ≠ numSize m) from fun h => h hs)]
  by_cases h1 : n < 2
  · have h2 : m < 2 := (numSize_lt2 m).1 (by rw [← hs]; exact (numSize_lt2 n).2 h1)
    rw [if_pos (show (decide (n < 2) && decide (m < 2)) = true by simp [h1, h2]), if_pos h1]
  · rw [if_neg (show ¬ (decide (n < 2) && decide (m < 2)) = true by simp [h1]), if_neg h1,
      binCmp_fuel (n + 1) (n + m + 2) n m (by omega) (by omega)]

theorem numCmp_lt_size {n m : Nat} (h : numCmp n m = .lt) : numSize n ≤ numSize m := by
  unfold numCmp at h
  by_cases hs : numSize n = numSize m
  · omega
  · rw [if_pos (show numSize n ≠ numSize m from hs), Nat.compare_eq_lt] at h; omega

theorem numCmp_of_size_lt {n m : Nat} (h : numSize n < numSize m) : numCmp n m = .lt := by
  unfold numCmp
  rw [if_pos (show numSize n ≠ numSize m by omega), Nat.compare_eq_lt]; exact h

/-- `lt` on numeral exponents is transitive. -/
theorem numCmp_trans (a b c : Nat) (h1 : numCmp a b = .lt) (h2 : numCmp b c = .lt) : numCmp a c = .lt := by
  have s1 := numCmp_lt_size h1
  have s2 := numCmp_lt_size h2
  by_cases e1 : numSize a = numSize b
  · by_cases e2 : numSize b = numSize c
    · -- all three have the same size
      have e3 : numSize a = numSize c := e1.trans e2
      rw [numCmp_same e1] at h1
      rw [numCmp_same e2] at h2
      rw [numCmp_same e3]
      by_cases a2 : a < 2
      · have b2 : b < 2 := (numSize_lt2 b).1 (by rw [← e1]; exact (numSize_lt2 a).2 a2)
        simp only [a2, b2, if_true, Nat.compare_eq_lt] at h1 h2 ⊢
        omega
      · have b2 : ¬ b < 2 := fun hb => a2 ((numSize_lt2 a).1 (by rw [e1]; exact (numSize_lt2 b).2 hb))
        have c2 : ¬ c < 2 := fun hc => b2 ((numSize_lt2 b).1 (by rw [e2]; exact (numSize_lt2 c).2 hc))
        simp only [a2, b2, if_false] at h1 h2 ⊢
        -- common fuel
        have F := a + b + c + 2
        have ba : bits (a + b + c + 2) a = bits (a + b + c + 2) b := by
          have ea : numSize a = 2 * bits a a + 1 := by simp [numSize, a2]
          have eb : numSize b = 2 * bits b b + 1 := by simp [numSize, b2]
          rw [bits_fuel (a + b + c + 2) a a (by omega) (by omega) (by omega) (by omega),
            bits_fuel (a + b + c + 2) b b (by omega) (by omega) (by omega) (by omega)]
          omega
        have bb : bits (a + b + c + 2) b = bits (a + b + c + 2) c := by
          have eb : numSize b = 2 * bits b b + 1 := by simp [numSize, b2]
          have ec : numSize c = 2 * bits c c + 1 := by simp [numSize, c2]
          rw [bits_fuel (a + b + c + 2) b b (by omega) (by omega) (by omega) (by omega),
            bits_fuel (a + b + c + 2) c c (by omega) (by omega) (by omega) (by omega)]
          omega
        rw [binCmp_fuel (a + b + 2) (a + b + c + 2) a b (by omega) (by omega)] at h1
        rw [binCmp_fuel (b + c + 2) (a + b + c + 2) b c (by omega) (by omega)] at h2
        rw [binCmp_fuel (a + c + 2) (a + b + c + 2) a c (by omega) (by omega)]
        exact binCmp_trans _ a b c (by omega) (by omega) (by omega) ba bb h1 h2
    · exact numCmp_of_size_lt (by omega)
  · exact numCmp_of_size_lt (by omega)

end Holpy.C10.IntN
