import Holpy.C10.Model
import Holpy.C10.Proofs
import Holpy.C10.ProofsNat
import Holpy.C10.ProofsNF
/-
C10 — property theorems (statements only here; helper lemmas in Proofs.lean).
-/
namespace Holpy.C10

/-! ### conversions return equations about the given term -/

/-- Every combinator expression over rewrite rules (then/else/try/combination/arg/fun/arg1/binop/
abs/sub/repeat/bottom/top/top_sweep, nested arbitrarily, any recursion budget) returns, when it
returns at all, an equation whose left side is exactly the term it was applied to. -/
theorem conv_lhs (fuel : Nat) (ce : CE) (t l r : Term) (h : interp fuel ce t = .ok (l, r)) : l = t :=
  interp_lhs fuel ce t l r h

example : interp 10 (.top (.tryC (.rewr (.comb (.comb (.atom 0) (.atom 1)) (.var 0)) (.var 0))))
    (.comb (.atom 7) (.comb (.comb (.atom 0) (.atom 1)) (.atom 5)))
    = .ok (.comb (.atom 7) (.comb (.comb (.atom 0) (.atom 1)) (.atom 5)), .comb (.atom 7) (.atom 5)) := by
  rfl

/-- The same, combinator by combinator, for *arbitrary* argument conversions that have the
property (so it also covers conversions that are not rewrite rules, e.g. the normalisers). -/
theorem conv_lhs_combinators {c1 c2 : Conv} (h1 : LhsOK c1) (h2 : LhsOK c2) (n : Nat) :
    LhsOK (thenConv c1 c2) ∧ LhsOK (elseConv c1 c2) ∧ LhsOK (tryConv c1) ∧
    LhsOK (combinationConv c1 c2) ∧ LhsOK (argConv c1) ∧ LhsOK (funConv c1) ∧ LhsOK (arg1Conv c1) ∧
    LhsOK (binopConv c1) ∧ LhsOK (absConv c1) ∧ LhsOK (subConv c1) ∧ LhsOK (repeatConv c1 n) ∧
    LhsOK (bottomConv c1 n) ∧ LhsOK (topConv c1 n) ∧ LhsOK (topSweepConv c1) :=
  ⟨thenConv_lhs h1 h2, elseConv_lhs h1 h2, tryConv_lhs h1, combinationConv_lhs h1 h2, argConv_lhs h1,
   funConv_lhs h1, arg1Conv_lhs h1, binopConv_lhs h1, absConv_lhs h1, subConv_lhs h1,
   repeatConv_lhs h1 n, bottomConv_lhs h1 n, topConv_lhs h1 n, topSweepConv_lhs h1⟩

example : LhsOK allConv ∧ LhsOK noConv := ⟨allConv_lhs, noConv_lhs⟩

/-- The hypothesis on the argument conversions is needed: `ProofTerm.transitive` returns its
second argument unchecked when the first is reflexive, so a sub-conversion that answers about
another term makes `then_conv` answer about another term. -/
theorem conv_lhs_needs_hypothesis :
    ∃ c : Conv, ¬ LhsOK (thenConv allConv c) := by
  refine ⟨fun _ => .ok (.atom 1, .atom 2), ?_⟩
  intro h
  have := h (.atom 0) (.atom 1) (.atom 2) (by rfl)
  cases this

/-! ### conj_norm / disj_norm -/

/-- Conjunctions with the same set of members get the identical normal form. -/
theorem conjNorm_canonical {α : Type} {cmp : α → α → Ordering} (h : TotalOrder cmp) (t1 t2 : Tree α)
    (hm : ∀ x, x ∈ t1.leaves ↔ x ∈ t2.leaves) : conjNorm cmp t1 = conjNorm cmp t2 := by
  have hs : sortU cmp t1.leaves = sortU cmp t2.leaves :=
    sorted_ext h _ _ (sorted_sortU h _) (sorted_sortU h _)
      (fun x => by rw [mem_sortU h, mem_sortU h]; exact hm x)
  simp only [conjNorm, acNorm, hs]
  cases h2 : sortU cmp t2.leaves with
  | nil => exact absurd h2 (sortU_ne_nil h _ (leaves_ne_nil t2))
  | cons a l => rfl

example : conjNorm (fun a b : Nat => compare a b) (.node (.node (.leaf 3) (.leaf 1)) (.leaf 3))
    = conjNorm (fun a b : Nat => compare a b) (.node (.leaf 1) (.node (.leaf 3) (.leaf 1))) :=
  conjNorm_canonical natCmp_total _ _ (by intro x; simp [Tree.leaves]; omega)

/-- The same for disjunctions (`disj_norm` is the same function with the other connective). -/
theorem disjNorm_canonical {α : Type} {cmp : α → α → Ordering} (h : TotalOrder cmp) (t1 t2 : Tree α)
    (hm : ∀ x, x ∈ t1.leaves ↔ x ∈ t2.leaves) : disjNorm cmp t1 = disjNorm cmp t2 :=
  conjNorm_canonical h t1 t2 hm

example : disjNorm (fun a b : Nat => compare a b) (.node (.leaf 2) (.leaf 0))
    = .node (.leaf 0) (.leaf 2) := by decide

/-- Normalising a normal form changes nothing. -/
theorem conjNorm_idem {α : Type} {cmp : α → α → Ordering} (h : TotalOrder cmp) (t : Tree α) :
    conjNorm cmp (conjNorm cmp t) = conjNorm cmp t :=
  conjNorm_canonical h _ _ (fun x => by
    show x ∈ (acNorm cmp t).leaves ↔ x ∈ t.leaves
    rw [leaves_acNorm h t, mem_sortU h])

example : conjNorm (fun a b : Nat => compare a b)
    (conjNorm (fun a b : Nat => compare a b) (.node (.node (.leaf 3) (.leaf 1)) (.leaf 3)))
    = .node (.leaf 1) (.leaf 3) := by decide

theorem disjNorm_idem {α : Type} {cmp : α → α → Ordering} (h : TotalOrder cmp) (t : Tree α) :
    disjNorm cmp (disjNorm cmp t) = disjNorm cmp t := conjNorm_idem h t

example : disjNorm (fun a b : Nat => compare a b) (.node (.leaf 0) (.leaf 2)) = .node (.leaf 0) (.leaf 2) := by
  decide

/-- The normal form is propositionally equivalent to the conjunction (every valuation). -/
theorem conjNorm_sound {α : Type} {cmp : α → α → Ordering} (h : TotalOrder cmp) (ρ : α → Bool)
    (t : Tree α) : evalAnd ρ (conjNorm cmp t) = evalAnd ρ t := by
  rw [evalAnd_leaves, evalAnd_leaves]
  show (acNorm cmp t).leaves.all ρ = t.leaves.all ρ
  rw [leaves_acNorm h t]
  exact all_eq_of_mem_iff ρ _ _ (fun x => mem_sortU h x _)

example : evalAnd (fun n : Nat => n != 3)
    (conjNorm (fun a b : Nat => compare a b) (.node (.leaf 3) (.leaf 1))) = false := by decide

/-- ... and to the disjunction. -/
theorem disjNorm_sound {α : Type} {cmp : α → α → Ordering} (h : TotalOrder cmp) (ρ : α → Bool)
    (t : Tree α) : evalOr ρ (disjNorm cmp t) = evalOr ρ t := by
  rw [evalOr_leaves, evalOr_leaves]
  show (acNorm cmp t).leaves.any ρ = t.leaves.any ρ
  rw [leaves_acNorm h t]
  exact any_eq_of_mem_iff ρ _ _ (fun x => mem_sortU h x _)

example : evalOr (fun n : Nat => n == 3)
    (disjNorm (fun a b : Nat => compare a b) (.node (.leaf 3) (.leaf 1))) = true := by decide

/-! ### the nat polynomial normaliser (`data/nat.py` `norm_full`) -/

/-- The normal form has the same value in ℕ as the expression, for every valuation of the atoms
(whatever rank the harness gives the constant `one`). -/
theorem norm_sound (one : Nat) (ρ : Nat → Nat) (t : NExp) : eval ρ (norm one t) = eval ρ t :=
  norm_sound' one ρ t

/- (x + y) * (x + Suc y)  ↦  x + x*x + x*y*2 + y + y*y   (atoms x = 0, y = 1, `one` ranked 2) -/
example : norm 2 (.mul (.add (.atom 0 1) (.atom 1 1)) (.add (.atom 0 1) (.suc (.atom 1 1))))
    = .add (.add (.add (.add (.atom 0 1) (.atom 1 1)) (.mul (.atom 0 1) (.atom 0 1)))
        (.mul (.mul (.atom 0 1) (.atom 1 1)) (.num 2))) (.mul (.atom 1 1) (.atom 1 1)) := by
  rfl

/-- Every term of the shape `isNF` (0, or a left-nested sum of monomials with strictly increasing
bodies, each a numeral >= 1, a sorted product of atoms, or such a product times a coefficient >= 2)
is a fixed point of `norm_full`.  (That `norm t` always has this shape is `norm_nf_closed`.) -/
theorem norm_fixed_of_isNF (one : Nat) (t : NExp) (h : isNF one t = true) : norm one t = t :=
  norm_nf h

/- x + x*x + x*y*2 is a normal form (atoms x = 0, y = 1, `one` ranked 2) -/
example : isNF 2 (.add (.add (.atom 0 1) (.mul (.atom 0 1) (.atom 0 1)))
    (.mul (.mul (.atom 0 1) (.atom 1 1)) (.num 2))) = true := by decide



end Holpy.C10
