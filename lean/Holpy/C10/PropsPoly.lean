import Holpy.C10.PolyModel
import Holpy.C10.ProofsPolyEval
/-
C10 — property theorems about the polynomial layer (`util/poly.py`, `convert_to_poly`).
-/
namespace Holpy.C10
open Holpy.C10.Poly

/-- `convert_to_poly` is value preserving: in any commutative ring (ℤ for nat and int terms, ℚ for
real ones) and for any valuation of the atoms, the polynomial evaluates to the value of the
expression (with `x ^ 0 = 1` for every `x`). -/
theorem poly_eval_sound {α : Type} [CommRing α] [DecidableEq α] (ρ : Nat → α) (e : PExp α) :
    evalPoly ρ (toPoly e) = evalE ρ e :=
  evalPoly_toPoly ρ e

/- (x + y) * (x - y) = x^2 - y^2 : the model's polynomial is [x^2 ↦ 1, y^2 ↦ -1] -/
example : toPoly (.mul (.add (.atom 0) (.atom 1)) (.sub (.atom 0) (.atom 1)) : PExp Int)
    = [([(0, 2)], 1), ([(1, 2)], -1)] := by decide

end Holpy.C10
