import Holpy.C10.ProofsIntClosureNF

/-! First layer of the injectivity normal form -> polynomial for the integer normaliser: a polynomial
tree is determined by the list of its monomials, and that list is strictly sorted under
`compare_monomial` and consists of monomials. -/

namespace Holpy.C10.IntN
open IExp

/-- the monomials of a left-nested sum, left to right -/
def monosI : IExp → List IExp
  | add p m => monosI p ++ [m]
  | t => [t]

theorem monosI_ne_nil (s : IExp) : monosI s ≠ [] := by
  cases s <;> simp [monosI]

theorem mono_not_add {m : IExp} (h : isMonoI m = true) : ∀ u v, m ≠ add u v := by
  intro u v e; subst e; simp [isMonoI] at h

theorem monosI_of_mono {m : IExp} (h : isMonoI m = true) : monosI m = [m] := by
  rcases isMonoI_cases h with ⟨z, rfl, _⟩ | ⟨c, b, rfl, _, _⟩ <;> rfl

/-- a polynomial tree is determined by its monomial list -/
theorem monosI_inj : ∀ {s t : IExp}, isPolyI s = true → isPolyI t = true → monosI s = monosI t → s = t := by
  intro s
  induction s with
  | add p m ihp _ =>
    intro t hs ht h
    simp only [isPolyI, Bool.and_eq_true, beq_iff_eq] at hs
    cases t with
    | add q m' =>
      simp only [isPolyI, Bool.and_eq_true, beq_iff_eq] at ht
      simp only [monosI] at h
      have := List.append_inj' h rfl
      have hm : m = m' := by simpa using this.2
      rw [ihp hs.1.1 ht.1.1 this.1, hm]
    | num z =>
      simp only [monosI] at h
      have : (monosI p ++ [m]).length = 1 := by rw [h]; rfl
      have hp := monosI_ne_nil p
      cases hl : monosI p with
      | nil => exact absurd hl hp
      | cons a l => rw [hl] at this; simp at this
    | mul u v =>
      simp only [monosI] at h
      have : (monosI p ++ [m]).length = 1 := by rw [h]; rfl
      have hp := monosI_ne_nil p
      cases hl : monosI p with
      | nil => exact absurd hl hp
      | cons a l => rw [hl] at this; simp at this
    | _ => simp [isPolyI, isMonoI] at ht
  | num z =>
    intro t _ ht h
    cases t with
    | add q m' =>
      simp only [monosI] at h
      have : (monosI q ++ [m']).length = 1 := by rw [← h]; rfl
      have hp := monosI_ne_nil q
      cases hl : monosI q with
      | nil => exact absurd hl hp
      | cons a l => rw [hl] at this; simp at this
    | num z' => simpa [monosI] using h
    | mul u v => simp [monosI] at h
    | _ => simp [isPolyI, isMonoI] at ht
  | mul u v _ _ =>
    intro t _ ht h
    cases t with
    | add q m' =>
      simp only [monosI] at h
      have : (monosI q ++ [m']).length = 1 := by rw [← h]; rfl
      have hp := monosI_ne_nil q
      cases hl : monosI q with
      | nil => exact absurd hl hp
      | cons a l => rw [hl] at this; simp at this
    | num z' => simp [monosI] at h
    | mul u' v' => simpa [monosI] using h
    | _ => simp [isPolyI, isMonoI] at ht
  | atom i s => intro t hs; simp [isPolyI, isMonoI] at hs
  | sub u v _ _ => intro t hs; simp [isPolyI, isMonoI] at hs
  | neg u _ => intro t hs; simp [isPolyI, isMonoI] at hs
  | pow u e _ => intro t hs; simp [isPolyI, isMonoI] at hs

/-- the monomial list of a polynomial: monomials, strictly sorted, all at most the last one -/
theorem monosI_facts : ∀ {s : IExp}, isPolyI s = true →
    (∀ m ∈ monosI s, isMonoI m = true) ∧
    (monosI s).Pairwise (fun a b => cmpMono a b = .lt) ∧
    (∀ m ∈ monosI s, m = lastM s ∨ cmpMono m (lastM s) = .lt) := by
  intro s
  induction s with
  | add p m ihp _ =>
    intro hs
    simp only [isPolyI, Bool.and_eq_true, beq_iff_eq] at hs
    obtain ⟨⟨hp, hm⟩, hlt⟩ := hs
    obtain ⟨i1, i2, i3⟩ := ihp hp
    have hbelow : ∀ a ∈ monosI p, cmpMono a m = .lt := by
      intro a ha
      rcases i3 a ha with h | h
      · rw [h]; exact hlt
      · exact cmpMono_trans (i1 a ha) (lastM_mono hp) hm h hlt
    refine ⟨?_, ?_, ?_⟩
    · intro x hx
      simp only [monosI, List.mem_append, List.mem_singleton] at hx
      rcases hx with hx | hx
      · exact i1 x hx
      · rw [hx]; exact hm
    · simp only [monosI]
      rw [List.pairwise_append]
      refine ⟨i2, by simp, ?_⟩
      intro a ha b hb
      simp only [List.mem_singleton] at hb
      rw [hb]; exact hbelow a ha
    · intro x hx
      simp only [monosI, List.mem_append, List.mem_singleton] at hx
      simp only [lastM]
      rcases hx with hx | hx
      · exact Or.inr (hbelow x hx)
      · exact Or.inl hx
  | num z =>
    intro hs
    have hm : isMonoI (num z) = true := by simpa [isPolyI] using hs
    refine ⟨?_, by simp [monosI], ?_⟩ <;> intro m hm' <;> simp only [monosI, List.mem_singleton] at hm'
    · rw [hm']; exact hm
    · exact Or.inl (by rw [hm']; rfl)
  | mul u v _ _ =>
    intro hs
    have hm : isMonoI (mul u v) = true := by simpa [isPolyI] using hs
    refine ⟨?_, by simp [monosI], ?_⟩ <;> intro m hm' <;> simp only [monosI, List.mem_singleton] at hm'
    · rw [hm']; exact hm
    · exact Or.inl (by rw [hm']; rfl)
  | atom i s => intro hs; simp [isPolyI, isMonoI] at hs
  | sub u v _ _ => intro hs; simp [isPolyI, isMonoI] at hs
  | neg u _ => intro hs; simp [isPolyI, isMonoI] at hs
  | pow u e _ => intro hs; simp [isPolyI, isMonoI] at hs

end Holpy.C10.IntN
