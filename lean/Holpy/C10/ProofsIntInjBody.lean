import Holpy.C10.ProofsIntInj

/-! The same first layer for monomial bodies: a body is determined by the list of its factors
`x ^ e`, which is strictly sorted by the bases. -/

namespace Holpy.C10.IntN
open IExp

/-- the factors of a left-nested product, left to right -/
def facsI : IExp → List IExp
  | mul b a => facsI b ++ [a]
  | t => [t]

theorem facsI_ne_nil (s : IExp) : facsI s ≠ [] := by
  cases s <;> simp [facsI]

theorem cmpAtom_trans {a b c : IExp} (ha : isAtomPow a = true) (hb : isAtomPow b = true)
    (hc : isAtomPow c = true) (h1 : cmpAtom a b = .lt) (h2 : cmpAtom b c = .lt) : cmpAtom a c = .lt := by
  obtain ⟨x, e, rfl⟩ := isAtomPow_pow ha
  obtain ⟨y, f, rfl⟩ := isAtomPow_pow hb
  obtain ⟨z, g, rfl⟩ := isAtomPow_pow hc
  cases x <;> simp [isAtomPow] at ha
  cases y <;> simp [isAtomPow] at hb
  cases z <;> simp [isAtomPow] at hc
  simp only [cmpAtom, baseCmp, ordThen_eq_lt, Nat.compare_eq_lt, Nat.compare_eq_eq] at h1 h2 ⊢
  omega

/-- a body is determined by its factor list -/
theorem facsI_inj : ∀ {s t : IExp}, isBodyI s = true → isBodyI t = true → facsI s = facsI t → s = t := by
  intro s
  induction s with
  | mul p m ihp _ =>
    intro t hs ht h
    simp only [isBodyI, Bool.and_eq_true, beq_iff_eq] at hs
    cases t with
    | mul q m' =>
      simp only [isBodyI, Bool.and_eq_true, beq_iff_eq] at ht
      simp only [facsI] at h
      have := List.append_inj' h rfl
      have hm : m = m' := by simpa using this.2
      rw [ihp hs.1.2 ht.1.2 this.1, hm]
    | pow u e =>
      simp only [facsI] at h
      have : (facsI p ++ [m]).length = 1 := by rw [h]; rfl
      have hp := facsI_ne_nil p
      cases hl : facsI p with
      | nil => exact absurd hl hp
      | cons a l => rw [hl] at this; simp at this
    | _ => simp [isBodyI, isAtomPow] at ht
  | pow u e _ =>
    intro t _ ht h
    cases t with
    | mul q m' =>
      simp only [facsI] at h
      have : (facsI q ++ [m']).length = 1 := by rw [← h]; rfl
      have hp := facsI_ne_nil q
      cases hl : facsI q with
      | nil => exact absurd hl hp
      | cons a l => rw [hl] at this; simp at this
    | pow u' e' => simpa [facsI] using h
    | _ => simp [isBodyI, isAtomPow] at ht
  | atom i s => intro t hs; simp [isBodyI, isAtomPow] at hs
  | num z => intro t hs; simp [isBodyI, isAtomPow] at hs
  | add u v _ _ => intro t hs; simp [isBodyI, isAtomPow] at hs
  | sub u v _ _ => intro t hs; simp [isBodyI, isAtomPow] at hs
  | neg u _ => intro t hs; simp [isBodyI, isAtomPow] at hs

theorem lastF_atomPow {b : IExp} (hb : isBodyI b = true) : isAtomPow (lastF b) = true := by
  cases b with
  | mul u v => simp only [isBodyI, Bool.and_eq_true] at hb; exact hb.1.1
  | pow u e => simpa [isBodyI, lastF] using hb
  | _ => simp [isBodyI, isAtomPow] at hb

/-- the factor list of a body: atoms `x ^ e`, strictly sorted by the bases, all at most the last -/
theorem facsI_facts : ∀ {s : IExp}, isBodyI s = true →
    (∀ m ∈ facsI s, isAtomPow m = true) ∧
    (facsI s).Pairwise (fun a b => cmpAtom a b = .lt) ∧
    (∀ m ∈ facsI s, m = lastF s ∨ cmpAtom m (lastF s) = .lt) := by
  intro s
  induction s with
  | mul p m ihp _ =>
    intro hs
    simp only [isBodyI, Bool.and_eq_true, beq_iff_eq] at hs
    obtain ⟨⟨hm, hp⟩, hlt⟩ := hs
    obtain ⟨i1, i2, i3⟩ := ihp hp
    have hbelow : ∀ a ∈ facsI p, cmpAtom a m = .lt := by
      intro a ha
      rcases i3 a ha with h | h
      · rw [h]; exact hlt
      · exact cmpAtom_trans (i1 a ha) (lastF_atomPow hp) hm h hlt
    refine ⟨?_, ?_, ?_⟩
    · intro x hx
      simp only [facsI, List.mem_append, List.mem_singleton] at hx
      rcases hx with hx | hx
      · exact i1 x hx
      · rw [hx]; exact hm
    · simp only [facsI]
      rw [List.pairwise_append]
      refine ⟨i2, by simp, ?_⟩
      intro a ha b hb
      simp only [List.mem_singleton] at hb
      rw [hb]; exact hbelow a ha
    · intro x hx
      simp only [facsI, List.mem_append, List.mem_singleton] at hx
      simp only [lastF]
      rcases hx with hx | hx
      · exact Or.inr (hbelow x hx)
      · exact Or.inl hx
  | pow u e _ =>
    intro hs
    have hm : isAtomPow (pow u e) = true := by simpa [isBodyI] using hs
    refine ⟨?_, by simp [facsI], ?_⟩ <;> intro m hm' <;> simp only [facsI, List.mem_singleton] at hm'
    · rw [hm']; exact hm
    · exact Or.inl (by rw [hm']; rfl)
  | atom i s => intro hs; simp [isBodyI, isAtomPow] at hs
  | num z => intro hs; simp [isBodyI, isAtomPow] at hs
  | add u v _ _ => intro hs; simp [isBodyI, isAtomPow] at hs
  | sub u v _ _ => intro hs; simp [isBodyI, isAtomPow] at hs
  | neg u _ => intro hs; simp [isBodyI, isAtomPow] at hs

end Holpy.C10.IntN
