import Holpy.C10.ProofsIntClosure
import Holpy.C10.ProofsIntOrdBody

/-! Closure of the additive layer of the integer normaliser: `norm_add_monomial` (`insMI`) keeps the
polynomial shape (left-nested sum of monomials strictly increasing under `compare_monomial`), also
when coefficients cancel and a monomial disappears -- this is where the transitivity of the order is
needed. -/

namespace Holpy.C10.IntN
open IExp

theorem isAtomPow_tree {a : IExp} (h : isAtomPow a = true) : isTreeI a = true := by
  obtain ⟨x, e, rfl⟩ := isAtomPow_pow h
  cases x <;> simp_all [isAtomPow, isTreeI]

theorem isBody_tree : ∀ {b : IExp}, isBodyI b = true → isTreeI b = true := by
  intro b
  induction b with
  | mul x y ihx _ =>
    intro h
    simp only [isBodyI, Bool.and_eq_true, beq_iff_eq] at h
    simp only [isTreeI, Bool.and_eq_true]
    exact ⟨ihx h.1.2, isAtomPow_tree h.1.1⟩
  | pow x e _ => intro h; exact isAtomPow_tree (by simpa [isBodyI] using h)
  | atom i s => intro h; simp [isBodyI, isAtomPow] at h
  | num z => intro h; simp [isBodyI, isAtomPow] at h
  | add u v _ _ => intro h; simp [isBodyI, isAtomPow] at h
  | sub u v _ _ => intro h; simp [isBodyI, isAtomPow] at h
  | neg u _ => intro h; simp [isBodyI, isAtomPow] at h

theorem cmpMono_coeff_right (x : IExp) (c d : Int) (q : IExp) :
    cmpMono x (mul (num c) q) = cmpMono x (mul (num d) q) := by
  cases x <;> rfl

theorem cmpMono_coeff_left (z : IExp) (c d : Int) (q : IExp) :
    cmpMono (mul (num c) q) z = cmpMono (mul (num d) q) z := by
  cases z <;> rfl

theorem cmpMono_num_left (z : IExp) (x y : Int) : cmpMono (num x) z = cmpMono (num y) z := by
  cases z <;> rfl

theorem cmpMono_gt_lt {a b : IExp} (ha : isMonoI a = true) (hb : isMonoI b = true)
    (h : cmpMono a b = .gt) : cmpMono b a = .lt := by
  rcases isMonoI_cases ha with ⟨x, rfl, _⟩ | ⟨c, p, rfl, _, hp⟩ <;>
    rcases isMonoI_cases hb with ⟨y, rfl, _⟩ | ⟨d, q, rfl, _, hq⟩
  · simp [cmpMono] at h
  · simp [cmpMono] at h
  · simp [cmpMono]
  · simp only [cmpMono] at h ⊢; exact (bodyCmp_gt_iff p q).1 h

theorem cmpMono_trans {a b c : IExp} (ha : isMonoI a = true) (hb : isMonoI b = true)
    (hc : isMonoI c = true) (h1 : cmpMono a b = .lt) (h2 : cmpMono b c = .lt) : cmpMono a c = .lt := by
  rcases isMonoI_cases ha with ⟨x, rfl, _⟩ | ⟨c1, p, rfl, _, hp⟩ <;>
    rcases isMonoI_cases hb with ⟨y, rfl, _⟩ | ⟨c2, q, rfl, _, hq⟩ <;>
    rcases isMonoI_cases hc with ⟨z, rfl, _⟩ | ⟨c3, r, rfl, _, hr⟩
  · simp [cmpMono] at h1
  · simp [cmpMono] at h1
  · simp [cmpMono] at h2
  · simp [cmpMono]
  · simp [cmpMono] at h1
  · simp [cmpMono] at h1
  · simp [cmpMono] at h2
  · simp only [cmpMono] at h1 h2 ⊢
    exact bodyCmp_trans p q r (isBody_tree hp) (isBody_tree hq) (isBody_tree hr) h1 h2

theorem cmpMono_eq_cases {a b : IExp} (ha : isMonoI a = true) (hb : isMonoI b = true)
    (h : cmpMono a b = .eq) :
    (∃ x y, a = num x ∧ b = num y) ∨ (∃ c d q, a = mul (num c) q ∧ b = mul (num d) q) := by
  rcases isMonoI_cases ha with ⟨x, rfl, _⟩ | ⟨c, p, rfl, _, hp⟩ <;>
    rcases isMonoI_cases hb with ⟨y, rfl, _⟩ | ⟨d, q, rfl, _, hq⟩
  · exact Or.inl ⟨x, y, rfl, rfl⟩
  · simp [cmpMono] at h
  · simp [cmpMono] at h
  · simp only [cmpMono] at h
    have := bodyCmp_eq p q (isBody_tree hp) (isBody_tree hq) h
    subst this
    exact Or.inr ⟨c, d, p, rfl, rfl⟩

theorem not_lt_num {m : IExp} (hm : isMonoI m = true) (x : Int) : cmpMono m (num x) ≠ .lt := by
  rcases isMonoI_cases hm with ⟨y, rfl, _⟩ | ⟨d, q, rfl, _, hq⟩ <;> simp [cmpMono]

theorem mono_poly {m : IExp} (hm : isMonoI m = true) : isPolyI m = true := by
  rcases isMonoI_cases hm with ⟨y, rfl, _⟩ | ⟨d, q, rfl, _, hq⟩ <;> simpa [isPolyI] using hm

theorem lastM_of_mono {m : IExp} (hm : isMonoI m = true) : lastM m = m := by
  rcases isMonoI_cases hm with ⟨y, rfl, _⟩ | ⟨d, q, rfl, _, hq⟩ <;> rfl

theorem lastM_mono {p : IExp} (hp : isPolyI p = true) : isMonoI (lastM p) = true := by
  cases p <;> simp_all [isPolyI, lastM]

theorem poly_ne_zero {p : IExp} (hp : isPolyI p = true) : p ≠ num 0 := by
  intro e; subst e; simp [isPolyI, isMonoI] at hp

/-- `norm_add_monomial` on two monomials. -/
theorem insMI_mono {a c : IExp} (ha : isMonoI a = true) (hc : isMonoI c = true) :
    insMI a c = num 0 ∨ (isPolyI (insMI a c) = true ∧
      ∀ z, cmpMono a z = .lt → cmpMono c z = .lt → cmpMono (lastM (insMI a c)) z = .lt) := by
  rcases isMonoI_cases ha with ⟨x, rfl, hx⟩ | ⟨c1, p, rfl, h1, hp⟩ <;>
    rcases isMonoI_cases hc with ⟨y, rfl, hy⟩ | ⟨c2, q, rfl, h2, hq⟩
  · by_cases h0 : x + y = 0
    · left; simp [insMI, cmpMono, hx, hy, h0]
    · right
      have : insMI (num x) (num y) = num (x + y) := by simp [insMI, cmpMono, hx, hy]
      rw [this]
      refine ⟨by simpa [isPolyI, isMonoI] using h0, fun z hz _ => ?_⟩
      simp only [lastM]
      rw [cmpMono_num_left z (x + y) x]; exact hz
  · right
    have : insMI (num x) (mul (num c2) q) = add (num x) (mul (num c2) q) := by
      simp [insMI, cmpMono, hx]
    rw [this]
    refine ⟨?_, fun z _ hz => by simpa [lastM] using hz⟩
    simp only [isPolyI, Bool.and_eq_true, beq_iff_eq, lastM]
    exact ⟨⟨ha, hc⟩, by simp [cmpMono]⟩
  · right
    have : insMI (mul (num c1) p) (num y) = add (num y) (mul (num c1) p) := by
      simp [insMI, cmpMono, hy]
    rw [this]
    refine ⟨?_, fun z hz _ => by simpa [lastM] using hz⟩
    simp only [isPolyI, Bool.and_eq_true, beq_iff_eq, lastM]
    exact ⟨⟨hc, ha⟩, by simp [cmpMono]⟩
  · cases hcmp : bodyCmp p q with
    | lt =>
      right
      have : insMI (mul (num c1) p) (mul (num c2) q) = add (mul (num c1) p) (mul (num c2) q) := by
        simp [insMI, cmpMono, hcmp]
      rw [this]
      refine ⟨?_, fun z _ hz => by simpa [lastM] using hz⟩
      simp only [isPolyI, Bool.and_eq_true, beq_iff_eq, lastM]
      exact ⟨⟨ha, hc⟩, by simpa [cmpMono] using hcmp⟩
    | gt =>
      right
      have : insMI (mul (num c1) p) (mul (num c2) q) = add (mul (num c2) q) (mul (num c1) p) := by
        simp [insMI, cmpMono, hcmp]
      rw [this]
      refine ⟨?_, fun z hz _ => by simpa [lastM] using hz⟩
      simp only [isPolyI, Bool.and_eq_true, beq_iff_eq, lastM]
      exact ⟨⟨hc, ha⟩, by simpa [cmpMono] using (bodyCmp_gt_iff p q).1 hcmp⟩
    | eq =>
      have hpq := bodyCmp_eq p q (isBody_tree hp) (isBody_tree hq) hcmp
      subst hpq
      by_cases h0 : c1 + c2 = 0
      · left; simp [insMI, cmpMono, hcmp, combine, h0]
      · right
        have : insMI (mul (num c1) p) (mul (num c2) p) = mul (num (c1 + c2)) p := by
          simp [insMI, cmpMono, hcmp, combine, h0]
        rw [this]
        refine ⟨?_, fun z hz _ => ?_⟩
        · simp only [isPolyI, isMonoI, Bool.and_eq_true, decide_eq_true_eq]; exact ⟨h0, hp⟩
        · simp only [lastM]
          rw [cmpMono_coeff_left z (c1 + c2) c1 p]; exact hz

/-- `norm_add_monomial` keeps the polynomial shape (or returns `0`); a monomial that may follow both
the old last monomial and the inserted one may follow the new last monomial. -/
theorem insMI_closed : ∀ {p c : IExp}, isPolyI p = true → isMonoI c = true →
    insMI p c = num 0 ∨ (isPolyI (insMI p c) = true ∧
      ∀ z, isMonoI z = true → cmpMono (lastM p) z = .lt → cmpMono c z = .lt →
        cmpMono (lastM (insMI p c)) z = .lt) := by
  intro p
  induction p with
  | add a b iha _ =>
    intro c hp hc
    simp only [isPolyI, Bool.and_eq_true, beq_iff_eq] at hp
    obtain ⟨⟨ha, hb⟩, hab⟩ := hp
    right
    simp only [insMI]
    cases hcmp : cmpMono b c with
    | lt =>
      simp only
      refine ⟨?_, fun z _ _ hz => by simpa [lastM] using hz⟩
      simp only [isPolyI, Bool.and_eq_true, beq_iff_eq, lastM]
      exact ⟨⟨⟨⟨ha, hb⟩, hab⟩, hc⟩, hcmp⟩
    | gt =>
      simp only
      have hcb := cmpMono_gt_lt hb hc hcmp
      rcases iha ha hc with h0 | ⟨i1, i2⟩
      · rw [if_pos h0]
        refine ⟨mono_poly hb, fun z _ hz _ => ?_⟩
        simp only [lastM] at hz
        rw [lastM_of_mono hb]; exact hz
      · rw [if_neg (poly_ne_zero i1)]
        refine ⟨?_, fun z _ hz _ => by simpa [lastM] using hz⟩
        simp only [isPolyI, Bool.and_eq_true, beq_iff_eq]
        exact ⟨⟨i1, hb⟩, i2 b hb hab hcb⟩
    | eq =>
      simp only
      rcases cmpMono_eq_cases hb hc hcmp with ⟨x, y, rfl, rfl⟩ | ⟨c1, c2, q, rfl, rfl⟩
      · exact absurd hab (not_lt_num (lastM_mono ha) x)
      · have hq : isBodyI q = true := by
          simp only [isMonoI, Bool.and_eq_true] at hb; exact hb.2
        have h1 : c1 ≠ 0 := by
          simp only [isMonoI, Bool.and_eq_true, decide_eq_true_eq] at hb; exact hb.1
        by_cases h0 : c1 + c2 = 0
        · simp only [combine, if_true, if_pos h0]
          refine ⟨ha, fun z hz hbz _ => ?_⟩
          simp only [lastM] at hbz
          exact cmpMono_trans (lastM_mono ha) hb hz hab hbz
        · simp only [combine, if_true, if_neg h0]
          refine ⟨?_, fun z _ hbz _ => ?_⟩
          · simp only [isPolyI, isMonoI, Bool.and_eq_true, beq_iff_eq, decide_eq_true_eq]
            refine ⟨⟨ha, h0, hq⟩, ?_⟩
            rw [cmpMono_coeff_right (lastM a) (c1 + c2) c1 q]; exact hab
          · simp only [lastM] at hbz ⊢
            rw [cmpMono_coeff_left z (c1 + c2) c1 q]; exact hbz
  | num x =>
    intro c hp hc
    have hm : isMonoI (num x) = true := by simpa [isPolyI] using hp
    rcases insMI_mono hm hc with h | ⟨h1, h2⟩
    · exact Or.inl h
    · exact Or.inr ⟨h1, fun z _ hz hcz => h2 z (by simpa [lastM] using hz) hcz⟩
  | mul u v _ _ =>
    intro c hp hc
    have hm : isMonoI (mul u v) = true := by simpa [isPolyI] using hp
    rcases insMI_mono hm hc with h | ⟨h1, h2⟩
    · exact Or.inl h
    · exact Or.inr ⟨h1, fun z _ hz hcz => h2 z (by simpa [lastM] using hz) hcz⟩
  | atom i s => intro c hp; simp [isPolyI, isMonoI] at hp
  | sub u v _ _ => intro c hp; simp [isPolyI, isMonoI] at hp
  | neg u _ => intro c hp; simp [isPolyI, isMonoI] at hp
  | pow u e _ => intro c hp; simp [isPolyI, isMonoI] at hp

end Holpy.C10.IntN
