import Holpy.C10.ProofsCollect
import Holpy.C10.ProofsPolyOrd
/-
C10 — the polynomial `convert_to_poly` builds has the value of the expression (any commutative
ring, any valuation of the atoms; `x ^ 0 = 1`).
-/
set_option linter.unusedSectionVars false
namespace Holpy.C10.Poly
open Holpy.C10

section
variable {α : Type} [CommRing α] [DecidableEq α]

/-- Value of a factor list: `Π ρ a ^ k`. -/
def evalMono (ρ : Nat → α) : Mono → α
  | [] => 1
  | f :: m => ρ f.1 ^ f.2 * evalMono ρ m

/-- Value of a polynomial: `Σ c * value of the monomial`. -/
def evalPoly (ρ : Nat → α) (p : PolyL α) : α := wsum (evalMono ρ) p

/-- Value of an expression. -/
def evalE (ρ : Nat → α) : PExp α → α
  | .atom i => ρ i
  | .num c => c
  | .add a b => evalE ρ a + evalE ρ b
  | .mul a b => evalE ρ a * evalE ρ b
  | .neg a => - evalE ρ a
  | .sub a b => evalE ρ a - evalE ρ b
  | .pow a k => evalE ρ a ^ k
  | .scale c a => c * evalE ρ a

theorem evalMono_append (ρ : Nat → α) (m1 m2 : Mono) :
    evalMono ρ (m1 ++ m2) = evalMono ρ m1 * evalMono ρ m2 := by
  induction m1 with
  | nil => simp [evalMono]
  | cons f m ih => simp [evalMono, ih]; ring

theorem evalMono_insertAdd (ρ : Nat → α) (a k : Nat) (m : Mono) :
    evalMono ρ (insertAdd natCmp a k m) = ρ a ^ k * evalMono ρ m := by
  induction m with
  | nil => simp [insertAdd, evalMono]
  | cons f m ih =>
    obtain ⟨a', k'⟩ := f
    unfold insertAdd
    cases hc : natCmp a a' with
    | lt => simp [evalMono]
    | eq =>
      have := (natCmp_total'.eq_iff a a').1 hc
      subst this
      simp [evalMono, pow_add]; ring
    | gt => simp [evalMono, ih]; ring

theorem evalMono_merged (ρ : Nat → α) (m : Mono) : evalMono ρ (merged natCmp m) = evalMono ρ m := by
  induction m with
  | nil => rfl
  | cons f m ih =>
    show evalMono ρ (insertAdd natCmp f.1 f.2 (merged natCmp m)) = _
    rw [evalMono_insertAdd, ih]; rfl

theorem evalMono_filter (ρ : Nat → α) (m : Mono) :
    evalMono ρ (m.filter (fun p => p.2 ≠ 0)) = evalMono ρ m := by
  induction m with
  | nil => rfl
  | cons f m ih =>
    simp only [List.filter_cons]
    split
    · simp only [evalMono]; rw [ih]
    · next hp =>
      have h0 : f.2 = 0 := by simpa using hp
      simp only [evalMono, h0]; rw [ih]; simp

theorem evalMono_monoMul (ρ : Nat → α) (m1 m2 : Mono) :
    evalMono ρ (monoMul m1 m2) = evalMono ρ m1 * evalMono ρ m2 := by
  unfold monoMul collect
  rw [evalMono_filter, evalMono_merged, evalMono_append]

theorem evalPoly_mkPoly (ρ : Nat → α) (l : PolyL α) : evalPoly ρ (mkPoly l) = evalPoly ρ l :=
  wsum_collect monoCmp_total _ l

theorem evalPoly_padd (ρ : Nat → α) (p q : PolyL α) :
    evalPoly ρ (padd p q) = evalPoly ρ p + evalPoly ρ q := by
  unfold padd; rw [evalPoly_mkPoly]; exact wsum_append _ p q

theorem wsum_map_monoMul (ρ : Nat → α) (t : Mono × α) (q : PolyL α) :
    wsum (evalMono ρ) (q.map (fun t2 => (monoMul t.1 t2.1, t.2 * t2.2)))
      = t.2 * evalMono ρ t.1 * wsum (evalMono ρ) q := by
  induction q with
  | nil => simp [wsum]
  | cons u q ihq => simp only [List.map_cons, wsum, ihq, evalMono_monoMul]; ring

theorem evalPoly_prodTerms (ρ : Nat → α) (p q : PolyL α) :
    evalPoly ρ (prodTerms p q) = evalPoly ρ p * evalPoly ρ q := by
  unfold prodTerms evalPoly
  induction p with
  | nil => simp [wsum]
  | cons t p ih =>
    simp only [List.flatMap_cons, wsum_append, ih, wsum]
    rw [wsum_map_monoMul]; ring

theorem evalPoly_pmul (ρ : Nat → α) (p q : PolyL α) :
    evalPoly ρ (pmul p q) = evalPoly ρ p * evalPoly ρ q := by
  unfold pmul; rw [evalPoly_mkPoly, evalPoly_prodTerms]

theorem evalPoly_pscale (ρ : Nat → α) (c : α) (p : PolyL α) :
    evalPoly ρ (pscale c p) = c * evalPoly ρ p := by
  unfold pscale; rw [evalPoly_mkPoly]
  unfold evalPoly
  induction p with
  | nil => simp [wsum]
  | cons t p ih => simp only [List.map_cons, wsum, ih]; ring

theorem evalPoly_pconst (ρ : Nat → α) (c : α) : evalPoly ρ (pconst c) = c := by
  unfold pconst; rw [evalPoly_mkPoly]; simp [evalPoly, wsum, evalMono]

theorem evalPoly_psingle (ρ : Nat → α) (i : Nat) : evalPoly ρ (psingle i : PolyL α) = ρ i := by
  unfold psingle; rw [evalPoly_mkPoly]
  simp [evalPoly, wsum, collect, merged, insertAdd, evalMono]

theorem evalPoly_powLoop (ρ : Nat → α) (p : PolyL α) (n : Nat) (r : PolyL α) :
    evalPoly ρ (powLoop p n r) = evalPoly ρ r * evalPoly ρ p ^ n := by
  induction n generalizing r with
  | zero => simp [powLoop]
  | succ n ih => simp only [powLoop, ih, evalPoly_pmul]; ring

theorem evalPoly_ppow (ρ : Nat → α) (p : PolyL α) (n : Nat) :
    evalPoly ρ (ppow p n) = evalPoly ρ p ^ n := by
  cases n with
  | zero => simp [ppow, evalPoly_pconst]
  | succ n => simp only [ppow, evalPoly_powLoop]; ring

theorem evalPoly_toPoly (ρ : Nat → α) (e : PExp α) : evalPoly ρ (toPoly e) = evalE ρ e := by
  induction e with
  | atom i => exact evalPoly_psingle ρ i
  | num c => exact evalPoly_pconst ρ c
  | add a b iha ihb => simp [toPoly, evalE, evalPoly_padd, iha, ihb]
  | mul a b iha ihb => simp [toPoly, evalE, evalPoly_pmul, iha, ihb]
  | neg a ih => simp [toPoly, evalE, pneg, evalPoly_pscale, ih]
  | sub a b iha ihb => simp [toPoly, evalE, psub, pneg, evalPoly_padd, evalPoly_pscale, iha, ihb]; ring
  | pow a k ih => simp [toPoly, evalE, evalPoly_ppow, ih]
  | scale c a ih => simp [toPoly, evalE, evalPoly_pscale, ih]

end

end Holpy.C10.Poly
