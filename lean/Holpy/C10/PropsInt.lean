import Holpy.C10.IntModel
import Holpy.C10.PolyModel
import Holpy.C10.ProofsInt
import Holpy.C10.ProofsPolySem
/-
C10 — property theorems about the integer Conv normaliser (`data/integer.py`: `simp_full`,
`int_norm_conv`, `int_norm_eq`).
-/
namespace Holpy.C10
open Holpy.C10.IntN Holpy.C10.Poly

/-- `simp_full` and `int_norm_conv` preserve the value in ℤ under every valuation of the atoms. -/
theorem int_norm_sound (ρ : Nat → Int) (t : IExp) :
    evalI ρ (simpFull t) = evalI ρ t ∧ evalI ρ (intNorm t) = evalI ρ t :=
  ⟨simpFull_sound ρ t, intNorm_sound ρ t⟩

/- (i + j) * (i - j)  ↦  i^2 + -1 * j^2 -/
example : intNorm (.mul (.add (.atom 0 1) (.atom 1 1)) (.sub (.atom 0 1) (.atom 1 1)))
    = .add (.pow (.atom 0 1) 2) (.mul (.num (-1)) (.pow (.atom 1 1) 2)) := by decide

/-- `int_norm_eq` moves everything to the left: the equation `lhs = 0` it returns holds exactly when
the original equation `a = b` does (every valuation). -/
theorem int_norm_eq_sound (ρ : Nat → Int) (a b : IExp) :
    evalI ρ (intNormEq a b) = 0 ↔ evalI ρ a = evalI ρ b :=
  intNormEq_sound ρ a b

/- i = j + 3  ↦  3 + -1 * i + 1 * j = 0 (leading coefficient made positive) -/
example : intNormEq (.atom 0 1) (.add (.atom 1 1) (.num 3))
    = .add (.add (.num 3) (.mul (.num (-1)) (.atom 0 1))) (.mul (.num 1) (.atom 1 1)) := by decide

/-- An integer term as a polynomial expression (atoms by rank). -/
def embI : IExp → PExp Int
  | .atom i _ => .atom i
  | .num z => .num z
  | .add a b => .add (embI a) (embI b)
  | .sub a b => .sub (embI a) (embI b)
  | .mul a b => .mul (embI a) (embI b)
  | .neg a => .neg (embI a)
  | .pow b e => .pow (embI b) e

theorem evalE_embI (ρ : Nat → Int) (t : IExp) : evalE ρ (embI t) = evalI ρ t := by
  induction t with
  | atom i s => rfl
  | num z => rfl
  | add a b iha ihb => simp [embI, evalE, evalI, iha, ihb]
  | sub a b iha ihb => simp [embI, evalE, evalI, iha, ihb]
  | mul a b iha ihb => simp [embI, evalE, evalI, iha, ihb]
  | neg a ih => simp [embI, evalE, evalI, ih]
  | pow b e ih => simp [embI, evalE, evalI, ih]

/-- The normal form has the identical `convert_to_poly` list as the term (polynomial semantics with
x^n expanded), so two terms with the same normal form have the same polynomial.
PARTIAL (`int_norm_canonical` is NOT proved): the converse -- same polynomial ⇒ same normal form --
needs the normal-form closure of `insMI`/`multAtom`/... and that a normal-form tree is determined by
its polynomial, as for the nat normaliser; note also that `simp_full` does not expand powers of
non-atomic bases ((i + j)^2 stays an atom), so the converse can only hold on the fragment whose
powers have atomic bases.  Canonicity is compared against the independent evaluator every run. -/
theorem int_norm_canonical_partial (a b : IExp) :
    toPoly (embI (intNorm a)) = toPoly (embI a) ∧
    (intNorm a = intNorm b → toPoly (embI a) = toPoly (embI b)) := by
  have inv : ∀ t, toPoly (embI (intNorm t)) = toPoly (embI t) := fun t =>
    toPoly_eq_of_eval_eq _ _ (fun ρ => by rw [evalE_embI, evalE_embI, intNorm_sound])
  exact ⟨inv a, fun h => by rw [← inv a, ← inv b, h]⟩

example : toPoly (embI (intNorm (.mul (.atom 0 1) (.atom 0 1)))) = [([(0, 2)], 1)] := by decide

end Holpy.C10
