import Holpy.C10.IntModel
import Holpy.C10.PolyModel
import Holpy.C10.ProofsInt
import Holpy.C10.ProofsPolySem
import Holpy.C10.ProofsIntOrdBody
import Holpy.C10.ProofsIntClosure
import Holpy.C10.ProofsIntIdem
import Holpy.C10.ProofsIntInjSem
import Holpy.C10.ProofsIntEqSign
/-
C10 — property theorems about the integer Conv normaliser (`data/integer.py`: `simp_full`,
`int_norm_conv`, `int_norm_eq`).
-/
namespace Holpy.C10
open Holpy.C10.IntN Holpy.C10.Poly

/-- `simp_full` and `int_norm_conv` preserve the value in ℤ under every valuation of the atoms. -/
theorem int_norm_sound (ρ : Nat → Int) (t : IExp) :
    evalI ρ (simpFull t) = evalI ρ t ∧ evalI ρ (intNorm t) = evalI ρ t :=
  ⟨simpFull_sound ρ t, intNorm_sound ρ t⟩

/- (i + j) * (i - j)  ↦  i^2 + -1 * j^2 -/
example : intNorm (.mul (.add (.atom 0 1) (.atom 1 1)) (.sub (.atom 0 1) (.atom 1 1)))
    = .add (.pow (.atom 0 1) 2) (.mul (.num (-1)) (.pow (.atom 1 1) 2)) := by decide

/-- `int_norm_eq` moves everything to the left: the equation `lhs = 0` it returns holds exactly when
the original equation `a = b` does (every valuation). -/
theorem int_norm_eq_sound (ρ : Nat → Int) (a b : IExp) :
    evalI ρ (intNormEq a b) = 0 ↔ evalI ρ a = evalI ρ b :=
  intNormEq_sound ρ a b

/- i = j + 3  ↦  3 + -1 * i + 1 * j = 0 (leading coefficient made positive) -/
example : intNormEq (.atom 0 1) (.add (.atom 1 1) (.num 3))
    = .add (.add (.num 3) (.mul (.num (-1)) (.atom 0 1))) (.mul (.num 1) (.atom 1 1)) := by decide

/-- An integer term as a polynomial expression (atoms by rank). -/
def embI : IExp → PExp Int
  | .atom i _ => .atom i
  | .num z => .num z
  | .add a b => .add (embI a) (embI b)
  | .sub a b => .sub (embI a) (embI b)
  | .mul a b => .mul (embI a) (embI b)
  | .neg a => .neg (embI a)
  | .pow b e => .pow (embI b) e

theorem evalE_embI (ρ : Nat → Int) (t : IExp) : evalE ρ (embI t) = evalI ρ t := by
  induction t with
  | atom i s => rfl
  | num z => rfl
  | add a b iha ihb => simp [embI, evalE, evalI, iha, ihb]
  | sub a b iha ihb => simp [embI, evalE, evalI, iha, ihb]
  | mul a b iha ihb => simp [embI, evalE, evalI, iha, ihb]
  | neg a ih => simp [embI, evalE, evalI, ih]
  | pow b e ih => simp [embI, evalE, evalI, ih]

/-- The normal form has the identical `convert_to_poly` list as the term (polynomial semantics with
x^n expanded), so two terms with the same normal form have the same polynomial. -/
theorem int_norm_poly_invariant (a b : IExp) :
    toPoly (embI (intNorm a)) = toPoly (embI a) ∧
    (intNorm a = intNorm b → toPoly (embI a) = toPoly (embI b)) := by
  have inv : ∀ t, toPoly (embI (intNorm t)) = toPoly (embI t) := fun t =>
    toPoly_eq_of_eval_eq _ _ (fun ρ => by rw [evalE_embI, evalE_embI, intNorm_sound])
  exact ⟨inv a, fun h => by rw [← inv a, ← inv b, h]⟩

example : toPoly (embI (intNorm (.mul (.atom 0 1) (.atom 0 1)))) = [([(0, 2)], 1)] := by decide

/- why `int_norm_canonical` needs more than `atomicPowers`: `i ^ 0` and `1` have the same value under
every valuation but distinct normal forms (`data/integer.py` agrees: `int_norm_conv` leaves `i ^ 0`) -/
example : atomicPowers (.pow (.atom 0 1) 0) = true ∧
    (∀ ρ, evalI ρ (.pow (.atom 0 1) 0) = evalI ρ (.num 1)) ∧
    intNorm (.pow (.atom 0 1) 0) ≠ intNorm (.num 1) :=
  ⟨by decide, fun ρ => by simp [evalI], by decide⟩

/-- The model's `fast_compare` on numeral exponents (size of the binary numeral term, `one` before
`zero`, then the digits least significant first) is a strict total order. -/
theorem int_numCmp_total :
    (∀ n m, (numCmp n m).swap = numCmp m n) ∧ (∀ n m, numCmp n m = .eq → n = m) ∧
    (∀ a b c, numCmp a b = .lt → numCmp b c = .lt → numCmp a c = .lt) :=
  ⟨numCmp_swap, numCmp_eq, numCmp_trans⟩

/- 4 < 6 < 5 < 7 in this order (same length, least significant digit first) -/
example : numCmp 4 6 = .lt ∧ numCmp 6 5 = .lt ∧ numCmp 5 7 = .lt ∧ numCmp 4 7 = .lt := by decide

/-- The model's `fast_compare` on integer monomial bodies (`x ^ e` with atomic base, and left-nested
products of such) is a strict total order: swapped arguments give the swapped answer, `eq` only on
identical bodies, `lt` transitive. -/
theorem int_bodyCmp_total :
    (∀ a b, (bodyCmp a b).swap = bodyCmp b a) ∧
    (∀ a b, isTreeI a = true → isTreeI b = true → bodyCmp a b = .eq → a = b) ∧
    (∀ a b c, isTreeI a = true → isTreeI b = true → isTreeI c = true →
      bodyCmp a b = .lt → bodyCmp b c = .lt → bodyCmp a c = .lt) :=
  ⟨bodyCmp_swap, bodyCmp_eq, bodyCmp_trans⟩

/- i^2 < i * j (an atom against a product of the same size: `power` < `times`) and i * j < i^4 (size) -/
example : bodyCmp (.pow (.atom 0 1) 2) (.mul (.pow (.atom 0 1) 1) (.pow (.atom 1 1) 1)) = .lt ∧
    bodyCmp (.mul (.pow (.atom 0 1) 1) (.pow (.atom 1 1) 1)) (.pow (.atom 0 1) 4) = .gt := by decide

/-- Closure of the multiplicative monomial layer: `norm_mult_atom` keeps a body (strictly increasing
atomic bases) a body, and `norm_mult_monomial` maps two monomials (`c * body`, `c ≠ 0`, or a non-zero
numeral) to a monomial. -/
theorem int_mult_monomial_closed :
    (∀ p c, isBodyI p = true → isAtomPow c = true → isBodyI (multAtom p c) = true) ∧
    (∀ x y, isMonoI x = true → isMonoI y = true → isMonoI (multMono x y) = true) :=
  ⟨fun _ _ hp hc => (multAtom_closed hp hc).1, fun _ _ hx hy => multMono_closed hx hy⟩

example : isMonoI (multMono (.mul (.num 2) (.mul (.pow (.atom 0 1) 1) (.pow (.atom 1 1) 2)))
    (.mul (.num (-3)) (.pow (.atom 0 1) 1))) = true := by decide

/-- Closure: on every term whose powers have atomic bases (`atomicPowers`, decided by the driver on
every generated input) `simp_full` returns a normal form -- `0`, or a left-nested sum of monomials
strictly increasing under `compare_monomial` (numerals first), each a non-zero numeral or
`c * body`, `c ≠ 0`, `body` a left-nested product of powers with strictly increasing atomic bases;
the layers `norm_add_monomial` / `norm_add_polynomial` / `norm_mult_polynomials` keep that shape,
also when coefficients cancel. -/
theorem int_norm_nf_closed :
    (∀ t, atomicPowers t = true → isNFI (simpFull t) = true) ∧
    (∀ p c, isNFI p = true → isMonoI c = true → isNFI (insMI p c) = true) ∧
    (∀ a b, isNFI a = true → isNFI b = true →
      isNFI (addPI a b) = true ∧ isNFI (subPI a b) = true ∧ isNFI (mulPI a b) = true) :=
  ⟨fun _ h => simpFull_nf h, fun _ _ hp hc => insMI_nf hp hc,
   fun _ _ ha hb => ⟨addPI_nf ha hb, subPI_nf ha hb, mulPI_nf ha hb⟩⟩

/- cancellation: (2*i*j + 3) + (-2)*i*j is the normal form 3; and a proper sum -/
example : insMI (.add (.num 3) (.mul (.num 2) (.mul (.pow (.atom 0 1) 1) (.pow (.atom 1 1) 1))))
    (.mul (.num (-2)) (.mul (.pow (.atom 0 1) 1) (.pow (.atom 1 1) 1))) = .num 3 := by decide
example : atomicPowers (.mul (.add (.atom 0 1) (.atom 1 1)) (.sub (.atom 0 1) (.num 2))) = true ∧
    isNFI (simpFull (.mul (.add (.atom 0 1) (.atom 1 1)) (.sub (.atom 0 1) (.num 2)))) = true ∧
    simpFull (.mul (.add (.atom 0 1) (.atom 1 1)) (.sub (.atom 0 1) (.num 2))) ≠ .num 0 := by decide

/-- Idempotence: `simp_full` rebuilds a normal form from its displayed presentation (`1 * x` shown as
`x`, `x ^ 1` as `x`), so `int_norm_conv` applied to its own result changes nothing (terms whose powers
have atomic bases). -/
theorem int_norm_idem :
    (∀ n, isNFI n = true → simpFull (stripPow1 (strip1 n)) = n) ∧
    (∀ t, atomicPowers t = true → intNorm (intNorm t) = intNorm t) :=
  ⟨fun _ h => strip_nf h, fun _ h => intNorm_idem h⟩

example : intNorm (.mul (.add (.atom 0 1) (.atom 1 1)) (.atom 0 1))
      = .add (.pow (.atom 0 1) 2) (.mul (.atom 0 1) (.atom 1 1)) ∧
    intNorm (.add (.pow (.atom 0 1) 2) (.mul (.atom 0 1) (.atom 1 1)))
      = .add (.pow (.atom 0 1) 2) (.mul (.atom 0 1) (.atom 1 1)) := by decide

/-- Canonicity of `simp_full` / `int_norm_conv`: two integer terms have the same normal form exactly
when they have the same value under every valuation of the atoms (i.e. are equal as polynomials) --
on the fragment `fragI` decided by the driver on the generated inputs: powers only of atoms, no
exponent `0` (the code keeps `i ^ 0`, see the example above), atoms determined by their rank. -/
theorem int_norm_canonical (a b : IExp) (h : fragI a b = true) :
    (simpFull a = simpFull b ↔ ∀ ρ, evalI ρ a = evalI ρ b) ∧
    (intNorm a = intNorm b ↔ ∀ ρ, evalI ρ a = evalI ρ b) := by
  simp only [fragI, Bool.and_eq_true] at h
  obtain ⟨⟨⟨pa, pb⟩, wa⟩, wb⟩ := h
  have key := fun hv => simpFull_canonical _ pa pb wa wb hv
  refine ⟨⟨fun e ρ => ?_, key⟩, ⟨fun e ρ => ?_, fun hv => ?_⟩⟩
  · rw [← simpFull_sound ρ a, ← simpFull_sound ρ b, e]
  · rw [← intNorm_sound ρ a, ← intNorm_sound ρ b, e]
  · unfold intNorm; rw [key hv]

/- (i + j)^2-style expansion: (i + j) * (i + j) and i^2 + 2*i*j + j^2 (in another order) -/
example : fragI (.mul (.add (.atom 0 1) (.atom 1 1)) (.add (.atom 0 1) (.atom 1 1)))
      (.add (.pow (.atom 1 1) 2) (.add (.mul (.num 2) (.mul (.atom 1 1) (.atom 0 1))) (.pow (.atom 0 1) 2))) = true ∧
    intNorm (.mul (.add (.atom 0 1) (.atom 1 1)) (.add (.atom 0 1) (.atom 1 1)))
      = intNorm (.add (.pow (.atom 1 1) 2) (.add (.mul (.num 2) (.mul (.atom 1 1) (.atom 0 1))) (.pow (.atom 0 1) 2))) := by
  decide

/-- Canonicity of `int_norm_eq`: equations that are equivalent by moving terms across `=` (the
differences `lhs - rhs` have the same value under every valuation) and equations that differ by an
overall sign (`b = a`, `-a = -b`: the differences are negatives of each other) get the identical
normalised equation `lhs' = 0` -- on the fragment `fragI` of the two differences, decided by the
driver. -/
theorem int_norm_eq_canonical (a b a' b' : IExp) (h : fragI (.sub a b) (.sub a' b') = true) :
    ((∀ ρ, evalI ρ a - evalI ρ b = evalI ρ a' - evalI ρ b') → intNormEq a b = intNormEq a' b') ∧
    ((∀ ρ, evalI ρ a' - evalI ρ b' = - (evalI ρ a - evalI ρ b)) → intNormEq a b = intNormEq a' b') := by
  refine ⟨fun hv => ?_, fun hv => ?_⟩
  · have := (int_norm_canonical (.sub a b) (.sub a' b') h).1.2 (fun ρ => by simpa [evalI] using hv ρ)
    unfold intNormEq
    rw [this]
  · simp only [fragI, Bool.and_eq_true] at h
    obtain ⟨⟨⟨pa, pb⟩, wa⟩, wb⟩ := h
    exact intNormEq_sign _ pa pb wa wb hv

/- i = j + 3 and j + 3 = i (overall sign) -/
example : intNormEq (.atom 0 1) (.add (.atom 1 1) (.num 3)) = intNormEq (.add (.atom 1 1) (.num 3)) (.atom 0 1) := by
  decide

/- i + 2 = j  and  i = j - 2 -/
example : intNormEq (.add (.atom 0 1) (.num 2)) (.atom 1 1) = intNormEq (.atom 0 1) (.sub (.atom 1 1) (.num 2)) := by
  decide

end Holpy.C10
