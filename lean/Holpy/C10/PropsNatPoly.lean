import Holpy.C10.Model
import Holpy.C10.PolyModel
import Holpy.C10.ProofsNatPoly
import Holpy.C10.ProofsNatClosureNorm
/-
C10 — the nat Conv normaliser `data.nat.norm_full` (what `nat_norm` uses) against the polynomial
model.  Fragment: atoms, numerals, Suc, +, * (truncated subtraction, powers, applications are atoms
of the normaliser).
-/
namespace Holpy.C10
open Holpy.C10.Poly

/-- The normal form of `norm_full` has the same value as the term under every INTEGER valuation of
the atoms (the ℕ statement is `norm_sound`). -/
theorem norm_sound_int (one : Nat) (ρ : Nat → Int) (t : NExp) : evalZ ρ (norm one t) = evalZ ρ t :=
  norm_soundZ one ρ t

example : evalZ (fun _ => -2) (norm 2 (.mul (.add (.atom 0 1) (.num 1)) (.atom 0 1))) = 2 := by decide

/-- ... hence the normal form, read as an expression, has the identical `convert_to_poly` list as the
term: normalising never changes the polynomial. -/
theorem norm_full_poly_invariant (one : Nat) (t : NExp) :
    toPoly (emb (norm one t)) = toPoly (emb t) :=
  toPoly_emb_norm one t

example : toPoly (emb (norm 2 (.mul (.add (.atom 0 1) (.atom 1 1)) (.add (.atom 0 1) (.atom 1 1)))))
    = [([(0, 2)], 1), ([(1, 2)], 1), ([(0, 1), (1, 1)], 2)] := by decide

/-- Two terms with the same `norm_full` normal form have the same polynomial (so `nat_norm` never
proves an equation between different polynomials, independently of the kernel check).
PARTIAL: the converse -- same polynomial ⇒ same normal form, i.e. canonicity of `norm_full` -- is
NOT proved.  With `norm_nf_closed` (the result always has the normal-form shape) what remains is
INJECTIVITY: two normal-form trees with the same polynomial are the same tree.  Plan: the
(body, coefficient) list of a normal-form sum is strictly sorted for the body order `fastCmp` (which
is antisymmetric and `eq` only on identical bodies: `fastCmp_swap`, `fastCmp_eq`; transitivity is still
to be shown), hence `insertAdd`-canonical, so `canon_ext` of the `collect_pairs` theory applies once
bodies are put in bijection with the monomials of `toPoly`.  Until then canonicity of `norm_full` is
checked on the implementation against the independent evaluator every run. -/
theorem norm_full_eq_poly_partial (one : Nat) (a b : NExp) (h : norm one a = norm one b) :
    toPoly (emb a) = toPoly (emb b) := by
  rw [← norm_full_poly_invariant one a, ← norm_full_poly_invariant one b, h]

example : toPoly (emb (.add (.atom 0 1) (.suc (.atom 1 1)))) = toPoly (emb (.add (.suc (.atom 1 1)) (.atom 0 1))) :=
  norm_full_eq_poly_partial 2 _ _ (by decide)

/-- Closure: whatever the input, the result of `norm_full` has the normal-form shape `isNF` (the
operations `norm_add_monomial`, `norm_add_polynomial`, `norm_mult_atom`, `norm_mult_monomial`,
`norm_mult_poly_monomial`, `norm_mult_polynomial` all preserve it). -/
theorem norm_nf_closed (one : Nat) (t : NExp) : isNF one (norm one t) = true :=
  norm_isNF one t

example : isNF 2 (norm 2 (.mul (.add (.atom 1 1) (.suc (.atom 0 1))) (.add (.atom 0 1) (.num 3)))) = true :=
  norm_nf_closed 2 _

/-- Normalising a normal form changes nothing (for every term, not only for given shapes). -/
theorem norm_idem (one : Nat) (t : NExp) : norm one (norm one t) = norm one t :=
  norm_norm one t

example : norm 2 (norm 2 (.mul (.add (.atom 1 1) (.atom 0 1)) (.add (.atom 0 1) (.num 3))))
    = norm 2 (.mul (.add (.atom 1 1) (.atom 0 1)) (.add (.atom 0 1) (.num 3))) :=
  norm_idem 2 _

end Holpy.C10
