import Holpy.C10.Model
import Holpy.C10.PolyModel
import Holpy.C10.ProofsNatPoly
/-
C10 — the nat Conv normaliser `data.nat.norm_full` (what `nat_norm` uses) against the polynomial
model.  Fragment: atoms, numerals, Suc, +, * (truncated subtraction, powers, applications are atoms
of the normaliser).
-/
namespace Holpy.C10
open Holpy.C10.Poly

/-- The normal form of `norm_full` has the same value as the term under every INTEGER valuation of
the atoms (the ℕ statement is `norm_sound`). -/
theorem norm_sound_int (one : Nat) (ρ : Nat → Int) (t : NExp) : evalZ ρ (norm one t) = evalZ ρ t :=
  norm_soundZ one ρ t

example : evalZ (fun _ => -2) (norm 2 (.mul (.add (.atom 0 1) (.num 1)) (.atom 0 1))) = 2 := by decide

/-- ... hence the normal form, read as an expression, has the identical `convert_to_poly` list as the
term: normalising never changes the polynomial. -/
theorem norm_full_poly_invariant (one : Nat) (t : NExp) :
    toPoly (emb (norm one t)) = toPoly (emb t) :=
  toPoly_emb_norm one t

example : toPoly (emb (norm 2 (.mul (.add (.atom 0 1) (.atom 1 1)) (.add (.atom 0 1) (.atom 1 1)))))
    = [([(0, 2)], 1), ([(1, 2)], 1), ([(0, 1), (1, 1)], 2)] := by decide

/-- Two terms with the same `norm_full` normal form have the same polynomial (so `nat_norm` never
proves an equation between different polynomials, independently of the kernel check).
PARTIAL: the converse -- same polynomial ⇒ same normal form, i.e. canonicity of `norm_full` -- is
NOT proved.  It needs (i) `isNF (norm t)` for every `t` (closure of `insM`/`insA`/`addP`/`mulM`/
`polyMono`/`mulP` under the normal-form shape, for which `fastCmp` has to be shown a strict total
order on monomial bodies) and (ii) that a normal-form tree is determined by its polynomial (the
bridge: the (body, coefficient) list of a normal-form sum is `insertAdd`-canonical for the body
order, so the `collect_pairs` theory of ProofsCollect applies).  Until then canonicity of
`norm_full` is checked on the implementation against the independent evaluator every run. -/
theorem norm_full_eq_poly_partial (one : Nat) (a b : NExp) (h : norm one a = norm one b) :
    toPoly (emb a) = toPoly (emb b) := by
  rw [← norm_full_poly_invariant one a, ← norm_full_poly_invariant one b, h]

example : toPoly (emb (.add (.atom 0 1) (.suc (.atom 1 1)))) = toPoly (emb (.add (.suc (.atom 1 1)) (.atom 0 1))) :=
  norm_full_eq_poly_partial 2 _ _ (by decide)

end Holpy.C10
