import Holpy.C10.Model
import Holpy.C10.PolyModel
import Holpy.C10.ProofsNatPoly
import Holpy.C10.ProofsNatClosureNorm
import Holpy.C10.ProofsNatInj
import Holpy.C10.ProofsPolyUnit
import Holpy.C10.ProofsPolySem
/-
C10 — the nat Conv normaliser `data.nat.norm_full` (what `nat_norm` uses) against the polynomial
model.  Fragment: atoms, numerals, Suc, +, * (truncated subtraction, powers, applications are atoms
of the normaliser).
-/
namespace Holpy.C10
open Holpy.C10.Poly

/-- The normal form of `norm_full` has the same value as the term under every INTEGER valuation of
the atoms (the ℕ statement is `norm_sound`). -/
theorem norm_sound_int (one : Nat) (ρ : Nat → Int) (t : NExp) : evalZ ρ (norm one t) = evalZ ρ t :=
  norm_soundZ one ρ t

example : evalZ (fun _ => -2) (norm 2 (.mul (.add (.atom 0 1) (.num 1)) (.atom 0 1))) = 2 := by decide

/-- ... hence the normal form, read as an expression, has the identical `convert_to_poly` list as the
term: normalising never changes the polynomial. -/
theorem norm_full_poly_invariant (one : Nat) (t : NExp) :
    toPoly (emb (norm one t)) = toPoly (emb t) :=
  toPoly_emb_norm one t

example : toPoly (emb (norm 2 (.mul (.add (.atom 0 1) (.atom 1 1)) (.add (.atom 0 1) (.atom 1 1)))))
    = [([(0, 2)], 1), ([(1, 2)], 1), ([(0, 1), (1, 1)], 2)] := by decide

/-- Canonicity of `norm_full` on the fragment {atoms, numerals, Suc, +, *} (truncated subtraction,
powers, applications are atoms): two terms have the IDENTICAL normal form exactly when they have the
same polynomial (`convert_to_poly` list).  Hypothesis (decidable, checked by the driver's `wfs` op on
every generated input): atoms are determined by their rank -- every atom is the table entry
`atom i (sh i)`. -/
theorem norm_full_iff_poly (one : Nat) (sh : Nat → Shape) (a b : NExp) (wa : wfS sh a = true)
    (wb : wfS sh b = true) : norm one a = norm one b ↔ toPoly (emb a) = toPoly (emb b) := by
  constructor
  · intro h
    rw [← norm_full_poly_invariant one a, ← norm_full_poly_invariant one b, h]
  · exact norm_eq_of_toPoly_eq wa wb

example : norm 2 (.mul (.add (.atom 0 1) (.atom 1 1)) (.add (.atom 0 1) (.atom 1 1)))
    = norm 2 (.add (.add (.mul (.atom 0 1) (.atom 0 1)) (.mul (.num 2) (.mul (.atom 1 1) (.atom 0 1))))
        (.mul (.atom 1 1) (.atom 1 1))) :=
  (norm_full_iff_poly 2 (fun _ => 1) _ _ (by decide) (by decide)).2 (by decide)

/-- "Expressions over naturals that are equal as polynomials receive identical normal forms":
terms related by the (semi)ring-axiom congruence get the identical `norm_full` normal form. -/
theorem norm_canonical (one : Nat) (sh : Nat → Shape) (a b : NExp) (wa : wfS sh a = true)
    (wb : wfS sh b = true) (h : RingEq (emb a) (emb b)) : norm one a = norm one b :=
  (norm_full_iff_poly one sh a b wa wb).2 (toPoly_ringEq h)

example : norm 2 (.mul (.atom 0 1) (.add (.atom 1 1) (.num 2)))
    = norm 2 (.add (.mul (.atom 0 1) (.atom 1 1)) (.mul (.atom 0 1) (.num 2))) :=
  norm_canonical 2 (fun _ => 1) _ _ (by decide) (by decide) (.distrib _ _ _)

/-- The semantic form: terms with the same value under every integer valuation of the atoms get the
identical normal form (and conversely). -/
theorem norm_canonical_semantic (one : Nat) (sh : Nat → Shape) (a b : NExp) (wa : wfS sh a = true)
    (wb : wfS sh b = true) : norm one a = norm one b ↔ ∀ ρ : Nat → Int, evalZ ρ a = evalZ ρ b := by
  rw [norm_full_iff_poly one sh a b wa wb]
  constructor
  · intro h ρ
    rw [← evalE_emb, ← evalE_emb, ← evalPoly_toPoly, ← evalPoly_toPoly, h]
  · intro h
    exact toPoly_eq_of_eval_eq _ _ (fun ρ => by rw [evalE_emb, evalE_emb]; exact h ρ)

example : norm 2 (.suc (.add (.atom 0 1) (.suc (.atom 1 1)))) = norm 2 (.add (.add (.atom 1 1) (.atom 0 1)) (.num 2)) :=
  (norm_canonical_semantic 2 (fun _ => 1) _ _ (by decide) (by decide)).2
    (fun ρ => by simp only [evalZ]; push_cast; ring)

/-- Closure: whatever the input, the result of `norm_full` has the normal-form shape `isNF` (the
operations `norm_add_monomial`, `norm_add_polynomial`, `norm_mult_atom`, `norm_mult_monomial`,
`norm_mult_poly_monomial`, `norm_mult_polynomial` all preserve it). -/
theorem norm_nf_closed (one : Nat) (t : NExp) : isNF one (norm one t) = true :=
  norm_isNF one t

example : isNF 2 (norm 2 (.mul (.add (.atom 1 1) (.suc (.atom 0 1))) (.add (.atom 0 1) (.num 3)))) = true :=
  norm_nf_closed 2 _

/-- Normalising a normal form changes nothing (for every term, not only for given shapes). -/
theorem norm_idem (one : Nat) (t : NExp) : norm one (norm one t) = norm one t :=
  norm_norm one t

example : norm 2 (norm 2 (.mul (.add (.atom 1 1) (.atom 0 1)) (.add (.atom 0 1) (.num 3))))
    = norm 2 (.mul (.add (.atom 1 1) (.atom 0 1)) (.add (.atom 0 1) (.num 3))) :=
  norm_idem 2 _

end Holpy.C10
