import Holpy.C10.ProofsCollect
import Holpy.C10.ProofsPolyOrd
/-
C10 — the polynomial operations of `util/poly.py` satisfy the commutative-ring laws as EQUALITIES
OF THE CANONICAL LISTS (associativity, commutativity, distributivity; unconditional).
-/
set_option linter.unusedSectionVars false
namespace Holpy.C10.Poly
open Holpy.C10

section generic
variable {κ V : Type} [CommSemiring V] [DecidableEq V]

theorem wsum_congr_mem {g g' : κ → V} (l : List (κ × V)) (h : ∀ t ∈ l, g t.1 = g' t.1) :
    wsum g l = wsum g' l := by
  induction l with
  | nil => rfl
  | cons p l ih =>
    simp only [wsum]
    rw [h p (by simp), ih (fun t ht => h t (by simp [ht]))]

theorem wsum_congr {g g' : κ → V} (l : List (κ × V)) (h : ∀ k, g k = g' k) : wsum g l = wsum g' l :=
  wsum_congr_mem l (fun t _ => h t.1)

theorem wsum_add_fun (g h : κ → V) (l : List (κ × V)) :
    wsum (fun k => g k + h k) l = wsum g l + wsum h l := by
  induction l with
  | nil => simp [wsum]
  | cons p l ih => simp only [wsum, ih]; ring

theorem wsum_mul_left (c : V) (g : κ → V) (l : List (κ × V)) :
    wsum (fun k => c * g k) l = c * wsum g l := by
  induction l with
  | nil => simp [wsum]
  | cons p l ih => simp only [wsum, ih]; ring

theorem wsum_zero_fun (l : List (κ × V)) : wsum (fun _ => (0 : V)) l = 0 := by
  induction l with
  | nil => rfl
  | cons p l ih => simp [wsum, ih]

/-- Exchange of two finite weighted sums. -/
theorem wsum_swap {κ' : Type} (f : κ → κ' → V) (l : List (κ × V)) (r : List (κ' × V)) :
    wsum (fun a => wsum (fun b => f a b) r) l = wsum (fun b => wsum (fun a => f a b) l) r := by
  induction l with
  | nil => simp [wsum, wsum_zero_fun]
  | cons p l ih =>
    simp only [wsum, ih]
    rw [wsum_add_fun, wsum_mul_left]

theorem sameSum_append {l l' r r' : List (κ × V)} (h1 : SameSum l l') (h2 : SameSum r r') :
    SameSum (l ++ r) (l' ++ r') := fun g => by rw [wsum_append, wsum_append, h1 g, h2 g]

theorem sameSum_append_comm (l r : List (κ × V)) : SameSum (l ++ r) (r ++ l) :=
  fun g => by rw [wsum_append, wsum_append]; ring

end generic

/-! ### monomials -/

theorem monoMul_comm (m1 m2 : Mono) : monoMul m1 m2 = monoMul m2 m1 :=
  collect_congr natCmp_total' (sameSum_append_comm m1 m2)

theorem monoMul_assoc (m1 m2 m3 : Mono) : monoMul (monoMul m1 m2) m3 = monoMul m1 (monoMul m2 m3) := by
  unfold monoMul
  apply collect_congr natCmp_total'
  intro g
  rw [wsum_append, wsum_append, wsum_collect natCmp_total', wsum_collect natCmp_total', wsum_append, wsum_append]
  ring

/-! ### polynomials -/

section poly
variable {α : Type} [CommRing α] [DecidableEq α]

theorem mkPoly_congr {l l' : PolyL α} (h : SameSum l l') : mkPoly l = mkPoly l' :=
  collect_congr monoCmp_total h

theorem sameSum_mkPoly (l : PolyL α) : SameSum (mkPoly l) l := sameSum_collect monoCmp_total l

theorem wsum_map_prod (g : Mono → α) (m1 : Mono) (c1 : α) (r : PolyL α) :
    wsum g (r.map (fun t2 => (monoMul m1 t2.1, c1 * t2.2))) = c1 * wsum (fun m2 => g (monoMul m1 m2)) r := by
  induction r with
  | nil => simp [wsum]
  | cons u r ih => simp only [List.map_cons, wsum, ih]; ring

/-- The weighted sum of all pairwise products is the iterated weighted sum. -/
theorem wsum_prodTerms (g : Mono → α) (l r : PolyL α) :
    wsum g (prodTerms l r) = wsum (fun m1 => wsum (fun m2 => g (monoMul m1 m2)) r) l := by
  unfold prodTerms
  induction l with
  | nil => simp [wsum]
  | cons t l ih => simp only [List.flatMap_cons, wsum_append, ih, wsum, wsum_map_prod]

theorem sameSum_prod_left {l l' : PolyL α} (r : PolyL α) (h : SameSum l l') :
    SameSum (prodTerms l r) (prodTerms l' r) := fun g => by
  rw [wsum_prodTerms, wsum_prodTerms]; exact h _

theorem sameSum_prod_right (l : PolyL α) {r r' : PolyL α} (h : SameSum r r') :
    SameSum (prodTerms l r) (prodTerms l r') := fun g => by
  rw [wsum_prodTerms, wsum_prodTerms]
  exact wsum_congr l (fun m1 => h _)

theorem padd_comm (p q : PolyL α) : padd p q = padd q p :=
  mkPoly_congr (sameSum_append_comm p q)

theorem padd_assoc (p q r : PolyL α) : padd (padd p q) r = padd p (padd q r) := by
  unfold padd
  apply mkPoly_congr
  intro g
  rw [wsum_append, wsum_append, sameSum_mkPoly, sameSum_mkPoly, wsum_append, wsum_append]
  ring

theorem pmul_comm (p q : PolyL α) : pmul p q = pmul q p := by
  unfold pmul
  apply mkPoly_congr
  intro g
  rw [wsum_prodTerms, wsum_prodTerms, wsum_swap]
  exact wsum_congr q (fun m2 => wsum_congr p (fun m1 => by rw [monoMul_comm]))

theorem pmul_assoc (p q r : PolyL α) : pmul (pmul p q) r = pmul p (pmul q r) := by
  unfold pmul
  rw [mkPoly_congr (sameSum_prod_left r (sameSum_mkPoly (prodTerms p q))),
      mkPoly_congr (sameSum_prod_right p (sameSum_mkPoly (prodTerms q r)))]
  apply mkPoly_congr
  intro g
  rw [wsum_prodTerms, wsum_prodTerms, wsum_prodTerms]
  apply wsum_congr
  intro m1
  rw [wsum_prodTerms]
  apply wsum_congr
  intro m2
  apply wsum_congr
  intro m3
  rw [monoMul_assoc]

theorem pmul_padd (p q r : PolyL α) : pmul p (padd q r) = padd (pmul p q) (pmul p r) := by
  unfold pmul padd
  rw [mkPoly_congr (sameSum_prod_right p (sameSum_mkPoly (q ++ r)))]
  apply mkPoly_congr
  intro g
  rw [wsum_append, sameSum_mkPoly, sameSum_mkPoly, wsum_prodTerms, wsum_prodTerms, wsum_prodTerms,
    ← wsum_add_fun]
  exact wsum_congr p (fun m1 => wsum_append _ q r)

end poly

end Holpy.C10.Poly
