import Holpy.C10.Model
import Mathlib.Tactic.Ring
/-
C10 — the nat normaliser preserves the value (helper lemmas for `norm_sound`).
-/
namespace Holpy.C10
open NExp

theorem coeffForm_sound (ρ : Nat → Nat) (t : NExp) :
    eval ρ (coeffForm t).1 * (coeffForm t).2 = eval ρ t := by
  unfold coeffForm
  split <;> simp [eval]

theorem fromCoeff_sound (ρ : Nat → Nat) (x : NExp) (c : Nat) :
    eval ρ (fromCoeff x c) = eval ρ x * c := by
  unfold fromCoeff
  split
  · next h => simp [h]
  · split
    · next h => simp [h, eval]
    · simp [eval]

theorem combineMonomial_sound (ρ : Nat → Nat) (m1 m2 : NExp) :
    eval ρ (combineMonomial m1 m2) = eval ρ m1 + eval ρ m2 := by
  unfold combineMonomial
  have h1 := coeffForm_sound ρ m1
  have h2 := coeffForm_sound ρ m2
  generalize coeffForm m1 = p1 at *
  generalize coeffForm m2 = p2 at *
  obtain ⟨b1, c1⟩ := p1
  obtain ⟨b2, c2⟩ := p2
  simp only at h1 h2 ⊢
  split
  · next h => subst h; rw [fromCoeff_sound, ← h1, ← h2]; ring
  · simp [eval]

theorem insM_sound (one : Nat) (ρ : Nat → Nat) (p m : NExp) :
    eval ρ (insM one p m) = eval ρ p + eval ρ m := by
  fun_induction insM one p m <;> simp_all [eval, combineMonomial_sound] <;> ring

theorem addP_sound (one : Nat) (ρ : Nat → Nat) (p q : NExp) :
    eval ρ (addP one p q) = eval ρ p + eval ρ q := by
  fun_induction addP one p q <;> simp_all [eval, insM_sound] <;> ring

theorem insA_sound (one : Nat) (ρ : Nat → Nat) (p a : NExp) :
    eval ρ (insA one p a) = eval ρ p * eval ρ a := by
  fun_induction insA one p a <;> simp_all [eval] <;> ring

theorem mulM_sound (one : Nat) (ρ : Nat → Nat) (p q : NExp) :
    eval ρ (mulM one p q) = eval ρ p * eval ρ q := by
  fun_induction mulM one p q <;> simp_all [eval, insA_sound] <;> ring

theorem polyMono_sound (one : Nat) (ρ : Nat → Nat) (p m : NExp) :
    eval ρ (polyMono one p m) = eval ρ p * eval ρ m := by
  fun_induction polyMono one p m <;> simp_all [eval, addP_sound, mulM_sound] <;> ring

theorem mulP_sound (one : Nat) (ρ : Nat → Nat) (p q : NExp) :
    eval ρ (mulP one p q) = eval ρ p * eval ρ q := by
  fun_induction mulP one p q <;> simp_all [eval, addP_sound, polyMono_sound] <;> ring

theorem norm_sound' (one : Nat) (ρ : Nat → Nat) (t : NExp) : eval ρ (norm one t) = eval ρ t := by
  induction t with
  | atom i s => rfl
  | num n => rfl
  | add a b iha ihb => simp [norm, eval, addP_sound, iha, ihb]
  | mul a b iha ihb => simp [norm, eval, mulP_sound, iha, ihb]
  | suc a ih => simp [norm, eval, addP_sound, ih]

end Holpy.C10
