import Holpy.C10.IntModel
/-
C10 — first step towards canonicity of the integer normaliser: the model's `fast_compare` on numeral
exponents (digit comparison) and bases gives the swapped answer when its arguments are swapped, and the
digit comparison does not depend on its fuel.  (`numCmp` / `bodyCmp` are still to be done.)
-/
namespace Holpy.C10.IntN
open IExp

theorem ordThen_swap (a b : Ordering) : (ordThen a b).swap = ordThen a.swap b.swap := by
  cases a <;> cases b <;> rfl

theorem natCompare_swap (a b : Nat) : (compare a b).swap = compare b a := by
  rcases Nat.lt_trichotomy a b with h | h | h
  · rw [Nat.compare_eq_lt.2 h, Nat.compare_eq_gt.2 h]; rfl
  · subst h; simp
  · rw [Nat.compare_eq_gt.2 h, Nat.compare_eq_lt.2 h]; rfl

theorem binCmp_swap : ∀ (fuel n m : Nat), (binCmp fuel n m).swap = binCmp fuel m n := by
  intro fuel
  induction fuel with
  | zero => intro n m; rfl
  | succ f ih =>
    intro n m
    simp only [binCmp]
    by_cases h1 : n < 2
    · simp [h1, natCompare_swap]
    · by_cases h2 : m < 2
      · simp [h1, h2, natCompare_swap]
      · simp only [h1, h2, decide_false, Bool.or_false, Bool.false_eq_true, if_false]
        rw [← natCompare_swap (n % 2) (m % 2)]
        cases compare (n % 2) (m % 2)
        · rfl
        · simp only [Ordering.swap]; exact ih _ _
        · rfl

/-- enough fuel: the answer does not depend on it -/
theorem binCmp_fuel : ∀ (f f' n m : Nat), n < f → n < f' → binCmp f n m = binCmp f' n m := by
  intro f
  induction f with
  | zero => intro f' n m h; omega
  | succ f ih =>
    intro f' n m h h'
    cases f' with
    | zero => omega
    | succ f'' =>
      simp only [binCmp]
      by_cases h1 : n < 2
      · simp [h1]
      · by_cases h2 : m < 2
        · simp [h1, h2]
        · simp only [h1, h2, decide_false, Bool.or_false, Bool.false_eq_true, if_false]
          rw [ih f'' (n / 2) (m / 2) (by omega) (by omega)]

theorem baseCmp_swap (a b : IExp) : (baseCmp a b).swap = baseCmp b a := by
  cases a <;> cases b <;> simp only [baseCmp, ordThen_swap, natCompare_swap]

end Holpy.C10.IntN
