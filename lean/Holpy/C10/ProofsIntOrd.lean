import Holpy.C10.IntModel
/-
C10 — first step towards canonicity of the integer normaliser: the model's `fast_compare` on numeral
exponents (digit comparison) and bases gives the swapped answer when its arguments are swapped, and the
digit comparison does not depend on its fuel.  (`numCmp` / `bodyCmp` are still to be done.)
-/
namespace Holpy.C10.IntN
open IExp

theorem ordThen_swap (a b : Ordering) : (ordThen a b).swap = ordThen a.swap b.swap := by
  cases a <;> cases b <;> rfl

theorem natCompare_swap (a b : Nat) : (compare a b).swap = compare b a := by
  rcases Nat.lt_trichotomy a b with h | h | h
  · rw [Nat.compare_eq_lt.2 h, Nat.compare_eq_gt.2 h]; rfl
  · subst h; simp
  · rw [Nat.compare_eq_gt.2 h, Nat.compare_eq_lt.2 h]; rfl

theorem binCmp_swap : ∀ (fuel n m : Nat), (binCmp fuel n m).swap = binCmp fuel m n := by
  intro fuel
  induction fuel with
  | zero => intro n m; rfl
  | succ f ih =>
    intro n m
    simp only [binCmp]
    by_cases h1 : n < 2
    · simp [h1, natCompare_swap]
    · by_cases h2 : m < 2
      · simp [h1, h2, natCompare_swap]
      · simp only [h1, h2, decide_false, Bool.or_false, Bool.false_eq_true, if_false]
        rw [← natCompare_swap (n % 2) (m % 2)]
        cases compare (n % 2) (m % 2)
        · rfl
        · simp only [Ordering.swap]; exact ih _ _
        · rfl

/-- enough fuel: the answer does not depend on it -/
theorem binCmp_fuel : ∀ (f f' n m : Nat), n < f → n < f' → binCmp f n m = binCmp f' n m := by
  intro f
  induction f with
  | zero => intro f' n m h; omega
  | succ f ih =>
    intro f' n m h h'
    cases f' with
    | zero => omega
    | succ f'' =>
      simp only [binCmp]
      by_cases h1 : n < 2
      · simp [h1]
      · by_cases h2 : m < 2
        · simp [h1, h2]
        · simp only [h1, h2, decide_false, Bool.or_false, Bool.false_eq_true, if_false]
          rw [ih f'' (n / 2) (m / 2) (by omega) (by omega)]

theorem baseCmp_swap (a b : IExp) : (baseCmp a b).swap = baseCmp b a := by
  cases a <;> cases b <;> simp only [baseCmp, ordThen_swap, natCompare_swap]

theorem numCmp_swap (n m : Nat) : (numCmp n m).swap = numCmp m n := by
  unfold numCmp
  by_cases hs : numSize n = numSize m
  · rw [if_neg (show ¬ (numSize n ≠ numSize m) from fun h => h hs),
      if_neg (show ¬ (numSize m ≠ numSize n) from fun h => h hs.symm)]
    by_cases h1 : n < 2 <;> by_cases h2 : m < 2
    · rw [if_pos (show (decide (n < 2) && decide (m < 2)) = true by simp [h1, h2]),
        if_pos (show (decide (m < 2) && decide (n < 2)) = true by simp [h1, h2]), natCompare_swap]
    · rw [if_neg (show ¬ (decide (n < 2) && decide (m < 2)) = true by simp [h2]),
        if_neg (show ¬ (decide (m < 2) && decide (n < 2)) = true by simp [h2]),
        binCmp_fuel (n + 1) (n + m + 2) n m (by omega) (by omega),
        binCmp_fuel (m + 1) (n + m + 2) m n (by omega) (by omega), binCmp_swap]
    · rw [if_neg (show ¬ (decide (n < 2) && decide (m < 2)) = true by simp [h1]),
        if_neg (show ¬ (decide (m < 2) && decide (n < 2)) = true by simp [h1]),
        binCmp_fuel (n + 1) (n + m + 2) n m (by omega) (by omega),
        binCmp_fuel (m + 1) (n + m + 2) m n (by omega) (by omega), binCmp_swap]
    · rw [if_neg (show ¬ (decide (n < 2) && decide (m < 2)) = true by simp [h1]),
        if_neg (show ¬ (decide (m < 2) && decide (n < 2)) = true by simp [h1]),
        binCmp_fuel (n + 1) (n + m + 2) n m (by omega) (by omega),
        binCmp_fuel (m + 1) (n + m + 2) m n (by omega) (by omega), binCmp_swap]
  · rw [if_pos (show numSize n ≠ numSize m from hs),
      if_pos (show numSize m ≠ numSize n from fun e => hs e.symm), natCompare_swap]

theorem leafI_swap (a b : IExp) : (leafI a b).swap = leafI b a := by
  cases a <;> cases b <;> simp only [leafI, ordThen_swap, baseCmp_swap, numCmp_swap] <;> rfl

/-- Comparing two monomial bodies the other way round gives the swapped answer. -/
theorem bodyCmp_swap : ∀ a b : IExp, (bodyCmp a b).swap = bodyCmp b a := by
  intro a
  induction a with
  | mul x y ihx ihy =>
    intro b
    cases b with
    | mul x' y' => simp only [bodyCmp, ordThen_swap, natCompare_swap, ihx, ihy]
    | _ => simp only [bodyCmp, ordThen_swap, natCompare_swap, leafI_swap]
  | _ => intro b; cases b <;> simp only [bodyCmp, ordThen_swap, natCompare_swap, leafI_swap]

theorem ordThen_eq_eq {a b : Ordering} : ordThen a b = .eq ↔ a = .eq ∧ b = .eq := by
  cases a <;> cases b <;> simp [ordThen]

theorem binCmp_eq : ∀ (f n m : Nat), n < f → binCmp f n m = .eq → n = m := by
  intro f
  induction f with
  | zero => intro n m h; omega
  | succ f ih =>
    intro n m h he
    simp only [binCmp] at he
    by_cases h1 : n < 2
    · simp only [h1, decide_true, Bool.true_or, if_true, Nat.compare_eq_eq] at he; exact he
    · by_cases h2 : m < 2
      · simp only [h2, decide_true, Bool.or_true, if_true, Nat.compare_eq_eq] at he; exact he
      · simp only [h1, h2, decide_false, Bool.or_false, Bool.false_eq_true, if_false] at he
        cases hc : compare (n % 2) (m % 2) with
        | lt => rw [hc] at he; cases he
        | gt => rw [hc] at he; cases he
        | eq =>
          rw [hc] at he
          have hd := Nat.compare_eq_eq.1 hc
          have := ih (n / 2) (m / 2) (by omega) he
          omega

theorem numCmp_eq (n m : Nat) (h : numCmp n m = .eq) : n = m := by
  unfold numCmp at h
  by_cases hs : numSize n = numSize m
  · rw [if_neg (show ¬ (numSize n ≠ numSize m) from fun h => h hs)] at h
    by_cases hb : (decide (n < 2) && decide (m < 2)) = true
    · rw [if_pos hb, Nat.compare_eq_eq] at h; exact h.symm
    · rw [if_neg hb] at h; exact binCmp_eq (n + 1) n m (by omega) h
  · rw [if_pos (show numSize n ≠ numSize m from hs), Nat.compare_eq_eq] at h; exact absurd h hs

/-- integer monomial bodies: `x ^ e` with an atomic base, and products of bodies -/
def isTreeI : IExp → Bool
  | .pow (.atom _ _) _ => true
  | .mul a b => isTreeI a && isTreeI b
  | _ => false

theorem baseCmp_atom_eq (i s j s' : Nat) (h : baseCmp (.atom i s) (.atom j s') = .eq) :
    IExp.atom i s = IExp.atom j s' := by
  simp only [baseCmp, ordThen_eq_eq, Nat.compare_eq_eq] at h
  rw [h.1, h.2]

/-- `fast_compare` answers `eq` only on identical bodies. -/
theorem bodyCmp_eq : ∀ a b : IExp, isTreeI a = true → isTreeI b = true → bodyCmp a b = .eq → a = b := by
  intro a
  induction a with
  | mul x y ihx ihy =>
    intro b ha hb h
    simp only [isTreeI, Bool.and_eq_true] at ha
    cases b with
    | mul x' y' =>
      simp only [isTreeI, Bool.and_eq_true] at hb
      simp only [bodyCmp, ordThen_eq_eq] at h
      rw [ihx x' ha.1 hb.1 h.2.2.1, ihy y' ha.2 hb.2 h.2.2.2]
    | pow c e =>
      simp only [bodyCmp, ordThen_eq_eq, clsI, Nat.compare_eq_eq] at h
      omega
    | _ => simp [isTreeI] at hb
  | pow c e _ =>
    intro d ha hd h
    cases d with
    | mul x y =>
      simp only [bodyCmp, ordThen_eq_eq, clsI, Nat.compare_eq_eq] at h
      omega
    | pow c' e' =>
      simp only [bodyCmp, ordThen_eq_eq, leafI] at h
      cases c with
      | atom i s =>
        cases c' with
        | atom j s' => rw [baseCmp_atom_eq i s j s' h.2.2.2.1, numCmp_eq e e' h.2.2.2.2]
        | _ => simp [isTreeI] at hd
      | _ => simp [isTreeI] at ha
    | _ => simp [isTreeI] at hd
  | atom i s => intro b ha; simp [isTreeI] at ha
  | num z => intro b ha; simp [isTreeI] at ha
  | add u v _ _ => intro b ha; simp [isTreeI] at ha
  | sub u v _ _ => intro b ha; simp [isTreeI] at ha
  | neg u _ => intro b ha; simp [isTreeI] at ha

theorem bodyCmp_gt_iff (a b : IExp) : bodyCmp a b = .gt ↔ bodyCmp b a = .lt := by
  rw [← bodyCmp_swap a b]; cases bodyCmp a b <;> simp [Ordering.swap]

theorem bodyCmp_lt_iff (a b : IExp) : bodyCmp a b = .lt ↔ bodyCmp b a = .gt := by
  rw [← bodyCmp_swap a b]; cases bodyCmp a b <;> simp [Ordering.swap]

end Holpy.C10.IntN
