import Holpy.C10.ProofsNatClosure
/-
C10 — the monomial shape is closed under `norm_mult_atom` / `norm_mult_monomial`.
A monomial is read as a sequence of factors: atoms in non-decreasing order, then at most one
numeral >= 2.
-/
namespace Holpy.C10
open NExp

def isFac : NExp → Bool
  | .atom _ _ => true
  | .num n => decide (2 ≤ n)
  | _ => false

/-- `z` may come right after `x` in a monomial. -/
def follows (one : Nat) (x z : NExp) : Bool := (compareAtom one x z != .gt) && !(x.isNum && z.isNum)

def isSeq (one : Nat) : NExp → Bool
  | .mul p a => isSeq one p && isFac a && follows one (lastFactor p) a
  | t => isFac t

theorem compareAtom_gt_lt (one : Nat) (a b : NExp) (h : compareAtom one a b = .gt) :
    compareAtom one b a = .lt := by
  unfold compareAtom at h ⊢
  cases ha : a.isNum <;> cases hb : b.isNum <;> simp_all
  exact (fastCmp_gt_iff one a b).1 h

theorem follows_of_gt (one : Nat) (a1 a : NExp) (h : compareAtom one a1 a = .gt) : follows one a a1 = true := by
  have h2 := compareAtom_gt_lt one a1 a h
  have : ¬ (a.isNum = true ∧ a1.isNum = true) := by
    intro ⟨x, y⟩; simp [compareAtom, x, y] at h
  simp only [follows, h2, Bool.and_eq_true, bne_iff_ne, ne_eq, Bool.not_eq_true']
  refine ⟨by simp, ?_⟩
  cases hx : a.isNum <;> cases hy : a1.isNum <;> simp_all

theorem follows_num_left (one n : Nat) (z : NExp) : follows one (.num n) z = false := by
  cases hz : z.isNum <;> simp [follows, compareAtom, NExp.isNum, hz]

theorem follows_num_right (one : Nat) (x : NExp) (k k' : Nat) :
    follows one x (.num k) = follows one x (.num k') := by
  cases x <;> simp [follows, compareAtom, NExp.isNum]

theorem isFac_ne (a : NExp) (h : isFac a = true) : a ≠ .num 0 ∧ a ≠ .num 1 := by
  cases a <;> simp_all [isFac] <;> omega

theorem isFac_lastFactor {a : NExp} (h : isFac a = true) : lastFactor a = a := by
  cases a <;> simp_all [isFac, lastFactor]

theorem isFac_isSeq {one : Nat} {a : NExp} (h : isFac a = true) : isSeq one a = true := by
  cases a <;> simp_all [isFac, isSeq]

theorem insA_nonmul (one : Nat) {p : NExp} (hna : ∀ x y, p ≠ .mul x y) (a : NExp)
    (hp0 : p ≠ .num 0) (hp1 : p ≠ .num 1) (ha0 : a ≠ .num 0) (ha1 : a ≠ .num 1) :
    (compareAtom one p a = .gt → insA one p a = .mul a p) ∧
    (compareAtom one p a = .lt → insA one p a = .mul p a) ∧
    (compareAtom one p a = .eq →
      (∀ n1 n, p = .num n1 → a = .num n → insA one p a = .num (n1 * n)) ∧
      ((∀ n1 n, ¬ (p = .num n1 ∧ a = .num n)) → insA one p a = .mul p a)) := by
  cases p with
  | mul x y => exact absurd rfl (hna x y)
  | atom i s =>
    refine ⟨?_, ?_, ?_⟩
    · intro h; simp [insA, ha0, ha1, h]
    · intro h; simp [insA, ha0, ha1, h]
    · intro h; exact ⟨fun n1 n e => (by cases e), fun _ => (by simp [insA, ha0, ha1, h])⟩
  | num k =>
    have e0 : k ≠ 0 := by intro e; subst e; exact hp0 rfl
    have e1 : k ≠ 1 := by intro e; subst e; exact hp1 rfl
    refine ⟨?_, ?_, ?_⟩
    · intro h; simp [insA, ha0, ha1, h, e0, e1]
    · intro h; simp [insA, ha0, ha1, h, e0, e1]
    · intro h
      refine ⟨fun n1 n e e' => ?_, fun hn => ?_⟩
      · cases e; subst e'; simp [insA, ha0, ha1, h, e0, e1]
      · cases a with
        | num m => exact absurd ⟨rfl, rfl⟩ (hn k m)
        | _ => simp [insA, ha0, ha1, h, e0, e1]
  | add x y =>
    refine ⟨?_, ?_, ?_⟩
    · intro h; simp [insA, ha0, ha1, h]
    · intro h; simp [insA, ha0, ha1, h]
    · intro h; exact ⟨fun n1 n e => (by cases e), fun _ => (by simp [insA, ha0, ha1, h])⟩
  | suc x =>
    refine ⟨?_, ?_, ?_⟩
    · intro h; simp [insA, ha0, ha1, h]
    · intro h; simp [insA, ha0, ha1, h]
    · intro h; exact ⟨fun n1 n e => (by cases e), fun _ => (by simp [insA, ha0, ha1, h])⟩

theorem insA_leaf {one : Nat} {p a : NExp} (hna : ∀ x y, p ≠ .mul x y) (hp : isSeq one p = true)
    (ha : isFac a = true) :
    isSeq one (insA one p a) = true ∧
    (∀ z, follows one (lastFactor p) z = true → follows one a z = true →
      follows one (lastFactor (insA one p a)) z = true) := by
  have hpf : isFac p = true := by
    cases p with
    | mul x y => exact absurd rfl (hna x y)
    | _ => simpa [isSeq] using hp
  obtain ⟨hp0, hp1⟩ := isFac_ne p hpf
  obtain ⟨ha0, ha1⟩ := isFac_ne a ha
  obtain ⟨hgt, hlt, heq⟩ := insA_nonmul one hna a hp0 hp1 ha0 ha1
  have hlp : lastFactor p = p := isFac_lastFactor hpf
  have hla : lastFactor a = a := isFac_lastFactor ha
  cases hc : compareAtom one p a with
  | gt =>
    rw [hgt hc]
    refine ⟨?_, fun z hz _ => by simpa [lastFactor, hlp] using hz⟩
    simp only [isSeq, Bool.and_eq_true]
    exact ⟨⟨isFac_isSeq ha, hpf⟩, by rw [hla]; exact follows_of_gt one p a hc⟩
  | lt =>
    rw [hlt hc]
    refine ⟨?_, fun z _ hz => by simpa [lastFactor] using hz⟩
    simp only [isSeq, Bool.and_eq_true]
    refine ⟨⟨by first | exact isFac_isSeq hpf | exact hpf, ha⟩, ?_⟩
    have : ¬ (p.isNum = true ∧ a.isNum = true) := by
      intro ⟨x, y⟩; simp [compareAtom, x, y] at hc
    rw [hlp]
    simp only [follows, hc, Bool.and_eq_true, bne_iff_ne, ne_eq, Bool.not_eq_true']
    refine ⟨by simp, ?_⟩
    cases hx : p.isNum <;> cases hy : a.isNum <;> simp_all
  | eq =>
    obtain ⟨hnum, hgen⟩ := heq hc
    by_cases hb : ∃ n1 n, p = .num n1 ∧ a = .num n
    · obtain ⟨n1, n, rfl, rfl⟩ := hb
      rw [hnum n1 n rfl rfl]
      simp only [isFac, decide_eq_true_eq] at hpf ha
      refine ⟨?_, fun z _ hz => by rw [follows_num_left] at hz; cases hz⟩
      simp only [isSeq, isFac, decide_eq_true_eq]
      exact Nat.le_trans (by omega : 2 ≤ 2 * 2) (Nat.mul_le_mul hpf ha)
    · have hb' : ∀ n1 n, ¬ (p = .num n1 ∧ a = .num n) := fun n1 n h => hb ⟨n1, n, h⟩
      rw [hgen hb']
      refine ⟨?_, fun z _ hz => by simpa [lastFactor] using hz⟩
      simp only [isSeq, Bool.and_eq_true]
      refine ⟨⟨by first | exact isFac_isSeq hpf | exact hpf, ha⟩, ?_⟩
      have : ¬ (p.isNum = true ∧ a.isNum = true) := by
        intro ⟨x, y⟩
        cases p <;> cases a <;> simp_all [NExp.isNum]
      rw [hlp]
      simp only [follows, hc, Bool.and_eq_true, bne_iff_ne, ne_eq, Bool.not_eq_true']
      refine ⟨by simp, ?_⟩
      cases hx : p.isNum <;> cases hy : a.isNum <;> simp_all

/-- `norm_mult_atom` keeps the factor-sequence shape; what may follow the old last factor and the
inserted one may follow the new last factor. -/
theorem insA_closed {one : Nat} : ∀ {p a : NExp}, isSeq one p = true → isFac a = true →
    isSeq one (insA one p a) = true ∧
    (∀ z, follows one (lastFactor p) z = true → follows one a z = true →
      follows one (lastFactor (insA one p a)) z = true) := by
  intro p
  induction p with
  | mul p1 a1 ih _ =>
    intro a hp ha
    simp only [isSeq, Bool.and_eq_true] at hp
    obtain ⟨⟨hp1, ha1⟩, hf⟩ := hp
    obtain ⟨h0, h1⟩ := isFac_ne a ha
    simp only [insA, h0, h1, if_false]
    cases hc : compareAtom one a1 a with
    | gt =>
      simp only
      obtain ⟨ih1, ih2⟩ := ih hp1 ha
      refine ⟨?_, fun z hz _ => by simpa [lastFactor] using hz⟩
      simp only [isSeq, Bool.and_eq_true]
      exact ⟨⟨ih1, ha1⟩, ih2 a1 hf (follows_of_gt one a1 a hc)⟩
    | lt =>
      simp only
      refine ⟨?_, fun z _ hz => by simpa [lastFactor] using hz⟩
      simp only [isSeq, Bool.and_eq_true]
      refine ⟨⟨⟨⟨hp1, ha1⟩, hf⟩, ha⟩, ?_⟩
      have : ¬ (a1.isNum = true ∧ a.isNum = true) := by
        intro ⟨x, y⟩; simp [compareAtom, x, y] at hc
      simp only [follows, lastFactor, hc, Bool.and_eq_true, bne_iff_ne, ne_eq, Bool.not_eq_true']
      refine ⟨by simp, ?_⟩
      cases hx : a1.isNum <;> cases hy : a.isNum <;> simp_all
    | eq =>
      simp only
      by_cases hb : ∃ n1 n, a1 = .num n1 ∧ a = .num n
      · obtain ⟨n1, n, rfl, rfl⟩ := hb
        simp only [isFac, decide_eq_true_eq] at ha1 ha
        refine ⟨?_, fun z _ hz => by rw [follows_num_left] at hz; cases hz⟩
        simp only [isSeq, Bool.and_eq_true, isFac, decide_eq_true_eq]
        refine ⟨⟨hp1, Nat.le_trans (by omega : 2 ≤ 2 * 2) (Nat.mul_le_mul ha1 ha)⟩, ?_⟩
        rw [follows_num_right one _ _ n1]; exact hf
      · split
        · exact absurd ⟨_, _, rfl, rfl⟩ hb
        · refine ⟨?_, fun z _ hz => by simpa [lastFactor] using hz⟩
          simp only [isSeq, Bool.and_eq_true]
          refine ⟨⟨⟨⟨hp1, ha1⟩, hf⟩, ha⟩, ?_⟩
          have : ¬ (a1.isNum = true ∧ a.isNum = true) := by
            intro ⟨x, y⟩
            cases a1 <;> cases a <;> simp_all [NExp.isNum]
          simp only [follows, lastFactor, hc, Bool.and_eq_true, bne_iff_ne, ne_eq, Bool.not_eq_true']
          refine ⟨by simp, ?_⟩
          cases hx : a1.isNum <;> cases hy : a.isNum <;> simp_all
  | atom i s => intro a hp ha; exact insA_leaf (by intro x y h; cases h) hp ha
  | num n => intro a hp ha; exact insA_leaf (by intro x y h; cases h) hp ha
  | add u v _ _ => intro a hp _; simp [isSeq, isFac] at hp
  | suc u _ => intro a hp _; simp [isSeq, isFac] at hp

end Holpy.C10
