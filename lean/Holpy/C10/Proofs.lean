import Holpy.C10.Model
/-
C10 — helper lemmas for the property theorems in Props.lean.
-/
namespace Holpy.C10

/-! ## (c) combinators: the left side of the returned equation is the input -/

/-- A conversion only ever returns equations about the term it was given. -/
def LhsOK (cv : Conv) : Prop := ∀ t l r, cv t = .ok (l, r) → l = t

theorem isRefl_iff (e : Eqn) : isRefl e = true ↔ e.1 = e.2 := by
  simp [isRefl]

theorem transE_lhs {p q e : Eqn} (hq : q.1 = p.2) (h : transE p q = .ok e) : e.1 = p.1 := by
  unfold transE at h
  by_cases hp : isRefl p = true
  · simp [hp] at h
    have := (isRefl_iff p).1 hp
    subst h; rw [hq, ← this]
  · by_cases hq' : isRefl q = true
    · simp [hp, hq'] at h; subst h; rfl
    · by_cases hm : p.2 = q.1
      · simp [hp, hq', hm] at h; subst h; rfl
      · simp [hp, hq'] at h
        split at h
        · cases h; rfl
        · cases h

theorem onRhs_lhs {cv : Conv} (hcv : LhsOK cv) {p e : Eqn} (h : onRhs p cv = .ok e) : e.1 = p.1 := by
  unfold onRhs at h
  cases hc : cv p.2 with
  | error err => simp [hc, bind, Except.bind] at h
  | ok q =>
    simp [hc, bind, Except.bind] at h
    exact transE_lhs (hcv _ _ _ (by rw [hc])) h

theorem onRhsL_lhs {cvs : List Conv} (hcv : ∀ cv ∈ cvs, LhsOK cv) {p e : Eqn}
    (h : onRhsL p cvs = .ok e) : e.1 = p.1 := by
  induction cvs generalizing p with
  | nil => simp [onRhsL] at h; subst h; rfl
  | cons cv cvs ih =>
    unfold onRhsL at h
    cases hc : onRhs p cv with
    | error err => simp [hc, bind, Except.bind] at h
    | ok p' =>
      simp [hc, bind, Except.bind] at h
      have h1 := onRhs_lhs (hcv cv (by simp)) hc
      have h2 := ih (fun c hc' => hcv c (by simp [hc'])) h
      rw [h2, h1]

theorem allConv_lhs : LhsOK allConv := by
  intro t l r h; simp [allConv, reflE] at h; exact h.1.symm

theorem noConv_lhs : LhsOK noConv := by
  intro t l r h; simp [noConv] at h

theorem combinationConv_lhs {c1 c2 : Conv} (h1 : LhsOK c1) (h2 : LhsOK c2) :
    LhsOK (combinationConv c1 c2) := by
  intro t l r h
  cases t with
  | atom n => simp [combinationConv] at h
  | abs x b => simp [combinationConv] at h
  | comb f a =>
    simp only [combinationConv] at h
    cases hf : c1 f with
    | error e => simp [hf, bind, Except.bind] at h
    | ok p1 =>
      cases ha : c2 a with
      | error e => simp [hf, ha, bind, Except.bind] at h
      | ok p2 =>
        simp [hf, ha, bind, Except.bind] at h
        have e1 := h1 f p1.1 p1.2 (by rw [hf])
        have e2 := h2 a p2.1 p2.2 (by rw [ha])
        split at h
        · simp [reflE] at h; exact h.1.symm
        · simp at h; rw [← h.1, e1, e2]

theorem thenConv_lhs {c1 c2 : Conv} (h1 : LhsOK c1) (h2 : LhsOK c2) : LhsOK (thenConv c1 c2) := by
  intro t l r h
  simp only [thenConv] at h
  cases hc : c1 t with
  | error e => simp [hc, bind, Except.bind] at h
  | ok p1 =>
    cases hd : c2 p1.2 with
    | error e => simp [hc, hd, bind, Except.bind] at h
    | ok p2 =>
      simp [hc, hd, bind, Except.bind] at h
      have := transE_lhs (h2 _ p2.1 p2.2 (by rw [hd])) h
      simp at this
      rw [this]; exact h1 t p1.1 p1.2 (by rw [hc])

theorem elseConv_lhs {c1 c2 : Conv} (h1 : LhsOK c1) (h2 : LhsOK c2) : LhsOK (elseConv c1 c2) := by
  intro t l r h
  simp only [elseConv] at h
  split at h
  · exact h2 t l r h
  · exact h1 t l r h

theorem absConv_lhs {cv : Conv} (h1 : LhsOK cv) : LhsOK (absConv cv) := by
  intro t l r h
  cases t with
  | atom n => simp [absConv] at h
  | comb f a => simp [absConv] at h
  | abs x b =>
    simp only [absConv] at h
    split at h
    · next p hp =>
      simp at h
      rw [← h.1, h1 b p.1 p.2 (by rw [hp])]
    · cases h
    · cases h

theorem tryConv_lhs {cv : Conv} (h : LhsOK cv) : LhsOK (tryConv cv) := elseConv_lhs h allConv_lhs
theorem combConv_lhs {cv : Conv} (h : LhsOK cv) : LhsOK (combConv cv) := combinationConv_lhs h h
theorem argConv_lhs {cv : Conv} (h : LhsOK cv) : LhsOK (argConv cv) := combinationConv_lhs allConv_lhs h
theorem funConv_lhs {cv : Conv} (h : LhsOK cv) : LhsOK (funConv cv) := combinationConv_lhs h allConv_lhs
theorem arg1Conv_lhs {cv : Conv} (h : LhsOK cv) : LhsOK (arg1Conv cv) := funConv_lhs (argConv_lhs h)
theorem binopConv_lhs {cv : Conv} (h : LhsOK cv) : LhsOK (binopConv cv) :=
  combinationConv_lhs (argConv_lhs h) h

theorem subConv_lhs {cv : Conv} (h : LhsOK cv) : LhsOK (subConv cv) := by
  intro t l r hh
  cases t with
  | atom n => simp [subConv, reflE] at hh; exact hh.1.symm
  | comb f a => exact combConv_lhs h _ l r (by simpa [subConv] using hh)
  | abs x b => exact absConv_lhs h _ l r (by simpa [subConv] using hh)

theorem repeatLoop_lhs {cv : Conv} (hcv : LhsOK cv) (n : Nat) {p e : Eqn}
    (h : repeatLoop cv n p = .ok e) : e.1 = p.1 := by
  induction n generalizing p with
  | zero => simp [repeatLoop] at h
  | succ n ih =>
    unfold repeatLoop at h
    cases hc : onRhs p cv with
    | error err => simp [hc, bind, Except.bind] at h
    | ok p2 =>
      simp [hc, bind, Except.bind] at h
      split at h
      · cases h; rfl
      · rw [ih h, onRhs_lhs hcv hc]

theorem repeatConv_lhs {cv : Conv} (hcv : LhsOK cv) (n : Nat) : LhsOK (repeatConv cv n) := by
  intro t l r h
  have := repeatLoop_lhs hcv n h
  simpa [reflE] using this

theorem bottomConv_lhs {cv : Conv} (hcv : LhsOK cv) (n : Nat) : LhsOK (bottomConv cv n) := by
  induction n with
  | zero => intro t l r h; simp [bottomConv] at h
  | succ n ih =>
    intro t l r h
    cases t with
    | atom k =>
      simp only [bottomConv] at h
      have := onRhsL_lhs (cvs := [tryConv cv]) (by intro c hc; simp at hc; subst hc; exact tryConv_lhs hcv) h
      simpa [reflE] using this
    | comb f a =>
      simp only [bottomConv] at h
      have := onRhsL_lhs (cvs := [funConv (bottomConv cv n), argConv (bottomConv cv n), tryConv cv])
        (by
          intro c hc; simp at hc
          rcases hc with rfl | rfl | rfl
          · exact funConv_lhs ih
          · exact argConv_lhs ih
          · exact tryConv_lhs hcv) h
      simpa [reflE] using this
    | abs x b =>
      simp only [bottomConv] at h
      have := onRhsL_lhs (cvs := [absConv (bottomConv cv n), tryConv cv])
        (by
          intro c hc; simp at hc
          rcases hc with rfl | rfl
          · exact absConv_lhs ih
          · exact tryConv_lhs hcv) h
      simpa [reflE] using this

theorem topConv_lhs {cv : Conv} (hcv : LhsOK cv) (n : Nat) : LhsOK (topConv cv n) := by
  induction n with
  | zero => intro t l r h; simp [topConv] at h
  | succ n ih =>
    intro t l r h
    simp only [topConv] at h
    cases hc : onRhs (reflE t) cv with
    | error err => simp [hc, bind, Except.bind] at h
    | ok pt =>
      have hpt : pt.1 = t := by simpa [reflE] using onRhs_lhs hcv hc
      simp [hc, bind, Except.bind] at h
      split at h
      · next f a hfa =>
        cases hf : topConv cv n f with
        | error err => simp [hf] at h
        | ok fp =>
          cases ha : topConv cv n a with
          | error err => simp [hf, ha] at h
          | ok ap =>
            simp [hf, ha] at h
            have e1 := ih f fp.1 fp.2 (by rw [hf])
            have e2 := ih a ap.1 ap.2 (by rw [ha])
            have := transE_lhs (p := pt) (q := (.comb fp.1 ap.1, .comb fp.2 ap.2))
              (by simp [e1, e2, hfa]) h
            simp at this; rw [this, hpt]
      · next x b hxb =>
        split at h
        · next x' b' =>
          cases hb : topConv cv n b' with
          | error err => simp [hb] at h
          | ok bp =>
            simp [hb] at h
            have e1 := ih b' bp.1 bp.2 (by rw [hb])
            split at h
            · simp at h; rw [h] at hpt; exact hpt
            · -- pt.2 = abs x b must agree with abs x' bp.1 for `transitive` to succeed
              unfold transE at h
              by_cases hp : isRefl pt = true
              · -- pt reflexive: the second equation is returned
                simp [hp] at h
                rw [← h.1, e1]
              · by_cases hq : isRefl (Term.abs x' bp.1, Term.abs x' bp.2) = true
                · simp [hp, hq] at h; rw [h] at hpt; exact hpt
                · simp [hp, hq] at h
                  split at h
                  · simp at h; rw [← h.1]; exact hpt
                  · cases h
        · cases h
      · simp at h; rw [h] at hpt; exact hpt

theorem topSweepConv_lhs {cv : Conv} (hcv : LhsOK cv) : LhsOK (topSweepConv cv) := by
  intro t
  induction t with
  | atom k =>
    intro l r h
    unfold topSweepConv at h
    cases hc : onRhs (reflE (Term.atom k)) (tryConv cv) with
    | error err => simp [hc] at h
    | ok pt =>
      have hpt : pt.1 = Term.atom k := by simpa [reflE] using onRhs_lhs (tryConv_lhs hcv) hc
      simp [hc] at h
      rw [h] at hpt; exact hpt
  | comb f a ihf iha =>
    intro l r h
    unfold topSweepConv at h
    cases hc : onRhs (reflE (Term.comb f a)) (tryConv cv) with
    | error err => simp [hc] at h
    | ok pt =>
      have hpt : pt.1 = Term.comb f a := by simpa [reflE] using onRhs_lhs (tryConv_lhs hcv) hc
      simp [hc] at h
      split at h
      · simp at h; rw [h] at hpt; exact hpt
      · cases hf : topSweepConv cv f with
        | error err => simp [hf] at h
        | ok fp =>
          cases ha : topSweepConv cv a with
          | error err => simp [hf, ha] at h
          | ok ap =>
            simp [hf, ha] at h
            rw [← h.1, ihf fp.1 fp.2 (by rw [hf]), iha ap.1 ap.2 (by rw [ha])]
  | abs x b ih =>
    intro l r h
    unfold topSweepConv at h
    cases hc : onRhs (reflE (Term.abs x b)) (tryConv cv) with
    | error err => simp [hc] at h
    | ok pt =>
      have hpt : pt.1 = Term.abs x b := by simpa [reflE] using onRhs_lhs (tryConv_lhs hcv) hc
      simp [hc] at h
      split at h
      · simp at h; rw [h] at hpt; exact hpt
      · cases hb : topSweepConv cv b with
        | error err => simp [hb] at h
        | ok bp =>
          simp [hb] at h
          split at h
          · simp at h; rw [h] at hpt; exact hpt
          · simp at h; rw [← h.1, ih bp.1 bp.2 (by rw [hb])]

theorem rewrConv_lhs (lhs rhs : Pat) : LhsOK (rewrConv lhs rhs) := by
  intro t l r h
  unfold rewrConv at h
  split at h
  · cases h
  · split at h
    · split at h
      · next hl => simp at h; rw [← h.1]; simpa using hl
      · cases h
    · cases h

theorem interp_lhs (fuel : Nat) (ce : CE) : LhsOK (interp fuel ce) := by
  induction ce with
  | all => exact allConv_lhs
  | no => exact noConv_lhs
  | rewr l r => exact rewrConv_lhs l r
  | thenC a b iha ihb => exact thenConv_lhs iha ihb
  | elseC a b iha ihb => exact elseConv_lhs iha ihb
  | tryC a ih => exact tryConv_lhs ih
  | comb a b iha ihb => exact combinationConv_lhs iha ihb
  | comb1 a ih => exact combConv_lhs ih
  | arg a ih => exact argConv_lhs ih
  | fn a ih => exact funConv_lhs ih
  | arg1 a ih => exact arg1Conv_lhs ih
  | binop a ih => exact binopConv_lhs ih
  | absC a ih => exact absConv_lhs ih
  | sub a ih => exact subConv_lhs ih
  | rep a ih => exact repeatConv_lhs ih fuel
  | bottom a ih => exact bottomConv_lhs ih fuel
  | top a ih => exact topConv_lhs ih fuel
  | topSweep a ih => exact topSweepConv_lhs ih

/-! ## (b) sorted, duplicate-free member lists -/

/-- `cmp` is a three-way comparison of a strict total order (what `fast_compare` is by C03). -/
structure TotalOrder {α : Type} (cmp : α → α → Ordering) : Prop where
  eq_iff : ∀ a b, cmp a b = .eq ↔ a = b
  gt_iff : ∀ a b, cmp a b = .gt ↔ cmp b a = .lt
  lt_trans : ∀ a b c, cmp a b = .lt → cmp b c = .lt → cmp a c = .lt

/-- The hypothesis is satisfiable: the order on ranks used by the driver. -/
theorem natCmp_total : TotalOrder (fun a b : Nat => compare a b) where
  eq_iff := by intro a b; simp
  gt_iff := by intro a b; rw [Nat.compare_eq_gt, Nat.compare_eq_lt]
  lt_trans := by intro a b c; simp only [Nat.compare_eq_lt]; omega

section
variable {α : Type} {cmp : α → α → Ordering}

def SortedU (cmp : α → α → Ordering) (l : List α) : Prop := l.Pairwise (fun a b => cmp a b = .lt)

theorem mem_insertU (h : TotalOrder cmp) (a x : α) (l : List α) :
    x ∈ insertU cmp a l ↔ x = a ∨ x ∈ l := by
  induction l with
  | nil => simp [insertU]
  | cons b l ih =>
    unfold insertU
    cases hc : cmp a b with
    | lt => simp
    | eq =>
      have := (h.eq_iff a b).1 hc
      subst this
      simp
    | gt =>
      simp [ih]
      constructor
      · rintro (h1 | h1 | h1) <;> simp [h1]
      · rintro (h1 | h1 | h1) <;> simp [h1]

theorem sorted_insertU (h : TotalOrder cmp) (a : α) (l : List α) (hl : SortedU cmp l) :
    SortedU cmp (insertU cmp a l) := by
  induction l with
  | nil => simp [insertU, SortedU]
  | cons b l ih =>
    unfold insertU
    have hl' := List.pairwise_cons.1 hl
    cases hc : cmp a b with
    | lt =>
      simp only
      refine List.pairwise_cons.2 ⟨?_, hl⟩
      intro x hx
      rcases List.mem_cons.1 hx with rfl | hx
      · exact hc
      · exact h.lt_trans _ _ _ hc (hl'.1 x hx)
    | eq => exact hl
    | gt =>
      simp only
      refine List.pairwise_cons.2 ⟨?_, ih hl'.2⟩
      intro x hx
      rcases (mem_insertU h a x l).1 hx with rfl | hx
      · exact (h.gt_iff _ _).1 hc
      · exact hl'.1 x hx

theorem mem_sortU (h : TotalOrder cmp) (x : α) (l : List α) : x ∈ sortU cmp l ↔ x ∈ l := by
  induction l with
  | nil => simp [sortU]
  | cons a l ih =>
    have : sortU cmp (a :: l) = insertU cmp a (sortU cmp l) := rfl
    rw [this, mem_insertU h, ih]; simp

theorem sorted_sortU (h : TotalOrder cmp) (l : List α) : SortedU cmp (sortU cmp l) := by
  induction l with
  | nil => simp [sortU, SortedU]
  | cons a l ih =>
    have : sortU cmp (a :: l) = insertU cmp a (sortU cmp l) := rfl
    rw [this]; exact sorted_insertU h a _ ih

theorem lt_irrefl (h : TotalOrder cmp) (a : α) : cmp a a ≠ .lt := by
  have := (h.eq_iff a a).2 rfl
  rw [this]; simp

/-- Two strictly sorted lists with the same members are the same list. -/
theorem sorted_ext (h : TotalOrder cmp) : ∀ (l1 l2 : List α), SortedU cmp l1 → SortedU cmp l2 →
    (∀ x, x ∈ l1 ↔ x ∈ l2) → l1 = l2 := by
  intro l1
  induction l1 with
  | nil =>
    intro l2 _ _ hm
    cases l2 with
    | nil => rfl
    | cons b l2 => exact absurd ((hm b).2 (by simp)) (by simp)
  | cons a l1 ih =>
    intro l2 h1 h2 hm
    cases l2 with
    | nil => exact absurd ((hm a).1 (by simp)) (by simp)
    | cons b l2 =>
      have h1' := List.pairwise_cons.1 h1
      have h2' := List.pairwise_cons.1 h2
      have hab : a = b := by
        have ha : a ∈ b :: l2 := (hm a).1 (by simp)
        have hb : b ∈ a :: l1 := (hm b).2 (by simp)
        rcases List.mem_cons.1 ha with e | ha
        · exact e
        · rcases List.mem_cons.1 hb with e | hb
          · exact e.symm
          · have c1 := h1'.1 b hb
            have c2 := h2'.1 a ha
            exact absurd (h.lt_trans _ _ _ c1 c2) (lt_irrefl h a)
      subst hab
      congr 1
      apply ih l2 h1'.2 h2'.2
      intro x
      constructor
      · intro hx
        have := (hm x).1 (by simp [hx])
        rcases List.mem_cons.1 this with e | hx2
        · subst e; exact absurd (h1'.1 x hx) (lt_irrefl h x)
        · exact hx2
      · intro hx
        have := (hm x).2 (by simp [hx])
        rcases List.mem_cons.1 this with e | hx2
        · subst e; exact absurd (h2'.1 x hx) (lt_irrefl h x)
        · exact hx2

theorem insertU_of_lt_all (a : α) (l : List α) (hl : ∀ x ∈ l, cmp a x = .lt) :
    insertU cmp a l = a :: l := by
  cases l with
  | nil => rfl
  | cons b l => simp [insertU, hl b (by simp)]

theorem sortU_of_sorted (l : List α) (hl : SortedU cmp l) : sortU cmp l = l := by
  induction l with
  | nil => rfl
  | cons a l ih =>
    have hl' := List.pairwise_cons.1 hl
    have : sortU cmp (a :: l) = insertU cmp a (sortU cmp l) := rfl
    rw [this, ih hl'.2]; exact insertU_of_lt_all a l hl'.1

theorem leaves_ne_nil (t : Tree α) : t.leaves ≠ [] := by
  induction t with
  | leaf a => simp [Tree.leaves]
  | node l r ihl _ => simp [Tree.leaves, ihl]

theorem leaves_mkRight (a : α) (l : List α) : (mkRight a l).leaves = a :: l := by
  induction l generalizing a with
  | nil => rfl
  | cons b l ih => simp [mkRight, Tree.leaves, ih]

theorem sortU_ne_nil (h : TotalOrder cmp) (l : List α) (hl : l ≠ []) : sortU cmp l ≠ [] := by
  cases l with
  | nil => exact absurd rfl hl
  | cons a l =>
    intro he
    have := (mem_sortU h a (a :: l)).2 (by simp)
    rw [he] at this; simp at this

theorem evalAnd_leaves (ρ : α → Bool) (t : Tree α) : evalAnd ρ t = t.leaves.all ρ := by
  induction t with
  | leaf a => simp [evalAnd, Tree.leaves]
  | node l r ihl ihr => simp [evalAnd, Tree.leaves, ihl, ihr, List.all_append]

theorem evalOr_leaves (ρ : α → Bool) (t : Tree α) : evalOr ρ t = t.leaves.any ρ := by
  induction t with
  | leaf a => simp [evalOr, Tree.leaves]
  | node l r ihl ihr => simp [evalOr, Tree.leaves, ihl, ihr, List.any_append]

theorem all_eq_of_mem_iff (ρ : α → Bool) (l1 l2 : List α) (hm : ∀ x, x ∈ l1 ↔ x ∈ l2) :
    l1.all ρ = l2.all ρ := by
  rw [Bool.eq_iff_iff]; simp only [List.all_eq_true]
  constructor
  · intro h x hx; exact h x ((hm x).2 hx)
  · intro h x hx; exact h x ((hm x).1 hx)

theorem any_eq_of_mem_iff (ρ : α → Bool) (l1 l2 : List α) (hm : ∀ x, x ∈ l1 ↔ x ∈ l2) :
    l1.any ρ = l2.any ρ := by
  rw [Bool.eq_iff_iff]; simp only [List.any_eq_true]
  constructor
  · rintro ⟨x, hx, h⟩; exact ⟨x, (hm x).1 hx, h⟩
  · rintro ⟨x, hx, h⟩; exact ⟨x, (hm x).2 hx, h⟩

/-- The leaves of the normal form are the sorted duplicate-free member list. -/
theorem leaves_acNorm (h : TotalOrder cmp) (t : Tree α) :
    (acNorm cmp t).leaves = sortU cmp t.leaves := by
  unfold acNorm
  cases hs : sortU cmp t.leaves with
  | nil => exact absurd hs (sortU_ne_nil h _ (leaves_ne_nil t))
  | cons a l => simp [leaves_mkRight]

end

end Holpy.C10
