import Holpy.C10.HypModel
/-
C10 — the combinators with hypotheses: the returned sequent is about the given term and its
hypotheses are among the supplied ones.
-/
namespace Holpy.C10.H
open Holpy.C10

/-- the sequent is about `t` and every hypothesis is among `S` -/
def Inv (S : List Term) (t : Term) (s : Seq) : Prop := s.lhs = t ∧ ∀ h ∈ s.hyps, h ∈ S

/-- A conversion only returns sequents about the term it was given, with hypotheses from `S`. -/
def HypOK (S : List Term) (cv : ConvH) : Prop := ∀ t s, cv t = .ok s → Inv S t s

theorem HypOK.mono {S S' : List Term} {cv : ConvH} (h : HypOK S cv) (hs : ∀ x ∈ S, x ∈ S') :
    HypOK S' cv := fun t s e => ⟨(h t s e).1, fun x hx => hs x ((h t s e).2 x hx)⟩

theorem inv_refl (S : List Term) (t : Term) : Inv S t (reflS t) := ⟨rfl, by simp [reflS]⟩

theorem isReflS_iff (s : Seq) : isReflS s = true ↔ s.lhs = s.rhs := by simp [isReflS]

theorem transS_inv {S : List Term} {t : Term} {p q e : Seq} (hp : Inv S t p) (hq : Inv S p.rhs q)
    (h : transS p q = .ok e) : Inv S t e := by
  unfold transS at h
  cases h1 : isReflS p with
  | true =>
    simp [h1] at h; subst h
    have := (isReflS_iff p).1 h1
    exact ⟨by rw [hq.1, ← this, hp.1], hq.2⟩
  | false =>
    cases h2 : isReflS q with
    | true => simp [h1, h2] at h; subst h; exact hp
    | false =>
      cases h3 : (p.rhs == q.lhs) with
      | false => simp [h1, h2, h3] at h
      | true =>
        simp [h1, h2, h3] at h
        subst h
        refine ⟨hp.1, fun x hx => ?_⟩
        simp at hx
        rcases hx with hx | hx
        · exact hp.2 x hx
        · exact hq.2 x hx

theorem combS_inv {S : List Term} {f a : Term} {p q : Seq} (hp : Inv S f p) (hq : Inv S a q) :
    Inv S (.comb f a) (combS p q) := by
  refine ⟨by simp [combS, hp.1, hq.1], fun x hx => ?_⟩
  simp [combS] at hx
  rcases hx with hx | hx
  · exact hp.2 x hx
  · exact hq.2 x hx

theorem absS_inv {S : List Term} {x : Nat} {b : Term} {p e : Seq} (hp : Inv S b p)
    (h : absS x p = .ok e) : Inv S (.abs x b) e ∧ ∀ g ∈ e.hyps, occursVar x g = false := by
  unfold absS at h
  split at h
  · cases h
  · next hn =>
    cases h
    refine ⟨⟨by simp [hp.1], hp.2⟩, fun g hg => ?_⟩
    simp at hn
    exact hn g hg

theorem onRhsH_inv {S : List Term} {cv : ConvH} (hcv : HypOK S cv) {t : Term} {p e : Seq}
    (hp : Inv S t p) (h : onRhsH p cv = .ok e) : Inv S t e := by
  unfold onRhsH at h
  split at h
  · cases h
  · next q hq => exact transS_inv hp (hcv _ _ hq) h

theorem onRhsLH_inv {S : List Term} {cvs : List ConvH} (hcv : ∀ cv ∈ cvs, HypOK S cv) {t : Term}
    {p e : Seq} (hp : Inv S t p) (h : onRhsLH p cvs = .ok e) : Inv S t e := by
  induction cvs generalizing p with
  | nil => simp [onRhsLH] at h; subst h; exact hp
  | cons cv cvs ih =>
    unfold onRhsLH at h
    split at h
    · cases h
    · next p' hp' =>
      exact ih (fun c hc => hcv c (by simp [hc])) (onRhsH_inv (hcv cv (by simp)) hp hp') h

theorem allConvH_ok (S : List Term) : HypOK S allConvH := by
  intro t s h; simp [allConvH] at h; subst h; exact inv_refl S t

theorem noConvH_ok (S : List Term) : HypOK S noConvH := by
  intro t s h; simp [noConvH] at h

theorem combinationConvH_ok {S : List Term} {c1 c2 : ConvH} (h1 : HypOK S c1) (h2 : HypOK S c2) :
    HypOK S (combinationConvH c1 c2) := by
  intro t s h
  unfold combinationConvH at h
  split at h
  · next f a =>
    split at h
    · cases h
    · next p1 hp1 =>
      split at h
      · cases h
      · next p2 hp2 =>
        split at h
        · cases h; exact inv_refl S _
        · cases h; exact combS_inv (h1 _ _ hp1) (h2 _ _ hp2)
  · cases h

theorem thenConvH_ok {S : List Term} {c1 c2 : ConvH} (h1 : HypOK S c1) (h2 : HypOK S c2) :
    HypOK S (thenConvH c1 c2) := by
  intro t s h
  unfold thenConvH at h
  split at h
  · cases h
  · next p1 hp1 =>
    split at h
    · cases h
    · next p2 hp2 => exact transS_inv (h1 _ _ hp1) (h2 _ _ hp2) h

theorem elseConvH_ok {S : List Term} {c1 c2 : ConvH} (h1 : HypOK S c1) (h2 : HypOK S c2) :
    HypOK S (elseConvH c1 c2) := by
  intro t s h
  unfold elseConvH at h
  split at h
  · exact h2 t s h
  · exact h1 t s h

theorem absConvH_ok {S : List Term} {cv : ConvH} (h1 : HypOK S cv) : HypOK S (absConvH cv) := by
  intro t s h
  unfold absConvH at h
  split at h
  · next x b =>
    split at h
    · next p hp =>
      split at h
      · next s' hs' => cases h; exact (absS_inv (h1 _ _ hp) hs').1
      · cases h
      · cases h
    · cases h
    · cases h
  · cases h

/-- what `abs_conv` returns has no hypothesis mentioning the bound variable -/
theorem absConvH_closed {cv : ConvH} {x : Nat} {b : Term} {s : Seq}
    (h : absConvH cv (.abs x b) = .ok s) : ∀ g ∈ s.hyps, occursVar x g = false := by
  unfold absConvH at h
  simp only at h
  split at h
  · next p hp =>
    split at h
    · next s' hs' =>
      cases h
      unfold absS at hs'
      split at hs'
      · cases hs'
      · next hn =>
        cases hs'
        intro g hg
        simp at hn
        exact hn g hg
    · cases h
    · cases h
  · cases h
  · cases h

theorem tryConvH_ok {S : List Term} {cv : ConvH} (h : HypOK S cv) : HypOK S (tryConvH cv) :=
  elseConvH_ok h (allConvH_ok S)
theorem combConvH_ok {S : List Term} {cv : ConvH} (h : HypOK S cv) : HypOK S (combConvH cv) :=
  combinationConvH_ok h h
theorem argConvH_ok {S : List Term} {cv : ConvH} (h : HypOK S cv) : HypOK S (argConvH cv) :=
  combinationConvH_ok (allConvH_ok S) h
theorem funConvH_ok {S : List Term} {cv : ConvH} (h : HypOK S cv) : HypOK S (funConvH cv) :=
  combinationConvH_ok h (allConvH_ok S)
theorem arg1ConvH_ok {S : List Term} {cv : ConvH} (h : HypOK S cv) : HypOK S (arg1ConvH cv) :=
  funConvH_ok (argConvH_ok h)
theorem binopConvH_ok {S : List Term} {cv : ConvH} (h : HypOK S cv) : HypOK S (binopConvH cv) :=
  combinationConvH_ok (argConvH_ok h) h

theorem subConvH_ok {S : List Term} {cv : ConvH} (h : HypOK S cv) : HypOK S (subConvH cv) := by
  intro t s hh
  cases t with
  | atom n => simp [subConvH] at hh; subst hh; exact inv_refl S _
  | comb f a => exact combConvH_ok h _ s (by simpa [subConvH] using hh)
  | abs x b => exact absConvH_ok h _ s (by simpa [subConvH] using hh)

theorem repeatLoopH_inv {S : List Term} {cv : ConvH} (hcv : HypOK S cv) (n : Nat) {t : Term}
    {p e : Seq} (hp : Inv S t p) (h : repeatLoopH cv n p = .ok e) : Inv S t e := by
  induction n generalizing p with
  | zero => simp [repeatLoopH] at h
  | succ n ih =>
    unfold repeatLoopH at h
    split at h
    · cases h
    · next p2 hp2 =>
      split at h
      · cases h; exact hp
      · exact ih (onRhsH_inv hcv hp hp2) h

theorem repeatConvH_ok {S : List Term} {cv : ConvH} (hcv : HypOK S cv) (n : Nat) :
    HypOK S (repeatConvH cv n) := fun t _ h => repeatLoopH_inv hcv n (inv_refl S t) h

theorem bottomConvH_ok {S : List Term} {cv : ConvH} (hcv : HypOK S cv) (n : Nat) :
    HypOK S (bottomConvH cv n) := by
  induction n with
  | zero => intro t s h; simp [bottomConvH] at h
  | succ n ih =>
    intro t s h
    cases t with
    | atom k =>
      simp only [bottomConvH] at h
      exact onRhsLH_inv (cvs := [tryConvH cv])
        (by intro c hc; simp at hc; subst hc; exact tryConvH_ok hcv) (inv_refl S _) h
    | comb f a =>
      simp only [bottomConvH] at h
      exact onRhsLH_inv (cvs := [funConvH (bottomConvH cv n), argConvH (bottomConvH cv n), tryConvH cv])
        (by
          intro c hc; simp at hc
          rcases hc with rfl | rfl | rfl
          · exact funConvH_ok ih
          · exact argConvH_ok ih
          · exact tryConvH_ok hcv) (inv_refl S _) h
    | abs x b =>
      simp only [bottomConvH] at h
      exact onRhsLH_inv (cvs := [absConvH (bottomConvH cv n), tryConvH cv])
        (by
          intro c hc; simp at hc
          rcases hc with rfl | rfl
          · exact absConvH_ok ih
          · exact tryConvH_ok hcv) (inv_refl S _) h

theorem topConvH_ok {S : List Term} {cv : ConvH} (hcv : HypOK S cv) (n : Nat) :
    HypOK S (topConvH cv n) := by
  induction n with
  | zero => intro t s h; simp [topConvH] at h
  | succ n ih =>
    intro t s h
    simp only [topConvH] at h
    split at h
    · cases h
    · next pt hpt =>
      have ipt : Inv S t pt := onRhsH_inv hcv (inv_refl S t) hpt
      split at h
      · next f a hfa =>
        split at h
        · cases h
        · next fp hfp =>
          split at h
          · cases h
          · next ap hap =>
            exact transS_inv ipt (by rw [hfa]; exact combS_inv (ih _ _ hfp) (ih _ _ hap)) h
      · next x b hxb =>
        split at h
        · next x' b' =>
          split at h
          · cases h
          · next bp hbp =>
            split at h
            · cases h; exact ipt
            · split at h
              · cases h
              · next s' hs' =>
                have ia := (absS_inv (ih _ _ hbp) hs').1
                -- `transitive` with a second premise about `abs x' b'` (the ORIGINAL term)
                unfold transS at h
                cases h1 : isReflS pt with
                | true => simp [h1] at h; subst h; exact ia
                | false =>
                  cases h2 : isReflS s' with
                  | true => simp [h1, h2] at h; subst h; exact ipt
                  | false =>
                    cases h3 : (pt.rhs == s'.lhs) with
                    | false => simp [h1, h2, h3] at h
                    | true =>
                      simp [h1, h2, h3] at h
                      subst h
                      refine ⟨ipt.1, fun y hy => ?_⟩
                      simp at hy
                      rcases hy with hy | hy
                      · exact ipt.2 y hy
                      · exact ia.2 y hy
        · cases h
      · cases h; exact ipt

theorem topSweepConvH_ok {S : List Term} {cv : ConvH} (hcv : HypOK S cv) :
    HypOK S (topSweepConvH cv) := by
  intro t
  induction t with
  | atom k =>
    intro s h
    unfold topSweepConvH at h
    split at h
    · cases h
    · next pt hpt =>
      have ipt := onRhsH_inv (tryConvH_ok hcv) (inv_refl S _) hpt
      split at h
      · cases h; exact ipt
      · cases h; exact ipt
  | comb f a ihf iha =>
    intro s h
    unfold topSweepConvH at h
    split at h
    · cases h
    · next pt hpt =>
      have ipt := onRhsH_inv (tryConvH_ok hcv) (inv_refl S _) hpt
      split at h
      · cases h; exact ipt
      · simp only at h
        split at h
        · cases h
        · next fp hfp =>
          split at h
          · cases h
          · next ap hap => cases h; exact combS_inv (ihf _ hfp) (iha _ hap)
  | abs x b ih =>
    intro s h
    unfold topSweepConvH at h
    split at h
    · cases h
    · next pt hpt =>
      have ipt := onRhsH_inv (tryConvH_ok hcv) (inv_refl S _) hpt
      split at h
      · cases h; exact ipt
      · simp only at h
        split at h
        · cases h
        · next bp hbp =>
          split at h
          · cases h; exact ipt
          · exact (absS_inv (ih _ hbp) h).1

theorem rewrConvH_ok (r : Rule) (conds : List Cond) : HypOK (r.hyps ++ condHyps conds) (rewrConvH r conds) := by
  intro t s h
  unfold rewrConvH at h
  split at h
  · cases h
  · split at h
    · cases h
    · split at h
      · cases h
      · split at h
        · split at h
          · next hl => cases h; exact ⟨by simpa using hl, fun _ hx => hx⟩
          · cases h
        · cases h

theorem interpH_ok (fuel : Nat) (ce : CEH) : HypOK (supplied ce) (interpH fuel ce) := by
  induction ce with
  | all => exact allConvH_ok _
  | no => exact noConvH_ok _
  | rewr r conds => exact rewrConvH_ok r conds
  | thenC a b iha ihb =>
    exact thenConvH_ok (iha.mono (fun x hx => by simp [supplied]; exact Or.inl hx)) (ihb.mono (fun x hx => by simp [supplied]; exact Or.inr hx))
  | elseC a b iha ihb =>
    exact elseConvH_ok (iha.mono (fun x hx => by simp [supplied]; exact Or.inl hx)) (ihb.mono (fun x hx => by simp [supplied]; exact Or.inr hx))
  | comb a b iha ihb =>
    exact combinationConvH_ok (iha.mono (fun x hx => by simp [supplied]; exact Or.inl hx)) (ihb.mono (fun x hx => by simp [supplied]; exact Or.inr hx))
  | tryC a ih => exact tryConvH_ok ih
  | comb1 a ih => exact combConvH_ok ih
  | arg a ih => exact argConvH_ok ih
  | fn a ih => exact funConvH_ok ih
  | arg1 a ih => exact arg1ConvH_ok ih
  | binop a ih => exact binopConvH_ok ih
  | absC a ih => exact absConvH_ok ih
  | sub a ih => exact subConvH_ok ih
  | rep a ih => exact repeatConvH_ok ih fuel
  | bottom a ih => exact bottomConvH_ok ih fuel
  | top a ih => exact topConvH_ok ih fuel
  | topSweep a ih => exact topSweepConvH_ok ih

end Holpy.C10.H
