/-
C10 — executable models (import-free: linked into the `c10_model` driver).

(c) `logic/conv.py`: a conversion is `Term → Except Err (Term × Term)` (the proved equation
    `lhs = rhs`); the combinators are written as the Python writes them, including
    * `ProofTerm.transitive` short-cuts: when the first equation is reflexive the *second* is
      returned unchecked, when the second is reflexive the first is returned unchecked, only
      otherwise are the middle terms compared (`InvalidDerivationException`);
    * `combination_conv` returns `t = t` when both parts are reflexive, else `f a = f' a'`
      built from the parts' own sides;
    * `else_conv` catches `ConvException` only; `abs_conv` turns `InvalidDerivationException`
      into `ConvException`;
    * `top_conv` re-descends into the *rewritten* term (so it needs fuel), but in its `abs` case it
      destructs the *original* `t` (assertion failure when `t` is not an abstraction);
    * `top_sweep_conv` stops at the first level where the conversion changes something;
    * `bottom_conv` runs `fun_conv(self)`, `arg_conv(self)`, `try_conv(cv)` one after the other.
    Bound variables are named (`abs x body`, the body mentions `atom x`), as `dest_abs` hands
    them to the argument conversion; hypotheses are not modelled (judged on the implementation).
(b) `logic/logic.py` `conj_norm` / `disj_norm`: flatten, `sorted(set(..), fast_compare)`,
    rebuild right-nested.  `true` / `false` members are ordinary members (as in the code).
(a) `data/nat.py` `norm_full` (theory with `mult_comm` and binary numerals).
-/
namespace Holpy.C10

/-! ## (c) conversion combinators -/

inductive Term where
  | atom (n : Nat)
  | comb (f a : Term)
  | abs (x : Nat) (b : Term)
  deriving Repr, DecidableEq, Inhabited

inductive Err where
  | conv        -- ConvException
  | invalid     -- InvalidDerivationException
  | assertion   -- AssertionError
  | fuel        -- model only: recursion budget exhausted
  deriving Repr, DecidableEq, Inhabited

/-- An equation `lhs = rhs` (the `prop` of a proof term). -/
abbrev Eqn := Term × Term
abbrev Conv := Term → Except Err Eqn

def isRefl (e : Eqn) : Bool := e.1 == e.2
def reflE (t : Term) : Eqn := (t, t)

/-- `pt.transitive(eq_pt)` for one argument. -/
def transE (p q : Eqn) : Except Err Eqn :=
  if isRefl p then .ok q
  else if isRefl q then .ok p
  else if p.2 == q.1 then .ok (p.1, q.2)
  else .error .invalid

/-- `pt.on_rhs(cv)` for one conversion. -/
def onRhs (p : Eqn) (cv : Conv) : Except Err Eqn := do
  let q ← cv p.2
  transE p q

/-- `pt.on_rhs(cv1, ..., cvn)`. -/
def onRhsL (p : Eqn) : List Conv → Except Err Eqn
  | [] => .ok p
  | cv :: cvs => do
    let p' ← onRhs p cv
    onRhsL p' cvs

def allConv : Conv := fun t => .ok (reflE t)
def noConv : Conv := fun _ => .error .conv

def combinationConv (c1 c2 : Conv) : Conv := fun t =>
  match t with
  | .comb f a => do
    let p1 ← c1 f
    let p2 ← c2 a
    if isRefl p1 && isRefl p2 then .ok (reflE t)
    else .ok (.comb p1.1 p2.1, .comb p1.2 p2.2)
  | _ => .error .conv

def thenConv (c1 c2 : Conv) : Conv := fun t => do
  let p1 ← c1 t
  let p2 ← c2 p1.2
  transE p1 p2

def elseConv (c1 c2 : Conv) : Conv := fun t =>
  match c1 t with
  | .error .conv => c2 t
  | r => r

def absConv (cv : Conv) : Conv := fun t =>
  match t with
  | .abs x b =>
    match cv b with
    | .ok p => .ok (.abs x p.1, .abs x p.2)
    | .error .invalid => .error .conv
    | .error e => .error e
  | _ => .error .conv

def tryConv (cv : Conv) : Conv := elseConv cv allConv
def combConv (cv : Conv) : Conv := combinationConv cv cv
def argConv (cv : Conv) : Conv := combinationConv allConv cv
def funConv (cv : Conv) : Conv := combinationConv cv allConv
def arg1Conv (cv : Conv) : Conv := funConv (argConv cv)
def binopConv (cv : Conv) : Conv := combinationConv (argConv cv) cv

def subConv (cv : Conv) : Conv := fun t =>
  match t with
  | .comb _ _ => combConv cv t
  | .abs _ _ => absConv cv t
  | .atom _ => .ok (reflE t)

/-- `repeat_conv`: apply `cv` to the right side until it stops changing. -/
def repeatLoop (cv : Conv) : Nat → Eqn → Except Err Eqn
  | 0, _ => .error .fuel
  | n + 1, p => do
    let p2 ← onRhs p cv
    if p2.2 == p.2 then .ok p else repeatLoop cv n p2

def repeatConv (cv : Conv) (fuel : Nat) : Conv := fun t => repeatLoop cv fuel (reflE t)

def bottomConv (cv : Conv) : Nat → Conv
  | 0 => fun _ => .error .fuel
  | n + 1 => fun t =>
    let self := bottomConv cv n
    match t with
    | .comb _ _ => onRhsL (reflE t) [funConv self, argConv self, tryConv cv]
    | .abs _ _ => onRhsL (reflE t) [absConv self, tryConv cv]
    | .atom _ => onRhsL (reflE t) [tryConv cv]

/-- `top_conv`: `cv` is `every_conv(try_conv(cv1), ...)`, built by the caller. -/
def topConv (cv : Conv) : Nat → Conv
  | 0 => fun _ => .error .fuel
  | n + 1 => fun t => do
    let pt ← onRhs (reflE t) cv
    match pt.2 with
    | .comb f a => do
      let fp ← topConv cv n f
      let ap ← topConv cv n a
      transE pt (.comb fp.1 ap.1, .comb fp.2 ap.2)
    | .abs _ _ =>
      match t with
      | .abs x b => do
        let bp ← topConv cv n b
        if isRefl bp then .ok pt else transE pt (.abs x bp.1, .abs x bp.2)
      | _ => .error .assertion
    | .atom _ => .ok pt

def topSweepConv (cv : Conv) : Conv := fun t =>
  match onRhs (reflE t) (tryConv cv) with
  | .error e => .error e
  | .ok pt =>
    if !isRefl pt then .ok pt
    else
      match t with
      | .comb f a =>
        match topSweepConv cv f, topSweepConv cv a with
        | .ok fp, .ok ap => .ok (.comb fp.1 ap.1, .comb fp.2 ap.2)
        | .error e, _ => .error e
        | _, .error e => .error e
      | .abs x b =>
        match topSweepConv cv b with
        | .ok bp => if isRefl bp then .ok pt else .ok (.abs x bp.1, .abs x bp.2)
        | .error e => .error e
      | .atom _ => .ok pt

/-! ### first-order rewrite rules (`rewr_conv` with a binder-free theorem, no conditions) -/

inductive Pat where
  | var (n : Nat)
  | atom (n : Nat)
  | comb (f a : Pat)
  deriving Repr, DecidableEq, Inhabited

abbrev Inst := List (Nat × Term)

def Inst.get (i : Inst) (n : Nat) : Option Term := (i.find? (fun p => p.1 == n)).map (·.2)

def matchPat : Pat → Term → Inst → Option Inst
  | .var n, t, i =>
    match i.get n with
    | some u => if u == t then some i else none
    | none => some ((n, t) :: i)
  | .atom n, .atom m, i => if n == m then some i else none
  | .atom _, _, _ => none
  | .comb pf pa, .comb f a, i =>
    match matchPat pf f i with
    | some i' => matchPat pa a i'
    | none => none
  | .comb _ _, _, _ => none

def substPat (i : Inst) : Pat → Option Term
  | .var n => i.get n
  | .atom n => some (.atom n)
  | .comb f a =>
    match substPat i f, substPat i a with
    | some f', some a' => some (.comb f' a')
    | _, _ => none

/-- `rewr_conv(th)` for `th : lhs = rhs`: match, instantiate, and the final
`assert pt.th.prop.lhs == t`. -/
def rewrConv (lhs rhs : Pat) : Conv := fun t =>
  match matchPat lhs t [] with
  | none => .error .conv
  | some i =>
    match substPat i lhs, substPat i rhs with
    | some l, some r => if l == t then .ok (l, r) else .error .assertion
    | _, _ => .error .conv

/-- Conversion expressions (what the harness builds on both sides).  `every_conv` and the
argument list of `top_conv` are unfolded into nested `thenC` by the reader, as Python does. -/
inductive CE where
  | all | no
  | rewr (l r : Pat)
  | thenC (a b : CE) | elseC (a b : CE) | tryC (a : CE)
  | comb (a b : CE) | comb1 (a : CE) | arg (a : CE) | fn (a : CE) | arg1 (a : CE) | binop (a : CE)
  | absC (a : CE) | sub (a : CE) | rep (a : CE) | bottom (a : CE) | top (a : CE) | topSweep (a : CE)
  deriving Repr, Inhabited

def interp (fuel : Nat) : CE → Conv
  | .all => allConv
  | .no => noConv
  | .rewr l r => rewrConv l r
  | .thenC a b => thenConv (interp fuel a) (interp fuel b)
  | .elseC a b => elseConv (interp fuel a) (interp fuel b)
  | .tryC a => tryConv (interp fuel a)
  | .comb a b => combinationConv (interp fuel a) (interp fuel b)
  | .comb1 a => combConv (interp fuel a)
  | .arg a => argConv (interp fuel a)
  | .fn a => funConv (interp fuel a)
  | .arg1 a => arg1Conv (interp fuel a)
  | .binop a => binopConv (interp fuel a)
  | .absC a => absConv (interp fuel a)
  | .sub a => subConv (interp fuel a)
  | .rep a => repeatConv (interp fuel a) fuel
  | .bottom a => bottomConv (interp fuel a) fuel
  | .top a => topConv (interp fuel a) fuel
  | .topSweep a => topSweepConv (interp fuel a)

/-! ## (b) `conj_norm` / `disj_norm` -/

inductive Tree (α : Type) where
  | leaf (a : α)
  | node (l r : Tree α)
  deriving Repr, DecidableEq

/-- `strip_conj` / `strip_disj`: all members, left to right. -/
def Tree.leaves {α : Type} : Tree α → List α
  | .leaf a => [a]
  | .node l r => l.leaves ++ r.leaves

/-- Insert into a sorted duplicate-free list; an element that compares equal is dropped
(`sorted(set(ts), key=cmp_to_key(fast_compare))`: under a total order `eq` means the same term). -/
def insertU {α : Type} (cmp : α → α → Ordering) (a : α) : List α → List α
  | [] => [a]
  | b :: l =>
    match cmp a b with
    | .lt => a :: b :: l
    | .eq => b :: l
    | .gt => b :: insertU cmp a l

def sortU {α : Type} (cmp : α → α → Ordering) (l : List α) : List α :=
  l.foldr (insertU cmp) []

/-- `And(*ts)` / `Or(*ts)`: right-nested (for a non-empty list). -/
def mkRight {α : Type} (a : α) : List α → Tree α
  | [] => .leaf a
  | b :: l => .node (.leaf a) (mkRight b l)

def acNorm {α : Type} (cmp : α → α → Ordering) (t : Tree α) : Tree α :=
  match sortU cmp t.leaves with
  | [] => t
  | a :: l => mkRight a l

def conjNorm {α : Type} := @acNorm α
def disjNorm {α : Type} := @acNorm α

/-- Truth value of a conjunction / disjunction tree. -/
def evalAnd {α : Type} (ρ : α → Bool) : Tree α → Bool
  | .leaf a => ρ a
  | .node l r => evalAnd ρ l && evalAnd ρ r

def evalOr {α : Type} (ρ : α → Bool) : Tree α → Bool
  | .leaf a => ρ a
  | .node l r => evalOr ρ l || evalOr ρ r

/-! ## (a) `data/nat.py` `norm_full`

The theory has `mult_comm` and the binary-numeral theorems (`has_binary_thms()`), i.e. the full
mode.  Each `Conv` class is the tree function below (what its chain of rewrites computes on
the shapes it is applied to; other shapes are returned unchanged here, the Python raises).
Atoms are whatever `norm_full` leaves alone (variables, applications, subtraction, powers ...): the
harness numbers them by their rank under `term_ord.fast_compare` together with the constant
`one` (`dest_monomial` of a numeral) and hands over each atom's `size()`; `fastCmp` is then
`fast_compare` on atoms and left-nested products of atoms: size first (`a * b` has size
`|a| + |b| + 3`), then the function parts `times a` / `times a'`, then the arguments.
An atom against a product of the same size is decided by the atom's `Shape` (see there). -/

/-- What `fast_compare` needs to know about an atom besides its rank: its `size()`, the size of its
function part (`t.fun.size()`, 1 for an atom that is not an application) and whether the head of a
binary application compares greater than the constant `times` -- these decide an atom against a
PRODUCT of the same size (`fast_compare` then compares `t.fun` with `times x`: sizes first, then
the heads).  A numeric literal stands for an atom of that size that is not an application. -/
structure Shape where
  size : Nat
  fsz : Nat := 1
  hgt : Bool := false
  deriving Repr, DecidableEq, Inhabited

instance (n : Nat) : OfNat Shape n := ⟨{ size := n }⟩

inductive NExp where
  | atom (id : Nat) (sh : Shape)
  | num (n : Nat)
  | add (a b : NExp)
  | mul (a b : NExp)
  | suc (a : NExp)
  deriving Repr, DecidableEq, Inhabited

namespace NExp

def size : NExp → Nat
  | atom _ s => s.size
  | num _ => 1
  | add a b => a.size + b.size + 3
  | mul a b => a.size + b.size + 3
  | suc a => a.size + 2

def isNum : NExp → Bool
  | num _ => true
  | _ => false

end NExp

open NExp

def ordThen (a b : Ordering) : Ordering :=
  match a with
  | .eq => b
  | o => o

/-- size of the function part: `fsz` of an atom, `|times x| = |x| + 2` of a product `x * y`. -/
def fsize : NExp → Nat
  | .atom _ s => s.fsz
  | .mul x _ => x.size + 2
  | _ => 1

/-- how the head compares with the constant `times`: atoms whose head is smaller (or that are not
binary applications) 0, products 1, atoms whose head is greater 2. -/
def cls : NExp → Nat
  | .atom _ s => if s.hgt then 2 else 0
  | .mul _ _ => 1
  | _ => 0

/-- two leaves that agree in size, function-part size and class: by rank (`one` is the rank of the
constant `one`, which a numeral body stands for; ranks are distinct in what the harness sends, a
numeral goes first on a tie so that only identical leaves compare equal). -/
def leafTie (one : Nat) : NExp → NExp → Ordering
  | .atom i _, .atom j _ => compare i j
  | .num n, .num m => compare n m
  | .num _, .atom j _ => if one ≤ j then .lt else .gt
  | .atom i _, .num _ => if one ≤ i then .gt else .lt
  | _, _ => .eq

/-- `fast_compare` on atoms / `one` / left-nested products: size first, then the function parts
(`times x` of a product, `t.fun` of an atom: their sizes, then their heads against `times`), then --
two products -- `x` against `x'` and the arguments, or -- two leaves -- the ranks.  (For two atoms
the real function compares the ranks directly; the rank order refines the order by function-part
size and head, so the answers coincide -- checked by the `bodycmp` stream.) -/
def fastCmp (one : Nat) : NExp → NExp → Ordering
  | .mul x y, .mul x' y' =>
    ordThen (compare (NExp.mul x y).size (NExp.mul x' y').size)
      (ordThen (compare x.size x'.size) (ordThen (fastCmp one x x') (fastCmp one y y')))
  | a, b =>
    ordThen (compare a.size b.size)
      (ordThen (compare (fsize a) (fsize b)) (ordThen (compare (cls a) (cls b)) (leafTie one a b)))

/-- `nat.compare_atom`: numbers last, two numbers are "equal". -/
def compareAtom (one : Nat) (t1 t2 : NExp) : Ordering :=
  if t1.isNum && t2.isNum then .eq
  else if t1.isNum then .gt
  else if t2.isNum then .lt
  else fastCmp one t1 t2

/-- `dest_monomial`: the body of a monomial (`one` for a numeral). -/
def destMonomial : NExp → NExp
  | .mul b (.num _) => b
  | .num _ => .num 1
  | t => t

def compareMonomial (one : Nat) (t1 t2 : NExp) : Ordering :=
  fastCmp one (destMonomial t1) (destMonomial t2)

/-- `to_coeff_form` as (body, coefficient): `a * n`, `1 * n`, `a * 1`. -/
def coeffForm : NExp → NExp × Nat
  | .mul b (.num c) => (b, c)
  | .num n => (.num 1, n)
  | t => (t, 1)

/-- `from_coeff_form` on `x * c`. -/
def fromCoeff (x : NExp) (c : Nat) : NExp :=
  if c = 1 then x
  else if x = .num 1 then .num c
  else .mul x (.num c)

/-- `combine_monomial` on `m1 + m2`: the rewrite with `distrib_l` (right to left) needs the two
bodies to be the same term (the Python raises otherwise; here the sum is returned unchanged). -/
def combineMonomial (m1 m2 : NExp) : NExp :=
  let (b1, c1) := coeffForm m1
  let (b2, c2) := coeffForm m2
  if b1 = b2 then fromCoeff b1 (c1 + c2) else .add m1 m2

/-- `norm_add_monomial` on `p + m`. -/
def insM (one : Nat) : NExp → NExp → NExp
  | .add p1 m1, m =>
    if m = .num 0 then .add p1 m1
    else
      match compareMonomial one m1 m with
      | .gt => .add (insM one p1 m) m1
      | .eq => .add p1 (combineMonomial m1 m)
      | .lt => .add (.add p1 m1) m
  | p, m =>
    if p = .num 0 then m
    else if m = .num 0 then p
    else
      match compareMonomial one p m with
      | .gt => .add m p
      | .eq => combineMonomial p m
      | .lt => .add p m

/-- `norm_add_polynomial` on `p + q`. -/
def addP (one : Nat) (p : NExp) : NExp → NExp
  | .add q1 m => insM one (addP one p q1) m
  | q => insM one p q

/-- `norm_mult_atom` on `p * a`. -/
def insA (one : Nat) : NExp → NExp → NExp
  | .mul p1 a1, a =>
    if a = .num 0 then .num 0
    else if a = .num 1 then .mul p1 a1
    else
      match compareAtom one a1 a with
      | .gt => .mul (insA one p1 a) a1
      | .eq =>
        match a1, a with
        | .num n1, .num n => .mul p1 (.num (n1 * n))
        | _, _ => .mul (.mul p1 a1) a
      | .lt => .mul (.mul p1 a1) a
  | p, a =>
    if p = .num 0 then .num 0
    else if a = .num 0 then .num 0
    else if p = .num 1 then a
    else if a = .num 1 then p
    else
      match compareAtom one p a with
      | .gt => .mul a p
      | .eq =>
        match p, a with
        | .num n1, .num n => .num (n1 * n)
        | _, _ => .mul p a
      | .lt => .mul p a

/-- `norm_mult_monomial` on `p * q`. -/
def mulM (one : Nat) (p : NExp) : NExp → NExp
  | .mul q1 a => insA one (mulM one p q1) a
  | q => insA one p q

/-- `norm_mult_poly_monomial` on `p * m`. -/
def polyMono (one : Nat) : NExp → NExp → NExp
  | .add p1 m1, m => addP one (polyMono one p1 m) (mulM one m1 m)
  | p, m => mulM one p m

/-- `norm_mult_polynomial` on `p * q`. -/
def mulP (one : Nat) (p : NExp) : NExp → NExp
  | .add q1 m => addP one (mulP one p q1) (polyMono one p m)
  | q => polyMono one p q

/-- `norm_full`. -/
def norm (one : Nat) : NExp → NExp
  | .atom i s => .atom i s
  | .num n => .num n
  | .suc x => addP one (norm one x) (.num 1)
  | .add a b => addP one (norm one a) (norm one b)
  | .mul a b => mulP one (norm one a) (norm one b)

/-! ### normal forms -/

def lastFactor : NExp → NExp
  | .mul _ a => a
  | t => t

def lastMono : NExp → NExp
  | .add _ m => m
  | t => t

def isAtomE : NExp → Bool
  | .atom _ _ => true
  | _ => false

/-- A monomial body: left-nested product of atoms, factors non-decreasing. -/
def isBody (one : Nat) : NExp → Bool
  | .atom _ _ => true
  | .mul b a => isAtomE a && isBody one b && (compareAtom one (lastFactor b) a != .gt)
  | _ => false

/-- A monomial: a numeral >= 1, a body, or `body * c` with `c >= 2`. -/
def isMono (one : Nat) : NExp → Bool
  | .num n => decide (1 ≤ n)
  | .mul b (.num c) => isBody one b && decide (2 ≤ c)
  | t => isBody one t

/-- A polynomial: left-nested sum of monomials, bodies strictly increasing. -/
def isPoly (one : Nat) : NExp → Bool
  | .add p m => isPoly one p && isMono one m && (compareMonomial one (lastMono p) m == .lt)
  | t => isMono one t

/-- The shape `norm_full` produces: `0` or a polynomial. -/
def isNF (one : Nat) (t : NExp) : Bool := t == .num 0 || isPoly one t

/-- the atoms of a term -/
def atomsOf : NExp → List (Nat × Shape)
  | .atom i s => [(i, s)]
  | .num _ => []
  | .add a b => atomsOf a ++ atomsOf b
  | .mul a b => atomsOf a ++ atomsOf b
  | .suc a => atomsOf a

/-- atoms are determined by their rank (the hypothesis of `norm_full_iff_poly`: then the table
`sh i := the shape of the atom of rank i` makes every atom a table entry), and no atom has the rank
of the constant `one`. -/
def atomsByRank (one : Nat) (t : NExp) : Bool :=
  let l := atomsOf t
  l.all (fun p => p.1 != one && l.all (fun q => p.1 != q.1 || p.2 == q.2))

/-- Value in ℕ under a valuation of the atoms. -/
def eval (ρ : Nat → Nat) : NExp → Nat
  | .atom i _ => ρ i
  | .num n => n
  | .add a b => eval ρ a + eval ρ b
  | .mul a b => eval ρ a * eval ρ b
  | .suc a => eval ρ a + 1

end Holpy.C10
