import Holpy.C10.ProofsPolyUnit
import Mathlib.Algebra.MvPolynomial.Funext
/-
C10 — the semantic form of canonicity: over an infinite integral domain (ℤ, ℚ), expressions with
the same value under EVERY valuation have the identical `convert_to_poly` list.
Route: a canonical list is sent to `MvPolynomial ℕ α`; a list that evaluates to 0 everywhere is sent
to 0 (`MvPolynomial.funext`); the coefficient of the first monomial then shows the list is empty.
-/
set_option linter.unusedSectionVars false
namespace Holpy.C10.Poly
open Holpy.C10

section
variable {α : Type} [CommRing α] [DecidableEq α]

/-- The exponent vector of a factor list. -/
noncomputable def fs : Mono → (ℕ →₀ ℕ)
  | [] => 0
  | f :: m => Finsupp.single f.1 f.2 + fs m

/-- The multivariate polynomial a list of (monomial, coefficient) stands for. -/
noncomputable def toMv : PolyL α → MvPolynomial ℕ α
  | [] => 0
  | t :: p => MvPolynomial.monomial (fs t.1) t.2 + toMv p

theorem fs_prod (ρ : ℕ → α) (m : Mono) : (fs m).prod (fun n e => ρ n ^ e) = evalMono ρ m := by
  induction m with
  | nil => simp [fs, evalMono]
  | cons f m ih =>
    simp only [fs, evalMono]
    rw [Finsupp.prod_add_index' (fun a => pow_zero _) (fun a b c => pow_add _ _ _)]
    show (Finsupp.single f.1 f.2).prod (fun n e => ρ n ^ e) * (fs m).prod (fun n e => ρ n ^ e) = _
    rw [Finsupp.prod_single_index (h := fun n e => ρ n ^ e) (pow_zero _), ih]

theorem eval_toMv (ρ : ℕ → α) (p : PolyL α) : MvPolynomial.eval ρ (toMv p) = evalPoly ρ p := by
  induction p with
  | nil => simp [toMv, evalPoly, wsum]
  | cons t p ih =>
    simp only [toMv, map_add, MvPolynomial.eval_monomial, fs_prod, ih]
    simp [evalPoly, wsum]

theorem fs_apply (m : Mono) (a : ℕ) : fs m a = wsum (delta natCmp a) m := by
  induction m with
  | nil => simp [fs, wsum]
  | cons f m ih =>
    simp only [fs, Finsupp.add_apply, Finsupp.single_apply, ih, wsum, delta]
    have : (natCmp f.1 a = .eq) ↔ f.1 = a := natCmp_total'.eq_iff f.1 a
    by_cases h : f.1 = a
    · subst h
      have e : natCmp f.1 f.1 = .eq := this.2 rfl
      simp [e]
    · have : ¬ natCmp f.1 a = .eq := fun he => h (this.1 he)
      simp [h, this]

/-- Canonical factor lists with the same exponent vector are the same list. -/
theorem fs_injective {m m' : Mono} (hm : Canon natCmp m) (hm' : Canon natCmp m') (h : fs m = fs m') :
    m = m' :=
  canon_ext natCmp_total' m m' hm hm' (fun a => by rw [← fs_apply, ← fs_apply, h])

theorem coeff_toMv_of_ne (s : ℕ →₀ ℕ) (p : PolyL α) (h : ∀ t ∈ p, fs t.1 ≠ s) :
    MvPolynomial.coeff s (toMv p) = 0 := by
  induction p with
  | nil => simp [toMv]
  | cons t p ih =>
    simp only [toMv, MvPolynomial.coeff_add, MvPolynomial.coeff_monomial]
    rw [if_neg (h t (by simp)), ih (fun u hu => h u (by simp [hu]))]
    simp

/-- A well-formed list that stands for the zero polynomial is empty. -/
theorem good_toMv_zero {p : PolyL α} (hp : Good p) (h : toMv p = 0) : p = [] := by
  cases p with
  | nil => rfl
  | cons t p =>
    exfalso
    have hs := List.pairwise_cons.1 hp.1.1
    have hc : MvPolynomial.coeff (fs t.1) (toMv (t :: p)) = t.2 := by
      simp only [toMv, MvPolynomial.coeff_add, MvPolynomial.coeff_monomial, if_true]
      rw [coeff_toMv_of_ne (fs t.1) p]
      · simp
      · intro u hu he
        have : u.1 = t.1 := fs_injective (hp.2 u (by simp [hu])) (hp.2 t (by simp)) he
        have hlt := hs.1 u hu
        rw [this] at hlt
        exact lt_irrefl monoCmp_total _ hlt
    rw [h] at hc
    exact hp.1.2 t (by simp) (by simpa using hc.symm)

/-- A well-formed list that evaluates to 0 under every valuation is empty. -/
theorem good_eval_zero [IsDomain α] [Infinite α] {p : PolyL α} (hp : Good p)
    (h : ∀ ρ : ℕ → α, evalPoly ρ p = 0) : p = [] :=
  good_toMv_zero hp (MvPolynomial.funext (fun ρ => by rw [eval_toMv, h ρ]; simp))

theorem pconst_zero' : pconst (0 : α) = [] := by
  simp [pconst, mkPoly, collect, merged, insertAdd]

/-- `P - Q = 0` as lists forces `P = Q` (well-formed lists). -/
theorem eq_of_psub_nil {P Q : PolyL α} (hP : Good P) (hQ : Good Q) (h : psub P Q = []) : P = Q := by
  have e1 : padd (psub P Q) Q = P := by
    unfold psub
    rw [padd_assoc, padd_comm (pneg Q) Q, padd_pneg, padd_zero hP]
  rw [h] at e1
  have e2 : padd [] Q = Q := by
    unfold padd; simp only [List.nil_append]; exact mkPoly_of_good hQ
  rw [e2] at e1
  exact e1.symm

/-- Expressions with the same value under every valuation have the same polynomial list. -/
theorem toPoly_eq_of_eval_eq [IsDomain α] [Infinite α] (a b : PExp α)
    (h : ∀ ρ : ℕ → α, evalE ρ a = evalE ρ b) : toPoly a = toPoly b := by
  apply eq_of_psub_nil (good_toPoly a) (good_toPoly b)
  have hg : Good (toPoly (.sub a b)) := good_toPoly _
  apply good_eval_zero hg
  intro ρ
  rw [evalPoly_toPoly]
  simp [evalE, h ρ]

end

end Holpy.C10.Poly
