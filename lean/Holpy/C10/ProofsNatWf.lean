import Holpy.C10.Model
import Holpy.C10.ProofsNat
/-
C10 — `norm_full` only rearranges and copies the atoms of its input: if every atom of the input is
the table entry of its rank (`atom i (sh i)`), so is every atom of the normal form.
-/
namespace Holpy.C10
open NExp

/-- every atom is the table entry of its rank -/
def wfS (sh : Nat → Shape) : NExp → Bool
  | .atom i s => s == sh i
  | .num _ => true
  | .add a b => wfS sh a && wfS sh b
  | .mul a b => wfS sh a && wfS sh b
  | .suc a => wfS sh a

theorem wfS_coeffForm (sh : Nat → Shape) (t : NExp) (h : wfS sh t = true) : wfS sh (coeffForm t).1 = true := by
  unfold coeffForm; split <;> simp_all [wfS]

theorem wfS_fromCoeff (sh : Nat → Shape) (x : NExp) (c : Nat) (h : wfS sh x = true) :
    wfS sh (fromCoeff x c) = true := by
  unfold fromCoeff; split <;> (try split) <;> simp_all [wfS]

theorem wfS_combine (sh : Nat → Shape) (m1 m2 : NExp) (h1 : wfS sh m1 = true) (h2 : wfS sh m2 = true) :
    wfS sh (combineMonomial m1 m2) = true := by
  unfold combineMonomial
  simp only
  split
  · exact wfS_fromCoeff sh _ _ (wfS_coeffForm sh m1 h1)
  · simp [wfS, h1, h2]

theorem wfS_insM (sh : Nat → Shape) (one : Nat) (p m : NExp) (hp : wfS sh p = true) (hm : wfS sh m = true) :
    wfS sh (insM one p m) = true := by
  fun_induction insM one p m <;> simp_all [wfS, wfS_combine]

theorem wfS_addP (sh : Nat → Shape) (one : Nat) (p q : NExp) (hp : wfS sh p = true) (hq : wfS sh q = true) :
    wfS sh (addP one p q) = true := by
  fun_induction addP one p q <;> simp_all [wfS, wfS_insM]

theorem wfS_insA (sh : Nat → Shape) (one : Nat) (p a : NExp) (hp : wfS sh p = true) (ha : wfS sh a = true) :
    wfS sh (insA one p a) = true := by
  fun_induction insA one p a <;> simp_all [wfS]

theorem wfS_mulM (sh : Nat → Shape) (one : Nat) (p q : NExp) (hp : wfS sh p = true) (hq : wfS sh q = true) :
    wfS sh (mulM one p q) = true := by
  fun_induction mulM one p q <;> simp_all [wfS, wfS_insA]

theorem wfS_polyMono (sh : Nat → Shape) (one : Nat) (p m : NExp) (hp : wfS sh p = true) (hm : wfS sh m = true) :
    wfS sh (polyMono one p m) = true := by
  fun_induction polyMono one p m <;> simp_all [wfS, wfS_addP, wfS_mulM]

theorem wfS_mulP (sh : Nat → Shape) (one : Nat) (p q : NExp) (hp : wfS sh p = true) (hq : wfS sh q = true) :
    wfS sh (mulP one p q) = true := by
  fun_induction mulP one p q <;> simp_all [wfS, wfS_addP, wfS_polyMono]

theorem wfS_norm (sh : Nat → Shape) (one : Nat) (t : NExp) (h : wfS sh t = true) : wfS sh (norm one t) = true := by
  induction t with
  | atom i s => simpa [norm] using h
  | num n => rfl
  | add a b iha ihb =>
    simp only [wfS, Bool.and_eq_true] at h
    simp only [norm]; exact wfS_addP sh one _ _ (iha h.1) (ihb h.2)
  | mul a b iha ihb =>
    simp only [wfS, Bool.and_eq_true] at h
    simp only [norm]; exact wfS_mulP sh one _ _ (iha h.1) (ihb h.2)
  | suc a ih =>
    simp only [wfS] at h
    simp only [norm]; exact wfS_addP sh one _ _ (ih h) rfl

end Holpy.C10
