import Holpy.C10.ProofsNatInjBody
import Holpy.C10.ProofsNatPoly
/-
C10 — a normal-form tree of `norm_full` is determined by its polynomial.
-/
namespace Holpy.C10
open NExp MvPolynomial

/-- the multivariate polynomial an expression stands for -/
noncomputable def phi : NExp → MvPolynomial ℕ ℤ
  | .atom i _ => X i
  | .num n => C (n : ℤ)
  | .add a b => phi a + phi b
  | .mul a b => phi a * phi b
  | .suc a => phi a + 1

theorem eval_phi (ρ : ℕ → ℤ) (e : NExp) : MvPolynomial.eval ρ (phi e) = evalZ ρ e := by
  induction e with
  | atom i s => simp [phi, evalZ]
  | num n => simp [phi, evalZ]
  | add a b iha ihb => simp [phi, evalZ, iha, ihb]
  | mul a b iha ihb => simp [phi, evalZ, iha, ihb]
  | suc a ih => simp [phi, evalZ, ih]

/-- monomials of a left-nested sum -/
def monos : NExp → List NExp
  | .add p m => monos p ++ [m]
  | t => [t]

noncomputable def kB (m : NExp) : ℕ →₀ ℕ := fsB (destMonomial m)
def cf (m : NExp) : ℤ := ((coeffForm m).2 : ℤ)

theorem phi_body {one : Nat} : ∀ {b : NExp}, isBody one b = true → phi b = monomial (fsB b) 1 := by
  intro b
  induction b with
  | atom i s => intro _; rfl
  | num n => intro h; simp [isBody] at h
  | add u v _ _ => intro h; simp [isBody] at h
  | suc u _ => intro h; simp [isBody] at h
  | mul x y ihx _ =>
    intro hb
    rcases isBody_cases hb with ⟨j, s, he⟩ | ⟨b1, j, s, he, hb1, _⟩
    · cases he
    · cases he
      simp only [phi, fsB, ihx hb1]
      rw [show (X j : MvPolynomial ℕ ℤ) = monomial (Finsupp.single j 1) 1 from rfl, monomial_mul, one_mul]

theorem phi_mono {one : Nat} {m : NExp} (h : isMono one m = true) : phi m = monomial (kB m) (cf m) := by
  rcases isMono_cases h with ⟨n, rfl, _⟩ | ⟨b, c, rfl, hb, _⟩ | hb
  · simp [phi, kB, cf, destMonomial, coeffForm, fsB, C_apply]
  · simp only [phi, kB, cf, destMonomial, coeffForm, phi_body hb]
    rw [C_apply, monomial_mul]; simp
  · have hd : destMonomial m = m ∧ coeffForm m = (m, 1) := by
      rcases isBody_cases hb with ⟨i, s, rfl⟩ | ⟨b1, i, s, rfl, _, _⟩ <;> simp [destMonomial, coeffForm]
    simp only [kB, cf, hd.1, hd.2, phi_body hb]; simp

noncomputable def sumL (l : List NExp) : MvPolynomial ℕ ℤ := (l.map (fun m => monomial (kB m) (cf m))).sum

theorem sumL_append (l1 l2 : List NExp) : sumL (l1 ++ l2) = sumL l1 + sumL l2 := by
  simp [sumL]

theorem lastMono_mem {one : Nat} {s : NExp} (_h : isPoly one s = true) : lastMono s ∈ monos s := by
  cases s <;> simp [lastMono, monos]

/-- facts about the monomial list of a polynomial-shaped tree -/
theorem monos_facts {one : Nat} : ∀ {s : NExp}, isPoly one s = true →
    phi s = sumL (monos s) ∧ (∀ m ∈ monos s, isMono one m = true) ∧
    (∀ m ∈ monos s, m = lastMono s ∨ compareMonomial one m (lastMono s) = .lt) ∧
    (monos s).Pairwise (fun a b => compareMonomial one a b = .lt) := by
  intro s
  induction s with
  | add p m ihp _ =>
    intro h
    simp only [isPoly, Bool.and_eq_true, beq_iff_eq] at h
    obtain ⟨⟨hp, hm⟩, hc⟩ := h
    obtain ⟨i1, i2, i3, i4⟩ := ihp hp
    have hlt : ∀ a ∈ monos p, compareMonomial one a m = .lt := by
      intro a ha
      rcases i3 a ha with e | e
      · rw [e]; exact hc
      · exact fastCmp_trans one _ _ _ (isMono_tree (i2 a ha))
          (isMono_tree (i2 _ (by
            rcases i3 a ha with e' | e'
            · rw [← e']; exact ha
            · exact lastMono_mem hp)))
          (isMono_tree hm) e hc
    refine ⟨?_, ?_, ?_, ?_⟩
    · simp only [phi, monos, sumL_append, i1, phi_mono hm]; simp [sumL]
    · intro x hx
      simp only [monos, List.mem_append, List.mem_singleton] at hx
      rcases hx with hx | rfl
      · exact i2 x hx
      · exact hm
    · intro x hx
      simp only [monos, List.mem_append, List.mem_singleton] at hx
      rcases hx with hx | rfl
      · exact Or.inr (hlt x hx)
      · exact Or.inl rfl
    · simp only [monos]
      rw [List.pairwise_append]
      exact ⟨i4, List.pairwise_singleton _ _, fun a ha b hb => by
        simp only [List.mem_singleton] at hb; subst hb; exact hlt a ha⟩
  | atom i s =>
    intro h
    have hm : isMono one (.atom i s) = true := by simpa [isPoly] using h
    exact ⟨by simp [monos, sumL, phi_mono hm], by simp [monos, hm], by simp [monos, lastMono], by simp [monos]⟩
  | num n =>
    intro h
    have hm : isMono one (.num n) = true := by simpa [isPoly] using h
    exact ⟨by simp [monos, sumL, phi_mono hm], by simp [monos, hm], by simp [monos, lastMono], by simp [monos]⟩
  | mul a b _ _ =>
    intro h
    have hm : isMono one (.mul a b) = true := by simpa [isPoly] using h
    exact ⟨by simp [monos, sumL, phi_mono hm], by simp [monos, hm], by simp [monos, lastMono], by simp [monos]⟩
  | suc a _ => intro h; simp [isPoly, isMono, isBody] at h

end Holpy.C10
