import Holpy.C10.ProofsNatInjBody
import Holpy.C10.ProofsNatPoly
/-
C10 — a normal-form tree of `norm_full` is determined by its polynomial.
-/
namespace Holpy.C10
open NExp MvPolynomial

/-- the multivariate polynomial an expression stands for -/
noncomputable def phi : NExp → MvPolynomial ℕ ℤ
  | .atom i _ => X i
  | .num n => C (n : ℤ)
  | .add a b => phi a + phi b
  | .mul a b => phi a * phi b
  | .suc a => phi a + 1

theorem eval_phi (ρ : ℕ → ℤ) (e : NExp) : MvPolynomial.eval ρ (phi e) = evalZ ρ e := by
  induction e with
  | atom i s => simp [phi, evalZ]
  | num n => simp [phi, evalZ]
  | add a b iha ihb => simp [phi, evalZ, iha, ihb]
  | mul a b iha ihb => simp [phi, evalZ, iha, ihb]
  | suc a ih => simp [phi, evalZ, ih]

/-- monomials of a left-nested sum -/
def monos : NExp → List NExp
  | .add p m => monos p ++ [m]
  | t => [t]

noncomputable def kB (m : NExp) : ℕ →₀ ℕ := fsB (destMonomial m)
def cf (m : NExp) : ℤ := ((coeffForm m).2 : ℤ)

theorem phi_body {one : Nat} : ∀ {b : NExp}, isBody one b = true → phi b = monomial (fsB b) 1 := by
  intro b
  induction b with
  | atom i s => intro _; rfl
  | num n => intro h; simp [isBody] at h
  | add u v _ _ => intro h; simp [isBody] at h
  | suc u _ => intro h; simp [isBody] at h
  | mul x y ihx _ =>
    intro hb
    rcases isBody_cases hb with ⟨j, s, he⟩ | ⟨b1, j, s, he, hb1, _⟩
    · cases he
    · cases he
      simp only [phi, fsB, ihx hb1]
      rw [show (X j : MvPolynomial ℕ ℤ) = monomial (Finsupp.single j 1) 1 from rfl, monomial_mul, one_mul]

theorem phi_mono {one : Nat} {m : NExp} (h : isMono one m = true) : phi m = monomial (kB m) (cf m) := by
  rcases isMono_cases h with ⟨n, rfl, _⟩ | ⟨b, c, rfl, hb, _⟩ | hb
  · simp [phi, kB, cf, destMonomial, coeffForm, fsB, C_apply]
  · simp only [phi, kB, cf, destMonomial, coeffForm, phi_body hb]
    rw [C_apply, monomial_mul]; simp
  · have hd : destMonomial m = m ∧ coeffForm m = (m, 1) := by
      rcases isBody_cases hb with ⟨i, s, rfl⟩ | ⟨b1, i, s, rfl, _, _⟩ <;> simp [destMonomial, coeffForm]
    simp only [kB, cf, hd.1, hd.2, phi_body hb]; simp

noncomputable def sumL (l : List NExp) : MvPolynomial ℕ ℤ := (l.map (fun m => monomial (kB m) (cf m))).sum

theorem sumL_append (l1 l2 : List NExp) : sumL (l1 ++ l2) = sumL l1 + sumL l2 := by
  simp [sumL]

theorem lastMono_mem {one : Nat} {s : NExp} (_h : isPoly one s = true) : lastMono s ∈ monos s := by
  cases s <;> simp [lastMono, monos]

/-- facts about the monomial list of a polynomial-shaped tree -/
theorem monos_facts {one : Nat} : ∀ {s : NExp}, isPoly one s = true →
    phi s = sumL (monos s) ∧ (∀ m ∈ monos s, isMono one m = true) ∧
    (∀ m ∈ monos s, m = lastMono s ∨ compareMonomial one m (lastMono s) = .lt) ∧
    (monos s).Pairwise (fun a b => compareMonomial one a b = .lt) := by
  intro s
  induction s with
  | add p m ihp _ =>
    intro h
    simp only [isPoly, Bool.and_eq_true, beq_iff_eq] at h
    obtain ⟨⟨hp, hm⟩, hc⟩ := h
    obtain ⟨i1, i2, i3, i4⟩ := ihp hp
    have hlt : ∀ a ∈ monos p, compareMonomial one a m = .lt := by
      intro a ha
      rcases i3 a ha with e | e
      · rw [e]; exact hc
      · exact fastCmp_trans one _ _ _ (isMono_tree (i2 a ha))
          (isMono_tree (i2 _ (by
            rcases i3 a ha with e' | e'
            · rw [← e']; exact ha
            · exact lastMono_mem hp)))
          (isMono_tree hm) e hc
    refine ⟨?_, ?_, ?_, ?_⟩
    · simp only [phi, monos, sumL_append, i1, phi_mono hm]; simp [sumL]
    · intro x hx
      simp only [monos, List.mem_append, List.mem_singleton] at hx
      rcases hx with hx | rfl
      · exact i2 x hx
      · exact hm
    · intro x hx
      simp only [monos, List.mem_append, List.mem_singleton] at hx
      rcases hx with hx | rfl
      · exact Or.inr (hlt x hx)
      · exact Or.inl rfl
    · simp only [monos]
      rw [List.pairwise_append]
      exact ⟨i4, List.pairwise_singleton _ _, fun a ha b hb => by
        simp only [List.mem_singleton] at hb; subst hb; exact hlt a ha⟩
  | atom i s =>
    intro h
    have hm : isMono one (.atom i s) = true := by simpa [isPoly] using h
    exact ⟨by simp [monos, sumL, phi_mono hm], by simp [monos, hm], by simp [monos, lastMono], by simp [monos]⟩
  | num n =>
    intro h
    have hm : isMono one (.num n) = true := by simpa [isPoly] using h
    exact ⟨by simp [monos, sumL, phi_mono hm], by simp [monos, hm], by simp [monos, lastMono], by simp [monos]⟩
  | mul a b _ _ =>
    intro h
    have hm : isMono one (.mul a b) = true := by simpa [isPoly] using h
    exact ⟨by simp [monos, sumL, phi_mono hm], by simp [monos, hm], by simp [monos, lastMono], by simp [monos]⟩
  | suc a _ => intro h; simp [isPoly, isMono, isBody] at h

theorem coeff_sumL_none (k : ℕ →₀ ℕ) (l : List NExp) (h : ∀ m ∈ l, kB m ≠ k) : coeff k (sumL l) = 0 := by
  induction l with
  | nil => simp [sumL]
  | cons a l ih =>
    have : sumL (a :: l) = monomial (kB a) (cf a) + sumL l := by simp [sumL]
    rw [this, coeff_add, coeff_monomial, if_neg (h a (by simp)), ih (fun m hm => h m (by simp [hm]))]
    simp

theorem coeff_sumL_one (l : List NExp) (hd : l.Pairwise (fun a b => kB a ≠ kB b)) (m0 : NExp) (hm : m0 ∈ l) :
    coeff (kB m0) (sumL l) = cf m0 := by
  induction l with
  | nil => cases hm
  | cons a l ih =>
    have hs : sumL (a :: l) = monomial (kB a) (cf a) + sumL l := by simp [sumL]
    have hp := List.pairwise_cons.1 hd
    rw [hs, coeff_add, coeff_monomial]
    rcases List.mem_cons.1 hm with rfl | hm'
    · rw [if_pos rfl, coeff_sumL_none _ l (fun m hm2 e => hp.1 m hm2 e.symm)]; simp
    · rw [if_neg (hp.1 m0 hm'), ih hp.2 hm']; simp

theorem wfS_dest (sh : Nat → Shape) (m : NExp) (h : wfS sh m = true) : wfS sh (destMonomial m) = true := by
  unfold destMonomial; split <;> simp_all [wfS]

theorem wfS_monos (sh : Nat → Shape) : ∀ (s : NExp), wfS sh s = true → ∀ m ∈ monos s, wfS sh m = true := by
  intro s
  induction s with
  | add p m ihp _ =>
    intro h x hx
    simp only [wfS, Bool.and_eq_true] at h
    simp only [monos, List.mem_append, List.mem_singleton] at hx
    rcases hx with hx | rfl
    · exact ihp h.1 x hx
    · exact h.2
  | atom i s => intro h x hx; simp only [monos, List.mem_singleton] at hx; subst hx; exact h
  | num n => intro h x hx; simp only [monos, List.mem_singleton] at hx; subst hx; exact h
  | mul a b _ _ => intro h x hx; simp only [monos, List.mem_singleton] at hx; subst hx; exact h
  | suc a _ => intro h x hx; simp only [monos, List.mem_singleton] at hx; subst hx; exact h

theorem fastCmp_self (one : Nat) (x : NExp) : fastCmp one x x = .eq := by
  have := fastCmp_swap one x x
  cases h : fastCmp one x x <;> simp [h, Ordering.swap] at this ⊢

theorem kB_inj {one : Nat} {sh : Nat → Shape} {a b : NExp} (ha : isMono one a = true) (hb : isMono one b = true)
    (wa : wfS sh a = true) (wb : wfS sh b = true) (h : kB a = kB b) : destMonomial a = destMonomial b := by
  unfold kB at h
  rcases (isMono_dest ha).1 with ea | ea <;> rcases (isMono_dest hb).1 with eb | eb
  · rw [ea, eb]
  · exfalso; rw [ea] at h; exact fsB_ne_zero eb (by simpa [fsB] using h.symm)
  · exfalso; rw [eb] at h; exact fsB_ne_zero ea (by simpa [fsB] using h)
  · exact fsB_inj ea eb (wfS_dest sh a wa) (wfS_dest sh b wb) h

theorem kB_ne_of_lt {one : Nat} {sh : Nat → Shape} {a b : NExp} (ha : isMono one a = true) (hb : isMono one b = true)
    (wa : wfS sh a = true) (wb : wfS sh b = true) (h : compareMonomial one a b = .lt) : kB a ≠ kB b := by
  intro e
  have := kB_inj ha hb wa wb e
  unfold compareMonomial at h
  rw [this, fastCmp_self] at h
  cases h

theorem mono_eq {one : Nat} {a b : NExp} (ha : isMono one a = true) (hb : isMono one b = true)
    (hd : destMonomial a = destMonomial b) (hc : cf a = cf b) : a = b := by
  have e1 := (isMono_dest ha).2.2.2
  have e2 := (isMono_dest hb).2.2.2
  have : (coeffForm a).2 = (coeffForm b).2 := by simpa [cf] using hc
  rw [e1, e2, hd, this]

theorem cf_pos {one : Nat} {a : NExp} (ha : isMono one a = true) : cf a ≠ 0 := by
  have := (isMono_dest ha).2.2.1
  simp only [cf]; omega

/-- every monomial of `s` is a monomial of `t` when the two trees stand for the same polynomial -/
theorem monos_subset {one : Nat} {sh : Nat → Shape} {s t : NExp} (hs : isPoly one s = true)
    (ht : isPoly one t = true) (ws : wfS sh s = true) (wt : wfS sh t = true) (h : phi s = phi t) :
    ∀ m ∈ monos s, m ∈ monos t := by
  obtain ⟨s1, s2, _, s4⟩ := monos_facts hs
  obtain ⟨t1, t2, _, t4⟩ := monos_facts ht
  have ds : (monos s).Pairwise (fun a b => kB a ≠ kB b) := by
    refine List.Pairwise.imp_of_mem ?_ s4
    intro a b ha hb hab
    exact kB_ne_of_lt (s2 a ha) (s2 b hb) (wfS_monos sh s ws a ha) (wfS_monos sh s ws b hb) hab
  have dt : (monos t).Pairwise (fun a b => kB a ≠ kB b) := by
    refine List.Pairwise.imp_of_mem ?_ t4
    intro a b ha hb hab
    exact kB_ne_of_lt (t2 a ha) (t2 b hb) (wfS_monos sh t wt a ha) (wfS_monos sh t wt b hb) hab
  intro m hm
  have c1 : coeff (kB m) (phi t) = cf m := by rw [← h, s1]; exact coeff_sumL_one _ ds m hm
  by_cases hex : ∃ m' ∈ monos t, kB m' = kB m
  · obtain ⟨m', hm', hk⟩ := hex
    have c2 : coeff (kB m') (phi t) = cf m' := by rw [t1]; exact coeff_sumL_one _ dt m' hm'
    rw [hk, c1] at c2
    have hd := kB_inj (t2 m' hm') (s2 m hm) (wfS_monos sh t wt m' hm') (wfS_monos sh s ws m hm) hk
    have : m' = m := mono_eq (t2 m' hm') (s2 m hm) hd c2.symm
    rw [← this]; exact hm'
  · exfalso
    have : coeff (kB m) (phi t) = 0 := by
      rw [t1]; exact coeff_sumL_none _ _ (fun m' hm' e => hex ⟨m', hm', e⟩)
    rw [c1] at this
    exact cf_pos (s2 m hm) this

/-- lists that are pairwise related by an asymmetric relation and have the same members are equal -/
theorem pairwise_ext {α : Type} {R : α → α → Prop} (hasym : ∀ a b, R a b → ¬ R b a) :
    ∀ (l1 l2 : List α), l1.Pairwise R → l2.Pairwise R → (∀ x, x ∈ l1 ↔ x ∈ l2) → l1 = l2 := by
  intro l1
  induction l1 with
  | nil =>
    intro l2 _ _ hm
    cases l2 with
    | nil => rfl
    | cons b l2 => exact absurd ((hm b).2 (by simp)) (by simp)
  | cons a l1 ih =>
    intro l2 h1 h2 hm
    cases l2 with
    | nil => exact absurd ((hm a).1 (by simp)) (by simp)
    | cons b l2 =>
      have h1' := List.pairwise_cons.1 h1
      have h2' := List.pairwise_cons.1 h2
      have hab : a = b := by
        have ha : a ∈ b :: l2 := (hm a).1 (by simp)
        have hb : b ∈ a :: l1 := (hm b).2 (by simp)
        rcases List.mem_cons.1 ha with e | ha
        · exact e
        · rcases List.mem_cons.1 hb with e | hb
          · exact e.symm
          · exact absurd (h1'.1 b hb) (hasym _ _ (h2'.1 a ha))
      subst hab
      congr 1
      apply ih l2 h1'.2 h2'.2
      intro x
      constructor
      · intro hx
        rcases List.mem_cons.1 ((hm x).1 (by simp [hx])) with e | hx2
        · subst e; exact absurd (h1'.1 x hx) (hasym _ _ (h1'.1 x hx) |> fun f => fun g => f g)
        · exact hx2
      · intro hx
        rcases List.mem_cons.1 ((hm x).2 (by simp [hx])) with e | hx2
        · subst e; exact absurd (h2'.1 x hx) (hasym _ _ (h2'.1 x hx) |> fun f => fun g => f g)
        · exact hx2

theorem monos_ne_nil (s : NExp) : monos s ≠ [] := by
  cases s <;> simp [monos]

theorem monos_inj : ∀ (s t : NExp), monos s = monos t → s = t := by
  intro s
  induction s with
  | add p m ihp _ =>
    intro t h
    cases t with
    | add p' m' =>
      simp only [monos] at h
      have := List.append_inj' h rfl
      rw [ihp p' this.1]
      simp at this
      rw [this.2]
    | _ =>
      simp only [monos] at h
      have := congrArg List.length h
      have hl := List.length_pos_of_ne_nil (monos_ne_nil p)
      simp only [List.length_append, List.length_singleton, List.length_cons, List.length_nil] at this
      omega
  | atom i s =>
    intro t h
    cases t with
    | add p' m' =>
      simp only [monos] at h
      have := congrArg List.length h
      have hl := List.length_pos_of_ne_nil (monos_ne_nil p')
      simp only [List.length_append, List.length_singleton, List.length_cons, List.length_nil] at this
      omega
    | _ => simpa [monos] using h
  | num n =>
    intro t h
    cases t with
    | add p' m' =>
      simp only [monos] at h
      have := congrArg List.length h
      have hl := List.length_pos_of_ne_nil (monos_ne_nil p')
      simp only [List.length_append, List.length_singleton, List.length_cons, List.length_nil] at this
      omega
    | _ => simpa [monos] using h
  | mul a b _ _ =>
    intro t h
    cases t with
    | add p' m' =>
      simp only [monos] at h
      have := congrArg List.length h
      have hl := List.length_pos_of_ne_nil (monos_ne_nil p')
      simp only [List.length_append, List.length_singleton, List.length_cons, List.length_nil] at this
      omega
    | _ => simpa [monos] using h
  | suc a _ =>
    intro t h
    cases t with
    | add p' m' =>
      simp only [monos] at h
      have := congrArg List.length h
      have hl := List.length_pos_of_ne_nil (monos_ne_nil p')
      simp only [List.length_append, List.length_singleton, List.length_cons, List.length_nil] at this
      omega
    | _ => simpa [monos] using h

/-- Two polynomial-shaped trees that stand for the same polynomial are the same tree. -/
theorem poly_tree_inj {one : Nat} {sh : Nat → Shape} {s t : NExp} (hs : isPoly one s = true)
    (ht : isPoly one t = true) (ws : wfS sh s = true) (wt : wfS sh t = true) (h : phi s = phi t) : s = t := by
  apply monos_inj
  refine pairwise_ext (R := fun a b => compareMonomial one a b = .lt) ?_ _ _
    (monos_facts hs).2.2.2 (monos_facts ht).2.2.2 ?_
  · intro a b hab hba
    have := (fastCmp_lt_iff one _ _).1 hab
    unfold compareMonomial at hba
    rw [this] at hba; cases hba
  · intro x
    exact ⟨monos_subset hs ht ws wt h x, monos_subset ht hs wt ws h.symm x⟩

theorem phi_ne_zero {one : Nat} {sh : Nat → Shape} {t : NExp} (ht : isPoly one t = true)
    (wt : wfS sh t = true) : phi t ≠ 0 := by
  obtain ⟨t1, t2, _, t4⟩ := monos_facts ht
  have dt : (monos t).Pairwise (fun a b => kB a ≠ kB b) := by
    refine List.Pairwise.imp_of_mem ?_ t4
    intro a b ha hb hab
    exact kB_ne_of_lt (t2 a ha) (t2 b hb) (wfS_monos sh t wt a ha) (wfS_monos sh t wt b hb) hab
  intro h0
  have hm := lastMono_mem ht
  have c := coeff_sumL_one _ dt _ hm
  rw [← t1, h0] at c
  exact cf_pos (t2 _ hm) (by simpa using c.symm)

theorem phi_eq_of_toPoly_eq {s t : NExp} (h : Poly.toPoly (emb s) = Poly.toPoly (emb t)) : phi s = phi t := by
  apply MvPolynomial.funext
  intro ρ
  rw [eval_phi, eval_phi, ← evalE_emb, ← evalE_emb, ← Poly.evalPoly_toPoly, ← Poly.evalPoly_toPoly, h]

/-- Two normal forms with the same polynomial are the same tree. -/
theorem nf_inj {one : Nat} {sh : Nat → Shape} {s t : NExp} (hs : isNF one s = true) (ht : isNF one t = true)
    (ws : wfS sh s = true) (wt : wfS sh t = true)
    (h : Poly.toPoly (emb s) = Poly.toPoly (emb t)) : s = t := by
  have hp := phi_eq_of_toPoly_eq h
  simp only [isNF, Bool.or_eq_true, beq_iff_eq] at hs ht
  rcases hs with rfl | hs <;> rcases ht with rfl | ht
  · rfl
  · exfalso; exact phi_ne_zero ht wt (by rw [← hp]; simp [phi])
  · exfalso; exact phi_ne_zero hs ws (by rw [hp]; simp [phi])
  · exact poly_tree_inj hs ht ws wt hp

/-- Canonicity of `norm_full`: same polynomial ⇒ identical normal form. -/
theorem norm_eq_of_toPoly_eq {one : Nat} {sh : Nat → Shape} {a b : NExp} (wa : wfS sh a = true)
    (wb : wfS sh b = true) (h : Poly.toPoly (emb a) = Poly.toPoly (emb b)) : norm one a = norm one b :=
  nf_inj (norm_isNF one a) (norm_isNF one b) (wfS_norm sh one a wa) (wfS_norm sh one b wb)
    (by rw [toPoly_emb_norm, toPoly_emb_norm, h])

end Holpy.C10
