import Holpy.C06.Proofs7
/-
C06 — soundness of `solve` for every HOL valuation, given that the solver's `unsat` is right.
-/
namespace Holpy.C06

variable {K : Type} {N : Num K} {Q : Quant K}
variable {vars : List (String × Ty)}

theorem inv_init (vars : List (String × Ty)) :
    Inv vars [] { varNames := vars.map (·.1), assms := [], toReal := [] } :=
  ⟨fun p hp => List.mem_map.mpr ⟨p, hp, rfl⟩, fun _ h => by simp at h, fun _ h => by simp at h,
   fun _ h => by simp at h,
   ⟨fun _ h => by simp at h, by simp, fun _ h => by simp at h, fun _ h => by simp at h⟩⟩

theorem convert_inv {t : H} {st st' : St} {res : Except Err R} (hs : t.scoped vars = true)
    (hi : Inv vars [] st) (h : convert t st = (res, st')) :
    Inv vars [] st' ∧ ∀ r, res = .ok r → ZGood vars [] st' r.toZ := by
  obtain ⟨i, _, p⟩ := conv_keeps (vars := vars) t [] hs st res st' h hi
  exact ⟨i, fun r hr => p r hr⟩

theorem solveCoreAux_inv : ∀ (As : List H) (st : St) (acc acc' : List Z) (st' : St),
    (∀ A ∈ As, A.scoped vars = true) → Inv vars [] st → solveCoreAux As st acc = .ok (acc', st') →
    Inv vars [] st' := by
  intro As
  induction As with
  | nil =>
    intro st acc acc' st' _ hi h
    simp only [solveCoreAux, Except.ok.injEq, Prod.mk.injEq] at h
    obtain ⟨_, rfl⟩ := h
    exact hi
  | cons A rest ih =>
    intro st acc acc' st' hs hi h
    simp only [solveCoreAux] at h
    have hA := hs A List.mem_cons_self
    have hrest : ∀ B ∈ rest, B.scoped vars = true := fun B hB => hs B (List.mem_cons_of_mem _ hB)
    split at h
    · rename_i r st1 hc
      split at h
      · exact ih _ _ _ _ hrest (convert_inv hA hi hc).1 h
      · simp at h
    · rename_i st1 hc
      exact ih _ _ _ _ hrest (convert_inv hA hi hc).1 h
    · simp at h

/-- The final tables of every successful run of `solve_core` meet `FinalOk`. -/
theorem solveCoreFull_finalOk {As : List H} {C : H} {zs : List Z} {st' : St}
    (hAs : ∀ A ∈ As, A.scoped vars = true) (hC : C.scoped vars = true)
    (h : solveCoreFull vars As C = .ok (zs, st')) : FinalOk vars st' := by
  unfold solveCoreFull at h
  simp only at h
  split at h
  · simp at h
  · split at h
    · simp at h
    · rename_i acc st haux
      have hi := solveCoreAux_inv (vars := vars) As _ [] acc st hAs (inv_init vars) haux
      split at h
      · rename_i r st1 hc
        split at h
        · simp only [Except.ok.injEq, Prod.mk.injEq] at h
          obtain ⟨_, rfl⟩ := h
          exact (convert_inv hC hi hc).1.fin
        · simp at h
      · rename_i st1 hc
        simp only [Except.ok.injEq, Prod.mk.injEq] at h
        obtain ⟨_, rfl⟩ := h
        exact (convert_inv hC hi hc).1.fin
      · simp at h

/-- The assumption about the external solver: when it answers `unsat`, no interpretation of the
SMT fragment (any x / 0, any constants, any function symbols) satisfies all assertions. -/
def Z3Correct (N : Num K) (Q : Quant K) (S : Solver) : Prop :=
  ∀ zs, S.check zs = true → ∀ (div0 : K → K) (σ : String → Val K) (F : String → Val K → Val K),
    ¬ ∀ z ∈ zs, HoldsZ N Q div0 σ F z

theorem solve_sound_core (hQ : Compat N Q)
    (hcast : ∀ n : Int, 0 ≤ n → N.le (N.ofRat 0) (N.ofInt n) = true)
    (S : Solver) (hS : Z3Correct N Q S) (As : List H) (C : H)
    (hAs : ∀ A ∈ As, A.scoped vars = true) (hC : C.scoped vars = true)
    (hacc : solve S vars As C = true)
    (O : Oracle K) (σ : String → Val K) (F : String → Val K → Val K) (hadm : Admissible vars σ)
    (hprem : ∀ A ∈ As, HoldsH N Q O σ F A) : HoldsH N Q O σ F C := by
  unfold solve at hacc
  cases hsc : solveCore vars As C with
  | error e => simp [hsc] at hacc
  | ok zs =>
    simp only [hsc] at hacc
    unfold solveCore at hsc
    cases hf : solveCoreFull vars As C with
    | error e => simp [hf, Except.map] at hsc
    | ok p =>
      obtain ⟨zs', st'⟩ := p
      simp only [hf, Except.map, Except.ok.injEq] at hsc
      subst hsc
      have hfin := solveCoreFull_finalOk hAs hC hf
      have hag := extendVal_agree (N := N) hfin σ
      have key := fun (t : H) (ht : t.scoped vars = true) =>
        evalH_congr (N := N) (Q := Q) (F := F) (O := O) vars σ (extendVal N vars st' σ) hag t ht []
      apply Classical.byContradiction
      intro hnC
      refine hS _ hacc (div0H N) (extendVal N vars st' σ) F
        (solveCore_countermodel (O := O) hQ hf (extendVal_trok hfin σ) (extendVal_side hfin σ hadm hcast) ?_ ?_)
      · intro A hA
        unfold HoldsH
        rw [← key A (hAs A hA)]
        exact hprem A hA
      · unfold HoldsH
        rw [← key C hC]
        exact hnC

end Holpy.C06
