import Holpy.Common.Sexp
import Holpy.C06.Model
/-
Line protocol of the C06 model (one s-expression in, one out):
  (solve VARS (A ...) C)   -> (ok Z ...) | (error z3exc|crash)      assertion list of solve_core
  (convert VARS T)         -> (ok Z (Z ...)) | (error E (Z ...))    result and the assms table
  (sguards SE) -> (GUARD ...)   sympyGuards;   (nocapture VARS (A ...) C) -> T|F|(error E)
  (sgoal neq DIVOK NZ) | (sgoal eq DIVOK NA NB) | (sgoal rel DIVOK TRUE)   -> T|F   solveGoal
  (sinterval neq|rel|eq (FLAG ...) MAIN)                                   -> T|F   solveWithInterval
VARS = ((name TY) ...) free variables in `term.get_vars` order (function variables included).
TY = bool | nat | int | real | (tv a) | fun;  H / Z terms: see `hOf` / `zTo`.
-/
open Holpy Holpy.C06

namespace Holpy.C06.Driver

def tyOf : Sexp → Option Ty
  | .atom "bool" => some .bool | .atom "nat" => some .nat | .atom "int" => some .int
  | .atom "real" => some .real | .atom "fun" => some (.tv "%fun")
  | .list [.atom "tv", .atom n] => some (.tv n)
  | _ => none

partial def hOf : Sexp → Option H
  | .atom "tt" => some .tt | .atom "ff" => some .ff
  | .atom "eqfun" => some (.eqFun 0) | .atom "unsup" => some (.unsup 0)
  | .list [.atom "eqfun", k] => do some (.eqFun (← k.toNat?))
  | .list [.atom "unsup", k] => do some (.unsup (← k.toNat?))
  | .list [.atom "var", .atom x, T] => do some (.var x (← tyOf T))
  | .list [.atom "bv", i] => do some (.bv (← i.toNat?))
  | .list [.atom "num", T, p, q] => do
      let p ← p.toInt?; let q ← q.toNat?
      some (.num (← tyOf T) (mkRat p q))
  | .list [.atom "not", a] => do some (.not (← hOf a))
  | .list [.atom "neg", n, a] => do some (.neg (← n.toBool?) (← hOf a))
  | .list [.atom "ofnat", a] => do some (.ofNat (← hOf a))
  | .list [.atom "ofnatvar", .atom x] => some (.ofNatVar x)
  | .list [.atom "abs", r, a] => do some (.abs (← r.toBool?) (← hOf a))
  | .list [.atom "sub", n, a, b] => do some (.sub (← n.toBool?) (← hOf a) (← hOf b))
  | .list [.atom "ite", c, a, b] => do some (.ite (← hOf c) (← hOf a) (← hOf b))
  | .list [.atom "all", .atom x, T, b] => do some (.all x (← tyOf T) (← hOf b))
  | .list [.atom "ex", .atom x, T, b] => do some (.ex x (← tyOf T) (← hOf b))
  | .list [.atom "app", .atom f, d, c, a] => do some (.app f (← tyOf d) (← tyOf c) (← hOf a))
  | .list [.atom "mem", a, .atom S, d] => do some (.mem (← hOf a) S (← tyOf d))
  | .list [.atom op, a, b] => do
      let a ← hOf a; let b ← hOf b
      match op with
      | "and" => some (.and a b) | "or" => some (.or a b) | "imp" => some (.imp a b)
      | "xor" => some (.xor a b) | "eq" => some (.eq a b) | "add" => some (.add a b)
      | "mul" => some (.mul a b) | "div" => some (.div a b) | "le" => some (.le a b)
      | "lt" => some (.lt a b) | "ge" => some (.ge a b) | "gt" => some (.gt a b)
      | "max" => some (.max a b) | "min" => some (.min a b)
      | _ => none
  | _ => none

def srtTo : Srt → Sexp
  | .bool => .atom "Bool" | .int => .atom "Int" | .real => .atom "Real"
  | .u n => .list [.atom "U", .atom n]

partial def zTo : Z → Sexp
  | .bconst b => .list [.atom "b", Sexp.ofBool b]
  | .ilit n => .list [.atom "i", Sexp.ofInt n]
  | .rlit q => .list [.atom "r", Sexp.ofInt q.num, Sexp.ofNat q.den]
  | .const x s => .list [.atom "const", .atom x, srtTo s]
  | .bv i _ => .list [.atom "bv", Sexp.ofNat i]
  | .not a => .list [.atom "not", zTo a]
  | .and a b => .list [.atom "and", zTo a, zTo b]
  | .or a b => .list [.atom "or", zTo a, zTo b]
  | .imp a b => .list [.atom "imp", zTo a, zTo b]
  | .eq a b => .list [.atom "eq", zTo a, zTo b]
  | .ite c a b => .list [.atom "ite", zTo c, zTo a, zTo b]
  | .add a b => .list [.atom "add", zTo a, zTo b]
  | .sub a b => .list [.atom "sub", zTo a, zTo b]
  | .mul a b => .list [.atom "mul", zTo a, zTo b]
  | .div a b => .list [.atom "div", zTo a, zTo b]
  | .neg a => .list [.atom "neg", zTo a]
  | .le a b => .list [.atom "le", zTo a, zTo b]
  | .lt a b => .list [.atom "lt", zTo a, zTo b]
  | .ge a b => .list [.atom "ge", zTo a, zTo b]
  | .gt a b => .list [.atom "gt", zTo a, zTo b]
  | .toReal a => .list [.atom "to_real", zTo a]
  | .app f d c a => .list [.atom "app", .atom f, srtTo d, srtTo c, zTo a]
  | .all _ s b => .list [.atom "forall", srtTo s, zTo b]
  | .ex _ s b => .list [.atom "exists", srtTo s, zTo b]

def cmpOf : String → Option Cmp
  | "le" => some .le | "lt" => some .lt | "ge" => some .ge | "gt" => some .gt | _ => none

partial def seOf : Sexp → Option SE
  | .list [.atom "var", .atom x] => some (.var x)
  | .list [.atom "num", p, q] => do some (.num (mkRat (← p.toInt?) (← q.toNat?)))
  | .list [.atom "npow", a, n] => do some (.npow (← seOf a) (← n.toNat?))
  | .list [.atom "rel", .atom op, a, b] => do some (.rel (← cmpOf op) (← seOf a) (← seOf b))
  | .list [.atom op, a] => do
      let a ← seOf a
      match op with
      | "neg" => some (.neg a) | "abs" => some (.abs a) | "sqrt" => some (.sqrt a) | "log" => some (.log a)
      | "exp" => some (.exp a) | "sin" => some (.sin a) | "cos" => some (.cos a) | "tan" => some (.tan a)
      | "cot" => some (.cot a) | "sec" => some (.sec a) | "csc" => some (.csc a) | "not" => some (.not a)
      | _ => none
  | .list [.atom op, a, b] => do
      let a ← seOf a; let b ← seOf b
      match op with
      | "add" => some (.add a b) | "sub" => some (.sub a b) | "mul" => some (.mul a b) | "div" => some (.div a b)
      | "rpow" => some (.rpow a b) | "eqn" => some (.eqn a b)
      | _ => none
  | _ => none

def cmpTo : Cmp → String | .le => "le" | .lt => "lt" | .ge => "ge" | .gt => "gt"

partial def seTo : SE → Sexp
  | .var x => .list [.atom "var", .atom x]
  | .num q => .list [.atom "num", Sexp.ofInt q.num, Sexp.ofNat q.den]
  | .add a b => .list [.atom "add", seTo a, seTo b] | .sub a b => .list [.atom "sub", seTo a, seTo b]
  | .mul a b => .list [.atom "mul", seTo a, seTo b] | .div a b => .list [.atom "div", seTo a, seTo b]
  | .neg a => .list [.atom "neg", seTo a] | .abs a => .list [.atom "abs", seTo a]
  | .npow a n => .list [.atom "npow", seTo a, Sexp.ofNat n] | .rpow a b => .list [.atom "rpow", seTo a, seTo b]
  | .sqrt a => .list [.atom "sqrt", seTo a] | .log a => .list [.atom "log", seTo a] | .exp a => .list [.atom "exp", seTo a]
  | .sin a => .list [.atom "sin", seTo a] | .cos a => .list [.atom "cos", seTo a] | .tan a => .list [.atom "tan", seTo a]
  | .cot a => .list [.atom "cot", seTo a] | .sec a => .list [.atom "sec", seTo a] | .csc a => .list [.atom "csc", seTo a]
  | .rel op a b => .list [.atom "rel", .atom (cmpTo op), seTo a, seTo b]
  | .eqn a b => .list [.atom "eqn", seTo a, seTo b] | .not a => .list [.atom "not", seTo a]

def guardTo : Guard → Sexp
  | .nonzero e => .list [.atom "nonzero", seTo e]
  | .nonneg e => .list [.atom "nonneg", seTo e]
  | .pos e => .list [.atom "pos", seTo e]

def varsOf (s : Sexp) : Option (List (String × Ty)) := do
  (← s.toList?).mapM fun
    | .list [.atom x, T] => do some (x, (← tyOf T))
    | _ => none

def errTo : Err → Sexp
  | .z3exc => .atom "z3exc" | .crash => .atom "crash"

def handle (line : String) : String :=
  match Sexp.parse line with
  | some (.list [.atom "solve", vars, .list as, c]) =>
    match varsOf vars, as.mapM hOf, hOf c with
    | some vs, some As, some C =>
      match solveCore vs As C with
      | .ok zs => toString (Sexp.list (.atom "ok" :: zs.map zTo))
      | .error e => toString (Sexp.list [.atom "error", errTo e])
    | _, _, _ => "bad-op"
  | some (.list [.atom "convert", vars, t]) =>
    match varsOf vars, hOf t with
    | some vs, some t =>
      match convert t { varNames := vs.map (·.1), assms := [], toReal := [] } with
      | (.ok r, st) => toString (Sexp.list [.atom "ok", zTo r.toZ, .list (st.assms.map (zTo ·.2))])
      | (.error e, st) => toString (Sexp.list [.atom "error", errTo e, .list (st.assms.map (zTo ·.2))])
    | _, _ => "bad-op"
  | some (.list [.atom "sguards", e]) =>
    match seOf e with
    | some e => toString (Sexp.list ((sympyGuards e).map guardTo))
    | none => "bad-op"
  | some (.list [.atom "nocapture", vars, .list as, c]) =>
    -- solveCoreFull, then: are all assertions capture-free and do the final tables meet the checks?
    match varsOf vars, as.mapM hOf, hOf c with
    | some vs, some As, some C =>
      match solveCoreFull vs As C with
      | .ok (zs, _) => toString (Sexp.ofBool (zs.all (fun z => z.noCapture [])))
      | .error e => toString (Sexp.list [.atom "error", errTo e])
    | _, _, _ => "bad-op"
  | some (.list [.atom "sgoal", .atom "neq", dk, nz]) =>
    -- decision logic of solve_goal on ¬(a = b): E := Int, norm := id, the difference is nonzero iff NZ
    match dk.toBool?, nz.toBool? with
    | some dk, some nz =>
      toString (Sexp.ofBool (solveGoal (E := Int) id (· - ·) dk (fun d => d != 0) (fun _ => false) (.neq (if nz then 1 else 0) 0)))
    | _, _ => "bad-op"
  | some (.list [.atom "sgoal", .atom "eq", dk, na, nb]) =>
    match dk.toBool?, na.toInt?, nb.toInt? with
    | some dk, some na, some nb =>
      toString (Sexp.ofBool (solveGoal (E := Int) id (· - ·) dk (fun _ => false) (fun _ => false) (.eq na nb)))
    | _, _, _ => "bad-op"
  | some (.list [.atom "sgoal", .atom "rel", dk, tr]) =>
    match dk.toBool?, tr.toBool? with
    | some dk, some tr =>
      toString (Sexp.ofBool (solveGoal (E := Int) id (· - ·) dk (fun _ => false) (fun r => r == 1) (.rel (if tr then 1 else 0))))
    | _, _ => "bad-op"
  | some (.list [.atom "sinterval", .atom kind, .list flags, main]) =>
    -- solve_with_interval: divisors / domain conditions numbered 1.., their checks given as flags; 0 is the main query
    match flags.mapM Sexp.toBool?, main.toBool? with
    | some fl, some mn =>
      let zf : Int → Bool := fun d => if d == 0 then mn else (fl.getD (d.toNat - 1) false)
      let divs : List Int := (List.range fl.length).map (fun (i : Nat) => Int.ofNat i + 1)
      let g : Option (SGoal Int) := match kind with
        | "neq" => some (.neq 0 0) | "rel" => some (.rel 0) | "eq" => some (.eq 0 0) | _ => none
      match g with
      | some g => toString (Sexp.ofBool (solveWithInterval (E := Int) id (· - ·) divs zf zf g))
      | none => "bad-op"
    | _, _ => "bad-op"
  | _ => "bad-op"

end Holpy.C06.Driver

def main : IO Unit := Holpy.lineLoop Holpy.C06.Driver.handle
