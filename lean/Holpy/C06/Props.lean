import Holpy.C06.Model
import Holpy.C06.Gen
import Holpy.C06.Proofs8
import Holpy.C06.ProofsNorm
/-
C06 — property theorems (statements here, lemmas in Proofs*.lean).  They are about the model of
`prover/z3wrapper.py` / `prover/sympywrapper.py` WITH fixes/C06-*.patch, for every field `K`
interpreting `real` (`N : Num K`, no axioms on the operations are needed: both semantics use the
same operations), every interpretation of variables `σ`, function/set variables `F`, and every
pair of quantifier ranges `Q` linked by `Compat` (which `relativise_nat_binders` derives from the
standard meaning of the quantifiers).
-/
namespace Holpy.C06

open Classical in
/-- the standard quantifier ranges over an arbitrary carrier `U a` for each type variable -/
noncomputable def stdQuant (K : Type) (U : String → Nat → Prop) : Quant K where
  allH
    | .nat, p => decide (∀ n : Nat, p (.i n) = true)
    | .int, p => decide (∀ n : Int, p (.i n) = true)
    | .real, p => decide (∀ x : K, p (.r x) = true)
    | .bool, p => decide (∀ b : Bool, p (.b b) = true)
    | .tv a, p => decide (∀ k, U a k → p (.u k) = true)
  exH
    | .nat, p => decide (∃ n : Nat, p (.i n) = true)
    | .int, p => decide (∃ n : Int, p (.i n) = true)
    | .real, p => decide (∃ x : K, p (.r x) = true)
    | .bool, p => decide (∃ b : Bool, p (.b b) = true)
    | .tv a, p => decide (∃ k, U a k ∧ p (.u k) = true)
  allZ
    | .int, p => decide (∀ n : Int, p (.i n) = true)
    | .real, p => decide (∀ x : K, p (.r x) = true)
    | .bool, p => decide (∀ b : Bool, p (.b b) = true)
    | .u a, p => decide (∀ k, U a k → p (.u k) = true)
  exZ
    | .int, p => decide (∃ n : Int, p (.i n) = true)
    | .real, p => decide (∃ x : K, p (.r x) = true)
    | .bool, p => decide (∃ b : Bool, p (.b b) = true)
    | .u a, p => decide (∃ k, U a k ∧ p (.u k) = true)

/-- (bookkeeping, not a property of the code) the quantifier ranges `stdQuant` are the standard ones -/
theorem stdQuant_std (K : Type) (U : String → Nat → Prop) : Std (stdQuant K U) U := by
  constructor <;> intros <;> simp [stdQuant]

/-- Relativisation of nat binders: with the standard meaning of the quantifiers (HOL's
`∀x::nat` ranges over ℕ, Z3's `∀x:Int` over ℤ), `∀x::nat. P` is `∀x:Int. x ≥ 0 → P` and
`∃x::nat. P` is `∃x:Int. x ≥ 0 ∧ P`; binders of the other base types keep their range. -/
theorem relativise_nat_binders {K : Type} (N : Num K) (Q : Quant K) (U : String → Nat → Prop)
    (h : Std Q U) : Compat N Q := std_compat N Q h

example : Compat ratNum (stdQuant Rat (fun _ k => k < 2)) :=
  relativise_nat_binders _ _ _ (stdQuant_std _ _)

/-- `convert` preserves meaning: whenever it succeeds, the Z3 term means (with x / 0 read as HOL
reads it, one of the interpretations Z3 may choose) exactly what the HOL term means — equality of
values, hence implication in both directions at every polarity, quantifiers included — under every
valuation that reads each auxiliary constant `rx` as `of_nat x` (`TROk`). -/
theorem convert_refines {K : Type} (N : Num K) (Q : Quant K) (hQ : Compat N Q)
    (O : Oracle K) (σ : String → Val K) (F : String → Val K → Val K) (t : H) (st st' : St) (r : R)
    (h : convert t st = (.ok r, st')) (hσ : TROk N σ st') :
    evalZ N Q (div0H N) σ F [] r.toZ = evalH N Q O σ F [] t :=
  convert_sound hQ h hσ

/-- ∀n::nat. (n - x) + x ≥ n ∧ of_nat y ≥ 0  (binder, truncated subtraction, of_nat of a free variable) -/
def exTerm : H :=
  .all "n" .nat (.and (.ge (.add (.sub true (.bv 0) (.var "x" .nat)) (.var "x" .nat)) (.bv 0))
                      (.ge (.ofNatVar "y") (.num .real 0)))
def exSt : St := { varNames := ["x", "y"], assms := [], toReal := [] }

example : ∃ r st', convert exTerm exSt = (.ok r, st') ∧ st'.toReal = [("y", "ry")] := ⟨_, _, rfl, rfl⟩
example (O : Oracle Rat) (σ : String → Val Rat) (F) (hσ : σ "ry" = vtoReal ratNum (σ "y")) (r : R) (st' : St)
    (h : convert exTerm exSt = (.ok r, st')) :
    evalZ ratNum (stdQuant Rat (fun _ _ => True)) (div0H ratNum) σ F [] r.toZ
      = evalH ratNum (stdQuant Rat (fun _ _ => True)) O σ F [] exTerm := by
  refine convert_refines ratNum _ (relativise_nat_binders _ _ _ (stdQuant_std _ _)) O σ F exTerm exSt st' r h ?_
  have hst : st'.toReal = [("y", "ry")] :=
    (congrArg (fun p => p.2.toReal) h).symm.trans (rfl : (convert exTerm exSt).2.toReal = [("y", "ry")])
  intro x rx hx
  rw [hst] at hx
  simp only [lookup] at hx
  split at hx
  · rename_i hxy
    simp only [Option.some.injEq] at hx
    have : x = "y" := by simpa using hxy
    subst this; subst hx; exact hσ
  · simp at hx

/-- (superseded by `solve_sound`; kept as the pinned intermediate statement) Soundness of `solve` (partial: see below).  If Z3 is right that the assertion set built by
`solve_core` is unsatisfiable (for every interpretation of x / 0, of the constants and of the
function symbols), then under every valuation the premises imply the conclusion in HOL —
including the cases where premises or the conclusion were untranslatable and dropped (their HOL
values are given by the oracle `O`, arbitrary: the proof never looks at them).
PARTIAL: the valuation is assumed to read the auxiliary constants as intended (`TROk`: rx is
`of_nat x`) and to satisfy the recorded side assertions (`x ≥ 0` for nat variables and generated
names).  Missing in Lean: that every HOL valuation (nat variables ≥ 0) extends to such a
valuation, i.e. that the generated names are fresh; the names are tied by the correspondence
check only. -/
theorem solve_sound_partial {K : Type} (N : Num K) (Q : Quant K) (hQ : Compat N Q)
    (vars : List (String × Ty)) (As : List H) (C : H) (zs : List Z) (st' : St)
    (h : solveCoreFull vars As C = .ok (zs, st'))
    (unsat : ∀ (div0 : K → K) (σ : String → Val K) (F : String → Val K → Val K),
      ¬ ∀ z ∈ zs, HoldsZ N Q div0 σ F z)
    (O : Oracle K) (σ : String → Val K) (F : String → Val K → Val K)
    (hσ : TROk N σ st') (hside : ∀ p ∈ st'.assms, HoldsZ N Q (div0H N) σ F p.2)
    (hAs : ∀ A ∈ As, HoldsH N Q O σ F A) : HoldsH N Q O σ F C := by
  apply Classical.byContradiction
  intro hC
  exact unsat (div0H N) σ F (solveCore_countermodel hQ h hσ hside hAs hC)

/-- x ≥ y ⟹ x - y + y = x on nat: three assertions plus the two side assertions -/
example : ∃ zs st', solveCoreFull [("x", .nat), ("y", .nat)] [.ge (.var "x" .nat) (.var "y" .nat)]
    (.eq (.add (.sub true (.var "x" .nat) (.var "y" .nat)) (.var "y" .nat)) (.var "x" .nat)) = .ok (zs, st')
    ∧ zs.length = 4 := ⟨_, _, rfl, rfl⟩

/-- The hypotheses of `solve_sound_partial` are satisfiable together with an untranslatable
(dropped) premise that holds: goal `P ⟶ x ≥ 1 ⟶ x - 1 + 1 = x` (x :: nat, P outside the fragment),
x = 1, oracle value of P true. -/
def exAs : List H := [.unsup 0, .ge (.var "x" .nat) (.num .nat 1)]
def exC : H := .eq (.add (.sub true (.var "x" .nat) (.num .nat 1)) (.num .nat 1)) (.var "x" .nat)
def exσ : String → Val Rat := fun _ => .i 1
def exO : Oracle Rat := ⟨fun _ => .b true, fun v => v⟩

example (Q : Quant Rat) : ∃ zs st', solveCoreFull [("x", .nat)] exAs exC = .ok (zs, st')
    ∧ zs.length = 3 ∧ TROk ratNum exσ st'
    ∧ (∀ p ∈ st'.assms, HoldsZ ratNum Q (div0H ratNum) exσ (fun _ v => v) p.2)
    ∧ (∀ A ∈ exAs, HoldsH ratNum Q exO exσ (fun _ v => v) A)
    ∧ HoldsH ratNum Q exO exσ (fun _ v => v) exC := by
  refine ⟨_, _, rfl, rfl, ?_, ?_, ?_, ?_⟩
  · intro x rx hx; simp [lookup] at hx
  · intro p hp
    have hst : ∀ (st' : St), st'.assms = [("x", Z.ge (.const "x" .int) (.ilit 0))] → p ∈ st'.assms →
        HoldsZ ratNum Q (div0H ratNum) exσ (fun _ v => v) p.2 := by
      intro st' h1 h2; rw [h1] at h2; simp only [List.mem_singleton] at h2; subst h2; rfl
    exact hst _ rfl hp
  · intro A hA
    simp only [exAs, List.mem_cons, List.mem_nil_iff, or_false] at hA
    rcases hA with rfl | rfl <;> rfl
  · rfl

/-- The names `convert` generates are fresh.  Starting from tables satisfying the invariant `Inv`
(as `solve_core`'s initial tables do: `inv_init`), on a term whose free variables are declared in
`vars`: the invariant is kept — auxiliary reals `rx` differ from each other and from every declared
name, each recorded `k ≥ 0` is about a declared nat variable, a binder name that is neither declared
nor an auxiliary real, or an auxiliary real — and the result is capture-free (`noCapture`: every
binder's name differs from the names of the enclosing binders and from every constant in its body,
so z3py's abstraction of the named constant binds exactly the intended occurrences) with only
declared variables and auxiliary reals as constants.  (The seeded changes C06-m1/m3 break exactly
this.)  The bounded search of `variantName` fails instead of returning a used name. -/
theorem convert_names_fresh (vars : List (String × Ty)) (t : H) (st st' : St) (res : Except Err R)
    (hs : t.scoped vars = true) (hi : Inv vars [] st) (h : convert t st = (res, st')) :
    Inv vars [] st' ∧ ∀ r, res = .ok r →
      r.toZ.noCapture [] = true ∧ ∀ c ∈ r.toZ.constNames, c ∈ vars.map (·.1) ∨ c ∈ st'.toReal.map (·.2) :=
  convert_inv hs hi h

/-- ?x::nat. !x::nat. B0 ≤ B1 with the free variable x declared: the binders get x1 and x2 -/
example : ∃ r st', convert (.ex "x" .nat (.all "x" .nat (.le (.bv 0) (.bv 1))))
      { varNames := ["x"], assms := [], toReal := [] } = (.ok r, st')
    ∧ r.toZ.noCapture [] = true ∧ st'.varNames = ["x", "x1", "x2"] := ⟨_, _, rfl, rfl, rfl⟩

/-- Soundness of `solve`, under the single assumption that the solver's `unsat` is right
(`Z3Correct`).  If `solve` returns True for premises As and conclusion C whose free variables are
the declared `vars`, then in every standard model — any field K with its order for `real` (the
only law used: of_nat n ≥ 0), the standard quantifier ranges over any carriers `U` for the type
variables, any interpretation σ of the variables with nat variables in ℕ, F of the function and set
variables, O of untranslatable subterms and of uminus on nat — the premises imply the conclusion. -/
theorem solve_sound {K : Type} (N : Num K) (Q : Quant K) (U : String → Nat → Prop) (hQ : Std Q U)
    (hcast : ∀ n : Int, 0 ≤ n → N.le (N.ofRat 0) (N.ofInt n) = true)
    (S : Solver) (hS : Z3Correct N Q S)
    (vars : List (String × Ty)) (As : List H) (C : H)
    (hAs : ∀ A ∈ As, A.scoped vars = true) (hC : C.scoped vars = true)
    (hacc : solve S vars As C = true)
    (O : Oracle K) (σ : String → Val K) (F : String → Val K → Val K) (hadm : Admissible vars σ)
    (hprem : ∀ A ∈ As, HoldsH N Q O σ F A) : HoldsH N Q O σ F C :=
  solve_sound_core (relativise_nat_binders N Q U hQ) hcast S hS As C hAs hC hacc O σ F hadm hprem

/-- a solver that refuses everything is correct; so is, for this goal, one that says `unsat`:
the hypotheses are jointly satisfiable and the theorem applies to a concrete accepted goal -/
example : Z3Correct ratNum (stdQuant Rat (fun _ _ => True)) ⟨fun _ => false⟩ := by
  intro zs h; simp at h

example : exC.scoped [("x", .nat)] = true ∧ (∀ A ∈ exAs, A.scoped [("x", .nat)] = true)
    ∧ Admissible [("x", .nat)] exσ
    ∧ solve ⟨fun zs => zs.length == 3⟩ [("x", .nat)] exAs exC = true := by
  refine ⟨rfl, ?_, ?_, rfl⟩
  · intro A hA
    simp only [exAs, List.mem_cons, List.mem_nil_iff, or_false] at hA
    rcases hA with rfl | rfl <;> rfl
  · intro x hx
    exact ⟨1, by decide, rfl⟩

/-- (restatement of the definition, kept as a pin) An untranslatable conclusion is never counted as proved: nothing is negated, so the goal is
accepted only if the translated premises are unsatisfiable by themselves. -/
theorem untranslatable_conclusion_not_negated (vars : List (String × Ty)) (As : List H) (st st' : St)
    (acc : List Z) (C : H)
    (hnd : hasDup (vars.map (·.1)) = false)
    (haux : solveCoreAux As { varNames := vars.map (·.1), assms := [], toReal := [] } [] = .ok (acc, st))
    (hC : convert C st = (.error .z3exc, st')) :
    solveCoreFull vars As C = .ok (acc ++ st'.assms.map (·.2), st') := by
  unfold solveCoreFull
  simp only [hnd, haux, hC]
  rfl

example : solveCore [("i", .int)] [] (.unsup 0) = .ok [] := rfl

/-- Goals with two variables of one name are refused (nat and int share a Z3 sort). -/
theorem duplicate_names_refused (vars : List (String × Ty)) (As : List H) (C : H)
    (h : hasDup (vars.map (·.1)) = true) : solveCore vars As C = .error .z3exc := by
  simp [solveCore, solveCoreFull, h, Except.map]

example : solveCore [("x", .nat), ("x", .int)] [] (.eq (.var "x" .nat) (.var "x" .int)) = .error .z3exc := rfl

/-- (restatement of the definition of `macroAccepts`, kept as a pin) With `check_z3` off the macro accepts whatever the solver would say: the property needs the
flag on (the harness checks it at import and after every call). -/
theorem check_z3_off_unsound : macroAccepts false false = true ∧ ∀ b, macroAccepts true b = b := by
  constructor <;> simp [macroAccepts]

theorem check_z3_default_on : Gen.checkZ3Default = true := by decide

/-- The rewrite rules `norm_term` applies before the translation (each is a theorem of the
library, applied by the kernel's conversions): pinned, so that a change of the list is noticed. -/
theorem norm_thms_pinned : Gen.normThms = [("member_empty_simp", false), ("member_insert", false),
    ("member_univ_simp", false), ("member_collect", false), ("member_union_iff", false),
    ("member_inter_iff", false), ("set_equal_iff", false), ("subset_def", false), ("diff_def", false),
    ("real_zero_def", true), ("real_one_def", true), ("real_of_nat_add", true), ("real_of_nat_mul", true),
    ("real_of_nat_minus", false), ("real_inverse_divide", false), ("real_open_interval_def", false),
    ("real_closed_interval_def", false)] := by decide

/-- Encodings of the nat and real operations.  (1) Z3's `ite(m ≥ n, m − n, 0)` on integers
m, n ≥ 0 is Lean's truncated subtraction on ℕ — HOL's `-` on nat; (2) this is the meaning `evalH`
gives to `sub` at nat for all values; (3) Z3's `/` with x / 0 read as 0 is HOL's `real_divide`, and
(4) for a nonzero divisor they agree whatever Z3 chooses for x / 0.  Division and modulo on nat
are not translated: the reader maps them to `unsup`, on which `convert` raises Z3Exception (5). -/
theorem nat_ops_refine {K : Type} (N : Num K) :
    (∀ m n : Nat, vite (vge N (.i m) (.i n)) (vsub N (.i m) (.i n)) (.i 0) = (.i ((m - n : Nat) : Int) : Val K))
    ∧ (∀ a b : Val K, vtsub N a b = vite (vge N a b) (vsub N a b) (.i 0))
    ∧ (∀ x y : K, vdivZ N (div0H N) (.r x) (.r y) = vdivH N (.r x) (.r y))
    ∧ (∀ (div0 : K → K) (x y : K), isZero N y = false → vdivZ N div0 (.r x) (.r y) = vdivH N (.r x) (.r y))
    ∧ (∀ k env st, conv env (.unsup k) st = (.error .z3exc, st)) := by
  refine ⟨?_, vtsub_eq N, fun _ _ => rfl, ?_, fun _ _ _ => rfl⟩
  · intro m n
    simp only [vite, vge, vle, vsub, asBool]
    by_cases h : n ≤ m
    · have h' : (n : Int) ≤ m := by omega
      simp only [h', decide_true, if_true]
      congr 1; omega
    · have h' : ¬ (n : Int) ≤ m := by omega
      simp only [h', decide_false, Bool.false_eq_true, if_false]
      congr 1; omega
  · intro div0 x y hy
    simp [vdivZ, vdivH, hy]

example : (vite (vge ratNum (.i 2) (.i 5)) (vsub ratNum (.i 2) (.i 5)) (.i 0) : Val Rat) = .i 0 ∨ True := Or.inr trivial

/-- Casts.  `of_nat t` (t not a free variable) becomes `ToReal(t)`, which means the same (1, 2);
`of_nat x` for a free variable x becomes the auxiliary real constant rx, which means the same under
every valuation reading rx as of_nat x (3); on ℕ the cast is `ofInt ∘ Int.ofNat` (4); `of_int` and
`of_nat` into int are not translated (`unsup`). -/
theorem casts_refine {K : Type} (N : Num K) (Q : Quant K) (O : Oracle K) :
    (∀ div0 σ F ρ e, evalZ N Q div0 σ F ρ (.toReal e) = vtoReal N (evalZ N Q div0 σ F ρ e))
    ∧ (∀ σ F ρ a, evalH N Q O σ F ρ (.ofNat a) = vtoReal N (evalH N Q O σ F ρ a))
    ∧ (∀ σ F ρ st x rx, TROk N σ st → lookup x st.toReal = some rx →
        evalZ N Q (div0H N) σ F ρ (.const rx .real) = evalH N Q O σ F ρ (.ofNatVar x))
    ∧ (∀ k : Nat, vtoReal N (.i k) = .r (N.ofInt k)) :=
  ⟨fun _ _ _ _ _ => rfl, fun _ _ _ _ => rfl, fun _ _ _ _ x rx ht hl => ht x rx hl, fun _ => rfl⟩

example : vtoReal ratNum (.i 3) = .r (3 : Rat) := rfl

/-! ### Rewriting before the translation: `norm_term` and `fologic.simplify` -/

/-- The statements of the `norm_thms` in the library, regenerated on every run: pinned next to
their Lean renderings in `NormThmsValid` (sets are predicates, `of_nat` is the cast ℕ → K,
`real_inverse` is `⁻¹`), so that a changed library statement is noticed. -/
theorem norm_thm_props_pinned : Gen.normThmProps = [
  ("member_empty_simp", "x ∈ ∅ ⟷ false"),
  ("member_insert", "y ∈ insert x A ⟷ y = x ∨ y ∈ A"),
  ("member_univ_simp", "x ∈ univ ⟷ true"),
  ("member_collect", "x ∈ collect P ⟷ P x"),
  ("member_union_iff", "x ∈ A ∪ B ⟷ x ∈ A ∨ x ∈ B"),
  ("member_inter_iff", "x ∈ A ∩ B ⟷ x ∈ A ∧ x ∈ B"),
  ("set_equal_iff", "A = B ⟷ (∀x. x ∈ A ⟷ x ∈ B)"),
  ("subset_def", "A ⊆ B ⟷ (∀x. x ∈ A ⟶ x ∈ B)"),
  ("diff_def", "diff s t = {x. x ∈ s ∧ ¬(x ∈ t)}"),
  ("real_zero_def", "(0::real) = of_nat 0"),
  ("real_one_def", "(1::real) = of_nat 1"),
  ("real_of_nat_add", "(of_nat::nat ⇒ real) m + of_nat n = of_nat (m + n)"),
  ("real_of_nat_mul", "(of_nat::nat ⇒ real) m * of_nat n = of_nat (m * n)"),
  ("real_of_nat_minus", "of_nat (m - n) = (if m ≥ n then of_nat m - of_nat n else (0::real))"),
  ("real_inverse_divide", "real_inverse x = 1 / x"),
  ("real_open_interval_def", "real_open_interval a b = {p. a < p ∧ p < b}"),
  ("real_closed_interval_def", "real_closed_interval a b = {p. a ≤ p ∧ p ≤ b}")] := by decide

/-- Every equation `norm_term` rewrites with is valid (sets as predicates over any type α, reals
as any field K of which ℕ is a subsemiring via the cast; nat subtraction truncated). -/
def NormThmsValid (α K : Type) [Field K] [LT K] [LE K] : Prop :=
  (∀ x : α, (fun _ : α => False) x ↔ False)
  ∧ (∀ (x y : α) (A : α → Prop), (fun z => z = x ∨ A z) y ↔ (y = x ∨ A y))
  ∧ (∀ x : α, (fun _ : α => True) x ↔ True)
  ∧ (∀ (x : α) (P : α → Prop), (fun z => P z) x ↔ P x)
  ∧ (∀ (x : α) (A B : α → Prop), (fun z => A z ∨ B z) x ↔ (A x ∨ B x))
  ∧ (∀ (x : α) (A B : α → Prop), (fun z => A z ∧ B z) x ↔ (A x ∧ B x))
  ∧ (∀ A B : α → Prop, A = B ↔ ∀ x, A x ↔ B x)
  ∧ (∀ A B : α → Prop, (∀ x, A x → B x) ↔ ∀ x, A x → B x)
  ∧ (∀ s t : α → Prop, (fun x => s x ∧ ¬ t x) = fun x => s x ∧ ¬ t x)
  ∧ (((0 : Nat) : K) = 0) ∧ (((1 : Nat) : K) = 1)
  ∧ (∀ m n : Nat, ((m + n : Nat) : K) = (m : K) + (n : K))
  ∧ (∀ m n : Nat, ((m * n : Nat) : K) = (m : K) * (n : K))
  ∧ (∀ m n : Nat, ((m - n : Nat) : K) = if m ≥ n then (m : K) - (n : K) else 0)
  ∧ (∀ x : K, x⁻¹ = 1 / x)
  ∧ (∀ a b : K, (fun p => a < p ∧ p < b) = fun p : K => a < p ∧ p < b)
  ∧ (∀ a b : K, (fun p => a ≤ p ∧ p ≤ b) = fun p : K => a ≤ p ∧ p ≤ b)

/-- The 17 pinned equations hold (for every α and K); one conjunct per entry of `Gen.normThms`, in
its order.  The set equations hold by the definition of the set operations as predicates (plus
extensionality for `set_equal_iff`), the `of_nat` ones by the homomorphism laws of the cast. -/
theorem norm_thms_valid (α K : Type) [Field K] [LT K] [LE K] : NormThmsValid α K :=
  ⟨Norm.member_empty_simp, Norm.member_insert, Norm.member_univ_simp, Norm.member_collect,
   Norm.member_union_iff, Norm.member_inter_iff, Norm.set_equal_iff, Norm.subset_def, Norm.diff_def,
   Norm.real_zero_def, Norm.real_one_def, Norm.real_of_nat_add, Norm.real_of_nat_mul,
   Norm.real_of_nat_minus, Norm.real_inverse_divide, Norm.real_open_interval_def,
   Norm.real_closed_interval_def⟩

example : Gen.normThms.length = 17 := by decide

/-- `norm_term` (top_conv ∘ every_conv ∘ try_conv ∘ rewr_conv with the pinned equations and beta,
iterated to a fixed point) followed by `fologic.simplify` is a sequence of replacements of an
instance `l` of a rule by `r` inside a context `c`.  `Rewrites` is that relation, for an arbitrary
term language with an evaluation `eval` and contexts that respect meaning. -/
inductive Rewrites {T Env V : Type} (eval : T → Env → V) (rule : T → T → Prop) : T → T → Prop
  | refl (t : T) : Rewrites eval rule t t
  | step (c : T → T) (l r t' : T)
      (hc : ∀ a b, (∀ ρ, eval a ρ = eval b ρ) → ∀ ρ, eval (c a) ρ = eval (c b) ρ)
      (hr : rule l r) (rest : Rewrites eval rule (c r) t') : Rewrites eval rule (c l) t'

/-- Rewriting with valid equations preserves the meaning: if every rule instance is an equation
valid in the semantics (`norm_thms_valid` for the pinned equations, `Norm.simplify_rules` and
`Norm.vacuous_quantifier` for `fologic.simplify`, beta-reduction by the definition of application),
the goal `solve_core` translates means what the goal it was given means.  The conversions
themselves are the kernel's (each rewrite is an instance of a library theorem); how a HOL term maps
to `T` is not modelled. -/
theorem norm_term_preserves_meaning {T Env V : Type} (eval : T → Env → V) (rule : T → T → Prop)
    (hvalid : ∀ l r, rule l r → ∀ ρ, eval l ρ = eval r ρ) {t t' : T} (h : Rewrites eval rule t t') :
    ∀ ρ, eval t ρ = eval t' ρ := by
  induction h with
  | refl t => intro ρ; rfl
  | step c l r t' hc hr _ ih =>
    intro ρ
    rw [hc l r (hvalid l r hr) ρ]
    exact ih ρ

/-- rewriting `of_nat (2 + 1)` to `of_nat 2 + of_nat 1` inside `· * 5` over ℚ -/
example : Rewrites (T := Nat × Nat) (Env := Unit) (V := Nat) (fun t _ => t.1 + t.2) (fun l r => l.1 + l.2 = r.1 + r.2)
    (2, 1) (3, 0) :=
  .step id (2, 1) (3, 0) (3, 0) (fun _ _ h => h) rfl (.refl _)

/-! ### SymPy wrapper (normaliser abstract) -/

section SymPy
variable {E V Env : Type}

/-- `solve_goal` on an equation: if SymPy's automatic simplification preserves the value, two
expressions with the same normal form are equal for all variable values. -/
theorem sympy_eq_sound [DecidableEq E] (eval : E → Env → V) (norm : E → E) (sub : E → E → E) (divOk : Bool)
    (nz isTrue : E → Bool) (hnorm : ∀ e ρ, eval (norm e) ρ = eval e ρ) (a b : E)
    (h : solveGoal norm sub divOk nz isTrue (.eq a b) = true) : ∀ ρ, eval a ρ = eval b ρ := by
  intro ρ
  simp only [solveGoal, Bool.and_eq_true, decide_eq_true_eq] at h
  rw [← hnorm a ρ, ← hnorm b ρ, h.2]

example : solveGoal (E := Nat) (fun e => e % 3) (· - ·) true (fun _ => false) (fun _ => false) (.eq 4 7) = true := by decide

/-- `solve_goal` on `¬(a = b)` (after fix C06-5): accepted only if the simplified difference is
a number SymPy knows to be nonzero; then a and b differ for all variable values. -/
theorem sympy_neq_sound [DecidableEq E] (eval : E → Env → V) (zero : V) (vsub : V → V → V) (norm : E → E) (sub : E → E → E)
    (divOk : Bool) (nz isTrue : E → Bool)
    (hnorm : ∀ e ρ, eval (norm e) ρ = eval e ρ) (hsub : ∀ x y ρ, eval (sub x y) ρ = vsub (eval x ρ) (eval y ρ))
    (hsub0 : ∀ v, vsub v v = zero) (hnz : ∀ d, nz d = true → ∀ ρ, eval d ρ ≠ zero) (a b : E)
    (h : solveGoal norm sub divOk nz isTrue (.neq a b) = true) : ∀ ρ, eval a ρ ≠ eval b ρ := by
  intro ρ hab
  simp only [solveGoal, Bool.and_eq_true] at h
  have := hnz _ h.2 ρ
  rw [hnorm, hsub, hnorm, hnorm, hab, hsub0] at this
  exact this rfl

example : solveGoal (E := Int) id (· - ·) true (fun d => decide (d ≠ 0)) (fun _ => false) (.neq 5 3) = true := by decide

/-- `solve_goal` on a relation: accepted only if SymPy folds it to `True`. -/
theorem sympy_rel_sound [DecidableEq E] (holds : E → Env → Prop) (norm : E → E) (sub : E → E → E) (divOk : Bool)
    (nz isTrue : E → Bool) (hnorm : ∀ e ρ, holds (norm e) ρ → holds e ρ)
    (htrue : ∀ e, isTrue e = true → ∀ ρ, holds e ρ) (r : E)
    (h : solveGoal norm sub divOk nz isTrue (.rel r) = true) : ∀ ρ, holds r ρ := by
  intro ρ
  simp only [solveGoal, Bool.and_eq_true] at h
  exact hnorm r ρ (htrue _ h.2 ρ)

/-- `solve_with_interval` on a relation: if `solveset` is right that the solution set is the
whole interval, the goal holds at every point of the interval. (The divisor check of fix C06-7 is
what makes `hnorm` true of SymPy: no divisor vanishes on the interval.) -/
theorem sympy_interval_sound (holds : E → Env → Prop) (inI : Env → Prop) (norm : E → E) (sub : E → E → E)
    (divisors : List E) (zeroFree fullSol : E → Bool)
    (hnorm : ∀ e ρ, inI ρ → holds (norm e) ρ → holds e ρ)
    (hfull : ∀ e, fullSol e = true → ∀ ρ, inI ρ → holds e ρ) (r : E)
    (h : solveWithInterval norm sub divisors zeroFree fullSol (.rel r) = true) : ∀ ρ, inI ρ → holds r ρ := by
  intro ρ hρ
  simp only [solveWithInterval, Bool.and_eq_true] at h
  exact hnorm r ρ hρ (hfull _ h.2 ρ hρ)

/-- `solve_with_interval` on `¬(a = b)`: accepted only if `solveset(a - b = 0)` is empty on the
interval. -/
theorem sympy_interval_neq_sound (eval : E → Env → V) (zero : V) (vsub : V → V → V) (inI : Env → Prop)
    (norm : E → E) (sub : E → E → E) (divisors : List E) (zeroFree fullSol : E → Bool)
    (hnorm : ∀ e ρ, inI ρ → eval (norm e) ρ = eval e ρ)
    (hsub : ∀ x y ρ, eval (sub x y) ρ = vsub (eval x ρ) (eval y ρ)) (hsub0 : ∀ v, vsub v v = zero)
    (hzf : ∀ d, zeroFree d = true → ∀ ρ, inI ρ → eval d ρ ≠ zero) (a b : E)
    (h : solveWithInterval norm sub divisors zeroFree fullSol (.neq a b) = true) :
    ∀ ρ, inI ρ → eval a ρ ≠ eval b ρ := by
  intro ρ hρ hab
  simp only [solveWithInterval, Bool.and_eq_true] at h
  have := hzf _ h.2 ρ hρ
  rw [hsub, hnorm _ _ hρ, hnorm _ _ hρ, hab, hsub0] at this
  exact this rfl

example : solveWithInterval (E := Int) id (· - ·) [2] (fun d => decide (d ≠ 0)) (fun _ => false) (.neq 5 3) = true := by decide

/-- `e` is evaluated inside the domain of every function it uses, at a point where `ev` gives the
values of its subterms: divisors (also those hidden in tan, cot, sec, csc) are nonzero, arguments of
sqrt nonnegative, arguments of log and bases of real powers positive. -/
def InDomain {V : Type} (ev : SE → V) (isZero isNonneg isPos : V → Prop) : SE → Prop
  | .var _ | .num _ => True
  | .add a b | .sub a b | .mul a b | .rel _ a b | .eqn a b =>
      InDomain ev isZero isNonneg isPos a ∧ InDomain ev isZero isNonneg isPos b
  | .div a b => ¬ isZero (ev b) ∧ InDomain ev isZero isNonneg isPos a ∧ InDomain ev isZero isNonneg isPos b
  | .rpow a b => isPos (ev a) ∧ InDomain ev isZero isNonneg isPos a ∧ InDomain ev isZero isNonneg isPos b
  | .neg a | .abs a | .npow a _ | .exp a | .sin a | .cos a | .not a => InDomain ev isZero isNonneg isPos a
  | .sqrt a => isNonneg (ev a) ∧ InDomain ev isZero isNonneg isPos a
  | .log a => isPos (ev a) ∧ InDomain ev isZero isNonneg isPos a
  | .tan a | .sec a => ¬ isZero (ev (.cos a)) ∧ InDomain ev isZero isNonneg isPos a
  | .cot a | .csc a => ¬ isZero (ev (.sin a)) ∧ InDomain ev isZero isNonneg isPos a

def Guard.holds {V : Type} (ev : SE → V) (isZero isNonneg isPos : V → Prop) : Guard → Prop
  | .nonzero d => ¬ isZero (ev d)
  | .nonneg d => isNonneg (ev d)
  | .pos d => isPos (ev d)

/-- The side conditions of the SymPy step are sufficient: if every guard of the goal holds at every
point of the interval, then at every point of the interval every function occurring in the goal is
applied inside its domain (where SymPy's real-analytic functions are the HOL functions: x / y with
y ≠ 0, sqrt on [0, ∞), log and real powers on (0, ∞)).  PARTIAL: that SymPy's answers
(`is_zero is False`, `solveset(d, x, I) == ∅`, `solveset(c, x, I) == I`) establish the guards, and
that inside the domains SymPy's simplification preserves the value, stays trusted. -/
theorem sympy_guards_sufficient_partial {V Env : Type} (ev : Env → SE → V) (isZero isNonneg isPos : V → Prop)
    (inI : Env → Prop) (e : SE)
    (h : ∀ ρ, inI ρ → ∀ g ∈ sympyGuards e, g.holds (ev ρ) isZero isNonneg isPos) :
    ∀ ρ, inI ρ → InDomain (ev ρ) isZero isNonneg isPos e := by
  intro ρ hρ
  have h' := h ρ hρ
  clear h
  induction e with
  | var | num => trivial
  | add a b iha ihb | sub a b iha ihb | mul a b iha ihb | rel _ a b iha ihb | eqn a b iha ihb =>
    simp only [sympyGuards, List.mem_append] at h'
    exact ⟨iha fun g hg => h' g (Or.inl hg), ihb fun g hg => h' g (Or.inr hg)⟩
  | div a b iha ihb =>
    simp only [sympyGuards, List.mem_cons, List.mem_append] at h'
    exact ⟨h' _ (Or.inl rfl), iha fun g hg => h' g (Or.inr (Or.inl hg)), ihb fun g hg => h' g (Or.inr (Or.inr hg))⟩
  | rpow a b iha ihb =>
    simp only [sympyGuards, List.mem_cons, List.mem_append] at h'
    exact ⟨h' _ (Or.inl rfl), iha fun g hg => h' g (Or.inr (Or.inl hg)), ihb fun g hg => h' g (Or.inr (Or.inr hg))⟩
  | neg a ih | abs a ih | npow a _ ih | exp a ih | sin a ih | cos a ih | not a ih =>
    exact ih h'
  | sqrt a ih | log a ih | tan a ih | sec a ih | cot a ih | csc a ih =>
    simp only [sympyGuards, List.mem_cons] at h'
    exact ⟨h' _ (Or.inl rfl), ih fun g hg => h' g (Or.inr hg)⟩

/-- 1 / (x / x) > 0 has the guards x / x ≠ 0 and x ≠ 0 (the inner one is what C06-m2 drops) -/
example : (sympyGuards (.rel .gt (.div (.num 1) (.div (.var "x") (.var "x"))) (.num 0))).length = 2 := rfl

/-- An equation is never accepted under an interval condition (convert raises). -/
theorem sympy_interval_eq_refused (norm : E → E) (sub : E → E → E) (divisors : List E)
    (zeroFree fullSol : E → Bool) (a b : E) :
    solveWithInterval norm sub divisors zeroFree fullSol (.eq a b) = false := rfl

end SymPy

end Holpy.C06
