import Holpy.C06.Proofs
/-
C06 — the translation preserves meaning (induction over the source term).
-/
namespace Holpy.C06

variable {K : Type} (N : Num K) (Q : Quant K)

/-- The auxiliary real constants stand for `of_nat` of their variables. -/
def TROk (σ : String → Val K) (st : St) : Prop :=
  ∀ x rx, lookup x st.toReal = some rx → σ rx = vtoReal N (σ x)

/-- Later tables extend earlier ones. -/
def Ext (s s' : St) : Prop :=
  ∀ x rx, lookup x s.toReal = some rx → lookup x s'.toReal = some rx

theorem Ext.refl (s : St) : Ext s s := fun _ _ h => h
theorem Ext.trans {a b c : St} (h1 : Ext a b) (h2 : Ext b c) : Ext a c := fun x rx h => h2 x rx (h1 x rx h)
theorem TROk.mono {σ : String → Val K} {s s' : St} (h : Ext s s') (h' : TROk N σ s') : TROk N σ s :=
  fun x rx hx => h' x rx (h x rx hx)

/-- A computation whose successful runs only extend the tables and return a value satisfying P
(whenever the final tables are interpreted as intended). -/
def Good {α : Type} (σ : String → Val K) (m : M α) (P : α → Prop) : Prop :=
  ∀ s res s', m s = (res, s') → Ext s s' ∧ (∀ a, res = .ok a → TROk N σ s' → P a)

variable {N}
variable {σ : String → Val K}

theorem Good.pure {α : Type} {a : α} {P : α → Prop} (h : P a) : Good N σ (Pure.pure a : M α) P := by
  intro s b s' hrun
  change M.pure a s = _ at hrun
  simp only [M.pure, Prod.mk.injEq] at hrun
  obtain ⟨rfl, rfl⟩ := hrun
  refine ⟨Ext.refl _, fun a' ha _ => ?_⟩
  simp only [Except.ok.injEq] at ha
  exact ha ▸ h

theorem Good.bind {α β : Type} {m : M α} {f : α → M β} {P : α → Prop} {R' : β → Prop}
    (hm : Good N σ m P) (hf : ∀ a, Good N σ (f a) (fun b => P a → R' b)) : Good N σ (m >>= f) R' := by
  intro s res s' hrun
  change M.bind m f s = _ at hrun
  unfold M.bind at hrun
  split at hrun
  · rename_i a s1 hm1
    obtain ⟨e1, p1⟩ := hm s _ s1 hm1
    obtain ⟨e2, p2⟩ := hf a s1 res s' hrun
    exact ⟨e1.trans e2, fun b hb h => p2 b hb h (p1 a rfl (TROk.mono N e2 h))⟩
  · rename_i e s1 hm1
    simp only [Prod.mk.injEq] at hrun
    obtain ⟨rfl, rfl⟩ := hrun
    exact ⟨(hm s _ _ hm1).1, fun b hb => by simp at hb⟩

theorem Good.fail {α : Type} {e : Err} {P : α → Prop} : Good N σ (failM e : M α) P := by
  intro s res s' hrun
  simp only [failM, Prod.mk.injEq] at hrun
  obtain ⟨rfl, rfl⟩ := hrun
  exact ⟨Ext.refl _, fun b hb => by simp at hb⟩

theorem Good.liftE {α : Type} {x : Except Err α} {P : α → Prop} (h : ∀ a, x = .ok a → P a) :
    Good N σ (liftE x) P := by
  intro s res s' hrun
  simp only [Holpy.C06.liftE, Prod.mk.injEq] at hrun
  obtain ⟨rfl, rfl⟩ := hrun
  exact ⟨Ext.refl _, fun b hb _ => h b hb⟩

theorem Good.noteNat (x : String) (T : Ty) (e : Z) : Good N σ (noteNat x T e) (fun _ => True) := by
  intro s b s' hrun
  unfold Holpy.C06.noteNat at hrun
  split at hrun <;> simp only [Prod.mk.injEq] at hrun <;> obtain ⟨_, rfl⟩ := hrun <;>
    exact ⟨fun _ _ h => h, fun _ _ _ => trivial⟩

theorem Good.freshName (nm : String) : Good N σ (freshName nm) (fun _ => True) := by
  intro s b s' hrun
  unfold Holpy.C06.freshName at hrun
  split at hrun <;> simp only [Prod.mk.injEq] at hrun <;> obtain ⟨_, rfl⟩ := hrun <;>
    exact ⟨fun _ _ h => h, fun _ _ _ => trivial⟩

theorem lookup_append_some {β : Type} (k : String) (l l' : List (String × β)) (v : β)
    (h : lookup k l = some v) : lookup k (l ++ l') = some v := by
  induction l with
  | nil => simp [lookup] at h
  | cons p rest ih =>
    obtain ⟨k', v'⟩ := p
    simp only [lookup, List.cons_append] at h ⊢
    split
    · simp_all
    · simp_all

theorem lookup_append_none {β : Type} (k : String) (l : List (String × β)) (v : β)
    (h : lookup k l = none) : lookup k (l ++ [(k, v)]) = some v := by
  induction l with
  | nil => simp [lookup]
  | cons p rest ih =>
    obtain ⟨k', v'⟩ := p
    simp only [lookup, List.cons_append] at h ⊢
    split
    · simp_all
    · simp_all

end Holpy.C06
