/-
C06 — executable model of `prover/z3wrapper.py` (`convert`, `solve_core`, `solve`) and of the
decision logic of `prover/sympywrapper.py`, for the code WITH the fixes fixes/C06-*.patch.
Import-free (linked into the driver `c06_model`).

Source language `H`: the fragment `z3wrapper.convert` dispatches on, read from the holpy term
after `norm_term` and `strip_all_implies` (bound variables are de Bruijn indices, exactly as the
kernel stores them; `convert` substitutes a fresh `Var` for them, which the model represents by
an environment of generated names).  Target language `Z`: the Z3 AST that z3py builds (quantifier
bodies use de Bruijn indices there too).  `R` is what the Python function `rec` returns: a Python
`int`, a Python `bool` (literal arithmetic on nat/int literals is evaluated by Python) or a Z3 AST.
-/
namespace Holpy.C06

inductive Ty where
  | bool | nat | int | real
  | tv (n : String)
  deriving DecidableEq, Repr, Inhabited

inductive Srt where
  | bool | int | real
  | u (n : String)
  deriving DecidableEq, Repr, Inhabited

/-- `convert_type` on base types: nat and int are both Z3's Int. -/
def Ty.srt : Ty → Srt
  | .bool => .bool | .nat => .int | .int => .int | .real => .real | .tv n => .u n

inductive H where
  | var (x : String) (T : Ty)          -- free variable of a base type
  | bv (i : Nat)                        -- bound variable
  | num (T : Ty) (q : Rat)              -- literal (`is_number`); integer valued unless T = real
  | tt | ff
  | not (a : H) | and (a b : H) | or (a b : H) | imp (a b : H) | xor (a b : H)
  | eq (a b : H)                        -- equation between terms of a base type (bool: iff)
  | eqFun (k : Nat)                     -- equation between function- or set-typed terms (k: index of its value in the oracle)
  | ite (c a b : H)
  | all (x : String) (T : Ty) (b : H) | ex (x : String) (T : Ty) (b : H)
  | add (a b : H) | sub (isNat : Bool) (a b : H) | mul (a b : H) | div (a b : H)
  | neg (isNat : Bool) (a : H)          -- unary minus; on nat it is declared but unspecified
  | le (a b : H) | lt (a b : H) | ge (a b : H) | gt (a b : H)
  | ofNat (a : H)                       -- of_nat :: nat => real, argument not a free variable
  | ofNatVar (x : String)               -- of_nat x for a free variable x :: nat
  | max (a b : H) | min (a b : H) | abs (isReal : Bool) (a : H)
  | app (f : String) (dom cod : Ty) (a : H)   -- variable f :: dom => cod applied
  | mem (a : H) (S : String) (dom : Ty)       -- a ∈ S for a variable S :: dom set
  | unsup (k : Nat)                     -- anything on which convert raises Z3Exception (k: index of its value in the oracle)
  deriving Repr, Inhabited

inductive Z where
  | bconst (b : Bool) | ilit (n : Int) | rlit (q : Rat)
  | const (x : String) (s : Srt)
  | bv (i : Nat) (s : Srt)              -- bound variable (de Bruijn index) of sort s
  | not (a : Z) | and (a b : Z) | or (a b : Z) | imp (a b : Z)
  | eq (a b : Z) | ite (c a b : Z)
  | add (a b : Z) | sub (a b : Z) | mul (a b : Z) | div (a b : Z) | neg (a : Z)
  | le (a b : Z) | lt (a b : Z) | ge (a b : Z) | gt (a b : Z)
  | toReal (a : Z)
  | app (f : String) (dom cod : Srt) (a : Z)
  | all (x : String) (s : Srt) (b : Z) | ex (x : String) (s : Srt) (b : Z)
  deriving Repr, Inhabited

/-- What the Python `rec` returns. -/
inductive R where
  | pi (n : Int) | pb (b : Bool) | z (e : Z)
  deriving Repr, Inhabited

inductive Err where
  | z3exc      -- prover.z3wrapper.Z3Exception: the term is untranslatable
  | crash      -- any other exception (z3.Z3Exception, AttributeError, …): solve itself raises
  deriving DecidableEq, Repr, Inhabited

/-- The tables `solve_core` threads through the calls of `convert`. -/
structure St where
  varNames : List String
  assms : List (String × Z)            -- dict in insertion order
  toReal : List (String × String)
  deriving Repr, Inhabited

/-- State-and-error monad in which an exception keeps the side effects made so far. -/
def M (α : Type) := St → Except Err α × St

def M.pure (a : α) : M α := fun s => (.ok a, s)
def M.bind (m : M α) (f : α → M β) : M β := fun s =>
  match m s with
  | (.ok a, s') => f a s'
  | (.error e, s') => (.error e, s')
instance : Monad M := { pure := M.pure, bind := M.bind }

def failM (e : Err) : M α := fun s => (.error e, s)
def getSt : M St := fun s => (.ok s, s)
def setSt (s : St) : M Unit := fun _ => (.ok (), s)

/-- `util.name.get_variant_name`: nm, else the first nm ++ str(i), i = 1, 2, …, not in prevs.
The search is bounded by `prevs.length + 1` candidates; `none` if the bound is reached (Python
loops until it finds one; by the pigeonhole principle it does so within the bound, which is not
needed for soundness: a run of the model that reaches the bound fails). -/
def variantAux (nm : String) (prevs : List String) : Nat → Nat → Option String
  | 0, _ => none
  | fuel + 1, i => if prevs.contains (nm ++ toString i) then variantAux nm prevs fuel (i + 1) else some (nm ++ toString i)

def variantName (nm : String) (prevs : List String) : Option String :=
  if prevs.contains nm then variantAux nm prevs (prevs.length + 1) 1 else some nm

def R.toZ : R → Z
  | .pi n => .ilit n | .pb b => .bconst b | .z e => e

/-- z3py class of an AST, as far as Python's operator dispatch depends on it. -/
inductive Cls where | ratnum | arith | quant | boolc | other
  deriving DecidableEq

def Srt.cls : Srt → Cls
  | .bool => .boolc | .int | .real => .arith | .u _ => .other

def Z.cls : Z → Cls
  | .rlit _ => .ratnum
  | .all .. | .ex .. => .quant
  | .bconst _ | .not _ | .and .. | .or .. | .imp .. | .eq .. | .le .. | .lt .. | .ge .. | .gt .. => .boolc
  | .ilit _ | .add .. | .sub .. | .mul .. | .div .. | .neg _ | .toReal _ => .arith
  | .const _ s | .app _ _ s _ | .bv _ s => s.cls
  | .ite _ a _ => match a.cls with
      | .ratnum => .arith      -- an application, not a numeral
      | .quant => .boolc
      | c => c

/-- Python tries the reflected comparison method first when the right operand's class is a proper
subclass of the left operand's class (RatNumRef < ArithRef, QuantifierRef < BoolRef). -/
def reflectedFirst (l r : Z) : Bool :=
  (l.cls == .arith && r.cls == .ratnum) || (l.cls == .boolc && r.cls == .quant)

inductive Cmp where | le | lt | ge | gt
  deriving DecidableEq, Repr

def Cmp.flip : Cmp → Cmp | .le => .ge | .lt => .gt | .ge => .le | .gt => .lt
def Cmp.mk : Cmp → Z → Z → Z | .le => .le | .lt => .lt | .ge => .ge | .gt => .gt
def Cmp.evalInt : Cmp → Int → Int → Bool
  | .le, m, n => decide (m ≤ n) | .lt, m, n => decide (m < n)
  | .ge, m, n => decide (n ≤ m) | .gt, m, n => decide (n < m)

/-- `a <op> b` on results of `rec`. -/
def cmpR (op : Cmp) : R → R → Except Err R
  | .pi m, .pi n => .ok (.pb (op.evalInt m n))
  | .pi m, .z e => .ok (.z (op.flip.mk e (.ilit m)))
  | .z e, .pi n => .ok (.z (op.mk e (.ilit n)))
  | .z e1, .z e2 => .ok (.z (if reflectedFirst e1 e2 then op.flip.mk e2 e1 else op.mk e1 e2))
  | _, _ => .error .crash

/-- `a == b`. -/
def eqR : R → R → Except Err R
  | .pi m, .pi n => .ok (.pb (m == n))
  | .pb a, .pb b => .ok (.pb (a == b))
  | .pi m, .z e => .ok (.z (.eq e (.ilit m)))
  | .z e, .pi n => .ok (.z (.eq e (.ilit n)))
  | .pb b, .z e => .ok (.z (.eq e (.bconst b)))
  | .z e, .pb b => .ok (.z (.eq e (.bconst b)))
  | .z e1, .z e2 => .ok (.z (if reflectedFirst e1 e2 then .eq e2 e1 else .eq e1 e2))
  | _, _ => .error .crash

inductive Arith where | add | sub | mul
  deriving DecidableEq, Repr
def Arith.mk : Arith → Z → Z → Z | .add => .add | .sub => .sub | .mul => .mul
def Arith.evalInt : Arith → Int → Int → Int | .add, m, n => m + n | .sub, m, n => m - n | .mul, m, n => m * n

def arithR (op : Arith) : R → R → Except Err R
  | .pi m, .pi n => .ok (.pi (op.evalInt m n))
  | .pb _, _ | _, .pb _ => .error .crash
  | a, b => .ok (.z (op.mk a.toZ b.toZ))

/-- Arguments of z3.And/Or/Not/Implies/If-condition: Python bools are coerced, ints are not. -/
def boolArg : R → Except Err Z
  | .pi _ => .error .crash
  | r => .ok r.toZ

def liftE (x : Except Err α) : M α := fun s => (x, s)

/-- `z3.If(c, a, b)` -/
def iteR (c a b : R) : Except Err R := do
  let c' ← boolArg c
  .ok (.z (.ite c' a.toZ b.toZ))

def lookup (k : String) : List (String × β) → Option β
  | [] => none
  | (k', v) :: rest => if k == k' then some v else lookup k rest

/-- `if t.T == NatType and t.name not in assms: assms[t.name] = z3_t >= 0` -/
def noteNat (x : String) (T : Ty) (e : Z) : M Unit := fun s =>
  if T == .nat && (lookup x s.assms).isNone then
    (.ok (), { s with assms := s.assms ++ [(x, .ge e (.ilit 0))] })
  else (.ok (), s)

/-- fresh name for a binder / an of_nat constant, appended to `var_names` -/
def freshName (nm : String) : M String := fun s =>
  match variantName nm s.varNames with
  | some n => (.ok n, { s with varNames := s.varNames ++ [n] })
  | none => (.error .crash, s)

/-- `of_nat x` for a free variable x (not bound by a quantifier of the term): a separate
non-negative real constant, remembered in `to_real`; x itself is not visited. -/
def ofNatVarM (x : String) : M R := fun s =>
  match lookup x s.toReal with
  | some rx => (.ok (.z (.const rx .real)), s)
  | none =>
    match variantName ("r" ++ x) s.varNames with
    | some nm =>
      (.ok (.z (.const nm .real)),
       { varNames := s.varNames ++ [nm], toReal := s.toReal ++ [(x, nm)],
         assms := (s.assms.filter (fun p => p.1 != nm)) ++ [(nm, .ge (.const nm .real) (.rlit 0))] })
    | none => (.error .crash, s)

/-- The function `rec` inside `convert`; `env` lists (generated name, type) of the enclosing
binders, innermost first. -/
def conv (env : List (String × Ty)) : H → M R
  | .var x T => do
      noteNat x T (.const x T.srt)
      pure (.z (.const x T.srt))
  | .bv i =>
      match env[i]? with
      | some (nm, T) => do
          -- the bound variable was replaced by Var(nm, T): same bookkeeping as for a free one,
          -- the assumption is about the *free* constant nm
          noteNat nm T (.const nm T.srt)
          pure (.z (.bv i T.srt))
      | none => failM .crash
  | .num T q =>
      -- `-n` is a number at every type, but uminus has no meaning on nat (fix C06-9)
      if T == .nat && q.num < 0 then failM .z3exc
      else pure (if T == .real then .z (.rlit q) else .pi q.num)
  | .tt => pure (.z (.bconst true))
  | .ff => pure (.z (.bconst false))
  | .not a => do
      let a' ← conv env a
      let z ← liftE (boolArg a')
      pure (.z (.not z))
  | .and a b => do
      let a' ← conv env a; let b' ← conv env b
      let x ← liftE (boolArg a'); let y ← liftE (boolArg b')
      pure (.z (.and x y))
  | .or a b => do
      let a' ← conv env a; let b' ← conv env b
      let x ← liftE (boolArg a'); let y ← liftE (boolArg b')
      pure (.z (.or x y))
  | .imp a b => do
      let a' ← conv env a; let b' ← conv env b
      let x ← liftE (boolArg a'); let y ← liftE (boolArg b')
      pure (.z (.imp x y))
  | .xor a b => do
      -- z3.Or(z3.And(rec(t1), z3.Not(rec(t2))), z3.And(z3.Not(rec(t1)), rec(t2)), ctx): four calls of
      -- rec; then, with `ctx = None` (as in `solve`), z3.Or takes None for a third disjunct and raises
      let _ ← conv env a; let _ ← conv env b; let _ ← conv env a; let _ ← conv env b
      failM .crash
  | .eq a b => do
      let a' ← conv env a; let b' ← conv env b
      liftE (eqR a' b')
  | .eqFun _ => failM .z3exc
  | .ite c a b => do
      let c' ← conv env c; let a' ← conv env a; let b' ← conv env b
      liftE (iteR c' a' b')
  | .all x T b => do
      let nm ← freshName x
      let b' ← conv ((nm, T) :: env) b
      if T == .nat then
        let z ← liftE (boolArg b')
        pure (.z (.all nm T.srt (.imp (.ge (.bv 0 .int) (.ilit 0)) z)))
      else match b' with
        | .z e => pure (.z (.all nm T.srt e))
        | _ => failM .crash
  | .ex x T b => do
      let nm ← freshName x
      let b' ← conv ((nm, T) :: env) b
      if T == .nat then
        let z ← liftE (boolArg b')
        pure (.z (.ex nm T.srt (.and (.ge (.bv 0 .int) (.ilit 0)) z)))
      else match b' with
        | .z e => pure (.z (.ex nm T.srt e))
        | _ => failM .crash
  | .add a b => do
      let a' ← conv env a; let b' ← conv env b
      liftE (arithR .add a' b')
  | .sub isNat a b => do
      let m ← conv env a; let n ← conv env b
      if isNat then
        -- z3.If(m >= n, m - n, 0)
        let c ← liftE (cmpR .ge m n)
        let d ← liftE (arithR .sub m n)
        liftE (iteR c d (.pi 0))
      else liftE (arithR .sub m n)
  | .mul a b => do
      let a' ← conv env a; let b' ← conv env b
      liftE (arithR .mul a' b')
  | .div a b => do
      let a' ← conv env a; let b' ← conv env b
      match a', b' with
      | .z x, .z y => pure (.z (.div x y))
      | _, _ => failM .crash
  | .neg isNat a =>
      if isNat then failM .z3exc      -- fix C06-9: raised before the argument is visited
      else do
      let a' ← conv env a
      match a' with
      | .pi n => pure (.pi (-n))
      | .z e => pure (.z (.neg e))
      | .pb _ => failM .crash
  | .le a b => do
      let a' ← conv env a; let b' ← conv env b
      liftE (cmpR .le a' b')
  | .lt a b => do
      let a' ← conv env a; let b' ← conv env b
      liftE (cmpR .lt a' b')
  | .ge a b => do
      let a' ← conv env a; let b' ← conv env b
      liftE (cmpR .ge a' b')
  | .gt a b => do
      let a' ← conv env a; let b' ← conv env b
      liftE (cmpR .gt a' b')
  | .ofNatVar x => ofNatVarM x
  | .ofNat a => do
      let a' ← conv env a
      match a' with
      | .z e => pure (.z (.toReal e))
      | _ => failM .crash
  | .max a b => do
      let a' ← conv env a; let b' ← conv env b
      let c ← liftE (cmpR .ge a' b')
      liftE (iteR c a' b')
  | .min a b => do
      let a' ← conv env a; let b' ← conv env b
      let c ← liftE (cmpR .le a' b')
      liftE (iteR c a' b')
  | .abs isReal a => do
      let a' ← conv env a
      match a' with
      | .z e =>
          -- z3.If(a >= 0, a, -a): the literal 0 is coerced to the sort of a
          let zero : Z := if isReal then .rlit 0 else .ilit 0
          pure (.z (.ite (.ge e zero) e (.neg e)))
      | .pi n =>
          -- a Python int comes from a nat/int literal only (real literals are Z3 numerals)
          if isReal then failM .crash
          else pure (.z (.ite (.bconst (decide (0 ≤ n))) (.ilit n) (.ilit (-n))))
      | .pb _ => failM .crash
  | .app f dom cod a => do
      let a' ← conv env a
      pure (.z (.app f dom.srt cod.srt a'.toZ))
  | .mem a S dom => do
      let a' ← conv env a
      pure (.z (.app S dom.srt .bool a'.toZ))
  | .unsup _ => failM .z3exc

/-- `convert(t, var_names, assms, to_real, ctx)` -/
def convert (t : H) : M R := conv [] t

/-- The assertions `solve_core` adds to the solver, in order; `none` when `solve_core` raises
(then `solve` returns False for Z3Exception and propagates anything else). -/
def solveCoreAux : List H → St → List Z → Except Err (List Z × St)
  | [], st, acc => .ok (acc, st)
  | A :: rest, st, acc =>
    match convert A st with
    | (.ok r, st') =>
      match boolArg r with
      | .ok z => solveCoreAux rest st' (acc ++ [z])
      | .error e => .error e
    | (.error .z3exc, st') => solveCoreAux rest st' acc      -- untranslatable premise: dropped
    | (.error .crash, _) => .error .crash

def hasDup : List String → Bool
  | [] => false
  | x :: xs => xs.contains x || hasDup xs

/-- assertions and final tables -/
def solveCoreFull (vars : List (String × Ty)) (As : List H) (C : H) : Except Err (List Z × St) :=
  let names := vars.map (·.1)
  if hasDup names then .error .z3exc else
  match solveCoreAux As { varNames := names, assms := [], toReal := [] } [] with
  | .error e => .error e
  | .ok (acc, st) =>
    match convert C st with
    | (.ok r, st') =>
      match boolArg r with
      | .ok z => .ok (acc ++ [.not z] ++ st'.assms.map (·.2), st')
      | .error e => .error e
    | (.error .z3exc, st') => .ok (acc ++ st'.assms.map (·.2), st')   -- conclusion dropped: nothing negated
    | (.error .crash, _) => .error .crash

def solveCore (vars : List (String × Ty)) (As : List H) (C : H) : Except Err (List Z) :=
  (solveCoreFull vars As C).map (·.1)

/-! ### Semantics -/

inductive Val (K : Type) where
  | b (v : Bool) | i (n : Int) | r (x : K) | u (k : Nat)
  deriving Inhabited

/-- The operations of the field interpreting `real` (ℝ for HOL and Z3; ℚ in the driver). -/
structure Num (K : Type) where
  ofRat : Rat → K
  ofInt : Int → K
  add : K → K → K
  sub : K → K → K
  mul : K → K → K
  div : K → K → K          -- value at a zero divisor irrelevant: both semantics override it
  neg : K → K
  le : K → K → Bool
  lt : K → K → Bool
  deq : DecidableEq K

/-- Quantifier ranges.  `allH T p`: p holds for every value of HOL type T; `allZ s p` for every
element of the Z3 sort s.  Executable instances are bounded (driver); the theorems are about
every instance meeting `Std` (Proofs.lean). -/
structure Quant (K : Type) where
  allH : Ty → (Val K → Bool) → Bool
  exH : Ty → (Val K → Bool) → Bool
  allZ : Srt → (Val K → Bool) → Bool
  exZ : Srt → (Val K → Bool) → Bool

section Sem
variable {K : Type} (N : Num K)

def asBool : Val K → Bool | .b v => v | _ => false

def vnot (a : Val K) : Val K := .b (!asBool a)
def vand (a b : Val K) : Val K := .b (asBool a && asBool b)
def vor (a b : Val K) : Val K := .b (asBool a || asBool b)
def vimp (a b : Val K) : Val K := .b (!asBool a || asBool b)

def veq : Val K → Val K → Val K
  | .b x, .b y => .b (x == y)
  | .i m, .i n => .b (m == n)
  | .r x, .r y => .b (@decide (x = y) (N.deq x y))
  | .u j, .u k => .b (j == k)
  | _, _ => .b false

def vle : Val K → Val K → Val K
  | .i m, .i n => .b (decide (m ≤ n))
  | .r x, .r y => .b (N.le x y)
  | _, _ => .b false
def vlt : Val K → Val K → Val K
  | .i m, .i n => .b (decide (m < n))
  | .r x, .r y => .b (N.lt x y)
  | _, _ => .b false
def vge (a b : Val K) : Val K := vle N b a
def vgt (a b : Val K) : Val K := vlt N b a

def vadd : Val K → Val K → Val K
  | .i m, .i n => .i (m + n) | .r x, .r y => .r (N.add x y) | _, _ => .b false
def vsub : Val K → Val K → Val K
  | .i m, .i n => .i (m - n) | .r x, .r y => .r (N.sub x y) | _, _ => .b false
def vmul : Val K → Val K → Val K
  | .i m, .i n => .i (m * n) | .r x, .r y => .r (N.mul x y) | _, _ => .b false
def vneg : Val K → Val K
  | .i m => .i (-m) | .r x => .r (N.neg x) | _ => .b false
def vite (c a b : Val K) : Val K := if asBool c then a else b
def vtoReal : Val K → Val K
  | .i n => .r (N.ofInt n) | _ => .b false

def isZero (x : K) : Bool := @decide (x = N.ofRat 0) (N.deq x (N.ofRat 0))

/-- Z3's division: total, with an unspecified value `div0 x` for x / 0. -/
def vdivZ (div0 : K → K) : Val K → Val K → Val K
  | .r x, .r y => .r (if isZero N y then div0 x else N.div x y)
  | _, _ => .b false

/-- HOL's division: x / 0 = 0 (`real_inverse 0 = 0`). -/
def vdivH : Val K → Val K → Val K
  | .r x, .r y => .r (if isZero N y then N.ofRat 0 else N.div x y)
  | _, _ => .b false

/-- HOL's subtraction on nat: truncated. -/
def vtsub : Val K → Val K → Val K
  | .i m, .i n => .i (if n ≤ m then m - n else 0)
  | a, b => vite (vge N a b) (vsub N a b) (.i 0)

/-- HOL's max / min / abs (`max x y = (if x ≥ y then x else y)` etc.). -/
def vmax (a b : Val K) : Val K := vite (vge N a b) a b
def vmin (a b : Val K) : Val K := vite (vle N a b) a b
def vabs (isReal : Bool) (a : Val K) : Val K :=
  vite (vge N a (if isReal then .r (N.ofRat 0) else .i 0)) a (vneg N a)

variable (Q : Quant K)

/-- Values the model does not determine: of the subterms outside the translated fragment
(`unsup k`, `eqFun k`: any value) and of `uminus` on nat (declared in the library, specified for
int and real only: any function).  The theorems hold for every oracle. -/
structure Oracle (K : Type) where
  other : Nat → Val K
  negNat : Val K → Val K

/-- HOL semantics.  `σ` values of variables (by name), `F` of function and set variables, `ρ` of
bound variables.  Natural-number variables hold `.i n` with `0 ≤ n` (see `Admissible`). -/
def evalH (O : Oracle K) (σ : String → Val K) (F : String → Val K → Val K) : List (Val K) → H → Val K
  | _, .var x _ => σ x
  | ρ, .bv i => ρ.getD i (.b false)
  | _, .num T q =>
      if T == .nat && q.num < 0 then O.negNat (.i (-q.num))
      else if T == .real then .r (N.ofRat q) else .i q.num
  | _, .tt => .b true
  | _, .ff => .b false
  | ρ, .not a => vnot (evalH O σ F ρ a)
  | ρ, .and a b => vand (evalH O σ F ρ a) (evalH O σ F ρ b)
  | ρ, .or a b => vor (evalH O σ F ρ a) (evalH O σ F ρ b)
  | ρ, .imp a b => vimp (evalH O σ F ρ a) (evalH O σ F ρ b)
  | ρ, .xor a b => .b (asBool (evalH O σ F ρ a) != asBool (evalH O σ F ρ b))
  | ρ, .eq a b => veq N (evalH O σ F ρ a) (evalH O σ F ρ b)
  | _, .eqFun k => O.other k
  | ρ, .ite c a b => vite (evalH O σ F ρ c) (evalH O σ F ρ a) (evalH O σ F ρ b)
  | ρ, .all _ T b => .b (Q.allH T (fun v => asBool (evalH O σ F (v :: ρ) b)))
  | ρ, .ex _ T b => .b (Q.exH T (fun v => asBool (evalH O σ F (v :: ρ) b)))
  | ρ, .add a b => vadd N (evalH O σ F ρ a) (evalH O σ F ρ b)
  | ρ, .sub isNat a b =>
      if isNat then vtsub N (evalH O σ F ρ a) (evalH O σ F ρ b) else vsub N (evalH O σ F ρ a) (evalH O σ F ρ b)
  | ρ, .mul a b => vmul N (evalH O σ F ρ a) (evalH O σ F ρ b)
  | ρ, .div a b => vdivH N (evalH O σ F ρ a) (evalH O σ F ρ b)
  | ρ, .neg isNat a => if isNat then O.negNat (evalH O σ F ρ a) else vneg N (evalH O σ F ρ a)
  | ρ, .le a b => vle N (evalH O σ F ρ a) (evalH O σ F ρ b)
  | ρ, .lt a b => vlt N (evalH O σ F ρ a) (evalH O σ F ρ b)
  | ρ, .ge a b => vge N (evalH O σ F ρ a) (evalH O σ F ρ b)
  | ρ, .gt a b => vgt N (evalH O σ F ρ a) (evalH O σ F ρ b)
  | ρ, .ofNat a => vtoReal N (evalH O σ F ρ a)
  | _, .ofNatVar x => vtoReal N (σ x)
  | ρ, .max a b => vmax N (evalH O σ F ρ a) (evalH O σ F ρ b)
  | ρ, .min a b => vmin N (evalH O σ F ρ a) (evalH O σ F ρ b)
  | ρ, .abs isReal a => vabs N isReal (evalH O σ F ρ a)
  | ρ, .app f _ _ a => F f (evalH O σ F ρ a)
  | ρ, .mem a S _ => F S (evalH O σ F ρ a)
  | _, .unsup k => O.other k

/-- Z3 semantics, for a given interpretation `div0` of division by zero. -/
def evalZ (div0 : K → K) (σ : String → Val K) (F : String → Val K → Val K) : List (Val K) → Z → Val K
  | _, .bconst b => .b b
  | _, .ilit n => .i n
  | _, .rlit q => .r (N.ofRat q)
  | _, .const x _ => σ x
  | ρ, .bv i _ => ρ.getD i (.b false)
  | ρ, .not a => vnot (evalZ div0 σ F ρ a)
  | ρ, .and a b => vand (evalZ div0 σ F ρ a) (evalZ div0 σ F ρ b)
  | ρ, .or a b => vor (evalZ div0 σ F ρ a) (evalZ div0 σ F ρ b)
  | ρ, .imp a b => vimp (evalZ div0 σ F ρ a) (evalZ div0 σ F ρ b)
  | ρ, .eq a b => veq N (evalZ div0 σ F ρ a) (evalZ div0 σ F ρ b)
  | ρ, .ite c a b => vite (evalZ div0 σ F ρ c) (evalZ div0 σ F ρ a) (evalZ div0 σ F ρ b)
  | ρ, .add a b => vadd N (evalZ div0 σ F ρ a) (evalZ div0 σ F ρ b)
  | ρ, .sub a b => vsub N (evalZ div0 σ F ρ a) (evalZ div0 σ F ρ b)
  | ρ, .mul a b => vmul N (evalZ div0 σ F ρ a) (evalZ div0 σ F ρ b)
  | ρ, .div a b => vdivZ N div0 (evalZ div0 σ F ρ a) (evalZ div0 σ F ρ b)
  | ρ, .neg a => vneg N (evalZ div0 σ F ρ a)
  | ρ, .le a b => vle N (evalZ div0 σ F ρ a) (evalZ div0 σ F ρ b)
  | ρ, .lt a b => vlt N (evalZ div0 σ F ρ a) (evalZ div0 σ F ρ b)
  | ρ, .ge a b => vge N (evalZ div0 σ F ρ a) (evalZ div0 σ F ρ b)
  | ρ, .gt a b => vgt N (evalZ div0 σ F ρ a) (evalZ div0 σ F ρ b)
  | ρ, .toReal a => vtoReal N (evalZ div0 σ F ρ a)
  | ρ, .app f _ _ a => F f (evalZ div0 σ F ρ a)
  | ρ, .all _ s b => .b (Q.allZ s (fun v => asBool (evalZ div0 σ F (v :: ρ) b)))
  | ρ, .ex _ s b => .b (Q.exZ s (fun v => asBool (evalZ div0 σ F (v :: ρ) b)))

def evalR (div0 : K → K) (σ : String → Val K) (F : String → Val K → Val K) (ρ : List (Val K)) : R → Val K
  | .pi n => .i n
  | .pb b => .b b
  | .z e => evalZ N Q div0 σ F ρ e

end Sem

/-! ### SymPy wrapper: decision logic with the normaliser abstract -/

/-- What `sympywrapper.solve_goal` looks at: the shape of the goal, with SymPy's automatic
simplification `norm` applied by `convert` to both sides. -/
inductive SGoal (E : Type) where
  | neq (a b : E)      -- ¬(a = b)
  | eq (a b : E)
  | rel (r : E)        -- any other goal (a relation SymPy may fold to True)

/-- `solve_goal` after fixes C06-5/C06-7: `divOk` says every divisor is a number known to be
nonzero, `nonzeroNum d` says SymPy knows the simplified difference is a nonzero real number,
`isTrue r` that the converted relation is the constant True. -/
def solveGoal {E : Type} [DecidableEq E] (norm : E → E) (sub : E → E → E) (divOk : Bool)
    (nonzeroNum : E → Bool) (isTrue : E → Bool) : SGoal E → Bool
  | .neq a b => divOk && nonzeroNum (norm (sub (norm a) (norm b)))
  | .eq a b => divOk && decide (norm a = norm b)
  | .rel r => divOk && isTrue (norm r)

/-- `solve_with_interval`: `zeroFree d` = `solveset(d, x, I) == EmptySet`; `fullSol r` =
`solveset(r, x, I) == I`. -/
def solveWithInterval {E : Type} (norm : E → E) (sub : E → E → E) (divisors : List E)
    (zeroFree : E → Bool) (fullSol : E → Bool) : SGoal E → Bool
  | .neq a b => divisors.all (fun d => zeroFree (norm d)) && zeroFree (sub (norm a) (norm b))
  | .eq _ _ => false         -- convert raises SymPyException on an equation
  | .rel r => divisors.all (fun d => zeroFree (norm d)) && fullSol (norm r)

end Holpy.C06

namespace Holpy.C06

/-- ℚ as the field of "reals" for the driver and the examples. -/
def ratNum : Num Rat where
  ofRat := id
  ofInt := fun n => (n : Rat)
  add := (· + ·)
  sub := (· - ·)
  mul := (· * ·)
  div := (· / ·)
  neg := fun x => -x
  le := fun a b => decide (a ≤ b)
  lt := fun a b => decide (a < b)
  deq := inferInstance

/-- `Z3Macro.eval` / `Z3Method.apply`: the solver is consulted only when `check_z3` is on. -/
def macroAccepts (checkZ3 : Bool) (solveResult : Bool) : Bool :=
  if checkZ3 then solveResult else true

end Holpy.C06

namespace Holpy.C06

/-- Every free variable occurrence of the term is declared (with its type) in `vars`: what
`term.get_vars(As + [C])` establishes in `solve_core`. -/
def H.scoped (vars : List (String × Ty)) : H → Bool
  | .var x T => vars.contains (x, T)
  | .ofNatVar x => vars.contains (x, .nat)
  | .bv _ | .num .. | .tt | .ff | .eqFun _ | .unsup _ => true
  | .not a | .neg _ a | .ofNat a | .abs _ a | .app _ _ _ a | .mem a _ _ => a.scoped vars
  | .all _ _ b | .ex _ _ b => b.scoped vars
  | .and a b | .or a b | .imp a b | .xor a b | .eq a b | .add a b | .sub _ a b | .mul a b | .div a b
  | .le a b | .lt a b | .ge a b | .gt a b | .max a b | .min a b => a.scoped vars && b.scoped vars
  | .ite c a b => c.scoped vars && a.scoped vars && b.scoped vars

/-- names of the (nullary) constants occurring in a Z3 term -/
def Z.constNames : Z → List String
  | .const x _ => [x]
  | .bconst _ | .ilit _ | .rlit _ | .bv .. => []
  | .not a | .neg a | .toReal a | .app _ _ _ a => a.constNames
  | .and a b | .or a b | .imp a b | .eq a b | .add a b | .sub a b | .mul a b
  | .div a b | .le a b | .lt a b | .ge a b | .gt a b => a.constNames ++ b.constNames
  | .ite c a b => c.constNames ++ a.constNames ++ b.constNames
  | .all _ _ b | .ex _ _ b => b.constNames

/-- No capture when z3py abstracts the named constant of a binder (`z3.ForAll(Const(nm), body)`
binds every occurrence of the constant nm in body): the name of every quantifier differs from the
names of the enclosing quantifiers (`outer`) and from every constant occurring in its body (the
bound occurrences themselves are de Bruijn indices in this model). -/
def Z.noCapture : List String → Z → Bool
  | _, .bconst _ | _, .ilit _ | _, .rlit _ | _, .const .. | _, .bv .. => true
  | o, .not a | o, .neg a | o, .toReal a | o, .app _ _ _ a => a.noCapture o
  | o, .and a b | o, .or a b | o, .imp a b | o, .eq a b | o, .add a b | o, .sub a b | o, .mul a b
  | o, .div a b | o, .le a b | o, .lt a b | o, .ge a b | o, .gt a b => a.noCapture o && b.noCapture o
  | o, .ite c a b => c.noCapture o && a.noCapture o && b.noCapture o
  | o, .all x _ b | o, .ex x _ b => !(o.contains x) && !(b.constNames.contains x) && b.noCapture (x :: o)

/-- The abstract solver: `check zs = true` means it answered `unsat` for the assertions zs. -/
structure Solver where
  check : List Z → Bool

/-- `z3wrapper.solve`: True iff `solve_core` succeeds and the solver says `unsat`. -/
def solve (S : Solver) (vars : List (String × Ty)) (As : List H) (C : H) : Bool :=
  match solveCore vars As C with
  | .ok zs => S.check zs
  | .error _ => false

end Holpy.C06

namespace Holpy.C06

/-- Goals of the SymPy step, as far as the side conditions of `sympywrapper` look at them.
`num` is any term for which `is_number()` holds (not traversed; the literal p / 0 is the number 0). -/
inductive SE where
  | var (x : String) | num (q : Rat)
  | add (a b : SE) | sub (a b : SE) | mul (a b : SE) | div (a b : SE) | neg (a : SE) | abs (a : SE)
  | npow (a : SE) (n : Nat) | rpow (a b : SE)
  | sqrt (a : SE) | log (a : SE) | exp (a : SE)
  | sin (a : SE) | cos (a : SE) | tan (a : SE) | cot (a : SE) | sec (a : SE) | csc (a : SE)
  | rel (op : Cmp) (a b : SE) | eqn (a b : SE) | not (a : SE)
  deriving Repr, Inhabited

inductive Guard where
  | nonzero (e : SE)    -- get_divisors / get_pole_divisors: must not vanish
  | nonneg (e : SE)     -- get_domain_conds 'nonneg'
  | pos (e : SE)        -- get_domain_conds 'pos'
  deriving Repr, Inhabited

/-- The side conditions `solve_goal` / `solve_with_interval` check before asking SymPy (fixes
C06-7, C06-11): `get_divisors`, `get_pole_divisors`, `get_domain_conds` in one traversal. -/
def sympyGuards : SE → List Guard
  | .var _ | .num _ => []
  | .add a b | .sub a b | .mul a b | .rel _ a b | .eqn a b => sympyGuards a ++ sympyGuards b
  | .div a b => .nonzero b :: (sympyGuards a ++ sympyGuards b)
  | .rpow a b => .pos a :: (sympyGuards a ++ sympyGuards b)
  | .neg a | .abs a | .npow a _ | .exp a | .sin a | .cos a | .not a => sympyGuards a
  | .sqrt a => .nonneg a :: sympyGuards a
  | .log a => .pos a :: sympyGuards a
  | .tan a | .sec a => .nonzero (.cos a) :: sympyGuards a
  | .cot a | .csc a => .nonzero (.sin a) :: sympyGuards a

end Holpy.C06
