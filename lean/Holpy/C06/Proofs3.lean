import Holpy.C06.Proofs2
namespace Holpy.C06

variable {K : Type} {N : Num K} {Q : Quant K}
variable {σ : String → Val K} {F : String → Val K → Val K} {O : Oracle K}

/-- the postcondition of `rec`: the result means what the source term means -/
def Sound (N : Num K) (Q : Quant K) (O : Oracle K) (σ : String → Val K) (F : String → Val K → Val K) (t : H) (r : R) : Prop :=
  ∀ ρ, evalR N Q (div0H N) σ F ρ r = evalH N Q O σ F ρ t

theorem ofNatVar_good (x : String) : Good N σ (ofNatVarM x) (Sound N Q O σ F (.ofNatVar x)) := by
  intro s res s' hrun
  unfold ofNatVarM at hrun
  split at hrun
  · rename_i rx hl
    simp only [Prod.mk.injEq] at hrun
    obtain ⟨rfl, rfl⟩ := hrun
    refine ⟨Ext.refl _, fun a ha ht ρ => ?_⟩
    simp only [Except.ok.injEq] at ha
    subst ha
    show σ rx = vtoReal N (σ x)
    exact ht x rx hl
  · rename_i hl
    split at hrun
    · simp only [Prod.mk.injEq] at hrun
      obtain ⟨rfl, rfl⟩ := hrun
      refine ⟨fun y ry h => lookup_append_some _ _ _ _ h, fun a ha ht ρ => ?_⟩
      simp only [Except.ok.injEq] at ha
      subst ha
      show σ _ = vtoReal N (σ x)
      exact ht x _ (lookup_append_none _ _ _ hl)
    · simp only [Prod.mk.injEq] at hrun
      obtain ⟨rfl, rfl⟩ := hrun
      exact ⟨Ext.refl _, fun a ha => by simp at ha⟩

theorem conv_good (hQ : Compat N Q) (t : H) : ∀ env, Good N σ (conv env t) (Sound N Q O σ F t) := by
  induction t with
  | var x T =>
    intro env; simp only [conv]
    refine Good.bind (Good.noteNat _ _ _) fun _ => Good.pure fun _ ρ => rfl
  | bv i =>
    intro env; simp only [conv]
    split
    · refine Good.bind (Good.noteNat _ _ _) fun _ => Good.pure fun _ ρ => rfl
    · exact Good.fail
  | num T q =>
    intro env; simp only [conv]
    by_cases hneg : (T == Ty.nat && decide (q.num < 0)) = true
    · simp only [hneg, if_true]; exact Good.fail
    · simp only [hneg, Bool.false_eq_true, if_false]
      refine Good.pure fun ρ => ?_
      simp only [evalH, hneg, Bool.false_eq_true, if_false]
      by_cases h : T = .real <;> simp [h, evalR, evalZ]
  | tt => intro env; simp only [conv]; exact Good.pure fun ρ => rfl
  | ff => intro env; simp only [conv]; exact Good.pure fun ρ => rfl
  | not a iha =>
    intro env; simp only [conv]
    refine Good.bind (iha env) fun a' => Good.bind (Good.liftE fun z hz => hz) fun z => Good.pure fun hz ha ρ => ?_
    show vnot (evalZ N Q (div0H N) σ F ρ z) = vnot _
    rw [boolArg_sem N Q σ F ρ hz, ha ρ]
  | and a b iha ihb =>
    intro env; simp only [conv]
    refine Good.bind (iha env) fun a' => Good.bind (ihb env) fun b' =>
      Good.bind (Good.liftE fun z hz => hz) fun x => Good.bind (Good.liftE fun z hz => hz) fun y =>
      Good.pure fun hy hx hb ha ρ => ?_
    show vand (evalZ N Q (div0H N) σ F ρ x) (evalZ N Q (div0H N) σ F ρ y) = vand _ _
    rw [boolArg_sem N Q σ F ρ hx, boolArg_sem N Q σ F ρ hy, ha ρ, hb ρ]
  | eq a b iha ihb =>
    intro env; simp only [conv]
    refine Good.bind (iha env) fun a' => Good.bind (ihb env) fun b' => Good.liftE fun r hr hb ha ρ => ?_
    rw [eqR_sem N Q σ F ρ hr, ha ρ, hb ρ]; rfl
  | add a b iha ihb =>
    intro env; simp only [conv]
    refine Good.bind (iha env) fun a' => Good.bind (ihb env) fun b' => Good.liftE fun r hr hb ha ρ => ?_
    rw [arithR_sem N Q σ F ρ hr, ha ρ, hb ρ]; rfl
  | ofNatVar x => intro env; simp only [conv]; exact ofNatVar_good x
  | all x T b ih =>
    intro env; simp only [conv]
    refine Good.bind (Good.freshName _) fun nm => Good.bind (ih _) fun b' => ?_
    by_cases hT : T = .nat
    · subst hT
      simp only [beq_self_eq_true, if_true]
      refine Good.bind (Good.liftE fun z hz => hz) fun z => Good.pure fun hz hb _ ρ => ?_
      show Val.b (Q.allZ .int _) = Val.b (Q.allH .nat _)
      rw [hQ.all_nat]
      congr 1; congr 1; funext v
      show (!asBool (vge N v (.i 0)) || asBool (evalZ N Q (div0H N) σ F (v :: ρ) z)) = _
      rw [boolArg_sem N Q σ F (v :: ρ) hz, hb (v :: ρ)]
    · have : (T == Ty.nat) = false := by simpa using hT
      simp only [this]
      cases b' with
      | z e =>
        refine Good.pure fun hb _ ρ => ?_
        show Val.b (Q.allZ T.srt _) = Val.b (Q.allH T _)
        rw [hQ.all_other T _ hT]
        congr 1; congr 1; funext v
        exact congrArg asBool (hb (v :: ρ))
      | pi n => exact Good.fail
      | pb n => exact Good.fail
  | or a b iha ihb =>
    intro env; simp only [conv]
    refine Good.bind (iha env) fun a' => Good.bind (ihb env) fun b' =>
      Good.bind (Good.liftE fun z hz => hz) fun x => Good.bind (Good.liftE fun z hz => hz) fun y =>
      Good.pure fun hy hx hb ha ρ => ?_
    show vor (evalZ N Q (div0H N) σ F ρ x) (evalZ N Q (div0H N) σ F ρ y) = vor _ _
    rw [boolArg_sem N Q σ F ρ hx, boolArg_sem N Q σ F ρ hy, ha ρ, hb ρ]
  | imp a b iha ihb =>
    intro env; simp only [conv]
    refine Good.bind (iha env) fun a' => Good.bind (ihb env) fun b' =>
      Good.bind (Good.liftE fun z hz => hz) fun x => Good.bind (Good.liftE fun z hz => hz) fun y =>
      Good.pure fun hy hx hb ha ρ => ?_
    show vimp (evalZ N Q (div0H N) σ F ρ x) (evalZ N Q (div0H N) σ F ρ y) = vimp _ _
    rw [boolArg_sem N Q σ F ρ hx, boolArg_sem N Q σ F ρ hy, ha ρ, hb ρ]
  | xor a b iha ihb =>
    intro env; simp only [conv]
    exact Good.bind (iha env) fun _ => Good.bind (ihb env) fun _ => Good.bind (iha env) fun _ =>
      Good.bind (ihb env) fun _ => Good.fail
  | eqFun k => intro env; simp only [conv]; exact Good.fail
  | unsup k => intro env; simp only [conv]; exact Good.fail
  | ite c a b ihc iha ihb =>
    intro env; simp only [conv]
    refine Good.bind (ihc env) fun c' => Good.bind (iha env) fun a' => Good.bind (ihb env) fun b' =>
      Good.liftE fun r hr hb ha hc ρ => ?_
    rw [iteR_sem N Q σ F ρ hr, hc ρ, ha ρ, hb ρ]; rfl
  | ex x T b ih =>
    intro env; simp only [conv]
    refine Good.bind (Good.freshName _) fun nm => Good.bind (ih _) fun b' => ?_
    by_cases hT : T = .nat
    · subst hT
      simp only [beq_self_eq_true, if_true]
      refine Good.bind (Good.liftE fun z hz => hz) fun z => Good.pure fun hz hb _ ρ => ?_
      show Val.b (Q.exZ .int _) = Val.b (Q.exH .nat _)
      rw [hQ.ex_nat]
      congr 1; congr 1; funext v
      show (asBool (vge N v (.i 0)) && asBool (evalZ N Q (div0H N) σ F (v :: ρ) z)) = _
      rw [boolArg_sem N Q σ F (v :: ρ) hz, hb (v :: ρ)]
    · have : (T == Ty.nat) = false := by simpa using hT
      simp only [this]
      cases b' with
      | z e =>
        refine Good.pure fun hb _ ρ => ?_
        show Val.b (Q.exZ T.srt _) = Val.b (Q.exH T _)
        rw [hQ.ex_other T _ hT]
        congr 1; congr 1; funext v
        exact congrArg asBool (hb (v :: ρ))
      | pi n => exact Good.fail
      | pb n => exact Good.fail
  | sub isNat a b iha ihb =>
    intro env; simp only [conv]
    refine Good.bind (iha env) fun m => Good.bind (ihb env) fun n => ?_
    cases isNat
    · simp only [Bool.false_eq_true, if_false]
      refine Good.liftE fun r hr hb ha ρ => ?_
      rw [arithR_sem N Q σ F ρ hr, ha ρ, hb ρ]; rfl
    · simp only [if_true]
      refine Good.bind (Good.liftE fun z hz => hz) fun c => Good.bind (Good.liftE fun z hz => hz) fun d =>
        Good.liftE fun r hr hd hc hb ha ρ => ?_
      rw [iteR_sem N Q σ F ρ hr, cmpR_sem N Q σ F ρ hc, arithR_sem N Q σ F ρ hd, ha ρ, hb ρ]
      show _ = vtsub N _ _
      rw [vtsub_eq]; rfl
  | mul a b iha ihb =>
    intro env; simp only [conv]
    refine Good.bind (iha env) fun a' => Good.bind (ihb env) fun b' => Good.liftE fun r hr hb ha ρ => ?_
    rw [arithR_sem N Q σ F ρ hr, ha ρ, hb ρ]; rfl
  | div a b iha ihb =>
    intro env; simp only [conv]
    refine Good.bind (iha env) fun a' => Good.bind (ihb env) fun b' => ?_
    cases a' <;> cases b' <;> first | exact Good.fail | skip
    refine Good.pure fun hb ha ρ => ?_
    show vdivZ N (div0H N) _ _ = vdivH N _ _
    have ha' := ha ρ; have hb' := hb ρ
    simp only [evalR] at ha' hb'
    rw [ha', hb']
    cases evalH N Q O σ F ρ a <;> cases evalH N Q O σ F ρ b <;> rfl
  | neg isNat a iha =>
    intro env; simp only [conv]
    cases isNat
    · simp only [Bool.false_eq_true, if_false]
      refine Good.bind (iha env) fun a' => ?_
      cases a' with
      | pi n => exact Good.pure fun ha ρ => by show _ = vneg N (evalH N Q O σ F ρ a); rw [← ha ρ]; rfl
      | z e => exact Good.pure fun ha ρ => by show _ = vneg N (evalH N Q O σ F ρ a); rw [← ha ρ]; rfl
      | pb b => exact Good.fail
    · simp only [if_true]
      exact Good.fail
  | le a b iha ihb =>
    intro env; simp only [conv]
    refine Good.bind (iha env) fun a' => Good.bind (ihb env) fun b' => Good.liftE fun r hr hb ha ρ => ?_
    rw [cmpR_sem N Q σ F ρ hr, ha ρ, hb ρ]; rfl
  | lt a b iha ihb =>
    intro env; simp only [conv]
    refine Good.bind (iha env) fun a' => Good.bind (ihb env) fun b' => Good.liftE fun r hr hb ha ρ => ?_
    rw [cmpR_sem N Q σ F ρ hr, ha ρ, hb ρ]; rfl
  | ge a b iha ihb =>
    intro env; simp only [conv]
    refine Good.bind (iha env) fun a' => Good.bind (ihb env) fun b' => Good.liftE fun r hr hb ha ρ => ?_
    rw [cmpR_sem N Q σ F ρ hr, ha ρ, hb ρ]; rfl
  | gt a b iha ihb =>
    intro env; simp only [conv]
    refine Good.bind (iha env) fun a' => Good.bind (ihb env) fun b' => Good.liftE fun r hr hb ha ρ => ?_
    rw [cmpR_sem N Q σ F ρ hr, ha ρ, hb ρ]; rfl
  | ofNat a iha =>
    intro env; simp only [conv]
    refine Good.bind (iha env) fun a' => ?_
    cases a' with
    | z e => exact Good.pure fun ha ρ => by show _ = vtoReal N (evalH N Q O σ F ρ a); rw [← ha ρ]; rfl
    | pi n => exact Good.fail
    | pb b => exact Good.fail
  | max a b iha ihb =>
    intro env; simp only [conv]
    refine Good.bind (iha env) fun a' => Good.bind (ihb env) fun b' =>
      Good.bind (Good.liftE fun z hz => hz) fun c => Good.liftE fun r hr hc hb ha ρ => ?_
    rw [iteR_sem N Q σ F ρ hr, cmpR_sem N Q σ F ρ hc, ha ρ, hb ρ]; rfl
  | min a b iha ihb =>
    intro env; simp only [conv]
    refine Good.bind (iha env) fun a' => Good.bind (ihb env) fun b' =>
      Good.bind (Good.liftE fun z hz => hz) fun c => Good.liftE fun r hr hc hb ha ρ => ?_
    rw [iteR_sem N Q σ F ρ hr, cmpR_sem N Q σ F ρ hc, ha ρ, hb ρ]; rfl
  | abs isReal a iha =>
    intro env; simp only [conv]
    refine Good.bind (iha env) fun a' => ?_
    cases a' with
    | z e =>
      refine Good.pure fun ha ρ => ?_
      show _ = vabs N isReal (evalH N Q O σ F ρ a)
      rw [← ha ρ]
      cases isReal <;> rfl
    | pi n =>
      cases isReal
      · refine Good.pure fun ha ρ => ?_
        show _ = vabs N false (evalH N Q O σ F ρ a)
        rw [← ha ρ]
        rfl
      · exact Good.fail
    | pb b => exact Good.fail
  | app f dom cod a iha =>
    intro env; simp only [conv]
    refine Good.bind (iha env) fun a' => Good.pure fun ha ρ => ?_
    show F f (evalZ N Q (div0H N) σ F ρ a'.toZ) = F f (evalH N Q O σ F ρ a)
    rw [toZ_sem, ha ρ]
  | mem a S dom iha =>
    intro env; simp only [conv]
    refine Good.bind (iha env) fun a' => Good.pure fun ha ρ => ?_
    show F S (evalZ N Q (div0H N) σ F ρ a'.toZ) = F S (evalH N Q O σ F ρ a)
    rw [toZ_sem, ha ρ]

end Holpy.C06
