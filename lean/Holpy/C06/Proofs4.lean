import Holpy.C06.Proofs3
namespace Holpy.C06

variable {K : Type} {N : Num K} {Q : Quant K}
variable {σ : String → Val K} {F : String → Val K → Val K} {O : Oracle K}

/-- a closed Z3 assertion holds (division by zero interpreted as HOL does) -/
def HoldsZ (N : Num K) (Q : Quant K) (div0 : K → K) (σ : String → Val K) (F : String → Val K → Val K) (z : Z) : Prop :=
  asBool (evalZ N Q div0 σ F [] z) = true

/-- a closed HOL formula holds -/
def HoldsH (N : Num K) (Q : Quant K) (O : Oracle K) (σ : String → Val K) (F : String → Val K → Val K) (t : H) : Prop :=
  asBool (evalH N Q O σ F [] t) = true

theorem convert_sound (hQ : Compat N Q) {t : H} {st st' : St} {r : R}
    (h : convert t st = (.ok r, st')) (ht : TROk N σ st') :
    evalZ N Q (div0H N) σ F [] r.toZ = evalH N Q O σ F [] t := by
  have := (conv_good (σ := σ) (F := F) (O := O) hQ t [] st _ st' h).2 r rfl ht []
  rw [toZ_sem]; exact this

theorem convert_ext (hQ : Compat N Q) {t : H} {st st' : St} {res : Except Err R}
    (h : convert t st = (res, st')) : Ext st st' :=
  (conv_good (σ := fun _ => Val.b false) (F := fun _ v => v) (O := ⟨fun _ => Val.b false, fun v => v⟩) hQ t [] st _ st' h).1

theorem solveCoreAux_good (hQ : Compat N Q) : ∀ (As : List H) (st : St) (acc acc' : List Z) (st' : St),
    solveCoreAux As st acc = .ok (acc', st') →
    Ext st st' ∧ (TROk N σ st' → (∀ z ∈ acc, HoldsZ N Q (div0H N) σ F z) → (∀ A ∈ As, HoldsH N Q O σ F A) →
      ∀ z ∈ acc', HoldsZ N Q (div0H N) σ F z) := by
  intro As
  induction As with
  | nil =>
    intro st acc acc' st' h
    simp only [solveCoreAux, Except.ok.injEq, Prod.mk.injEq] at h
    obtain ⟨rfl, rfl⟩ := h
    exact ⟨Ext.refl _, fun _ hacc _ => hacc⟩
  | cons A rest ih =>
    intro st acc acc' st' h
    simp only [solveCoreAux] at h
    split at h
    · rename_i r st1 hc
      split at h
      ·
        rename_i z hz
        obtain ⟨e2, p2⟩ := ih st1 (acc ++ [z]) acc' st' h
        have e1 := convert_ext hQ hc
        refine ⟨e1.trans e2, fun ht hacc hAs => p2 ht ?_ fun B hB => hAs B (List.mem_cons_of_mem _ hB)⟩
        intro w hw
        rcases List.mem_append.mp hw with hw | hw
        · exact hacc w hw
        · simp only [List.mem_singleton] at hw
          rw [hw]
          have hs := convert_sound (σ := σ) (F := F) (O := O) hQ hc (TROk.mono N e2 ht)
          have hz' : z = r.toZ := by
            cases r <;> simp [boolArg] at hz <;> exact hz.symm
          unfold HoldsZ
          rw [hz', hs]
          exact hAs A (List.mem_cons_self)
      · simp at h
    · rename_i st1 hc
      obtain ⟨e2, p2⟩ := ih st1 acc acc' st' h
      have e1 := convert_ext hQ hc
      exact ⟨e1.trans e2, fun ht hacc hAs => p2 ht hacc fun B hB => hAs B (List.mem_cons_of_mem _ hB)⟩
    · simp at h

/-- Core of `solve_sound`: if all premises hold in HOL but the conclusion does not, the
valuation satisfies every assertion `solve_core` gives to Z3 — provided it interprets the
auxiliary constants as intended (`TROk`: rx = of_nat x; `hside`: the recorded `… ≥ 0`). -/
theorem solveCore_countermodel (hQ : Compat N Q) {vars : List (String × Ty)} {As : List H} {C : H}
    {zs : List Z} {st' : St} (h : solveCoreFull vars As C = .ok (zs, st'))
    (ht : TROk N σ st') (hside : ∀ p ∈ st'.assms, HoldsZ N Q (div0H N) σ F p.2)
    (hAs : ∀ A ∈ As, HoldsH N Q O σ F A) (hC : ¬ HoldsH N Q O σ F C) :
    ∀ z ∈ zs, HoldsZ N Q (div0H N) σ F z := by
  unfold solveCoreFull at h
  simp only at h
  split at h
  · simp at h
  · split at h
    · simp at h
    · rename_i acc st haux
      have side : ∀ z ∈ st'.assms.map (·.2), HoldsZ N Q (div0H N) σ F z := by
        intro z hz
        obtain ⟨p, hp, rfl⟩ := List.mem_map.mp hz
        exact hside p hp
      split at h
      · rename_i r st1 hc
        split at h
        · rename_i z hz
          simp only [Except.ok.injEq, Prod.mk.injEq] at h
          obtain ⟨rfl, rfl⟩ := h
          have e2 := convert_ext hQ hc
          obtain ⟨_, p1⟩ := solveCoreAux_good (σ := σ) (F := F) (O := O) hQ As _ [] acc st haux
          have hacc := p1 (TROk.mono N e2 ht) (fun _ h => by simp at h) hAs
          intro w hw
          rcases List.mem_append.mp hw with hw | hw
          · rcases List.mem_append.mp hw with hw | hw
            · exact hacc w hw
            · simp only [List.mem_singleton] at hw
              rw [hw]
              have hs := convert_sound (σ := σ) (F := F) (O := O) hQ hc ht
              have hz' : z = r.toZ := by
                cases r <;> simp [boolArg] at hz <;> exact hz.symm
              unfold HoldsZ
              show asBool (vnot (evalZ N Q (div0H N) σ F [] z)) = true
              rw [hz', hs]
              unfold HoldsH at hC
              show (!asBool (evalH N Q O σ F [] C)) = true
              simpa using hC
          · exact side w hw
        · simp at h
      · rename_i st1 hc
        simp only [Except.ok.injEq, Prod.mk.injEq] at h
        obtain ⟨rfl, rfl⟩ := h
        have e2 := convert_ext hQ hc
        obtain ⟨_, p1⟩ := solveCoreAux_good (σ := σ) (F := F) (O := O) hQ As _ [] acc st haux
        have hacc := p1 (TROk.mono N e2 ht) (fun _ h => by simp at h) hAs
        intro w hw
        rcases List.mem_append.mp hw with hw | hw
        · exact hacc w hw
        · exact side w hw
      · simp at h

end Holpy.C06
