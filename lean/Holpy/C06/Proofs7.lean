import Holpy.C06.Proofs6
/-
C06 — `conv` keeps the invariant of the tables and produces capture-free terms.
-/
namespace Holpy.C06

variable {vars : List (String × Ty)}

local notation "RG" env => RGood vars (List.map Prod.fst env)

theorem rmono (env : List (String × Ty)) : ∀ (a : R) (s s' : St), Grows s s' → (RG env) a s → (RG env) a s' :=
  fun a s s' g h => RGood.mono a s s' g h

theorem tmono {α : Type} : ∀ (a : α) (s s' : St), Grows s s' → (fun (_ : α) (_ : St) => True) a s → (fun (_ : α) (_ : St) => True) a s' :=
  fun _ _ _ _ _ => trivial

theorem conv_keeps (t : H) : ∀ env, t.scoped vars = true → Keeps vars env (conv env t) (RG env) := by
  induction t with
  | var x T =>
    intro env hs; simp only [conv]
    simp only [H.scoped, List.contains_iff_mem] at hs
    refine Keeps.bind tmono (Keeps.noteNat_var hs) fun _ => Keeps.pure fun s _ _ => ?_
    exact ⟨rfl, fun c hc => Or.inl (by
      simp only [R.toZ, Z.constNames, List.mem_singleton] at hc
      subst hc; exact List.mem_map.mpr ⟨(c, T), hs, rfl⟩)⟩
  | bv i =>
    intro env hs; simp only [conv]
    split
    · rename_i nm T he
      have hm : (nm, T) ∈ env := List.mem_of_getElem? he
      exact Keeps.bind tmono (Keeps.noteNat_bv hm) fun _ => Keeps.pure fun s _ _ => ZGood.lit (fun _ => rfl) rfl
    · exact Keeps.fail
  | num T q =>
    intro env hs; simp only [conv]
    split
    · exact Keeps.fail
    · refine Keeps.pure fun s _ => ?_
      split
      · exact ZGood.lit (fun _ => rfl) rfl
      · exact ZGood.lit (fun _ => rfl) rfl
  | tt => intro env hs; simp only [conv]; exact Keeps.pure fun s _ => ZGood.lit (fun _ => rfl) rfl
  | ff => intro env hs; simp only [conv]; exact Keeps.pure fun s _ => ZGood.lit (fun _ => rfl) rfl
  | eqFun k => intro env hs; simp only [conv]; exact Keeps.fail
  | unsup k => intro env hs; simp only [conv]; exact Keeps.fail
  | ofNatVar x =>
    intro env hs; simp only [conv]
    simp only [H.scoped, List.contains_iff_mem] at hs
    exact ofNatVar_keeps hs
  | not a iha =>
    intro env hs; simp only [conv]
    simp only [H.scoped] at hs
    refine Keeps.bind (rmono env) (iha env hs) fun a' => Keeps.bindE fun z hz => Keeps.pure fun s _ ha => ?_
    exact ZGood.un (f := Z.not) (fun _ _ => rfl) (fun _ => rfl) (boolArg_good hz ha)
  | and a b iha ihb =>
    intro env hs; simp only [conv]
    simp only [H.scoped, Bool.and_eq_true] at hs
    refine Keeps.bind (rmono env) (iha env hs.1) fun a' => Keeps.bind (rmono env) (ihb env hs.2) fun b' =>
      Keeps.bindE fun x hx => Keeps.bindE fun y hy => Keeps.pure fun s _ hb ha => ?_
    exact ZGood.bin (f := Z.and) (fun _ _ _ => rfl) (fun _ _ => rfl) (boolArg_good hx ha) (boolArg_good hy hb)
  | or a b iha ihb =>
    intro env hs; simp only [conv]
    simp only [H.scoped, Bool.and_eq_true] at hs
    refine Keeps.bind (rmono env) (iha env hs.1) fun a' => Keeps.bind (rmono env) (ihb env hs.2) fun b' =>
      Keeps.bindE fun x hx => Keeps.bindE fun y hy => Keeps.pure fun s _ hb ha => ?_
    exact ZGood.bin (f := Z.or) (fun _ _ _ => rfl) (fun _ _ => rfl) (boolArg_good hx ha) (boolArg_good hy hb)
  | imp a b iha ihb =>
    intro env hs; simp only [conv]
    simp only [H.scoped, Bool.and_eq_true] at hs
    refine Keeps.bind (rmono env) (iha env hs.1) fun a' => Keeps.bind (rmono env) (ihb env hs.2) fun b' =>
      Keeps.bindE fun x hx => Keeps.bindE fun y hy => Keeps.pure fun s _ hb ha => ?_
    exact ZGood.bin (f := Z.imp) (fun _ _ _ => rfl) (fun _ _ => rfl) (boolArg_good hx ha) (boolArg_good hy hb)
  | xor a b iha ihb =>
    intro env hs; simp only [conv]
    simp only [H.scoped, Bool.and_eq_true] at hs
    exact Keeps.bind (rmono env) (iha env hs.1) fun _ => Keeps.bind (rmono env) (ihb env hs.2) fun _ =>
      Keeps.bind (rmono env) (iha env hs.1) fun _ => Keeps.bind (rmono env) (ihb env hs.2) fun _ => Keeps.fail
  | eq a b iha ihb =>
    intro env hs; simp only [conv]
    simp only [H.scoped, Bool.and_eq_true] at hs
    exact Keeps.bind (rmono env) (iha env hs.1) fun a' => Keeps.bind (rmono env) (ihb env hs.2) fun b' =>
      Keeps.liftE fun r s _ hr hb ha => eqR_good hr ha hb
  | ite c a b ihc iha ihb =>
    intro env hs; simp only [conv]
    simp only [H.scoped, Bool.and_eq_true] at hs
    exact Keeps.bind (rmono env) (ihc env hs.1.1) fun c' => Keeps.bind (rmono env) (iha env hs.1.2) fun a' =>
      Keeps.bind (rmono env) (ihb env hs.2) fun b' => Keeps.liftE fun r s _ hr hb ha hc => iteR_good hr hc ha hb
  | all x T b ih =>
    intro env hs; simp only [conv]
    simp only [H.scoped] at hs
    refine Keeps.freshBind fun nm hne hnv => Keeps.bind (rmono _) (ih _ hs) fun b' => ?_
    split
    · refine Keeps.bindE fun z hz => Keeps.pure fun s hi hb => ?_
      exact ZGood.binder true hne hnv (hi.envIn _ List.mem_cons_self).2.2
        (ZGood.bin (f := Z.imp) (fun _ _ _ => rfl) (fun _ _ => rfl) ZGood.guard (boolArg_good hz hb))
    · cases b' with
      | z e => exact Keeps.pure fun s hi hb => ZGood.binder true hne hnv (hi.envIn _ List.mem_cons_self).2.2 hb
      | pi n => exact Keeps.fail
      | pb n => exact Keeps.fail
  | ex x T b ih =>
    intro env hs; simp only [conv]
    simp only [H.scoped] at hs
    refine Keeps.freshBind fun nm hne hnv => Keeps.bind (rmono _) (ih _ hs) fun b' => ?_
    split
    · refine Keeps.bindE fun z hz => Keeps.pure fun s hi hb => ?_
      exact ZGood.binder false hne hnv (hi.envIn _ List.mem_cons_self).2.2
        (ZGood.bin (f := Z.and) (fun _ _ _ => rfl) (fun _ _ => rfl) ZGood.guard (boolArg_good hz hb))
    · cases b' with
      | z e => exact Keeps.pure fun s hi hb => ZGood.binder false hne hnv (hi.envIn _ List.mem_cons_self).2.2 hb
      | pi n => exact Keeps.fail
      | pb n => exact Keeps.fail
  | add a b iha ihb =>
    intro env hs; simp only [conv]
    simp only [H.scoped, Bool.and_eq_true] at hs
    exact Keeps.bind (rmono env) (iha env hs.1) fun a' => Keeps.bind (rmono env) (ihb env hs.2) fun b' =>
      Keeps.liftE fun r s _ hr hb ha => arithR_good hr ha hb
  | mul a b iha ihb =>
    intro env hs; simp only [conv]
    simp only [H.scoped, Bool.and_eq_true] at hs
    exact Keeps.bind (rmono env) (iha env hs.1) fun a' => Keeps.bind (rmono env) (ihb env hs.2) fun b' =>
      Keeps.liftE fun r s _ hr hb ha => arithR_good hr ha hb
  | sub isNat a b iha ihb =>
    intro env hs; simp only [conv]
    simp only [H.scoped, Bool.and_eq_true] at hs
    refine Keeps.bind (rmono env) (iha env hs.1) fun m => Keeps.bind (rmono env) (ihb env hs.2) fun n => ?_
    cases isNat
    · simp only [Bool.false_eq_true, if_false]
      exact Keeps.liftE fun r s _ hr hb ha => arithR_good hr ha hb
    · simp only [if_true]
      exact Keeps.bindE fun c hc => Keeps.bindE fun d hd => Keeps.liftE fun r s _ hr hb ha =>
        iteR_good hr (cmpR_good hc ha hb) (arithR_good hd ha hb) (RGood.toZ_lit 0)
  | div a b iha ihb =>
    intro env hs; simp only [conv]
    simp only [H.scoped, Bool.and_eq_true] at hs
    refine Keeps.bind (rmono env) (iha env hs.1) fun a' => Keeps.bind (rmono env) (ihb env hs.2) fun b' => ?_
    cases a' <;> cases b' <;> first | exact Keeps.fail | skip
    exact Keeps.pure fun s _ hb ha => ZGood.bin (f := Z.div) (fun _ _ _ => rfl) (fun _ _ => rfl) ha hb
  | neg isNat a iha =>
    intro env hs; simp only [conv]
    simp only [H.scoped] at hs
    cases isNat
    · simp only [Bool.false_eq_true, if_false]
      refine Keeps.bind (rmono env) (iha env hs) fun a' => ?_
      cases a' with
      | pi n => exact Keeps.pure fun s _ _ => RGood.toZ_lit _
      | z e => exact Keeps.pure fun s _ ha => ZGood.un (f := Z.neg) (fun _ _ => rfl) (fun _ => rfl) ha
      | pb b => exact Keeps.fail
    · simp only [if_true]; exact Keeps.fail
  | le a b iha ihb =>
    intro env hs; simp only [conv]
    simp only [H.scoped, Bool.and_eq_true] at hs
    exact Keeps.bind (rmono env) (iha env hs.1) fun a' => Keeps.bind (rmono env) (ihb env hs.2) fun b' =>
      Keeps.liftE fun r s _ hr hb ha => cmpR_good hr ha hb
  | lt a b iha ihb =>
    intro env hs; simp only [conv]
    simp only [H.scoped, Bool.and_eq_true] at hs
    exact Keeps.bind (rmono env) (iha env hs.1) fun a' => Keeps.bind (rmono env) (ihb env hs.2) fun b' =>
      Keeps.liftE fun r s _ hr hb ha => cmpR_good hr ha hb
  | ge a b iha ihb =>
    intro env hs; simp only [conv]
    simp only [H.scoped, Bool.and_eq_true] at hs
    exact Keeps.bind (rmono env) (iha env hs.1) fun a' => Keeps.bind (rmono env) (ihb env hs.2) fun b' =>
      Keeps.liftE fun r s _ hr hb ha => cmpR_good hr ha hb
  | gt a b iha ihb =>
    intro env hs; simp only [conv]
    simp only [H.scoped, Bool.and_eq_true] at hs
    exact Keeps.bind (rmono env) (iha env hs.1) fun a' => Keeps.bind (rmono env) (ihb env hs.2) fun b' =>
      Keeps.liftE fun r s _ hr hb ha => cmpR_good hr ha hb
  | ofNat a iha =>
    intro env hs; simp only [conv]
    simp only [H.scoped] at hs
    refine Keeps.bind (rmono env) (iha env hs) fun a' => ?_
    cases a' with
    | z e => exact Keeps.pure fun s _ ha => ZGood.un (f := Z.toReal) (fun _ _ => rfl) (fun _ => rfl) ha
    | pi n => exact Keeps.fail
    | pb b => exact Keeps.fail
  | max a b iha ihb =>
    intro env hs; simp only [conv]
    simp only [H.scoped, Bool.and_eq_true] at hs
    exact Keeps.bind (rmono env) (iha env hs.1) fun a' => Keeps.bind (rmono env) (ihb env hs.2) fun b' =>
      Keeps.bindE fun c hc => Keeps.liftE fun r s _ hr hb ha => iteR_good hr (cmpR_good hc ha hb) ha hb
  | min a b iha ihb =>
    intro env hs; simp only [conv]
    simp only [H.scoped, Bool.and_eq_true] at hs
    exact Keeps.bind (rmono env) (iha env hs.1) fun a' => Keeps.bind (rmono env) (ihb env hs.2) fun b' =>
      Keeps.bindE fun c hc => Keeps.liftE fun r s _ hr hb ha => iteR_good hr (cmpR_good hc ha hb) ha hb
  | abs isReal a iha =>
    intro env hs; simp only [conv]
    simp only [H.scoped] at hs
    refine Keeps.bind (rmono env) (iha env hs) fun a' => ?_
    cases a' with
    | z e =>
      refine Keeps.pure fun s _ ha => ?_
      have hz : ZGood vars (List.map Prod.fst env) s (if isReal = true then Z.rlit 0 else Z.ilit 0) := by
        cases isReal <;> exact ZGood.lit (fun _ => rfl) rfl
      exact ZGood.ite (ZGood.bin (f := Z.ge) (fun _ _ _ => rfl) (fun _ _ => rfl) ha hz) ha
        (ZGood.un (f := Z.neg) (fun _ _ => rfl) (fun _ => rfl) ha)
    | pi n =>
      cases isReal
      · exact Keeps.pure fun s _ _ => ZGood.ite (RGood.toZ_bool _) (RGood.toZ_lit _) (RGood.toZ_lit _)
      · exact Keeps.fail
    | pb b => exact Keeps.fail
  | app f dom cod a iha =>
    intro env hs; simp only [conv]
    simp only [H.scoped] at hs
    exact Keeps.bind (rmono env) (iha env hs) fun a' => Keeps.pure fun s _ ha =>
      ZGood.un (f := Z.app f dom.srt cod.srt) (fun _ _ => rfl) (fun _ => rfl) ha
  | mem a S dom iha =>
    intro env hs; simp only [conv]
    simp only [H.scoped] at hs
    exact Keeps.bind (rmono env) (iha env hs) fun a' => Keeps.pure fun s _ ha =>
      ZGood.un (f := Z.app S dom.srt .bool) (fun _ _ => rfl) (fun _ => rfl) ha

end Holpy.C06
