import Holpy.C06.Proofs5
/-
C06 — the names `convert` generates are fresh: invariant of the tables, no capture in the output.
-/
namespace Holpy.C06

/-- Invariant of the tables threaded through `convert`, relative to the declared variables and
to the names `env` given to the enclosing binders. -/
structure Inv (vars : List (String × Ty)) (env : List (String × Ty)) (s : St) : Prop where
  base : ∀ p ∈ vars, p.1 ∈ s.varNames
  envIn : ∀ p ∈ env, p.1 ∈ s.varNames ∧ p.1 ∉ vars.map (·.1) ∧ p.1 ∉ s.toReal.map (·.2)
  rxIn : ∀ p ∈ s.toReal, p.2 ∈ s.varNames
  assmsIn : ∀ p ∈ s.assms, p.1 ∈ s.varNames
  fin : FinalOk vars s

def Grows (s s' : St) : Prop := ∀ c, c ∈ s.toReal.map (·.2) → c ∈ s'.toReal.map (·.2)

theorem Grows.refl (s : St) : Grows s s := fun _ h => h
theorem Grows.trans {a b c : St} (h1 : Grows a b) (h2 : Grows b c) : Grows a c := fun x h => h2 x (h1 x h)

/-- a Z3 term without capture whose constants are declared variables or auxiliary reals -/
def ZGood (vars : List (String × Ty)) (outer : List String) (s : St) (e : Z) : Prop :=
  e.noCapture outer = true ∧ ∀ c ∈ e.constNames, c ∈ vars.map (·.1) ∨ c ∈ s.toReal.map (·.2)

def RGood (vars : List (String × Ty)) (outer : List String) (r : R) (s : St) : Prop :=
  ZGood vars outer s r.toZ

variable {vars : List (String × Ty)} {outer : List String}

theorem ZGood.mono {s s' : St} {e : Z} (h : Grows s s') (hg : ZGood vars outer s e) : ZGood vars outer s' e :=
  ⟨hg.1, fun c hc => (hg.2 c hc).imp id (h c)⟩

theorem RGood.mono (r : R) (s s' : St) (h : Grows s s') (hg : RGood vars outer r s) : RGood vars outer r s' :=
  ZGood.mono h hg

theorem ZGood.lit {s : St} {e : Z} (h1 : ∀ o, e.noCapture o = true) (h2 : e.constNames = []) : ZGood vars outer s e :=
  ⟨h1 _, fun c hc => by rw [h2] at hc; simp at hc⟩

theorem ZGood.un {s : St} {f : Z → Z} (h1 : ∀ a o, (f a).noCapture o = a.noCapture o)
    (h2 : ∀ a, (f a).constNames = a.constNames) {a : Z} (ha : ZGood vars outer s a) : ZGood vars outer s (f a) :=
  ⟨by rw [h1]; exact ha.1, fun c hc => ha.2 c (by rw [h2] at hc; exact hc)⟩

theorem ZGood.bin {s : St} {f : Z → Z → Z} (h1 : ∀ a b o, (f a b).noCapture o = (a.noCapture o && b.noCapture o))
    (h2 : ∀ a b, (f a b).constNames = a.constNames ++ b.constNames) {a b : Z}
    (ha : ZGood vars outer s a) (hb : ZGood vars outer s b) : ZGood vars outer s (f a b) :=
  ⟨by rw [h1, ha.1, hb.1]; rfl, fun c hc => by
    rw [h2] at hc
    rcases List.mem_append.mp hc with h | h
    · exact ha.2 c h
    · exact hb.2 c h⟩

theorem ZGood.ite {s : St} {c a b : Z} (hc : ZGood vars outer s c) (ha : ZGood vars outer s a)
    (hb : ZGood vars outer s b) : ZGood vars outer s (.ite c a b) :=
  ⟨by simp only [Z.noCapture, hc.1, ha.1, hb.1]; rfl, fun x hx => by
    simp only [Z.constNames, List.mem_append] at hx
    rcases hx with (h | h) | h
    · exact hc.2 x h
    · exact ha.2 x h
    · exact hb.2 x h⟩

theorem RGood.toZ_lit {s : St} (n : Int) : ZGood vars outer s (.ilit n) := ZGood.lit (fun _ => rfl) rfl
theorem RGood.toZ_bool {s : St} (b : Bool) : ZGood vars outer s (.bconst b) := ZGood.lit (fun _ => rfl) rfl

theorem Cmp.mk_good {s : St} (op : Cmp) {a b : Z} (ha : ZGood vars outer s a) (hb : ZGood vars outer s b) :
    ZGood vars outer s (op.mk a b) := by
  cases op <;> exact ZGood.bin (fun _ _ _ => rfl) (fun _ _ => rfl) ha hb

theorem Arith.mk_good {s : St} (op : Arith) {a b : Z} (ha : ZGood vars outer s a) (hb : ZGood vars outer s b) :
    ZGood vars outer s (op.mk a b) := by
  cases op <;> exact ZGood.bin (fun _ _ _ => rfl) (fun _ _ => rfl) ha hb

theorem cmpR_good {s : St} {op : Cmp} {a b r : R} (h : cmpR op a b = .ok r)
    (ha : RGood vars outer a s) (hb : RGood vars outer b s) : RGood vars outer r s := by
  cases a <;> cases b <;> simp [cmpR] at h <;> subst h
  · exact RGood.toZ_bool _
  · exact Cmp.mk_good _ hb (RGood.toZ_lit _)
  · exact Cmp.mk_good _ ha (RGood.toZ_lit _)
  · show ZGood vars outer s (if _ then _ else _)
    split
    · exact Cmp.mk_good _ hb ha
    · exact Cmp.mk_good _ ha hb

theorem eqR_good {s : St} {a b r : R} (h : eqR a b = .ok r)
    (ha : RGood vars outer a s) (hb : RGood vars outer b s) : RGood vars outer r s := by
  cases a <;> cases b <;> simp [eqR] at h <;> subst h
  · exact RGood.toZ_bool _
  · exact ZGood.bin (f := Z.eq) (fun _ _ _ => rfl) (fun _ _ => rfl) hb (RGood.toZ_lit _)
  · exact RGood.toZ_bool _
  · exact ZGood.bin (f := Z.eq) (fun _ _ _ => rfl) (fun _ _ => rfl) hb (RGood.toZ_bool _)
  · exact ZGood.bin (f := Z.eq) (fun _ _ _ => rfl) (fun _ _ => rfl) ha (RGood.toZ_lit _)
  · exact ZGood.bin (f := Z.eq) (fun _ _ _ => rfl) (fun _ _ => rfl) ha (RGood.toZ_bool _)
  · show ZGood vars outer s (if _ then _ else _)
    split
    · exact ZGood.bin (f := Z.eq) (fun _ _ _ => rfl) (fun _ _ => rfl) hb ha
    · exact ZGood.bin (f := Z.eq) (fun _ _ _ => rfl) (fun _ _ => rfl) ha hb

theorem arithR_good {s : St} {op : Arith} {a b r : R} (h : arithR op a b = .ok r)
    (ha : RGood vars outer a s) (hb : RGood vars outer b s) : RGood vars outer r s := by
  cases a <;> cases b <;> simp [arithR] at h <;> subst h
  all_goals first
    | exact RGood.toZ_lit _
    | exact Arith.mk_good _ ha hb

theorem boolArg_good {s : St} {r : R} {z : Z} (h : boolArg r = .ok z) (hr : RGood vars outer r s) :
    ZGood vars outer s z := by
  cases r <;> simp [boolArg] at h <;> subst h <;> exact hr

theorem iteR_good {s : St} {c a b r : R} (h : iteR c a b = .ok r) (hc : RGood vars outer c s)
    (ha : RGood vars outer a s) (hb : RGood vars outer b s) : RGood vars outer r s := by
  unfold iteR at h
  cases hcz : boolArg c with
  | error e => simp [hcz, bind, Except.bind] at h
  | ok z =>
    simp [hcz, bind, Except.bind] at h
    subst h
    exact ZGood.ite (boolArg_good hcz hc) ha hb

/-- a computation that keeps the invariant, only adds auxiliary reals, and whose results satisfy P -/
def Keeps {α : Type} (vars env : List (String × Ty)) (m : M α) (P : α → St → Prop) : Prop :=
  ∀ s res s', m s = (res, s') → Inv vars env s → Inv vars env s' ∧ Grows s s' ∧ ∀ a, res = .ok a → P a s'

variable {env : List (String × Ty)}

theorem Keeps.pure {α : Type} {a : α} {P : α → St → Prop} (h : ∀ s, Inv vars env s → P a s) :
    Keeps vars env (Pure.pure a : M α) P := by
  intro s res s' hrun hi
  change M.pure a s = _ at hrun
  simp only [M.pure, Prod.mk.injEq] at hrun
  obtain ⟨rfl, rfl⟩ := hrun
  refine ⟨hi, Grows.refl _, fun a' ha => ?_⟩
  simp only [Except.ok.injEq] at ha
  exact ha ▸ h _ hi

theorem Keeps.fail {α : Type} {e : Err} {P : α → St → Prop} : Keeps vars env (failM e : M α) P := by
  intro s res s' hrun hi
  simp only [failM, Prod.mk.injEq] at hrun
  obtain ⟨rfl, rfl⟩ := hrun
  exact ⟨hi, Grows.refl _, fun b hb => by simp at hb⟩

theorem Keeps.liftE {α : Type} {x : Except Err α} {P : α → St → Prop} (h : ∀ a s, Inv vars env s → x = .ok a → P a s) :
    Keeps vars env (liftE x) P := by
  intro s res s' hrun hi
  simp only [Holpy.C06.liftE, Prod.mk.injEq] at hrun
  obtain ⟨rfl, rfl⟩ := hrun
  exact ⟨hi, Grows.refl _, fun b hb => h b _ hi hb⟩

theorem Keeps.bind {α β : Type} {m : M α} {f : α → M β} {P : α → St → Prop} {Q : β → St → Prop}
    (hP : ∀ a s s', Grows s s' → P a s → P a s')
    (hm : Keeps vars env m P) (hf : ∀ a, Keeps vars env (f a) (fun b s' => P a s' → Q b s')) :
    Keeps vars env (m >>= f) Q := by
  intro s res s' hrun hi
  change M.bind m f s = _ at hrun
  unfold M.bind at hrun
  split at hrun
  · rename_i a s1 hm1
    obtain ⟨i1, g1, p1⟩ := hm s _ s1 hm1 hi
    obtain ⟨i2, g2, p2⟩ := hf a s1 res s' hrun i1
    exact ⟨i2, g1.trans g2, fun b hb => p2 b hb (hP a s1 s' g2 (p1 a rfl))⟩
  · rename_i e s1 hm1
    simp only [Prod.mk.injEq] at hrun
    obtain ⟨rfl, rfl⟩ := hrun
    obtain ⟨i1, g1, _⟩ := hm s _ _ hm1 hi
    exact ⟨i1, g1, fun b hb => by simp at hb⟩

theorem Inv.weaken {p : String × Ty} {s : St} (h : Inv vars (p :: env) s) : Inv vars env s :=
  ⟨h.base, fun q hq => h.envIn q (List.mem_cons_of_mem _ hq), h.rxIn, h.assmsIn, h.fin⟩

/-- adding an assumption `k ≥ 0` on an integer constant that is a declared nat variable or a
binder name -/
theorem Inv.addAssm {s : St} (hi : Inv vars env s) (k : String) (hk : k ∈ s.varNames)
    (hkind : (k, Ty.nat) ∈ vars ∨ (k ∉ vars.map (·.1) ∧ k ∉ s.toReal.map (·.2))) :
    Inv vars env { s with assms := s.assms ++ [(k, .ge (.const k .int) (.ilit 0))] } := by
  refine ⟨hi.base, hi.envIn, hi.rxIn, ?_, ⟨hi.fin.rx_fresh, hi.fin.rx_nodup, hi.fin.rx_nat, ?_⟩⟩
  · intro p hp
    rcases List.mem_append.mp hp with h | h
    · exact hi.assmsIn p h
    · simp only [List.mem_singleton] at h; subst h; exact hk
  · intro p hp
    rcases List.mem_append.mp hp with h | h
    · exact hi.fin.assms_ok p h
    · simp only [List.mem_singleton] at h; subst h
      exact Or.inl ⟨rfl, hkind⟩

theorem Keeps.noteNat_var {x : String} {T : Ty} (hx : (x, T) ∈ vars) :
    Keeps vars env (noteNat x T (.const x T.srt)) (fun _ _ => True) := by
  intro s res s' hrun hi
  unfold Holpy.C06.noteNat at hrun
  split at hrun
  · rename_i hc
    simp only [Prod.mk.injEq] at hrun
    obtain ⟨rfl, rfl⟩ := hrun
    simp only [Bool.and_eq_true, beq_iff_eq] at hc
    obtain ⟨hT, _⟩ := hc
    subst hT
    exact ⟨hi.addAssm x (hi.base _ hx) (Or.inl hx), fun _ h => h, fun _ _ => trivial⟩
  · simp only [Prod.mk.injEq] at hrun
    obtain ⟨rfl, rfl⟩ := hrun
    exact ⟨hi, Grows.refl _, fun _ _ => trivial⟩

theorem Keeps.noteNat_bv {nm : String} {T : Ty} (hx : (nm, T) ∈ env) :
    Keeps vars env (noteNat nm T (.const nm T.srt)) (fun _ _ => True) := by
  intro s res s' hrun hi
  unfold Holpy.C06.noteNat at hrun
  split at hrun
  · rename_i hc
    simp only [Prod.mk.injEq] at hrun
    obtain ⟨rfl, rfl⟩ := hrun
    simp only [Bool.and_eq_true, beq_iff_eq] at hc
    obtain ⟨hT, _⟩ := hc
    subst hT
    obtain ⟨h1, h2, h3⟩ := hi.envIn _ hx
    exact ⟨hi.addAssm nm h1 (Or.inr ⟨h2, h3⟩), fun _ h => h, fun _ _ => trivial⟩
  · simp only [Prod.mk.injEq] at hrun
    obtain ⟨rfl, rfl⟩ := hrun
    exact ⟨hi, Grows.refl _, fun _ _ => trivial⟩

/-- a binder: the generated name is new, the body is converted with the name pushed on `env` -/
theorem Keeps.freshBind {α : Type} {x : String} {T : Ty} {k : String → M α} {Q : α → St → Prop}
    (h : ∀ nm, nm ∉ env.map (·.1) → nm ∉ vars.map (·.1) → Keeps vars ((nm, T) :: env) (k nm) Q) :
    Keeps vars env (freshName x >>= k) Q := by
  intro s res s' hrun hi
  change M.bind (freshName x) k s = _ at hrun
  unfold M.bind freshName at hrun
  cases hv : variantName x s.varNames with
  | none =>
    simp only [hv, Prod.mk.injEq] at hrun
    obtain ⟨rfl, rfl⟩ := hrun
    exact ⟨hi, Grows.refl _, fun b hb => by simp at hb⟩
  | some nm =>
    simp only [hv] at hrun
    have hfresh : nm ∉ s.varNames := variantName_fresh hv
    have hnv : nm ∉ vars.map (·.1) := by
      intro hm
      obtain ⟨q, hq, he⟩ := List.mem_map.mp hm
      exact hfresh (he ▸ hi.base q hq)
    have hne : nm ∉ env.map (·.1) := by
      intro hm
      obtain ⟨q, hq, he⟩ := List.mem_map.mp hm
      exact hfresh (he ▸ (hi.envIn q hq).1)
    have hnr : nm ∉ s.toReal.map (·.2) := by
      intro hm
      obtain ⟨q, hq, he⟩ := List.mem_map.mp hm
      exact hfresh (he ▸ hi.rxIn q hq)
    have hi1 : Inv vars ((nm, T) :: env) { s with varNames := s.varNames ++ [nm] } := by
      refine ⟨fun p hp => List.mem_append_left _ (hi.base p hp), ?_, fun p hp => List.mem_append_left _ (hi.rxIn p hp),
        fun p hp => List.mem_append_left _ (hi.assmsIn p hp),
        ⟨hi.fin.rx_fresh, hi.fin.rx_nodup, hi.fin.rx_nat, hi.fin.assms_ok⟩⟩
      intro p hp
      rcases List.mem_cons.mp hp with rfl | hp
      · exact ⟨List.mem_append_right _ (List.mem_singleton.mpr rfl), hnv, hnr⟩
      · obtain ⟨a, b, c⟩ := hi.envIn p hp
        exact ⟨List.mem_append_left _ a, b, c⟩
    obtain ⟨i2, g2, p2⟩ := h nm hne hnv _ res s' hrun hi1
    exact ⟨i2.weaken, g2, p2⟩

theorem ofNatVar_keeps {x : String} (hx : (x, Ty.nat) ∈ vars) :
    Keeps vars env (ofNatVarM x) (RGood vars outer) := by
  intro s res s' hrun hi
  unfold ofNatVarM at hrun
  split at hrun
  · rename_i rx hl
    simp only [Prod.mk.injEq] at hrun
    obtain ⟨rfl, rfl⟩ := hrun
    refine ⟨hi, Grows.refl _, fun a ha => ?_⟩
    simp only [Except.ok.injEq] at ha
    subst ha
    refine ⟨rfl, fun c hc => Or.inr ?_⟩
    simp only [R.toZ, Z.constNames, List.mem_singleton] at hc
    subst hc
    exact List.mem_map.mpr ⟨(x, c), lookup_mem hl, rfl⟩
  · cases hv : variantName ("r" ++ x) s.varNames with
    | none =>
      simp only [hv, Prod.mk.injEq] at hrun
      obtain ⟨rfl, rfl⟩ := hrun
      exact ⟨hi, Grows.refl _, fun b hb => by simp at hb⟩
    | some nm =>
      simp only [hv, Prod.mk.injEq] at hrun
      obtain ⟨rfl, rfl⟩ := hrun
      have hfresh : nm ∉ s.varNames := variantName_fresh hv
      have hnv : nm ∉ vars.map (·.1) := by
        intro hm
        obtain ⟨q, hq, he⟩ := List.mem_map.mp hm
        exact hfresh (he ▸ hi.base q hq)
      have hnr : nm ∉ s.toReal.map (·.2) := by
        intro hm
        obtain ⟨q, hq, he⟩ := List.mem_map.mp hm
        exact hfresh (he ▸ hi.rxIn q hq)
      refine ⟨⟨fun p hp => List.mem_append_left _ (hi.base p hp), ?_, ?_, ?_, ⟨?_, ?_, ?_, ?_⟩⟩, ?_, ?_⟩
      · intro p hp
        obtain ⟨a, b, c⟩ := hi.envIn p hp
        refine ⟨List.mem_append_left _ a, b, ?_⟩
        simp only [List.map_append, List.map_cons, List.map_nil, List.mem_append, List.mem_singleton, not_or]
        exact ⟨c, fun e => hfresh (e ▸ a)⟩
      · intro p hp
        rcases List.mem_append.mp hp with h | h
        · exact List.mem_append_left _ (hi.rxIn p h)
        · simp only [List.mem_singleton] at h; subst h
          exact List.mem_append_right _ (List.mem_singleton.mpr rfl)
      · intro p hp
        rcases List.mem_append.mp hp with h | h
        · exact List.mem_append_left _ (hi.assmsIn p (List.mem_filter.mp h).1)
        · simp only [List.mem_singleton] at h; subst h
          exact List.mem_append_right _ (List.mem_singleton.mpr rfl)
      · intro p hp
        rcases List.mem_append.mp hp with h | h
        · exact hi.fin.rx_fresh p h
        · simp only [List.mem_singleton] at h; subst h; exact hnv
      · simp only [List.map_append, List.map_cons, List.map_nil]
        refine List.nodup_append.mpr ⟨hi.fin.rx_nodup, by simp, ?_⟩
        intro a ha b hb
        simp only [List.mem_singleton] at hb
        subst hb
        exact fun e => hnr (e ▸ ha)
      · intro p hp
        rcases List.mem_append.mp hp with h | h
        · exact hi.fin.rx_nat p h
        · simp only [List.mem_singleton] at h; subst h; exact hx
      · intro p hp
        rcases List.mem_append.mp hp with h | h
        · have hp0 := (List.mem_filter.mp h).1
          rcases hi.fin.assms_ok p hp0 with ⟨he, hk⟩ | ⟨he, hk⟩
          · refine Or.inl ⟨he, hk.imp id fun ⟨a, b⟩ => ⟨a, ?_⟩⟩
            simp only [List.map_append, List.map_cons, List.map_nil, List.mem_append, List.mem_singleton, not_or]
            exact ⟨b, fun e => hfresh (e ▸ hi.assmsIn p hp0)⟩
          · exact Or.inr ⟨he, by simp only [List.map_append, List.mem_append]; exact Or.inl hk⟩
        · simp only [List.mem_singleton] at h; subst h
          exact Or.inr ⟨rfl, by simp⟩
      · intro c hc
        simp only [List.map_append, List.mem_append]
        exact Or.inl hc
      · intro a ha
        simp only [Except.ok.injEq] at ha
        subst ha
        refine ⟨rfl, fun c hc => Or.inr ?_⟩
        simp only [R.toZ, Z.constNames, List.mem_singleton] at hc
        subst hc
        simp

theorem Keeps.bindE {α β : Type} {x : Except Err α} {f : α → M β} {Q : β → St → Prop}
    (h : ∀ a, x = .ok a → Keeps vars env (f a) Q) : Keeps vars env (Holpy.C06.liftE x >>= f) Q := by
  intro s res s' hrun hi
  change M.bind (Holpy.C06.liftE x) f s = _ at hrun
  unfold M.bind Holpy.C06.liftE at hrun
  cases x with
  | ok a => exact h a rfl s res s' hrun hi
  | error e =>
    simp only [Prod.mk.injEq] at hrun
    obtain ⟨rfl, rfl⟩ := hrun
    exact ⟨hi, Grows.refl _, fun b hb => by simp at hb⟩

theorem ZGood.binder {s : St} {nm : String} {srt : Srt} {body : Z} (all : Bool)
    (h1 : nm ∉ outer) (h2 : nm ∉ vars.map (·.1)) (h3 : nm ∉ s.toReal.map (·.2))
    (hb : ZGood vars (nm :: outer) s body) :
    ZGood vars outer s (if all then .all nm srt body else .ex nm srt body) := by
  have hc : body.constNames.contains nm = false := by
    cases hcc : body.constNames.contains nm
    · rfl
    · rcases hb.2 nm (List.contains_iff_mem.mp hcc) with h | h
      · exact absurd h h2
      · exact absurd h h3
  have ho : outer.contains nm = false := by
    cases hcc : outer.contains nm
    · rfl
    · exact absurd (List.contains_iff_mem.mp hcc) h1
  cases all
  · exact ⟨by simp only [Bool.false_eq_true, if_false, Z.noCapture, ho, hc, hb.1]; rfl, fun c hcn => hb.2 c hcn⟩
  · exact ⟨by simp only [if_true, Z.noCapture, ho, hc, hb.1]; rfl, fun c hcn => hb.2 c hcn⟩

theorem ZGood.guard {s : St} : ZGood vars outer s (.ge (.bv 0 .int) (.ilit 0)) := ZGood.lit (fun _ => rfl) rfl

end Holpy.C06
